#!/bin/sh
# Build the framework from files on disk only (offline): Lean model + proofs + driver, Rust harness,
# filesystem interposer.
set -e
cd "$(dirname "$0")"
export CARGO_NET_OFFLINE=true
(cd lean && lake build CasModel casmodel)
[ -f harness/Cargo.lock ] || cp /repo/Cargo.lock harness/Cargo.lock
(cd harness && cargo build --offline)
if [ -f interpose/fsio.c ]; then
  gcc -O2 -shared -fPIC -o interpose/fsio.so interpose/fsio.c -ldl -lpthread
fi
echo setup-ok
