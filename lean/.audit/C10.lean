import CasModel.Props.C10
open CasModel
#print axioms C10_truncation_segment
#print axioms C10_byte_change_payload
#print axioms C10_byte_change_checksum
#print axioms readSegmentFuel_truncated
#print axioms readSegmentFuel_corrupt
#print axioms readSegmentFuel_encodeAll
