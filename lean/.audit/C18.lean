import CasModel.Props.C18
open CasModel
#print axioms C18_path_roundtrip
#print axioms C18_path_roundtrip_prefixed
#print axioms C18_path_injective
#print axioms C18_path_shape
#print axioms fromCanonicalPath_iff
#print axioms decodeHex_toHex
