import CasModel.Props.C17
open CasModel
#print axioms C17_get_range
#print axioms C17_inverted_rejected
#print axioms C17_start_beyond
#print axioms readLoop_eq
