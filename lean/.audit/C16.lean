import CasModel.Props.C16
import CasModel.Props.C10
open CasModel
#print axioms C16_walop_roundtrip
#print axioms C16_index_roundtrip
#print axioms C16_alloc_bound_walop
#print axioms C16_alloc_bound_put
#print axioms C16_alloc_bound_index
#print axioms readKeys_bound
#print axioms readEntries_bound
#print axioms leNat_leBytes
#print axioms leBytes_leNat
#print axioms C16_entry_roundtrip
#print axioms C16_segment_roundtrip
