import CasModel.Bytes
import CasModel.Codec
import CasModel.Frame
import CasModel.Path
import CasModel.Range
import CasModel.Proofs.CodecLemmas
