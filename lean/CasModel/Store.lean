import CasModel.Fs
import CasModel.Codec
import CasModel.Frame
import CasModel.Path
import CasModel.Keys
import CasModel.Index
import CasModel.Range
import CasModel.Orphan
/-
  Store: the sequential store as *event scripts*.  Every API call is a pure function from the
  pre-state (memory + disk) to the list of successful mutating filesystem calls it issues, the
  new memory and the result.  A crash at call k is "apply the first k events, forget memory".
  Sources: src/cas.rs, src/transaction.rs, src/cas_manager.rs, src/index/manager.rs,
  src/index/persistence.rs, src/wal/{manager,replay,storage}.rs, src/settings.rs, src/io.rs.
  `H` is the hash function (BLAKE3 in the driver; a parameter for every theorem).
-/
namespace CasModel

structure Config where
  kind : KeyKind := .bytes
  N : Nat := 10000              -- num_ops_per_wal (≥ 1)
  sync : Bool := true           -- SyncMode::Sync
  pre : Bool := false           -- pre_create_cas_dirs
  scan : Bool := true           -- scan_orphans_on_startup
  verify : Bool := false        -- verify_blob_integrity
  failOnIntegrity : Bool := true
  deriving Repr

/-- in-memory state of an open handle -/
structure Mem where
  cfg : Config
  idx : IndexState Bytes := {}
  next : Nat := 1               -- WalManager.next_op_version
  active : Option Nat := none   -- segment id of the active SegmentWriter
  preCreated : Bool := false    -- CasManager.dir_tree_is_pre_created
  walBuf : Bytes := []          -- bytes retained in the active SegmentWriter's BufWriter after a failed flush
  protectedFailed : List Bytes := []   -- hashes kept protected because their put's append failed (F4 repair)
  deriving Repr

inductive OpenErr where
  | alreadyOpened
  | settingsParse
  | unsupportedVersion
  | validation
  | emptyIndex
  | decodeIndex (e : DecErr)
  | decodeKey
  | replayRead (e : ReadErr)
  | replayDecode (e : DecErr)
  | replayConvert
  | integrity (missing corrupted : Nat)
  | panic (p : IdxPanic)
  deriving DecidableEq, Repr

def segOf (N v : Nat) : Nat := (v - 1) / N

/-! ### settings file (src/settings.rs); serde_json's output for `DbSettings` -/

def asciiBytes (s : String) : Bytes := s.toUTF8.toList

def natDigits (n : Nat) : Bytes := asciiBytes (toString n)

def renderSettings (ver : Nat) (pre : Bool) (N : Nat) : Bytes :=
  asciiBytes "{\"version\":" ++ natDigits ver ++ asciiBytes ",\"dir_tree_is_pre_created\":" ++
  asciiBytes (if pre then "true" else "false") ++ asciiBytes ",\"num_ops_per_wal\":" ++
  natDigits N ++ asciiBytes "}"

def stripPrefix (p bs : Bytes) : Option Bytes :=
  if p.isPrefixOf bs then some (bs.drop p.length) else none

def takeDigits (bs : Bytes) : Nat × Bytes × Nat :=     -- value, rest, #digits
  let ds := bs.takeWhile (fun b => 48 ≤ b.toNat ∧ b.toNat ≤ 57)
  (ds.foldl (fun acc b => acc * 10 + (b.toNat - 48)) 0, bs.drop ds.length, ds.length)

/-- parses exactly the canonical rendering (any numbers); everything else is "malformed".
    version must fit u32, num_ops_per_wal must be a non-zero u64 (serde's type checks). -/
def parseSettings (bs : Bytes) : Option (Nat × Bool × Nat) := do
  let r ← stripPrefix (asciiBytes "{\"version\":") bs
  let (ver, r, n1) := takeDigits r
  if n1 = 0 ∨ ver ≥ 2 ^ 32 then none
  let r ← stripPrefix (asciiBytes ",\"dir_tree_is_pre_created\":") r
  let (pre, r) ← (match stripPrefix (asciiBytes "true") r with
                  | some r => some (true, r)
                  | none => (stripPrefix (asciiBytes "false") r).map (fun r => (false, r)))
  let r ← stripPrefix (asciiBytes ",\"num_ops_per_wal\":") r
  let (N, r, n2) := takeDigits r
  if n2 = 0 ∨ N = 0 ∨ N ≥ 2 ^ 64 then none
  if r = asciiBytes "}" then some (ver, pre, N) else none

/-! ### snapshot load (src/index/persistence.rs) -/

def entriesOf (m : KMap Bytes) : List Entry := m.map (fun (k, i) => ⟨k, i.hash, i.size⟩)

/-- the byte-ordered `BTreeMap<Vec<u8>,_>` built by `deserialize_index_state` -/
def rawMap (es : List Entry) : KMap Bytes :=
  es.foldl (fun m e => (kInsert bytesLt m e.key ⟨e.hash, e.size⟩).1) []

def loadEntries (kind : KeyKind) : KMap Bytes → IndexState Bytes → Except OpenErr (IndexState Bytes)
  | [], s => .ok s
  | (k, item) :: rest, s =>
    if kind.valid k then
      loadEntries kind rest
        { s with map := (kInsert kind.lt s.map k item).1, rc := (incRef s.rc item.hash).1 }
    else .error .decodeKey

def loadSnapshot (kind : KeyKind) (d : Disk) : Except OpenErr (IndexState Bytes) :=
  match d.get .index with
  | none => .ok (recomputeStats {} 0)
  | some f =>
    if f.data.isEmpty then .error .emptyIndex else
    match deserIndex f.data with
    | .error e => .error (.decodeIndex e)
    | .ok (es, ver) =>
      match loadEntries kind (rawMap es) { lastPersisted := ver } with
      | .error e => .error e
      | .ok s => .ok (recomputeStats s f.data.length)

/-! ### WAL replay (src/wal/replay.rs) -/

def insertSorted (n : Nat) : List Nat → List Nat
  | [] => [n]
  | m :: r => if n ≤ m then n :: m :: r else m :: insertSorted n r

/-- `discover_segments`: ids of the existing `<id>_index.wal`, ascending -/
def segIds (d : Disk) : List Nat :=
  d.files.foldl (fun acc (f, _) => match f with | .seg i => insertSorted i acc | _ => acc) []

/-- `WalOp::from_raw`: every key must decode -/
def fromRaw (kind : KeyKind) : RawOp → Option (Op Bytes)
  | .put k h s => if kind.valid k then some (.put k h s) else none
  | .remove ks => if ks.all kind.valid then some (.remove ks) else none

structure ReplayAcc where
  idx : IndexState Bytes
  highest : Nat
  replayed : Nat

def replayRecs (kind : KeyKind) (ckpt : Nat) : List Rec → ReplayAcc → Except OpenErr ReplayAcc
  | [], a => .ok a
  | r :: rs, a =>
    let a := { a with highest := max a.highest r.ver }
    if r.ver ≤ ckpt then replayRecs kind ckpt rs a else
    match deserWalOp r.payload with
    | .error e => .error (.replayDecode e)
    | .ok raw =>
      match fromRaw kind raw with
      | none => .error .replayConvert
      | some op =>
        match applyOp kind.lt a.idx op with
        | .error p => .error (.panic p)
        | .ok (idx', _) => replayRecs kind ckpt rs { a with idx := idx', replayed := a.replayed + 1 }

/-- the reader iterator hands out the entries before an error, then the error aborts the open:
    entries read so far, and the error if any -/
def readSegmentPartial (H : Bytes → Bytes) : Nat → Bytes → List Rec × Option ReadErr
  | 0, _ => ([], none)
  | f+1, bs =>
    match readNext H bs with
    | .done => ([], none)
    | .err e => ([], some e)
    | .entry r rest =>
      let (rs, e) := readSegmentPartial H f rest
      (r :: rs, e)

def replaySegs (H : Bytes → Bytes) (kind : KeyKind) (ckpt : Nat) (d : Disk) :
    List Nat → ReplayAcc → Except OpenErr ReplayAcc
  | [], a => .ok a
  | i :: is, a =>
    match d.get (.seg i) with
    | none => .ok a     -- (cannot happen: ids come from the listing)
    | some f =>
      let (recs, err) := readSegmentPartial H (f.data.length / 45 + 1) f.data
      match replayRecs kind ckpt recs a with
      | .error e => .error e
      | .ok a' =>
        match err with
        | some e => .error (.replayRead e)
        | none => replaySegs H kind ckpt d is a'

/-- the state recovery computes from the files alone: snapshot, then every record above it.
    This is the model's *independent reader* of the on-disk format (C20). -/
def logical (H : Bytes → Bytes) (kind : KeyKind) (d : Disk) : Except OpenErr ReplayAcc :=
  match loadSnapshot kind d with
  | .error e => .error e
  | .ok s => replaySegs H kind s.lastPersisted d (segIds d) ⟨s, s.lastPersisted, 0⟩

/-! ### orphan scan, canonical trees only here (src/orphan.rs; arbitrary trees: Orphan.lean) -/

def refdHashes (m : KMap Bytes) : List Bytes := (m.map (·.2.hash)).eraseDups

def casFiles (d : Disk) : List (Bytes × File) :=
  d.files.filterMap (fun (f, x) => match f with | .cas h => some (h, x) | _ => none)

def stagingFiles (d : Disk) : List Nat :=
  d.files.filterMap (fun (f, _) => match f with | .staging n => some n | _ => none)

structure ScanOut where
  orphaned : List Bytes
  missing : List Bytes
  corrupted : List Bytes
  invalid : List (List Bytes)
  staging : List Nat          -- leftover staging files (by number)
  total : Nat
  deriving Repr

/-- the regular files below cas/ as the scan sees them: blobs at canonical paths and strays -/
def treeFiles (d : Disk) : List TreeFile :=
  d.files.filterMap (fun (f, x) => match f with
    | .cas h => some (relativePath h, x.data)
    | .stray p => some (p, x.data)
    | _ => none)

/-- `scan_orphans` on the model disk (see Orphan.lean / Props/C08 for the exactness theorems) -/
def scanCanonical (H : Bytes → Bytes) (verify : Bool) (idx : IndexState Bytes) (d : Disk) : ScanOut :=
  let r := scanTree H verify idx.map (treeFiles d)
  { orphaned := r.orphaned, missing := r.missing, corrupted := r.corrupted, invalid := r.invalid,
    staging := stagingFiles d, total := r.total }

/-! ### event scripts -/

/-- `create_dir_all(cas/aa/bb)`: the mkdirs that succeed -/
def mkdirsFor (d : Disk) (h : Bytes) : List Ev :=
  match relativePath h with
  | [a, b, _] =>
    let l1 := [asciiBytes "cas", a]
    let l2 := [asciiBytes "cas", a, b]
    (if d.preTree || d.dirs.contains l1 then [] else [Ev.mkdir l1]) ++
    (if d.preTree || d.dirs.contains l2 then [] else [Ev.mkdir l2])
  | _ => []

inductive CkptReason where
  | afterReplay | rollover | explicit
  deriving DecidableEq, Repr

/-- `compute_checkpoint_target` -/
def ckptTarget (reason : CkptReason) (next lastPersisted : Nat) : Option Nat :=
  let should : Bool := match reason with
    | .afterReplay | .explicit => true
    | .rollover => if lastPersisted = 0 then decide (next > 1) else decide (next > lastPersisted + 1)
  if should && decide (next > 1) then some (next - 1) else none

/-- `checkpoint_inner`: events, new memory. `d` is the disk at the time of the call. -/
def checkpointScript (reason : CkptReason) (m : Mem) (d : Disk) : List Ev × Mem :=
  match ckptTarget reason m.next m.idx.lastPersisted with
  | none => ([], m)
  | some t =>
    let old := m.idx.lastPersisted
    let bytes := serIndex (entriesOf m.idx.map) t
    let save := [Ev.creat .indexTmp true, .write .indexTmp bytes, .sync .indexTmp,
                 .rename .indexTmp .index]
    let prune : List Ev :=
      if old ≠ 0 ∧ t ≤ old then []
      else ((segIds d).filter (· < segOf m.cfg.N t)).map (fun j => Ev.unlink (.seg j))
    (save ++ prune,
     { m with idx := { m.idx with lastPersisted := t, serializedSize := bytes.length } })

/-- `apply_wal_op_unsafe` + deletion + rollover checkpoint, shared by put and remove.
    `pre` = events already issued by the caller (they may have created segment files). -/
def logAndApply (H : Bytes → Bytes) (m : Mem) (d : Disk) (op : Op Bytes) (raw : RawOp) :
    Except IdxPanic (List Ev × Mem) :=
  let preSeg := if m.next > 1 then segOf m.cfg.N (m.next - 1) else 0
  let ver := m.next
  let target := segOf m.cfg.N ver
  let roll : List Ev :=
    if m.active = some target then []
    else (match m.active with
          | some old => [Ev.write (.seg old) sentinel, .sync (.seg old)]
          | none => []) ++ [Ev.creat (.seg target) false]
  let rec_ := encodeEntry H ⟨ver, serWalOp raw⟩
  let append := [Ev.write (.seg target) rec_, .sync (.seg target)]
  match applyOp m.cfg.kind.lt m.idx op with
  | .error p => .error p
  | .ok (idx', unref) =>
    let d1 := d.applyAll (roll ++ append)
    let dels := (unref.filter (fun h => d1.has (.cas h))).map (fun h => Ev.unlink (.cas h))
    let m1 := { m with idx := idx', next := ver + 1, active := some target }
    let d2 := d1.applyAll dels
    let ck := if preSeg ≠ target then checkpointScript .rollover m1 d2 else ([], m1)
    .ok (roll ++ append ++ dels ++ ck.1, ck.2)

inductive PutRes where
  | ok
  | panic (p : IdxPanic)
  deriving DecidableEq, Repr

/-- `CasInner::put`: `NamedTempFile::new_in(staging)` -/
def beginScript (t : Nat) : List Ev := [Ev.creat (.staging t) true]

/-- `Transaction::finish` for the transaction staged in `staging t` (its chunks so far). -/
def finishScript (H : Bytes → Bytes) (m : Mem) (d : Disk) (t : Nat) (key : Bytes)
    (chunks : List Bytes) : List Ev × Mem × PutRes :=
  let content := chunks.flatten
  let h := H content
  let size := (chunks.map List.length).sum
  let stage := [Ev.write (.staging t) content] ++
               (if m.cfg.sync then [Ev.sync (.staging t)] else [])
  let mk := if m.preCreated then [] else mkdirsFor d h
  let mv := [Ev.rename (.staging t) (.cas h)]
  let d1 := d.applyAll (stage ++ mk ++ mv)
  match logAndApply H m d1 (.put key h size) (.put key h size) with
  | .error p => (stage ++ mk ++ mv, m, .panic p)
  | .ok (evs, m') => (stage ++ mk ++ mv ++ evs, m', .ok)

/-- dropping a transaction without finish: `NamedTempFile::drop` unlinks the staging file -/
def abortScript (t : Nat) : List Ev := [Ev.unlink (.staging t)]

/-- one whole put: begin, write the chunks, finish. -/
def putScript (H : Bytes → Bytes) (m : Mem) (d : Disk) (t : Nat) (key : Bytes)
    (chunks : List Bytes) : List Ev × Mem × PutRes :=
  let b := beginScript t
  let (evs, m', r) := finishScript H m (d.applyAll b) t key chunks
  (b ++ evs, m', r)

/-- `remove`: returns presence -/
def removeScript (H : Bytes → Bytes) (m : Mem) (d : Disk) (key : Bytes) :
    List Ev × Mem × Except IdxPanic Bool :=
  match kLookup m.idx.map key with
  | none => ([], m, .ok false)
  | some _ =>
    match logAndApply H m d (.remove [key]) (.remove [key]) with
    | .error p => ([], m, .error p)
    | .ok (evs, m') => (evs, m', .ok true)

inductive Bound where
  | unbounded | incl (k : Bytes) | excl (k : Bytes)
  deriving DecidableEq, Repr

def inRange (lt : Bytes → Bytes → Bool) (lo hi : Bound) (k : Bytes) : Bool :=
  (match lo with
   | .unbounded => true | .incl a => !(lt k a) | .excl a => lt a k) &&
  (match hi with
   | .unbounded => true | .incl b => !(lt b k) | .excl b => lt k b)

def rangeKeys (m : Mem) (lo hi : Bound) : List Bytes :=
  (m.idx.map.filter (fun (k, _) => inRange m.cfg.kind.lt lo hi k)).map (·.1)

/-- `remove_range`: returns the number of keys scanned -/
def removeRangeScript (H : Bytes → Bytes) (m : Mem) (d : Disk) (lo hi : Bound) :
    List Ev × Mem × Except IdxPanic Nat :=
  let keys := rangeKeys m lo hi
  if keys.isEmpty then ([], m, .ok 0) else
  match logAndApply H m d (.remove keys) (.remove keys) with
  | .error p => ([], m, .error p)
  | .ok (evs, m') => (evs, m', .ok keys.length)

/-- dropping the handle: `WalManager::drop` closes (syncs) the active writer -/
def closeScript (m : Mem) : List Ev :=
  match m.active with
  | some i => [Ev.sync (.seg i)]
  | none => []

/-- `pre_create_all_cas_directories`: 65 792 mkdirs, abstracted to one event (the harness
    collapses the corresponding run of real mkdir calls; pre-created stores are not crash targets) -/
def preCreateEvents (d : Disk) : List Ev := if d.preTree then [] else [Ev.mkdirTree]

/-- what `open` does before it holds the lock: top-level directories, LOCK file -/
def openPre (d : Disk) : List Ev :=
  (if d.dirs.contains [asciiBytes "staging"] then [] else [Ev.mkdir [asciiBytes "staging"]]) ++
  (if d.dirs.contains [asciiBytes "cas"] then [] else [Ev.mkdir [asciiBytes "cas"]]) ++
  [Ev.creat .lock true]

/-- the settings gate: events (first-time creation) and the stored pre-created flag -/
def settingsGate (cfg : Config) (d : Disk) : Except OpenErr (List Ev × Bool) :=
  match d.get .settings with
  | some f =>
    match parseSettings f.data with
    | none => .error .settingsParse
    | some (ver, pre, N) =>
      if ver ≠ 4 then .error .unsupportedVersion
      else if N ≠ cfg.N then .error .validation
      else .ok ([], pre)
  | none =>
    .ok ((if cfg.pre then preCreateEvents d else []) ++
         [Ev.creat .settingsTmp true, .write .settingsTmp (renderSettings 4 cfg.pre cfg.N),
          .sync .settingsTmp, .rename .settingsTmp .settings], cfg.pre)

/-- everything `open` does once it holds the lock; `d0` = the disk at that moment -/
def openBody (H : Bytes → Bytes) (cfg : Config) (d0 : Disk) :
    List Ev × Except OpenErr (Mem × ScanOut) :=
  match settingsGate cfg d0 with
  | .error e => ([], .error e)
  | .ok (e1, preCreated) =>
    let d1 := d0.applyAll e1
    match logical H cfg.kind d1 with
    | .error e => (e1, .error e)
    | .ok acc =>
      let next := acc.highest + 1
      let tseg := segOf cfg.N next
      let e2 := if d1.has (.seg tseg) then [] else [Ev.creat (.seg tseg) true, .sync (.seg tseg)]
      let m : Mem := { cfg := cfg, idx := acc.idx, next := next, active := none,
                       preCreated := preCreated }
      let d2 := d1.applyAll e2
      let ck := if acc.replayed > 0 then checkpointScript .afterReplay m d2 else ([], m)
      let d3 := d2.applyAll ck.1
      let scan := scanCanonical H cfg.verify ck.2.idx d3
      if cfg.scan ∧ cfg.failOnIntegrity ∧ (scan.missing ≠ [] ∨ scan.corrupted ≠ []) then
        (e1 ++ e2 ++ ck.1, .error (.integrity scan.missing.length scan.corrupted.length))
      else (e1 ++ e2 ++ ck.1, .ok (ck.2, scan))

/-- `Cas::open`. `locked` = another live handle holds the flock. -/
def openScript (H : Bytes → Bytes) (cfg : Config) (d : Disk) (locked : Bool) :
    List Ev × Except OpenErr (Mem × ScanOut) :=
  if locked then (openPre d, .error .alreadyOpened) else
  let b := openBody H cfg (d.applyAll (openPre d ++ [Ev.flock]))
  (openPre d ++ [Ev.flock] ++ b.1, b.2)

/-- `OrphanStats::delete_orphans` (sequential: no pending intents): events and the
    `RecoveryResult` counters (deleted, skipped, staging files removed). -/
def deleteOrphansScript (m : Mem) (sc : ScanOut) (d : Disk) : List Ev × Nat × Nat × Nat :=
  let step (acc : List Ev × Nat × Nat) (h : Bytes) : List Ev × Nat × Nat :=
    let (evs, del, skip) := acc
    if (rcGet m.idx.rc h).isSome then (evs, del, skip + 1)
    else if (d.applyAll evs).has (.cas h) then (evs ++ [Ev.unlink (.cas h)], del + 1, skip)
    else (evs, del, skip + 1)
  let (evs, del, skip) := sc.orphaned.foldl step ([], 0, 0)
  let inv := sc.invalid.filter (fun p => d.has (.stray p))
  let st := sc.staging.filter (fun n => d.has (.staging n))
  (evs ++ inv.map (fun p => Ev.unlink (.stray p)) ++ st.map (fun n => Ev.unlink (.staging n)),
   del, skip, st.length)

/-! ### reads -/

inductive ReadRes' where
  | absent
  | missing                       -- LibError::BlobDataMissing
  | found (content : Bytes)
  deriving DecidableEq, Repr

def getBlob (m : Mem) (d : Disk) (key : Bytes) : ReadRes' :=
  match kLookup m.idx.map key with
  | none => .absent
  | some item =>
    match d.get (.cas item.hash) with
    | none => .missing
    | some f => .found f.data

end CasModel
