import CasModel.Bytes
/-
  Keys: model of the `KeyBytes` implementations of src/types.rs together with the `Ord` each key
  type has (which is the order of the index `BTreeMap<K,_>`).
  A key is represented by its encoded bytes; `valid` is "from_key_bytes returns Some",
  `lt` is the key type's order transported to the encoding.
-/
namespace CasModel

inductive KeyKind where
  | bytes            -- Vec<u8>
  | string           -- String (UTF-8)
  | fixed (n : Nat)  -- [u8; n]
  | uint (w : Nat)   -- u8..u128 (w = 1,2,4,8,16), little-endian
  | sint (w : Nat)   -- i8..i128, little-endian two's complement
  deriving DecidableEq, Repr

/-- lexicographic order on byte strings (`Ord` of `[u8]`, `Vec<u8>`, `String`) -/
def bytesLt : Bytes → Bytes → Bool
  | [], [] => false
  | [], _ :: _ => true
  | _ :: _, [] => false
  | a :: as, b :: bs => if a < b then true else if b < a then false else bytesLt as bs

/-- UTF-8 validity exactly as `core::str::from_utf8` (RFC 3629: no overlongs, no surrogates,
    nothing above U+10FFFF). -/
def validUtf8 : Bytes → Bool
  | [] => true
  | b0 :: rest =>
    let cont (b : UInt8) : Bool := 0x80 ≤ b && b ≤ 0xBF
    if b0 ≤ 0x7F then validUtf8 rest
    else if 0xC2 ≤ b0 && b0 ≤ 0xDF then
      match rest with
      | b1 :: r => cont b1 && validUtf8 r
      | _ => false
    else if 0xE0 ≤ b0 && b0 ≤ 0xEF then
      match rest with
      | b1 :: b2 :: r =>
        let ok1 := if b0 = 0xE0 then 0xA0 ≤ b1 && b1 ≤ 0xBF
                   else if b0 = 0xED then 0x80 ≤ b1 && b1 ≤ 0x9F
                   else cont b1
        ok1 && cont b2 && validUtf8 r
      | _ => false
    else if 0xF0 ≤ b0 && b0 ≤ 0xF4 then
      match rest with
      | b1 :: b2 :: b3 :: r =>
        let ok1 := if b0 = 0xF0 then 0x90 ≤ b1 && b1 ≤ 0xBF
                   else if b0 = 0xF4 then 0x80 ≤ b1 && b1 ≤ 0x8F
                   else cont b1
        ok1 && cont b2 && cont b3 && validUtf8 r
      | _ => false
    else false

/-- two's-complement value of `w` little-endian bytes -/
def signedVal (bs : Bytes) : Int :=
  let n := leNat bs
  if 2 * n < 256 ^ bs.length then (n : Int) else (n : Int) - (256 ^ bs.length : Nat)

def KeyKind.valid : KeyKind → Bytes → Bool
  | .bytes, _ => true
  | .string, bs => validUtf8 bs
  | .fixed n, bs => bs.length == n
  | .uint w, bs => bs.length == w
  | .sint w, bs => bs.length == w

/-- (length, numeric value): the rank that orders integer keys -/
def pairLt (p q : Nat × Int) : Prop := p.1 < q.1 ∨ (p.1 = q.1 ∧ p.2 < q.2)

instance : DecidableRel pairLt := fun p q => by unfold pairLt; exact inferInstance

/-- the key type's `Ord`, transported to the encoding.  For integer kinds this is the numeric
    order on keys of the kind's width — the only keys an index of that kind can hold; it is
    extended to byte strings of other lengths (length first, bytes last) so that it is a strict
    total order on ALL byte strings (Proofs/KeyOrder: `keyOrder_strict`). -/
def KeyKind.lt : KeyKind → Bytes → Bytes → Bool
  | .uint _, a, b =>
    if pairLt (a.length, (leNat a : Int)) (b.length, (leNat b : Int)) then true
    else if pairLt (b.length, (leNat b : Int)) (a.length, (leNat a : Int)) then false else bytesLt a b
  | .sint _, a, b =>
    if pairLt (a.length, signedVal a) (b.length, signedVal b) then true
    else if pairLt (b.length, signedVal b) (a.length, signedVal a) then false else bytesLt a b
  | _, a, b => bytesLt a b

end CasModel
