import CasModel.Store
/-
  Sim: a world (disk + at most one live handle + open transactions) driven by API calls, with
  crash / power-loss plans.  A plan `k` makes the next call stop after its first `k` counted
  filesystem events: the disk keeps their effect, memory is discarded (no destructor runs).
  Writes to staging files are not counted (BufWriter decides their number) — see fsio.c.
-/
namespace CasModel

structure Tx where
  id : Nat
  t : Nat               -- staging file number
  key : Bytes
  chunks : List Bytes   -- in write order
  deriving Repr

structure Plan where
  k : Nat
  lose : Option (List FileId)    -- none: process kill; some l: power loss, files in l (or all if l = []) lose unsynced data
  loseAll : Bool := false
  deriving Repr

structure World where
  cfg : Config := {}
  disk : Disk := {}
  stagingCtr : Nat := 0
  handle : Option Mem := none
  scan : Option ScanOut := none
  txs : List Tx := []
  trace : List Ev := []
  plan : Option Plan := none
  saved : Option Disk := none       -- `snapshot` / `restore` of the directory (harness bookkeeping)
  failAt : Option Nat := none     -- the next call fails at its (k+1)-th counted filesystem call
  casDropped : Bool := false      -- the `Cas` handle was dropped but an `OrphanStats` keeps the inner alive
  deriving Repr

def counted : Ev → Bool
  | .write (.staging _) _ => false
  | _ => true

def countedCount (evs : List Ev) : Nat := (evs.filter counted).length

/-- the events that have happened when the process dies right before its (k+1)-th counted call -/
def takeCounted : Nat → List Ev → List Ev
  | _, [] => []
  | k, e :: es =>
    if counted e then
      match k with
      | 0 => []
      | k+1 => e :: takeCounted k es
    else e :: takeCounted k es

inductive Outcome where
  | completed (events : Nat)     -- the call ran to its end (with `events` counted events)
  | crashed
  deriving DecidableEq, Repr

/-- staging files are numbered in order of creation: the counter advances only past the
    staging files whose creation actually happened -/
def bumpStaging (ctr : Nat) (evs : List Ev) : Nat :=
  evs.foldl (fun c e => match e with | .creat (.staging n) _ => max c (n + 1) | _ => c) ctr

/-- run one call's script under the current plan -/
def World.exec (w : World) (evs : List Ev) (commit : World → World) : World × Outcome :=
  match w.plan with
  | some p =>
    let n := countedCount evs
    if p.k < n then
      let done := takeCounted p.k evs
      let d := w.disk.applyAll done
      let d := match p.lose with
        | none => d
        | some l => d.reboot (fun f => p.loseAll || l.contains f)
      ({ w with disk := d, trace := w.trace ++ done, handle := none, scan := none, txs := [],
                plan := none, stagingCtr := bumpStaging w.stagingCtr done }, .crashed)
    else
      let w' := commit { w with disk := w.disk.applyAll evs, trace := w.trace ++ evs, plan := none,
                                stagingCtr := bumpStaging w.stagingCtr evs }
      (w', .completed n)
  | none =>
    (commit { w with disk := w.disk.applyAll evs, trace := w.trace ++ evs,
                     stagingCtr := bumpStaging w.stagingCtr evs }, .completed (countedCount evs))

end CasModel
