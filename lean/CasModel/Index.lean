import CasModel.Codec
/-
  Index: model of src/index/state.rs (`IndexState`, `increment_ref`, `decrement_ref`,
  `apply_logical_op`, `recompute_stats`) and of the snapshot load in src/index/persistence.rs.

  `key_to_hash : BTreeMap<K,_>` is a list sorted by the key order `lt` (invariant proved
  separately, not a subtype); `hash_to_ref_count : HashMap<_,u32>` is an association list
  (iteration order of a hash map is unspecified; every observation of it is compared as a set).
  Every Rust operation that can panic is an explicit `IdxPanic` outcome.
-/
namespace CasModel

structure Item where
  hash : Bytes
  size : Nat
  deriving DecidableEq, Repr

abbrev KMap (K : Type) := List (K × Item)
abbrev RcMap := List (Bytes × Nat)

/-- `WalOp<K>` -/
inductive Op (K : Type) where
  | put (key : K) (hash : Bytes) (size : Nat)
  | remove (keys : List K)
  deriving Repr

inductive IdxPanic where
  | decrementZero     -- IndexStateError::DecrementZeroRefCount → `.expect("Index is corrupted")`
  | hashNotFound      -- IndexStateError::HashNotFoundForDecrement → `.expect(..)`
  | sizeMismatch      -- `assert_eq!(prev.blob_size, *size)`
  | statsUnderflow    -- `unique_blobs -= 1` / `total_bytes -= n` below zero (debug build)
  deriving DecidableEq, Repr

section
variable {K : Type} [DecidableEq K] (lt : K → K → Bool)

def kLookup (m : KMap K) (k : K) : Option Item :=
  match m with
  | [] => none
  | (k', v) :: rest => if k' = k then some v else kLookup rest k

/-- `BTreeMap::insert`: returns the new map and the previous value -/
def kInsert (m : KMap K) (k : K) (v : Item) : KMap K × Option Item :=
  match m with
  | [] => ([(k, v)], none)
  | (k', v') :: rest =>
    if k' = k then ((k, v) :: rest, some v')
    else if lt k k' then ((k, v) :: (k', v') :: rest, none)
    else
      let (r, p) := kInsert rest k v
      ((k', v') :: r, p)

/-- `BTreeMap::remove` -/
def kErase (m : KMap K) (k : K) : KMap K × Option Item :=
  match m with
  | [] => ([], none)
  | (k', v') :: rest =>
    if k' = k then (rest, some v')
    else
      let (r, p) := kErase rest k
      ((k', v') :: r, p)
end

def rcGet (rc : RcMap) (h : Bytes) : Option Nat :=
  match rc with
  | [] => none
  | (h', c) :: rest => if h' = h then some c else rcGet rest h

def rcSet (rc : RcMap) (h : Bytes) (c : Nat) : RcMap :=
  match rc with
  | [] => [(h, c)]
  | (h', c') :: rest => if h' = h then (h, c) :: rest else (h', c') :: rcSet rest h c

def rcErase (rc : RcMap) (h : Bytes) : RcMap :=
  match rc with
  | [] => []
  | (h', c') :: rest => if h' = h then rest else (h', c') :: rcErase rest h

/-- `increment_ref`: `entry(hash).or_default()`, `was_zero`, `+= 1` -/
def incRef (rc : RcMap) (h : Bytes) : RcMap × Bool :=
  match rcGet rc h with
  | none => (rcSet rc h 1, true)
  | some c => (rcSet rc h (c + 1), c == 0)

/-- `decrement_ref` -/
def decRef (rc : RcMap) (h : Bytes) : Except IdxPanic (RcMap × Option Bytes) :=
  match rcGet rc h with
  | none => .error .hashNotFound
  | some c =>
    if c = 0 then .error .decrementZero
    else if c - 1 = 0 then .ok (rcErase rc h, some h)
    else .ok (rcSet rc h (c - 1), none)

structure IndexState (K : Type) where
  map : KMap K := []
  rc : RcMap := []
  lastPersisted : Nat := 0          -- 0 = `None`
  uniqueBlobs : Nat := 0
  totalBytes : Nat := 0
  serializedSize : Nat := 0
  deriving Repr

section
variable {K : Type} [DecidableEq K] (lt : K → K → Bool)

/-- stats bookkeeping after a decrement that reached zero -/
def statsDrop (s : IndexState K) (size : Nat) : Except IdxPanic (IndexState K) :=
  if s.uniqueBlobs = 0 ∨ s.totalBytes < size then .error .statsUnderflow
  else .ok { s with uniqueBlobs := s.uniqueBlobs - 1, totalBytes := s.totalBytes - size }

def statsAdd (s : IndexState K) (wasZero : Bool) (size : Nat) : IndexState K :=
  if wasZero then { s with uniqueBlobs := s.uniqueBlobs + 1, totalBytes := s.totalBytes + size }
  else s

/-- `apply_logical_op`, Put arm -/
def applyPut (s : IndexState K) (k : K) (h : Bytes) (size : Nat) :
    Except IdxPanic (IndexState K × List Bytes) :=
  let ins := kInsert lt s.map k ⟨h, size⟩
  let s0 := { s with map := ins.1 }
  match ins.2 with
  | none =>
    let r := incRef s0.rc h
    .ok (statsAdd { s0 with rc := r.1 } r.2 size, [])
  | some p =>
    if p.hash ≠ h then
      match decRef s0.rc p.hash with
      | .error e => .error e
      | .ok (rc1, freed) =>
        let s1 := { s0 with rc := rc1 }
        match (match freed with
               | some _ => statsDrop s1 p.size
               | none => .ok s1) with
        | .error e => .error e
        | .ok s2 =>
          let r := incRef s2.rc h
          .ok (statsAdd { s2 with rc := r.1 } r.2 size, freed.toList)
    else if p.size ≠ size then .error .sizeMismatch
    else .ok (s0, [])

/-- `apply_logical_op`, Remove arm: one key -/
def applyRemoveKey (s : IndexState K) (k : K) : Except IdxPanic (IndexState K × List Bytes) :=
  let er := kErase s.map k
  match er.2 with
  | none => .ok (s, [])       -- (`BTreeMap::remove` of an absent key leaves the map unchanged)
  | some p =>
    let s0 := { s with map := er.1 }
    match decRef s0.rc p.hash with
    | .error e => .error e
    | .ok (rc1, freed) =>
      let s1 := { s0 with rc := rc1 }
      match freed with
      | some h =>
        match statsDrop s1 p.size with
        | .error e => .error e
        | .ok s2 => .ok (s2, [h])
      | none => .ok (s1, [])

def applyRemove (s : IndexState K) : List K → Except IdxPanic (IndexState K × List Bytes)
  | [] => .ok (s, [])
  | k :: ks =>
    match applyRemoveKey s k with
    | .error e => .error e
    | .ok (s1, u1) =>
      match applyRemove s1 ks with
      | .error e => .error e
      | .ok (s2, u2) => .ok (s2, u1 ++ u2)

/-- `IndexState::apply_logical_op`: new state and the hashes whose refcount reached zero -/
def applyOp (s : IndexState K) : Op K → Except IdxPanic (IndexState K × List Bytes)
  | .put k h size => applyPut lt s k h size
  | .remove ks => applyRemove s ks

/-- `recompute_stats`: first size seen per hash in key order (`entry().or_insert`) -/
def recomputeUnique (m : KMap K) : List (Bytes × Nat) :=
  m.foldl (fun acc e => match rcGet acc e.2.hash with
                        | some _ => acc
                        | none => acc ++ [(e.2.hash, e.2.size)]) []

def recomputeStats (s : IndexState K) (indexFileSize : Nat) : IndexState K :=
  let u := recomputeUnique s.map
  { s with uniqueBlobs := u.length, totalBytes := (u.map (·.2)).sum,
           serializedSize := indexFileSize }
end

end CasModel
