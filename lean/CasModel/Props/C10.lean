import CasModel.Proofs.FrameDamage
/-
  C10 — a damaged log is never silently accepted (segment level; the log-level statements
  `C10_truncation_log`/`C10_byte_change_log` over snapshot + several segments are in Props/C10Log).
-/
namespace CasModel

variable (H : Bytes → Bytes)

theorem readNext_entry_len {bs rest : Bytes} {r : Rec} (h : readNext H bs = .entry r rest) :
    rest.length + 45 ≤ bs.length := by
  unfold readNext at h
  by_cases c0 : bs.length < 44
  · simp [c0] at h
  · by_cases c1 : leNat (bs.take 8) = 0
    · simp [c0, c1] at h
    · by_cases c2 : leNat ((bs.drop 40).take 4) = 0
      · simp [c0, c1, c2] at h
      · by_cases c3 : (bs.drop 44).length < leNat ((bs.drop 40).take 4)
        · simp only [c0, c1, c2, c3, ↓reduceIte] at h; cases h
        · simp only [c0, c1, c2, c3, ↓reduceIte] at h
          split at h
          · injection h with h1 h2
            subst h2
            simp only [List.length_drop] at c3 ⊢
            omega
          · cases h

/-- once the fuel exceeds the number of records that can fit, it does not matter -/
theorem readSegmentFuel_fuel_irrelevant (bs : Bytes) (f1 f2 : Nat)
    (h1 : bs.length / 45 < f1) (h2 : bs.length / 45 < f2) :
    readSegmentFuel H f1 bs = readSegmentFuel H f2 bs := by
  induction f1 generalizing f2 bs with
  | zero => omega
  | succ f1 ih =>
    cases f2 with
    | zero => omega
    | succ f2 =>
      simp only [readSegmentFuel]
      split
      · rfl
      · rfl
      · rename_i r rest hn
        have := readNext_entry_len H hn
        rw [ih rest f2 (by omega) (by omega)]

theorem readSegment_eq_fuel (bs : Bytes) (f : Nat) (hf : bs.length / 45 < f) :
    readSegment H bs = readSegmentFuel H f bs :=
  readSegmentFuel_fuel_irrelevant H bs _ _ (by omega) hf

theorem readSegment_of_large_fuel (bs : Bytes) (k : Nat) (X : Except ReadErr (List Rec))
    (h : ∀ f, k < f → readSegmentFuel H f bs = X) : readSegment H bs = X := by
  rw [readSegment_eq_fuel H bs (bs.length / 45 + 1 + k) (by omega)]
  exact h _ (by omega)

/-- **C10, truncation.** A segment holding the well-formed records `rs`, cut short at ANY byte
    offset `n`, is read as an error or as exactly the records wholly before the cut — the longest
    undamaged prefix: `i` complete records fit in `n` bytes and the `i+1`-st does not. -/
theorem C10_truncation_segment (hH : Hash32 H) (rs : List Rec) (hrs : ∀ r ∈ rs, r.WF) (n : Nat) :
    (∃ i, i ≤ rs.length ∧ readSegment H ((encodeAll H rs).take n) = .ok (rs.take i)
        ∧ (encodeAll H (rs.take i)).length ≤ n
        ∧ (i < rs.length → n < (encodeAll H (rs.take (i+1))).length))
    ∨ readSegment H ((encodeAll H rs).take n) = .error .shortPayload := by
  rw [readSegment_eq_fuel H _ (((encodeAll H rs).take n).length / 45 + 1 + rs.length) (by omega)]
  exact readSegmentFuel_truncated H hH rs hrs n _ (by omega)

/-- **C10, payload byte changed.** Any change of the payload of record `r` (same length, so in
    particular any single-byte change) makes the read of the segment fail, given that the changed
    payload does not collide with the original under `H`. -/
theorem C10_byte_change_payload (hH : Hash32 H) (pre : List Rec) (hpre : ∀ r ∈ pre, r.WF)
    (r : Rec) (hr : r.WF) (p' : Bytes) (hlen : p'.length = r.payload.length)
    (hcol : H p' ≠ H r.payload) (post : Bytes) :
    readSegment H (encodeAll H pre ++
        ((leBytes 8 r.ver ++ (H r.payload ++ (leBytes 4 r.payload.length ++ p'))) ++ post))
      = .error .checksum := by
  obtain ⟨hv0, hv, hl0, hl⟩ := hr
  apply readSegment_of_large_fuel H _ pre.length
  intro f hf
  exact readSegmentFuel_corrupt H hH pre hpre r.ver r.payload.length hv0 hv hl0 hl
    (H r.payload) p' (hH _) hlen hcol post f hf

/-- **C10, checksum byte changed.** Any change of the stored checksum makes the read fail —
    no assumption on `H` at all. -/
theorem C10_byte_change_checksum (hH : Hash32 H) (pre : List Rec) (hpre : ∀ r ∈ pre, r.WF)
    (r : Rec) (hr : r.WF) (c' : Bytes) (hlen : c'.length = 32)
    (hne : c' ≠ H r.payload) (post : Bytes) :
    readSegment H (encodeAll H pre ++
        ((leBytes 8 r.ver ++ (c' ++ (leBytes 4 r.payload.length ++ r.payload))) ++ post))
      = .error .checksum := by
  obtain ⟨hv0, hv, hl0, hl⟩ := hr
  apply readSegment_of_large_fuel H _ pre.length
  intro f hf
  exact readSegmentFuel_corrupt H hH pre hpre r.ver r.payload.length hv0 hv hl0 hl
    c' r.payload hlen rfl (fun h => hne h.symm) post f hf

/-- an intact segment (optionally sealed) reads back exactly -/
theorem C16_segment_roundtrip (hH : Hash32 H) (rs : List Rec) (hrs : ∀ r ∈ rs, r.WF)
    (sealed : Bool) :
    readSegment H (encodeAll H rs ++ (if sealed then sentinel else [])) = .ok rs := by
  apply readSegment_of_large_fuel H _ rs.length
  intro f hf
  apply readSegmentFuel_encodeAll H hH rs hrs _ _ f hf
  cases sealed
  · simp [readNext]
  · simpa using readNext_sentinel H []

theorem C16_entry_roundtrip (hH : Hash32 H) (r : Rec) (hr : r.WF) (tail : Bytes) :
    readNext H (encodeEntry H r ++ tail) = .entry r tail :=
  readNext_encode H hH r hr tail

/-- non-vacuity: a concrete well-formed record and a checksum function with 32-byte output -/
example : (⟨3, [1,2,3]⟩ : Rec).WF ∧ Hash32 (fun _ => List.replicate 32 (0:UInt8)) := by
  refine ⟨⟨by decide, by simp [U64], by decide, by simp [U32]⟩, fun _ => by simp⟩

end CasModel
