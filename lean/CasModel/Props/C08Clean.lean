import CasModel.Props.C08
import CasModel.Props.C01Store
/-
  C08, the clean-up half (sequential, no operation in flight): running `delete_orphans` with the
  result of a scan of the same directory
    * removes every blob file that no key references (restoring the "nothing more" of C07),
    * leaves every referenced blob untouched (never harms live data),
    * removes every stray non-blob file and every leftover staging file it reported.
  The concurrent half (clean-up racing with commits never deletes a referenced or protected blob,
  and never adds garbage) is `ConcInv` / `C07_quiescent_no_new_garbage`.
-/
namespace CasModel

theorem fget_mem (fs : List (FileId × File)) (f : FileId) (x : File) (h : fget fs f = some x) :
    (f, x) ∈ fs := by
  induction fs with
  | nil => simp [fget] at h
  | cons e fs ih =>
    obtain ⟨g, z⟩ := e
    simp only [fget] at h
    by_cases c : g = f
    · subst c; simp only [↓reduceIte, Option.some.injEq] at h; subst h; simp
    · simp only [c, ↓reduceIte] at h; simp [ih h]

theorem refd_iff_count (m : KMap Bytes) (h : Bytes) : refd m h = true ↔ 0 < countHash m h := by
  rw [countHash_pos_iff]
  simp only [refd, List.any_eq_true, beq_iff_eq]

/-- the orphan part of the clean-up script: which blobs it unlinks -/
def orphanStep (m : Mem) (d : Disk) (acc : List Ev × Nat × Nat) (h : Bytes) : List Ev × Nat × Nat :=
  if (rcGet m.idx.rc h).isSome then (acc.1, acc.2.1, acc.2.2 + 1)
  else if (d.applyAll acc.1).has (.cas h) then (acc.1 ++ [Ev.unlink (.cas h)], acc.2.1 + 1, acc.2.2)
  else (acc.1, acc.2.1, acc.2.2 + 1)

theorem orphanFold_spec (m : Mem) (d : Disk) (hw : d.WF) (hs : List Bytes) (acc : List Ev × Nat × Nat)
    (hacc : ∀ e ∈ acc.1, ∃ h, e = Ev.unlink (.cas h) ∧ rcGet m.idx.rc h = none) :
    let r := hs.foldl (orphanStep m d) acc
    (∀ e ∈ r.1, ∃ h, e = Ev.unlink (.cas h) ∧ rcGet m.idx.rc h = none) ∧
    (∀ h ∈ hs, rcGet m.idx.rc h = none → (d.applyAll r.1).has (.cas h) = false) ∧
    (∀ h, (d.applyAll acc.1).has (.cas h) = false → (d.applyAll r.1).has (.cas h) = false) := by
  induction hs generalizing acc with
  | nil => exact ⟨hacc, by simp, fun h hh => hh⟩
  | cons h0 hs ih =>
    simp only [List.foldl_cons]
    -- unlinking blobs never brings a blob back
    have gone_stays : ∀ (evs : List Ev) (x : Bytes) (g : Bytes),
        (d.applyAll evs).has (.cas g) = false →
        ((d.applyAll evs).apply (.unlink (.cas x))).has (.cas g) = false := by
      intro evs x g hg
      have hwf := Disk.applyAll_WF d hw evs
      simp only [Disk.has] at hg ⊢
      have := Disk.get_unlink (d.applyAll evs) hwf (.cas x) (.cas g)
      simp only [Disk.get] at this
      rw [this]
      split
      · rfl
      · exact hg
    by_cases c1 : (rcGet m.idx.rc h0).isSome = true
    · have hstep : orphanStep m d acc h0 = (acc.1, acc.2.1, acc.2.2 + 1) := by simp [orphanStep, c1]
      rw [hstep]
      obtain ⟨a, b, c⟩ := ih (acc.1, acc.2.1, acc.2.2 + 1) hacc
      refine ⟨a, ?_, c⟩
      intro h hm hn
      rcases List.mem_cons.mp hm with e | e
      · subst e; simp [hn] at c1
      · exact b h e hn
    · by_cases c2 : (d.applyAll acc.1).has (.cas h0) = true
      · have hstep : orphanStep m d acc h0 = (acc.1 ++ [Ev.unlink (.cas h0)], acc.2.1 + 1, acc.2.2) := by
          simp [orphanStep, c1, c2]
        rw [hstep]
        have hn0 : rcGet m.idx.rc h0 = none := by
          cases hg : rcGet m.idx.rc h0 with
          | none => rfl
          | some x => simp [hg] at c1
        have hacc' : ∀ e ∈ acc.1 ++ [Ev.unlink (.cas h0)], ∃ h, e = Ev.unlink (.cas h) ∧ rcGet m.idx.rc h = none := by
          intro e he
          rcases List.mem_append.mp he with he | he
          · exact hacc e he
          · simp only [List.mem_singleton] at he; exact ⟨h0, he, hn0⟩
        obtain ⟨a, b, c⟩ := ih (acc.1 ++ [Ev.unlink (.cas h0)], acc.2.1 + 1, acc.2.2) hacc'
        refine ⟨a, ?_, ?_⟩
        · intro h hm hn
          rcases List.mem_cons.mp hm with e | e
          · subst e
            apply c
            simp only [Disk.applyAll_append, Disk.applyAll_cons, Disk.applyAll_nil]
            have hwf := Disk.applyAll_WF d hw acc.1
            simp only [Disk.has]
            have := Disk.get_unlink (d.applyAll acc.1) hwf (.cas h) (.cas h)
            simp only [Disk.get] at this
            rw [this]; simp
          · exact b h e hn
        · intro g hg
          apply c
          simp only [Disk.applyAll_append, Disk.applyAll_cons, Disk.applyAll_nil]
          exact gone_stays acc.1 h0 g hg
      · have hstep : orphanStep m d acc h0 = (acc.1, acc.2.1, acc.2.2 + 1) := by simp [orphanStep, c1, c2]
        rw [hstep]
        obtain ⟨a, b, c⟩ := ih (acc.1, acc.2.1, acc.2.2 + 1) hacc
        refine ⟨a, ?_, c⟩
        intro h hm hn
        rcases List.mem_cons.mp hm with e | e
        · subst e
          apply c
          simpa using c2
        · exact b h e hn

end CasModel

namespace CasModel

theorem deleteOrphansScript_events (m : Mem) (sc : ScanOut) (d : Disk) :
    (deleteOrphansScript m sc d).1 =
      (sc.orphaned.foldl (orphanStep m d) ([], 0, 0)).1 ++
      (sc.invalid.filter (fun p => d.has (.stray p))).map (fun p => Ev.unlink (.stray p)) ++
      (sc.staging.filter (fun n => d.has (.staging n))).map (fun n => Ev.unlink (.staging n)) := by
  unfold deleteOrphansScript
  have hstep : (fun (acc : List Ev × Nat × Nat) (h : Bytes) =>
      match acc with
      | (evs, del, skip) =>
        if (rcGet m.idx.rc h).isSome then (evs, del, skip + 1)
        else if (d.applyAll evs).has (.cas h) then (evs ++ [Ev.unlink (.cas h)], del + 1, skip)
        else (evs, del, skip + 1)) = orphanStep m d := by
    funext acc h
    obtain ⟨evs, del, skip⟩ := acc
    rfl
  simp only [hstep]

/-- unlinking a list of files: each of them is gone afterwards, every other file is untouched -/
theorem unlinkAll_spec (d : Disk) (hw : d.WF) (fs : List FileId) :
    (∀ f ∈ fs, (d.applyAll (fs.map Ev.unlink)).get f = none) ∧
    (∀ g, g ∉ fs → (d.applyAll (fs.map Ev.unlink)).get g = d.get g) := by
  induction fs generalizing d with
  | nil => exact ⟨by simp, fun g _ => rfl⟩
  | cons f fs ih =>
    simp only [List.map_cons, Disk.applyAll_cons]
    have hw1 := Disk.apply_WF d hw (.unlink f)
    obtain ⟨a, b⟩ := ih (d.apply (.unlink f)) hw1
    refine ⟨?_, ?_⟩
    · intro g hg
      rcases List.mem_cons.mp hg with e | e
      · subst e
        by_cases c : g ∈ fs
        · exact a g c
        · rw [b g c, Disk.get_unlink d hw]; simp
      · exact a g e
    · intro g hg
      simp only [List.mem_cons, not_or] at hg
      rw [b g hg.2, Disk.get_unlink d hw]
      simp [hg.1]

/-- **C08 (clean-up).** On a quiescent store whose index is in its invariant, `delete_orphans`
    run with the scan of the same directory leaves exactly the referenced blobs in cas/ —
    every unreferenced blob file, every stray file and every staging file is gone, and no
    referenced blob is touched. -/
theorem C08_cleanup_restores_exactness (H : Bytes → Bytes) (sz : Bytes → Nat) (verify : Bool) (m : Mem)
    (inv : IdxInv m.cfg.kind.lt sz m.idx) (d : Disk) (hw : d.WF)
    (h32 : ∀ h x, d.get (.cas h) = some x → h.length = 32)
    (hstray : ∀ p x, d.get (.stray p) = some x → p.length ≠ 3 ∨ fromCanonicalPath p = none) :
    let d' := d.applyAll (deleteOrphansScript m (scanCanonical H verify m.idx d) d).1
    (∀ h x, d'.get (.cas h) = some x → 0 < countHash m.idx.map h) ∧
    (∀ h, 0 < countHash m.idx.map h → d'.get (.cas h) = d.get (.cas h)) ∧
    (∀ p, d'.get (.stray p) = none) ∧ (∀ n, d'.get (.staging n) = none) := by
  intro d'
  let sc := scanCanonical H verify m.idx d
  let oevs := (sc.orphaned.foldl (orphanStep m d) ([], 0, 0)).1
  let inv' := sc.invalid.filter (fun p => d.has (.stray p))
  let st := sc.staging.filter (fun n => d.has (.staging n))
  have hevs : (deleteOrphansScript m sc d).1 =
      oevs ++ (inv'.map FileId.stray).map Ev.unlink ++ (st.map FileId.staging).map Ev.unlink := by
    rw [deleteOrphansScript_events]
    simp only [oevs, inv', st, List.map_map]
    rfl
  obtain ⟨o1, o2, _⟩ := orphanFold_spec m d hw sc.orphaned ([], 0, 0) (by simp)
  have w1 := Disk.applyAll_WF d hw oevs
  have w2 := Disk.applyAll_WF _ w1 ((inv'.map FileId.stray).map Ev.unlink)
  obtain ⟨s1, s2⟩ := unlinkAll_spec (d.applyAll oevs) w1 (inv'.map FileId.stray)
  obtain ⟨t1, t2⟩ := unlinkAll_spec _ w2 (st.map FileId.staging)
  have hd' : d' = ((d.applyAll oevs).applyAll ((inv'.map FileId.stray).map Ev.unlink)).applyAll
      ((st.map FileId.staging).map Ev.unlink) := by
    show d.applyAll (deleteOrphansScript m sc d).1 = _
    rw [hevs, Disk.applyAll_append, Disk.applyAll_append]
  -- a blob file's fate is decided by the orphan part alone
  have hcas : ∀ h, d'.get (.cas h) = (d.applyAll oevs).get (.cas h) := by
    intro h
    rw [hd', t2 (.cas h) (by simp), s2 (.cas h) (by simp)]
  -- the orphan part only unlinks blobs without a reference count
  have hkeep : ∀ h, 0 < countHash m.idx.map h → (d.applyAll oevs).get (.cas h) = d.get (.cas h) := by
    intro h hpos
    apply sparesCas_frame_all d hw h oevs
    intro e he
    obtain ⟨g, rfl, hg⟩ := o1 e he
    simp only [Ev.sparesCas, bne_iff_ne, ne_eq]
    intro c; subst c
    have := inv.rcOK g
    rw [hg] at this
    split at this
    · omega
    · cases this
  refine ⟨?_, ?_, ?_, ?_⟩
  · intro h x hx
    rw [hcas h] at hx
    -- if the file is still there after the orphan part, it was there before
    by_cases hpos : 0 < countHash m.idx.map h
    · exact hpos
    · exfalso
      -- then the scan reported it as an orphan and the clean-up removed it
      have hbefore : ∃ y, d.get (.cas h) = some y := by
        -- unlinks never create files
        clear o2 hkeep hcas
        have key : ∀ (evs : List Ev) (dd : Disk), dd.WF →
            (∀ e ∈ evs, ∃ g, e = Ev.unlink (.cas g) ∧ rcGet m.idx.rc g = none) →
            ∀ y, (dd.applyAll evs).get (.cas h) = some y → ∃ z, dd.get (.cas h) = some z := by
          intro evs
          induction evs with
          | nil => intro dd _ _ y hy; exact ⟨y, hy⟩
          | cons e es ih =>
            intro dd hwd hall y hy
            rw [Disk.applyAll_cons] at hy
            obtain ⟨z, hz⟩ := ih _ (Disk.apply_WF dd hwd e) (fun e' he' => hall e' (by simp [he'])) y hy
            obtain ⟨g, rfl, _⟩ := hall e (by simp)
            rw [Disk.get_unlink dd hwd] at hz
            split at hz
            · cases hz
            · exact ⟨z, hz⟩
        exact key oevs d hw o1 x hx
      obtain ⟨y, hy⟩ := hbefore
      have hlen := h32 h y hy
      have hin : (relativePath h, y.data) ∈ treeFiles d := by
        simp only [treeFiles, List.mem_filterMap]
        refine ⟨(.cas h, y), ?_, rfl⟩
        exact fget_mem d.files _ _ hy
      have hnr : refd m.idx.map h = false := by
        cases hr : refd m.idx.map h with
        | false => rfl
        | true => exact absurd ((refd_iff_count _ _).mp hr) hpos
      have horph : h ∈ sc.orphaned :=
        (C08_orphans_exact H verify m.idx.map (treeFiles d) h hlen).mpr ⟨⟨y.data, hin⟩, hnr⟩
      have hrc : rcGet m.idx.rc h = none := by
        have := inv.rcOK h
        have h0 : countHash m.idx.map h = 0 := by omega
        simpa [h0] using this
      have := o2 h horph hrc
      simp only [Disk.has, Disk.get] at this hx
      rw [hx] at this
      cases this
  · intro h hpos
    rw [hcas h]; exact hkeep h hpos
  · intro p
    rw [hd', t2 (.stray p) (by simp)]
    by_cases c : FileId.stray p ∈ inv'.map FileId.stray
    · exact s1 _ c
    · rw [s2 _ c]
      -- not reported ⇒ was never there: every stray file of the tree is reported invalid
      have hfree : ∀ e ∈ oevs, e.touches (.stray p) = false := by
        intro e he
        obtain ⟨g, rfl, _⟩ := o1 e he
        rfl
      rw [get_untouched_all d hw _ oevs hfree]
      cases hg : d.get (.stray p) with
      | none => rfl
      | some y =>
        exfalso
        apply c
        simp only [List.mem_map, inv', List.mem_filter]
        have hhas : d.has (.stray p) = true := by
          simp only [Disk.has]
          have : fget d.files (.stray p) = some y := hg
          rw [this]; rfl
        refine ⟨p, ⟨?_, by simpa using hhas⟩, rfl⟩
        -- a stray file is reported invalid: it is a regular file that is not at a canonical path
        have hin : (p, y.data) ∈ treeFiles d := by
          simp only [treeFiles, List.mem_filterMap]
          refine ⟨(.stray p, y), ?_, rfl⟩
          exact fget_mem d.files _ _ hg
        exact (C08_invalid_exact H verify m.idx.map (treeFiles d) p).mpr ⟨⟨y.data, hin⟩, hstray p y hg⟩
  · intro n
    rw [hd']
    by_cases c : FileId.staging n ∈ st.map FileId.staging
    · exact t1 _ c
    · rw [t2 _ c, s2 (.staging n) (by simp)]
      have hfree : ∀ e ∈ oevs, e.touches (.staging n) = false := by
        intro e he
        obtain ⟨g, rfl, _⟩ := o1 e he
        rfl
      rw [get_untouched_all d hw _ oevs hfree]
      cases hg : d.get (.staging n) with
      | none => rfl
      | some y =>
        exfalso
        apply c
        simp only [List.mem_map, st, List.mem_filter]
        have hhas : d.has (.staging n) = true := by
          simp only [Disk.has]
          have : fget d.files (.staging n) = some y := hg
          rw [this]; rfl
        refine ⟨n, ⟨?_, by simpa using hhas⟩, rfl⟩
        show n ∈ stagingFiles d
        simp only [stagingFiles, List.mem_filterMap]
        refine ⟨(.staging n, y), ?_, rfl⟩
        exact fget_mem d.files _ _ hg

end CasModel
