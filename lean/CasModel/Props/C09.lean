import CasModel.Props.C18Store
/-
  C09 — power-loss durability in Sync mode: the sync-ordering protocol of the event scripts.
  Loss model (the property's): every file keeps only the prefix covered by its last sync;
  directory operations (create, rename, unlink) persist in issue order (`Disk.powerLoss`).
  Proved here, for every state, disk, key, content and chunking:
    (1) a blob enters cas/ fully synced (sync of the staged file precedes the rename), so power
        loss cannot damage a blob that an acknowledged put refers to;
    (2) the snapshot is fully synced before it replaces `index`, and segments are pruned only
        after that rename;
    (3) a record is synced right after it is written, before anything is deleted and before the
        operation returns — so the unsynced suffix of a segment is at most the in-flight record;
    (4) power loss does not change a file that is fully synced.
  Together with the record-level crash theorem (C03: recovery of any prefix of records) this gives
  C09; the composition over whole histories (that EVERY file other than the active segment's last
  record is fully synced at EVERY cut) is tied by the power-loss slice, which rebuilds the loss
  image from the real syscall trace at every cut for several file subsets and reopens it.
-/
namespace CasModel

/-- (4) losing the unsynced suffix of fully synced files changes nothing -/
theorem C09_powerLoss_synced_noop (d : Disk) (lose : FileId → Bool)
    (hs : ∀ f x, (f, x) ∈ d.files → lose f = true → x.synced = x.data.length) :
    (d.powerLoss lose).files = d.files := by
  unfold Disk.powerLoss
  simp only
  have : ∀ (l : List (FileId × File)), (∀ f x, (f, x) ∈ l → lose f = true → x.synced = x.data.length) →
      l.map (fun (f, x) => if lose f then (f, { x with data := x.data.take x.synced }) else (f, x)) = l := by
    intro l hl
    induction l with
    | nil => rfl
    | cons e l ih =>
      obtain ⟨f, x⟩ := e
      simp only [List.map_cons]
      rw [ih (fun f' x' h' => hl f' x' (by simp [h']))]
      by_cases c : lose f = true
      · have := hl f x (by simp) c
        simp only [c, ↓reduceIte, this, List.take_length]
        cases x; simp_all
      · simp [c]
  exact this d.files hs

/-- (1) in Sync mode a committed blob is in place with ALL its bytes synced -/
theorem C09_blob_durable (H : Bytes → Bytes) (sz : Bytes → Nat) (m : Mem)
    (so : StrictOrder m.cfg.kind.lt) (inv : IdxInv m.cfg.kind.lt sz m.idx)
    (d : Disk) (hwf : d.WF) (t : Nat) (key : Bytes) (chunks : List Bytes)
    (hsz : sz (H chunks.flatten) = chunks.flatten.length)
    (hfresh : d.get (.staging t) = none) (hsync : m.cfg.sync = true) :
    ∃ evs m', putScript H m d t key chunks = (evs, m', .ok) ∧
      ∃ x, (d.applyAll evs).get (.cas (H chunks.flatten)) = some x ∧ x.data = chunks.flatten ∧
        x.synced = x.data.length := by
  obtain ⟨evs, m', h1, _, _, _, x, hx, hd, hs⟩ := C01_put_then_get H sz m so inv d hwf t key chunks hsz hfresh
  exact ⟨evs, m', h1, x, hx, hd, hs hsync⟩

/-- (1') the staged file is synced before it is renamed, and never written in between -/
theorem C09_sync_before_rename (H : Bytes → Bytes) (m : Mem) (d : Disk) (t : Nat) (key : Bytes)
    (chunks : List Bytes) (hsync : m.cfg.sync = true) :
    ∃ mk rest, (finishScript H m d t key chunks).1 =
      [Ev.write (.staging t) chunks.flatten, Ev.sync (.staging t)] ++ mk ++
      [Ev.rename (.staging t) (.cas (H chunks.flatten))] ++ rest ∧ (∀ e ∈ mk, ∃ p, e = Ev.mkdir p) := by
  unfold finishScript
  simp only [hsync, ↓reduceIte]
  have hmk : ∀ e ∈ (if m.preCreated then [] else mkdirsFor d (H chunks.flatten)), ∃ p, e = Ev.mkdir p := by
    intro e he
    split at he
    · simp at he
    · unfold mkdirsFor at he
      split at he
      · simp only [List.mem_append] at he
        rcases he with he | he <;> (split at he <;> simp at he <;> exact ⟨_, he⟩)
      · simp at he
  split
  · exact ⟨_, [], by simp, hmk⟩
  · rename_i evs m' _
    exact ⟨_, evs, by simp [List.append_assoc], hmk⟩

/-- (2) the snapshot is written, synced and only then renamed over `index`; segments are
    unlinked only after the rename -/
theorem C09_snapshot_order (r : CkptReason) (m : Mem) (d : Disk) :
    (checkpointScript r m d).1 = [] ∨
    ∃ bytes prunes, (checkpointScript r m d).1 =
      [Ev.creat .indexTmp true, .write .indexTmp bytes, .sync .indexTmp, .rename .indexTmp .index] ++ prunes ∧
      ∀ e ∈ prunes, ∃ j, e = Ev.unlink (.seg j) := by
  unfold checkpointScript
  split
  · left; rfl
  · right
    refine ⟨_, _, rfl, ?_⟩
    intro e he
    split at he
    · simp at he
    · simp only [List.mem_map] at he
      obtain ⟨j, _, rfl⟩ := he; exact ⟨j, rfl⟩

/-- (3) the record is written in ONE write and synced immediately; blob deletions and the
    rollover checkpoint come after that sync -/
theorem C09_record_order (H : Bytes → Bytes) (m : Mem) (d : Disk) (op : Op Bytes) (raw : RawOp)
    (evs : List Ev) (m' : Mem) (h : logAndApply H m d op raw = .ok (evs, m')) :
    ∃ roll dels ck, evs = roll ++
        [Ev.write (.seg (segOf m.cfg.N m.next)) (encodeEntry H ⟨m.next, serWalOp raw⟩),
         Ev.sync (.seg (segOf m.cfg.N m.next))] ++ dels ++ ck ∧
      (∀ e ∈ dels, ∃ x, e = Ev.unlink (.cas x)) ∧
      (∀ e ∈ roll, (∃ j, e = Ev.write (.seg j) sentinel) ∨ (∃ j, e = Ev.sync (.seg j)) ∨
                   (∃ j, e = Ev.creat (.seg j) false)) := by
  unfold logAndApply at h
  simp only at h
  split at h
  · cases h
  · injection h with h; injection h with h1 _
    refine ⟨_, _, _, h1.symm, ?_, ?_⟩
    · intro e he
      simp only [List.mem_map] at he
      obtain ⟨x, _, rfl⟩ := he; exact ⟨x, rfl⟩
    · intro e he
      split at he
      · simp at he
      · simp only [List.mem_append, List.mem_singleton] at he
        rcases he with he | he
        · split at he
          · simp only [List.mem_cons, List.mem_singleton, List.not_mem_nil, or_false] at he
            rcases he with rfl | rfl
            · exact Or.inl ⟨_, rfl⟩
            · exact Or.inr (Or.inl ⟨_, rfl⟩)
          · simp at he
        · subst he; exact Or.inr (Or.inr ⟨_, rfl⟩)

end CasModel
