import CasModel.Props.C19Store
import CasModel.Props.C07Seq
/-
  C19, last clause: "the choice of pre-created directory tree … does not change behaviour
  observably".  Non-interference: run any put / remove from two states that differ ONLY in the
  pre-creation flag of the handle and in which directories exist (same files): the scripts issue
  the same filesystem calls except for `mkdir`s, the resulting disks hold the same files, the
  resulting memories are equal up to the flag — so every later observation through the API (which
  reads files and the index only) is the same.
-/
namespace CasModel

def SameFiles (d d' : Disk) : Prop := d.files = d'.files

def Ev.isMkdir : Ev → Bool
  | .mkdir _ | .mkdirTree => true
  | _ => false

theorem sameFiles_apply (d d' : Disk) (h : SameFiles d d') (e : Ev) (he : e.isMkdir = false) :
    SameFiles (d.apply e) (d'.apply e) := by
  unfold SameFiles at h ⊢
  cases e with
  | mkdir p => simp [Ev.isMkdir] at he
  | mkdirTree => simp [Ev.isMkdir] at he
  | flock => exact h
  | creat f t => simp only [Disk.apply, Disk.get, h]; split <;> (try split) <;> simp [h]
  | write f bs => simp only [Disk.apply, Disk.get, h]; split <;> simp [h]
  | sync f => simp only [Disk.apply, Disk.get, h]; split <;> simp [h]
  | rename a b => simp only [Disk.apply, Disk.get, h]; split <;> simp [h]
  | unlink f => simp [Disk.apply, h]

theorem sameFiles_mkdir (d : Disk) (e : Ev) (he : e.isMkdir = true) : SameFiles (d.apply e) d := by
  unfold SameFiles
  cases e with
  | mkdir p => simp only [Disk.apply]; split <;> rfl
  | mkdirTree => rfl
  | _ => simp [Ev.isMkdir] at he

theorem sameFiles_filter (evs : List Ev) (d d' : Disk) (h : SameFiles d d') :
    SameFiles (d.applyAll evs) (d'.applyAll (evs.filter (fun e => !e.isMkdir))) := by
  induction evs generalizing d d' with
  | nil => exact h
  | cons e es ih =>
    by_cases c : e.isMkdir = true
    · simp only [List.filter_cons, c, Bool.not_true, Bool.false_eq_true, ↓reduceIte, Disk.applyAll_cons]
      exact ih _ _ ((sameFiles_mkdir d e c).trans h)
    · have c' : e.isMkdir = false := by simpa using c
      simp only [List.filter_cons, c', Bool.not_false, ↓reduceIte, Disk.applyAll_cons]
      exact ih _ _ (sameFiles_apply d d' h e c')

/-- two scripts that agree up to `mkdir`s take disks with the same files to disks with the same files -/
theorem sameFiles_applyAll (evs evs' : List Ev) (d d' : Disk) (h : SameFiles d d')
    (hev : evs.filter (fun e => !e.isMkdir) = evs'.filter (fun e => !e.isMkdir)) :
    SameFiles (d.applyAll evs) (d'.applyAll evs') := by
  have h1 := sameFiles_filter evs d d (rfl : SameFiles d d)
  have h2 := sameFiles_filter evs' d' d h.symm
  rw [← hev] at h2
  exact h1.trans h2.symm


theorem sameFiles_has (d d' : Disk) (h : SameFiles d d') (f : FileId) : d'.has f = d.has f := by
  unfold Disk.has; rw [h]

theorem sameFiles_get (d d' : Disk) (h : SameFiles d d') (f : FileId) : d'.get f = d.get f := by
  unfold Disk.get; rw [h]

theorem sameFiles_segIds (d d' : Disk) (h : SameFiles d d') : segIds d' = segIds d := by
  unfold segIds; rw [h]

/-- a checkpoint does not look at the flag or at directories -/
theorem checkpointScript_pre (r : CkptReason) (m : Mem) (d d' : Disk) (h : SameFiles d d') (b : Bool) :
    checkpointScript r { m with preCreated := b } d' =
      ((checkpointScript r m d).1, { (checkpointScript r m d).2 with preCreated := b }) := by
  unfold checkpointScript
  simp only [sameFiles_segIds d d' h]
  cases ckptTarget r m.next m.idx.lastPersisted <;> rfl

/-- a commit does not look at the flag or at directories -/
theorem logAndApply_pre (H : Bytes → Bytes) (m : Mem) (d d' : Disk) (h : SameFiles d d') (b : Bool)
    (op : Op Bytes) (raw : RawOp) :
    logAndApply H { m with preCreated := b } d' op raw =
      match logAndApply H m d op raw with
      | .error p => .error p
      | .ok (evs, m2) => .ok (evs, { m2 with preCreated := b }) := by
  cases ha : applyOp m.cfg.kind.lt m.idx op with
  | error e =>
    unfold logAndApply
    simp [ha]
  | ok r =>
    obtain ⟨idx', unref⟩ := r
    have hp := logAndApply_parts H m d op raw idx' unref ha
    have hp' := logAndApply_parts H { m with preCreated := b } d' op raw idx' unref ha
    simp only at hp hp'
    rw [hp, hp']
    -- the same WAL events on disks with the same files
    have hA := sameFiles_applyAll
      (rollEvents m.active (segOf m.cfg.N m.next) ++
        [Ev.write (.seg (segOf m.cfg.N m.next)) (encodeEntry H ⟨m.next, serWalOp raw⟩),
         .sync (.seg (segOf m.cfg.N m.next))]) _ d d' h rfl
    have hdels : (unref.filter (fun x => (d'.applyAll (rollEvents m.active (segOf m.cfg.N m.next) ++
          [Ev.write (.seg (segOf m.cfg.N m.next)) (encodeEntry H ⟨m.next, serWalOp raw⟩),
           .sync (.seg (segOf m.cfg.N m.next))])).has (.cas x))) =
        (unref.filter (fun x => (d.applyAll (rollEvents m.active (segOf m.cfg.N m.next) ++
          [Ev.write (.seg (segOf m.cfg.N m.next)) (encodeEntry H ⟨m.next, serWalOp raw⟩),
           .sync (.seg (segOf m.cfg.N m.next))])).has (.cas x))) := by
      apply List.filter_congr
      intro x _
      rw [sameFiles_has _ _ hA]
    simp only [hdels]
    have hB := sameFiles_applyAll
      ((unref.filter (fun x => (d.applyAll (rollEvents m.active (segOf m.cfg.N m.next) ++
          [Ev.write (.seg (segOf m.cfg.N m.next)) (encodeEntry H ⟨m.next, serWalOp raw⟩),
           .sync (.seg (segOf m.cfg.N m.next))])).has (.cas x))).map (fun x => Ev.unlink (.cas x))) _
      _ _ hA rfl
    by_cases hc : (if m.next > 1 then segOf m.cfg.N (m.next - 1) else 0) ≠ segOf m.cfg.N m.next
    · simp only [if_pos hc]
      rw [checkpointScript_pre .rollover
        { m with idx := idx', next := m.next + 1, active := some (segOf m.cfg.N m.next) } _ _ hB b]
    · simp only [if_neg hc]

/-- reads do not look at the flag or at directories -/
theorem getBlob_pre (m : Mem) (d d' : Disk) (h : SameFiles d d') (b : Bool) (k : Bytes) :
    getBlob { m with preCreated := b } d' k = getBlob m d k := by
  unfold getBlob
  simp only [sameFiles_get d d' h]

/-- **C19 (pre-creation is unobservable), put.**  From two states that differ only in the handle's
    pre-creation flag and in the directories that exist: the put returns the same result, issues
    the same calls up to `mkdir`s, leaves the same files, and the same memory up to the flag. -/
theorem C19_precreate_unobservable_put (H : Bytes → Bytes) (m : Mem) (d d' : Disk)
    (h : SameFiles d d') (b : Bool) (tn : Nat) (key : Bytes) (chunks : List Bytes) :
    let r := putScript H m d tn key chunks
    let r' := putScript H { m with preCreated := b } d' tn key chunks
    r'.2.2 = r.2.2 ∧ r'.2.1 = { r.2.1 with preCreated := b } ∧
      r'.1.filter (fun e => !e.isMkdir) = r.1.filter (fun e => !e.isMkdir) ∧
      SameFiles (d.applyAll r.1) (d'.applyAll r'.1) := by
  intro r r'
  -- the disks at the start of the commit hold the same files
  have hmk : ∀ (dd : Disk) (hh : Bytes), ∀ e ∈ mkdirsFor dd hh, e.isMkdir = true := by
    intro dd hh e he
    unfold mkdirsFor at he
    split at he
    · simp only [List.mem_append] at he
      rcases he with he | he <;> (split at he <;> simp at he <;> subst he <;> rfl)
    · cases he
  have hfilt : ∀ (l : List Ev), (∀ e ∈ l, e.isMkdir = true) → l.filter (fun e => !e.isMkdir) = [] := by
    intro l hl
    simp only [List.filter_eq_nil_iff, Bool.not_eq_true', Bool.not_eq_false]
    exact hl
  have hheadf : ∀ (mk mk' : List Ev), (∀ e ∈ mk, e.isMkdir = true) → (∀ e ∈ mk', e.isMkdir = true) →
      (beginScript tn ++ ([Ev.write (.staging tn) chunks.flatten] ++
          (if m.cfg.sync then [Ev.sync (.staging tn)] else []) ++ mk ++
          [Ev.rename (.staging tn) (.cas (H chunks.flatten))])).filter (fun e => !e.isMkdir) =
      (beginScript tn ++ ([Ev.write (.staging tn) chunks.flatten] ++
          (if m.cfg.sync then [Ev.sync (.staging tn)] else []) ++ mk' ++
          [Ev.rename (.staging tn) (.cas (H chunks.flatten))])).filter (fun e => !e.isMkdir) := by
    intro mk mk' h1 h2
    simp only [List.filter_append, hfilt mk h1, hfilt mk' h2]
  have hmkA : ∀ e ∈ (if m.preCreated then [] else mkdirsFor (d.applyAll (beginScript tn)) (H chunks.flatten)),
      e.isMkdir = true := by
    intro e he; split at he
    · cases he
    · exact hmk _ _ e he
  have hmkB : ∀ e ∈ (if b then [] else mkdirsFor (d'.applyAll (beginScript tn)) (H chunks.flatten)),
      e.isMkdir = true := by
    intro e he; split at he
    · cases he
    · exact hmk _ _ e he
  have hhead := hheadf _ _ hmkA hmkB
  have hd1 := sameFiles_applyAll _ _ d d' h hhead
  have hla := logAndApply_pre H m _ _ hd1 b
    (.put key (H chunks.flatten) (chunks.map List.length).sum)
    (.put key (H chunks.flatten) (chunks.map List.length).sum)
  simp only [r, r', putScript, finishScript]
  simp only [Disk.applyAll_append, List.append_assoc] at hla hd1 hhead ⊢
  rw [hla]
  cases hx : logAndApply H m
      (((((d.applyAll (beginScript tn)).applyAll [Ev.write (.staging tn) chunks.flatten]).applyAll
        (if m.cfg.sync then [Ev.sync (.staging tn)] else [])).applyAll
        (if m.preCreated then [] else mkdirsFor (d.applyAll (beginScript tn)) (H chunks.flatten))).applyAll
        [Ev.rename (.staging tn) (.cas (H chunks.flatten))])
      (.put key (H chunks.flatten) (chunks.map List.length).sum)
      (.put key (H chunks.flatten) (chunks.map List.length).sum) with
  | error p =>
    simp only
    refine ⟨trivial, trivial, ?_, ?_⟩
    · simp only [List.filter_append, List.append_assoc, hfilt _ hmkA, hfilt _ hmkB]
    · simp only [Disk.applyAll_append, Disk.applyAll_cons, Disk.applyAll_nil, List.append_assoc,
        List.cons_append, List.nil_append] at hd1 ⊢
      exact hd1
  | ok q =>
    obtain ⟨evs, m2⟩ := q
    simp only
    refine ⟨trivial, trivial, ?_, ?_⟩
    · simp only [List.filter_append, List.append_assoc, hfilt _ hmkA, hfilt _ hmkB]
    · have := sameFiles_applyAll evs evs _ _ hd1 rfl
      simp only [Disk.applyAll_append, Disk.applyAll_cons, Disk.applyAll_nil, List.append_assoc,
        List.cons_append, List.nil_append] at this ⊢
      exact this


/-- **C19 (pre-creation is unobservable), remove.** -/
theorem C19_precreate_unobservable_remove (H : Bytes → Bytes) (m : Mem) (d d' : Disk)
    (h : SameFiles d d') (b : Bool) (key : Bytes) :
    let r := removeScript H m d key
    let r' := removeScript H { m with preCreated := b } d' key
    r'.2.2 = r.2.2 ∧ r'.2.1 = { r.2.1 with preCreated := b } ∧ r'.1 = r.1 ∧
      SameFiles (d.applyAll r.1) (d'.applyAll r'.1) := by
  intro r r'
  simp only [r, r', removeScript]
  cases kLookup m.idx.map key with
  | none => exact ⟨rfl, rfl, rfl, h⟩
  | some item =>
    simp only
    rw [logAndApply_pre H m d d' h b]
    cases logAndApply H m d (.remove [key]) (.remove [key]) with
    | error p => exact ⟨rfl, rfl, rfl, h⟩
    | ok q =>
      obtain ⟨evs, m2⟩ := q
      exact ⟨rfl, rfl, rfl, sameFiles_applyAll evs evs d d' h rfl⟩

/-- non-vacuity: a pre-created tree and an empty one are `SameFiles` -/
example : SameFiles ({} : Disk) { preTree := true, dirs := [[[1]]] } := rfl

end CasModel
