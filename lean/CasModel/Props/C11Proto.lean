import CasModel.Lock
import CasModel.Props.C19

/-!
# C11 at protocol level: every interleaving of opens, clones, drops and process deaths

`Props/C19` (`C11_lock_first`, `C11_flock_precedes`) says what ONE call of `open` does given
whether the lock is held. This file adds who holds it: any number of processes and threads call
`open` concurrently (the steps `start` / `tryLock` / `fail` / `succeed` of different calls
interleave freely), clone and drop handles, and die; in every reachable state at most one call
owns the directory, a refused call changed nothing, and once the owner is gone the next call is
granted.
-/
namespace CasModel.Lock

structure Inv (s : State) : Prop where
  bound : ∀ o e, s.ents o = some e → o < s.next
  own   : ∀ o e, s.ents o = some e → (e.st.owns = true ↔ s.holder = some o)
  held  : ∀ o, s.holder = some o → ∃ e, s.ents o = some e
  refs  : ∀ o p n, s.ents o = some ⟨p, .live n⟩ → 1 ≤ n

theorem inv_init : Inv {} :=
  ⟨(by intro o e h; cases h), (by intro o e h; cases h), (by intro o h; cases h), (by intro o p n h; cases h)⟩

theorem Inv.close {s : State} (h : Inv s) (o : Nat) : Inv (s.close o) := by
  refine ⟨?_, ?_, ?_, ?_⟩
  · intro x e hx
    by_cases hxo : x = o
    · simp [State.close, hxo] at hx
    · simp only [State.close, hxo, if_false] at hx; exact h.bound x e hx
  · intro x e hx
    by_cases hxo : x = o
    · simp [State.close, hxo] at hx
    · simp only [State.close, hxo, if_false] at hx
      have := h.own x e hx
      simp only [State.close]
      by_cases hh : s.holder = some o
      · simp only [hh, if_true]
        constructor
        · intro ho; have := this.mp ho; rw [hh] at this; cases this; exact absurd rfl hxo
        · intro hn; cases hn
      · simp only [hh, if_false]; exact this
  · intro x hx
    simp only [State.close] at hx ⊢
    by_cases hh : s.holder = some o
    · simp [hh] at hx
    · simp only [hh, if_false] at hx
      have hxo : x ≠ o := by intro hc; subst hc; exact hh hx
      simp only [hxo, if_false]; exact h.held x hx
  · intro x p n hx
    by_cases hxo : x = o
    · simp [State.close, hxo] at hx
    · simp only [State.close, hxo, if_false] at hx; exact h.refs x p n hx

/-- replacing the state of one description by one that owns the lock exactly when the old one did -/
theorem Inv.set {s : State} (h : Inv s) (o p : Nat) (st st' : St) (ho : s.ents o = some ⟨p, st⟩)
    (hown : st'.owns = st.owns) (hr : ∀ n, st' = .live n → 1 ≤ n) :
    Inv { s with ents := fun x => if x = o then some ⟨p, st'⟩ else s.ents x } := by
  refine ⟨?_, ?_, ?_, ?_⟩
  · intro x e hx
    by_cases hxo : x = o
    · subst hxo; exact h.bound x _ ho
    · simp only [hxo, if_false] at hx; exact h.bound x e hx
  · intro x e hx
    by_cases hxo : x = o
    · subst hxo; simp only [if_true] at hx; cases hx
      simpa [hown] using h.own x _ ho
    · simp only [hxo, if_false] at hx; exact h.own x e hx
  · intro x hx
    by_cases hxo : x = o
    · refine ⟨⟨p, st'⟩, ?_⟩; simp [hxo]
    · simp only [hxo, if_false]; exact h.held x hx
  · intro x q n hx
    by_cases hxo : x = o
    · subst hxo; simp only [if_true] at hx; cases hx; exact hr n rfl
    · simp only [hxo, if_false] at hx; exact h.refs x q n hx

theorem inv_step {s : State} (h : Inv s) (x : Step) : Inv (step s x).1 := by
  cases x with
  | start p =>
    simp only [step]
    refine ⟨?_, ?_, ?_, ?_⟩
    · intro o e ho
      show o < s.next + 1
      by_cases hon : o = s.next
      · omega
      · simp only [hon, if_false] at ho; have := h.bound o e ho; omega
    · intro o e ho
      by_cases hon : o = s.next
      · subst hon; simp only [if_true] at ho; cases ho
        simp only [St.owns]
        constructor
        · intro hc; cases hc
        · intro hc
          obtain ⟨e, he⟩ := h.held _ hc
          exact absurd (h.bound _ e he) (by omega)
      · simp only [hon, if_false] at ho; exact h.own o e ho
    · intro o ho
      by_cases hon : o = s.next
      · refine ⟨⟨p, .opening⟩, ?_⟩; simp [hon]
      · simp only [hon, if_false]; exact h.held o ho
    · intro o q n ho
      by_cases hon : o = s.next
      · subst hon; simp only [if_true] at ho; cases ho
      · simp only [hon, if_false] at ho; exact h.refs o q n ho
  | tryLock o =>
    simp only [step]
    cases ho : s.ents o with
    | none => exact h
    | some e =>
      obtain ⟨p, st⟩ := e
      cases st with
      | opening =>
        cases hh : s.holder with
        | none =>
          simp only
          refine ⟨?_, ?_, ?_, ?_⟩
          · intro x e hx
            by_cases hxo : x = o
            · subst hxo; exact h.bound x _ ho
            · simp only [hxo, if_false] at hx; exact h.bound x e hx
          · intro x e hx
            by_cases hxo : x = o
            · subst hxo; simp only [if_true] at hx; cases hx; simp [St.owns]
            · simp only [hxo, if_false] at hx
              have := h.own x e hx
              rw [hh] at this
              constructor
              · intro hc; have := this.mp hc; cases this
              · intro hc; simp only [Option.some.injEq] at hc; exact absurd hc.symm hxo
          · intro x hx
            simp only [Option.some.injEq] at hx; subst hx
            refine ⟨⟨p, .holding⟩, ?_⟩; simp
          · intro x q n hx
            by_cases hxo : x = o
            · subst hxo; simp only [if_true] at hx; cases hx
            · simp only [hxo, if_false] at hx; exact h.refs x q n hx
        | some o' => exact h.close o
      | holding => exact h
      | live n => exact h
  | fail o =>
    simp only [step]
    cases ho : s.ents o with
    | none => exact h
    | some e =>
      obtain ⟨p, st⟩ := e
      cases st with
      | opening => exact h
      | holding => exact h.close o
      | live n => exact h
  | succeed o stats =>
    simp only [step]
    cases ho : s.ents o with
    | none => exact h
    | some e =>
      obtain ⟨p, st⟩ := e
      cases st with
      | opening => exact h
      | holding =>
        exact h.set o p .holding _ ho rfl (by intro n hn; cases hn; cases stats <;> simp)
      | live n => exact h
  | clone o =>
    simp only [step]
    cases ho : s.ents o with
    | none => exact h
    | some e =>
      obtain ⟨p, st⟩ := e
      cases st with
      | opening => exact h
      | holding => exact h
      | live n => exact h.set o p (.live n) _ ho rfl (by intro m hm; cases hm; omega)
  | drop o =>
    simp only [step]
    cases ho : s.ents o with
    | none => exact h
    | some e =>
      obtain ⟨p, st⟩ := e
      cases st with
      | opening => exact h
      | holding => exact h
      | live n =>
        simp only
        by_cases hn : n ≤ 1
        · simp only [hn, if_true]; exact h.close o
        · simp only [hn, if_false]
          exact h.set o p (.live n) _ ho rfl (by intro m hm; cases hm; omega)
  | die p =>
    simp only [step]
    refine ⟨?_, ?_, ?_, ?_⟩
    · intro o e ho
      cases he : s.ents o with
      | none => simp [he] at ho
      | some e' => exact h.bound o e' he
    · intro o e ho
      cases he : s.ents o with
      | none => simp [he] at ho
      | some e' =>
        simp only [he] at ho
        by_cases hp : e'.proc = p
        · simp [hp] at ho
        · simp only [hp, if_false, Option.some.injEq] at ho; subst ho
          have := h.own o e' he
          constructor
          · intro hc
            have hh := this.mp hc
            simp only [hh, he, hp, if_false]
          · intro hc
            apply this.mpr
            cases hh : s.holder with
            | none => simp [hh] at hc
            | some o' =>
              simp only [hh] at hc
              cases he' : s.ents o' with
              | none => simp only [he'] at hc; exact hc
              | some e'' =>
                simp only [he'] at hc
                by_cases hp' : e''.proc = p
                · simp [hp'] at hc
                · simp only [hp', if_false] at hc; exact hc
    · intro o ho
      cases hh : s.holder with
      | none => simp [hh] at ho
      | some o' =>
        simp only [hh] at ho
        obtain ⟨e, he⟩ := h.held o' hh
        simp only [he] at ho
        by_cases hp : e.proc = p
        · simp [hp] at ho
        · simp only [hp, if_false, Option.some.injEq] at ho; subst ho
          exact ⟨e, by simp [he, hp]⟩
    · intro o q n ho
      cases he : s.ents o with
      | none => simp [he] at ho
      | some e' =>
        simp only [he] at ho
        by_cases hp : e'.proc = p
        · simp [hp] at ho
        · simp only [hp, if_false, Option.some.injEq] at ho; subst ho
          exact h.refs o q n he

theorem inv_run {s : State} (h : Inv s) (l : List Step) : Inv (run s l) := by
  induction l generalizing s with
  | nil => exact h
  | cons x l ih => exact ih (inv_step h x)

/-- **C11 (at most one owner).** After ANY sequence of steps of any number of concurrent calls of
    `open` in any number of processes, clones, drops and process deaths: two descriptions that
    both own the directory — a call past its `try_lock`, or a live handle — are the same one. -/
theorem C11_at_most_one_owner (l : List Step) (o₁ o₂ : Nat) (e₁ e₂ : Ent)
    (h₁ : (run {} l).ents o₁ = some e₁) (h₂ : (run {} l).ents o₂ = some e₂)
    (w₁ : e₁.st.owns = true) (w₂ : e₂.st.owns = true) : o₁ = o₂ := by
  have h := inv_run inv_init l
  have a := (h.own o₁ e₁ h₁).mp w₁
  have b := (h.own o₂ e₂ h₂).mp w₂
  rw [a] at b; cases b; rfl

/-- in particular at most one live handle -/
theorem C11_at_most_one_handle (l : List Step) : (run {} l).liveList.length ≤ 1 := by
  have h := inv_run inv_init l
  generalize run {} l = s at h
  have hnd : (s.liveList).Nodup := (List.nodup_range).filter _
  match hl : s.liveList with
  | [] => simp
  | [_] => simp
  | a :: b :: t =>
    exfalso
    have ha : a ∈ s.liveList := by rw [hl]; simp
    have hb : b ∈ s.liveList := by rw [hl]; simp
    have hab : a ≠ b := by rw [hl] at hnd; simp at hnd; exact hnd.1.1
    simp only [State.liveList, List.mem_filter] at ha hb
    have oa : ∃ e, s.ents a = some e ∧ e.st.owns = true := by
      cases he : s.ents a with
      | none => simp [he] at ha
      | some e => obtain ⟨p, st⟩ := e; cases st <;> simp [he] at ha <;> exact ⟨_, rfl, rfl⟩
    have ob : ∃ e, s.ents b = some e ∧ e.st.owns = true := by
      cases he : s.ents b with
      | none => simp [he] at hb
      | some e => obtain ⟨p, st⟩ := e; cases st <;> simp [he] at hb <;> exact ⟨_, rfl, rfl⟩
    obtain ⟨ea, hea, wa⟩ := oa
    obtain ⟨eb, heb, wb⟩ := ob
    have a' := (h.own a ea hea).mp wa
    have b' := (h.own b eb heb).mp wb
    rw [a'] at b'; cases b'; exact hab rfl

/-- **C11 (the loser).** While some description owns the directory, `try_lock` of any other call
    is refused, and all it does to the lock state is close its own description: the owner, its
    reference count and every other call are untouched. (What the refused call did to the
    directory: `C11_lock_first` — it created/opened LOCK and nothing else.) -/
theorem C11_loser_refused {s : State} (h : Inv s) (o p o' : Nat) (e' : Ent)
    (ho : s.ents o = some ⟨p, .opening⟩) (ho' : s.ents o' = some e') (w : e'.st.owns = true) :
    (step s (.tryLock o)).2 = .refused ∧
    (step s (.tryLock o)).1.holder = some o' ∧
    (step s (.tryLock o)).1.ents o = none ∧
    ∀ x, x ≠ o → (step s (.tryLock o)).1.ents x = s.ents x := by
  have hh := (h.own o' e' ho').mp w
  have hne : o' ≠ o := by
    intro hc; subst hc; rw [ho] at ho'; cases ho'; simp [St.owns] at w
  have e : step s (.tryLock o) = (s.close o, .refused) := by simp [step, ho, hh]
  rw [e]
  refine ⟨rfl, ?_, ?_, ?_⟩
  · simp [State.close, hh, hne]
  · simp [State.close]
  · intro x hx; simp [State.close, hx]

/-- **C11 (the winner).** When no description owns the directory — nobody opened it yet, the
    owner dropped its last reference, its `open` failed after taking the lock, or its process died
    — `try_lock` of the next call is granted. -/
theorem C11_free_granted {s : State} (h : Inv s) (o p : Nat)
    (ho : s.ents o = some ⟨p, .opening⟩)
    (free : ∀ x e, s.ents x = some e → e.st.owns = false) :
    (step s (.tryLock o)).2 = .granted := by
  have hn : s.holder = none := by
    cases hh : s.holder with
    | none => rfl
    | some o' =>
      obtain ⟨e, he⟩ := h.held o' hh
      have := (h.own o' e he).mpr hh
      rw [free o' e he] at this; cases this
  simp [step, ho, hn]

/-- the lock is free exactly when nobody owns the directory -/
theorem holder_none_iff {s : State} (h : Inv s) :
    s.holder = none ↔ ∀ x e, s.ents x = some e → e.st.owns = false := by
  constructor
  · intro hn x e he
    cases hw : e.st.owns with
    | false => rfl
    | true => have := (h.own x e he).mp hw; rw [hn] at this; cases this
  · intro free
    cases hh : s.holder with
    | none => rfl
    | some o' =>
      obtain ⟨e, he⟩ := h.held o' hh
      have := (h.own o' e he).mpr hh
      rw [free o' e he] at this; cases this

/-- the owner's process dies: the lock is free, whatever else is going on -/
theorem C11_owner_dies_free {s : State} (h : Inv s) (o : Nat) (e : Ent)
    (ho : s.ents o = some e) (w : e.st.owns = true) :
    (step s (.die e.proc)).1.holder = none := by
  have hh := (h.own o e ho).mp w
  simp [step, hh, ho]

/-- the last reference is dropped: the lock is free; an earlier drop keeps it -/
theorem C11_last_drop_free {s : State} (h : Inv s) (o p : Nat)
    (ho : s.ents o = some ⟨p, .live 1⟩) : (step s (.drop o)).1.holder = none := by
  have hh := (h.own o _ ho).mp rfl
  simp [step, ho, hh, State.close]

theorem C11_clone_drop_keeps {s : State} (h : Inv s) (o p n : Nat)
    (ho : s.ents o = some ⟨p, .live (n + 2)⟩) :
    (step s (.drop o)).1.holder = some o ∧ (step s (.drop o)).1.ents o = some ⟨p, .live (n + 1)⟩ := by
  have hh := (h.own o _ ho).mp rfl
  simp [step, ho, hh]

/-- an `open` that fails AFTER taking the lock gives it back -/
theorem C11_failed_open_free {s : State} (h : Inv s) (o p : Nat)
    (ho : s.ents o = some ⟨p, .holding⟩) : (step s (.fail o)).1.holder = none := by
  have hh := (h.own o _ ho).mp rfl
  simp [step, ho, hh, State.close]

/-- one whole call of `open` (the granularity of the correspondence slice): refused iff somebody
    owns the directory -/
theorem C11_openCall {s : State} (h : Inv s) (p : Nat) (good stats : Bool) :
    ((openCall s p good stats).2 = .refused ↔ s.holder ≠ none) ∧ Inv (openCall s p good stats).1 := by
  constructor
  · cases hh : s.holder <;> cases good <;> simp [openCall, step, hh, State.close]
  · have h2 := inv_step (inv_step h (.start p)) (.tryLock s.next)
    dsimp only [openCall]
    generalize step (step s (.start p)).1 (.tryLock s.next) = q at h2 ⊢
    obtain ⟨s2, r⟩ := q
    cases r with
    | granted => cases good <;> exact inv_step h2 _
    | opened o => exact h2
    | refused => exact h2
    | ok => exact h2
    | noop => exact h2

/-- the link to the disk-level script of `open`: while the directory is owned, a call of `open`
    returns `AlreadyOpened` having touched nothing but LOCK -/
theorem C11_owned_open_script (H : Bytes → Bytes) (cfg : Config) (d : Disk) {s : State}
    (hs : s.holder ≠ none) :
    ∃ evs, openScript H cfg d s.holder.isSome = (evs, .error .alreadyOpened) ∧
      (∀ ev ∈ evs, ev.preGate = true ∧ ev ≠ .flock) ∧
      (∀ g, g ≠ .lock → (d.applyAll evs).get g = d.get g) := by
  have : s.holder.isSome = true := by cases hh : s.holder <;> simp_all
  rw [this]; exact C11_lock_first H cfg d

/-- the premises are met by a concrete run: process 0 opens and holds, process 1 is refused,
    process 0 dies, process 1 is granted -/
example :
    let s := run {} [.start 0, .tryLock 0, .succeed 0 true, .start 1, .tryLock 1, .die 0, .start 1, .tryLock 2]
    s.holder = some 2 ∧ s.ents 0 = none ∧ s.ents 1 = none ∧ s.ents 2 = some ⟨1, .holding⟩ := by
  decide

end CasModel.Lock
