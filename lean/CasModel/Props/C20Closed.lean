import CasModel.Props.GuardsSat4
import CasModel.Props.C06Live
import CasModel.Props.C20Store
import CasModel.Props.C02Hist
import CasModel.Props.C12Live
/-
  C20 along whole histories: in every state a history of `LOp` steps reaches, and at every kill
  image of every step, the files are WELL FORMED — the segment files decode, in id order, to records
  with strictly increasing versions placed by (v-1)/N, the index file loads to a state in the index
  invariant that is the replay of the logged operations up to its version, and every logged
  operation above that version is present in a segment.
-/
namespace CasModel
open Ghost

variable (H : Bytes → Bytes) (kind : KeyKind) (sz : Bytes → Nat) (N : Nat)

/-- **C20 at every kill image of every kind of step** from a live, roomy store (the guards of the
    step follow from `Roomy`; for a put: a reasonable key and a content the hash is collision-free
    on) -/
theorem C20_step_all_prefixes (so : StrictOrder kind.lt) (hH : Hash32 H) (P : Bytes → Prop)
    (hinj : Inj H sz P) (cfg : Config) (hk : cfg.kind = kind) (hn : cfg.N = N) (b : Nat) (m : Mem)
    (sys : Sys (KMap Bytes) Bytes) (hist : Recs Bytes) (d : Disk) (spec : Spec) (tn : Nat)
    (live : StoreLive H kind sz N m sys hist d spec tn) (r : Roomy kind b m) (hset : Settled cfg d)
    (hb : b + 4 ≤ 2 ^ 15) (op : LOp) (hop : SmallOpAll kind P op) (j : Nat) :
    ∃ hists, WellFormed H kind sz N hists (d.applyAll ((op.script H cfg m d tn).take j)) := by
  have t := live.tied
  have h15 : (2:Nat) ^ 15 < U32 := by decide
  have h3264 : U32 < U64 := by decide
  have hsv : SaveOK kind m.idx := saveOK_of kind _ m.idx rfl r.keys r.ents (by have := r.count; omega)
  have hver : m.next < U64 := by have := r.next.2; omega
  have two : ∀ raw dj, ImgTwo H kind sz N m hist raw dj → ∃ hists, WellFormed H kind sz N hists dj :=
    fun raw dj i => ⟨_, i.rcv.wellFormed H kind sz N hH _ dj⟩
  have same : ∀ dj, ImgSame H kind sz N m hist dj → ∃ hists, WellFormed H kind sz N hists dj :=
    fun dj i => ⟨_, i.rcv.wellFormed H kind sz N hH _ dj⟩
  have hput : ∀ key chunks, SmallKey kind key ∧ P chunks.flatten ∧ chunks.flatten.length < U64 →
      ∃ hists, WellFormed H kind sz N hists (d.applyAll ((putScript H m d tn key chunks).1.take j)) := by
    intro key chunks ⟨h1, h2, h3⟩
    exact two _ _ (put_img H kind sz N so hH P hinj m sys hist d t tn key chunks
      (putOK_of_roomy H kind hH P b m r (by omega) key chunks h1 h2 h3) j)
  have hrem : ∀ key, SmallKey kind key →
      ∃ hists, WellFormed H kind sz N hists (d.applyAll ((removeScript H m d key).1.take j)) :=
    fun key h1 => two _ _ (remove_img H kind sz N so hH m sys hist d t key
      (removeOK_of_roomy kind b m r (by omega) key h1) j)
  have hrng : ∀ lo hi,
      ∃ hists, WellFormed H kind sz N hists (d.applyAll ((removeRangeScript H m d lo hi).1.take j)) :=
    fun lo hi => two _ _ (range_img H kind sz N so hH m sys hist d t lo hi
      (rangeOK_of_roomy kind b m r (by omega) lo hi) j)
  have hck := same _ (checkpoint_img H kind sz N so m sys hist d t hsv hver j)
  have hre : ∃ hists, WellFormed H kind sz N hists (d.applyAll ((closeScript m ++
      (openBody H cfg (d.applyAll (closeScript m))).1).take j)) := by
    have hc := closeScript_benign m
    have hsetc := hset.frame cfg d live.sinv.wf _ (closeScript_settings m)
    have ho0 := openOK_of_tied H kind sz N so hH b m sys hist d t r (by omega) (closeScript m)
      (fun e he => (hc e he).1) cfg (hsetc.gate cfg _)
    exact same _ (reopen_img H kind sz N so hH m sys hist d t cfg hk hn ho0 j)
  have hab : ∀ c, ∃ hists, WellFormed H kind sz N hists (d.applyAll ((abandonedEvents tn c).take j)) :=
    fun c => same _ (tied_img H kind sz N m sys hist d t _
      (fun e he => (abandoned_benign tn c e (List.mem_of_mem_take he)).1))
  cases op with
  | put k c => exact hput k c hop
  | putCrash k c _ => exact hput k c hop
  | remove k => exact hrem k hop
  | removeCrash k _ => exact hrem k hop
  | removeRange lo hi => exact hrng lo hi
  | removeRangeCrash lo hi _ => exact hrng lo hi
  | checkpoint => exact hck
  | checkpointCrash _ => exact hck
  | reopen => exact hre
  | reopenCrash _ => exact hre
  | abandon c => exact hab c
  | abandonCrash c _ => exact hab c

/-- a live store's disk is well formed -/
theorem StoreLive.wellFormed (hH : Hash32 H) (m : Mem) (sys : Sys (KMap Bytes) Bytes) (hist : Recs Bytes)
    (d : Disk) (spec : Spec) (tn : Nat) (live : StoreLive H kind sz N m sys hist d spec tn) :
    WellFormed H kind sz N [hist] d :=
  (live.tied.cfg.toRec H kind sz N [hist] (by simp)).wellFormed H kind sz N hH _ d

/-- **C20, closed**: from an empty directory, after any history of at most 2^15 - 3 operations of
    the fourteen kinds (kills anywhere included) the files are well formed. -/
theorem C20_closed (hH : Hash32 H) (P : Bytes → Prop) (hinj : Inj H sz P) (cfg : Config)
    (hN : 0 < cfg.N) (hN64 : cfg.N < 2 ^ 64) (d : Disk) (e : EmptyDir d)
    (ops : List LOp) (hb : ops.length + 3 ≤ 2 ^ 15) (hops : ∀ op ∈ ops, SmallOpAll cfg.kind P op) :
    ∃ m0 sc, (openBody H cfg d).2 = .ok (m0, sc) ∧
      ∃ m' d' tn' hist', lRun H cfg m0 (d.applyAll (openBody H cfg d).1) 0 ops = some (m', d', tn') ∧
        WellFormed H cfg.kind sz cfg.N [hist'] d' := by
  have so := keyOrder_strict cfg.kind
  obtain ⟨m0, sys0, sc, hres, live, r, hset⟩ :=
    first_open_small H cfg.kind sz cfg.N so hH P hinj cfg rfl rfl hN hN64 d e
  have hguards := liveOK_of_small_all H cfg.kind sz cfg.N so hH P hinj cfg rfl rfl ops 0 m0 sys0 [] _ _ 0 live
    (fun _ _ h => by cases h) r (hset.settled cfg _) (by omega) hops
  obtain ⟨m', d', tn', sys', hist', _, hr, _, livef, _⟩ :=
    C03_histories_with_crashes H cfg.kind sz cfg.N so hH P hinj cfg rfl rfl ops m0 sys0 [] _ _ 0 live
      (fun _ _ h => by cases h) hguards
  exact ⟨m0, sc, hres, m', d', tn', hist', hr,
    livef.wellFormed H cfg.kind sz cfg.N hH m' sys' hist' d' _ tn'⟩

/-- **C06, closed**: from an empty directory, after any history of at most 2^15 - 3 operations of the
    fourteen kinds (kills anywhere included) every file under cas/ holds exactly the bytes whose
    digest is its name. -/
theorem C06_closed (hH : Hash32 H) (P : Bytes → Prop) (hinj : Inj H sz P) (cfg : Config)
    (hN : 0 < cfg.N) (hN64 : cfg.N < 2 ^ 64) (d : Disk) (e : EmptyDir d)
    (ops : List LOp) (hb : ops.length + 3 ≤ 2 ^ 15) (hops : ∀ op ∈ ops, SmallOpAll cfg.kind P op) :
    ∃ m0 sc, (openBody H cfg d).2 = .ok (m0, sc) ∧
      ∃ m' d' tn', lRun H cfg m0 (d.applyAll (openBody H cfg d).1) 0 ops = some (m', d', tn') ∧
        CasOK H d' := by
  have so := keyOrder_strict cfg.kind
  obtain ⟨m0, sys0, sc, hres, live, r, hset⟩ :=
    first_open_small H cfg.kind sz cfg.N so hH P hinj cfg rfl rfl hN hN64 d e
  have hguards := liveOK_of_small_all H cfg.kind sz cfg.N so hH P hinj cfg rfl rfl ops 0 m0 sys0 [] _ _ 0 live
    (fun _ _ h => by cases h) r (hset.settled cfg _) (by omega) hops
  obtain ⟨m', d', tn', _, _, _, hr, _, _, _⟩ :=
    C03_histories_with_crashes H cfg.kind sz cfg.N so hH P hinj cfg rfl rfl ops m0 sys0 [] _ _ 0 live
      (fun _ _ h => by cases h) hguards
  have ok0 : CasOK H (d.applyAll (openBody H cfg d).1) := by
    intro h x hx
    rw [sparesCas_frame_all d e.wf h _ (fun ev he => (openBody_quiet H cfg d ev he).1 h), e.cas h] at hx
    cases hx
  exact ⟨m0, sc, hres, m', d', tn', hr,
    C06_histories_with_crashes H cfg.kind sz cfg.N so hH P hinj cfg rfl rfl ops m0 sys0 [] _ _ 0 live ok0
      (fun _ _ h => by cases h) hguards m' d' tn' hr⟩

/-- **C08, closed**: from an empty directory, after any history of at most 2^15 - 3 operations of
    the fourteen kinds — kills anywhere, leftovers of killed operations lying around — running
    `delete_orphans` with the scan of that directory leaves an EXACT store: tied to the WAL machine,
    every key reading its content, a file under cas/ iff a key references it, staging/ empty,
    nothing foreign in the tree. -/
theorem C08_closed (hH : Hash32 H) (P : Bytes → Prop) (hinj : Inj H sz P) (cfg : Config)
    (hN : 0 < cfg.N) (hN64 : cfg.N < 2 ^ 64) (d : Disk) (e : EmptyDir d) (verify : Bool)
    (ops : List LOp) (hb : ops.length + 3 ≤ 2 ^ 15) (hops : ∀ op ∈ ops, SmallOpAll cfg.kind P op) :
    ∃ m0 sc, (openBody H cfg d).2 = .ok (m0, sc) ∧
      ∃ m' d' tn' sys' hist' spec',
        lRun H cfg m0 (d.applyAll (openBody H cfg d).1) 0 ops = some (m', d', tn') ∧
        LReach cfg.kind (fun _ => none) ops spec' ∧
        StoreOK H cfg.kind sz cfg.N m' sys' hist'
          (d'.applyAll (deleteOrphansScript m' (scanCanonical H verify m'.idx d') d').1) spec' tn' := by
  have so := keyOrder_strict cfg.kind
  obtain ⟨m0, sys0, sc, hres, live, r, hset⟩ :=
    first_open_small H cfg.kind sz cfg.N so hH P hinj cfg rfl rfl hN hN64 d e
  have hguards := liveOK_of_small_all H cfg.kind sz cfg.N so hH P hinj cfg rfl rfl ops 0 m0 sys0 [] _ _ 0 live
    (fun _ _ h => by cases h) r (hset.settled cfg _) (by omega) hops
  obtain ⟨m', d', tn', sys', hist', spec', hr, hreach, livef, _⟩ :=
    C03_histories_with_crashes H cfg.kind sz cfg.N so hH P hinj cfg rfl rfl ops m0 sys0 [] _ _ 0 live
      (fun _ _ h => by cases h) hguards
  exact ⟨m0, sc, hres, m', d', tn', sys', hist', spec', hr, hreach,
    livef.cleanup H cfg.kind sz cfg.N verify m' sys' hist' d' spec' tn'⟩

/-- **C12, closed, kills included**: from an empty directory, after any history of at most 2^15 - 3
    operations of the fourteen kinds — "after every operation, and after every reopen or crash
    recovery" — the reference count of each blob is the number of keys mapped to it, the known
    blobs are the referenced ones, `unique_blobs` and `total_bytes` are exact, and every key's
    recorded size is the length of the content it reads. -/
theorem C12_closed (hH : Hash32 H) (P : Bytes → Prop) (hinj : Inj H sz P) (cfg : Config)
    (hN : 0 < cfg.N) (hN64 : cfg.N < 2 ^ 64) (d : Disk) (e : EmptyDir d)
    (ops : List LOp) (hb : ops.length + 3 ≤ 2 ^ 15) (hops : ∀ op ∈ ops, SmallOpAll cfg.kind P op) :
    ∃ m0 sc, (openBody H cfg d).2 = .ok (m0, sc) ∧
      ∃ m' d' tn' spec', lRun H cfg m0 (d.applyAll (openBody H cfg d).1) 0 ops = some (m', d', tn') ∧
        LReach cfg.kind (fun _ => none) ops spec' ∧
        (∀ h, rcCount m'.idx h = countHash m'.idx.map h) ∧
        (∀ h, h ∈ rcKeys m'.idx.rc ↔ ∃ e ∈ m'.idx.map, e.2.hash = h) ∧
        m'.idx.uniqueBlobs = (rcKeys m'.idx.rc).length ∧
        m'.idx.totalBytes = ((rcKeys m'.idx.rc).map sz).sum ∧
        (∀ k item c, kLookup m'.idx.map k = some item → spec' k = some c →
          item.size = c.length ∧ getBlob m' d' k = .found c) := by
  have so := keyOrder_strict cfg.kind
  obtain ⟨m0, sys0, sc, hres, live, r, hset⟩ :=
    first_open_small H cfg.kind sz cfg.N so hH P hinj cfg rfl rfl hN hN64 d e
  have hguards := liveOK_of_small_all H cfg.kind sz cfg.N so hH P hinj cfg rfl rfl ops 0 m0 sys0 [] _ _ 0 live
    (fun _ _ h => by cases h) r (hset.settled cfg _) (by omega) hops
  obtain ⟨m', d', tn', sys', hist', spec', hr, hreach, livef, _⟩ :=
    C03_histories_with_crashes H cfg.kind sz cfg.N so hH P hinj cfg rfl rfl ops m0 sys0 [] _ _ 0 live
      (fun _ _ h => by cases h) hguards
  obtain ⟨c1, c2, _, c4, c5, _, c7⟩ := C12_live_counts H cfg.kind sz cfg.N m' sys' hist' d' spec' tn' livef
  exact ⟨m0, sc, hres, m', d', tn', spec', hr, hreach, c1, c2, c4, c5, c7⟩

end CasModel
