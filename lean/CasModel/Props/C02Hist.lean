import CasModel.Props.C02Store
import CasModel.Proofs.ApiSim
/-
  Whole histories WITH restarts, at the level of bytes and events: any sequence of puts (any
  chunking), removes and clean restarts (drop the handle, `open` again), started from a store that
  is tied to the WAL machine and in the sequential invariants — e.g. a freshly created one —
  runs to completion (no panic, every `open` returns a handle, its integrity scan finds nothing),
  and at the end
    * the store is again tied and in the invariants (`StoreOK`), for the specification map obtained
      by applying the operations to the initial one (a restart changes nothing),
    * hence every key reads exactly the content the plain map `key → content` holds (C01), reference
      counts and statistics are those of that map (C12), cas/ holds a file for a hash iff a key
      references it and staging/ is empty (C07), and all of this was unaffected by the restarts (C02).
  Composition of `putScript_sim`/`removeScript_sim` (WAL side), `putScript_sinv`/`removeScript_sinv`
  (contents), `putScript_exact`/`removeScript_exact` (nothing more), `C02_reopen_succeeds` (restart).
-/
namespace CasModel
open Ghost

theorem logAndApply_stray (H : Bytes → Bytes) (m : Mem) (d : Disk) (op : Op Bytes) (raw : RawOp)
    (evs : List Ev) (m' : Mem) (h : logAndApply H m d op raw = .ok (evs, m')) (p : List Bytes) :
    ∀ e ∈ evs, e.touches (.stray p) = false := by
  cases ha : applyOp m.cfg.kind.lt m.idx op with
  | error e => unfold logAndApply at h; simp [ha] at h
  | ok r =>
    obtain ⟨idx', unref⟩ := r
    have hp := logAndApply_parts H m d op raw idx' unref ha
    simp only at hp
    rw [hp] at h
    injection h with h; injection h with h1 _
    intro e he
    rw [← h1] at he
    rcases List.mem_append.mp he with he | he
    · rcases List.mem_append.mp he with he | he
      · rcases List.mem_append.mp he with he | he
        · unfold rollEvents at he
          split at he
          · cases he
          · simp only [List.mem_append, List.mem_singleton] at he
            rcases he with he | he
            · split at he
              · simp only [List.mem_cons, List.not_mem_nil, or_false] at he
                rcases he with rfl | rfl <;> rfl
              · cases he
            · subst he; rfl
        · simp only [List.mem_cons, List.not_mem_nil, or_false] at he
          rcases he with rfl | rfl <;> rfl
      · simp only [List.mem_map] at he
        obtain ⟨x, _, rfl⟩ := he
        rfl
    · have hck : ∀ (r : CkptReason) (mm : Mem) (dd : Disk), ∀ e ∈ (checkpointScript r mm dd).1,
          e.touches (.stray p) = false := by
        intro r mm dd e he
        unfold checkpointScript at he
        split at he
        · cases he
        · simp only [List.mem_append, List.mem_cons, List.not_mem_nil, or_false] at he
          rcases he with (rfl | rfl | rfl | rfl) | he
          · rfl
          · rfl
          · rfl
          · rfl
          · split at he
            · cases he
            · simp only [List.mem_map] at he
              obtain ⟨j, _, rfl⟩ := he
              rfl
      exact ite_fst_all' (P := fun e => e.touches (.stray p) = false) _ _ _ (hck _ _ _) (by simp) e he

variable (H : Bytes → Bytes) (kind : KeyKind) (sz : Bytes → Nat) (N : Nat)

/-- a store that is tied to the WAL machine and in the sequential invariants, nothing else on disk -/
structure StoreOK (m : Mem) (sys : Sys (KMap Bytes) Bytes) (hist : Recs Bytes) (d : Disk)
    (spec : Spec) (tn : Nat) : Prop where
  tied : Tied H kind sz N m sys hist d
  sinv : SInv H sz m d spec tn
  ng : NoGarbage m d
  ns : NoStaging d
  nostray : ∀ p, d.get (.stray p) = none


/-- **put keeps `StoreOK`** -/
theorem StoreOK.put (so : StrictOrder kind.lt) (hH : Hash32 H) (P : Bytes → Prop) (hinj : Inj H sz P)
    (m : Mem) (sys : Sys (KMap Bytes) Bytes) (hist : Recs Bytes) (d : Disk) (spec : Spec) (tn : Nat)
    (ok : StoreOK H kind sz N m sys hist d spec tn) (hspecP : ∀ k c, spec k = some c → P c)
    (key : Bytes) (chunks : List Bytes) (hP : P chunks.flatten)
    (hraw : (RawOp.put key (H chunks.flatten) (chunks.map List.length).sum).WF)
    (hval : kind.valid key = true)
    (hwf : (⟨m.next, serWalOp (.put key (H chunks.flatten) (chunks.map List.length).sum)⟩ : Rec).WF)
    (hsave : ∀ idx' un, applyOp kind.lt m.idx
        (.put key (H chunks.flatten) (chunks.map List.length).sum) = .ok (idx', un) → SaveOK kind idx')
    (hver : m.next + 1 < U64) :
    ∃ evs m' sys' hist', putScript H m d tn key chunks = (evs, m', .ok) ∧
      StoreOK H kind sz N m' sys' hist' (d.applyAll evs)
        (fun k => if k = key then some chunks.flatten else spec k) (tn + 1) := by
  have hlen : (chunks.map List.length).sum = chunks.flatten.length := by rw [List.length_flatten]
  have hsz : (chunks.map List.length).sum = sz (H chunks.flatten) := by rw [hlen, hinj.2 _ hP]
  obtain ⟨_, _, sys', t'⟩ := putScript_sim H kind sz N so hH m sys hist d ok.tied tn key chunks hraw hval
    hsz hwf hsave hver
  obtain ⟨evs, m', hrun, inv'⟩ := putScript_sinv H sz m d spec tn ok.sinv key chunks P hinj hP hspecP
  obtain ⟨ng', ns'⟩ := putScript_exact H sz m d spec tn ok.sinv ok.ng ok.ns key chunks (hinj.2 _ hP)
    evs m' hrun
  rw [hrun] at t'
  refine ⟨evs, m', sys', _, hrun, t', inv', ng', ns', ?_⟩
  intro p
  obtain ⟨evs2, hla, hevs⟩ := putScript_split H m d tn key chunks evs m' hrun
  rw [get_untouched_all d ok.sinv.wf _ evs ?_]
  · exact ok.nostray p
  · intro e he
    rw [hevs] at he
    rcases List.mem_append.mp he with he | he
    · -- the blob-side events: staging, directories, the rename into cas/
      simp only [beginScript, List.mem_append, List.mem_cons, List.not_mem_nil, or_false] at he
      rcases he with ((he | he | he) | he) | he
      · subst he; rfl
      · subst he; rfl
      · split at he
        · simp only [List.mem_singleton] at he; subst he; rfl
        · cases he
      · split at he
        · cases he
        · unfold mkdirsFor at he
          split at he
          · simp only [List.mem_append] at he
            rcases he with he | he <;> (split at he <;> simp at he <;> subst he <;> rfl)
          · cases he
      · subst he; rfl
    · exact logAndApply_stray H m _ _ _ evs2 m' hla p e he

/-- **remove keeps `StoreOK`** -/
theorem StoreOK.remove (so : StrictOrder kind.lt) (hH : Hash32 H)
    (m : Mem) (sys : Sys (KMap Bytes) Bytes) (hist : Recs Bytes) (d : Disk) (spec : Spec) (tn : Nat)
    (ok : StoreOK H kind sz N m sys hist d spec tn) (key : Bytes)
    (hraw : (RawOp.remove [key]).WF) (hval : kind.valid key = true)
    (hwf : (⟨m.next, serWalOp (.remove [key])⟩ : Rec).WF)
    (hsave : ∀ idx' un, applyOp kind.lt m.idx (.remove [key]) = .ok (idx', un) → SaveOK kind idx')
    (hver : m.next + 1 < U64) :
    ∃ evs m' b sys' hist', removeScript H m d key = (evs, m', .ok b) ∧ b = (spec key).isSome ∧
      StoreOK H kind sz N m' sys' hist' (d.applyAll evs) (fun k => if k = key then none else spec k) tn := by
  obtain ⟨_, sys', hist', _, t'⟩ := removeScript_sim H kind sz N so hH m sys hist d ok.tied key hraw hval
    hwf hsave hver
  obtain ⟨b, hres, hb, inv'⟩ := removeScript_sinv H sz m d spec tn ok.sinv key
  generalize hrs : removeScript H m d key = r at t' hres inv'
  obtain ⟨evs, m', res⟩ := r
  simp only at t' hres inv'
  subst hres
  obtain ⟨ng', ns'⟩ := removeScript_exact H sz m d spec tn ok.sinv ok.ng ok.ns key evs m' b hrs
  refine ⟨evs, m', b, sys', hist', rfl, hb, t', inv', ng', ns', ?_⟩
  intro p
  rw [get_untouched_all d ok.sinv.wf _ evs ?_]
  · exact ok.nostray p
  · intro e he
    unfold removeScript at hrs
    split at hrs
    · simp only [Prod.mk.injEq] at hrs
      obtain ⟨h1, _⟩ := hrs
      rw [← h1] at he; cases he
    · split at hrs
      · simp at hrs
      · rename_i evs2 m2 hla
        simp only [Prod.mk.injEq] at hrs
        obtain ⟨h1, _⟩ := hrs
        rw [← h1] at he
        exact logAndApply_stray H m d _ _ evs2 m2 hla p e he

/-- **a clean restart keeps `StoreOK`** and returns a handle -/
theorem StoreOK.reopen (so : StrictOrder kind.lt) (hH : Hash32 H) (P : Bytes → Prop) (hinj : Inj H sz P)
    (m : Mem) (sys : Sys (KMap Bytes) Bytes) (hist : Recs Bytes) (d : Disk) (spec : Spec) (tn : Nat)
    (ok : StoreOK H kind sz N m sys hist d spec tn) (hspecP : ∀ k c, spec k = some c → P c)
    (cfg : Config) (hk : cfg.kind = kind) (hn : cfg.N = N)
    (ho : OpenOK H kind cfg (d.applyAll (closeScript m))) :
    ∃ m2 sys2 sc, (openBody H cfg (d.applyAll (closeScript m))).2 = .ok (m2, sc) ∧
      StoreOK H kind sz N m2 sys2 hist ((d.applyAll (closeScript m)).applyAll
        (openBody H cfg (d.applyAll (closeScript m))).1) spec tn := by
  obtain ⟨m2, sys2, sc, hres, _, _, _, t2, inv2, ng2, ns2⟩ :=
    C02_reopen_succeeds H kind sz N so hH m sys hist d ok.tied spec tn ok.sinv ok.ng ok.ns ok.nostray
      P hinj hspecP cfg hk hn ho
  refine ⟨m2, sys2, sc, hres, t2, inv2, ng2, ns2, ?_⟩
  intro p
  rw [← Disk.applyAll_append, get_untouched_all d ok.sinv.wf _ _ ?_]
  · exact ok.nostray p
  · intro e he
    rcases List.mem_append.mp he with he | he
    · unfold closeScript at he
      split at he
      · simp only [List.mem_singleton] at he; subst he; rfl
      · cases he
    · exact (openBody_quiet H cfg _ e he).2.2 p


/-! ### histories with restarts -/

inductive HOp where
  | put (key : Bytes) (chunks : List Bytes)
  | remove (key : Bytes)
  | reopen
  deriving Repr

def hSpec (spec : Spec) : HOp → Spec
  | .put key chunks => fun k => if k = key then some chunks.flatten else spec k
  | .remove key => fun k => if k = key then none else spec k
  | .reopen => spec

/-- run a history: the scripts of Store.lean, one after the other; a restart drops the handle and
    opens the directory again with configuration `cfg` -/
def hRun (cfg : Config) : Mem → Disk → Nat → List HOp → Option (Mem × Disk × Nat)
  | m, d, tn, [] => some (m, d, tn)
  | m, d, tn, .put key chunks :: ops =>
    match putScript H m d tn key chunks with
    | (evs, m', .ok) => hRun cfg m' (d.applyAll evs) (tn + 1) ops
    | (_, _, .panic _) => none
  | m, d, tn, .remove key :: ops =>
    match removeScript H m d key with
    | (evs, m', .ok _) => hRun cfg m' (d.applyAll evs) tn ops
    | (_, _, .error _) => none
  | m, d, tn, .reopen :: ops =>
    match (openBody H cfg (d.applyAll (closeScript m))).2 with
    | .ok (m2, _) =>
      hRun cfg m2 ((d.applyAll (closeScript m)).applyAll (openBody H cfg (d.applyAll (closeScript m))).1) tn ops
    | .error _ => none

/-- usage guards of a history, each checked in the state the operation is issued in: contents
    are among those the hash is collision-free on, keys are valid for the key kind, records fit
    their fields, the index stays saveable; a restart finds a settings file that passes the gate -/
def HistOK (P : Bytes → Prop) (cfg : Config) : Mem → Disk → Nat → List HOp → Prop
  | _, _, _, [] => True
  | m, d, tn, .put key chunks :: ops =>
    P chunks.flatten ∧ (RawOp.put key (H chunks.flatten) (chunks.map List.length).sum).WF ∧
    kind.valid key = true ∧
    (⟨m.next, serWalOp (.put key (H chunks.flatten) (chunks.map List.length).sum)⟩ : Rec).WF ∧
    (∀ idx' un, applyOp kind.lt m.idx (.put key (H chunks.flatten) (chunks.map List.length).sum) =
        .ok (idx', un) → SaveOK kind idx') ∧ m.next + 1 < U64 ∧
    ∀ evs m', putScript H m d tn key chunks = (evs, m', .ok) → HistOK P cfg m' (d.applyAll evs) (tn + 1) ops
  | m, d, tn, .remove key :: ops =>
    (RawOp.remove [key]).WF ∧ kind.valid key = true ∧
    (⟨m.next, serWalOp (.remove [key])⟩ : Rec).WF ∧
    (∀ idx' un, applyOp kind.lt m.idx (.remove [key]) = .ok (idx', un) → SaveOK kind idx') ∧
    m.next + 1 < U64 ∧
    ∀ evs m' b, removeScript H m d key = (evs, m', .ok b) → HistOK P cfg m' (d.applyAll evs) tn ops
  | m, d, tn, .reopen :: ops =>
    OpenOK H kind cfg (d.applyAll (closeScript m)) ∧
    ∀ m2 sc, (openBody H cfg (d.applyAll (closeScript m))).2 = .ok (m2, sc) →
      HistOK P cfg m2 ((d.applyAll (closeScript m)).applyAll
        (openBody H cfg (d.applyAll (closeScript m))).1) tn ops

/-- **C01 / C02 / C07 / C12 over whole histories with restarts (bytes and events).** -/
theorem C02_histories_with_restarts (so : StrictOrder kind.lt) (hH : Hash32 H) (P : Bytes → Prop)
    (hinj : Inj H sz P) (cfg : Config) (hk : cfg.kind = kind) (hn : cfg.N = N)
    (ops : List HOp) :
    ∀ (m : Mem) (sys : Sys (KMap Bytes) Bytes) (hist : Recs Bytes) (d : Disk) (spec : Spec) (tn : Nat),
    StoreOK H kind sz N m sys hist d spec tn → (∀ k c, spec k = some c → P c) →
    HistOK H kind P cfg m d tn ops →
    ∃ m' d' tn' sys' hist', hRun H cfg m d tn ops = some (m', d', tn') ∧
      StoreOK H kind sz N m' sys' hist' d' (ops.foldl hSpec spec) tn' ∧
      ∀ k, getBlob m' d' k = match (ops.foldl hSpec spec) k with
                             | none => .absent
                             | some c => .found c := by
  induction ops with
  | nil =>
    intro m sys hist d spec tn ok _ _
    exact ⟨m, d, tn, sys, hist, rfl, ok, fun k => ok.sinv.read H sz m d spec tn k⟩
  | cons op ops ih =>
    intro m sys hist d spec tn ok hspecP hok
    cases op with
    | put key chunks =>
      obtain ⟨hP, hraw, hval, hwf, hsave, hver, hnext⟩ := hok
      obtain ⟨evs, m1, sys1, hist1, hrun, ok1⟩ := ok.put H kind sz N so hH P hinj m sys hist d spec tn
        hspecP key chunks hP hraw hval hwf hsave hver
      have hsp1 : ∀ k c, (fun k => if k = key then some chunks.flatten else spec k) k = some c → P c := by
        intro k c hc
        simp only at hc
        by_cases ck : k = key
        · simp only [ck, ↓reduceIte, Option.some.injEq] at hc; rw [← hc]; exact hP
        · simp only [ck, ↓reduceIte] at hc; exact hspecP k c hc
      obtain ⟨m', d', tn', sys', hist', hr, okf, hread⟩ :=
        ih m1 sys1 hist1 _ _ (tn + 1) ok1 hsp1 (hnext evs m1 hrun)
      exact ⟨m', d', tn', sys', hist', by simp only [hRun, hrun]; exact hr,
        by simpa [List.foldl, hSpec] using okf, by simpa [List.foldl, hSpec] using hread⟩
    | remove key =>
      obtain ⟨hraw, hval, hwf, hsave, hver, hnext⟩ := hok
      obtain ⟨evs, m1, b, sys1, hist1, hrun, _, ok1⟩ := ok.remove H kind sz N so hH m sys hist d spec tn
        key hraw hval hwf hsave hver
      have hsp1 : ∀ k c, (fun k => if k = key then none else spec k) k = some c → P c := by
        intro k c hc
        simp only at hc
        by_cases ck : k = key
        · simp [ck] at hc
        · simp only [ck, ↓reduceIte] at hc; exact hspecP k c hc
      obtain ⟨m', d', tn', sys', hist', hr, okf, hread⟩ :=
        ih m1 sys1 hist1 _ _ tn ok1 hsp1 (hnext evs m1 b hrun)
      exact ⟨m', d', tn', sys', hist', by simp only [hRun, hrun]; exact hr,
        by simpa [List.foldl, hSpec] using okf, by simpa [List.foldl, hSpec] using hread⟩
    | reopen =>
      obtain ⟨ho, hnext⟩ := hok
      obtain ⟨m2, sys2, sc, hres, ok2⟩ := ok.reopen H kind sz N so hH P hinj m sys hist d spec tn hspecP
        cfg hk hn ho
      obtain ⟨m', d', tn', sys', hist', hr, okf, hread⟩ :=
        ih m2 sys2 hist _ _ tn ok2 hspecP (hnext m2 sc hres)
      exact ⟨m', d', tn', sys', hist', by simp only [hRun, hres]; exact hr,
        by simpa [List.foldl, hSpec] using okf, by simpa [List.foldl, hSpec] using hread⟩

/-- non-vacuity: a freshly created store satisfies `StoreOK` (`tied_fresh`, `sinv_empty`-style) -/
theorem storeOK_fresh (cfg : Config) (so : StrictOrder cfg.kind.lt) (d : Disk) (hw : d.WF)
    (hseg : ∀ i, segData d i = if i = 0 then some [] else none) (hidx : d.get .index = none)
    (hcas : ∀ g, d.get (.cas g) = none) (hst : ∀ t, d.get (.staging t) = none)
    (hstray : ∀ p, d.get (.stray p) = none) :
    ∃ sys hist, StoreOK H cfg.kind sz cfg.N { cfg := cfg } sys hist d (fun _ => none) 0 :=
  ⟨_, _, ⟨tied_fresh H cfg.kind sz cfg.N cfg d hw rfl rfl hseg hidx,
    ⟨so, IdxInv.init sz, hw, by intro k; simp [kLookup], fun t _ => hst t⟩,
    (fun g x hx => by rw [hcas g] at hx; exact absurd hx (by simp)), hst, hstray⟩⟩

end CasModel
