import CasModel.Props.GuardsSat4
import CasModel.Props.C12Live
/-
  C01 / C02 in closed form: from an empty directory, for every sequence of COMPLETED operations —
  puts (any chunking), removes, range removals, checkpoints, clean restarts, abandoned transactions —
  every read returns exactly what a plain ordered map from key to content returns after the same
  calls.  Corollary of `C03_closed` (Props/GuardsSat4): a history without kills has exactly one
  reachable specification, the fold of the operations over the empty map.
-/
namespace CasModel
open Ghost

variable (kind : KeyKind)

/-- the operations that run to completion -/
def LOp.completed : LOp → Bool
  | .put _ _ | .remove _ | .reopen | .checkpoint | .removeRange _ _ | .abandon _ => true
  | _ => false

/-- what a completed operation does to the ordered map `key → content` -/
def mapStepL (s : Spec) : LOp → Spec
  | .put key chunks => fun k => if k = key then some chunks.flatten else s k
  | .remove key => fun k => if k = key then none else s k
  | .removeRange lo hi => fun k => if inRange kind.lt lo hi k = true then none else s k
  | _ => s

theorem LReach.completed (ops : List LOp) (hc : ∀ op ∈ ops, op.completed = true) :
    ∀ (s s' : Spec), LReach kind s ops s' → s' = ops.foldl (mapStepL kind) s := by
  induction ops with
  | nil => intro s s' h; simpa [LReach] using h
  | cons op ops ih =>
    intro s s' h
    obtain ⟨s1, hstep, hrest⟩ := h
    have h0 := hc op (by simp)
    rw [ih (fun o ho => hc o (by simp [ho])) s1 s' hrest]
    simp only [List.foldl_cons]
    congr 1
    cases op <;> simp [LOp.completed] at h0 <;> simpa [lStep, mapStepL] using hstep

variable (H : Bytes → Bytes) (sz : Bytes → Nat)

/-- **C01, closed**: ordered-map semantics for every sequence of completed operations from an
    empty directory (at most 2^15 - 3 of them, keys valid and shorter than 64 KiB, contents among
    those the hash is collision-free on) — restarts, checkpoints, range removals and abandoned
    transactions included; no usage guard left. -/
theorem C01_closed (hH : Hash32 H) (P : Bytes → Prop) (hinj : Inj H sz P) (cfg : Config)
    (hN : 0 < cfg.N) (hN64 : cfg.N < 2 ^ 64) (d : Disk) (e : EmptyDir d)
    (ops : List LOp) (hb : ops.length + 3 ≤ 2 ^ 15) (hops : ∀ op ∈ ops, SmallOpAll cfg.kind P op)
    (hc : ∀ op ∈ ops, op.completed = true) :
    ∃ m0 sc, (openBody H cfg d).2 = .ok (m0, sc) ∧
      ∃ m' d' tn', lRun H cfg m0 (d.applyAll (openBody H cfg d).1) 0 ops = some (m', d', tn') ∧
        ∀ k, getBlob m' d' k = match (ops.foldl (mapStepL cfg.kind) (fun _ => none)) k with
                               | none => .absent
                               | some c => .found c := by
  obtain ⟨m0, sc, hres, m', d', tn', spec', hr, hreach, hread⟩ :=
    C03_closed_all_kinds H sz hH P hinj cfg hN hN64 d e ops hb hops
  refine ⟨m0, sc, hres, m', d', tn', hr, ?_⟩
  rw [← LReach.completed cfg.kind ops hc _ _ hreach]
  exact hread

/-! ### exactness (C07) along completed operations -/

variable (kind : KeyKind) (N : Nat)

theorem StoreOK.removeRange (so : StrictOrder kind.lt) (hH : Hash32 H)
    (m : Mem) (sys : Sys (KMap Bytes) Bytes) (hist : Recs Bytes) (d : Disk) (spec : Spec) (tn : Nat)
    (ok : StoreOK H kind sz N m sys hist d spec tn) (lo hi : Bound) (hok : RangeOK kind m lo hi) :
    ∃ evs m' n sys' hist', removeRangeScript H m d lo hi = (evs, m', .ok n) ∧
      StoreOK H kind sz N m' sys' hist' (d.applyAll evs)
        (fun k => if inRange kind.lt lo hi k = true then none else spec k) tn := by
  have live := ok.live H kind sz N hH m sys hist d spec tn
  obtain ⟨evs, m', n, sys', hist', hrun, _, live'⟩ := live.removeRange H kind sz N so hH m sys hist d spec tn
    lo hi hok
  refine ⟨evs, m', n, sys', hist', hrun, live'.tied, live'.sinv, ?_, ?_, live'.nostray⟩
  · -- no garbage
    unfold removeRangeScript at hrun
    simp only at hrun
    by_cases he : (rangeKeys m lo hi).isEmpty = true
    · simp only [he, ↓reduceIte, Prod.mk.injEq] at hrun
      obtain ⟨h1, h2, _⟩ := hrun
      subst h1 h2
      exact ok.ng
    · simp only [he, Bool.false_eq_true, ↓reduceIte] at hrun
      split at hrun
      · simp at hrun
      · rename_i evs2 m2 hla
        simp only [Prod.mk.injEq] at hrun
        obtain ⟨h1, h2, _⟩ := hrun
        subst h1 h2
        exact logAndApply_nogarbage H sz m d ok.sinv.wf ok.sinv.so ok.sinv.idx (.remove (rangeKeys m lo hi))
          trivial _ _ _ hla (fun g x hx => Or.inl (ok.ng g x hx))
  · intro t
    have hq := removeRangeScript_shape H m d lo hi
    have hst : ∀ e ∈ evs, e.touches (.staging t) = false := by
      unfold removeRangeScript at hrun
      simp only at hrun
      by_cases he : (rangeKeys m lo hi).isEmpty = true
      · simp only [he, ↓reduceIte, Prod.mk.injEq] at hrun
        rw [← hrun.1]; intro e h; cases h
      · simp only [he, Bool.false_eq_true, ↓reduceIte] at hrun
        split at hrun
        · simp at hrun
        · rename_i evs2 m2 hla
          simp only [Prod.mk.injEq] at hrun
          rw [← hrun.1]
          exact logAndApply_staging H m d _ _ evs2 m2 hla t
    rw [get_untouched_all d ok.sinv.wf _ evs hst]
    exact ok.ns t

theorem StoreOK.checkpoint (so : StrictOrder kind.lt) (hH : Hash32 H)
    (m : Mem) (sys : Sys (KMap Bytes) Bytes) (hist : Recs Bytes) (d : Disk) (spec : Spec) (tn : Nat)
    (ok : StoreOK H kind sz N m sys hist d spec tn) (hsave : SaveOK kind m.idx) (hver : m.next < U64) :
    ∃ sys', StoreOK H kind sz N (checkpointScript .explicit m d).2 sys' hist
      (d.applyAll (checkpointScript .explicit m d).1) spec tn := by
  have live := ok.live H kind sz N hH m sys hist d spec tn
  obtain ⟨sys', live'⟩ := live.checkpoint H kind sz N so m sys hist d spec tn hsave hver
  have hq := checkpointScript_quiet .explicit m d
  have hw := ok.sinv.wf
  refine ⟨sys', live'.tied, live'.sinv, ?_, ?_, live'.nostray⟩
  · intro g x hx
    rw [sparesCas_frame_all d hw g _ (fun e he => (hq e he).1 g)] at hx
    rw [(checkpointScript_map .explicit m d).1]
    exact ok.ng g x hx
  · intro t
    rw [get_untouched_all d hw _ _ (fun e he => (hq e he).2.1 t)]
    exact ok.ns t

theorem StoreOK.abandoned (hH : Hash32 H)
    (m : Mem) (sys : Sys (KMap Bytes) Bytes) (hist : Recs Bytes) (d : Disk) (spec : Spec) (tn : Nat)
    (ok : StoreOK H kind sz N m sys hist d spec tn) (content : Bytes) :
    StoreOK H kind sz N m sys hist (d.applyAll (abandonedEvents tn content)) spec (tn + 1) := by
  have live := ok.live H kind sz N hH m sys hist d spec tn
  have live' := live.abandoned H kind sz N m sys hist d spec tn content
  obtain ⟨hget, _⟩ := C13_abort_noop d ok.sinv.wf tn content (ok.sinv.fresh tn (Nat.le_refl _))
  refine ⟨live'.tied, live'.sinv, ?_, ?_, live'.nostray⟩
  · intro g x hx; rw [hget] at hx; exact ok.ng g x hx
  · intro t; rw [hget]; exact ok.ns t

/-- **exactness along completed operations**: from a `StoreOK` store, any sequence of completed
    operations whose guards hold ends in a `StoreOK` store for the folded map -/
theorem storeOK_run (so : StrictOrder kind.lt) (hH : Hash32 H) (P : Bytes → Prop) (hinj : Inj H sz P)
    (cfg : Config) (hk : cfg.kind = kind) (hn : cfg.N = N) (ops : List LOp)
    (hc : ∀ op ∈ ops, op.completed = true) :
    ∀ (m : Mem) (sys : Sys (KMap Bytes) Bytes) (hist : Recs Bytes) (d : Disk) (spec : Spec) (tn : Nat),
    StoreOK H kind sz N m sys hist d spec tn → (∀ k c, spec k = some c → P c) →
    LiveOK H kind P cfg m d tn ops →
    ∀ m' d' tn', lRun H cfg m d tn ops = some (m', d', tn') →
      ∃ sys' hist', StoreOK H kind sz N m' sys' hist' d' (ops.foldl (mapStepL kind) spec) tn' := by
  induction ops with
  | nil =>
    intro m sys hist d spec tn ok _ _ m' d' tn' h
    simp only [lRun, Option.some.injEq, Prod.mk.injEq] at h
    obtain ⟨h1, h2, h3⟩ := h
    subst h1 h2 h3
    exact ⟨sys, hist, ok⟩
  | cons op ops ih =>
    intro m sys hist d spec tn ok hspecP hok m' d' tn' h
    have h0 := hc op (by simp)
    have hrest : ∀ o ∈ ops, o.completed = true := fun o ho => hc o (by simp [ho])
    cases op with
    | put key chunks =>
      obtain ⟨⟨hP, hraw, hval, hwf, hsave, hver⟩, hnext⟩ := hok
      obtain ⟨evs, m1, sys1, hist1, hrun, ok1⟩ := ok.put H kind sz N so hH P hinj m sys hist d spec tn
        hspecP key chunks hP hraw hval hwf hsave hver
      simp only [lRun, hrun] at h
      exact ih hrest m1 sys1 hist1 _ _ (tn + 1) ok1 (specP_put P spec hspecP key _ hP) (hnext evs m1 hrun) _ _ _ h
    | remove key =>
      obtain ⟨⟨hraw, hval, hwf, hsave, hver⟩, hnext⟩ := hok
      obtain ⟨evs, m1, b, sys1, hist1, hrun, _, ok1⟩ := ok.remove H kind sz N so hH m sys hist d spec tn
        key hraw hval hwf hsave hver
      simp only [lRun, hrun] at h
      exact ih hrest m1 sys1 hist1 _ _ tn ok1 (specP_remove P spec hspecP key) (hnext evs m1 b hrun) _ _ _ h
    | removeRange lo hi =>
      obtain ⟨hrok, hnext⟩ := hok
      obtain ⟨evs, m1, n, sys1, hist1, hrun, ok1⟩ := ok.removeRange H sz kind N so hH m sys hist d spec tn
        lo hi hrok
      simp only [lRun, hrun] at h
      exact ih hrest m1 sys1 hist1 _ _ tn ok1 (specP_range P spec hspecP _) (hnext evs m1 n hrun) _ _ _ h
    | checkpoint =>
      obtain ⟨⟨hsv, hver⟩, hnext⟩ := hok
      obtain ⟨sys1, ok1⟩ := ok.checkpoint H sz kind N so hH m sys hist d spec tn hsv hver
      simp only [lRun] at h
      exact ih hrest _ sys1 hist _ _ tn ok1 hspecP hnext _ _ _ h
    | reopen =>
      obtain ⟨ho, hnext⟩ := hok
      obtain ⟨m2, sys2, sc, hres, ok2⟩ := ok.reopen H kind sz N so hH P hinj m sys hist d spec tn hspecP
        cfg hk hn ho
      simp only [lRun, hres] at h
      exact ih hrest m2 sys2 hist _ _ tn ok2 hspecP (hnext m2 sc hres) _ _ _ h
    | abandon content =>
      have ok1 := ok.abandoned H sz kind N hH m sys hist d spec tn content
      simp only [lRun] at h
      exact ih hrest m sys hist _ _ (tn + 1) ok1 hspecP hok _ _ _ h
    | putCrash k c j => simp [LOp.completed] at h0
    | removeCrash k j => simp [LOp.completed] at h0
    | reopenCrash j => simp [LOp.completed] at h0
    | checkpointCrash j => simp [LOp.completed] at h0
    | removeRangeCrash lo hi j => simp [LOp.completed] at h0
    | abandonCrash c j => simp [LOp.completed] at h0

/-- **C07 / C12, closed**: from an empty directory, after every sequence of completed operations
    (as in `C01_closed`) the store is tied to the WAL machine, every key reads its content, cas/
    holds a file for a hash IFF some key references it, staging/ is empty, nothing foreign is in the
    tree — and reference counts, known blobs, statistics and recorded sizes are exact. -/
theorem C07_C12_closed (hH : Hash32 H) (P : Bytes → Prop) (hinj : Inj H sz P) (cfg : Config)
    (hN : 0 < cfg.N) (hN64 : cfg.N < 2 ^ 64) (d : Disk) (e : EmptyDir d)
    (ops : List LOp) (hb : ops.length + 3 ≤ 2 ^ 15) (hops : ∀ op ∈ ops, SmallOpAll cfg.kind P op)
    (hc : ∀ op ∈ ops, op.completed = true) :
    ∃ m0 sc, (openBody H cfg d).2 = .ok (m0, sc) ∧
      ∃ m' d' tn' sys' hist', lRun H cfg m0 (d.applyAll (openBody H cfg d).1) 0 ops = some (m', d', tn') ∧
        StoreOK H cfg.kind sz cfg.N m' sys' hist' d' (ops.foldl (mapStepL cfg.kind) (fun _ => none)) tn' ∧
        (∀ h, rcCount m'.idx h = countHash m'.idx.map h) ∧
        m'.idx.uniqueBlobs = (rcKeys m'.idx.rc).length ∧
        m'.idx.totalBytes = ((rcKeys m'.idx.rc).map sz).sum := by
  have so := keyOrder_strict cfg.kind
  obtain ⟨m0, sys0, sc, hres, live, r, hset⟩ :=
    first_open_small H cfg.kind sz cfg.N so hH P hinj cfg rfl rfl hN hN64 d e
  have hq := openBody_quiet H cfg d
  have ok0 : StoreOK H cfg.kind sz cfg.N m0 sys0 [] (d.applyAll (openBody H cfg d).1) (fun _ => none) 0 := by
    refine ⟨live.tied, live.sinv, ?_, ?_, live.nostray⟩
    · intro g x hx
      rw [sparesCas_frame_all d e.wf g _ (fun ev he => (hq ev he).1 g), e.cas g] at hx; cases hx
    · intro t
      rw [get_untouched_all d e.wf _ _ (fun ev he => (hq ev he).2.1 t)]; exact e.staging t
  have hguards := liveOK_of_small_all H cfg.kind sz cfg.N so hH P hinj cfg rfl rfl ops 0 m0 sys0 [] _ _ 0 live
    (fun _ _ h => by cases h) r (hset.settled cfg _) (by omega) hops
  obtain ⟨m', d', tn', _, _, _, hr, _, _, _⟩ :=
    C03_histories_with_crashes H cfg.kind sz cfg.N so hH P hinj cfg rfl rfl ops m0 sys0 [] _ _ 0 live
      (fun _ _ h => by cases h) hguards
  obtain ⟨sys', hist', okf⟩ := storeOK_run H sz cfg.kind cfg.N so hH P hinj cfg rfl rfl ops hc m0 sys0 [] _ _ 0
    ok0 (fun _ _ h => by cases h) hguards m' d' tn' hr
  obtain ⟨c1, _, _, c4, c5, _, _⟩ := C12_live_counts H cfg.kind sz cfg.N m' sys' hist' d' _ tn'
    (okf.live H cfg.kind sz cfg.N hH m' sys' hist' d' _ tn')
  exact ⟨m0, sc, hres, m', d', tn', sys', hist', hr, okf, c1, c4, c5⟩

end CasModel
