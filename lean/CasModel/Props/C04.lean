import CasModel.Proofs.ConcInv
import CasModel.Props.C15
/-
  C04 — no dangling reference under any interleaving of writers; C05 — reads are atomic.
  Quantifiers: every number of threads, every program (puts, aborts, removes, range removes,
  reads, checkpoints, orphan clean-up, incl. several writers on the same key or with the same
  content), every initial store satisfying the sequential invariants, EVERY schedule (list of
  thread ids at yield-point granularity).
  Proved for the model of the repaired code (per-hash protection released at apply time; blob
  opened under the read guard); the pre-repair behaviours are kept as seeded regressions
  (seeded/F2-*, seeded/F3-*) and are caught by the schedule slices.
-/
namespace CasModel.Conc
open CasModel

/-- a quiescent store: consistent index, every referenced blob present with the right bytes,
    no intents, no locks, all threads idle with well-formed programs -/
structure InitOK (H : Bytes → Bytes) (sz : Bytes → Nat) (sh : Shared) (programs : List (List COp)) : Prop where
  so : StrictOrder sh.kind.lt
  idx : IdxInv sh.kind.lt sz sh.idx
  files : ∀ h c, casGet sh.cas h = some c → H c = h ∧ c.length = sz h
  present : ∀ h, 0 < countHash sh.idx.map h → (casGet sh.cas h).isSome
  noProt : sh.prot = []
  ops : ∀ p ∈ programs, OpsOK H sz p

theorem need_init (H : Bytes → Bytes) (programs : List (List COp)) (h : Bytes) :
    need H (programs.map (fun ops => ({ ops := ops } : Thread))) h = 0 := by
  induction programs with
  | nil => rfl
  | cons p ps ih =>
    simp only [need, List.map_cons, List.sum_cons] at ih ⊢
    rw [ih]; simp [weight, window]

theorem concInv_init (H : Bytes → Bytes) (sz : Bytes → Nat) (sh : Shared)
    (programs : List (List COp)) (ok : InitOK H sz sh programs) :
    ConcInv H sz (initSys sh programs) := by
  refine ⟨ok.so, ok.idx, ok.files, ok.present, by simp [initSys, ok.noProt, rcKeys], ?_, ?_,
    lockInv_init sh programs⟩
  · intro h
    simp only [initSys, need_init]; omega
  · intro t th hth
    simp only [initSys, List.getElem?_map] at hth
    cases hp : programs[t]? with
    | none => simp [hp] at hth
    | some ops =>
      simp [hp] at hth; subst hth
      exact ⟨by simp [TInv], ok.ops ops (List.mem_of_getElem? hp)⟩

/-- **C04.** At every instant of every schedule, every key visible in the index resolves to a
    blob file that exists and holds bytes whose hash is the indexed hash and whose length is the
    indexed size. (No operation ever deletes a blob that a key references or that an in-flight
    commit is about to reference: deletions preserve this invariant and the window facts.) -/
theorem C04_no_dangling (H : Bytes → Bytes) (sz : Bytes → Nat) (sh : Shared)
    (programs : List (List COp)) (ok : InitOK H sz sh programs) (sched : List Tid) (s : Sys)
    (hrun : run H (initSys sh programs) sched = some s) :
    ∀ k item, (k, item) ∈ s.sh.idx.map →
      ∃ c, casGet s.sh.cas item.hash = some c ∧ H c = item.hash ∧ c.length = item.size := by
  have inv := run_concInv H sz _ s sched (concInv_init H sz sh programs ok) hrun
  intro k item hm
  have hpos : 0 < countHash s.sh.idx.map item.hash :=
    (countHash_pos_iff _ _).mpr ⟨(k, item), hm, rfl⟩
  have hsome := inv.present _ hpos
  cases hc : casGet s.sh.cas item.hash with
  | none => simp [hc] at hsome
  | some c =>
    obtain ⟨a, b⟩ := inv.files _ c hc
    exact ⟨c, rfl, a, by rw [b, inv.idx.mapSz _ hm]⟩

/-- **C04 (commit window).** A commit that has renamed its blob into the CAS directory and is
    not applied yet still finds the blob there, at every instant of every schedule. -/
theorem C04_inflight_blob_safe (H : Bytes → Bytes) (sz : Bytes → Nat) (sh : Shared)
    (programs : List (List COp)) (ok : InitOK H sz sh programs) (sched : List Tid) (s : Sys)
    (hrun : run H (initSys sh programs) sched = some s)
    (t : Nat) (th : Thread) (hth : s.threads[t]? = some th)
    (op : Op Bytes) (k h : Bytes) (res : Res)
    (hpc : th.pc = .apIntents op (some (k, h)) res ∨ th.pc = .apState op (some (k, h)) res ∨
           th.pc = .apWal op (some (k, h)) res) :
    (casGet s.sh.cas h).isSome ∧ 1 ≤ protCount s.sh.prot h := by
  have inv := run_concInv H sz _ s sched (concInv_init H sz sh programs ok) hrun
  have hti := (inv.tinv t th hth).1
  refine ⟨?_, window_protected H sz s inv t th hth h ?_⟩
  · rcases hpc with e | e | e <;> (rw [e] at hti; exact (hti.2.1 k h rfl).2)
  · rcases hpc with e | e | e <;> (rw [e]; rfl)

/-- **C05 (reads).** In every reachable state, a read that performs its lookup now returns
    `absent` exactly when the key is not in the index, and otherwise the COMPLETE content of the
    blob the key maps to at this instant (its hash is the indexed hash); it never fails with a
    missing blob, whatever concurrent writers do before or after. -/
theorem C05_read_atomic (H : Bytes → Bytes) (sz : Bytes → Nat) (sh : Shared)
    (programs : List (List COp)) (ok : InitOK H sz sh programs) (sched : List Tid) (s : Sys)
    (hrun : run H (initSys sh programs) sched = some s) (tid : Tid) (k : Bytes) :
    let o := stepPc H tid s.sh (.rdLookup k)
    (kLookup s.sh.idx.map k = none → o.done = some .absent) ∧
    (∀ item, kLookup s.sh.idx.map k = some item →
      ∃ c, o.pc = .rdOpened (.found c) ∧ H c = item.hash ∧ c.length = item.size ∧ o.sh = s.sh) := by
  have inv := run_concInv H sz _ s sched (concInv_init H sz sh programs ok) hrun
  refine ⟨?_, ?_⟩
  · intro hn; simp [stepPc, hn]
  · intro item hi
    have hm := kLookup_mem hi
    have hpos : 0 < countHash s.sh.idx.map item.hash :=
      (countHash_pos_iff _ _).mpr ⟨(k, item), hm, rfl⟩
    have hsome := inv.present _ hpos
    cases hc : casGet s.sh.cas item.hash with
    | none => simp [hc] at hsome
    | some c =>
      obtain ⟨a, b⟩ := inv.files _ c hc
      exact ⟨c, by simp [stepPc, hi, hc], a, by rw [b, inv.idx.mapSz _ hm], by simp [stepPc, hi, hc]⟩

end CasModel.Conc
