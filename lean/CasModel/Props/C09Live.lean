import CasModel.Props.C03Live
import CasModel.Props.C09Store
/-
  C09 WITH CONTENTS: "acknowledged operations survive with intact blob contents, and the in-flight
  operation is all-or-nothing", for power loss at every cut of every script and every choice of
  the files that lose their unsynced bytes — and the store stays usable and durable afterwards.

  The argument, in three layers:
    * `powerLoss_allPre_gen`: in a script that obeys the sync discipline (`Disc`: a write to a WAL
      file is followed at once by its sync), every power-loss image shows recovery and readers what
      SOME KILL IMAGE shows (`SameView`: same WAL bytes, same blob bytes, same set of files) — the
      kill image at the same cut, or one event earlier when the cut is between a WAL write and its
      sync — provided every kill image has its blob files completely synced (`CasSynced`).  Hence
      any predicate that only looks at those bytes transfers from kill images to power-loss images.
    * `LivePre` is such a predicate, and it is all `open` needs to return a live store
      (`open_live_of_pre`); the kill-image theorems of C03 (`put_livePre`, `commit_livePre`,
      `remove_livePre`, `range_livePre`, `checkpoint_livePre`, `reopen_livePre`) establish it at
      every cut.
    * In Sync mode blob files stay synced: the staged file is synced before it is renamed into
      cas/ (`staged_file`, `casSynced_rename`, `put_casSynced`), nothing else creates or extends a
      blob file (`Ev.casQuiet`, `logAndApply_casQuiet`).
  Results: `StoreDur.putPowerLoss / removePowerLoss / removeRangePowerLoss / checkpointPowerLoss /
  reopenPowerLoss` (any `lose`); `anyLoss_open_dur`, `StoreDur.put/remove/removeRange/checkpoint/
  reopen/abandoned` (after a power loss with ANY choice of losing files, the reboot and `open`, and
  after every completed operation, the store is `StoreDur` again);
  `C09_histories_with_power_loss` (induction over arbitrary histories of completed operations and
  operations cut by a power loss, each with its own choice of losing files, `DOp`).
  The reboot (`Disk.reboot` = `powerLoss lose` then `settle`): what is on the disk when the machine
  comes back is durable — unsynced bytes that happened to survive the first loss cannot be taken
  by the second. (An earlier version of this file modelled full losses only in histories and
  listed "a partial loss followed by another loss" as not claimed; `settle` closes that.)
  Not claimed: Async mode (the property excludes it).
-/
namespace CasModel
open Ghost

/-- every blob file is completely covered by a sync -/
def CasSynced (d : Disk) : Prop := ∀ g x, d.get (.cas g) = some x → x.synced = x.data.length

/-- `d'` shows recovery and readers what `d` shows: same WAL bytes, same blob bytes, same files -/
def SameView (d d' : Disk) : Prop :=
  d'.WF ∧ (∀ i, segData d' i = segData d i) ∧ indexData d' = indexData d ∧
  (∀ g, (d'.get (.cas g)).map (·.data) = (d.get (.cas g)).map (·.data)) ∧
  (∀ f, (d'.get f).isSome = (d.get f).isSome)

theorem powerLoss_isSome (d : Disk) (lose : FileId → Bool) (f : FileId) :
    ((d.powerLoss lose).get f).isSome = (d.get f).isSome := by
  rw [powerLoss_get]; cases d.get f <;> rfl

theorem powerLoss_cas (d : Disk) (lose : FileId → Bool) (hc : CasSynced d) (g : Bytes) :
    ((d.powerLoss lose).get (.cas g)).map (·.data) = (d.get (.cas g)).map (·.data) := by
  rw [powerLoss_get]
  cases hg : d.get (.cas g) with
  | none => rfl
  | some x =>
    simp only [Option.map_some, Option.some.injEq]
    split
    · simp [hc g x hg]
    · rfl

theorem sameView_powerLoss (d : Disk) (lose : FileId → Bool) (hw : d.WF) (hd : Dur d) (hc : CasSynced d) :
    SameView d (d.powerLoss lose) :=
  ⟨powerLoss_WF d lose hw, (powerLoss_view_dur d lose hd).1, (powerLoss_view_dur d lose hd).2,
    powerLoss_cas d lose hc, powerLoss_isSome d lose⟩

theorem write_isSome (d : Disk) (f : FileId) (bs : Bytes) (g : FileId) :
    ((d.apply (.write f bs)).get g).isSome = (d.get g).isSome := by
  rw [Disk.get_write]
  by_cases c : g = f
  · subst c; simp only [↓reduceIte]; cases d.get g <;> rfl
  · simp only [c, ↓reduceIte]

theorem write_wal_cas (d : Disk) (f : FileId) (hf : isWal f = true) (bs : Bytes) (g : Bytes) :
    (d.apply (.write f bs)).get (.cas g) = d.get (.cas g) := by
  rw [Disk.get_write]
  have : ¬ FileId.cas g = f := by intro c; subst c; simp [isWal] at hf
  simp only [this, ↓reduceIte]

/-! ### blob files stay synced (Sync mode) -/

/-- the event creates or extends no blob file -/
def Ev.casQuiet : Ev → Bool
  | .creat (.cas _) _ => false
  | .write (.cas _) _ => false
  | .rename _ (.cas _) => false
  | _ => true

theorem casSynced_apply (d : Disk) (hw : d.WF) (e : Ev) (he : e.casQuiet = true) (h : CasSynced d) :
    CasSynced (d.apply e) := by
  intro g x hx
  cases e with
  | mkdir p => rw [Disk.get_mkdir] at hx; exact h g x hx
  | mkdirTree => exact h g x hx
  | flock => exact h g x hx
  | creat f t =>
    rw [Disk.get_creat] at hx
    have c : ¬ FileId.cas g = f := by intro c; subst c; simp [Ev.casQuiet] at he
    rw [if_neg c] at hx; exact h g x hx
  | write f bs =>
    rw [Disk.get_write] at hx
    have c : ¬ FileId.cas g = f := by intro c; subst c; simp [Ev.casQuiet] at he
    rw [if_neg c] at hx; exact h g x hx
  | sync f =>
    rw [Disk.get_sync] at hx
    by_cases c : FileId.cas g = f
    · rw [if_pos c] at hx
      cases hg : d.get f with
      | none => rw [hg] at hx; cases hx
      | some y => rw [hg] at hx; simp only [Option.map_some, Option.some.injEq] at hx; subst hx; rfl
    · rw [if_neg c] at hx; exact h g x hx
  | unlink f =>
    rw [Disk.get_unlink d hw] at hx
    by_cases c : FileId.cas g = f
    · rw [if_pos c] at hx; cases hx
    · rw [if_neg c] at hx; exact h g x hx
  | rename a b =>
    rw [Disk.get_rename d hw] at hx
    cases ha : d.get a with
    | none => rw [ha] at hx; exact h g x hx
    | some y =>
      rw [ha] at hx
      simp only at hx
      have c : ¬ FileId.cas g = b := by intro c; subst c; simp [Ev.casQuiet] at he
      rw [if_neg c] at hx
      by_cases c2 : FileId.cas g = a
      · rw [if_pos c2] at hx; cases hx
      · rw [if_neg c2] at hx; exact h g x hx

theorem casSynced_applyAll (d : Disk) (hw : d.WF) (evs : List Ev) (he : ∀ e ∈ evs, e.casQuiet = true)
    (h : CasSynced d) : CasSynced (d.applyAll evs) := by
  induction evs generalizing d with
  | nil => exact h
  | cons e es ih =>
    rw [Disk.applyAll_cons]
    exact ih _ (Disk.apply_WF d hw e) (fun e' h' => he e' (by simp [h']))
      (casSynced_apply d hw e (he e (by simp)) h)

theorem casSynced_allPre (d : Disk) (hw : d.WF) (evs : List Ev) (he : ∀ e ∈ evs, e.casQuiet = true)
    (h : CasSynced d) : AllPre CasSynced d evs :=
  fun _ => casSynced_applyAll d hw _ (fun e hm => he e (List.mem_of_mem_take hm)) h

theorem casQuiet_of_spares (e : Ev) (h : ∀ g, e.sparesCas g = true) : e.casQuiet = true := by
  cases e with
  | creat f t => cases f <;> first | rfl | (have := h []; simp [Ev.sparesCas] at this)
  | write f bs => cases f <;> first | rfl | (have := h []; simp [Ev.sparesCas] at this)
  | rename a b =>
    cases b with
    | cas g => have := h g; simp [Ev.sparesCas] at this
    | _ => rfl
  | _ => rfl

/-- renaming a synced staged file into cas/ keeps the blob files synced -/
theorem casSynced_rename (d : Disk) (hw : d.WF) (t : Nat) (h : Bytes) (y : File)
    (hy : d.get (.staging t) = some y) (hs : y.synced = y.data.length) (hc : CasSynced d) :
    CasSynced (d.apply (.rename (.staging t) (.cas h))) := by
  intro g x hx
  rw [Disk.get_rename d hw, hy] at hx
  simp only at hx
  by_cases c : FileId.cas g = FileId.cas h
  · rw [if_pos c] at hx; injection hx with hx; subst hx; exact hs
  · rw [if_neg c] at hx
    have c2 : ¬ FileId.cas g = FileId.staging t := by simp
    rw [if_neg c2] at hx; exact hc g x hx

theorem logAndApply_casQuiet (H : Bytes → Bytes) (m : Mem) (d : Disk) (op : Op Bytes) (raw : RawOp)
    (evs : List Ev) (m' : Mem) (h : logAndApply H m d op raw = .ok (evs, m')) :
    ∀ e ∈ evs, e.casQuiet = true := by
  cases ha : applyOp m.cfg.kind.lt m.idx op with
  | error e => unfold logAndApply at h; simp [ha] at h
  | ok r =>
    obtain ⟨idx', unref⟩ := r
    have hp := logAndApply_parts H m d op raw idx' unref ha
    simp only at hp
    rw [hp] at h
    injection h with h; injection h with h1 _
    intro e he
    rw [← h1] at he
    rcases List.mem_append.mp he with he | he
    · rcases List.mem_append.mp he with he | he
      · rcases List.mem_append.mp he with he | he
        · unfold rollEvents at he
          split at he
          · cases he
          · simp only [List.mem_append, List.mem_singleton] at he
            rcases he with he | he
            · split at he
              · simp only [List.mem_cons, List.not_mem_nil, or_false] at he
                rcases he with rfl | rfl <;> rfl
              · cases he
            · subst he; rfl
        · simp only [List.mem_cons, List.not_mem_nil, or_false] at he
          rcases he with rfl | rfl <;> rfl
      · simp only [List.mem_map] at he
        obtain ⟨x, _, rfl⟩ := he
        rfl
    · exact ite_fst_all' (P := fun e => e.casQuiet = true) _ _ _
        (fun e he => casQuiet_of_spares e (checkpointScript_quiet _ _ _ e he).1) (by simp) e he

/-- the staged file right before the rename: exactly the content, and in Sync mode synced -/
theorem staged_file (d : Disk) (tn : Nat) (hfresh : d.get (.staging tn) = none) (content : Bytes)
    (sync : Bool) (mk : List Ev) (hmk : ∀ e ∈ mk, ∃ p, e = Ev.mkdir p) :
    ∃ y, (d.applyAll ([Ev.creat (.staging tn) true, Ev.write (.staging tn) content] ++
        ((if sync then [Ev.sync (.staging tn)] else []) ++ mk))).get (.staging tn) = some y ∧
      y.data = content ∧ (sync = true → y.synced = y.data.length) := by
  have keep : ∀ (l : List Ev) (dd : Disk) (y : File), dd.get (.staging tn) = some y →
      (∀ e ∈ l, ∃ p, e = Ev.mkdir p) → (dd.applyAll l).get (.staging tn) = some y := by
    intro l
    induction l with
    | nil => intro dd y h _; exact h
    | cons e l ih =>
      intro dd y h hl
      rw [Disk.applyAll_cons]
      obtain ⟨p, he⟩ := hl e (by simp)
      subst he
      exact ih _ _ (by rw [Disk.get_mkdir]; exact h) (fun e' he' => hl e' (by simp [he']))
  rw [Disk.applyAll_append, Disk.applyAll_append]
  simp only [Disk.applyAll_cons, Disk.applyAll_nil]
  have h2 : ((d.apply (.creat (.staging tn) true)).apply (.write (.staging tn) content)).get
      (.staging tn) = some ⟨content, 0⟩ := by
    rw [Disk.get_write, Disk.get_creat]
    simp [hfresh]
  cases sync with
  | false =>
    simp only [Bool.false_eq_true, ↓reduceIte, Disk.applyAll_nil]
    exact ⟨_, keep mk _ _ h2 hmk, rfl, by simp⟩
  | true =>
    simp only [↓reduceIte, Disk.applyAll_cons, Disk.applyAll_nil]
    have h3 : (((d.apply (.creat (.staging tn) true)).apply (.write (.staging tn) content)).apply
        (.sync (.staging tn))).get (.staging tn) = some ⟨content, content.length⟩ := by
      rw [Disk.get_sync]; simp [h2]
    exact ⟨_, keep mk _ _ h3 hmk, rfl, fun _ => rfl⟩

/-- in Sync mode every kill image of a put has all its blob files synced -/
theorem put_casSynced (H : Bytes → Bytes) (m : Mem) (d : Disk) (hw : d.WF) (tn : Nat)
    (hfresh : d.get (.staging tn) = none) (key : Bytes) (chunks : List Bytes) (evs : List Ev) (m' : Mem)
    (hrun : putScript H m d tn key chunks = (evs, m', .ok)) (hsync : m.cfg.sync = true)
    (hc : CasSynced d) : AllPre CasSynced d evs := by
  obtain ⟨evs2, hla, hevs⟩ := putScript_split H m d tn key chunks evs m' hrun
  have hmk : ∀ e ∈ (if m.preCreated then [] else mkdirsFor (d.applyAll (beginScript tn)) (H chunks.flatten)),
      ∃ p, e = Ev.mkdir p := by
    intro e he
    split at he
    · cases he
    · unfold mkdirsFor at he
      split at he
      · simp only [List.mem_append] at he
        rcases he with he | he <;> (split at he <;> simp at he <;> exact ⟨_, he⟩)
      · cases he
  let pre0 : List Ev := [Ev.creat (.staging tn) true, Ev.write (.staging tn) chunks.flatten] ++
      ((if m.cfg.sync then [Ev.sync (.staging tn)] else []) ++
       (if m.preCreated then [] else mkdirsFor (d.applyAll (beginScript tn)) (H chunks.flatten)))
  have hshape : evs = pre0 ++ ([Ev.rename (.staging tn) (.cas (H chunks.flatten))] ++ evs2) := by
    rw [hevs]; simp [pre0, beginScript, List.append_assoc]
  have hq0 : ∀ e ∈ pre0, e.casQuiet = true := by
    intro e he
    rcases List.mem_append.mp he with he | he
    · simp only [List.mem_cons, List.not_mem_nil, or_false] at he
      rcases he with rfl | rfl <;> rfl
    · rcases List.mem_append.mp he with he | he
      · by_cases cs : m.cfg.sync = true
        · rw [if_pos cs] at he; simp only [List.mem_singleton] at he; subst he; rfl
        · rw [if_neg cs] at he; cases he
      · obtain ⟨p, rfl⟩ := hmk e he; rfl
  obtain ⟨y, hy, _, hys⟩ := staged_file d tn hfresh chunks.flatten m.cfg.sync _ hmk
  have hw0 := Disk.applyAll_WF d hw pre0
  have hc0 : CasSynced (d.applyAll pre0) := casSynced_applyAll d hw pre0 hq0 hc
  have hc1 : CasSynced ((d.applyAll pre0).apply (.rename (.staging tn) (.cas (H chunks.flatten)))) :=
    casSynced_rename _ hw0 tn _ y hy (hys hsync) hc0
  have hq2 := logAndApply_casQuiet H m _ _ _ evs2 m' hla
  intro j
  rw [hshape]
  by_cases hj : j ≤ pre0.length
  · rw [List.take_append_of_le_length hj]
    exact casSynced_applyAll d hw _ (fun e he => hq0 e (List.mem_of_mem_take he)) hc
  · rw [List.take_append, List.take_of_length_le (by omega), Disk.applyAll_append]
    cases hk : j - pre0.length with
    | zero => omega
    | succ k =>
      rw [List.singleton_append, List.take_succ_cons, Disk.applyAll_cons]
      exact casSynced_applyAll _ (Disk.apply_WF _ hw0 _) _ (fun e he => hq2 e (List.mem_of_mem_take he)) hc1

variable (H : Bytes → Bytes) (kind : KeyKind) (sz : Bytes → Nat) (N : Nat)

/-- **power loss at any cut of a disciplined script, for any predicate that only looks at the WAL
    bytes, the blob bytes and the set of files**: if every kill image satisfies it and every kill
    image has its blob files synced, every power-loss image satisfies it. -/
theorem powerLoss_allPre_gen (P : Disk → Prop) (hP : ∀ d d', P d → SameView d d' → P d')
    (evs : List Ev) :
    ∀ (d : Disk), d.WF → Dur d → Disc evs → AllPre P d evs → AllPre CasSynced d evs →
    ∀ j lose, P ((d.applyAll (evs.take j)).powerLoss lose) := by
  induction hl : evs.length using Nat.strongRecOn generalizing evs with
  | _ n ih =>
    intro d hw hd hdisc hpre hcs j lose
    have hc0 : CasSynced d := by simpa [Disk.applyAll] using hcs 0
    have base : P (d.powerLoss lose) := by
      have h0 := hpre 0
      simp only [List.take_zero, Disk.applyAll_nil] at h0
      exact hP _ _ h0 (sameView_powerLoss d lose hw hd hc0)
    cases evs with
    | nil => simpa [Disk.applyAll] using base
    | cons e rest =>
      cases j with
      | zero => simpa [Disk.applyAll] using base
      | succ j =>
        obtain ⟨_, hpre1⟩ := allPre_uncons _ d e rest hpre
        obtain ⟨_, hcs1⟩ := allPre_uncons _ d e rest hcs
        cases e with
        | write f bs =>
          by_cases hf : isWal f = true
          · unfold Disc at hdisc
            simp only [hf, ↓reduceIte] at hdisc
            cases rest with
            | nil => exact absurd hdisc (by simp)
            | cons e2 rest' =>
              cases e2 with
              | sync g =>
                simp only at hdisc
                obtain ⟨hg, hni, hdisc'⟩ := hdisc
                subst hg
                obtain ⟨_, hpre2⟩ := allPre_uncons _ _ _ rest' hpre1
                obtain ⟨_, hcs2⟩ := allPre_uncons _ _ _ rest' hcs1
                cases j with
                | zero =>
                  simp only [List.take_succ_cons, List.take_zero, Disk.applyAll_cons, Disk.applyAll_nil]
                  have h1 := hpre 1
                  simp only [List.take_succ_cons, List.take_zero, Disk.applyAll_cons, Disk.applyAll_nil] at h1
                  have h0 := hpre 0
                  simp only [List.take_zero, Disk.applyAll_nil] at h0
                  have hw1 := Disk.apply_WF d hw (.write g bs)
                  have hc1 : CasSynced (d.apply (.write g bs)) := by
                    have := hcs 1
                    simpa [List.take_succ_cons, Disk.applyAll_cons, Disk.applyAll_nil] using this
                  have hcasA : ∀ q, (((d.apply (.write g bs)).powerLoss lose).get (.cas q)).map (·.data) =
                      (d.get (.cas q)).map (·.data) := by
                    intro q
                    rw [powerLoss_cas _ lose hc1 q, write_wal_cas d g hf bs q]
                  have hsomeA : ∀ q, (((d.apply (.write g bs)).powerLoss lose).get q).isSome =
                      (d.get q).isSome := by
                    intro q; rw [powerLoss_isSome, write_isSome]
                  cases g with
                  | seg t =>
                    obtain ⟨vs, vi⟩ := powerLoss_view_after_write d lose hd t bs
                    have vi' : indexData ((d.apply (.write (.seg t) bs)).powerLoss lose) =
                        indexData (d.apply (.write (.seg t) bs)) := by
                      rw [vi]
                      exact (indexData_indexFree d hw _ (by simp [Ev.indexFree])).symm
                    rcases vs with vs | vs
                    · exact hP _ _ h0 ⟨powerLoss_WF _ lose hw1, vs, vi, hcasA, hsomeA⟩
                    · exact hP _ _ h1 ⟨powerLoss_WF _ lose hw1, vs, vi', powerLoss_cas _ lose hc1,
                        powerLoss_isSome _ lose⟩
                  | indexTmp =>
                    refine hP _ _ h0 ⟨powerLoss_WF _ lose hw1, ?_, ?_, hcasA, hsomeA⟩
                    · intro i
                      unfold segData
                      rw [powerLoss_get, Disk.get_write]
                      have : ¬ FileId.seg i = FileId.indexTmp := by intro c; cases c
                      simp only [this, ↓reduceIte]
                      cases hg : d.get (.seg i) with
                      | none => rfl
                      | some x =>
                        simp only [Option.map_some, Option.some.injEq]
                        split
                        · simp [hd.1 i x hg]
                        · rfl
                    · unfold indexData
                      rw [powerLoss_get, Disk.get_write]
                      have : ¬ FileId.index = FileId.indexTmp := by intro c; cases c
                      simp only [this, ↓reduceIte]
                      cases hg : d.get .index with
                      | none => rfl
                      | some x =>
                        simp only [Option.map_some, Option.some.injEq]
                        split
                        · simp [hd.2.1 x hg]
                        · rfl
                  | index => exact absurd rfl hni
                  | _ => simp [isWal] at hf
                | succ j =>
                  simp only [List.take_succ_cons, Disk.applyAll_cons]
                  exact ih rest'.length (by simp at hl; omega) rest' rfl _
                    (Disk.apply_WF _ (Disk.apply_WF d hw _) _) (hd.write_sync d g bs) hdisc' hpre2 hcs2 j lose
              | _ => simp at hdisc
          · unfold Disc at hdisc
            simp only [hf, Bool.false_eq_true, ↓reduceIte] at hdisc
            simp only [List.take_succ_cons, Disk.applyAll_cons]
            exact ih rest.length (by simp at hl; omega) rest rfl _ (Disk.apply_WF d hw _)
              (hd.clean d hw _ (by simp [Ev.walClean, hf])) hdisc hpre1 hcs1 j lose
        | _ =>
          all_goals
            simp only [Disc] at hdisc
            simp only [List.take_succ_cons, Disk.applyAll_cons]
            exact ih rest.length (by simp at hl; omega) rest rfl _ (Disk.apply_WF d hw _)
              (hd.clean d hw _ hdisc.1) hdisc.2 hpre1 hcs1 j lose

/-- what `open_live` needs of an image: recoverable to one of `hists`, blobs agreeing with one of
    `specs` for the recovered map, digest names, nothing foreign, fresh staging names from `tn` on -/
def LivePre (hists : List (Recs Bytes)) (specs : List Spec) (tn : Nat) (d' : Disk) : Prop :=
  ∃ sysj histj sx mp, histj ∈ hists ∧ DCfg H kind sz N sysj histj d' ∧ sx ∈ specs ∧
    run (stepM kind) [] histj = .ok mp ∧ Agree H mp sx d' ∧ Names32 d' ∧
    (∀ p, d'.get (.stray p) = none) ∧ (∀ t, tn ≤ t → d'.get (.staging t) = none)

theorem none_of_isSome_eq {d d' : Disk} (h : ∀ f, (d'.get f).isSome = (d.get f).isSome) (f : FileId)
    (hn : d.get f = none) : d'.get f = none := by
  have := h f
  rw [hn] at this
  cases hg : d'.get f with
  | none => rfl
  | some x => rw [hg] at this; cases this

theorem LivePre.of_view (hists : List (Recs Bytes)) (specs : List Spec) (tn : Nat) (d d' : Disk)
    (p : LivePre H kind sz N hists specs tn d) (v : SameView d d') :
    LivePre H kind sz N hists specs tn d' := by
  obtain ⟨sysj, histj, sx, mp, h1, cj, h2, h3, ag, nm, ns, fr⟩ := p
  obtain ⟨hw, vs, vi, vc, ve⟩ := v
  refine ⟨sysj, histj, sx, mp, h1, cj.of_view H kind sz N sysj histj d d' hw vs vi, h2, h3, ?_, ?_, ?_, ?_⟩
  · intro k
    have := ag k
    cases hk : kLookup mp k with
    | none =>
      rw [hk] at this
      cases hs : sx k with
      | none => trivial
      | some c => rw [hs] at this; exact this.elim
    | some item =>
      rw [hk] at this
      cases hs : sx k with
      | none => rw [hs] at this; exact this.elim
      | some c =>
        rw [hs] at this
        simp only at this ⊢
        obtain ⟨a, b, x, hx, hd⟩ := this
        refine ⟨a, b, ?_⟩
        have hv := vc item.hash
        rw [hx] at hv
        cases hg : d'.get (.cas item.hash) with
        | none => rw [hg] at hv; cases hv
        | some y =>
          rw [hg] at hv
          simp only [Option.map_some, Option.some.injEq] at hv
          exact ⟨y, rfl, by rw [hv, hd]⟩
  · intro h x hx
    have := ve (.cas h)
    rw [hx] at this
    cases hg : d.get (.cas h) with
    | none => rw [hg] at this; cases this
    | some y => exact nm h y hg
  · intro p; exact none_of_isSome_eq ve _ (ns p)
  · intro t ht; exact none_of_isSome_eq ve _ (fr t ht)

/-- **`open` on an image satisfying `LivePre` returns a live store** for one of the specifications -/
theorem open_live_of_pre (so : StrictOrder kind.lt) (hH : Hash32 H) (P : Bytes → Prop) (hinj : Inj H sz P)
    (cfg : Config) (hk : cfg.kind = kind) (hn : cfg.N = N)
    (hists : List (Recs Bytes)) (specs : List Spec) (tn : Nat) (dj : Disk)
    (p : LivePre H kind sz N hists specs tn dj)
    (hspecP : ∀ sx ∈ specs, ∀ k c, sx k = some c → P c)
    (ho : OpenOK H kind cfg dj) :
    ∃ m2 sys2 hist2 sc spec2, (openBody H cfg dj).2 = .ok (m2, sc) ∧ sc.missing = [] ∧ sc.corrupted = [] ∧
      hist2 ∈ hists ∧ spec2 ∈ specs ∧
      StoreLive H kind sz N m2 sys2 hist2 (dj.applyAll (openBody H cfg dj).1) spec2 tn := by
  obtain ⟨sysj, histj, sx, mp, h1, cj, h2, h3, ag, nm, ns, fr⟩ := p
  obtain ⟨m2, sys2, sc, r1, r2, r3, _, live⟩ := open_live H kind sz N so hH P hinj cfg hk hn _ histj dj
    (cj.crash H kind sz N sysj histj dj) rfl mp h3 sx tn ag (hspecP sx h2) nm ns fr ho
  exact ⟨m2, sys2, histj, sc, sx, r1, r2, r3, h1, h2, live⟩

/-- every kill image of a put satisfies `LivePre` (the content of `StoreLive.putCrash`) -/
theorem put_livePre (so : StrictOrder kind.lt) (hH : Hash32 H) (P : Bytes → Prop) (hinj : Inj H sz P)
    (m : Mem) (sys : Sys (KMap Bytes) Bytes) (hist : Recs Bytes) (d : Disk) (spec : Spec) (tn : Nat)
    (ok : StoreLive H kind sz N m sys hist d spec tn) (hspecP : ∀ k c, spec k = some c → P c)
    (key : Bytes) (chunks : List Bytes) (hok : PutOK H kind P m key chunks) :
    AllPre (LivePre H kind sz N
        [hist, hist ++ [(m.next, serWalOp (.put key (H chunks.flatten) (chunks.map List.length).sum))]]
        [spec, fun k => if k = key then some chunks.flatten else spec k] (tn + 1)) d
      (putScript H m d tn key chunks).1 := by
  obtain ⟨hP, hraw, hval, hwf, hsave, hver⟩ := hok
  have hlen : (chunks.map List.length).sum = chunks.flatten.length := by rw [List.length_flatten]
  have hop : (chunks.map List.length).sum = sz (H chunks.flatten) := by rw [hlen, hinj.2 _ hP]
  obtain ⟨hres, hpre, _⟩ := putScript_sim H kind sz N so hH m sys hist d ok.tied tn key chunks hraw hval hop
    hwf hsave hver
  have hb : ∀ e ∈ (putScript H m d tn key chunks).1, (∀ p, e.touches (.stray p) = false) ∧
      e.makes32 = true ∧ (∀ t, t ≠ tn → e.touches (.staging t) = false) := by
    generalize hps : putScript H m d tn key chunks = ps at hres
    obtain ⟨evs, m', res⟩ := ps
    simp only at hres; subst hres
    exact putScript_benign H hH m d tn key chunks evs m' hps
  intro j
  obtain ⟨a, hla, _, hcase⟩ := C03_put_crash_contents H kind sz N so hH P hinj m sys hist d ok.tied spec tn
    ok.sinv hspecP key chunks hP hraw hval hwf hsave hver j
  obtain ⟨hnames, hstray, hfresh⟩ := benign_prefix d ok.sinv.wf ok.names ok.nostray tn ok.sinv.fresh _ hb j
  obtain ⟨sysj, histj, hmem, cj⟩ := hpre j
  obtain ⟨a', l1, l2, _⟩ := cj.recovers H hH kind so sz N sysj histj _
  rw [hla] at l1; injection l1 with l1; subst l1
  rcases hcase with ⟨_, ag⟩ | ⟨_, ag⟩
  · exact ⟨sysj, histj, spec, a.idx.map, hmem, cj, by simp, l2, ag, hnames, hstray, hfresh⟩
  · exact ⟨sysj, histj, _, a.idx.map, hmem, cj, by simp, l2, ag, hnames, hstray, hfresh⟩

/-! ### `LivePre` for the other scripts -/

theorem LivePre.mono (hists hists' : List (Recs Bytes)) (specs specs' : List Spec) (tn : Nat) (d : Disk)
    (p : LivePre H kind sz N hists specs tn d) (h1 : ∀ x ∈ hists, x ∈ hists') (h2 : ∀ x ∈ specs, x ∈ specs') :
    LivePre H kind sz N hists' specs' tn d := by
  obtain ⟨sysj, histj, sx, mp, a, b, c, r⟩ := p
  exact ⟨sysj, histj, sx, mp, h1 _ a, b, h2 _ c, r⟩

/-- a live store itself (a kill between operations) -/
theorem StoreLive.livePre (m : Mem) (sys : Sys (KMap Bytes) Bytes) (hist : Recs Bytes) (d : Disk)
    (spec : Spec) (tn : Nat) (ok : StoreLive H kind sz N m sys hist d spec tn) :
    LivePre H kind sz N [hist] [spec] tn d :=
  ⟨sys, hist, spec, m.idx.map, by simp, ok.tied.cfg.toDCfg, by simp, ok.tied.mem_eq H kind sz N,
    ok.sinv.agree, ok.names, ok.nostray, ok.sinv.fresh⟩

/-- every kill image of a script that leaves blobs, staging files and foreign files alone and keeps
    the log recoverable to the same history (a checkpoint, a restart) satisfies `LivePre` -/
theorem quiet_livePre (m : Mem) (sys : Sys (KMap Bytes) Bytes) (hist : Recs Bytes) (d : Disk)
    (spec : Spec) (tn : Nat) (ok : StoreLive H kind sz N m sys hist d spec tn) (evs : List Ev)
    (hpre : AllPre (Recoverable H kind sz N [hist]) d evs)
    (hq : ∀ e ∈ evs, (∀ g, e.sparesCas g = true) ∧ (∀ t, e.touches (.staging t) = false) ∧
      (∀ p, e.touches (.stray p) = false)) :
    AllPre (LivePre H kind sz N [hist] [spec] tn) d evs := by
  intro j
  have hw := ok.sinv.wf
  have hm : ∀ e ∈ evs.take j, e ∈ evs := fun e he => List.mem_of_mem_take he
  obtain ⟨sysj, histj, hmem, cj⟩ := hpre j
  simp only [List.mem_singleton] at hmem; subst hmem
  refine ⟨sysj, histj, spec, m.idx.map, by simp, cj, by simp, ok.tied.mem_eq H kind sz N, ?_, ?_, ?_, ?_⟩
  · exact Agree.frame H _ _ d _ ok.sinv.agree
      (fun _ item _ => sparesCas_frame_all d hw _ _ (fun e he => (hq e (hm e he)).1 _))
  · exact names32_applyAll d hw _ (fun e he => makes32_of_spares e (hq e (hm e he)).1) ok.names
  · intro p
    rw [get_untouched_all d hw _ _ (fun e he => (hq e (hm e he)).2.2 p)]; exact ok.nostray p
  · intro t ht
    rw [get_untouched_all d hw _ _ (fun e he => (hq e (hm e he)).2.1 t)]; exact ok.sinv.fresh t ht

/-- every kill image of a commit (one WAL record: a remove, a range removal) satisfies `LivePre` -/
theorem commit_livePre (so : StrictOrder kind.lt) (hH : Hash32 H)
    (m : Mem) (sys : Sys (KMap Bytes) Bytes) (hist : Recs Bytes) (d : Disk) (spec : Spec) (tn : Nat)
    (ok : StoreLive H kind sz N m sys hist d spec tn) (op : Op Bytes) (raw : RawOp)
    (hraw : raw.WF) (hconv : fromRaw kind raw = some op) (hop : OpOK sz op)
    (hwf : (⟨m.next, serWalOp raw⟩ : Rec).WF)
    (hsave : ∀ idx' un, applyOp kind.lt m.idx op = .ok (idx', un) → SaveOK kind idx')
    (hver : m.next + 1 < U64) (spec' : Spec)
    (hnew : Agree H (mapApply kind.lt m.idx.map op) spec' d) :
    ∃ evs m', logAndApply H m d op raw = .ok (evs, m') ∧
      AllPre (LivePre H kind sz N [hist, hist ++ [(m.next, serWalOp raw)]] [spec, spec'] tn) d evs := by
  obtain ⟨evs, m', hla, hpre, _⟩ := logAndApply_sim H kind sz N so hH m sys hist d ok.tied op raw hraw hconv
    hop hwf hsave hver
  obtain ⟨evs2, m2', hla2, hall⟩ := C03_commit_crash_contents H kind sz N so hH m sys hist d ok.tied
    op raw hraw hconv hop hwf hsave hver spec spec' ok.sinv.agree hnew
  rw [hla] at hla2; injection hla2 with hla2; injection hla2 with e1' e2'; subst e1' e2'
  refine ⟨evs, m', hla, ?_⟩
  intro j
  have hw := ok.sinv.wf
  obtain ⟨a, hlog, _, hcase⟩ := hall j
  have hb := logAndApply_benign H m d _ _ evs m' hla
  have hm : ∀ e ∈ evs.take j, e ∈ evs := fun e he => List.mem_of_mem_take he
  have hnames : Names32 (d.applyAll (evs.take j)) :=
    names32_applyAll d hw _ (fun e he => (hb e (hm e he)).2.1) ok.names
  have hstray : ∀ p, (d.applyAll (evs.take j)).get (.stray p) = none := by
    intro p
    rw [get_untouched_all d hw _ _ (fun e he => (hb e (hm e he)).1 p)]; exact ok.nostray p
  have hfresh : ∀ t, tn ≤ t → (d.applyAll (evs.take j)).get (.staging t) = none := by
    intro t ht
    rw [get_untouched_all d hw _ _ (fun e he => (hb e (hm e he)).2.2 t)]; exact ok.sinv.fresh t ht
  obtain ⟨sysj, histj, hmem, cj⟩ := hpre j
  obtain ⟨a', l1, l2, _⟩ := cj.recovers H hH kind so sz N sysj histj _
  rw [hlog] at l1; injection l1 with l1; subst l1
  rcases hcase with ⟨_, ag⟩ | ⟨_, ag⟩
  · exact ⟨sysj, histj, spec, a.idx.map, hmem, cj, by simp, l2, ag, hnames, hstray, hfresh⟩
  · exact ⟨sysj, histj, spec', a.idx.map, hmem, cj, by simp, l2, ag, hnames, hstray, hfresh⟩

/-- every kill image of a remove satisfies `LivePre` -/
theorem remove_livePre (so : StrictOrder kind.lt) (hH : Hash32 H)
    (m : Mem) (sys : Sys (KMap Bytes) Bytes) (hist : Recs Bytes) (d : Disk) (spec : Spec) (tn : Nat)
    (ok : StoreLive H kind sz N m sys hist d spec tn) (key : Bytes) (hok : RemoveOK kind m key) :
    AllPre (LivePre H kind sz N [hist, hist ++ [(m.next, serWalOp (.remove [key]))]]
        [spec, fun k => if k = key then none else spec k] tn) d (removeScript H m d key).1 := by
  obtain ⟨hraw, hval, hwf, hsave, hver⟩ := hok
  unfold removeScript
  cases hk : kLookup m.idx.map key with
  | none =>
    simp only
    exact allPre_nil _ _ ((ok.livePre H kind sz N m sys hist d spec tn).mono H kind sz N _ _ _ _ _ _
      (by simp) (by simp))
  | some item0 =>
    obtain ⟨idx', unref, happ, _, hl⟩ := applyOp_spec so sz m.idx ok.tied.inv (.remove [key]) trivial
    have hmap : idx'.map = mapApply kind.lt m.idx.map (.remove [key]) :=
      applyOp_map kind.lt m.idx idx' _ unref happ
    have hnew : Agree H (mapApply kind.lt m.idx.map (.remove [key]))
        (fun k => if k = key then none else spec k) d := by
      intro k
      rw [← hmap, hl k]
      simp only [specApply, List.mem_singleton]
      by_cases ck : k = key
      · simp [ck]
      · simp only [ck, ↓reduceIte]; exact ok.sinv.agree k
    obtain ⟨evs, m', hla, hall⟩ := commit_livePre H kind sz N so hH m sys hist d spec tn ok
      (.remove [key]) (.remove [key]) hraw (by simp [fromRaw, hval]) trivial hwf hsave hver _ hnew
    simp only [hla]
    exact hall

/-- every kill image of a range removal satisfies `LivePre` -/
theorem range_livePre (so : StrictOrder kind.lt) (hH : Hash32 H)
    (m : Mem) (sys : Sys (KMap Bytes) Bytes) (hist : Recs Bytes) (d : Disk) (spec : Spec) (tn : Nat)
    (ok : StoreLive H kind sz N m sys hist d spec tn) (lo hi : Bound) (hok : RangeOK kind m lo hi) :
    AllPre (LivePre H kind sz N [hist, hist ++ [(m.next, serWalOp (.remove (rangeKeys m lo hi)))]]
        [spec, fun k => if inRange kind.lt lo hi k = true then none else spec k] tn) d
      (removeRangeScript H m d lo hi).1 := by
  obtain ⟨hraw, hval, hwf, hsave, hver⟩ := hok
  have hsp := rangeSpec_eq H sz m d spec tn ok.sinv lo hi
  rw [ok.tied.kindEq] at hsp
  rw [← hsp]
  unfold removeRangeScript
  by_cases he : (rangeKeys m lo hi).isEmpty = true
  · simp only [he, ↓reduceIte]
    exact allPre_nil _ _ ((ok.livePre H kind sz N m sys hist d spec tn).mono H kind sz N _ _ _ _ _ _
      (by simp) (by simp))
  · simp only [he, Bool.false_eq_true, ↓reduceIte]
    obtain ⟨idx', unref, happ, _, hl⟩ := applyOp_spec so sz m.idx ok.tied.inv
      (.remove (rangeKeys m lo hi)) trivial
    have hmap : idx'.map = mapApply kind.lt m.idx.map (.remove (rangeKeys m lo hi)) :=
      applyOp_map kind.lt m.idx idx' _ unref happ
    have hnew : Agree H (mapApply kind.lt m.idx.map (.remove (rangeKeys m lo hi)))
        (fun k => if k ∈ rangeKeys m lo hi then none else spec k) d := by
      intro k
      rw [← hmap, hl k]
      simp only [specApply]
      by_cases ck : k ∈ rangeKeys m lo hi
      · simp [ck]
      · simp only [ck, ↓reduceIte]; exact ok.sinv.agree k
    obtain ⟨evs, m', hla, hall⟩ := commit_livePre H kind sz N so hH m sys hist d spec tn ok
      (.remove (rangeKeys m lo hi)) (.remove (rangeKeys m lo hi)) hraw (by simp [fromRaw, hval]) trivial
      hwf hsave hver _ hnew
    simp only [hla]
    exact hall

/-- every kill image of an explicit checkpoint satisfies `LivePre` -/
theorem checkpoint_livePre (so : StrictOrder kind.lt)
    (m : Mem) (sys : Sys (KMap Bytes) Bytes) (hist : Recs Bytes) (d : Disk) (spec : Spec) (tn : Nat)
    (ok : StoreLive H kind sz N m sys hist d spec tn) (hsave : SaveOK kind m.idx) (hver : m.next < U64) :
    AllPre (LivePre H kind sz N [hist] [spec] tn) d (checkpointScript .explicit m d).1 := by
  obtain ⟨hpre, _⟩ := checkpoint_sim H kind sz N so .explicit m sys hist d d ok.tied hsave hver [hist]
    (by simp)
  exact quiet_livePre H kind sz N m sys hist d spec tn ok _ hpre (checkpointScript_quiet .explicit m d)

/-- every kill image of a restart (drop, then `open`) satisfies `LivePre` -/
theorem reopen_livePre (so : StrictOrder kind.lt) (hH : Hash32 H)
    (m : Mem) (sys : Sys (KMap Bytes) Bytes) (hist : Recs Bytes) (d : Disk) (spec : Spec) (tn : Nat)
    (ok : StoreLive H kind sz N m sys hist d spec tn)
    (cfg0 : Config) (hk0 : cfg0.kind = kind) (hn0 : cfg0.N = N) (ho0 : OpenOK H kind cfg0 (d.applyAll (closeScript m))) :
    AllPre (LivePre H kind sz N [hist] [spec] tn) d
      (closeScript m ++ (openBody H cfg0 (d.applyAll (closeScript m))).1) := by
  have ⟨e0, pre0, hg0, hsv0⟩ := ho0
  have hc := closeScript_benign m
  have c1 := (ok.tied.cfg.toDCfg.freeAll H kind sz N sys hist d (closeScript m) (fun e he => (hc e he).1)).crash
    H kind sz N sys hist _
  obtain ⟨_, _, _, _, hpre2, _⟩ :=
    open_sim_full H kind sz N so hH cfg0 hk0 hn0 _ hist _ c1 rfl e0 pre0 hg0 hsv0
  have hpre : AllPre (Recoverable H kind sz N [hist]) d
      (closeScript m ++ (openBody H cfg0 (d.applyAll (closeScript m))).1) :=
    allPre_append _ d _ _ (allPre_free H kind sz N sys hist d ok.tied.cfg [hist] (by simp) _
      (fun e he => (hc e he).1)) hpre2
  refine quiet_livePre H kind sz N m sys hist d spec tn ok _ hpre ?_
  intro e he
  rcases List.mem_append.mp he with he | he
  · exact (hc e he).2
  · exact openBody_quiet H cfg0 _ e he

/-- a live store in Sync mode between operations: additionally every WAL file and every blob file
    is completely covered by a sync -/
structure StoreDur (m : Mem) (sys : Sys (KMap Bytes) Bytes) (hist : Recs Bytes) (d : Disk)
    (spec : Spec) (tn : Nat) : Prop where
  live : StoreLive H kind sz N m sys hist d spec tn
  dur : Dur d
  cas : CasSynced d
  le : SyncLe d
  sync : m.cfg.sync = true

/-- the events of `open` obey the sync discipline -/
theorem openBody_disc (cfg : Config) (d0 : Disk) (e1 : List Ev) (pre : Bool) (acc : ReplayAcc)
    (hg : settingsGate cfg d0 = .ok (e1, pre)) (hl : logical H cfg.kind (d0.applyAll e1) = .ok acc) :
    Disc (openBody H cfg d0).1 := by
  obtain ⟨ck, hck, hev, _⟩ := openBody_eq H cfg d0 e1 pre acc hg hl
  rw [hev]
  apply disc_append
  · apply disc_append
    · exact disc_of_clean _ (settingsGate_clean cfg d0 e1 pre hg)
    · split
      · trivial
      · exact disc_of_clean _ (by
          intro e he
          simp only [List.mem_cons, List.not_mem_nil, or_false] at he
          rcases he with rfl | rfl <;> rfl)
  · rw [hck]
    split
    · exact checkpointScript_disc _ _ _
    · trivial

/-- **power loss at any cut of a disciplined script whose kill images satisfy `LivePre` and keep
    their blob files synced, then `open`: a live store** -/
theorem powerLoss_open_live (so : StrictOrder kind.lt) (hH : Hash32 H) (P : Bytes → Prop)
    (hinj : Inj H sz P) (cfg : Config) (hk : cfg.kind = kind) (hn : cfg.N = N)
    (hists : List (Recs Bytes)) (specs : List Spec) (tn : Nat) (d : Disk) (hw : d.WF) (hd : Dur d)
    (evs : List Ev) (hdisc : Disc evs) (hpre : AllPre (LivePre H kind sz N hists specs tn) d evs)
    (hcs : AllPre CasSynced d evs) (hspecP : ∀ sx ∈ specs, ∀ k c, sx k = some c → P c)
    (j : Nat) (lose : FileId → Bool) (ho : OpenOK H kind cfg ((d.applyAll (evs.take j)).powerLoss lose)) :
    ∃ m2 sys2 hist2 sc spec2,
      (openBody H cfg ((d.applyAll (evs.take j)).powerLoss lose)).2 = .ok (m2, sc) ∧
      sc.missing = [] ∧ sc.corrupted = [] ∧ hist2 ∈ hists ∧ spec2 ∈ specs ∧
      StoreLive H kind sz N m2 sys2 hist2
        (((d.applyAll (evs.take j)).powerLoss lose).applyAll
          (openBody H cfg ((d.applyAll (evs.take j)).powerLoss lose)).1) spec2 tn :=
  open_live_of_pre H kind sz N so hH P hinj cfg hk hn _ _ _ _
    (powerLoss_allPre_gen _ (LivePre.of_view H kind sz N _ _ _) _ d hw hd hdisc hpre hcs j lose)
    hspecP ho

/-- **C09 with contents, remove.** -/
theorem StoreDur.removePowerLoss (so : StrictOrder kind.lt) (hH : Hash32 H) (P : Bytes → Prop)
    (hinj : Inj H sz P)
    (m : Mem) (sys : Sys (KMap Bytes) Bytes) (hist : Recs Bytes) (d : Disk) (spec : Spec) (tn : Nat)
    (ok : StoreDur H kind sz N m sys hist d spec tn) (hspecP : ∀ k c, spec k = some c → P c)
    (key : Bytes) (hok : RemoveOK kind m key)
    (cfg : Config) (hk : cfg.kind = kind) (hn : cfg.N = N) (j : Nat) (lose : FileId → Bool)
    (ho : OpenOK H kind cfg ((d.applyAll ((removeScript H m d key).1.take j)).powerLoss lose)) :
    ∃ m2 sys2 hist2 sc spec2,
      (openBody H cfg ((d.applyAll ((removeScript H m d key).1.take j)).powerLoss lose)).2 = .ok (m2, sc) ∧
      sc.missing = [] ∧ sc.corrupted = [] ∧
      (spec2 = spec ∨ spec2 = fun k => if k = key then none else spec k) ∧
      StoreLive H kind sz N m2 sys2 hist2
        (((d.applyAll ((removeScript H m d key).1.take j)).powerLoss lose).applyAll
          (openBody H cfg ((d.applyAll ((removeScript H m d key).1.take j)).powerLoss lose)).1) spec2 tn := by
  have hw := ok.live.sinv.wf
  have hpre := remove_livePre H kind sz N so hH m sys hist d spec tn ok.live key hok
  obtain ⟨b, hres, _, _⟩ := removeScript_sinv H sz m d spec tn ok.live.sinv key
  have hshape : Disc (removeScript H m d key).1 ∧ ∀ e ∈ (removeScript H m d key).1, e.casQuiet = true := by
    unfold removeScript
    split
    · exact ⟨trivial, by intro e he; cases he⟩
    · split
      · exact ⟨trivial, by intro e he; cases he⟩
      · rename_i evs2 m2 hla
        exact ⟨logAndApply_disc H m d _ _ evs2 m2 hla, logAndApply_casQuiet H m d _ _ evs2 m2 hla⟩
  obtain ⟨m2, sys2, hist2, sc, spec2, r1, r2, r3, _, hs, live⟩ := powerLoss_open_live H kind sz N so hH P hinj
    cfg hk hn _ _ tn d hw ok.dur _ hshape.1 hpre (casSynced_allPre d hw _ hshape.2 ok.cas) (by
      intro sx hsx
      simp only [List.mem_cons, List.not_mem_nil, or_false] at hsx
      rcases hsx with rfl | rfl
      · exact hspecP
      · exact specP_remove P spec hspecP key) j lose ho
  exact ⟨m2, sys2, hist2, sc, spec2, r1, r2, r3, by simpa using hs, live⟩

/-- **C09 with contents, remove_range**: all the keys within the bounds are gone, or none. -/
theorem StoreDur.removeRangePowerLoss (so : StrictOrder kind.lt) (hH : Hash32 H) (P : Bytes → Prop)
    (hinj : Inj H sz P)
    (m : Mem) (sys : Sys (KMap Bytes) Bytes) (hist : Recs Bytes) (d : Disk) (spec : Spec) (tn : Nat)
    (ok : StoreDur H kind sz N m sys hist d spec tn) (hspecP : ∀ k c, spec k = some c → P c)
    (lo hi : Bound) (hok : RangeOK kind m lo hi)
    (cfg : Config) (hk : cfg.kind = kind) (hn : cfg.N = N) (j : Nat) (lose : FileId → Bool)
    (ho : OpenOK H kind cfg ((d.applyAll ((removeRangeScript H m d lo hi).1.take j)).powerLoss lose)) :
    ∃ m2 sys2 hist2 sc spec2,
      (openBody H cfg ((d.applyAll ((removeRangeScript H m d lo hi).1.take j)).powerLoss lose)).2 =
        .ok (m2, sc) ∧ sc.missing = [] ∧ sc.corrupted = [] ∧
      (spec2 = spec ∨ spec2 = fun k => if inRange kind.lt lo hi k = true then none else spec k) ∧
      StoreLive H kind sz N m2 sys2 hist2
        (((d.applyAll ((removeRangeScript H m d lo hi).1.take j)).powerLoss lose).applyAll
          (openBody H cfg ((d.applyAll ((removeRangeScript H m d lo hi).1.take j)).powerLoss lose)).1)
        spec2 tn := by
  have hw := ok.live.sinv.wf
  have hpre := range_livePre H kind sz N so hH m sys hist d spec tn ok.live lo hi hok
  have hshape : Disc (removeRangeScript H m d lo hi).1 ∧
      ∀ e ∈ (removeRangeScript H m d lo hi).1, e.casQuiet = true := by
    unfold removeRangeScript
    simp only
    by_cases he : (rangeKeys m lo hi).isEmpty = true
    · simp only [he, ↓reduceIte]
      exact ⟨trivial, by intro e he; cases he⟩
    · simp only [he, Bool.false_eq_true, ↓reduceIte]
      split
      · exact ⟨trivial, by intro e he; cases he⟩
      · rename_i evs2 m2 hla
        exact ⟨logAndApply_disc H m d _ _ evs2 m2 hla, logAndApply_casQuiet H m d _ _ evs2 m2 hla⟩
  obtain ⟨m2, sys2, hist2, sc, spec2, r1, r2, r3, _, hs, live⟩ := powerLoss_open_live H kind sz N so hH P hinj
    cfg hk hn _ _ tn d hw ok.dur _ hshape.1 hpre (casSynced_allPre d hw _ hshape.2 ok.cas) (by
      intro sx hsx
      simp only [List.mem_cons, List.not_mem_nil, or_false] at hsx
      rcases hsx with rfl | rfl
      · exact hspecP
      · exact specP_range P spec hspecP _) j lose ho
  exact ⟨m2, sys2, hist2, sc, spec2, r1, r2, r3, by simpa using hs, live⟩

/-- **C09 with contents, checkpoint.** -/
theorem StoreDur.checkpointPowerLoss (so : StrictOrder kind.lt) (hH : Hash32 H) (P : Bytes → Prop)
    (hinj : Inj H sz P)
    (m : Mem) (sys : Sys (KMap Bytes) Bytes) (hist : Recs Bytes) (d : Disk) (spec : Spec) (tn : Nat)
    (ok : StoreDur H kind sz N m sys hist d spec tn) (hspecP : ∀ k c, spec k = some c → P c)
    (hsave : SaveOK kind m.idx) (hver : m.next < U64)
    (cfg : Config) (hk : cfg.kind = kind) (hn : cfg.N = N) (j : Nat) (lose : FileId → Bool)
    (ho : OpenOK H kind cfg ((d.applyAll ((checkpointScript .explicit m d).1.take j)).powerLoss lose)) :
    ∃ m2 sys2 sc,
      (openBody H cfg ((d.applyAll ((checkpointScript .explicit m d).1.take j)).powerLoss lose)).2 =
        .ok (m2, sc) ∧ sc.missing = [] ∧ sc.corrupted = [] ∧
      StoreLive H kind sz N m2 sys2 hist
        (((d.applyAll ((checkpointScript .explicit m d).1.take j)).powerLoss lose).applyAll
          (openBody H cfg ((d.applyAll ((checkpointScript .explicit m d).1.take j)).powerLoss lose)).1)
        spec tn := by
  have hw := ok.live.sinv.wf
  have hpre := checkpoint_livePre H kind sz N so m sys hist d spec tn ok.live hsave hver
  have hq := checkpointScript_quiet .explicit m d
  obtain ⟨m2, sys2, hist2, sc, spec2, r1, r2, r3, hh, hs, live⟩ := powerLoss_open_live H kind sz N so hH P hinj
    cfg hk hn _ _ tn d hw ok.dur _ (checkpointScript_disc .explicit m d) hpre
    (casSynced_allPre d hw _ (fun e he => casQuiet_of_spares e (hq e he).1) ok.cas) (by
      intro sx hsx
      simp only [List.mem_singleton] at hsx; subst hsx; exact hspecP) j lose ho
  simp only [List.mem_singleton] at hh hs
  subst hh hs
  exact ⟨m2, sys2, sc, r1, r2, r3, live⟩

/-- **C09 with contents, restart**: power loss inside the drop or inside start-up recovery itself. -/
theorem StoreDur.reopenPowerLoss (so : StrictOrder kind.lt) (hH : Hash32 H) (P : Bytes → Prop)
    (hinj : Inj H sz P)
    (m : Mem) (sys : Sys (KMap Bytes) Bytes) (hist : Recs Bytes) (d : Disk) (spec : Spec) (tn : Nat)
    (ok : StoreDur H kind sz N m sys hist d spec tn) (hspecP : ∀ k c, spec k = some c → P c)
    (cfg0 : Config) (hk0 : cfg0.kind = kind) (hn0 : cfg0.N = N) (ho0 : OpenOK H kind cfg0 (d.applyAll (closeScript m)))
    (cfg : Config) (hk : cfg.kind = kind) (hn : cfg.N = N) (j : Nat) (lose : FileId → Bool)
    (ho : OpenOK H kind cfg ((d.applyAll ((closeScript m ++
      (openBody H cfg0 (d.applyAll (closeScript m))).1).take j)).powerLoss lose)) :
    ∃ m2 sys2 sc,
      (openBody H cfg ((d.applyAll ((closeScript m ++
        (openBody H cfg0 (d.applyAll (closeScript m))).1).take j)).powerLoss lose)).2 = .ok (m2, sc) ∧
      sc.missing = [] ∧ sc.corrupted = [] ∧
      StoreLive H kind sz N m2 sys2 hist
        (((d.applyAll ((closeScript m ++
          (openBody H cfg0 (d.applyAll (closeScript m))).1).take j)).powerLoss lose).applyAll
          (openBody H cfg ((d.applyAll ((closeScript m ++
            (openBody H cfg0 (d.applyAll (closeScript m))).1).take j)).powerLoss lose)).1) spec tn := by
  have hw := ok.live.sinv.wf
  have ⟨e0, pre0, hg0, hsv0⟩ := ho0
  have hpre := reopen_livePre H kind sz N so hH m sys hist d spec tn ok.live cfg0 hk0 hn0 ho0
  have hc := closeScript_benign m
  -- the first open's replay succeeds (needed for the shape of its script)
  have c1 := (ok.live.tied.cfg.toDCfg.freeAll H kind sz N sys hist d (closeScript m)
    (fun e he => (hc e he).1)).crash H kind sz N sys hist _
  obtain ⟨acc, hl, _⟩ :=
    open_sim_full H kind sz N so hH cfg0 hk0 hn0 _ hist _ c1 rfl e0 pre0 hg0 hsv0
  have hl' : logical H cfg0.kind ((d.applyAll (closeScript m)).applyAll e0) = .ok acc := by rw [hk0]; exact hl
  have hdisc : Disc (closeScript m ++ (openBody H cfg0 (d.applyAll (closeScript m))).1) := by
    apply disc_append
    · apply disc_of_clean
      intro e he
      unfold closeScript at he
      split at he
      · simp only [List.mem_singleton] at he; subst he; rfl
      · cases he
    · exact openBody_disc H cfg0 _ e0 pre0 acc hg0 hl'
  have hquiet : ∀ e ∈ closeScript m ++ (openBody H cfg0 (d.applyAll (closeScript m))).1,
      e.casQuiet = true := by
    intro e he
    rcases List.mem_append.mp he with he | he
    · exact casQuiet_of_spares e (hc e he).2.1
    · exact casQuiet_of_spares e (openBody_quiet H cfg0 _ e he).1
  obtain ⟨m2, sys2, hist2, sc, spec2, r1, r2, r3, hh, hs, live⟩ := powerLoss_open_live H kind sz N so hH P hinj
    cfg hk hn _ _ tn d hw ok.dur _ hdisc hpre (casSynced_allPre d hw _ hquiet ok.cas) (by
      intro sx hsx
      simp only [List.mem_singleton] at hsx; subst hsx; exact hspecP) j lose ho
  simp only [List.mem_singleton] at hh hs
  subst hh hs
  exact ⟨m2, sys2, sc, r1, r2, r3, live⟩

/-- **C09 with contents, put.**  Sync mode.  Cut a put after any number of its filesystem events
    and lose power — every file in `lose` keeps only the prefix covered by its last sync, for every
    choice of `lose` — then `open`: it returns a handle (nothing missing, nothing corrupted: the
    blobs of every visible key are intact), and the store is live for the old specification or for
    the one with this put applied, nothing else. -/
theorem StoreDur.putPowerLoss (so : StrictOrder kind.lt) (hH : Hash32 H) (P : Bytes → Prop)
    (hinj : Inj H sz P)
    (m : Mem) (sys : Sys (KMap Bytes) Bytes) (hist : Recs Bytes) (d : Disk) (spec : Spec) (tn : Nat)
    (ok : StoreDur H kind sz N m sys hist d spec tn) (hspecP : ∀ k c, spec k = some c → P c)
    (key : Bytes) (chunks : List Bytes) (hok : PutOK H kind P m key chunks)
    (cfg : Config) (hk : cfg.kind = kind) (hn : cfg.N = N) (j : Nat) (lose : FileId → Bool)
    (ho : OpenOK H kind cfg ((d.applyAll ((putScript H m d tn key chunks).1.take j)).powerLoss lose)) :
    ∃ m2 sys2 hist2 sc spec2,
      (openBody H cfg ((d.applyAll ((putScript H m d tn key chunks).1.take j)).powerLoss lose)).2 =
        .ok (m2, sc) ∧ sc.missing = [] ∧ sc.corrupted = [] ∧
      (spec2 = spec ∨ spec2 = fun k => if k = key then some chunks.flatten else spec k) ∧
      StoreLive H kind sz N m2 sys2 hist2
        (((d.applyAll ((putScript H m d tn key chunks).1.take j)).powerLoss lose).applyAll
          (openBody H cfg ((d.applyAll ((putScript H m d tn key chunks).1.take j)).powerLoss lose)).1)
        spec2 (tn + 1) := by
  have hw := ok.live.sinv.wf
  have hpre := put_livePre H kind sz N so hH P hinj m sys hist d spec tn ok.live hspecP key chunks hok
  obtain ⟨evs, m', hrun, _⟩ := putScript_sinv H sz m d spec tn ok.live.sinv key chunks P hinj hok.1 hspecP
  have hcs : AllPre CasSynced d (putScript H m d tn key chunks).1 := by
    rw [hrun]
    exact put_casSynced H m d hw tn (ok.live.sinv.fresh tn (Nat.le_refl _)) key chunks evs m' hrun ok.sync ok.cas
  have himg := powerLoss_allPre_gen _ (LivePre.of_view H kind sz N _ _ _) _ d hw ok.dur
    (putScript_disc H m d tn key chunks) hpre hcs j lose
  obtain ⟨m2, sys2, hist2, sc, spec2, r1, r2, r3, _, hs, live⟩ := open_live_of_pre H kind sz N so hH P hinj
    cfg hk hn _ _ _ _ himg (by
      intro sx hsx
      simp only [List.mem_cons, List.not_mem_nil, or_false] at hsx
      rcases hsx with rfl | rfl
      · exact hspecP
      · exact specP_put P spec hspecP key _ hok.1) ho
  refine ⟨m2, sys2, hist2, sc, spec2, r1, r2, r3, ?_, live⟩
  simpa using hs

/-! ### the store stays durable: completed operations, and `open` after a full power loss -/

theorem openBody_cfg (cfg : Config) (d0 : Disk) (e1 : List Ev) (pre : Bool) (acc : ReplayAcc)
    (hg : settingsGate cfg d0 = .ok (e1, pre)) (hl : logical H cfg.kind (d0.applyAll e1) = .ok acc)
    (m2 : Mem) (sc : ScanOut) (h : (openBody H cfg d0).2 = .ok (m2, sc)) : m2.cfg = cfg := by
  obtain ⟨ck, hck, _, hm⟩ := openBody_eq H cfg d0 e1 pre acc hg hl
  rw [hm m2 sc h, hck]
  split
  · exact (checkpointScript_map _ _ _).2
  · rfl

theorem casSynced_powerLoss (d : Disk) (lose : FileId → Bool) (h : CasSynced d) :
    CasSynced (d.powerLoss lose) := by
  intro g x hx
  rw [powerLoss_get] at hx
  cases hg : d.get (.cas g) with
  | none => simp [hg] at hx
  | some y =>
    simp only [hg, Option.map_some, Option.some.injEq] at hx
    have hy := h g y hg
    split at hx
    · subst hx; simp [hy]
    · subst hx; exact hy

/-- **`open` on a fully synced image satisfying `LivePre` returns a durable live store** -/
theorem open_dur_of_pre (so : StrictOrder kind.lt) (hH : Hash32 H) (P : Bytes → Prop) (hinj : Inj H sz P)
    (cfg : Config) (hk : cfg.kind = kind) (hn : cfg.N = N) (hsync : cfg.sync = true)
    (hists : List (Recs Bytes)) (specs : List Spec) (tn : Nat) (dj : Disk)
    (p : LivePre H kind sz N hists specs tn dj) (hdur : Dur dj) (hle : SyncLe dj) (hcs : CasSynced dj)
    (hspecP : ∀ sx ∈ specs, ∀ k c, sx k = some c → P c)
    (ho : OpenOK H kind cfg dj) :
    ∃ m2 sys2 hist2 sc spec2, (openBody H cfg dj).2 = .ok (m2, sc) ∧ sc.missing = [] ∧ sc.corrupted = [] ∧
      hist2 ∈ hists ∧ spec2 ∈ specs ∧
      StoreDur H kind sz N m2 sys2 hist2 (dj.applyAll (openBody H cfg dj).1) spec2 tn := by
  have ⟨e1, pre, hg, hsv⟩ := ho
  have hw : dj.WF := by obtain ⟨_, _, _, _, _, cj, _⟩ := p; exact cj.rel.wf
  have hacc : ∃ acc, logical H cfg.kind (dj.applyAll e1) = .ok acc := by
    obtain ⟨sysj, histj, _, _, _, cj, _⟩ := p
    obtain ⟨acc, hl, _⟩ := open_sim_full H kind sz N so hH cfg hk hn _ histj dj
      (cj.crash H kind sz N sysj histj dj) rfl e1 pre hg hsv
    exact ⟨acc, by rw [hk]; exact hl⟩
  obtain ⟨acc, hl⟩ := hacc
  obtain ⟨m2, sys2, hist2, sc, spec2, r1, r2, r3, hh, hs, live⟩ := open_live_of_pre H kind sz N so hH P hinj
    cfg hk hn hists specs tn dj p hspecP ho
  have hq := openBody_quiet H cfg dj
  refine ⟨m2, sys2, hist2, sc, spec2, r1, r2, r3, hh, hs, live, ?_, ?_, ?_, ?_⟩
  · exact dur_applyAll_disc _ dj hw hdur (openBody_disc H cfg dj e1 pre acc hg hl)
  · exact casSynced_applyAll dj hw _ (fun e he => casQuiet_of_spares e (hq e he).1) hcs
  · exact hle.applyAll dj hw _
  · rw [openBody_cfg H cfg dj e1 pre acc hg hl m2 sc r1]; exact hsync

/-- **repeated power loss**: a FULL power loss (every file keeps only its synced prefix) at any cut
    of a disciplined script whose kill images satisfy `LivePre` and keep their blob files synced,
    then `open` in Sync mode: a durable live store again — `StoreDur`, the hypothesis of every
    theorem of this file, so the guarantee holds for the next power loss as well. -/
theorem fullLoss_open_dur (so : StrictOrder kind.lt) (hH : Hash32 H) (P : Bytes → Prop)
    (hinj : Inj H sz P) (cfg : Config) (hk : cfg.kind = kind) (hn : cfg.N = N) (hsync : cfg.sync = true)
    (hists : List (Recs Bytes)) (specs : List Spec) (tn : Nat) (d : Disk) (hw : d.WF) (hd : Dur d)
    (hle : SyncLe d)
    (evs : List Ev) (hdisc : Disc evs) (hpre : AllPre (LivePre H kind sz N hists specs tn) d evs)
    (hcs : AllPre CasSynced d evs) (hspecP : ∀ sx ∈ specs, ∀ k c, sx k = some c → P c)
    (j : Nat) (ho : OpenOK H kind cfg ((d.applyAll (evs.take j)).powerLoss (fun _ => true))) :
    ∃ m2 sys2 hist2 sc spec2,
      (openBody H cfg ((d.applyAll (evs.take j)).powerLoss (fun _ => true))).2 = .ok (m2, sc) ∧
      sc.missing = [] ∧ sc.corrupted = [] ∧ hist2 ∈ hists ∧ spec2 ∈ specs ∧
      StoreDur H kind sz N m2 sys2 hist2
        (((d.applyAll (evs.take j)).powerLoss (fun _ => true)).applyAll
          (openBody H cfg ((d.applyAll (evs.take j)).powerLoss (fun _ => true))).1) spec2 tn := by
  obtain ⟨hd', hle'⟩ := dur_of_full_loss (d.applyAll (evs.take j)) (hle.applyAll d hw _)
  exact open_dur_of_pre H kind sz N so hH P hinj cfg hk hn hsync hists specs tn _
    (powerLoss_allPre_gen _ (LivePre.of_view H kind sz N _ _ _) _ d hw hd hdisc hpre hcs j _)
    hd' hle' (casSynced_powerLoss _ _ (hcs j)) hspecP ho

/-- **a completed put keeps the store durable** (Sync mode) -/
theorem StoreDur.put (so : StrictOrder kind.lt) (hH : Hash32 H) (P : Bytes → Prop) (hinj : Inj H sz P)
    (m : Mem) (sys : Sys (KMap Bytes) Bytes) (hist : Recs Bytes) (d : Disk) (spec : Spec) (tn : Nat)
    (ok : StoreDur H kind sz N m sys hist d spec tn) (hspecP : ∀ k c, spec k = some c → P c)
    (key : Bytes) (chunks : List Bytes) (hok : PutOK H kind P m key chunks) :
    ∃ evs m' sys' hist', putScript H m d tn key chunks = (evs, m', .ok) ∧
      StoreDur H kind sz N m' sys' hist' (d.applyAll evs)
        (fun k => if k = key then some chunks.flatten else spec k) (tn + 1) := by
  obtain ⟨hP, hraw, hval, hwf, hsave, hver⟩ := hok
  have hw := ok.live.sinv.wf
  obtain ⟨evs, m', sys', hist', hrun, live'⟩ := ok.live.put H kind sz N so hH P hinj m sys hist d spec tn
    hspecP key chunks hP hraw hval hwf hsave hver
  have hdisc := putScript_disc H m d tn key chunks
  rw [hrun] at hdisc
  have hcs := put_casSynced H m d hw tn (ok.live.sinv.fresh tn (Nat.le_refl _)) key chunks evs m' hrun
    ok.sync ok.cas
  refine ⟨evs, m', sys', hist', hrun, live', dur_applyAll_disc _ d hw ok.dur hdisc, ?_,
    ok.le.applyAll d hw _, ?_⟩
  · have := hcs evs.length
    rwa [List.take_length] at this
  · obtain ⟨evs2, hla, _⟩ := putScript_split H m d tn key chunks evs m' hrun
    cases ha : applyOp m.cfg.kind.lt m.idx (.put key (H chunks.flatten) (chunks.map List.length).sum) with
    | error e => unfold logAndApply at hla; simp [ha] at hla
    | ok r =>
      obtain ⟨idx', unref⟩ := r
      obtain ⟨evs3, m3, hla3, ⟨_, _, hcfg, _, _⟩, _⟩ := logAndApply_spec H m _ _ _ idx' unref ha
      rw [hla] at hla3; injection hla3 with hla3; injection hla3 with _ e2; subst e2
      rw [hcfg]; exact ok.sync

/-- non-vacuity: a freshly created store in Sync mode is durable -/
theorem storeDur_fresh (cfg : Config) (hsync : cfg.sync = true) (so : StrictOrder cfg.kind.lt) (d : Disk)
    (hw : d.WF) (hle : SyncLe d)
    (hseg : ∀ i, segData d i = if i = 0 then some [] else none) (hidx : d.get .index = none)
    (htmp : d.get .indexTmp = none)
    (hcas : ∀ g, d.get (.cas g) = none) (hst : ∀ t, d.get (.staging t) = none)
    (hstray : ∀ p, d.get (.stray p) = none) :
    ∃ sys hist, StoreDur H cfg.kind sz cfg.N { cfg := cfg } sys hist d (fun _ => none) 0 := by
  obtain ⟨sys, hist, live⟩ := storeLive_fresh H sz cfg so d hw hseg hidx hcas hst hstray
  refine ⟨sys, hist, live, ⟨?_, ?_, ?_⟩, ?_, hle, hsync⟩
  · intro i x hx
    have h1 := hseg i
    unfold segData at h1
    rw [hx] at h1
    have h2 := hle _ x hx
    by_cases c : i = 0
    · simp only [c, ↓reduceIte, Option.map_some, Option.some.injEq] at h1
      rw [h1] at h2 ⊢; simp at h2 ⊢; exact h2
    · simp [c] at h1
  · intro x hx; rw [hidx] at hx; cases hx
  · intro x hx; rw [htmp] at hx; cases hx
  · intro g x hx; rw [hcas g] at hx; cases hx

/-! ### completed operations keep the store durable -/

/-- the commit of one record keeps memory's configuration -/
theorem logAndApply_cfg (m : Mem) (d : Disk) (op : Op Bytes) (raw : RawOp) (evs : List Ev) (m' : Mem)
    (hla : logAndApply H m d op raw = .ok (evs, m')) : m'.cfg = m.cfg := by
  cases ha : applyOp m.cfg.kind.lt m.idx op with
  | error e => unfold logAndApply at hla; simp [ha] at hla
  | ok r =>
    obtain ⟨idx', unref⟩ := r
    obtain ⟨evs3, m3, hla3, ⟨_, _, hcfg, _, _⟩, _⟩ := logAndApply_spec H m d op raw idx' unref ha
    rw [hla] at hla3; injection hla3 with hla3; injection hla3 with _ e2; subst e2
    exact hcfg

/-- a live store stays durable along any disciplined script that creates or extends no blob file -/
theorem StoreDur.of_script (m m' : Mem) (sys sys' : Sys (KMap Bytes) Bytes) (hist hist' : Recs Bytes)
    (d : Disk) (spec spec' : Spec) (tn tn' : Nat) (ok : StoreDur H kind sz N m sys hist d spec tn)
    (evs : List Ev) (live' : StoreLive H kind sz N m' sys' hist' (d.applyAll evs) spec' tn')
    (hdisc : Disc evs) (hq : ∀ e ∈ evs, e.casQuiet = true) (hcfg : m'.cfg = m.cfg) :
    StoreDur H kind sz N m' sys' hist' (d.applyAll evs) spec' tn' :=
  ⟨live', dur_applyAll_disc _ d ok.live.sinv.wf ok.dur hdisc,
    casSynced_applyAll d ok.live.sinv.wf _ hq ok.cas, ok.le.applyAll d ok.live.sinv.wf _,
    by rw [hcfg]; exact ok.sync⟩

theorem removeScript_shape (m : Mem) (d : Disk) (key : Bytes) :
    Disc (removeScript H m d key).1 ∧ (∀ e ∈ (removeScript H m d key).1, e.casQuiet = true) ∧
    (removeScript H m d key).2.1.cfg = m.cfg := by
  unfold removeScript
  split
  · exact ⟨trivial, (by intro e he; cases he), rfl⟩
  · split
    · exact ⟨trivial, (by intro e he; cases he), rfl⟩
    · rename_i evs2 m2 hla
      exact ⟨logAndApply_disc H m d _ _ evs2 m2 hla, logAndApply_casQuiet H m d _ _ evs2 m2 hla,
        logAndApply_cfg H m d _ _ evs2 m2 hla⟩

theorem removeRangeScript_shape (m : Mem) (d : Disk) (lo hi : Bound) :
    Disc (removeRangeScript H m d lo hi).1 ∧
    (∀ e ∈ (removeRangeScript H m d lo hi).1, e.casQuiet = true) ∧
    (removeRangeScript H m d lo hi).2.1.cfg = m.cfg := by
  unfold removeRangeScript
  simp only
  by_cases he : (rangeKeys m lo hi).isEmpty = true
  · simp only [he, ↓reduceIte]
    exact ⟨trivial, (by intro e he; cases he), trivial⟩
  · simp only [he, Bool.false_eq_true, ↓reduceIte]
    split
    · exact ⟨trivial, (by intro e he; cases he), rfl⟩
    · rename_i evs2 m2 hla
      exact ⟨logAndApply_disc H m d _ _ evs2 m2 hla, logAndApply_casQuiet H m d _ _ evs2 m2 hla,
        logAndApply_cfg H m d _ _ evs2 m2 hla⟩

/-- **a completed remove keeps the store durable** -/
theorem StoreDur.remove (so : StrictOrder kind.lt) (hH : Hash32 H)
    (m : Mem) (sys : Sys (KMap Bytes) Bytes) (hist : Recs Bytes) (d : Disk) (spec : Spec) (tn : Nat)
    (ok : StoreDur H kind sz N m sys hist d spec tn) (key : Bytes) (hok : RemoveOK kind m key) :
    ∃ evs m' b sys' hist', removeScript H m d key = (evs, m', .ok b) ∧ b = (spec key).isSome ∧
      StoreDur H kind sz N m' sys' hist' (d.applyAll evs) (fun k => if k = key then none else spec k) tn := by
  obtain ⟨hraw, hval, hwf, hsave, hver⟩ := hok
  obtain ⟨evs, m', b, sys', hist', hrun, hb, live'⟩ := ok.live.remove H kind sz N so hH m sys hist d spec tn
    key hraw hval hwf hsave hver
  obtain ⟨h1, h2, h3⟩ := removeScript_shape H m d key
  rw [hrun] at h1 h2 h3
  exact ⟨evs, m', b, sys', hist', hrun, hb,
    ok.of_script H kind sz N m m' sys sys' hist hist' d spec _ tn tn evs live' h1 h2 h3⟩

/-- **a completed remove_range keeps the store durable** -/
theorem StoreDur.removeRange (so : StrictOrder kind.lt) (hH : Hash32 H)
    (m : Mem) (sys : Sys (KMap Bytes) Bytes) (hist : Recs Bytes) (d : Disk) (spec : Spec) (tn : Nat)
    (ok : StoreDur H kind sz N m sys hist d spec tn) (lo hi : Bound) (hok : RangeOK kind m lo hi) :
    ∃ evs m' n sys' hist', removeRangeScript H m d lo hi = (evs, m', .ok n) ∧
      n = (rangeKeys m lo hi).length ∧
      StoreDur H kind sz N m' sys' hist' (d.applyAll evs)
        (fun k => if inRange kind.lt lo hi k = true then none else spec k) tn := by
  obtain ⟨evs, m', n, sys', hist', hrun, hn, live'⟩ := ok.live.removeRange H kind sz N so hH m sys hist d
    spec tn lo hi hok
  obtain ⟨h1, h2, h3⟩ := removeRangeScript_shape H m d lo hi
  rw [hrun] at h1 h2 h3
  exact ⟨evs, m', n, sys', hist', hrun, hn,
    ok.of_script H kind sz N m m' sys sys' hist hist' d spec _ tn tn evs live' h1 h2 h3⟩

/-- **a completed checkpoint keeps the store durable** -/
theorem StoreDur.checkpoint (so : StrictOrder kind.lt)
    (m : Mem) (sys : Sys (KMap Bytes) Bytes) (hist : Recs Bytes) (d : Disk) (spec : Spec) (tn : Nat)
    (ok : StoreDur H kind sz N m sys hist d spec tn) (hsave : SaveOK kind m.idx) (hver : m.next < U64) :
    ∃ sys', StoreDur H kind sz N (checkpointScript .explicit m d).2 sys' hist
      (d.applyAll (checkpointScript .explicit m d).1) spec tn := by
  obtain ⟨sys', live'⟩ := ok.live.checkpoint H kind sz N so m sys hist d spec tn hsave hver
  have hq := checkpointScript_quiet .explicit m d
  exact ⟨sys', ok.of_script H kind sz N m _ sys sys' hist hist d spec spec tn tn _ live'
    (checkpointScript_disc .explicit m d) (fun e he => casQuiet_of_spares e (hq e he).1)
    (checkpointScript_map .explicit m d).2⟩

/-- **an abandoned transaction keeps the store durable** -/
theorem StoreDur.abandoned
    (m : Mem) (sys : Sys (KMap Bytes) Bytes) (hist : Recs Bytes) (d : Disk) (spec : Spec) (tn : Nat)
    (ok : StoreDur H kind sz N m sys hist d spec tn) (content : Bytes) :
    StoreDur H kind sz N m sys hist (d.applyAll (abandonedEvents tn content)) spec (tn + 1) := by
  have hb := abandoned_benign tn content
  refine ok.of_script H kind sz N m m sys sys hist hist d spec spec tn (tn + 1) _
    (ok.live.abandoned H kind sz N m sys hist d spec tn content) ?_
    (fun e he => casQuiet_of_spares e (hb e he).2.1) rfl
  apply disc_of_clean
  intro e he
  simp only [abandonedEvents, beginScript, abortScript, List.mem_append, List.mem_cons,
    List.not_mem_nil, or_false] at he
  rcases he with (rfl | rfl) | rfl <;> rfl

/-- **a clean restart in Sync mode keeps the store durable** -/
theorem StoreDur.reopen (so : StrictOrder kind.lt) (hH : Hash32 H) (P : Bytes → Prop) (hinj : Inj H sz P)
    (m : Mem) (sys : Sys (KMap Bytes) Bytes) (hist : Recs Bytes) (d : Disk) (spec : Spec) (tn : Nat)
    (ok : StoreDur H kind sz N m sys hist d spec tn) (hspecP : ∀ k c, spec k = some c → P c)
    (cfg : Config) (hk : cfg.kind = kind) (hn : cfg.N = N) (hsync : cfg.sync = true)
    (ho : OpenOK H kind cfg (d.applyAll (closeScript m))) :
    ∃ m2 sys2 sc, (openBody H cfg (d.applyAll (closeScript m))).2 = .ok (m2, sc) ∧
      StoreDur H kind sz N m2 sys2 hist ((d.applyAll (closeScript m)).applyAll
        (openBody H cfg (d.applyAll (closeScript m))).1) spec tn := by
  have hc := closeScript_benign m
  have hw := ok.live.sinv.wf
  have hpre : AllPre (LivePre H kind sz N [hist] [spec] tn) d (closeScript m) :=
    quiet_livePre H kind sz N m sys hist d spec tn ok.live _
      (allPre_free H kind sz N sys hist d ok.live.tied.cfg [hist] (by simp) _ (fun e he => (hc e he).1))
      (fun e he => (hc e he).2)
  have hdisc : Disc (closeScript m) := by
    apply disc_of_clean
    intro e he
    unfold closeScript at he
    split at he
    · simp only [List.mem_singleton] at he; subst he; rfl
    · cases he
  obtain ⟨m2, sys2, hist2, sc, spec2, r1, _, _, hh, hs, dur'⟩ := open_dur_of_pre H kind sz N so hH P hinj
    cfg hk hn hsync [hist] [spec] tn _ (allPre_last _ d _ hpre)
    (dur_applyAll_disc _ d hw ok.dur hdisc) (ok.le.applyAll d hw _)
    (casSynced_applyAll d hw _ (fun e he => casQuiet_of_spares e (hc e he).2.1) ok.cas)
    (by intro sx hsx; simp only [List.mem_singleton] at hsx; subst hsx; exact hspecP) ho
  simp only [List.mem_singleton] at hh hs
  subst hh hs
  exact ⟨m2, sys2, sc, r1, dur'⟩

/-! ### histories with power losses -/

theorem abandoned_disc (t : Nat) (content : Bytes) : Disc (abandonedEvents t content) := by
  apply disc_of_clean
  intro e he
  simp only [abandonedEvents, beginScript, abortScript, List.mem_append, List.mem_cons,
    List.not_mem_nil, or_false] at he
  rcases he with (rfl | rfl) | rfl <;> rfl

theorem abandoned_livePre (m : Mem) (sys : Sys (KMap Bytes) Bytes) (hist : Recs Bytes) (d : Disk)
    (spec : Spec) (tn : Nat) (ok : StoreLive H kind sz N m sys hist d spec tn) (content : Bytes) :
    AllPre (LivePre H kind sz N [hist] [spec] (tn + 1)) d (abandonedEvents tn content) :=
  fun j => (ok.abandonedPrefix H kind sz N m sys hist d spec tn content j).livePre H kind sz N _ _ _ _ _ _

/-- the six scripts with the facts a power-loss argument needs about them -/
structure ScriptOK (m : Mem) (sys : Sys (KMap Bytes) Bytes) (hist : Recs Bytes) (d : Disk)
    (hists : List (Recs Bytes)) (specs : List Spec) (tn' : Nat) (evs : List Ev) : Prop where
  disc : Disc evs
  pre : AllPre (LivePre H kind sz N hists specs tn') d evs
  cas : AllPre CasSynced d evs

theorem put_scriptOK (so : StrictOrder kind.lt) (hH : Hash32 H) (P : Bytes → Prop) (hinj : Inj H sz P)
    (m : Mem) (sys : Sys (KMap Bytes) Bytes) (hist : Recs Bytes) (d : Disk) (spec : Spec) (tn : Nat)
    (ok : StoreDur H kind sz N m sys hist d spec tn) (hspecP : ∀ k c, spec k = some c → P c)
    (key : Bytes) (chunks : List Bytes) (hok : PutOK H kind P m key chunks) :
    ScriptOK H kind sz N m sys hist d
      [hist, hist ++ [(m.next, serWalOp (.put key (H chunks.flatten) (chunks.map List.length).sum))]]
      [spec, fun k => if k = key then some chunks.flatten else spec k] (tn + 1)
      (putScript H m d tn key chunks).1 := by
  obtain ⟨evs, m', hrun, _⟩ := putScript_sinv H sz m d spec tn ok.live.sinv key chunks P hinj hok.1 hspecP
  refine ⟨putScript_disc H m d tn key chunks,
    put_livePre H kind sz N so hH P hinj m sys hist d spec tn ok.live hspecP key chunks hok, ?_⟩
  rw [hrun]
  exact put_casSynced H m d ok.live.sinv.wf tn (ok.live.sinv.fresh tn (Nat.le_refl _)) key chunks evs m' hrun
    ok.sync ok.cas

theorem remove_scriptOK (so : StrictOrder kind.lt) (hH : Hash32 H)
    (m : Mem) (sys : Sys (KMap Bytes) Bytes) (hist : Recs Bytes) (d : Disk) (spec : Spec) (tn : Nat)
    (ok : StoreDur H kind sz N m sys hist d spec tn) (key : Bytes) (hok : RemoveOK kind m key) :
    ScriptOK H kind sz N m sys hist d [hist, hist ++ [(m.next, serWalOp (.remove [key]))]]
      [spec, fun k => if k = key then none else spec k] tn (removeScript H m d key).1 :=
  ⟨(removeScript_shape H m d key).1, remove_livePre H kind sz N so hH m sys hist d spec tn ok.live key hok,
    casSynced_allPre d ok.live.sinv.wf _ (removeScript_shape H m d key).2.1 ok.cas⟩

theorem range_scriptOK (so : StrictOrder kind.lt) (hH : Hash32 H)
    (m : Mem) (sys : Sys (KMap Bytes) Bytes) (hist : Recs Bytes) (d : Disk) (spec : Spec) (tn : Nat)
    (ok : StoreDur H kind sz N m sys hist d spec tn) (lo hi : Bound) (hok : RangeOK kind m lo hi) :
    ScriptOK H kind sz N m sys hist d
      [hist, hist ++ [(m.next, serWalOp (.remove (rangeKeys m lo hi)))]]
      [spec, fun k => if inRange kind.lt lo hi k = true then none else spec k] tn
      (removeRangeScript H m d lo hi).1 :=
  ⟨(removeRangeScript_shape H m d lo hi).1,
    range_livePre H kind sz N so hH m sys hist d spec tn ok.live lo hi hok,
    casSynced_allPre d ok.live.sinv.wf _ (removeRangeScript_shape H m d lo hi).2.1 ok.cas⟩

theorem checkpoint_scriptOK (so : StrictOrder kind.lt)
    (m : Mem) (sys : Sys (KMap Bytes) Bytes) (hist : Recs Bytes) (d : Disk) (spec : Spec) (tn : Nat)
    (ok : StoreDur H kind sz N m sys hist d spec tn) (hsave : SaveOK kind m.idx) (hver : m.next < U64) :
    ScriptOK H kind sz N m sys hist d [hist] [spec] tn (checkpointScript .explicit m d).1 :=
  ⟨checkpointScript_disc .explicit m d,
    checkpoint_livePre H kind sz N so m sys hist d spec tn ok.live hsave hver,
    casSynced_allPre d ok.live.sinv.wf _
      (fun e he => casQuiet_of_spares e (checkpointScript_quiet .explicit m d e he).1) ok.cas⟩

theorem abandoned_scriptOK
    (m : Mem) (sys : Sys (KMap Bytes) Bytes) (hist : Recs Bytes) (d : Disk) (spec : Spec) (tn : Nat)
    (ok : StoreDur H kind sz N m sys hist d spec tn) (content : Bytes) :
    ScriptOK H kind sz N m sys hist d [hist] [spec] (tn + 1) (abandonedEvents tn content) :=
  ⟨abandoned_disc tn content, abandoned_livePre H kind sz N m sys hist d spec tn ok.live content,
    casSynced_allPre d ok.live.sinv.wf _
      (fun e he => casQuiet_of_spares e (abandoned_benign tn content e he).2.1) ok.cas⟩

theorem reopen_scriptOK (so : StrictOrder kind.lt) (hH : Hash32 H)
    (m : Mem) (sys : Sys (KMap Bytes) Bytes) (hist : Recs Bytes) (d : Disk) (spec : Spec) (tn : Nat)
    (ok : StoreDur H kind sz N m sys hist d spec tn)
    (cfg0 : Config) (hk0 : cfg0.kind = kind) (hn0 : cfg0.N = N) (ho0 : OpenOK H kind cfg0 (d.applyAll (closeScript m))) :
    ScriptOK H kind sz N m sys hist d [hist] [spec] tn
      (closeScript m ++ (openBody H cfg0 (d.applyAll (closeScript m))).1) := by
  have ⟨e0, pre0, hg0, hsv0⟩ := ho0
  have hc := closeScript_benign m
  have c1 := (ok.live.tied.cfg.toDCfg.freeAll H kind sz N sys hist d (closeScript m)
    (fun e he => (hc e he).1)).crash H kind sz N sys hist _
  obtain ⟨acc, hl, _⟩ :=
    open_sim_full H kind sz N so hH cfg0 hk0 hn0 _ hist _ c1 rfl e0 pre0 hg0 hsv0
  have hl' : logical H cfg0.kind ((d.applyAll (closeScript m)).applyAll e0) = .ok acc := by rw [hk0]; exact hl
  refine ⟨?_, reopen_livePre H kind sz N so hH m sys hist d spec tn ok.live cfg0 hk0 hn0 ho0,
    casSynced_allPre d ok.live.sinv.wf _ ?_ ok.cas⟩
  · apply disc_append
    · apply disc_of_clean
      intro e he
      unfold closeScript at he
      split at he
      · simp only [List.mem_singleton] at he; subst he; rfl
      · cases he
    · exact openBody_disc H cfg0 _ e0 pre0 acc hg0 hl'
  · intro e he
    rcases List.mem_append.mp he with he | he
    · exact casQuiet_of_spares e (hc e he).2.1
    · exact casQuiet_of_spares e (openBody_quiet H cfg0 _ e he).1

theorem sameView_settle (d : Disk) (hw : d.WF) : SameView d d.settle :=
  ⟨settle_WF d hw, fun i => settle_data d _, settle_data d _, fun g => settle_data d _, fun f => settle_isSome d f⟩

theorem casSynced_settle (d : Disk) : CasSynced d.settle := fun _ x hx => settle_synced d _ x hx

/-- **power loss with ANY choice of the files that lose their unsynced bytes**, at any cut of a
    disciplined script whose kill images satisfy `LivePre` and keep their blob files synced, then
    the machine comes back (`reboot`: what survived is on the disk) and `open` in Sync mode: a
    durable live store again — `StoreDur`, the hypothesis of every theorem of this file, so the
    guarantee holds for the next power loss as well, whatever that one takes. -/
theorem anyLoss_open_dur (so : StrictOrder kind.lt) (hH : Hash32 H) (P : Bytes → Prop)
    (hinj : Inj H sz P) (cfg : Config) (hk : cfg.kind = kind) (hn : cfg.N = N) (hsync : cfg.sync = true)
    (hists : List (Recs Bytes)) (specs : List Spec) (tn : Nat) (d : Disk) (hw : d.WF) (hd : Dur d)
    (evs : List Ev) (hdisc : Disc evs) (hpre : AllPre (LivePre H kind sz N hists specs tn) d evs)
    (hcs : AllPre CasSynced d evs) (hspecP : ∀ sx ∈ specs, ∀ k c, sx k = some c → P c)
    (j : Nat) (lose : FileId → Bool) (ho : OpenOK H kind cfg ((d.applyAll (evs.take j)).reboot lose)) :
    ∃ m2 sys2 hist2 sc spec2,
      (openBody H cfg ((d.applyAll (evs.take j)).reboot lose)).2 = .ok (m2, sc) ∧
      sc.missing = [] ∧ sc.corrupted = [] ∧ hist2 ∈ hists ∧ spec2 ∈ specs ∧
      StoreDur H kind sz N m2 sys2 hist2
        (((d.applyAll (evs.take j)).reboot lose).applyAll
          (openBody H cfg ((d.applyAll (evs.take j)).reboot lose)).1) spec2 tn := by
  have hwl : ((d.applyAll (evs.take j)).powerLoss lose).WF := powerLoss_WF _ _ (Disk.applyAll_WF d hw _)
  obtain ⟨hd', hle'⟩ := dur_settle ((d.applyAll (evs.take j)).powerLoss lose)
  exact open_dur_of_pre H kind sz N so hH P hinj cfg hk hn hsync hists specs tn _
    (LivePre.of_view H kind sz N _ _ _ _ _
      (powerLoss_allPre_gen _ (LivePre.of_view H kind sz N _ _ _) _ d hw hd hdisc hpre hcs j lose)
      (sameView_settle _ hwl))
    hd' hle' (casSynced_settle _) hspecP ho

/-- **power loss (any choice of files) at any cut of a script that is `ScriptOK`, reboot, `open` in
    Sync mode** -/
theorem StoreDur.lossOpen (so : StrictOrder kind.lt) (hH : Hash32 H) (P : Bytes → Prop)
    (hinj : Inj H sz P) (cfg : Config) (hk : cfg.kind = kind) (hn : cfg.N = N) (hsync : cfg.sync = true)
    (m : Mem) (sys : Sys (KMap Bytes) Bytes) (hist : Recs Bytes) (d : Disk) (spec : Spec) (tn : Nat)
    (ok : StoreDur H kind sz N m sys hist d spec tn)
    (hists : List (Recs Bytes)) (specs : List Spec) (tn' : Nat) (evs : List Ev)
    (s : ScriptOK H kind sz N m sys hist d hists specs tn' evs)
    (hspecP : ∀ sx ∈ specs, ∀ k c, sx k = some c → P c) (j : Nat) (lose : FileId → Bool)
    (ho : OpenOK H kind cfg ((d.applyAll (evs.take j)).reboot lose)) :
    ∃ m2 sys2 hist2 sc spec2,
      (openBody H cfg ((d.applyAll (evs.take j)).reboot lose)).2 = .ok (m2, sc) ∧
      spec2 ∈ specs ∧
      StoreDur H kind sz N m2 sys2 hist2
        (((d.applyAll (evs.take j)).reboot lose).applyAll
          (openBody H cfg ((d.applyAll (evs.take j)).reboot lose)).1) spec2 tn' := by
  obtain ⟨m2, sys2, hist2, sc, spec2, r1, _, _, _, hs, dur'⟩ := anyLoss_open_dur H kind sz N so hH P hinj
    cfg hk hn hsync hists specs tn' d ok.live.sinv.wf ok.dur evs s.disc s.pre s.cas hspecP j lose ho
  exact ⟨m2, sys2, hist2, sc, spec2, r1, hs, dur'⟩

/-- operations of a history in Sync mode: the completed ones, and each of them cut after `j` of
    its filesystem events by a power loss in which the files in `lose` — ANY choice — keep only
    their synced prefix, followed by the reboot and `open` -/
inductive DOp where
  | put (key : Bytes) (chunks : List Bytes)
  | remove (key : Bytes)
  | removeRange (lo hi : Bound)
  | checkpoint
  | reopen
  | abandon (content : Bytes)
  | putLoss (key : Bytes) (chunks : List Bytes) (j : Nat) (lose : FileId → Bool)
  | removeLoss (key : Bytes) (j : Nat) (lose : FileId → Bool)
  | rangeLoss (lo hi : Bound) (j : Nat) (lose : FileId → Bool)
  | checkpointLoss (j : Nat) (lose : FileId → Bool)
  | reopenLoss (j : Nat) (lose : FileId → Bool)
  | abandonLoss (content : Bytes) (j : Nat) (lose : FileId → Bool)

/-- the same operation with the power loss read as a kill — for `lStep` / `LReach`, which say what
    the operation may have done to the specification -/
def DOp.toL : DOp → LOp
  | .put k c => .put k c
  | .remove k => .remove k
  | .removeRange lo hi => .removeRange lo hi
  | .checkpoint => .checkpoint
  | .reopen => .reopen
  | .abandon c => .abandon c
  | .putLoss k c j _ => .putCrash k c j
  | .removeLoss k j _ => .removeCrash k j
  | .rangeLoss lo hi j _ => .removeRangeCrash lo hi j
  | .checkpointLoss j _ => .checkpointCrash j
  | .reopenLoss j _ => .reopenCrash j
  | .abandonLoss c j _ => .abandonCrash c j

/-- `open` on the image of a script cut at `j` by a power loss that takes the unsynced bytes of the
    files in `lose` -/
def lossOpen (cfg : Config) (d : Disk) (evs : List Ev) (j : Nat) (lose : FileId → Bool) :
    Except OpenErr (Mem × ScanOut) × Disk :=
  let img := (d.applyAll (evs.take j)).reboot lose
  ((openBody H cfg img).2, img.applyAll (openBody H cfg img).1)

def dRun (cfg : Config) : Mem → Disk → Nat → List DOp → Option (Mem × Disk × Nat)
  | m, d, tn, [] => some (m, d, tn)
  | m, d, tn, .put key chunks :: ops =>
    match putScript H m d tn key chunks with
    | (evs, m', .ok) => dRun cfg m' (d.applyAll evs) (tn + 1) ops
    | (_, _, .panic _) => none
  | m, d, tn, .remove key :: ops =>
    match removeScript H m d key with
    | (evs, m', .ok _) => dRun cfg m' (d.applyAll evs) tn ops
    | (_, _, .error _) => none
  | m, d, tn, .removeRange lo hi :: ops =>
    match removeRangeScript H m d lo hi with
    | (evs, m', .ok _) => dRun cfg m' (d.applyAll evs) tn ops
    | (_, _, .error _) => none
  | m, d, tn, .checkpoint :: ops =>
    dRun cfg (checkpointScript .explicit m d).2 (d.applyAll (checkpointScript .explicit m d).1) tn ops
  | m, d, tn, .reopen :: ops =>
    match (openBody H cfg (d.applyAll (closeScript m))).2 with
    | .ok (m2, _) =>
      dRun cfg m2 ((d.applyAll (closeScript m)).applyAll (openBody H cfg (d.applyAll (closeScript m))).1) tn ops
    | .error _ => none
  | m, d, tn, .abandon content :: ops =>
    dRun cfg m (d.applyAll (abandonedEvents tn content)) (tn + 1) ops
  | m, d, tn, .putLoss key chunks j lose :: ops =>
    match (lossOpen H cfg d (putScript H m d tn key chunks).1 j lose).1 with
    | .ok (m2, _) => dRun cfg m2 (lossOpen H cfg d (putScript H m d tn key chunks).1 j lose).2 (tn + 1) ops
    | .error _ => none
  | m, d, tn, .removeLoss key j lose :: ops =>
    match (lossOpen H cfg d (removeScript H m d key).1 j lose).1 with
    | .ok (m2, _) => dRun cfg m2 (lossOpen H cfg d (removeScript H m d key).1 j lose).2 tn ops
    | .error _ => none
  | m, d, tn, .rangeLoss lo hi j lose :: ops =>
    match (lossOpen H cfg d (removeRangeScript H m d lo hi).1 j lose).1 with
    | .ok (m2, _) => dRun cfg m2 (lossOpen H cfg d (removeRangeScript H m d lo hi).1 j lose).2 tn ops
    | .error _ => none
  | m, d, tn, .checkpointLoss j lose :: ops =>
    match (lossOpen H cfg d (checkpointScript .explicit m d).1 j lose).1 with
    | .ok (m2, _) => dRun cfg m2 (lossOpen H cfg d (checkpointScript .explicit m d).1 j lose).2 tn ops
    | .error _ => none
  | m, d, tn, .reopenLoss j lose :: ops =>
    match (lossOpen H cfg d (closeScript m ++ (openBody H cfg (d.applyAll (closeScript m))).1) j lose).1 with
    | .ok (m2, _) =>
      dRun cfg m2 (lossOpen H cfg d (closeScript m ++ (openBody H cfg (d.applyAll (closeScript m))).1) j lose).2 tn ops
    | .error _ => none
  | _, d, tn, .abandonLoss content j lose :: ops =>
    match (lossOpen H cfg d (abandonedEvents tn content) j lose).1 with
    | .ok (m2, _) => dRun cfg m2 (lossOpen H cfg d (abandonedEvents tn content) j lose).2 (tn + 1) ops
    | .error _ => none

/-- a settings file that passes the gate is found on the image -/
def GateOK (cfg : Config) (d : Disk) (evs : List Ev) (j : Nat) (lose : FileId → Bool) : Prop :=
  OpenOK H kind cfg ((d.applyAll (evs.take j)).reboot lose)

def DurOK (P : Bytes → Prop) (cfg : Config) : Mem → Disk → Nat → List DOp → Prop
  | _, _, _, [] => True
  | m, d, tn, .put key chunks :: ops =>
    PutOK H kind P m key chunks ∧
    ∀ evs m', putScript H m d tn key chunks = (evs, m', .ok) → DurOK P cfg m' (d.applyAll evs) (tn + 1) ops
  | m, d, tn, .remove key :: ops =>
    RemoveOK kind m key ∧
    ∀ evs m' b, removeScript H m d key = (evs, m', .ok b) → DurOK P cfg m' (d.applyAll evs) tn ops
  | m, d, tn, .removeRange lo hi :: ops =>
    RangeOK kind m lo hi ∧
    ∀ evs m' n, removeRangeScript H m d lo hi = (evs, m', .ok n) → DurOK P cfg m' (d.applyAll evs) tn ops
  | m, d, tn, .checkpoint :: ops =>
    (SaveOK kind m.idx ∧ m.next < U64) ∧
    DurOK P cfg (checkpointScript .explicit m d).2 (d.applyAll (checkpointScript .explicit m d).1) tn ops
  | m, d, tn, .reopen :: ops =>
    OpenOK H kind cfg (d.applyAll (closeScript m)) ∧
    ∀ m2 sc, (openBody H cfg (d.applyAll (closeScript m))).2 = .ok (m2, sc) →
      DurOK P cfg m2 ((d.applyAll (closeScript m)).applyAll
        (openBody H cfg (d.applyAll (closeScript m))).1) tn ops
  | m, d, tn, .abandon content :: ops =>
    DurOK P cfg m (d.applyAll (abandonedEvents tn content)) (tn + 1) ops
  | m, d, tn, .putLoss key chunks j lose :: ops =>
    PutOK H kind P m key chunks ∧ GateOK H kind cfg d (putScript H m d tn key chunks).1 j lose ∧
    ∀ m2 sc, (lossOpen H cfg d (putScript H m d tn key chunks).1 j lose).1 = .ok (m2, sc) →
      DurOK P cfg m2 (lossOpen H cfg d (putScript H m d tn key chunks).1 j lose).2 (tn + 1) ops
  | m, d, tn, .removeLoss key j lose :: ops =>
    RemoveOK kind m key ∧ GateOK H kind cfg d (removeScript H m d key).1 j lose ∧
    ∀ m2 sc, (lossOpen H cfg d (removeScript H m d key).1 j lose).1 = .ok (m2, sc) →
      DurOK P cfg m2 (lossOpen H cfg d (removeScript H m d key).1 j lose).2 tn ops
  | m, d, tn, .rangeLoss lo hi j lose :: ops =>
    RangeOK kind m lo hi ∧ GateOK H kind cfg d (removeRangeScript H m d lo hi).1 j lose ∧
    ∀ m2 sc, (lossOpen H cfg d (removeRangeScript H m d lo hi).1 j lose).1 = .ok (m2, sc) →
      DurOK P cfg m2 (lossOpen H cfg d (removeRangeScript H m d lo hi).1 j lose).2 tn ops
  | m, d, tn, .checkpointLoss j lose :: ops =>
    (SaveOK kind m.idx ∧ m.next < U64) ∧ GateOK H kind cfg d (checkpointScript .explicit m d).1 j lose ∧
    ∀ m2 sc, (lossOpen H cfg d (checkpointScript .explicit m d).1 j lose).1 = .ok (m2, sc) →
      DurOK P cfg m2 (lossOpen H cfg d (checkpointScript .explicit m d).1 j lose).2 tn ops
  | m, d, tn, .reopenLoss j lose :: ops =>
    OpenOK H kind cfg (d.applyAll (closeScript m)) ∧
    GateOK H kind cfg d (closeScript m ++ (openBody H cfg (d.applyAll (closeScript m))).1) j lose ∧
    ∀ m2 sc, (lossOpen H cfg d (closeScript m ++ (openBody H cfg (d.applyAll (closeScript m))).1) j lose).1 =
        .ok (m2, sc) →
      DurOK P cfg m2 (lossOpen H cfg d (closeScript m ++
        (openBody H cfg (d.applyAll (closeScript m))).1) j lose).2 tn ops
  | _, d, tn, .abandonLoss content j lose :: ops =>
    GateOK H kind cfg d (abandonedEvents tn content) j lose ∧
    ∀ m2 sc, (lossOpen H cfg d (abandonedEvents tn content) j lose).1 = .ok (m2, sc) →
      DurOK P cfg m2 (lossOpen H cfg d (abandonedEvents tn content) j lose).2 (tn + 1) ops

theorem specsP_single (P : Bytes → Prop) (spec : Spec) (h : ∀ k c, spec k = some c → P c) :
    ∀ sx ∈ [spec], ∀ k c, sx k = some c → P c := by
  intro sx hsx; simp only [List.mem_singleton] at hsx; subst hsx; exact h

theorem specsP_pair (P : Bytes → Prop) (s1 s2 : Spec) (h1 : ∀ k c, s1 k = some c → P c)
    (h2 : ∀ k c, s2 k = some c → P c) : ∀ sx ∈ [s1, s2], ∀ k c, sx k = some c → P c := by
  intro sx hsx
  simp only [List.mem_cons, List.not_mem_nil, or_false] at hsx
  rcases hsx with rfl | rfl
  · exact h1
  · exact h2

/-- **C09 over whole histories (Sync mode, contents included).**  Any sequence of puts, removes,
    range removals, checkpoints, clean restarts and abandoned transactions, and any of these cut
    after any number of filesystem events by a power loss (any choice of files losing their
    unsynced bytes, a different one each time) and followed by the reboot and `open`, started
    from a durable live store (e.g. a fresh one in Sync mode), runs to completion — every `open`
    returns a handle — and ends in a durable live store whose every key reads the content of a
    specification reachable by applying each completed operation and applying-or-not each
    interrupted one (`LReach` over `DOp.toL`). -/
theorem C09_histories_with_power_loss (so : StrictOrder kind.lt) (hH : Hash32 H) (P : Bytes → Prop)
    (hinj : Inj H sz P) (cfg : Config) (hk : cfg.kind = kind) (hn : cfg.N = N) (hsync : cfg.sync = true)
    (ops : List DOp) :
    ∀ (m : Mem) (sys : Sys (KMap Bytes) Bytes) (hist : Recs Bytes) (d : Disk) (spec : Spec) (tn : Nat),
    StoreDur H kind sz N m sys hist d spec tn → (∀ k c, spec k = some c → P c) →
    DurOK H kind P cfg m d tn ops →
    ∃ m' d' tn' sys' hist' spec', dRun H cfg m d tn ops = some (m', d', tn') ∧
      LReach kind spec (ops.map DOp.toL) spec' ∧
      StoreDur H kind sz N m' sys' hist' d' spec' tn' ∧
      ∀ k, getBlob m' d' k = match spec' k with
                             | none => .absent
                             | some c => .found c := by
  induction ops with
  | nil =>
    intro m sys hist d spec tn ok _ _
    exact ⟨m, d, tn, sys, hist, spec, rfl, rfl, ok, fun k => ok.live.sinv.read H sz m d spec tn k⟩
  | cons op ops ih =>
    intro m sys hist d spec tn ok hspecP hok
    cases op with
    | put key chunks =>
      obtain ⟨hpo, hnext⟩ := hok
      obtain ⟨evs, m1, sys1, hist1, hrun, ok1⟩ := ok.put H kind sz N so hH P hinj m sys hist d spec tn
        hspecP key chunks hpo
      obtain ⟨m', d', tn', sys', hist', spec', hr, hreach, okf, hread⟩ :=
        ih m1 sys1 hist1 _ _ (tn + 1) ok1 (specP_put P spec hspecP key _ hpo.1) (hnext evs m1 hrun)
      exact ⟨m', d', tn', sys', hist', spec', by simp only [dRun, hrun]; exact hr,
        ⟨_, rfl, hreach⟩, okf, hread⟩
    | remove key =>
      obtain ⟨hro, hnext⟩ := hok
      obtain ⟨evs, m1, b, sys1, hist1, hrun, _, ok1⟩ := ok.remove H kind sz N so hH m sys hist d spec tn
        key hro
      obtain ⟨m', d', tn', sys', hist', spec', hr, hreach, okf, hread⟩ :=
        ih m1 sys1 hist1 _ _ tn ok1 (specP_remove P spec hspecP key) (hnext evs m1 b hrun)
      exact ⟨m', d', tn', sys', hist', spec', by simp only [dRun, hrun]; exact hr,
        ⟨_, rfl, hreach⟩, okf, hread⟩
    | removeRange lo hi =>
      obtain ⟨hro, hnext⟩ := hok
      obtain ⟨evs, m1, n, sys1, hist1, hrun, _, ok1⟩ := ok.removeRange H kind sz N so hH m sys hist d spec tn
        lo hi hro
      obtain ⟨m', d', tn', sys', hist', spec', hr, hreach, okf, hread⟩ :=
        ih m1 sys1 hist1 _ _ tn ok1 (specP_range P spec hspecP _) (hnext evs m1 n hrun)
      exact ⟨m', d', tn', sys', hist', spec', by simp only [dRun, hrun]; exact hr,
        ⟨_, rfl, hreach⟩, okf, hread⟩
    | checkpoint =>
      obtain ⟨⟨hsv, hver⟩, hnext⟩ := hok
      obtain ⟨sys1, ok1⟩ := ok.checkpoint H kind sz N so m sys hist d spec tn hsv hver
      obtain ⟨m', d', tn', sys', hist', spec', hr, hreach, okf, hread⟩ :=
        ih _ sys1 hist _ _ tn ok1 hspecP hnext
      exact ⟨m', d', tn', sys', hist', spec', by simp only [dRun]; exact hr,
        ⟨_, rfl, hreach⟩, okf, hread⟩
    | reopen =>
      obtain ⟨ho, hnext⟩ := hok
      obtain ⟨m2, sys2, sc, hres, ok2⟩ := ok.reopen H kind sz N so hH P hinj m sys hist d spec tn
        hspecP cfg hk hn hsync ho
      obtain ⟨m', d', tn', sys', hist', spec', hr, hreach, okf, hread⟩ :=
        ih m2 sys2 hist _ _ tn ok2 hspecP (hnext m2 sc hres)
      exact ⟨m', d', tn', sys', hist', spec', by simp only [dRun, hres]; exact hr,
        ⟨_, rfl, hreach⟩, okf, hread⟩
    | abandon content =>
      have ok1 := ok.abandoned H kind sz N m sys hist d spec tn content
      obtain ⟨m', d', tn', sys', hist', spec', hr, hreach, okf, hread⟩ :=
        ih m sys hist _ _ (tn + 1) ok1 hspecP hok
      exact ⟨m', d', tn', sys', hist', spec', by simp only [dRun]; exact hr,
        ⟨_, rfl, hreach⟩, okf, hread⟩
    | putLoss key chunks j lose =>
      obtain ⟨hpo, ho, hnext⟩ := hok
      obtain ⟨m2, sys2, hist2, sc, spec2, hres, hs2, ok2⟩ := ok.lossOpen H kind sz N so hH P hinj cfg hk hn
        hsync m sys hist d spec tn _ _ _ _
        (put_scriptOK H kind sz N so hH P hinj m sys hist d spec tn ok hspecP key chunks hpo)
        (specsP_pair P _ _ hspecP (specP_put P spec hspecP key _ hpo.1)) j lose ho
      have hsp2 : ∀ k c, spec2 k = some c → P c :=
        specsP_pair P _ _ hspecP (specP_put P spec hspecP key _ hpo.1) spec2 hs2
      obtain ⟨m', d', tn', sys', hist', spec', hr, hreach, okf, hread⟩ :=
        ih m2 sys2 hist2 _ _ (tn + 1) ok2 hsp2 (hnext m2 sc hres)
      refine ⟨m', d', tn', sys', hist', spec', ?_, ⟨spec2, by simpa [DOp.toL, lStep] using hs2, hreach⟩,
        okf, hread⟩
      simp only [dRun]
      rw [show (lossOpen H cfg d (putScript H m d tn key chunks).1 j lose).1 = .ok (m2, sc) from hres]
      exact hr
    | removeLoss key j lose =>
      obtain ⟨hro, ho, hnext⟩ := hok
      obtain ⟨m2, sys2, hist2, sc, spec2, hres, hs2, ok2⟩ := ok.lossOpen H kind sz N so hH P hinj cfg hk hn
        hsync m sys hist d spec tn _ _ _ _
        (remove_scriptOK H kind sz N so hH m sys hist d spec tn ok key hro)
        (specsP_pair P _ _ hspecP (specP_remove P spec hspecP key)) j lose ho
      have hsp2 : ∀ k c, spec2 k = some c → P c :=
        specsP_pair P _ _ hspecP (specP_remove P spec hspecP key) spec2 hs2
      obtain ⟨m', d', tn', sys', hist', spec', hr, hreach, okf, hread⟩ :=
        ih m2 sys2 hist2 _ _ tn ok2 hsp2 (hnext m2 sc hres)
      refine ⟨m', d', tn', sys', hist', spec', ?_, ⟨spec2, by simpa [DOp.toL, lStep] using hs2, hreach⟩,
        okf, hread⟩
      simp only [dRun]
      rw [show (lossOpen H cfg d (removeScript H m d key).1 j lose).1 = .ok (m2, sc) from hres]
      exact hr
    | rangeLoss lo hi j lose =>
      obtain ⟨hro, ho, hnext⟩ := hok
      obtain ⟨m2, sys2, hist2, sc, spec2, hres, hs2, ok2⟩ := ok.lossOpen H kind sz N so hH P hinj cfg hk hn
        hsync m sys hist d spec tn _ _ _ _
        (range_scriptOK H kind sz N so hH m sys hist d spec tn ok lo hi hro)
        (specsP_pair P _ _ hspecP (specP_range P spec hspecP _)) j lose ho
      have hsp2 : ∀ k c, spec2 k = some c → P c :=
        specsP_pair P _ _ hspecP (specP_range P spec hspecP _) spec2 hs2
      obtain ⟨m', d', tn', sys', hist', spec', hr, hreach, okf, hread⟩ :=
        ih m2 sys2 hist2 _ _ tn ok2 hsp2 (hnext m2 sc hres)
      refine ⟨m', d', tn', sys', hist', spec', ?_, ⟨spec2, by simpa [DOp.toL, lStep] using hs2, hreach⟩,
        okf, hread⟩
      simp only [dRun]
      rw [show (lossOpen H cfg d (removeRangeScript H m d lo hi).1 j lose).1 = .ok (m2, sc) from hres]
      exact hr
    | checkpointLoss j lose =>
      obtain ⟨⟨hsv, hver⟩, ho, hnext⟩ := hok
      obtain ⟨m2, sys2, hist2, sc, spec2, hres, hs2, ok2⟩ := ok.lossOpen H kind sz N so hH P hinj cfg hk hn
        hsync m sys hist d spec tn _ _ _ _
        (checkpoint_scriptOK H kind sz N so m sys hist d spec tn ok hsv hver)
        (specsP_single P _ hspecP) j lose ho
      simp only [List.mem_singleton] at hs2; subst hs2
      obtain ⟨m', d', tn', sys', hist', spec', hr, hreach, okf, hread⟩ :=
        ih m2 sys2 hist2 _ _ tn ok2 hspecP (hnext m2 sc hres)
      refine ⟨m', d', tn', sys', hist', spec', ?_, ⟨_, rfl, hreach⟩, okf, hread⟩
      simp only [dRun]
      rw [show (lossOpen H cfg d (checkpointScript .explicit m d).1 j lose).1 = .ok (m2, sc) from hres]
      exact hr
    | reopenLoss j lose =>
      obtain ⟨ho0, ho, hnext⟩ := hok
      obtain ⟨m2, sys2, hist2, sc, spec2, hres, hs2, ok2⟩ := ok.lossOpen H kind sz N so hH P hinj cfg hk hn
        hsync m sys hist d spec tn _ _ _ _
        (reopen_scriptOK H kind sz N so hH m sys hist d spec tn ok cfg hk hn ho0)
        (specsP_single P _ hspecP) j lose ho
      simp only [List.mem_singleton] at hs2; subst hs2
      obtain ⟨m', d', tn', sys', hist', spec', hr, hreach, okf, hread⟩ :=
        ih m2 sys2 hist2 _ _ tn ok2 hspecP (hnext m2 sc hres)
      refine ⟨m', d', tn', sys', hist', spec', ?_, ⟨_, rfl, hreach⟩, okf, hread⟩
      simp only [dRun]
      rw [show (lossOpen H cfg d (closeScript m ++ (openBody H cfg (d.applyAll (closeScript m))).1) j lose).1 =
        .ok (m2, sc) from hres]
      exact hr
    | abandonLoss content j lose =>
      obtain ⟨ho, hnext⟩ := hok
      obtain ⟨m2, sys2, hist2, sc, spec2, hres, hs2, ok2⟩ := ok.lossOpen H kind sz N so hH P hinj cfg hk hn
        hsync m sys hist d spec tn _ _ _ _
        (abandoned_scriptOK H kind sz N m sys hist d spec tn ok content)
        (specsP_single P _ hspecP) j lose ho
      simp only [List.mem_singleton] at hs2; subst hs2
      obtain ⟨m', d', tn', sys', hist', spec', hr, hreach, okf, hread⟩ :=
        ih m2 sys2 hist2 _ _ (tn + 1) ok2 hspecP (hnext m2 sc hres)
      refine ⟨m', d', tn', sys', hist', spec', ?_, ⟨_, rfl, hreach⟩, okf, hread⟩
      simp only [dRun]
      rw [show (lossOpen H cfg d (abandonedEvents tn content) j lose).1 = .ok (m2, sc) from hres]
      exact hr

end CasModel
