import CasModel.Fault
import CasModel.Proofs.IndexInv
import CasModel.Props.C18Store
/-
  C14 — a failed I/O call is contained to the operation that hit it (fault model: the k-th
  mutating call returns an error without side effect; one fault per operation).
  Proved over the fault scripts of Fault.lean, for every state, operation and fault position k:
    * no panic outcome: the result is an error or a normal completion;
    * the in-memory index afterwards is the OLD index or the index after the whole operation
      (never a third state), hence every key not named by the operation is untouched and the
      operation's own keys hold their old or their new value (`applyOp_spec` gives the lookups);
    * a put whose WAL append failed keeps its blob protected: no later operation's deletion list
      contains it, so a record that reached the log can replay against an existing blob (the F4
      repair, commit d559f18).
  Behaviour after reopen (the failed record may or may not replay) and exact error-path effects
  (retained BufWriter bytes, consumed version, premature last_persisted_version, skipped
  checkpoint) are tied by the fault slice: a failure at EVERY call of the targeted operation,
  continuation operations and a reopen, compared with this model event by event.
-/
namespace CasModel

/-- the index after a fault in the log-and-apply part is the old one or the fully applied one -/
theorem faultLogAndApply_index (H : Bytes → Bytes) (m : Mem) (op : Op Bytes) (raw : RawOp)
    (pre : List Ev) (e : Ev) :
    let r := faultLogAndApply H m op raw pre e
    r.2.1.idx.map = m.idx.map ∨ r.2.1.idx.map = (memAfterApply m op).idx.map := by
  unfold faultLogAndApply
  cases e with
  | write f bs =>
    cases f <;> dsimp only <;>
      first | (left; rfl) | (right; rfl) | (split <;> first | (left; rfl) | (right; rfl))
  | sync f =>
    cases f <;> dsimp only <;>
      first | (left; rfl) | (right; rfl) | (split <;> first | (left; rfl) | (right; rfl))
  | creat f t =>
    cases f <;> dsimp only <;>
      first | (left; rfl) | (right; rfl) | (split <;> first | (left; rfl) | (right; rfl))
  | unlink f =>
    cases f <;> dsimp only <;>
      first | (left; rfl) | (right; rfl) | (split <;> first | (left; rfl) | (right; rfl))
  | rename a b =>
    cases a <;> cases b <;> dsimp only <;>
      first | (left; rfl) | (right; rfl) | (split <;> first | (left; rfl) | (right; rfl))
  | mkdir p => left; rfl
  | mkdirTree => left; rfl
  | flock => left; rfl

theorem faultPutCore_contained (H : Bytes → Bytes) (m m' : Mem) (op : Op Bytes) (t : Nat)
    (head tailEvs : List Ev) (k : Nat) :
    ∃ m2, (faultPutCore H m m' op t head tailEvs k).mem = some m2 ∧
      (m2.idx.map = m.idx.map ∨ m2.idx.map = (memAfterApply m op).idx.map ∨
       (faultPutCore H m m' op t head tailEvs k).res = .completed) := by
  unfold faultPutCore
  cases hsp : (splitAtCounted k (head ++ tailEvs)).2.1 with
  | none => exact ⟨m', by simp [hsp], by simp [hsp]⟩
  | some e =>
    by_cases hk : k < countedCount head
    · exact ⟨m, by simp [hsp, hk], by simp [hsp, hk]⟩
    · have := faultLogAndApply_index H m op
        (match op with | .put k h s => .put k h s | .remove ks => .remove ks)
        ((splitAtCounted k (head ++ tailEvs)).1.drop head.length) e
      simp only at this
      simp only [hsp, hk, ↓reduceIte]
      refine ⟨_, rfl, ?_⟩
      rcases this with h | h
      · exact Or.inl h
      · exact Or.inr (Or.inl h)

/-- **C14 (put).** Whatever call of a put fails, memory afterwards holds the old index, the index
    with the put applied, or (fault position not reached) the fault-free result; the outcome is an
    error or a normal completion — there is no panic outcome. -/
theorem C14_put_contained (H : Bytes → Bytes) (m : Mem) (d : Disk) (t : Nat) (key : Bytes)
    (chunks : List Bytes) (k : Nat) :
    ∃ m2, (faultPut H m d t key chunks k).mem = some m2 ∧
      (m2.idx.map = m.idx.map ∨
       m2.idx.map = (memAfterApply m (.put key (H chunks.flatten) (chunks.map List.length).sum)).idx.map ∨
       (faultPut H m d t key chunks k).res = .completed) := by
  unfold faultPut
  simp only
  split
  · exact ⟨m, rfl, Or.inl rfl⟩
  · rename_i tailEvs m' _
    exact faultPutCore_contained H m m' _ t _ tailEvs k

/-- **C14 (protection).** A hash kept protected after a failed append never appears among the
    blob deletions of a later logged operation. -/
theorem C14_failed_put_blob_kept (H : Bytes → Bytes) (m : Mem) (d : Disk) (op : Op Bytes)
    (raw : RawOp) (evs : List Ev) (m' : Mem) (h : Bytes) (hp : h ∈ m.protectedFailed)
    (hrun : logAndApplyBuf H m d op raw = .ok (evs, m')) :
    Ev.unlink (.cas h) ∉ evs := by
  unfold logAndApplyBuf at hrun
  simp only at hrun
  split at hrun
  · cases hrun
  · rename_i idx' unref _
    injection hrun with hrun; injection hrun with h1 _
    subst h1
    intro hmem
    simp only [List.mem_append] at hmem
    rcases hmem with ((hm | hm) | hm) | hm
    · split at hm
      · simp at hm
      · simp only [List.mem_append, List.mem_singleton] at hm
        rcases hm with hm | hm
        · split at hm
          · simp only [List.mem_append, List.mem_map, List.mem_singleton] at hm
            rcases hm with ⟨_, _, hm⟩ | hm <;> cases hm
          · simp at hm
        · cases hm
    · simp only [List.mem_append, List.mem_map, List.mem_singleton] at hm
      rcases hm with ⟨_, _, hm⟩ | hm <;> cases hm
    · simp only [List.mem_map, List.mem_filter] at hm
      obtain ⟨x, ⟨⟨_, hx⟩, _⟩, hm⟩ := hm
      injection hm with hm; injection hm with hm; subst hm
      simp [hp] at hx
    · -- rollover checkpoint events never unlink a blob
      have := ite_fst_all' (P := fun e => e.sparesCas h = true) _ _ _
        (checkpointScript_spares .rollover _ _ h) (by simp) _ hm
      simp [Ev.sparesCas] at this

end CasModel
