import CasModel.Props.C01Store
import CasModel.Proofs.ScriptSim
/-
  C07, sequential half, as a theorem over whole histories (event scripts of Store.lean):
  "nothing more" — after ANY sequential history of puts (any chunking, shared contents,
  overwrites) and removes, every file under cas/ is referenced by some key (`NoGarbage`) and no
  staging file is left (`NoStaging`).  Together with `runOps_sinv` (every referenced content has its
  file, with exactly its bytes; Props/C01Store) this is exactness: cas/ holds a file for a hash iff
  a key references it, exactly one file per distinct content.
  Argument: the only events of a commit that mention a cas/ path are the rename of the put's own
  blob (referenced by the put's key afterwards) and the unlinks of `delete_blobs`, which are issued
  for EXACTLY the hashes whose reference count dropped to zero (`StepOK.unref`) that have a file.
-/
namespace CasModel

/-- every blob file is referenced -/
def NoGarbage (m : Mem) (d : Disk) : Prop :=
  ∀ g x, d.get (.cas g) = some x → 0 < countHash m.idx.map g

def NoStaging (d : Disk) : Prop := ∀ t, d.get (.staging t) = none

theorem get_cas_unlinks (d : Disk) (hw : d.WF) (xs : List Bytes) (g : Bytes) :
    (d.applyAll (xs.map (fun h => Ev.unlink (.cas h)))).get (.cas g) =
      if g ∈ xs then none else d.get (.cas g) := by
  induction xs generalizing d with
  | nil => simp [Disk.applyAll]
  | cons x xs ih =>
    simp only [List.map_cons, Disk.applyAll_cons]
    rw [ih _ (Disk.apply_WF d hw _), Disk.get_unlink d hw]
    by_cases c1 : g ∈ xs
    · simp [c1]
    · by_cases c2 : g = x
      · subst c2; simp
      · have : ¬ FileId.cas g = FileId.cas x := by simpa using c2
        simp [c1, c2, this]

/-- the parts of a commit's script -/
theorem logAndApply_parts (H : Bytes → Bytes) (m : Mem) (d : Disk) (op : Op Bytes) (raw : RawOp)
    (idx' : IndexState Bytes) (unref : List Bytes)
    (ha : applyOp m.cfg.kind.lt m.idx op = .ok (idx', unref)) :
    let A := rollEvents m.active (segOf m.cfg.N m.next) ++
      [Ev.write (.seg (segOf m.cfg.N m.next)) (encodeEntry H ⟨m.next, serWalOp raw⟩),
       .sync (.seg (segOf m.cfg.N m.next))]
    let dels := (unref.filter (fun h => (d.applyAll A).has (.cas h))).map (fun h => Ev.unlink (.cas h))
    let m1 : Mem := { m with idx := idx', next := m.next + 1, active := some (segOf m.cfg.N m.next) }
    let ck := if (if m.next > 1 then segOf m.cfg.N (m.next - 1) else 0) ≠ segOf m.cfg.N m.next
              then checkpointScript .rollover m1 ((d.applyAll A).applyAll dels) else ([], m1)
    logAndApply H m d op raw = .ok (A ++ dels ++ ck.1, ck.2) := by
  unfold logAndApply
  simp only [ha]
  rfl

theorem rollEvents_spares (active : Option Nat) (t : Nat) (g : Bytes) :
    ∀ e ∈ rollEvents active t, e.sparesCas g = true := by
  intro e he
  unfold rollEvents at he
  split at he
  · cases he
  · simp only [List.mem_append, List.mem_singleton] at he
    rcases he with he | he
    · split at he
      · simp only [List.mem_cons, List.not_mem_nil, or_false] at he
        rcases he with rfl | rfl <;> rfl
      · cases he
    · subst he; rfl

/-- the blob files after a commit: those before, minus the ones whose last reference went away -/
theorem logAndApply_cas (H : Bytes → Bytes) (m : Mem) (d : Disk) (hw : d.WF) (op : Op Bytes)
    (raw : RawOp) (evs : List Ev) (m' : Mem) (h : logAndApply H m d op raw = .ok (evs, m')) :
    ∃ idx' unref, applyOp m.cfg.kind.lt m.idx op = .ok (idx', unref) ∧ m'.idx.map = idx'.map ∧
      ∀ g, (d.applyAll evs).get (.cas g) =
        if g ∈ unref ∧ d.has (.cas g) = true then none else d.get (.cas g) := by
  cases ha : applyOp m.cfg.kind.lt m.idx op with
  | error e => unfold logAndApply at h; simp [ha] at h
  | ok r =>
    obtain ⟨idx', unref⟩ := r
    have hp := logAndApply_parts H m d op raw idx' unref ha
    simp only at hp
    rw [hp] at h
    injection h with h; injection h with h1 h2
    refine ⟨idx', unref, rfl, ?_, ?_⟩
    · rw [← h2]
      by_cases hc : (if m.next > 1 then segOf m.cfg.N (m.next - 1) else 0) ≠ segOf m.cfg.N m.next
      · rw [if_pos hc]; exact (checkpointScript_mem _ _ _).1
      · rw [if_neg hc]
    · intro g
      rw [← h1]
      have hA : ∀ e ∈ rollEvents m.active (segOf m.cfg.N m.next) ++
          [Ev.write (.seg (segOf m.cfg.N m.next)) (encodeEntry H ⟨m.next, serWalOp raw⟩),
           .sync (.seg (segOf m.cfg.N m.next))], e.sparesCas g = true := by
        intro e he
        rcases List.mem_append.mp he with he | he
        · exact rollEvents_spares _ _ g e he
        · simp only [List.mem_cons, List.not_mem_nil, or_false] at he
          rcases he with rfl | rfl <;> rfl
      have hgetA : ∀ g', (d.applyAll (rollEvents m.active (segOf m.cfg.N m.next) ++
          [Ev.write (.seg (segOf m.cfg.N m.next)) (encodeEntry H ⟨m.next, serWalOp raw⟩),
           .sync (.seg (segOf m.cfg.N m.next))])).get (.cas g') = d.get (.cas g') := by
        intro g'
        apply sparesCas_frame_all d hw g'
        intro e he
        rcases List.mem_append.mp he with he | he
        · exact rollEvents_spares _ _ g' e he
        · simp only [List.mem_cons, List.not_mem_nil, or_false] at he
          rcases he with rfl | rfl <;> rfl
      have hhasA : ∀ g', (d.applyAll (rollEvents m.active (segOf m.cfg.N m.next) ++
          [Ev.write (.seg (segOf m.cfg.N m.next)) (encodeEntry H ⟨m.next, serWalOp raw⟩),
           .sync (.seg (segOf m.cfg.N m.next))])).has (.cas g') = d.has (.cas g') := by
        intro g'
        have := hgetA g'
        unfold Disk.has
        unfold Disk.get at this
        rw [this]
      rw [Disk.applyAll_append, Disk.applyAll_append]
      have hwA := Disk.applyAll_WF d hw (rollEvents m.active (segOf m.cfg.N m.next) ++
          [Ev.write (.seg (segOf m.cfg.N m.next)) (encodeEntry H ⟨m.next, serWalOp raw⟩),
           .sync (.seg (segOf m.cfg.N m.next))])
      have hC : ∀ e ∈ (if (if m.next > 1 then segOf m.cfg.N (m.next - 1) else 0) ≠ segOf m.cfg.N m.next
            then checkpointScript .rollover
              { m with idx := idx', next := m.next + 1, active := some (segOf m.cfg.N m.next) }
              ((d.applyAll (rollEvents m.active (segOf m.cfg.N m.next) ++
                [Ev.write (.seg (segOf m.cfg.N m.next)) (encodeEntry H ⟨m.next, serWalOp raw⟩),
                 .sync (.seg (segOf m.cfg.N m.next))])).applyAll
                ((unref.filter (fun h => (d.applyAll (rollEvents m.active (segOf m.cfg.N m.next) ++
                  [Ev.write (.seg (segOf m.cfg.N m.next)) (encodeEntry H ⟨m.next, serWalOp raw⟩),
                   .sync (.seg (segOf m.cfg.N m.next))])).has (.cas h))).map (fun h => Ev.unlink (.cas h))))
            else ([], { m with idx := idx', next := m.next + 1,
                               active := some (segOf m.cfg.N m.next) })).1, e.sparesCas g = true :=
        ite_fst_all' (P := fun e => e.sparesCas g = true) _ _ _
          (checkpointScript_spares .rollover _ _ g) (by simp)
      rw [sparesCas_frame_all _ (Disk.applyAll_WF _ hwA _) g _ hC, get_cas_unlinks _ hwA, hgetA g]
      simp only [List.mem_filter, hhasA]


/-- a commit leaves no garbage: if every blob file is referenced before OR after the operation
    (the put's own blob is already in place when the commit starts), every blob file is referenced
    afterwards — the files whose last reference went away are exactly the ones unlinked -/
theorem logAndApply_nogarbage (H : Bytes → Bytes) (sz : Bytes → Nat) (m : Mem) (d : Disk)
    (hw : d.WF) (so : StrictOrder m.cfg.kind.lt) (inv : IdxInv m.cfg.kind.lt sz m.idx)
    (op : Op Bytes) (hop : OpOK sz op) (raw : RawOp) (evs : List Ev) (m' : Mem)
    (h : logAndApply H m d op raw = .ok (evs, m'))
    (hpre : ∀ g x, d.get (.cas g) = some x → 0 < countHash m.idx.map g ∨
      ∀ idx' un, applyOp m.cfg.kind.lt m.idx op = .ok (idx', un) → 0 < countHash idx'.map g) :
    NoGarbage m' (d.applyAll evs) := by
  obtain ⟨idx', unref, ha, hm', hget⟩ := logAndApply_cas H m d hw op raw evs m' h
  obtain ⟨idx2, un2, ha2, ok, _⟩ := applyOp_spec so sz m.idx inv op hop
  rw [ha] at ha2
  injection ha2 with ha2; injection ha2 with e1 e2
  subst e1 e2
  intro g x hx
  rw [hm']
  rw [hget g] at hx
  by_cases hc : g ∈ unref ∧ d.has (.cas g) = true
  · simp [hc] at hx
  · simp only [hc, ↓reduceIte] at hx
    rcases hpre g x hx with hb | hb
    · -- referenced before: still referenced, or it would have been unlinked
      by_cases hz : countHash idx'.map g = 0
      · exfalso
        apply hc
        refine ⟨(ok.unref g).mpr ⟨hb, hz⟩, ?_⟩
        unfold Disk.has; unfold Disk.get at hx; rw [hx]; rfl
      · omega
    · exact hb idx' unref ha

theorem putScript_split (H : Bytes → Bytes) (m : Mem) (d : Disk) (tn : Nat) (key : Bytes)
    (chunks : List Bytes) (evs : List Ev) (m' : Mem)
    (h : putScript H m d tn key chunks = (evs, m', .ok)) :
    ∃ evs2, logAndApply H m (d.applyAll (beginScript tn ++ ([Ev.write (.staging tn) chunks.flatten] ++
          (if m.cfg.sync then [Ev.sync (.staging tn)] else [])) ++
          (if m.preCreated then [] else mkdirsFor (d.applyAll (beginScript tn)) (H chunks.flatten)) ++
          [Ev.rename (.staging tn) (.cas (H chunks.flatten))]))
        (.put key (H chunks.flatten) (chunks.map List.length).sum)
        (.put key (H chunks.flatten) (chunks.map List.length).sum) = .ok (evs2, m') ∧
      evs = (beginScript tn ++ ([Ev.write (.staging tn) chunks.flatten] ++
          (if m.cfg.sync then [Ev.sync (.staging tn)] else [])) ++
          (if m.preCreated then [] else mkdirsFor (d.applyAll (beginScript tn)) (H chunks.flatten)) ++
          [Ev.rename (.staging tn) (.cas (H chunks.flatten))]) ++ evs2 := by
  simp only [putScript, finishScript] at h
  have hd : (d.applyAll (beginScript tn)).applyAll
      ([Ev.write (.staging tn) chunks.flatten] ++ (if m.cfg.sync then [Ev.sync (.staging tn)] else []) ++
        (if m.preCreated then [] else mkdirsFor (d.applyAll (beginScript tn)) (H chunks.flatten)) ++
        [Ev.rename (.staging tn) (.cas (H chunks.flatten))]) =
      d.applyAll (beginScript tn ++ ([Ev.write (.staging tn) chunks.flatten] ++
          (if m.cfg.sync then [Ev.sync (.staging tn)] else [])) ++
          (if m.preCreated then [] else mkdirsFor (d.applyAll (beginScript tn)) (H chunks.flatten)) ++
          [Ev.rename (.staging tn) (.cas (H chunks.flatten))]) := by
    simp only [Disk.applyAll_append, List.append_assoc]
  rw [hd] at h
  cases hla : logAndApply H m (d.applyAll (beginScript tn ++ ([Ev.write (.staging tn) chunks.flatten] ++
          (if m.cfg.sync then [Ev.sync (.staging tn)] else [])) ++
          (if m.preCreated then [] else mkdirsFor (d.applyAll (beginScript tn)) (H chunks.flatten)) ++
          [Ev.rename (.staging tn) (.cas (H chunks.flatten))]))
        (.put key (H chunks.flatten) (chunks.map List.length).sum)
        (.put key (H chunks.flatten) (chunks.map List.length).sum) with
  | error p => rw [hla] at h; simp at h
  | ok r =>
    obtain ⟨evs2, m2⟩ := r
    rw [hla] at h
    simp only [Prod.mk.injEq] at h
    obtain ⟨h1, h2, _⟩ := h
    subst h2
    exact ⟨evs2, rfl, by rw [← h1]; simp only [List.append_assoc]⟩


/-- the blob-side events of a put spare every cas path but the put's own, and every staging file
    but the put's own -/
theorem putHead_spares (m : Mem) (d : Disk) (tn : Nat) (h : Bytes) (content : Bytes) :
    ∀ e ∈ (beginScript tn ++ ([Ev.write (.staging tn) content] ++
          (if m.cfg.sync then [Ev.sync (.staging tn)] else [])) ++
          (if m.preCreated then [] else mkdirsFor (d.applyAll (beginScript tn)) h) ++
          [Ev.rename (.staging tn) (.cas h)]),
      (∀ g, g ≠ h → e.touches (.cas g) = false) ∧ (∀ t, t ≠ tn → e.touches (.staging t) = false) := by
  intro e he
  simp only [beginScript, List.mem_append, List.mem_cons, List.not_mem_nil, or_false] at he
  have hst : ∀ t, t ≠ tn → (FileId.staging tn == FileId.staging t) = false := by
    intro t ht; simp; exact fun c => ht c.symm
  rcases he with ((he | he | he) | he) | he
  · subst he; exact ⟨fun _ _ => rfl, fun t ht => by simp [Ev.touches, hst t ht]⟩
  · subst he; exact ⟨fun _ _ => rfl, fun t ht => by simp [Ev.touches, hst t ht]⟩
  · split at he
    · simp only [List.mem_singleton] at he; subst he
      exact ⟨fun _ _ => rfl, fun t ht => by simp [Ev.touches, hst t ht]⟩
    · cases he
  · split at he
    · cases he
    · unfold mkdirsFor at he
      split at he
      · simp only [List.mem_append] at he
        rcases he with he | he <;> (split at he <;> simp at he <;> subst he <;>
          exact ⟨fun _ _ => rfl, fun _ _ => rfl⟩)
      · cases he
  · subst he
    refine ⟨fun g hg => ?_, fun t ht => ?_⟩
    · have : (FileId.cas h == FileId.cas g) = false := by simp; exact fun c => hg c.symm
      simp [Ev.touches, this]
    · simp [Ev.touches, hst t ht]

/-- **put keeps exactness**: no unreferenced blob file, no staging file -/
theorem putScript_exact (H : Bytes → Bytes) (sz : Bytes → Nat) (m : Mem) (d : Disk) (spec : Spec)
    (tn : Nat) (inv : SInv H sz m d spec tn) (ng : NoGarbage m d) (ns : NoStaging d)
    (key : Bytes) (chunks : List Bytes) (hsz : sz (H chunks.flatten) = chunks.flatten.length)
    (evs : List Ev) (m' : Mem) (hrun : putScript H m d tn key chunks = (evs, m', .ok)) :
    NoGarbage m' (d.applyAll evs) ∧ NoStaging (d.applyAll evs) := by
  obtain ⟨evs2, hla, hevs⟩ := putScript_split H m d tn key chunks evs m' hrun
  subst hevs
  have hsp := putHead_spares m d tn (H chunks.flatten) chunks.flatten
  generalize hpre : (beginScript tn ++ ([Ev.write (.staging tn) chunks.flatten] ++
          (if m.cfg.sync then [Ev.sync (.staging tn)] else [])) ++
          (if m.preCreated then [] else mkdirsFor (d.applyAll (beginScript tn)) (H chunks.flatten)) ++
          [Ev.rename (.staging tn) (.cas (H chunks.flatten))]) = pre at hla hsp ⊢
  have hwp := Disk.applyAll_WF d inv.wf pre
  have hlen : (chunks.map List.length).sum = chunks.flatten.length := by rw [List.length_flatten]
  rw [Disk.applyAll_append]
  have hop : OpOK sz (Op.put key (H chunks.flatten) (chunks.map List.length).sum) := by
    show _ = _; rw [hlen, hsz]
  constructor
  · apply logAndApply_nogarbage H sz m _ hwp inv.so inv.idx _ hop _ evs2 m' hla
    intro g x hx
    by_cases hg : g = H chunks.flatten
    · -- the put's own blob: referenced by its key afterwards
      right
      intro idx' un ha
      obtain ⟨idx2, un2, ha2, _, hl⟩ := applyOp_spec inv.so sz m.idx inv.idx
        (.put key (H chunks.flatten) (chunks.map List.length).sum) hop
      rw [ha] at ha2; injection ha2 with ha2; injection ha2 with e1 _
      subst e1
      have := hl key
      simp only [specApply, ↓reduceIte] at this
      rw [hg]
      exact countHash_pos_of_lookup this
    · left
      rw [get_untouched_all d inv.wf _ pre (fun e he => (hsp e he).1 g hg)] at hx
      exact ng g x hx
  · intro t
    rw [get_untouched_all _ hwp _ evs2 (logAndApply_staging H m _ _ _ evs2 m' hla t)]
    by_cases ht : t = tn
    · -- the put's own staging file was renamed away
      subst ht
      rw [← hpre]
      rw [Disk.applyAll_append, Disk.applyAll_cons, Disk.applyAll_nil,
        Disk.get_rename _ (Disk.applyAll_WF d inv.wf _)]
      split
      · rename_i hn; exact hn
      · have : ¬ FileId.staging t = FileId.cas (H chunks.flatten) := by simp
        simp [this]
    · rw [get_untouched_all d inv.wf _ pre (fun e he => (hsp e he).2 t ht)]
      exact ns t

/-- **remove keeps exactness** -/
theorem removeScript_exact (H : Bytes → Bytes) (sz : Bytes → Nat) (m : Mem) (d : Disk) (spec : Spec)
    (tn : Nat) (inv : SInv H sz m d spec tn) (ng : NoGarbage m d) (ns : NoStaging d) (key : Bytes)
    (evs : List Ev) (m' : Mem) (b : Bool) (hrun : removeScript H m d key = (evs, m', .ok b)) :
    NoGarbage m' (d.applyAll evs) ∧ NoStaging (d.applyAll evs) := by
  unfold removeScript at hrun
  split at hrun
  · simp only [Prod.mk.injEq] at hrun
    obtain ⟨h1, h2, _⟩ := hrun
    subst h1 h2
    exact ⟨ng, ns⟩
  · split at hrun
    · simp at hrun
    · rename_i evs2 m2 hla
      simp only [Prod.mk.injEq] at hrun
      obtain ⟨h1, h2, _⟩ := hrun
      subst h1 h2
      constructor
      · exact logAndApply_nogarbage H sz m d inv.wf inv.so inv.idx (.remove [key]) trivial _ _ _ hla
          (fun g x hx => Or.inl (ng g x hx))
      · intro t
        rw [get_untouched_all d inv.wf _ _ (logAndApply_staging H m d _ _ _ _ hla t)]
        exact ns t

/-- **C07 (sequential, every history): exact space reclamation.**  After any history of puts and
    removes on a store that satisfies the invariants (e.g. an empty one): the store invariant of
    C01 holds (every key reads its content, every referenced content has its file), every file
    under cas/ is referenced by some key, and no staging file is left. -/
theorem C07_sequential_exact (H : Bytes → Bytes) (sz : Bytes → Nat) (P : Bytes → Prop)
    (hinj : Inj H sz P) (ops : List SOp) (hops : ∀ op ∈ ops, ∀ c, op.content = some c → P c)
    (m : Mem) (d : Disk) (spec : Spec) (tn : Nat) (inv : SInv H sz m d spec tn)
    (ng : NoGarbage m d) (ns : NoStaging d) (hspecP : ∀ k c, spec k = some c → P c) :
    ∃ m' d' tn', runOps H m d tn ops = some (m', d', tn') ∧
      SInv H sz m' d' (ops.foldl specStep spec) tn' ∧ NoGarbage m' d' ∧ NoStaging d' := by
  induction ops generalizing m d spec tn with
  | nil => exact ⟨m, d, tn, rfl, inv, ng, ns⟩
  | cons op ops ih =>
    cases op with
    | put key chunks =>
      have hP : P chunks.flatten := hops (.put key chunks) (by simp) _ rfl
      obtain ⟨evs, m1, hrun, inv1⟩ := putScript_sinv H sz m d spec tn inv key chunks P hinj hP hspecP
      obtain ⟨ng1, ns1⟩ := putScript_exact H sz m d spec tn inv ng ns key chunks (hinj.2 _ hP) evs m1 hrun
      have hsp1 : ∀ k c, (fun k => if k = key then some chunks.flatten else spec k) k = some c → P c := by
        intro k c hc
        simp only at hc
        by_cases ck : k = key
        · simp only [ck, ↓reduceIte, Option.some.injEq] at hc; rw [← hc]; exact hP
        · simp only [ck, ↓reduceIte] at hc; exact hspecP k c hc
      obtain ⟨m', d', tn', hr, hi, hg, hs⟩ :=
        ih (fun op ho => hops op (by simp [ho])) m1 _ _ (tn + 1) inv1 ng1 ns1 hsp1
      exact ⟨m', d', tn', by simp only [runOps, hrun]; exact hr,
        by simpa [List.foldl, specStep] using hi, hg, hs⟩
    | remove key =>
      obtain ⟨b, hres, _, inv1⟩ := removeScript_sinv H sz m d spec tn inv key
      generalize hrs : removeScript H m d key = r at hres inv1
      obtain ⟨evs, m1, res⟩ := r
      simp only at hres inv1
      subst hres
      obtain ⟨ng1, ns1⟩ := removeScript_exact H sz m d spec tn inv ng ns key evs m1 b hrs
      have hsp1 : ∀ k c, (fun k => if k = key then none else spec k) k = some c → P c := by
        intro k c hc
        simp only at hc
        by_cases ck : k = key
        · simp [ck] at hc
        · simp only [ck, ↓reduceIte] at hc; exact hspecP k c hc
      obtain ⟨m', d', tn', hr, hi, hg, hs⟩ :=
        ih (fun op ho => hops op (by simp [ho])) _ _ _ tn inv1 ng1 ns1 hsp1
      exact ⟨m', d', tn', by simp only [runOps, hrs]; exact hr,
        by simpa [List.foldl, specStep] using hi, hg, hs⟩

/-- the empty store has no garbage (non-vacuity) -/
example (cfg : Config) : NoGarbage { cfg := cfg } {} ∧ NoStaging {} :=
  ⟨by intro g x hx; simp [Disk.get, fget] at hx, by intro t; rfl⟩

end CasModel
