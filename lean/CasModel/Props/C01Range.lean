import CasModel.Props.C01Store
/-
  C01 for `remove_range` and range iteration: the keys scanned are exactly the keys of the index
  that lie within the bounds, in ascending key order (`rangeKeys` is the model of
  `BTreeMap::range` over the encoded keys), and after `remove_range` exactly those keys are
  absent, every other key keeps its entry, and the returned count is the number of keys removed.
-/
namespace CasModel

theorem mem_rangeKeys (m : Mem) (so : StrictOrder m.cfg.kind.lt) (hs : Sorted m.cfg.kind.lt m.idx.map)
    (lo hi : Bound) (k : Bytes) :
    k ∈ rangeKeys m lo hi ↔ (kLookup m.idx.map k).isSome = true ∧ inRange m.cfg.kind.lt lo hi k = true := by
  unfold rangeKeys
  simp only [List.mem_map, List.mem_filter]
  constructor
  · rintro ⟨⟨k', item⟩, ⟨hmem, hin⟩, rfl⟩
    exact ⟨by rw [mem_kLookup so hs hmem]; rfl, hin⟩
  · rintro ⟨hl, hin⟩
    cases hk : kLookup m.idx.map k with
    | none => rw [hk] at hl; cases hl
    | some item => exact ⟨(k, item), ⟨kLookup_mem hk, hin⟩, rfl⟩

/-- the scan is in ascending key order (the order `BTreeMap::range` yields) -/
theorem rangeKeys_sorted (m : Mem) (hs : Sorted m.cfg.kind.lt m.idx.map) (lo hi : Bound) :
    (rangeKeys m lo hi).Pairwise (fun a b => m.cfg.kind.lt a b = true) := by
  unfold rangeKeys
  rw [List.pairwise_map]
  exact List.Pairwise.sublist List.filter_sublist hs

/-- **remove_range**: exactly the keys within the bounds disappear; the count is their number -/
theorem C01_remove_range_spec (H : Bytes → Bytes) (sz : Bytes → Nat) (m : Mem) (d : Disk)
    (so : StrictOrder m.cfg.kind.lt) (inv : IdxInv m.cfg.kind.lt sz m.idx) (lo hi : Bound) :
    ∃ evs m' n, removeRangeScript H m d lo hi = (evs, m', .ok n) ∧
      n = (rangeKeys m lo hi).length ∧
      ∀ k, kLookup m'.idx.map k =
        if inRange m.cfg.kind.lt lo hi k = true then none else kLookup m.idx.map k := by
  unfold removeRangeScript
  by_cases he : (rangeKeys m lo hi).isEmpty = true
  · simp only [he, ↓reduceIte]
    refine ⟨[], m, 0, rfl, by simp [List.isEmpty_iff.mp he], ?_⟩
    intro k
    by_cases hin : inRange m.cfg.kind.lt lo hi k = true
    · simp only [hin, ↓reduceIte]
      cases hk : kLookup m.idx.map k with
      | none => rfl
      | some item =>
        exfalso
        have : k ∈ rangeKeys m lo hi := (mem_rangeKeys m so inv.sorted lo hi k).mpr ⟨by rw [hk]; rfl, hin⟩
        rw [List.isEmpty_iff.mp he] at this; cases this
    · simp [hin]
  · simp only [he, Bool.false_eq_true, ↓reduceIte]
    obtain ⟨idx', unref, happ, _, hl⟩ := applyOp_spec so sz m.idx inv (.remove (rangeKeys m lo hi)) trivial
    obtain ⟨evs, m', hla, ⟨hm, _⟩, _⟩ := logAndApply_spec H m d (.remove (rangeKeys m lo hi))
      (.remove (rangeKeys m lo hi)) idx' unref happ
    rw [hla]
    refine ⟨evs, m', _, rfl, rfl, ?_⟩
    intro k
    rw [hm, hl k]
    simp only [specApply]
    by_cases hin : inRange m.cfg.kind.lt lo hi k = true
    · simp only [hin, ↓reduceIte]
      by_cases hk : k ∈ rangeKeys m lo hi
      · simp [hk]
      · simp only [hk, ↓reduceIte]
        cases hq : kLookup m.idx.map k with
        | none => rfl
        | some item =>
          exfalso; exact hk ((mem_rangeKeys m so inv.sorted lo hi k).mpr ⟨by rw [hq]; rfl, hin⟩)
    · have hk : k ∉ rangeKeys m lo hi := fun c => hin ((mem_rangeKeys m so inv.sorted lo hi k).mp c).2
      simp [hin, hk]

end CasModel
