import CasModel.Proofs.KeyOrder
import CasModel.Props.C03Store
import CasModel.Props.C09Store
import CasModel.Props.C01Store
import CasModel.Props.C12
import CasModel.Props.C01
/-
  Closed forms: the headline theorems with the key-order hypothesis DISCHARGED by
  `keyOrder_strict` (the order of every key kind — byte strings, strings, fixed arrays, unsigned and
  signed integers of every width — is a strict total order on all encodings).  What remains assumed
  about keys is only that Rust's `Ord` on the key type agrees with `KeyKind.lt` on the encodings
  (exercised for all 13 key types by the correspondence slices).
-/
namespace CasModel
open Ghost

/-- C01/C12 for every key kind: any history of consistent operations applies without panic, the
    key map refines the plain ordered map, refcounts and statistics are exact -/
theorem C01_C12_all_kinds (kind : KeyKind) (sz : Bytes → Nat) (ops : List (Op Bytes))
    (hops : ∀ op ∈ ops, OpOK sz op) :
    ∃ s, applyAll kind.lt ({} : IndexState Bytes) ops = .ok s ∧
      (∀ k, kLookup s.map k = specAll (fun _ => none) ops k) ∧ Sorted kind.lt s.map := by
  obtain ⟨s, a, b, c, _⟩ := C01_index_refines_map (keyOrder_strict kind) sz ops hops
  exact ⟨s, a, b, c⟩

/-- C03 (bytes) for every key kind -/
theorem C03_commit_crash_atomic_all_kinds (H : Bytes → Bytes) (kind : KeyKind) (sz : Bytes → Nat)
    (N : Nat) (hH : Hash32 H) (m : Mem)
    (sys : Sys (KMap Bytes) Bytes) (hist : Recs Bytes) (d : Disk)
    (t : Tied H kind sz N m sys hist d) (op : Op Bytes) (raw : RawOp)
    (hraw : raw.WF) (hconv : fromRaw kind raw = some op) (hop : OpOK sz op)
    (hwf : (⟨m.next, serWalOp raw⟩ : Rec).WF)
    (hsave : ∀ idx' un, applyOp kind.lt m.idx op = .ok (idx', un) → SaveOK kind idx')
    (hver : m.next + 1 < U64) :
    ∃ evs m', logAndApply H m d op raw = .ok (evs, m') ∧
      (∀ j, ∃ a, logical H kind (d.applyAll (evs.take j)) = .ok a ∧ IdxInv kind.lt sz a.idx ∧
        (a.idx.map = m.idx.map ∨ a.idx.map = mapApply kind.lt m.idx.map op)) := by
  obtain ⟨evs, m', h1, h2, _⟩ := C03_commit_crash_atomic_bytes H kind sz N (keyOrder_strict kind) hH m sys
    hist d t op raw hraw hconv hop hwf hsave hver
  exact ⟨evs, m', h1, h2⟩

/-- C09 (bytes) for every key kind -/
theorem C09_commit_power_loss_all_kinds (H : Bytes → Bytes) (kind : KeyKind) (sz : Bytes → Nat)
    (N : Nat) (hH : Hash32 H) (m : Mem)
    (sys : Sys (KMap Bytes) Bytes) (hist : Recs Bytes) (d : Disk)
    (t : Tied H kind sz N m sys hist d) (hdur : Dur d) (op : Op Bytes) (raw : RawOp)
    (hraw : raw.WF) (hconv : fromRaw kind raw = some op) (hop : OpOK sz op)
    (hwf : (⟨m.next, serWalOp raw⟩ : Rec).WF)
    (hsave : ∀ idx' un, applyOp kind.lt m.idx op = .ok (idx', un) → SaveOK kind idx')
    (hver : m.next + 1 < U64) :
    ∃ evs m', logAndApply H m d op raw = .ok (evs, m') ∧
      (∀ j lose, ∃ a, logical H kind ((d.applyAll (evs.take j)).powerLoss lose) = .ok a ∧
        IdxInv kind.lt sz a.idx ∧
        (a.idx.map = m.idx.map ∨ a.idx.map = mapApply kind.lt m.idx.map op)) := by
  obtain ⟨evs, m', h1, h2, _⟩ := C09_commit_power_loss_bytes H kind sz N (keyOrder_strict kind) hH m sys
    hist d t hdur op raw hraw hconv hop hwf hsave hver
  exact ⟨evs, m', h1, h2⟩

/-- the empty store of any configuration satisfies the sequential store invariant -/
theorem sinv_empty_all_kinds (H : Bytes → Bytes) (sz : Bytes → Nat) (cfg : Config) :
    SInv H sz { cfg := cfg } {} (fun _ => none) 0 :=
  sinv_empty H sz cfg (keyOrder_strict cfg.kind)

end CasModel
