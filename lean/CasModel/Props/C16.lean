import CasModel.Proofs.CodecLemmas
/-
  C16 — Codecs round-trip; decoders are total.
  Totality is by construction (every decoder is a total Lean function into `Except`; the model
  has no `panic` outcome because the Rust decoders use only checked slicing); the content below
  is the round-trip laws under the explicit `as u32`/u64 guards, and the allocation bounds.
-/
namespace CasModel

/-- wal-op round trip, with any trailing bytes (decoders do not demand full consumption) -/
theorem C16_walop_roundtrip (op : RawOp) (h : op.WF) (tail : Bytes) :
    deserWalOp (serWalOp op ++ tail) = .ok op := by
  cases op with
  | put k hsh s =>
    obtain ⟨hk, hh, hs⟩ := h
    simp [serWalOp, deserWalOp, readU8, List.append_assoc, readLenBytes_serKey _ _ hk,
      takeBytes_append' 32 _ _ hh, Nat.mod_eq_of_lt hs]
  | remove ks =>
    obtain ⟨hn, hks⟩ := h
    simp [serWalOp, deserWalOp, readU8, List.append_assoc, Nat.mod_eq_of_lt hn,
      readKeys_serKeys _ _ hks]

/-- snapshot round trip -/
theorem C16_index_roundtrip (es : List Entry) (ver : Nat) (hv : ver < U64)
    (hn : es.length < U32) (h : ∀ e ∈ es, EntryWF e) (tail : Bytes) :
    deserIndex (serIndex es ver ++ tail) = .ok (es, ver) := by
  simp [serIndex, deserIndex, List.append_assoc, Nat.mod_eq_of_lt hv, Nat.mod_eq_of_lt hn,
    readEntries_serEntries _ _ h]

/-! ### allocation bounds: every decoder copies at most what it has checked to be present -/

theorem takeBytes_len {n : Nat} {bs a r : Bytes} (h : takeBytes n bs = .ok (a, r)) :
    a.length = n ∧ a.length + r.length = bs.length := by
  unfold takeBytes at h
  split at h
  · injection h with h; injection h with h1 h2; subst h1 h2; simp; omega
  · cases h

theorem readLenBytes_len {bs k r : Bytes} (h : readLenBytes bs = .ok (k, r)) :
    k.length + r.length + 4 = bs.length := by
  unfold readLenBytes readU32 at h
  split at h
  · cases h
  · rename_i n r1 heq
    split at heq
    · cases heq
    · rename_i hd tl h4
      injection heq with heq; injection heq with e1 e2; subst e1 e2
      have := takeBytes_len h4
      have := takeBytes_len h
      omega

/-- total size of the keys copied by the Remove decoder, and their number, are bounded by the
    input (each key costs its 4-byte length prefix) -/
theorem readKeys_bound {n : Nat} {bs r : Bytes} {ks : List Bytes}
    (h : readKeys n bs = .ok (ks, r)) :
    ks.length = n ∧ (ks.map List.length).sum + 4 * ks.length + r.length = bs.length := by
  induction n generalizing bs ks with
  | zero => simp [readKeys] at h; obtain ⟨rfl, rfl⟩ := h; simp
  | succ n ih =>
    simp only [readKeys] at h
    split at h
    · cases h
    · rename_i k r1 hk
      split at h
      · cases h
      · rename_i ks' r' hks
        injection h with h; injection h with e1 e2; subst e1 e2
        have := readLenBytes_len hk
        have := ih hks
        simp; omega

theorem C16_alloc_bound_walop (bs : Bytes) (ks : List Bytes)
    (h : deserWalOp bs = .ok (.remove ks)) :
    (ks.map List.length).sum + 4 * ks.length + 5 ≤ bs.length := by
  unfold deserWalOp readU8 at h
  split at h
  · cases h
  · rename_i tag r htag
    split at htag
    · cases htag
    · injection htag with htag; injection htag with e1 e2; subst e1 e2
      split at h
      · repeat (split at h <;> try cases h)
      · split at h
        · unfold readU32 at h
          split at h
          · cases h
          · rename_i n r1 hn
            split at hn
            · cases hn
            · rename_i hd tl h4
              injection hn with hn; injection hn with e1 e2; subst e1 e2
              split at h
              · cases h
              · rename_i ks' r' hks
                injection h with h; injection h with h; subst h
                have := readKeys_bound hks
                have := takeBytes_len h4
                simp at *; omega
        · cases h

theorem C16_alloc_bound_put (bs k hsh : Bytes) (s : Nat)
    (h : deserWalOp bs = .ok (.put k hsh s)) :
    k.length + 45 ≤ bs.length ∧ hsh.length = 32 ∧ s < U64 := by
  unfold deserWalOp readU8 at h
  split at h
  · cases h
  · rename_i tag r htag
    split at htag
    · cases htag
    · injection htag with htag; injection htag with e1 e2; subst e1 e2
      split at h
      · split at h
        · cases h
        · rename_i k' r1 hk
          split at h
          · cases h
          · rename_i h' r2 hh
            unfold readU64 at h
            split at h
            · cases h
            · rename_i s' r3 hs
              split at hs
              · cases hs
              · rename_i hd tl h8
                injection hs with hs; injection hs with e1 e2; subst e1 e2
                injection h with h; injection h with e1 e2 e3; subst e1 e2 e3
                have a1 := readLenBytes_len hk
                have a2 := takeBytes_len hh
                have a3 := takeBytes_len h8
                have a4 := leNat_lt hd
                refine ⟨by simp at *; omega, by omega, ?_⟩
                rw [a3.1] at a4; exact a4
      · split at h
        · repeat (split at h <;> try cases h)
        · cases h

theorem readEntries_bound {n : Nat} {bs r : Bytes} {es : List Entry}
    (h : readEntries n bs = .ok (es, r)) :
    es.length = n ∧ (es.map (·.key.length)).sum + 44 * es.length + r.length = bs.length
      ∧ ∀ e ∈ es, e.hash.length = 32 ∧ e.size < U64 := by
  induction n generalizing bs es with
  | zero => simp [readEntries] at h; obtain ⟨rfl, rfl⟩ := h; simp
  | succ n ih =>
    simp only [readEntries] at h
    split at h
    · cases h
    · rename_i k r1 hk
      split at h
      · cases h
      · rename_i h' r2 hh
        unfold readU64 at h
        split at h
        · cases h
        · rename_i s r3 hs
          split at hs
          · cases hs
          · rename_i hd tl h8
            injection hs with hs; injection hs with e1 e2; subst e1 e2
            split at h
            · cases h
            · rename_i es' r' hes
              injection h with h; injection h with e1 e2; subst e1 e2
              have := readLenBytes_len hk
              have h32 := takeBytes_len hh
              have h88 := takeBytes_len h8
              have hlt := leNat_lt hd
              obtain ⟨i1, i2, i3⟩ := ih hes
              refine ⟨by simp [i1], by simp at *; omega, ?_⟩
              intro e he
              simp at he
              rcases he with rfl | he
              · refine ⟨h32.1, ?_⟩
                simp only; rw [h88.1] at hlt; exact hlt
              · exact i3 e he

/-- snapshot decoder: number of entries ≤ input/44, key bytes copied ≤ input -/
theorem C16_alloc_bound_index (bs : Bytes) (es : List Entry) (ver : Nat)
    (h : deserIndex bs = .ok (es, ver)) :
    (es.map (·.key.length)).sum + 44 * es.length + 12 ≤ bs.length ∧ ver < U64 := by
  unfold deserIndex readU64 readU32 at h
  split at h
  · cases h
  · rename_i ver' r hv
    split at hv
    · cases hv
    · rename_i hd tl h8
      injection hv with hv; injection hv with e1 e2; subst e1 e2
      split at h
      · cases h
      · rename_i n r1 hn
        split at hn
        · cases hn
        · rename_i hd4 tl4 h4
          injection hn with hn; injection hn with e1 e2; subst e1 e2
          split at h
          · cases h
          · rename_i es' r' hes
            injection h with h; injection h with e1 e2; subst e1 e2
            have := readEntries_bound hes
            have a := takeBytes_len h8
            have b := takeBytes_len h4
            have hlt := leNat_lt hd
            refine ⟨by omega, ?_⟩
            rw [a.1] at hlt; exact hlt

/-! ### non-vacuity -/
example : (RawOp.put [1,2] (List.replicate 32 7) 5).WF := by
  refine ⟨by simp [KeyWF, U32], by simp, by simp [U64]⟩
example : deserWalOp (serWalOp (.remove [[1],[],[2,3]])) = .ok (.remove [[1],[],[2,3]]) := by
  rfl

end CasModel
