import CasModel.Props.C03Store
/-
  C03 over whole histories (one handle lifetime): a sequence of logged operations (puts, removes,
  range removes, in any order and number) is executed by the event scripts one after the other;
  kill the process after ANY number of completed operations and ANY number of filesystem events
  of the next one — recovery returns the key map after the completed operations, or that map with
  the interrupted operation applied, and nothing else.
  (Restarts inside a history: every completed `open` re-establishes `Tied`, `open_sim`, so the same
  statement holds again from there; nested crashes: `C03_nested_crash_bytes`.)
-/
namespace CasModel
open Ghost

variable (H : Bytes → Bytes) (kind : KeyKind) (sz : Bytes → Nat) (N : Nat)

/-- side conditions of a history, checked against the evolving state: every operation encodes
    (`RawOp.WF`, keys decode), is size-consistent, fits a record, and the states it produces can
    be saved -/
def SessOK : Mem → Disk → List (Op Bytes × RawOp) → Prop
  | _, _, [] => True
  | m, d, (op, raw) :: rest =>
    raw.WF ∧ fromRaw kind raw = some op ∧ OpOK sz op ∧ (⟨m.next, serWalOp raw⟩ : Rec).WF ∧
    (∀ idx' un, applyOp kind.lt m.idx op = .ok (idx', un) → SaveOK kind idx') ∧ m.next + 1 < U64 ∧
    ∀ evs m', logAndApply H m d op raw = .ok (evs, m') → SessOK m' (d.applyAll evs) rest

/-- the key map after a list of operations -/
def mapAfter (m : KMap Bytes) (ops : List (Op Bytes × RawOp)) : KMap Bytes :=
  ops.foldl (fun acc o => mapApply kind.lt acc o.1) m

/-- **C03 (bytes, histories).** -/
theorem C03_history_crash_atomic_bytes (so : StrictOrder kind.lt) (hH : Hash32 H)
    (ops : List (Op Bytes × RawOp)) :
    ∀ (m : Mem) (sys : Sys (KMap Bytes) Bytes) (hist : Recs Bytes) (d : Disk),
    Tied H kind sz N m sys hist d → SessOK H kind sz m d ops →
    ∀ (i : Nat) (hi : i < ops.length),
      -- the state reached after the first `i` operations exists …
      ∃ (mi : Mem) (di : Disk) (evs : List Ev) (m' : Mem),
        mi.idx.map = mapAfter kind m.idx.map (ops.take i) ∧
        logAndApply H mi di (ops[i]).1 (ops[i]).2 = .ok (evs, m') ∧
        -- … and every cut of operation `i` recovers to "i done" or "i+1 done"
        ∀ j, ∃ a, logical H kind (di.applyAll (evs.take j)) = .ok a ∧ IdxInv kind.lt sz a.idx ∧
          (a.idx.map = mapAfter kind m.idx.map (ops.take i) ∨
           a.idx.map = mapAfter kind m.idx.map (ops.take (i + 1))) := by
  induction ops with
  | nil => intro m sys hist d _ _ i hi; cases hi
  | cons o rest ih =>
    intro m sys hist d t hok i hi
    obtain ⟨op, raw⟩ := o
    obtain ⟨h1, h2, h3, h4, h5, h6, hrest⟩ := hok
    obtain ⟨evs, m', hrun, hcut, hmap, sys', t'⟩ :=
      C03_commit_crash_atomic_bytes H kind sz N so hH m sys hist d t op raw h1 h2 h3 h4 h5 h6
    cases i with
    | zero =>
      refine ⟨m, d, evs, m', rfl, hrun, ?_⟩
      intro j
      obtain ⟨a, a1, a2, a3⟩ := hcut j
      exact ⟨a, a1, a2, by simpa [mapAfter] using a3⟩
    | succ i =>
      obtain ⟨mi, di, evsi, mi', b1, b2, b3⟩ := ih m' sys' _ _ t' (hrest evs m' hrun) i
        (by simpa using hi)
      refine ⟨mi, di, evsi, mi', ?_, b2, ?_⟩
      · rw [b1, hmap]; simp [mapAfter]
      · intro j
        obtain ⟨a, a1, a2, a3⟩ := b3 j
        refine ⟨a, a1, a2, ?_⟩
        rw [hmap] at a3
        simpa [mapAfter] using a3

end CasModel
