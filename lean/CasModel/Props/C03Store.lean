import CasModel.Proofs.OpenSim
import CasModel.Proofs.OpenOK
/-
  C03 / C02 / C20 at the level of BYTES and FILESYSTEM EVENTS (Store.lean's scripts, the functions
  the driver executes and the correspondence compares with the real store, syscall by syscall).

  Quantifiers: every store state tied to a machine state (`Tied`: established by `tied_fresh` for
  a newly created store and re-established by every operation below, so by induction for every
  state reachable from creation through logged operations and checkpoints within one handle
  lifetime), every operation, EVERY cut position `j` in the operation's script — a process kill
  between any two successful filesystem calls — every segment size N, key kind (under the key
  order's laws) and hash function with 32-byte output.

  What is proved here on top of the record-level theorems of Props/C03: the record-level machine
  is not only a mirror of the manager's logic — the byte-level scripts ARE machine runs (event by
  event), segment files decode to the machine's segments (framing, sentinel), the index file loads
  to the machine's snapshot (serialise / re-insert / refcount rebuild), and the recovery function
  `logical` computes the machine's `recover` without reaching a panic site.
  `open` itself is covered too (Proofs/OpenSim): from the image left by ANY cut, open reads the old
  or the new key map, every prefix of open's own script (settings, segment creation, after-replay
  checkpoint) is again recoverable to the same history — a crash during recovery, to any nesting
  depth — and a completed open leaves memory and disk tied, so the induction continues through
  restarts. Not covered here: the integrity gate on blobs at the end of open (C04/C08), power loss
  (C09) and failed calls (C14), which have their own files; the lock/settings prologue (C11/C19).
-/
namespace CasModel
open Ghost

variable (H : Bytes → Bytes) (kind : KeyKind) (sz : Bytes → Nat) (N : Nat)

/-- **C03 (bytes): a logged operation is all-or-nothing under a kill at any filesystem call.**
    For a put / remove / remove_range commit started in a tied state with key map `M`:
    the script runs without panic; after its first `j` events, for EVERY `j`, recovery (`logical`)
    succeeds, returns a state in the index invariant whose key map is `M` or `M` with exactly this
    operation applied — never anything else — and a next version above everything logged;
    after the whole script memory holds `M` with the operation applied and is tied again. -/
theorem C03_commit_crash_atomic_bytes (so : StrictOrder kind.lt) (hH : Hash32 H) (m : Mem)
    (sys : Sys (KMap Bytes) Bytes) (hist : Recs Bytes) (d : Disk)
    (t : Tied H kind sz N m sys hist d) (op : Op Bytes) (raw : RawOp)
    (hraw : raw.WF) (hconv : fromRaw kind raw = some op) (hop : OpOK sz op)
    (hwf : (⟨m.next, serWalOp raw⟩ : Rec).WF)
    (hsave : ∀ idx' un, applyOp kind.lt m.idx op = .ok (idx', un) → SaveOK kind idx')
    (hver : m.next + 1 < U64) :
    ∃ evs m', logAndApply H m d op raw = .ok (evs, m') ∧
      (∀ j, ∃ a, logical H kind (d.applyAll (evs.take j)) = .ok a ∧ IdxInv kind.lt sz a.idx ∧
        (a.idx.map = m.idx.map ∨ a.idx.map = mapApply kind.lt m.idx.map op)) ∧
      m'.idx.map = mapApply kind.lt m.idx.map op ∧
      ∃ sys', Tied H kind sz N m' sys' (hist ++ [(m.next, serWalOp raw)]) (d.applyAll evs) := by
  obtain ⟨evs, m', hrun, hpre, sys', t'⟩ :=
    logAndApply_sim H kind sz N so hH m sys hist d t op raw hraw hconv hop hwf hsave hver
  have hM := t.mem_eq H kind sz N
  have hM' := t'.mem_eq H kind sz N
  have hstep : stepM kind m.idx.map (serWalOp raw) = .ok (mapApply kind.lt m.idx.map op) := by
    have := C16_walop_roundtrip raw hraw []
    rw [List.append_nil] at this
    simp [stepM, this, hconv]
  have hrun2 : run (stepM kind) [] (hist ++ [(m.next, serWalOp raw)]) =
      .ok (mapApply kind.lt m.idx.map op) := by
    rw [run_append, hM]
    simp [run, hstep]
  refine ⟨evs, m', hrun, ?_, ?_, sys', t'⟩
  · intro j
    obtain ⟨sysj, histj, hmem, cj⟩ := hpre j
    obtain ⟨a, h1, h2, h3, _⟩ := cj.recovers H hH kind so sz N sysj histj _
    refine ⟨a, h1, h3, ?_⟩
    simp only [List.mem_cons, List.mem_singleton, List.not_mem_nil, or_false] at hmem
    rcases hmem with e | e
    · subst e; rw [hM] at h2; injection h2 with h2; exact Or.inl h2.symm
    · subst e; rw [hrun2] at h2; injection h2 with h2; exact Or.inr h2.symm
  · rw [hrun2] at hM'
    injection hM' with hM'
    exact hM'.symm

/-- **C03 (bytes): a checkpoint changes no logical state, wherever it is cut.** After every prefix
    of a checkpoint's script (building index.tmp, the rename over the index file, each segment
    unlink) recovery succeeds with exactly the key map memory holds; afterwards the store is tied
    again, with the same history. -/
theorem C03_checkpoint_crash_safe_bytes (so : StrictOrder kind.lt) (hH : Hash32 H)
    (reason : CkptReason) (m : Mem) (sys : Sys (KMap Bytes) Bytes) (hist : Recs Bytes)
    (d dAny : Disk) (t : Tied H kind sz N m sys hist d) (hsave : SaveOK kind m.idx)
    (hver : m.next < U64) :
    (∀ j, ∃ a, logical H kind (d.applyAll ((checkpointScript reason m dAny).1.take j)) = .ok a ∧
        IdxInv kind.lt sz a.idx ∧ a.idx.map = m.idx.map) ∧
    (checkpointScript reason m dAny).2.idx.map = m.idx.map ∧
    ∃ sys', Tied H kind sz N (checkpointScript reason m dAny).2 sys' hist
      (d.applyAll (checkpointScript reason m dAny).1) := by
  obtain ⟨hpre, sys', t'⟩ := checkpoint_sim H kind sz N so reason m sys hist d dAny t hsave hver
    [hist] (by simp)
  have hM := t.mem_eq H kind sz N
  have hM' := t'.mem_eq H kind sz N
  refine ⟨?_, ?_, sys', t'⟩
  · intro j
    obtain ⟨sysj, histj, hmem, cj⟩ := hpre j
    obtain ⟨a, h1, h2, h3, _⟩ := cj.recovers H hH kind so sz N sysj histj _
    simp only [List.mem_singleton] at hmem
    subst hmem
    rw [hM] at h2; injection h2 with h2
    exact ⟨a, h1, h3, h2.symm⟩
  · rw [hM] at hM'
    injection hM' with hM'
    exact hM'.symm

/-- **C20 (bytes).** After every prefix of a commit's script the files are well formed in the
    sense recovery needs: segment files decode — in id order — to exactly the machine's segments,
    each record sits in segment `(version-1)/N`, versions in the logged history are strictly
    increasing, the index file loads to the state after the records up to its version, and every
    logged record above that version is present, in order. -/
theorem C20_commit_wellformed_bytes (so : StrictOrder kind.lt) (hH : Hash32 H) (m : Mem)
    (sys : Sys (KMap Bytes) Bytes) (hist : Recs Bytes) (d : Disk)
    (t : Tied H kind sz N m sys hist d) (op : Op Bytes) (raw : RawOp)
    (hraw : raw.WF) (hconv : fromRaw kind raw = some op) (hop : OpOK sz op)
    (hwf : (⟨m.next, serWalOp raw⟩ : Rec).WF)
    (hsave : ∀ idx' un, applyOp kind.lt m.idx op = .ok (idx', un) → SaveOK kind idx')
    (hver : m.next + 1 < U64) :
    ∃ evs m', logAndApply H m d op raw = .ok (evs, m') ∧
      ∀ j, ∃ (g : GDisk (KMap Bytes) Bytes) (hist' : Recs Bytes) (s : IndexState Bytes),
        (hist' = hist ∨ hist' = hist ++ [(m.next, serWalOp raw)]) ∧
        segsOf H (d.applyAll (evs.take j)) (segIds (d.applyAll (evs.take j))) = some g.segs ∧
        loadSnapshot kind (d.applyAll (evs.take j)) = .ok s ∧ s.map = g.snapState ∧
        s.lastPersisted = g.snapVer ∧
        Incr hist' ∧ SegSorted g.segs ∧ (∀ sg ∈ g.segs, ∀ e ∈ sg.2, Ghost.segOf N e.1 = sg.1) ∧
        run (stepM kind) [] (upto g.snapVer hist') = .ok g.snapState ∧
        above g.snapVer (flat g.segs) = above g.snapVer hist' := by
  obtain ⟨evs, m', hrun, hpre, _⟩ :=
    logAndApply_sim H kind sz N so hH m sys hist d t op raw hraw hconv hop hwf hsave hver
  refine ⟨evs, m', hrun, ?_⟩
  intro j
  obtain ⟨sysj, histj, hmem, cj⟩ := hpre j
  obtain ⟨s, hl, hm, hv, _⟩ := cj.rel.snap
  refine ⟨sysj.g, histj, s, ?_, segRel_abs H hH _ cj.rel.wf _ cj.rel.segs, hl, hm, hv,
    cj.good.ginv.incr, cj.good.sorted, cj.good.placed, cj.good.ginv.snap, cj.good.ginv.recs⟩
  simpa using hmem

/-- **C03 (bytes): kill a commit anywhere, kill the recovery anywhere, recover.** Cut the commit's
    script at any position `j`; run `open` on that image and cut ITS script at any position `j2`;
    run `open` again, to completion: it succeeds in reading the log, its memory holds `M` or `M`
    with the operation applied (the same alternative the first recovery saw is not required —
    only that nothing else is possible), and memory and disk are tied again, so every theorem of
    this file applies to what follows. -/
theorem C03_nested_crash_bytes (so : StrictOrder kind.lt) (hH : Hash32 H) (m : Mem)
    (sys : Sys (KMap Bytes) Bytes) (hist : Recs Bytes) (d : Disk)
    (t : Tied H kind sz N m sys hist d) (op : Op Bytes) (raw : RawOp)
    (hraw : raw.WF) (hconv : fromRaw kind raw = some op) (hop : OpOK sz op)
    (hwf : (⟨m.next, serWalOp raw⟩ : Rec).WF)
    (hsave : ∀ idx' un, applyOp kind.lt m.idx op = .ok (idx', un) → SaveOK kind idx')
    (hver : m.next + 1 < U64)
    (cfg : Config) (hk : cfg.kind = kind) (hn : cfg.N = N)
    (j j2 : Nat) :
    ∃ evs m', logAndApply H m d op raw = .ok (evs, m') ∧
      (OpenOK H kind cfg (d.applyAll (evs.take j)) →
      OpenOK H kind cfg ((d.applyAll (evs.take j)).applyAll
          ((openBody H cfg (d.applyAll (evs.take j))).1.take j2)) →
      ∃ m2 sys2 hist2, (∀ m' sc, (openBody H cfg ((d.applyAll (evs.take j)).applyAll
            ((openBody H cfg (d.applyAll (evs.take j))).1.take j2))).2 = .ok (m', sc) → m' = m2) ∧
        (m2.idx.map = m.idx.map ∨ m2.idx.map = mapApply kind.lt m.idx.map op) ∧
        Tied H kind sz N m2 sys2 hist2 (((d.applyAll (evs.take j)).applyAll
            ((openBody H cfg (d.applyAll (evs.take j))).1.take j2)).applyAll
          (openBody H cfg ((d.applyAll (evs.take j)).applyAll
            ((openBody H cfg (d.applyAll (evs.take j))).1.take j2))).1)) := by
  obtain ⟨evs, m', hrun, hpre, _, _⟩ :=
    logAndApply_sim H kind sz N so hH m sys hist d t op raw hraw hconv hop hwf hsave hver
  have hM := t.mem_eq H kind sz N
  have hstep : stepM kind m.idx.map (serWalOp raw) = .ok (mapApply kind.lt m.idx.map op) := by
    have := C16_walop_roundtrip raw hraw []
    rw [List.append_nil] at this
    simp [stepM, this, hconv]
  have hrun2 : run (stepM kind) [] (hist ++ [(m.next, serWalOp raw)]) =
      .ok (mapApply kind.lt m.idx.map op) := by
    rw [run_append, hM]
    simp [run, hstep]
  refine ⟨evs, m', hrun, ?_⟩
  intro ⟨e1, pre, hg, hsv⟩ ⟨e1', pre', hg', hsv'⟩
  -- first recovery, cut at j2
  obtain ⟨h1, hh1, acc1, _, _, hpre1, _⟩ := open_of_recoverable H kind sz N so hH cfg hk hn _ _ (hpre j)
    e1 pre hg hsv
  -- second recovery, complete
  obtain ⟨h2, hh2, acc2, _, hr2, _, m2, sys2, hm2, hmap2, t2⟩ :=
    open_of_recoverable H kind sz N so hH cfg hk hn _ _ (hpre1 j2) e1' pre' hg' hsv'
  simp only [List.mem_singleton] at hh2
  subst hh2
  refine ⟨m2, sys2, h2, hm2, ?_, t2⟩
  rw [hmap2]
  simp only [List.mem_cons, List.not_mem_nil, or_false] at hh1
  rcases hh1 with e | e
  · subst e; rw [hM] at hr2; injection hr2 with hr2; exact Or.inl hr2.symm
  · subst e; rw [hrun2] at hr2; injection hr2 with hr2; exact Or.inr hr2.symm

/-- **C02 (bytes): drop and reopen.** Closing the handle of a tied store (its script syncs the
    active segment) and opening the directory again reads the log without panic and yields exactly
    the key map memory held, tied again. -/
theorem C02_reopen_transparent_bytes (so : StrictOrder kind.lt) (hH : Hash32 H) (m : Mem)
    (sys : Sys (KMap Bytes) Bytes) (hist : Recs Bytes) (d : Disk)
    (t : Tied H kind sz N m sys hist d) (cfg : Config) (hk : cfg.kind = kind) (hn : cfg.N = N)
    (ho : OpenOK H kind cfg (d.applyAll (closeScript m))) :
    ∃ m2 sys2, (∀ m' sc, (openBody H cfg (d.applyAll (closeScript m))).2 = .ok (m', sc) → m' = m2) ∧
      m2.idx.map = m.idx.map ∧
      Tied H kind sz N m2 sys2 hist ((d.applyAll (closeScript m)).applyAll
        (openBody H cfg (d.applyAll (closeScript m))).1) := by
  obtain ⟨e1, pre, hg, hsv⟩ := ho
  have hfree : ∀ e ∈ closeScript m, e.segFree = true ∧ e.indexFree = true := by
    intro e he
    unfold closeScript at he
    split at he
    · simp only [List.mem_singleton] at he; subst he; simp [Ev.segFree, Ev.indexFree]
    · cases he
  have c1 := t.cfg.toDCfg.freeAll H kind sz N sys hist d (closeScript m) hfree
  obtain ⟨h2, hh2, acc, _, hr, _, m2, sys2, hm2, hmap2, t2⟩ :=
    open_of_recoverable H kind sz N so hH cfg hk hn [hist] _ (c1.toRec H kind sz N [hist] (by simp))
      e1 pre hg hsv
  simp only [List.mem_singleton] at hh2
  subst hh2
  refine ⟨m2, sys2, hm2, ?_, t2⟩
  rw [hmap2]
  have hM := t.mem_eq H kind sz N
  rw [hM] at hr; injection hr with hr; exact hr.symm

/-! non-vacuity: a freshly created store is tied (`tied_fresh`), so the theorems above apply to
    its first operation, and — each returning a tied state — to every later one. -/
example (cfg : Config) (d : Disk) (hw : d.WF)
    (hseg : ∀ i, segData d i = if i = 0 then some [] else none) (hidx : d.get .index = none) :
    ∃ sys hist, Tied H cfg.kind sz cfg.N { cfg := cfg } sys hist d :=
  ⟨_, _, tied_fresh H cfg.kind sz cfg.N cfg d hw rfl rfl hseg hidx⟩

end CasModel
