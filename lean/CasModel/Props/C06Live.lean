import CasModel.Props.C03Live
/-
  C06 over whole histories with crashes: along ANY history of `LOp` steps (Props/C03Live) — puts,
  removes, range removals, checkpoints, restarts, abandoned transactions, and each of them killed
  after any number of filesystem events and followed by `open` — every file under cas/ holds, at
  the end and at every kill image on the way, exactly the bytes whose digest is its name (`CasOK`).
  Composition of the per-script theorems of Props/C06Store (`C06_put_all_prefixes`,
  `C06_commit_all_prefixes`) with the step theorems of Props/C03Live.
-/
namespace CasModel
open Ghost

theorem casSafe_of_spares (e : Ev) (h : ∀ g, e.sparesCas g = true) : e.casSafe = true := by
  cases e with
  | creat f t => cases f <;> first | rfl | (have := h []; simp [Ev.sparesCas] at this)
  | write f bs => cases f <;> first | rfl | (have := h []; simp [Ev.sparesCas] at this)
  | rename a b =>
    cases a with
    | cas g => have := h g; simp [Ev.sparesCas] at this
    | _ =>
      cases b with
      | cas g => have := h g; simp [Ev.sparesCas] at this
      | _ => rfl
  | _ => rfl

theorem casOK_quiet (H : Bytes → Bytes) (d : Disk) (hw : d.WF) (ok : CasOK H d) (evs : List Ev)
    (hq : ∀ e ∈ evs, ∀ g, e.sparesCas g = true) : AllPre (CasOK H) d evs :=
  allPre_casSafe H d hw ok evs (fun e he => casSafe_of_spares e (hq e he))

theorem casOK_open (H : Bytes → Bytes) (cfg : Config) (d : Disk) (hw : d.WF) (ok : CasOK H d) :
    CasOK H (d.applyAll (openBody H cfg d).1) :=
  allPre_last _ _ _ (casOK_quiet H d hw ok _ (fun e he => (openBody_quiet H cfg d e he).1))

theorem removeScript_casOK (H : Bytes → Bytes) (m : Mem) (d : Disk) (hw : d.WF) (ok : CasOK H d)
    (key : Bytes) : AllPre (CasOK H) d (removeScript H m d key).1 := by
  unfold removeScript
  split
  · exact allPre_nil _ _ ok
  · split
    · exact allPre_nil _ _ ok
    · rename_i evs2 m2 hla
      exact C06_commit_all_prefixes H m d hw ok _ _ evs2 m2 hla

theorem removeRangeScript_casOK (H : Bytes → Bytes) (m : Mem) (d : Disk) (hw : d.WF) (ok : CasOK H d)
    (lo hi : Bound) : AllPre (CasOK H) d (removeRangeScript H m d lo hi).1 := by
  unfold removeRangeScript
  simp only
  by_cases he : (rangeKeys m lo hi).isEmpty = true
  · simp only [he, ↓reduceIte]; exact allPre_nil _ _ ok
  · simp only [he, Bool.false_eq_true, ↓reduceIte]
    split
    · exact allPre_nil _ _ ok
    · rename_i evs2 m2 hla
      exact C06_commit_all_prefixes H m d hw ok _ _ evs2 m2 hla

variable (H : Bytes → Bytes) (kind : KeyKind) (sz : Bytes → Nat) (N : Nat)

/-- the script of each kind of step, as run from a given state (`none`: no script, a pure restart) -/
def LOp.script (cfg : Config) (m : Mem) (d : Disk) (tn : Nat) : LOp → List Ev
  | .put k c | .putCrash k c _ => (putScript H m d tn k c).1
  | .remove k | .removeCrash k _ => (removeScript H m d k).1
  | .removeRange lo hi | .removeRangeCrash lo hi _ => (removeRangeScript H m d lo hi).1
  | .checkpoint | .checkpointCrash _ => (checkpointScript .explicit m d).1
  | .reopen | .reopenCrash _ => closeScript m ++ (openBody H cfg (d.applyAll (closeScript m))).1
  | .abandon c | .abandonCrash c _ => abandonedEvents tn c

/-- **C06 at every instant of every step**: from a live store whose blob files are intact, every
    kill image of every kind of step has its blob files intact -/
theorem C06_step_all_prefixes (cfg : Config) (m : Mem) (sys : Sys (KMap Bytes) Bytes) (hist : Recs Bytes)
    (d : Disk) (spec : Spec) (tn : Nat) (live : StoreLive H kind sz N m sys hist d spec tn)
    (ok : CasOK H d) (op : LOp) : AllPre (CasOK H) d (op.script H cfg m d tn) := by
  have hw := live.sinv.wf
  have hput : ∀ k c, AllPre (CasOK H) d (putScript H m d tn k c).1 :=
    fun k c => C06_put_all_prefixes H m d hw ok tn k c (live.sinv.fresh tn (Nat.le_refl _))
  have hck : AllPre (CasOK H) d (checkpointScript .explicit m d).1 :=
    casOK_quiet H d hw ok _ (fun e he => (checkpointScript_quiet .explicit m d e he).1)
  have hre : AllPre (CasOK H) d (closeScript m ++ (openBody H cfg (d.applyAll (closeScript m))).1) := by
    apply casOK_quiet H d hw ok
    intro e he
    rcases List.mem_append.mp he with he | he
    · exact (closeScript_benign m e he).2.1
    · exact (openBody_quiet H cfg _ e he).1
  have hab : ∀ c, AllPre (CasOK H) d (abandonedEvents tn c) :=
    fun c => casOK_quiet H d hw ok _ (fun e he => (abandoned_benign tn c e he).2.1)
  cases op with
  | put k c => exact hput k c
  | putCrash k c j => exact hput k c
  | remove k => exact removeScript_casOK H m d hw ok k
  | removeCrash k j => exact removeScript_casOK H m d hw ok k
  | removeRange lo hi => exact removeRangeScript_casOK H m d hw ok lo hi
  | removeRangeCrash lo hi j => exact removeRangeScript_casOK H m d hw ok lo hi
  | checkpoint => exact hck
  | checkpointCrash j => exact hck
  | reopen => exact hre
  | reopenCrash j => exact hre
  | abandon c => exact hab c
  | abandonCrash c j => exact hab c

/-- **C06 over whole histories with crashes.** -/
theorem C06_histories_with_crashes (so : StrictOrder kind.lt) (hH : Hash32 H) (P : Bytes → Prop)
    (hinj : Inj H sz P) (cfg : Config) (hk : cfg.kind = kind) (hn : cfg.N = N)
    (ops : List LOp) :
    ∀ (m : Mem) (sys : Sys (KMap Bytes) Bytes) (hist : Recs Bytes) (d : Disk) (spec : Spec) (tn : Nat),
    StoreLive H kind sz N m sys hist d spec tn → CasOK H d → (∀ k c, spec k = some c → P c) →
    LiveOK H kind P cfg m d tn ops →
    ∀ m' d' tn', lRun H cfg m d tn ops = some (m', d', tn') → CasOK H d' := by
  induction ops with
  | nil =>
    intro m sys hist d spec tn _ ok _ _ m' d' tn' h
    simp only [lRun, Option.some.injEq, Prod.mk.injEq] at h
    rw [← h.2.1]; exact ok
  | cons op ops ih =>
    intro m sys hist d spec tn live ok hspecP hok m' d' tn' h
    have hw := live.sinv.wf
    have hall := fun op => C06_step_all_prefixes H kind sz N cfg m sys hist d spec tn live ok op
    cases op with
    | put key chunks =>
      obtain ⟨⟨hP, hraw, hval, hwf, hsave, hver⟩, hnext⟩ := hok
      obtain ⟨evs, m1, sys1, hist1, hrun, live1⟩ := live.put H kind sz N so hH P hinj m sys hist d spec tn
        hspecP key chunks hP hraw hval hwf hsave hver
      have ok1 : CasOK H (d.applyAll evs) := by
        have := allPre_last _ _ _ (hall (.put key chunks))
        simpa [LOp.script, hrun] using this
      simp only [lRun, hrun] at h
      exact ih m1 sys1 hist1 _ _ (tn + 1) live1 ok1 (specP_put P spec hspecP key _ hP) (hnext evs m1 hrun) _ _ _ h
    | remove key =>
      obtain ⟨⟨hraw, hval, hwf, hsave, hver⟩, hnext⟩ := hok
      obtain ⟨evs, m1, b, sys1, hist1, hrun, _, live1⟩ := live.remove H kind sz N so hH m sys hist d spec tn
        key hraw hval hwf hsave hver
      have ok1 : CasOK H (d.applyAll evs) := by
        have := allPre_last _ _ _ (hall (.remove key))
        simpa [LOp.script, hrun] using this
      simp only [lRun, hrun] at h
      exact ih m1 sys1 hist1 _ _ tn live1 ok1 (specP_remove P spec hspecP key) (hnext evs m1 b hrun) _ _ _ h
    | removeRange lo hi =>
      obtain ⟨hrok, hnext⟩ := hok
      obtain ⟨evs, m1, n, sys1, hist1, hrun, _, live1⟩ := live.removeRange H kind sz N so hH m sys hist d
        spec tn lo hi hrok
      have ok1 : CasOK H (d.applyAll evs) := by
        have := allPre_last _ _ _ (hall (.removeRange lo hi))
        simpa [LOp.script, hrun] using this
      simp only [lRun, hrun] at h
      exact ih m1 sys1 hist1 _ _ tn live1 ok1 (specP_range P spec hspecP _) (hnext evs m1 n hrun) _ _ _ h
    | checkpoint =>
      obtain ⟨⟨hsv, hver⟩, hnext⟩ := hok
      obtain ⟨sys1, live1⟩ := live.checkpoint H kind sz N so m sys hist d spec tn hsv hver
      have ok1 := allPre_last _ _ _ (hall .checkpoint)
      simp only [lRun] at h
      exact ih _ sys1 hist _ _ tn live1 ok1 hspecP hnext _ _ _ h
    | reopen =>
      obtain ⟨ho, hnext⟩ := hok
      obtain ⟨m2, sys2, sc, hres, _, _, _, live2⟩ := live.reopen H kind sz N so hH P hinj m sys hist d spec tn
        hspecP cfg hk hn ho
      have ok1 : CasOK H ((d.applyAll (closeScript m)).applyAll
          (openBody H cfg (d.applyAll (closeScript m))).1) := by
        have := allPre_last _ _ _ (hall .reopen)
        simpa [LOp.script, Disk.applyAll_append] using this
      simp only [lRun, hres] at h
      exact ih m2 sys2 hist _ _ tn live2 ok1 hspecP (hnext m2 sc hres) _ _ _ h
    | abandon content =>
      have live1 := live.abandoned H kind sz N m sys hist d spec tn content
      have ok1 := allPre_last _ _ _ (hall (.abandon content))
      simp only [lRun] at h
      exact ih m sys hist _ _ (tn + 1) live1 ok1 hspecP hok _ _ _ h
    | putCrash key chunks j =>
      obtain ⟨⟨hP, hraw, hval, hwf, hsave, hver⟩, ho, hnext⟩ := hok
      obtain ⟨m2, sys2, hist2, sc, spec2, hres, _, _, hs2, live2⟩ := live.putCrash H kind sz N so hH P hinj
        m sys hist d spec tn hspecP key chunks hP hraw hval hwf hsave hver cfg hk hn j ho
      have hsp2 : ∀ k c, spec2 k = some c → P c := by
        rcases hs2 with rfl | rfl
        · exact hspecP
        · exact specP_put P spec hspecP key _ hP
      have ok1 := casOK_open H cfg _ (Disk.applyAll_WF d hw _) (hall (.putCrash key chunks j) j)
      simp only [lRun, hres] at h
      exact ih m2 sys2 hist2 _ _ (tn + 1) live2 ok1 hsp2 (hnext m2 sc hres) _ _ _ h
    | removeCrash key j =>
      obtain ⟨⟨hraw, hval, hwf, hsave, hver⟩, ho, hnext⟩ := hok
      obtain ⟨m2, sys2, hist2, sc, spec2, hres, _, _, hs2, live2⟩ := live.removeCrash H kind sz N so hH P hinj
        m sys hist d spec tn hspecP key hraw hval hwf hsave hver cfg hk hn j ho
      have hsp2 : ∀ k c, spec2 k = some c → P c := by
        rcases hs2 with rfl | rfl
        · exact hspecP
        · exact specP_remove P spec hspecP key
      have ok1 := casOK_open H cfg _ (Disk.applyAll_WF d hw _) (hall (.removeCrash key j) j)
      simp only [lRun, hres] at h
      exact ih m2 sys2 hist2 _ _ tn live2 ok1 hsp2 (hnext m2 sc hres) _ _ _ h
    | removeRangeCrash lo hi j =>
      obtain ⟨hrok, ho, hnext⟩ := hok
      obtain ⟨m2, sys2, hist2, sc, spec2, hres, _, _, hs2, live2⟩ := live.removeRangeCrash H kind sz N so hH P
        hinj m sys hist d spec tn hspecP lo hi hrok cfg hk hn j ho
      have hsp2 : ∀ k c, spec2 k = some c → P c := by
        rcases hs2 with rfl | rfl
        · exact hspecP
        · exact specP_range P spec hspecP _
      have ok1 := casOK_open H cfg _ (Disk.applyAll_WF d hw _) (hall (.removeRangeCrash lo hi j) j)
      simp only [lRun, hres] at h
      exact ih m2 sys2 hist2 _ _ tn live2 ok1 hsp2 (hnext m2 sc hres) _ _ _ h
    | checkpointCrash j =>
      obtain ⟨⟨hsv, hver⟩, ho, hnext⟩ := hok
      obtain ⟨m2, sys2, sc, hres, _, _, _, live2⟩ := live.checkpointCrash H kind sz N so hH P hinj
        m sys hist d spec tn hspecP hsv hver cfg hk hn j ho
      have ok1 := casOK_open H cfg _ (Disk.applyAll_WF d hw _) (hall (.checkpointCrash j) j)
      simp only [lRun, hres] at h
      exact ih m2 sys2 hist _ _ tn live2 ok1 hspecP (hnext m2 sc hres) _ _ _ h
    | reopenCrash j =>
      obtain ⟨ho0, ho, hnext⟩ := hok
      obtain ⟨m2, sys2, sc, hres, _, _, _, live2⟩ := live.reopenCrash H kind sz N so hH P hinj
        m sys hist d spec tn hspecP cfg hk hn ho0 cfg hk hn j ho
      have ok1 := casOK_open H cfg _ (Disk.applyAll_WF d hw _) (hall (.reopenCrash j) j)
      simp only [lRun, hres] at h
      exact ih m2 sys2 hist _ _ tn live2 ok1 hspecP (hnext m2 sc hres) _ _ _ h
    | abandonCrash content j =>
      obtain ⟨ho, hnext⟩ := hok
      have live1 := live.abandonedPrefix H kind sz N m sys hist d spec tn content j
      obtain ⟨m2, sys2, sc, hres, _, _, _, live2⟩ := live1.killOpen H kind sz N so hH P hinj m sys hist _ spec
        (tn + 1) hspecP cfg hk hn ho
      have ok1 := casOK_open H cfg _ (Disk.applyAll_WF d hw _) (hall (.abandonCrash content j) j)
      simp only [lRun, hres] at h
      exact ih m2 sys2 hist _ _ (tn + 1) live2 ok1 hspecP (hnext m2 sc hres) _ _ _ h

end CasModel
