import CasModel.Proofs.WalFault
import CasModel.Proofs.BridgeMap
import CasModel.Proofs.KeyOrder
/-
  C14 at history level: failed appends are contained, for EVERY sequence of operations, failed
  appends (lost or retained in the writer's buffer), buffer flushes, checkpoints, prunes, crashes
  and reopens — unbounded, at the level of whole records (Proofs/WalFault) over the ordered key
  map with the pure semantics of a logged operation (`mapApply`, the function the byte-level
  simulation is stated over).

  `C14_failed_appends_contained`:
    * reopening succeeds from every reachable state and yields `run hd`,
    * the live handle holds `run hm` (the acknowledged operations, exactly),
    * key by key, the reopened store agrees with the live one, or holds the value that one of the
      FAILED operations touching that key would have written (its "new" value);
      in particular a key no failed operation touches has exactly its content in both.
  What ties the fault actions to the code (which calls fail how, what the BufWriter retains) is
  Fault.lean + the c14 correspondence slice; see DESIGN.md.
-/
namespace CasModel
open Ghost

section
variable {K : Type} [DecidableEq K] {lt : K → K → Bool}

theorem eraseFold_sorted (m : KMap K) (hs : Sorted lt m) (ks : List K) :
    Sorted lt (ks.foldl (fun m k => (kErase m k).1) m) := by
  induction ks generalizing m with
  | nil => exact hs
  | cons k ks ih => exact ih _ (kErase_sorted m hs k)

theorem kLookup_eraseFold (so : StrictOrder lt) (m : KMap K) (hs : Sorted lt m) (ks : List K) (k' : K) :
    kLookup (ks.foldl (fun m k => (kErase m k).1) m) k' = if k' ∈ ks then none else kLookup m k' := by
  induction ks generalizing m with
  | nil => simp
  | cons k ks ih =>
    simp only [List.foldl_cons]
    rw [ih _ (kErase_sorted m hs k), kLookup_kErase so m hs]
    by_cases c1 : k' ∈ ks
    · simp [c1]
    · by_cases c2 : k' = k
      · simp [c2]
      · simp [c1, c2]

theorem mapApply_sorted (so : StrictOrder lt) (m : KMap K) (hs : Sorted lt m) (op : Op K) :
    Sorted lt (mapApply lt m op) := by
  cases op with
  | put k h size => exact kInsert_sorted so m hs k ⟨h, size⟩
  | remove ks => exact eraseFold_sorted m hs ks

/-- what an operation writes at a key: `some v` = sets the key to `v` (`none` = absent) -/
def opEff : Op K → K → Option (Option Item)
  | .put k h size, k' => if k' = k then some (some ⟨h, size⟩) else none
  | .remove ks, k' => if k' ∈ ks then some none else none

theorem kLookup_mapApply (so : StrictOrder lt) (m : KMap K) (hs : Sorted lt m) (op : Op K) (k' : K) :
    kLookup (mapApply lt m op) k' = (opEff op k').getD (kLookup m k') := by
  cases op with
  | put k h size =>
    simp only [mapApply, opEff, kLookup_kInsert]
    by_cases c : k' = k <;> simp [c]
  | remove ks =>
    simp only [mapApply, opEff, kLookup_eraseFold so m hs]
    by_cases c : k' ∈ ks <;> simp [c]

/-- the total record step of the ordered-map machine -/
def mapStep (lt : K → K → Bool) (m : KMap K) (op : Op K) : Except Unit (KMap K) := .ok (mapApply lt m op)

theorem mapStep_total (m : KMap K) (op : Op K) : ∃ s', mapStep lt m op = .ok s' := ⟨_, rfl⟩

/-- **C14, every history with failed appends.** -/
theorem C14_failed_appends_contained (so : StrictOrder lt) (N : Nat)
    (acts : List (FAct (Op K))) (fs : FSys (KMap K) (Op K)) (h : Hist (Op K))
    (hr : runFActs (mapStep lt) N (emptyFSys []) ⟨[], [], []⟩ acts = some (fs, h)) :
    ∃ disk next,
      -- reopening (after a crash or a close at this point) succeeds with the durable history
      recover (mapStep lt) fs.sys.g = .ok (disk, next) ∧ run (mapStep lt) [] h.hd = .ok disk ∧
      (∀ e ∈ flat fs.sys.g.segs, e.1 < next) ∧
      -- a live handle holds exactly the acknowledged history
      (fs.sys.up = true → run (mapStep lt) [] h.hm = .ok fs.sys.st) ∧
      -- key by key: same content, or the new value of a failed operation on that key
      (∀ mem, run (mapStep lt) [] h.hm = .ok mem → ∀ k,
         kLookup disk k = kLookup mem k ∨ ∃ e ∈ h.failed, opEff e.2 k = some (kLookup disk k)) := by
  obtain ⟨⟨disk, next, hd, hrec, _, hfl⟩, hmem, hsub, hff⟩ :=
    fault_reachable (mapStep lt) (stepInd_of_total _ (fun s r => mapStep_total s r)) [] N acts fs h hr
  have good := freachable_good (mapStep lt) (stepInd_of_total _ (fun s r => mapStep_total s r)) [] N acts _ _
    (fgood_empty (mapStep lt) [] N) fs h hr
  refine ⟨disk, next, hrec, hd, hfl, hmem, ?_⟩
  intro mem hm k
  exact divergence_bounded (mapStep lt) (Sorted lt) kLookup opEff
    (fun s r s' hs hst => by
      simp only [mapStep] at hst; injection hst with hst; subst hst; exact mapApply_sorted so s hs r)
    (fun s r s' hs hst k => by
      simp only [mapStep] at hst; injection hst with hst; subst hst; exact kLookup_mapApply so s hs r k)
    h.hm h.hd hsub good.ginv.incr h.failed hff [] [] disk mem List.Pairwise.nil List.Pairwise.nil
    hd hm k (Or.inl rfl)

/-- every other key keeps exactly its content -/
theorem C14_untouched_keys_exact (so : StrictOrder lt) (N : Nat)
    (acts : List (FAct (Op K))) (fs : FSys (KMap K) (Op K)) (h : Hist (Op K))
    (hr : runFActs (mapStep lt) N (emptyFSys []) ⟨[], [], []⟩ acts = some (fs, h))
    (disk mem : KMap K) (hd : run (mapStep lt) [] h.hd = .ok disk)
    (hm : run (mapStep lt) [] h.hm = .ok mem) (k : K)
    (hk : ∀ e ∈ h.failed, opEff e.2 k = none) : kLookup disk k = kLookup mem k := by
  obtain ⟨disk', _, _, hd', _, _, hkey⟩ := C14_failed_appends_contained so N acts fs h hr
  rw [hd] at hd'; injection hd' with hd'; subst hd'
  rcases hkey mem hm k with x | ⟨e, he, hx⟩
  · exact x
  · rw [hk e he] at hx; cases hx

end

/-- the same for every key kind of the store (key order hypothesis discharged) -/
theorem C14_failed_appends_contained_all_kinds (kind : KeyKind) (N : Nat)
    (acts : List (FAct (Op Bytes))) (fs : FSys (KMap Bytes) (Op Bytes)) (h : Hist (Op Bytes))
    (hr : runFActs (mapStep kind.lt) N (emptyFSys []) ⟨[], [], []⟩ acts = some (fs, h)) :
    ∃ disk next,
      recover (mapStep kind.lt) fs.sys.g = .ok (disk, next) ∧
      run (mapStep kind.lt) [] h.hd = .ok disk ∧
      (fs.sys.up = true → run (mapStep kind.lt) [] h.hm = .ok fs.sys.st) ∧
      (∀ mem, run (mapStep kind.lt) [] h.hm = .ok mem → ∀ k,
         kLookup disk k = kLookup mem k ∨ ∃ e ∈ h.failed, opEff e.2 k = some (kLookup disk k)) := by
  obtain ⟨disk, next, a, b, _, c, d⟩ :=
    C14_failed_appends_contained (keyOrder_strict kind) N acts fs h hr
  exact ⟨disk, next, a, b, c, d⟩

/-- non-vacuity: put k1; a failed put of k2 whose record is retained and flushed; crash; reopen.
    Memory never saw k2, the reopened store has it (its "new" value). -/
example :
    let k1 : Bytes := [1]; let k2 : Bytes := [2]
    let acts : List (FAct (Op Bytes)) :=
      [.ok .open_, .ok .ensure, .ok (.append (.put k1 [7] 1)), .failKeep (.put k2 [8] 1), .flush,
       .ok .crash, .ok .open_]
    ∃ fs h, runFActs (mapStep KeyKind.bytes.lt) 4 (emptyFSys []) ⟨[], [], []⟩ acts = some (fs, h) ∧
      h.failed.length = 1 ∧ kLookup fs.sys.st k2 = some ⟨[8], 1⟩ := by
  refine ⟨_, _, rfl, rfl, ?_⟩
  decide

end CasModel
