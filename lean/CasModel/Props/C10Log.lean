import CasModel.Props.C10
import CasModel.Store
import CasModel.Proofs.Bridge
/-
  C10 at LOG level (through `logical`, the recovery function behind `Cas::open`): if the store
  recovers from a disk, and one record of one segment file is then damaged so that its stored
  checksum no longer matches its stored payload (any change of payload bytes — modulo a hash
  collision — or of checksum bytes), recovery of the damaged disk FAILS with the checksum error:
  the records before the damaged one are replayed exactly as before, the damaged one is never
  decoded, nothing after it is applied, no panic.  Wherever the record sits: any segment, any
  position, checkpointed or not, whatever follows it.
-/
namespace CasModel

variable (H : Bytes → Bytes)

theorem replayRecs_append (kind : KeyKind) (ckpt : Nat) (a b : List Rec) (acc : ReplayAcc) :
    replayRecs kind ckpt (a ++ b) acc =
      match replayRecs kind ckpt a acc with
      | .error e => .error e
      | .ok acc' => replayRecs kind ckpt b acc' := by
  induction a generalizing acc with
  | nil => rfl
  | cons r rs ih =>
    simp only [List.cons_append, replayRecs]
    split
    · exact ih _
    · split
      · rfl
      · split
        · rfl
        · split
          · rfl
          · exact ih _

theorem replaySegs_append (kind : KeyKind) (ckpt : Nat) (d : Disk) (x y : List Nat) (acc : ReplayAcc)
    (hx : ∀ i ∈ x, ∃ f, d.get (.seg i) = some f) :
    replaySegs H kind ckpt d (x ++ y) acc =
      match replaySegs H kind ckpt d x acc with
      | .error e => .error e
      | .ok acc' => replaySegs H kind ckpt d y acc' := by
  induction x generalizing acc with
  | nil => rfl
  | cons i is ih =>
    obtain ⟨f, hf⟩ := hx i (by simp)
    simp only [List.cons_append, replaySegs, hf]
    split
    · rfl
    · split
      · rfl
      · exact ih _ (fun j hj => hx j (by simp [hj]))

theorem replaySegs_congr (kind : KeyKind) (ckpt : Nat) (d d' : Disk) (ids : List Nat) (acc : ReplayAcc)
    (h : ∀ i ∈ ids, d'.get (.seg i) = d.get (.seg i)) :
    replaySegs H kind ckpt d' ids acc = replaySegs H kind ckpt d ids acc := by
  induction ids generalizing acc with
  | nil => rfl
  | cons i is ih =>
    simp only [replaySegs, h i (by simp)]
    split
    · rfl
    · split
      · rfl
      · split
        · rfl
        · exact ih _ (fun j hj => h j (by simp [hj]))

/-- reading a stream that starts with well-formed records: they come first, the rest follows -/
theorem partial_prefix (hH : Hash32 H) (pre : List Rec) (hpre : ∀ r ∈ pre, r.WF) (tail : Bytes)
    (f : Nat) :
    readSegmentPartial H (pre.length + f) (encodeAll H pre ++ tail) =
      (pre ++ (readSegmentPartial H f tail).1, (readSegmentPartial H f tail).2) := by
  induction pre with
  | nil => simp [encodeAll]
  | cons r pre ih =>
    have hr := hpre r (by simp)
    have e : (r :: pre).length + f = (pre.length + f) + 1 := by simp; omega
    rw [e]
    simp only [encodeAll, List.append_assoc, readSegmentPartial, readNext_encode H hH r hr]
    rw [ih (fun r' h' => hpre r' (by simp [h']))]
    rfl

/-- a frame whose stored checksum does not match its stored payload stops the reader with the
    checksum error -/
theorem partial_bad_frame (ver len : Nat) (hv0 : 0 < ver) (hv : ver < U64) (hl0 : 0 < len) (hl : len < U32)
    (c' p' : Bytes) (hc : c'.length = 32) (hp : p'.length = len) (hbad : H p' ≠ c') (post : Bytes)
    (f : Nat) :
    readSegmentPartial H (f + 1) ((leBytes 8 ver ++ (c' ++ (leBytes 4 len ++ p'))) ++ post) =
      ([], some .checksum) := by
  have e : (leBytes 8 ver ++ (c' ++ (leBytes 4 len ++ p'))) ++ post =
      leBytes 8 ver ++ (c' ++ (leBytes 4 len ++ (p' ++ post))) := by simp [List.append_assoc]
  rw [e]
  simp only [readSegmentPartial]
  rw [readNext_general H _ _ _ _ (leBytes_length _ _) hc (leBytes_length _ _),
    leNat_leBytes_of_lt 8 _ hv, leNat_leBytes_of_lt 4 _ hl]
  have a4 : (p' ++ post).take len = p' := by rw [← hp]; simp
  rw [if_neg (by omega), if_neg (by omega), if_neg (by simp [hp]), a4, if_neg hbad]

/-- **C10 (log level, byte change).** -/
theorem C10_log_byte_change (hH : Hash32 H) (kind : KeyKind) (d d' : Disk) (a : ReplayAcc)
    (hgood : logical H kind d = .ok a)
    (hidx : loadSnapshot kind d' = loadSnapshot kind d) (hids : segIds d' = segIds d)
    (i : Nat) (before after : List Nat) (hsplit : segIds d = before ++ i :: after)
    (hnotin : i ∉ before) (hexist : ∀ j ∈ before, ∃ f, d.get (.seg j) = some f)
    (hsame : ∀ j, j ≠ i → d'.get (.seg j) = d.get (.seg j))
    (f f' : File) (hf : d.get (.seg i) = some f) (hf' : d'.get (.seg i) = some f')
    (pre : List Rec) (hpre : ∀ r ∈ pre, r.WF) (r : Rec) (hr : r.WF) (post : Bytes)
    (hdata : f.data = encodeAll H pre ++ (encodeEntry H r ++ post))
    (c' p' : Bytes) (hc : c'.length = 32) (hp : p'.length = r.payload.length) (hbad : H p' ≠ c')
    (hdata' : f'.data = encodeAll H pre ++
      ((leBytes 8 r.ver ++ (c' ++ (leBytes 4 r.payload.length ++ p'))) ++ post)) :
    logical H kind d' = .error (.replayRead .checksum) := by
  unfold logical at hgood ⊢
  rw [hidx]
  cases hs : loadSnapshot kind d with
  | error e => simp [hs] at hgood
  | ok s =>
    simp only [hs] at hgood ⊢
    rw [hids, hsplit] at *
    have hbefore' : ∀ j ∈ before, d'.get (.seg j) = d.get (.seg j) := by
      intro j hj
      exact hsame j (fun c => hnotin (c ▸ hj))
    have hx' : ∀ j ∈ before, ∃ g, d'.get (.seg j) = some g := by
      intro j hj
      obtain ⟨g, hg⟩ := hexist j hj
      exact ⟨g, by rw [hbefore' j hj]; exact hg⟩
    rw [replaySegs_append H kind _ d' before (i :: after) _ hx',
      replaySegs_congr H kind _ d d' before _ hbefore']
    rw [replaySegs_append H kind _ d before (i :: after) _ hexist] at hgood
    cases h1 : replaySegs H kind s.lastPersisted d before ⟨s, s.lastPersisted, 0⟩ with
    | error e => simp [h1] at hgood
    | ok a1 =>
      simp only [h1] at hgood ⊢
      -- the intact segment: its records start with `pre`
      have hlenpre := encodeAll_length_ge H hH pre hpre
      have hlenr : (encodeEntry H r).length = 44 + r.payload.length := encodeEntry_length H hH r
      have hrl := hr.2.2.1
      have hfuel : ∃ g, f.data.length / 45 + 1 = pre.length + (g + 1) := by
        refine ⟨f.data.length / 45 - pre.length, ?_⟩
        have : 45 * pre.length + 45 ≤ f.data.length := by
          rw [hdata]; simp only [List.length_append, hlenr]; omega
        have : pre.length + 1 ≤ f.data.length / 45 := by
          apply (Nat.le_div_iff_mul_le (by omega)).mpr; omega
        omega
      obtain ⟨g, hg⟩ := hfuel
      simp only [replaySegs, hf] at hgood
      rw [hg, hdata, partial_prefix H hH pre hpre _ (g + 1)] at hgood
      simp only at hgood
      rw [replayRecs_append] at hgood
      cases h2 : replayRecs kind s.lastPersisted pre a1 with
      | error e => simp [h2] at hgood
      | ok a1' =>
        -- the damaged segment: `pre`, then the checksum error
        have hbadlen : (leBytes 8 r.ver ++ (c' ++ (leBytes 4 r.payload.length ++ p'))).length =
            44 + r.payload.length := by
          simp [leBytes_length, hc, hp]; omega
        have hfuel' : ∃ g', f'.data.length / 45 + 1 = pre.length + (g' + 1) := by
          refine ⟨f'.data.length / 45 - pre.length, ?_⟩
          have : 45 * pre.length + 45 ≤ f'.data.length := by
            rw [hdata']; simp only [List.length_append] at hbadlen ⊢
            simp only [List.length_append, hbadlen]
            omega
          have : pre.length + 1 ≤ f'.data.length / 45 := by
            apply (Nat.le_div_iff_mul_le (by omega)).mpr; omega
          omega
        obtain ⟨g', hg'⟩ := hfuel'
        simp only [replaySegs, hf']
        rw [hg', hdata', partial_prefix H hH pre hpre _ (g' + 1),
          partial_bad_frame H r.ver r.payload.length hr.1 hr.2.1 hr.2.2.1 hr.2.2.2 c' p' hc hp hbad post g']
        simp only [List.append_nil, h2]

/-- a record stream cut at ANY byte offset reads as a prefix of its records, ending normally or
    with the short-payload error -/
theorem partial_truncated (hH : Hash32 H) (rs : List Rec) (hrs : ∀ r ∈ rs, r.WF) (n f : Nat)
    (hf : rs.length < f) :
    ∃ k, k ≤ rs.length ∧ (readSegmentPartial H f ((encodeAll H rs).take n)).1 = rs.take k ∧
      ((readSegmentPartial H f ((encodeAll H rs).take n)).2 = none ∨
       (readSegmentPartial H f ((encodeAll H rs).take n)).2 = some .shortPayload) := by
  induction rs generalizing n f with
  | nil =>
    cases f with
    | zero => omega
    | succ f =>
      refine ⟨0, by simp, ?_, ?_⟩
      · simp [encodeAll, readSegmentPartial, readNext_short]
      · left; simp [encodeAll, readSegmentPartial, readNext_short]
  | cons r rs ih =>
    cases f with
    | zero => omega
    | succ f =>
      have hr := hrs r (by simp)
      have hrs' : ∀ r' ∈ rs, r'.WF := fun r' h' => hrs r' (by simp [h'])
      have hE : (encodeEntry H r).length = 44 + r.payload.length := encodeEntry_length H hH r
      simp only [encodeAll]
      by_cases c1 : n < 44
      · -- not even a header
        have hshort : ((encodeEntry H r ++ encodeAll H rs).take n).length < 44 := by
          simp only [List.length_take]; omega
        refine ⟨0, by simp, ?_, ?_⟩
        · simp [readSegmentPartial, readNext_short H _ hshort]
        · left; simp [readSegmentPartial, readNext_short H _ hshort]
      · by_cases c2 : n < 44 + r.payload.length
        · -- header complete, payload cut
          have htake : (encodeEntry H r ++ encodeAll H rs).take n = (encodeEntry H r).take n := by
            rw [List.take_append_of_le_length (by omega)]
          refine ⟨0, by simp, ?_, ?_⟩
          · simp [readSegmentPartial, htake, readNext_cut_payload H hH r hr n (by omega) c2]
          · right; simp [readSegmentPartial, htake, readNext_cut_payload H hH r hr n (by omega) c2]
        · -- the first record is whole
          have htake : (encodeEntry H r ++ encodeAll H rs).take n =
              encodeEntry H r ++ (encodeAll H rs).take (n - (44 + r.payload.length)) := by
            rw [List.take_append, List.take_of_length_le (by omega), hE]
          obtain ⟨k, hk, h1, h2⟩ := ih hrs' (n - (44 + r.payload.length)) f (by simp at hf; omega)
          refine ⟨k + 1, by simp; omega, ?_, ?_⟩
          · simp only [readSegmentPartial, htake, readNext_encode H hH r hr, List.take_succ_cons]
            rw [h1]
          · simp only [readSegmentPartial, htake, readNext_encode H hH r hr]
            exact h2

/-- **C10 (log level, truncation).** If the store recovers from a disk and the log is then cut
    short — segment `i` (the framing of records `rs`) truncated at ANY byte offset `n`, all later
    segments gone — recovery either fails with the short-payload error or succeeds with exactly
    the state after the segments before `i` and the first `k` records of `i`: a prefix of the
    logged operations, nothing partial, no panic. -/
theorem C10_log_truncation (hH : Hash32 H) (kind : KeyKind) (d d' : Disk) (a : ReplayAcc)
    (hgood : logical H kind d = .ok a)
    (hidx : loadSnapshot kind d' = loadSnapshot kind d)
    (i : Nat) (before after : List Nat) (hsplit : segIds d = before ++ i :: after)
    (hids : segIds d' = before ++ [i])
    (hnotin : i ∉ before) (hexist : ∀ j ∈ before, ∃ f, d.get (.seg j) = some f)
    (hsame : ∀ j ∈ before, d'.get (.seg j) = d.get (.seg j))
    (f f' : File) (hf : d.get (.seg i) = some f) (hf' : d'.get (.seg i) = some f')
    (rs : List Rec) (hrs : ∀ r ∈ rs, r.WF) (k0 : Nat) (hdata : f.data = encodeAll H rs ++ List.replicate (44 * k0) 0)
    (n : Nat) (hdata' : f'.data = (encodeAll H rs).take n) :
    logical H kind d' = .error (.replayRead .shortPayload) ∨
    ∃ s a1 k acc, loadSnapshot kind d = .ok s ∧
      replaySegs H kind s.lastPersisted d before ⟨s, s.lastPersisted, 0⟩ = .ok a1 ∧ k ≤ rs.length ∧
      replayRecs kind s.lastPersisted (rs.take k) a1 = .ok acc ∧ logical H kind d' = .ok acc := by
  unfold logical at hgood ⊢
  rw [hidx]
  cases hs : loadSnapshot kind d with
  | error e => simp [hs] at hgood
  | ok s =>
    simp only [hs] at hgood ⊢
    rw [hsplit] at hgood
    rw [hids]
    have hx' : ∀ j ∈ before, ∃ g, d'.get (.seg j) = some g := by
      intro j hj
      obtain ⟨g, hg⟩ := hexist j hj
      exact ⟨g, by rw [hsame j hj]; exact hg⟩
    rw [replaySegs_append H kind _ d' before [i] _ hx', replaySegs_congr H kind _ d d' before _ hsame]
    rw [replaySegs_append H kind _ d before (i :: after) _ hexist] at hgood
    cases h1 : replaySegs H kind s.lastPersisted d before ⟨s, s.lastPersisted, 0⟩ with
    | error e => simp [h1] at hgood
    | ok a1 =>
      simp only [h1] at hgood ⊢
      -- the intact segment replays all of `rs`
      have hzero : readNext H (List.replicate (44 * k0) 0) = .done := by
        cases k0 with
        | zero => exact readNext_short H _ (by simp)
        | succ k0 =>
          have : List.replicate (44 * (k0 + 1)) (0 : UInt8) = sentinel ++ List.replicate (44 * k0) 0 := by
            simp only [sentinel]
            rw [List.replicate_append_replicate]; congr 1; omega
          rw [this]; exact readNext_sentinel H _
      have hlen := encodeAll_length_ge H hH rs hrs
      have hgoodread : readSegmentPartial H (f.data.length / 45 + 1) f.data = (rs, none) := by
        rw [hdata]
        exact readSegmentPartial_encodeAll H hH rs hrs _ hzero
      simp only [replaySegs, hf, hgoodread] at hgood
      cases h2 : replayRecs kind s.lastPersisted rs a1 with
      | error e => simp [h2] at hgood
      | ok a2 =>
        -- the truncated segment
        have pt := partial_truncated H hH rs hrs n (f'.data.length / 45 + 1 + rs.length) (by omega)
        rw [← hdata'] at pt
        obtain ⟨k, hk, p1, p2⟩ := pt
        -- fuel: any fuel above the number of records reads the same
        have hfuel : readSegmentPartial H (f'.data.length / 45 + 1) f'.data =
            readSegmentPartial H (f'.data.length / 45 + 1 + rs.length) f'.data := by
          have key : ∀ (f1 f2 : Nat) (bs : Bytes), bs.length / 45 < f1 → bs.length / 45 < f2 →
              readSegmentPartial H f1 bs = readSegmentPartial H f2 bs := by
            intro f1
            induction f1 with
            | zero => intro f2 bs h; omega
            | succ f1 ih =>
              intro f2 bs h1' h2'
              cases f2 with
              | zero => omega
              | succ f2 =>
                simp only [readSegmentPartial]
                cases hn : readNext H bs with
                | done => rfl
                | err e => rfl
                | entry r rest =>
                  have := readNext_entry_len H hn
                  simp only
                  rw [ih f2 rest (by omega) (by omega)]
          exact key _ _ _ (by omega) (by omega)
        have hsplitrs : rs = rs.take k ++ rs.drop k := (List.take_append_drop k rs).symm
        have h3 : ∃ acc, replayRecs kind s.lastPersisted (rs.take k) a1 = .ok acc := by
          rw [hsplitrs, replayRecs_append] at h2
          cases h4 : replayRecs kind s.lastPersisted (rs.take k) a1 with
          | error e => simp [h4] at h2
          | ok acc => exact ⟨acc, rfl⟩
        obtain ⟨acc, h3⟩ := h3
        simp only [replaySegs, hf']
        rw [hfuel]
        rcases p2 with p2 | p2
        · right
          refine ⟨s, a1, k, acc, rfl, h1, hk, h3, ?_⟩
          have : readSegmentPartial H (f'.data.length / 45 + 1 + rs.length) f'.data =
              (rs.take k, none) := by
            rw [← p1, ← p2]
          rw [this]
          simp only [h3]
        · left
          have : readSegmentPartial H (f'.data.length / 45 + 1 + rs.length) f'.data =
              (rs.take k, some .shortPayload) := by
            rw [← p1, ← p2]
          rw [this]
          simp only [h3]

end CasModel
