import CasModel.Props.C03Store
import CasModel.Proofs.ApiSim
/-
  C20 for EVERY script, at EVERY instant.  `WellFormed hists d`: the on-disk log and snapshot of
  disk `d` are well formed in the sense recovery needs, for a logged history `hist ∈ hists`:
  segment files decode — in id order — to segments whose records sit in segment `(version-1)/N`,
  versions in the history are strictly increasing (never reused), the index file loads to the state
  after the records up to its version, and every logged record above that version is present, in
  order.  `Recoverable.wellFormed`: every recoverable disk is well formed; hence after every
  prefix of the script of a put, a remove / remove_range, a checkpoint and of `open` itself
  (`putScript_sim`, `removeScript_sim`, `checkpoint_sim`, `open_sim`: every prefix is recoverable).
-/
namespace CasModel
open Ghost

variable (H : Bytes → Bytes) (kind : KeyKind) (sz : Bytes → Nat) (N : Nat)

def WellFormed (hists : List (Recs Bytes)) (d : Disk) : Prop :=
  ∃ (g : GDisk (KMap Bytes) Bytes) (hist : Recs Bytes) (s : IndexState Bytes), hist ∈ hists ∧
    segsOf H d (segIds d) = some g.segs ∧
    loadSnapshot kind d = .ok s ∧ s.map = g.snapState ∧ s.lastPersisted = g.snapVer ∧
    IdxInv kind.lt sz s ∧
    Incr hist ∧ SegSorted g.segs ∧ (∀ sg ∈ g.segs, ∀ e ∈ sg.2, Ghost.segOf N e.1 = sg.1) ∧
    run (stepM kind) [] (upto g.snapVer hist) = .ok g.snapState ∧
    above g.snapVer (flat g.segs) = above g.snapVer hist

theorem Recoverable.wellFormed (hH : Hash32 H) (hists : List (Recs Bytes)) (d : Disk)
    (r : Recoverable H kind sz N hists d) : WellFormed H kind sz N hists d := by
  obtain ⟨sys, hist, hmem, c⟩ := r
  obtain ⟨s, hl, hm, hv, hinv⟩ := c.rel.snap
  exact ⟨sys.g, hist, s, hmem, segRel_abs H hH _ c.rel.wf _ c.rel.segs, hl, hm, hv, hinv,
    c.good.ginv.incr, c.good.sorted, c.good.placed, c.good.ginv.snap, c.good.ginv.recs⟩

theorem allPre_wellFormed (hH : Hash32 H) (hists : List (Recs Bytes)) (d : Disk) (evs : List Ev)
    (h : AllPre (Recoverable H kind sz N hists) d evs) :
    AllPre (WellFormed H kind sz N hists) d evs :=
  fun j => (h j).wellFormed H kind sz N hH hists _

/-- **C20: every instant of a put** (staging, rename, roll-over, record, deletions, roll-over
    checkpoint) -/
theorem C20_put_wellformed_bytes (so : StrictOrder kind.lt) (hH : Hash32 H) (m : Mem)
    (sys : Sys (KMap Bytes) Bytes) (hist : Recs Bytes) (d : Disk)
    (t : Tied H kind sz N m sys hist d) (tn : Nat) (key : Bytes) (chunks : List Bytes)
    (hraw : (RawOp.put key (H chunks.flatten) (chunks.map List.length).sum).WF)
    (hconv : kind.valid key = true)
    (hop : (chunks.map List.length).sum = sz (H chunks.flatten))
    (hwf : (⟨m.next, serWalOp (.put key (H chunks.flatten) (chunks.map List.length).sum)⟩ : Rec).WF)
    (hsave : ∀ idx' un, applyOp kind.lt m.idx
        (.put key (H chunks.flatten) (chunks.map List.length).sum) = .ok (idx', un) → SaveOK kind idx')
    (hver : m.next + 1 < U64) :
    AllPre (WellFormed H kind sz N
      [hist, hist ++ [(m.next, serWalOp (.put key (H chunks.flatten) (chunks.map List.length).sum))]])
      d (putScript H m d tn key chunks).1 :=
  allPre_wellFormed H kind sz N hH _ d _
    (putScript_sim H kind sz N so hH m sys hist d t tn key chunks hraw hconv hop hwf hsave hver).2.1

/-- **C20: every instant of a checkpoint** (index.tmp being built, the rename, every prune) -/
theorem C20_checkpoint_wellformed_bytes (so : StrictOrder kind.lt) (hH : Hash32 H)
    (reason : CkptReason) (m : Mem) (sys : Sys (KMap Bytes) Bytes) (hist : Recs Bytes)
    (d dAny : Disk) (t : Tied H kind sz N m sys hist d) (hsave : SaveOK kind m.idx)
    (hver : m.next < U64) :
    AllPre (WellFormed H kind sz N [hist]) d (checkpointScript reason m dAny).1 :=
  allPre_wellFormed H kind sz N hH _ d _
    (checkpoint_sim H kind sz N so reason m sys hist d dAny t hsave hver [hist] (by simp)).1

/-- **C20: every instant of `open`** on any recoverable disk (a crash image included): settings,
    creation of the next segment, after-replay checkpoint -/
theorem C20_open_wellformed_bytes (so : StrictOrder kind.lt) (hH : Hash32 H) (cfg : Config)
    (hk : cfg.kind = kind) (hn : cfg.N = N) (hists : List (Recs Bytes)) (d0 : Disk)
    (r : Recoverable H kind sz N hists d0)
    (e1 : List Ev) (pre : Bool) (hg : settingsGate cfg d0 = .ok (e1, pre))
    (hsave : ∀ a, logical H kind (d0.applyAll e1) = .ok a → SaveOK kind a.idx ∧ a.highest + 1 < U64) :
    ∃ hist ∈ hists, AllPre (WellFormed H kind sz N [hist]) d0 (openBody H cfg d0).1 := by
  obtain ⟨hist, hm, _, _, _, hpre, _⟩ :=
    open_of_recoverable H kind sz N so hH cfg hk hn hists d0 r e1 pre hg hsave
  exact ⟨hist, hm, allPre_wellFormed H kind sz N hH _ d0 _ hpre⟩

/-- **C20 over a whole session**: well-formedness at every instant of operation `i` of any
    sequence of logged operations -/
theorem C20_commit_wellformed_all (so : StrictOrder kind.lt) (hH : Hash32 H) (m : Mem)
    (sys : Sys (KMap Bytes) Bytes) (hist : Recs Bytes) (d : Disk)
    (t : Tied H kind sz N m sys hist d) (op : Op Bytes) (raw : RawOp)
    (hraw : raw.WF) (hconv : fromRaw kind raw = some op) (hop : OpOK sz op)
    (hwf : (⟨m.next, serWalOp raw⟩ : Rec).WF)
    (hsave : ∀ idx' un, applyOp kind.lt m.idx op = .ok (idx', un) → SaveOK kind idx')
    (hver : m.next + 1 < U64) :
    ∃ evs m', logAndApply H m d op raw = .ok (evs, m') ∧
      AllPre (WellFormed H kind sz N [hist, hist ++ [(m.next, serWalOp raw)]]) d evs ∧
      ∃ sys', Tied H kind sz N m' sys' (hist ++ [(m.next, serWalOp raw)]) (d.applyAll evs) := by
  obtain ⟨evs, m', hrun, hpre, ht⟩ :=
    logAndApply_sim H kind sz N so hH m sys hist d t op raw hraw hconv hop hwf hsave hver
  exact ⟨evs, m', hrun, allPre_wellFormed H kind sz N hH _ d _ hpre, ht⟩

end CasModel
