import CasModel.Props.C03Live
/-
  The usage guards of the history theorems are SATISFIABLE, and by every store one would call
  reasonable: `PutOK`, `RemoveOK`, `RangeOK` and the snapshot/version part of `OpenOK` follow from a
  simple size invariant (`Roomy`): keys valid for the key kind and shorter than 2^16 bytes, fewer
  than `b` keys and `b` operations so far with `b + 2 < 2^32`.  `Roomy` holds in a fresh store and
  is kept by every operation with the counter going up by one — so for every history of fewer than
  2^32 - 2 operations on such keys the guards hold at every step; none of the theorems that assume
  them is vacuous.  (What stays a hypothesis: a settings file that passes the gate is found by every
  `open`; contents are among those the hash is collision-free on, `P`.)
-/
namespace CasModel
open Ghost

/-! ### the key map after an operation: members and size -/

theorem kInsert_mem {lt : Bytes → Bytes → Bool} (m : KMap Bytes) (k : Bytes) (v : Item) (e : Bytes × Item)
    (h : e ∈ (kInsert lt m k v).1) : e = (k, v) ∨ e ∈ m := by
  induction m with
  | nil => simp [kInsert] at h; exact Or.inl h
  | cons a m ih =>
    obtain ⟨k', v'⟩ := a
    simp only [kInsert] at h
    split at h
    · simp only [List.mem_cons] at h
      rcases h with h | h
      · exact Or.inl h
      · exact Or.inr (by simp [h])
    · split at h
      · simp only [List.mem_cons] at h
        rcases h with h | h | h
        · exact Or.inl h
        · exact Or.inr (by simp [h])
        · exact Or.inr (by simp [h])
      · simp only [List.mem_cons] at h
        rcases h with h | h
        · exact Or.inr (by simp [h])
        · rcases ih h with h | h
          · exact Or.inl h
          · exact Or.inr (by simp [h])

theorem kInsert_length {lt : Bytes → Bytes → Bool} (m : KMap Bytes) (k : Bytes) (v : Item) :
    (kInsert lt m k v).1.length ≤ m.length + 1 := by
  induction m with
  | nil => simp [kInsert]
  | cons a m ih =>
    obtain ⟨k', v'⟩ := a
    simp only [kInsert]
    split
    · simp
    · split
      · simp
      · simp only [List.length_cons]; omega

theorem kErase_length (m : KMap Bytes) (k : Bytes) : (kErase m k).1.length ≤ m.length := by
  induction m with
  | nil => simp [kErase]
  | cons a m ih =>
    obtain ⟨k', v'⟩ := a
    simp only [kErase]
    split
    · simp
    · simp only [List.length_cons]; omega

theorem mapApply_mem (lt : Bytes → Bytes → Bool) (m : KMap Bytes) (op : Op Bytes) (e : Bytes × Item)
    (h : e ∈ mapApply lt m op) :
    e ∈ m ∨ ∃ k hh size, op = .put k hh size ∧ e = (k, ⟨hh, size⟩) := by
  cases op with
  | put k hh size =>
    rcases kInsert_mem m k ⟨hh, size⟩ e h with h | h
    · exact Or.inr ⟨k, hh, size, rfl, h⟩
    · exact Or.inl h
  | remove ks =>
    left
    simp only [mapApply] at h
    induction ks generalizing m with
    | nil => exact h
    | cons k ks ih =>
      simp only [List.foldl_cons] at h
      exact kErase_mem m k e (ih _ h)

theorem mapApply_length (lt : Bytes → Bytes → Bool) (m : KMap Bytes) (op : Op Bytes) :
    (mapApply lt m op).length ≤ m.length + 1 := by
  cases op with
  | put k hh size => exact kInsert_length m k _
  | remove ks =>
    simp only [mapApply]
    have : ∀ (m : KMap Bytes), (ks.foldl (fun m k => (kErase m k).1) m).length ≤ m.length := by
      induction ks with
      | nil => intro m; exact Nat.le_refl _
      | cons k ks ih =>
        intro m
        simp only [List.foldl_cons]
        exact Nat.le_trans (ih _) (kErase_length m k)
    exact Nat.le_trans (this m) (Nat.le_succ _)

/-- the commit of one record advances the version counter by one -/
theorem logAndApply_next (H : Bytes → Bytes) (m : Mem) (d : Disk) (op : Op Bytes) (raw : RawOp)
    (evs : List Ev) (m' : Mem) (h : logAndApply H m d op raw = .ok (evs, m')) : m'.next = m.next + 1 := by
  cases ha : applyOp m.cfg.kind.lt m.idx op with
  | error e => unfold logAndApply at h; simp [ha] at h
  | ok r =>
    obtain ⟨idx', unref⟩ := r
    have hp := logAndApply_parts H m d op raw idx' unref ha
    simp only at hp
    rw [hp] at h
    injection h with h; injection h with _ h2
    rw [← h2]
    have hck : ∀ (r : CkptReason) (mm : Mem) (dd : Disk), (checkpointScript r mm dd).2.next = mm.next := by
      intro r mm dd
      unfold checkpointScript
      cases ckptTarget r mm.next mm.idx.lastPersisted <;> rfl
    have key : ∀ (c : Prop) [Decidable c] (x y : List Ev × Mem), x.2.next = m.next + 1 →
        y.2.next = m.next + 1 → (if c then x else y).2.next = m.next + 1 := by
      intro c _ x y hx hy; split <;> assumption
    exact key _ _ _ (hck _ _ _) rfl

variable (H : Bytes → Bytes) (kind : KeyKind) (sz : Bytes → Nat) (N : Nat)

/-- a key one would call reasonable: valid for the key kind, shorter than 64 KiB -/
def SmallKey (k : Bytes) : Prop := kind.valid k = true ∧ k.length < 2 ^ 16

/-- the size invariant: reasonable keys, well-formed entries, at most `b` keys and `b` operations -/
structure Roomy (b : Nat) (m : Mem) : Prop where
  keys : ∀ e ∈ m.idx.map, SmallKey kind e.1
  ents : ∀ e ∈ m.idx.map, e.2.hash.length = 32 ∧ e.2.size < U64
  count : m.idx.map.length ≤ b
  next : 0 < m.next ∧ m.next ≤ b + 1

theorem saveOK_of (mp : KMap Bytes) (s : IndexState Bytes) (hs : s.map = mp)
    (keys : ∀ e ∈ mp, SmallKey kind e.1) (ents : ∀ e ∈ mp, e.2.hash.length = 32 ∧ e.2.size < U64)
    (count : mp.length < U32) : SaveOK kind s := by
  intro ver hver
  refine ⟨?_, ?_, by rw [hs]; exact count, hver⟩
  · intro e he; rw [hs] at he; exact (keys e he).1
  · intro e he
    rw [hs] at he
    simp only [entriesOf, List.mem_map] at he
    obtain ⟨x, hx, rfl⟩ := he
    have hk := (keys x hx).2
    refine ⟨?_, (ents x hx).1, (ents x hx).2⟩
    show x.1.length < U32
    have : (2:Nat) ^ 16 < U32 := by decide
    omega

theorem roomy_fresh (cfg : Config) : Roomy kind 0 { cfg := cfg } :=
  ⟨(by intro e he; cases he), (by intro e he; cases he), Nat.le_refl _, ⟨Nat.lt_of_sub_eq_succ rfl, Nat.le_refl _⟩⟩

/-- what the key map looks like after one record, in terms of `Roomy` -/
theorem roomy_step (b : Nat) (m : Mem) (r : Roomy kind b m) (op : Op Bytes)
    (hop : ∀ k hh size, op = .put k hh size → SmallKey kind k ∧ hh.length = 32 ∧ size < U64) :
    (∀ e ∈ mapApply kind.lt m.idx.map op, SmallKey kind e.1) ∧
    (∀ e ∈ mapApply kind.lt m.idx.map op, e.2.hash.length = 32 ∧ e.2.size < U64) ∧
    (mapApply kind.lt m.idx.map op).length ≤ b + 1 := by
  refine ⟨?_, ?_, Nat.le_trans (mapApply_length _ _ _) (by have := r.count; omega)⟩
  · intro e he
    rcases mapApply_mem _ _ _ e he with h | ⟨k, hh, size, ho, rfl⟩
    · exact r.keys e h
    · exact (hop k hh size ho).1
  · intro e he
    rcases mapApply_mem _ _ _ e he with h | ⟨k, hh, size, ho, rfl⟩
    · exact r.ents e h
    · exact (hop k hh size ho).2

theorem serKeys_length_le (ks : List Bytes) (c : Nat) (h : ∀ k ∈ ks, k.length < c) :
    (serKeys ks).length ≤ ks.length * (c + 4) := by
  induction ks with
  | nil => simp [serKeys]
  | cons k ks ih =>
    have hk := h k (by simp)
    have := ih (fun k' hk' => h k' (by simp [hk']))
    simp only [serKeys, serKey, List.length_append, leBytes_length, List.length_cons]
    rw [Nat.add_mul]
    omega

/-- **`PutOK` holds in every roomy state** for a reasonable key and a content the hash is
    collision-free on -/
theorem putOK_of_roomy (hH : Hash32 H) (P : Bytes → Prop) (b : Nat) (m : Mem) (r : Roomy kind b m)
    (hb : b + 2 < U32) (key : Bytes) (chunks : List Bytes) (hk : SmallKey kind key)
    (hP : P chunks.flatten) (hlen : chunks.flatten.length < U64) :
    PutOK H kind P m key chunks := by
  have hsum : (chunks.map List.length).sum = chunks.flatten.length := by rw [List.length_flatten]
  have h16 : (2:Nat) ^ 16 + 100 < U32 := by decide
  have h3264 : U32 < U64 := by decide
  refine ⟨hP, ⟨?_, hH _, by rw [hsum]; exact hlen⟩, hk.1, ⟨r.next.1, ?_, ?_, ?_⟩, ?_, ?_⟩
  · show key.length < U32
    have := hk.2; omega
  · show m.next < U64
    have := r.next.2; omega
  · simp [serWalOp]
  · show (serWalOp (.put key (H chunks.flatten) (chunks.map List.length).sum)).length < U32
    simp only [serWalOp, serKey, List.length_cons, List.length_append, leBytes_length, hH _]
    have := hk.2; omega
  · intro idx' un ha
    have hmap := applyOp_map kind.lt m.idx idx' _ un ha
    obtain ⟨a1, a2, a3⟩ := roomy_step kind b m r (.put key (H chunks.flatten) (chunks.map List.length).sum)
      (by
        intro k hh size ho
        injection ho with e1 e2 e3
        subst e1 e2 e3
        exact ⟨hk, hH _, by rw [hsum]; exact hlen⟩)
    exact saveOK_of kind _ idx' hmap a1 a2 (by omega)
  · have := r.next.2; omega

/-- **`RemoveOK` holds in every roomy state** for a reasonable key -/
theorem removeOK_of_roomy (b : Nat) (m : Mem) (r : Roomy kind b m) (hb : b + 2 < U32)
    (key : Bytes) (hk : SmallKey kind key) : RemoveOK kind m key := by
  have h16 : (2:Nat) ^ 16 + 100 < U32 := by decide
  have h3264 : U32 < U64 := by decide
  refine ⟨⟨by simp [U32], ?_⟩, hk.1, ⟨r.next.1, ?_, ?_, ?_⟩, ?_, ?_⟩
  · intro k hk'
    simp only [List.mem_singleton] at hk'; subst hk'
    show k.length < U32
    have := hk.2; omega
  · show m.next < U64
    have := r.next.2; omega
  · simp [serWalOp]
  · show (serWalOp (.remove [key])).length < U32
    simp only [serWalOp, serKeys, serKey, List.length_cons, List.length_append, leBytes_length,
      List.length_nil]
    have := hk.2; omega
  · intro idx' un ha
    have hmap := applyOp_map kind.lt m.idx idx' _ un ha
    obtain ⟨a1, a2, a3⟩ := roomy_step kind b m r (.remove [key]) (by intro k hh size ho; cases ho)
    exact saveOK_of kind _ idx' hmap a1 a2 (by omega)
  · have := r.next.2; omega

theorem rangeKeys_sub (m : Mem) (lo hi : Bound) :
    (∀ k ∈ rangeKeys m lo hi, ∃ e ∈ m.idx.map, e.1 = k) ∧ (rangeKeys m lo hi).length ≤ m.idx.map.length := by
  unfold rangeKeys
  constructor
  · intro k hk
    simp only [List.mem_map, List.mem_filter] at hk
    obtain ⟨e, ⟨he, _⟩, rfl⟩ := hk
    exact ⟨e, he, rfl⟩
  · rw [List.length_map]; exact List.length_filter_le _ _

/-- **`RangeOK` holds in every roomy state** of at most 2^15 keys (the record of a range removal
    names every key it removes and must fit a u32 length) -/
theorem rangeOK_of_roomy (b : Nat) (m : Mem) (r : Roomy kind b m) (hb : b ≤ 2 ^ 15)
    (lo hi : Bound) : RangeOK kind m lo hi := by
  obtain ⟨hsub, hlen⟩ := rangeKeys_sub m lo hi
  have hc := r.count
  have hsmall : ∀ k ∈ rangeKeys m lo hi, SmallKey kind k := by
    intro k hk
    obtain ⟨e, he, rfl⟩ := hsub k hk
    exact r.keys e he
  have hU : (2:Nat) ^ 15 * (2 ^ 16 + 4) + 5 < U32 := by decide
  have h3264 : U32 < U64 := by decide
  have h15 : (2:Nat) ^ 15 + 2 < U32 := by decide
  refine ⟨⟨by omega, ?_⟩, ?_, ⟨r.next.1, ?_, ?_, ?_⟩, ?_, ?_⟩
  · intro k hk
    show k.length < U32
    have := (hsmall k hk).2
    have : (2:Nat) ^ 16 < U32 := by decide
    omega
  · simp only [List.all_eq_true]
    intro k hk; exact (hsmall k hk).1
  · show m.next < U64
    have := r.next.2; omega
  · simp [serWalOp]
  · show (serWalOp (.remove (rangeKeys m lo hi))).length < U32
    simp only [serWalOp, List.length_cons, List.length_append, leBytes_length]
    have h1 := serKeys_length_le (rangeKeys m lo hi) (2 ^ 16) (fun k hk => (hsmall k hk).2)
    have h2 : (rangeKeys m lo hi).length * (2 ^ 16 + 4) ≤ 2 ^ 15 * (2 ^ 16 + 4) :=
      Nat.mul_le_mul_right _ (by omega)
    omega
  · intro idx' un ha
    have hmap := applyOp_map kind.lt m.idx idx' _ un ha
    obtain ⟨a1, a2, a3⟩ := roomy_step kind b m r (.remove (rangeKeys m lo hi))
      (by intro k hh size ho; cases ho)
    exact saveOK_of kind _ idx' hmap a1 a2 (by omega)
  · have := r.next.2; omega

/-- one committed record keeps the store roomy, with the counter one up -/
theorem roomy_commit (b : Nat) (m : Mem) (r : Roomy kind b m) (hkind : m.cfg.kind = kind) (d : Disk)
    (op : Op Bytes) (raw : RawOp) (evs : List Ev) (m' : Mem)
    (h : logAndApply H m d op raw = .ok (evs, m'))
    (hop : ∀ k hh size, op = .put k hh size → SmallKey kind k ∧ hh.length = 32 ∧ size < U64) :
    Roomy kind (b + 1) m' := by
  have hn := logAndApply_next H m d op raw evs m' h
  cases ha : applyOp m.cfg.kind.lt m.idx op with
  | error e => unfold logAndApply at h; simp [ha] at h
  | ok x =>
    obtain ⟨idx', unref⟩ := x
    obtain ⟨evs3, m3, hla3, ⟨hm1, _, _, _, _⟩, _⟩ := logAndApply_spec H m d op raw idx' unref ha
    rw [h] at hla3; injection hla3 with hla3; injection hla3 with _ e2; subst e2
    rw [hkind] at ha
    have hmap := applyOp_map kind.lt m.idx idx' _ unref ha
    obtain ⟨a1, a2, a3⟩ := roomy_step kind b m r op hop
    refine ⟨?_, ?_, ?_, ?_⟩
    · rw [hm1, hmap]; exact a1
    · rw [hm1, hmap]; exact a2
    · rw [hm1, hmap]; exact a3
    · rw [hn]; have := r.next; omega

theorem roomy_mono (b b' : Nat) (m : Mem) (r : Roomy kind b m) (h : b ≤ b') : Roomy kind b' m :=
  ⟨r.keys, r.ents, Nat.le_trans r.count h, r.next.1, Nat.le_trans r.next.2 (by omega)⟩

/-- a completed put keeps the store roomy -/
theorem roomy_put (hH : Hash32 H) (b : Nat) (m : Mem) (r : Roomy kind b m) (hkind : m.cfg.kind = kind)
    (d : Disk) (tn : Nat) (key : Bytes) (chunks : List Bytes) (hk : SmallKey kind key)
    (hlen : chunks.flatten.length < U64) (evs : List Ev) (m' : Mem)
    (hrun : putScript H m d tn key chunks = (evs, m', .ok)) : Roomy kind (b + 1) m' := by
  obtain ⟨evs2, hla, _⟩ := putScript_split H m d tn key chunks evs m' hrun
  refine roomy_commit H kind b m r hkind _ _ _ evs2 m' hla ?_
  intro k hh size ho
  injection ho with e1 e2 e3
  subst e1 e2 e3
  exact ⟨hk, hH _, by rw [List.length_flatten] at hlen; exact hlen⟩

/-- a completed remove keeps the store roomy -/
theorem roomy_remove (b : Nat) (m : Mem) (r : Roomy kind b m) (hkind : m.cfg.kind = kind)
    (d : Disk) (key : Bytes) (evs : List Ev) (m' : Mem) (bb : Bool)
    (hrun : removeScript H m d key = (evs, m', .ok bb)) : Roomy kind (b + 1) m' := by
  unfold removeScript at hrun
  split at hrun
  · simp only [Prod.mk.injEq] at hrun
    rw [← hrun.2.1]; exact roomy_mono kind b (b + 1) m r (Nat.le_succ _)
  · split at hrun
    · simp at hrun
    · rename_i evs2 m2 hla
      simp only [Prod.mk.injEq] at hrun
      rw [← hrun.2.1]
      exact roomy_commit H kind b m r hkind d _ _ evs2 m2 hla (by intro k hh size ho; cases ho)

/-- a completed range removal keeps the store roomy -/
theorem roomy_removeRange (b : Nat) (m : Mem) (r : Roomy kind b m) (hkind : m.cfg.kind = kind)
    (d : Disk) (lo hi : Bound) (evs : List Ev) (m' : Mem) (n : Nat)
    (hrun : removeRangeScript H m d lo hi = (evs, m', .ok n)) : Roomy kind (b + 1) m' := by
  unfold removeRangeScript at hrun
  simp only at hrun
  by_cases he : (rangeKeys m lo hi).isEmpty = true
  · simp only [he, ↓reduceIte, Prod.mk.injEq] at hrun
    rw [← hrun.2.1]; exact roomy_mono kind b (b + 1) m r (Nat.le_succ _)
  · simp only [he, Bool.false_eq_true, ↓reduceIte] at hrun
    split at hrun
    · simp at hrun
    · rename_i evs2 m2 hla
      simp only [Prod.mk.injEq] at hrun
      rw [← hrun.2.1]
      exact roomy_commit H kind b m r hkind d _ _ evs2 m2 hla (by intro k hh size ho; cases ho)

/-- a checkpoint keeps the store roomy -/
theorem roomy_checkpoint (b : Nat) (m : Mem) (r : Roomy kind b m) (reason : CkptReason) (d : Disk) :
    Roomy kind b (checkpointScript reason m d).2 := by
  have hm := (checkpointScript_map reason m d).1
  have hn : (checkpointScript reason m d).2.next = m.next := by
    unfold checkpointScript
    cases ckptTarget reason m.next m.idx.lastPersisted <;> rfl
  exact ⟨by rw [hm]; exact r.keys, by rw [hm]; exact r.ents, by rw [hm]; exact r.count, by rw [hn]; exact r.next⟩

/-- the next version recovery computes is at most the one the live handle would have used -/
theorem recover_next_le {S R E : Type} (step : S → R → Except E S) (g : GDisk S R) (nx : Nat)
    (h1 : g.snapVer < nx) (h2 : ∀ e ∈ flat g.segs, e.1 < nx) (st : S) (n : Nat)
    (hr : recover step g = .ok (st, n)) : n ≤ nx := by
  simp only [recover, replayFrom_eq] at hr
  split at hr
  · cases hr
  · rename_i s hi heq
    split at heq
    · cases heq
    · injection heq with heq
      injection heq with _ e2
      injection hr with hr
      injection hr with _ e3
      rw [← e3, ← e2]
      have := maxVer_le g.snapVer (flat g.segs) (nx - 1) (by omega) (fun e he => by have := h2 e he; omega)
      omega

/-- **the snapshot/version part of `OpenOK` holds for every image a roomy live handle leaves**
    after events that touch neither segment nor index files (the drop, a kill between operations) -/
theorem openOK_of_tied (so : StrictOrder kind.lt) (hH : Hash32 H) (b : Nat) (m : Mem)
    (sys : Sys (KMap Bytes) Bytes) (hist : Recs Bytes) (d : Disk) (t : Tied H kind sz N m sys hist d)
    (r : Roomy kind b m) (hb : b + 2 < U32) (evs : List Ev)
    (hfree : ∀ e ∈ evs, e.segFree = true ∧ e.indexFree = true) (cfg : Config)
    (hgate : ∃ e1 pre, settingsGate cfg (d.applyAll evs) = .ok (e1, pre)) :
    OpenOK H kind cfg (d.applyAll evs) := by
  obtain ⟨e1, pre, hg⟩ := hgate
  refine ⟨e1, pre, hg, ?_⟩
  intro a' hlog
  have c1 := (t.cfg.toDCfg.freeAll H kind sz N sys hist d evs hfree).freeAll H kind sz N sys hist _ e1
    (settingsGate_free cfg _ e1 pre hg)
  obtain ⟨a, hl, hrun, _, _, _, _, hrec⟩ := c1.recovers H hH kind so sz N sys hist _
  rw [hl] at hlog; injection hlog with hlog; subst hlog
  have hmap : a.idx.map = m.idx.map := by
    rw [t.mem_eq H kind sz N] at hrun; injection hrun with hrun; exact hrun.symm
  obtain ⟨_, _, m3, m4⟩ := t.cfg.good.mem t.cfg.up
  have hle := recover_next_le (stepM kind) sys.g sys.next m3 m4 _ _ hrec
  have h3264 : U32 < U64 := by decide
  refine ⟨saveOK_of kind _ a.idx hmap r.keys r.ents (by have := r.count; omega), ?_⟩
  rw [t.next] at hle
  have := r.next.2
  omega

/-- after `open` on such an image the store is roomy again (same keys, a version counter that is
    not larger) -/
theorem roomy_open (so : StrictOrder kind.lt) (hH : Hash32 H) (b : Nat) (m : Mem)
    (sys : Sys (KMap Bytes) Bytes) (hist : Recs Bytes) (d : Disk) (t : Tied H kind sz N m sys hist d)
    (r : Roomy kind b m) (evs : List Ev)
    (hfree : ∀ e ∈ evs, e.segFree = true ∧ e.indexFree = true) (cfg : Config)
    (hk : cfg.kind = kind) (hn : cfg.N = N) (ho : OpenOK H kind cfg (d.applyAll evs))
    (m2 : Mem) (sc : ScanOut) (hres : (openBody H cfg (d.applyAll evs)).2 = .ok (m2, sc)) :
    Roomy kind b m2 := by
  obtain ⟨e1, pre, hg, hsv⟩ := ho
  have c0 := (t.cfg.toDCfg.freeAll H kind sz N sys hist d evs hfree).crash H kind sz N sys hist _
  obtain ⟨acc, hl, hrun, _, _, mm, sys', hmm, hmap2, hnext2, _, _⟩ :=
    open_sim_full H kind sz N so hH cfg hk hn _ hist _ c0 rfl e1 pre hg hsv
  have hm2 := hmm m2 sc hres
  subst hm2
  have hmap : m2.idx.map = m.idx.map := by
    rw [hmap2]; rw [t.mem_eq H kind sz N] at hrun; injection hrun with hrun; exact hrun.symm
  -- the version counter
  have c1 := (t.cfg.toDCfg.freeAll H kind sz N sys hist d evs hfree).freeAll H kind sz N sys hist _ e1
    (settingsGate_free cfg _ e1 pre hg)
  obtain ⟨a, hl', _, _, _, _, _, hrec⟩ := c1.recovers H hH kind so sz N sys hist _
  rw [hl] at hl'; injection hl' with hl'; subst hl'
  obtain ⟨_, _, m3, m4⟩ := t.cfg.good.mem t.cfg.up
  have hle := recover_next_le (stepM kind) sys.g sys.next m3 m4 _ _ hrec
  rw [t.next] at hle
  exact ⟨by rw [hmap]; exact r.keys, by rw [hmap]; exact r.ents, by rw [hmap]; exact r.count,
    by rw [hnext2]; exact ⟨Nat.succ_pos _, Nat.le_trans hle r.next.2⟩⟩

/-- operations whose guards `Roomy` discharges outright (no `open` among them, so no settings file
    is consulted): puts of collision-free contents under reasonable keys, removes of reasonable
    keys, checkpoints, abandoned transactions -/
def SmallOp (P : Bytes → Prop) : LOp → Prop
  | .put k c => SmallKey kind k ∧ P c.flatten ∧ c.flatten.length < U64
  | .remove k => SmallKey kind k
  | .checkpoint => True
  | .abandon _ => True
  | _ => False

/-- **the guards of the history theorems hold for every history of fewer than 2^32 - 2 such
    operations from any roomy live store** (e.g. a fresh one: `roomy_fresh`, `storeLive_fresh`) — so
    `C03_histories_with_crashes` and its companions are not vacuous -/
theorem liveOK_of_small (so : StrictOrder kind.lt) (hH : Hash32 H) (P : Bytes → Prop) (hinj : Inj H sz P)
    (cfg : Config) (ops : List LOp) :
    ∀ (b : Nat) (m : Mem) (sys : Sys (KMap Bytes) Bytes) (hist : Recs Bytes) (d : Disk) (spec : Spec)
      (tn : Nat), StoreLive H kind sz N m sys hist d spec tn → (∀ k c, spec k = some c → P c) →
      Roomy kind b m → b + ops.length + 2 < U32 → (∀ op ∈ ops, SmallOp kind P op) →
      LiveOK H kind P cfg m d tn ops := by
  induction ops with
  | nil => intro b m sys hist d spec tn _ _ _ _ _; trivial
  | cons op ops ih =>
    intro b m sys hist d spec tn live hspecP r hb hops
    have hop := hops op (by simp)
    have hrest : ∀ o ∈ ops, SmallOp kind P o := fun o ho => hops o (by simp [ho])
    simp only [List.length_cons] at hb
    have h3264 : U32 < U64 := by decide
    cases op with
    | put key chunks =>
      obtain ⟨hk, hP, hlen⟩ := hop
      have hpo := putOK_of_roomy H kind hH P b m r (by omega) key chunks hk hP hlen
      refine ⟨hpo, ?_⟩
      intro evs m' hrun
      obtain ⟨_, hraw, hval, hwf, hsave, hver⟩ := hpo
      obtain ⟨evs1, m1, sys1, hist1, hrun1, live1⟩ := live.put H kind sz N so hH P hinj m sys hist d spec tn
        hspecP key chunks hP hraw hval hwf hsave hver
      rw [hrun] at hrun1
      simp only [Prod.mk.injEq] at hrun1
      obtain ⟨e1, e2, _⟩ := hrun1
      subst e1 e2
      exact ih (b + 1) m' sys1 hist1 _ _ (tn + 1) live1 (specP_put P spec hspecP key _ hP)
        (roomy_put H kind hH b m r live.tied.kindEq d tn key chunks hk hlen evs m' hrun) (by omega) hrest
    | remove key =>
      have hro := removeOK_of_roomy kind b m r (by omega) key hop
      refine ⟨hro, ?_⟩
      intro evs m' bb hrun
      obtain ⟨hraw, hval, hwf, hsave, hver⟩ := hro
      obtain ⟨evs1, m1, b1, sys1, hist1, hrun1, _, live1⟩ := live.remove H kind sz N so hH m sys hist d spec tn
        key hraw hval hwf hsave hver
      rw [hrun] at hrun1
      simp only [Prod.mk.injEq] at hrun1
      obtain ⟨e1, e2, _⟩ := hrun1
      subst e1 e2
      exact ih (b + 1) m' sys1 hist1 _ _ tn live1 (specP_remove P spec hspecP key)
        (roomy_remove H kind b m r live.tied.kindEq d key evs m' bb hrun) (by omega) hrest
    | checkpoint =>
      have hsv : SaveOK kind m.idx := saveOK_of kind _ m.idx rfl r.keys r.ents (by have := r.count; omega)
      have hver : m.next < U64 := by have := r.next.2; omega
      refine ⟨⟨hsv, hver⟩, ?_⟩
      obtain ⟨sys1, live1⟩ := live.checkpoint H kind sz N so m sys hist d spec tn hsv hver
      exact ih b _ sys1 hist _ _ tn live1 hspecP (roomy_checkpoint kind b m r .explicit d) (by omega) hrest
    | abandon content =>
      exact ih b m sys hist _ _ (tn + 1) (live.abandoned H kind sz N m sys hist d spec tn content) hspecP r
        (by omega) hrest
    | reopen => exact hop.elim
    | putCrash k c j => exact hop.elim
    | removeCrash k j => exact hop.elim
    | reopenCrash j => exact hop.elim
    | checkpointCrash j => exact hop.elim
    | removeRange lo hi => exact hop.elim
    | removeRangeCrash lo hi j => exact hop.elim
    | abandonCrash c j => exact hop.elim

theorem pad_take (c : Bytes) (h : c.length ≤ 31) :
    ((c ++ List.replicate 31 0).take 31).take c.length = c := by
  rw [List.take_take, Nat.min_eq_left h, List.take_left']
  rfl

theorem pad_length (c : Bytes) : ((c ++ List.replicate 31 0).take 31).length = 31 := by
  simp only [List.length_take, List.length_append, List.length_replicate]; omega

/-- the hash hypotheses are satisfiable: a 32-byte function that is collision-free on the
    contents of a given SET, with the size function that goes with it.  (Here: the contents of at
    most 31 bytes, hashed to themselves, zero-padded, with their length in the last byte — any
    finite set of contents has such a function; BLAKE3 is assumed to be one for the contents
    actually stored.) -/
theorem hash_hypotheses_satisfiable :
    ∃ (H : Bytes → Bytes) (sz : Bytes → Nat) (P : Bytes → Prop), Hash32 H ∧ Inj H sz P ∧
      P [1, 2, 3] ∧ P [] := by
  refine ⟨fun c => (c ++ List.replicate 31 0).take 31 ++ [UInt8.ofNat c.length],
    fun h => (h.getD 31 0).toNat, fun c => c.length ≤ 31, ?_, ⟨?_, ?_⟩, by simp, by simp⟩
  · intro x
    show ((x ++ List.replicate 31 0).take 31 ++ [UInt8.ofNat x.length]).length = 32
    rw [List.length_append, pad_length]; rfl
  · intro a b ha hb h
    have h' : (a ++ List.replicate 31 0).take 31 ++ [UInt8.ofNat a.length] =
        (b ++ List.replicate 31 0).take 31 ++ [UInt8.ofNat b.length] := h
    obtain ⟨h1, h2⟩ := List.append_inj h' (by rw [pad_length, pad_length])
    have h3 : UInt8.ofNat a.length = UInt8.ofNat b.length := by simpa using h2
    have h4 := congrArg UInt8.toNat h3
    simp only [UInt8.toNat_ofNat'] at h4
    have h256 : (2:Nat) ^ 8 = 256 := by decide
    have hlen : a.length = b.length := by
      have e1 : a.length % 2 ^ 8 = a.length := Nat.mod_eq_of_lt (by omega)
      have e2 : b.length % 2 ^ 8 = b.length := Nat.mod_eq_of_lt (by omega)
      omega
    rw [← pad_take a ha, ← pad_take b hb, h1, hlen]
  · intro a ha
    show ((((a ++ List.replicate 31 0).take 31 ++ [UInt8.ofNat a.length]).getD 31 0).toNat) = a.length
    rw [List.getD_eq_getElem?_getD, List.getElem?_append_right (by rw [pad_length]; exact Nat.le_refl _),
      pad_length]
    simp only [Nat.sub_self, List.getElem?_cons_zero, Option.getD_some, UInt8.toNat_ofNat']
    have h256 : (2:Nat) ^ 8 = 256 := by decide
    exact Nat.mod_eq_of_lt (by omega)

end CasModel
