import CasModel.Range
/-
  C17 — range reads equal slices of the content for all bounds, for every pattern of short reads.
  `size` is the blob size recorded in the index; C12 proves it equals the content length, which is
  the hypothesis `hsz` here.
-/
namespace CasModel

theorem readLoop_eq (content : Bytes) (fuel : Nat) (picks : List Nat) (off rem : Nat)
    (hf : rem ≤ fuel) (hb : off + rem ≤ content.length) :
    readLoop content fuel picks off rem = (content.drop off).take rem := by
  induction fuel generalizing picks off rem with
  | zero =>
    have : rem = 0 := by omega
    subst this; simp [readLoop]
  | succ f ih =>
    unfold readLoop
    by_cases hr : rem = 0
    · subst hr; simp
    · simp only [hr, ↓reduceIte]
      have havail : min rem (content.length - off) = rem := by omega
      have hk1 : (picks.headD 0) % rem + 1 ≤ rem := by
        have := Nat.mod_lt (picks.headD 0) (Nat.pos_of_ne_zero hr); omega
      have hlen : (readAt content off rem (picks.headD 0)).length = (picks.headD 0) % rem + 1 := by
        simp only [readAt, havail, hr, ↓reduceIte, List.length_take, List.length_drop]
        omega
      rw [hlen]
      simp only [Nat.add_one_ne_zero, ↓reduceIte]
      rw [ih _ _ _ (by omega) (by omega)]
      simp only [readAt, havail, hr, ↓reduceIte]
      generalize (picks.headD 0) % rem + 1 = k at hk1 ⊢
      have : rem = k + (rem - k) := by omega
      conv => rhs; rw [this, List.take_add]
      simp [List.drop_drop, Nat.add_comm]

/-- full statement: for every content, every `start ≤ end` (unbounded naturals, hence in
    particular every u64 pair) and every short-read pattern, `get_range` returns exactly
    `content[min start L, min end L)`, and the buffer it allocates is no larger than that slice. -/
theorem C17_get_range (content : Bytes) (size : Nat) (hsz : size = content.length)
    (picks : List Nat) (s e : Nat) (hse : s ≤ e) :
    ∃ out, getRange content size picks s e = .ok out ∧
      out.bytes = (content.drop (min s content.length)).take
                    (min e content.length - min s content.length) ∧
      out.capacity ≤ content.length ∧ out.capacity = out.bytes.length := by
  subst hsz
  unfold getRange
  by_cases h1 : s ≥ content.length
  · simp only [h1, ↓reduceIte]
    refine ⟨_, rfl, ?_, by simp, by simp⟩
    have : min e content.length - min s content.length = 0 := by omega
    simp [this]
  · simp only [h1, ↓reduceIte]
    unfold readBlobRange
    have h2 : ¬ s > min e content.length := by omega
    simp only [h2, ↓reduceIte]
    by_cases h3 : min e content.length - s = 0
    · simp only [h3, ↓reduceIte]
      refine ⟨_, rfl, ?_, by simp, by simp⟩
      have : min s content.length = s := by omega
      simp [this, h3]
    · simp only [h3, ↓reduceIte]
      refine ⟨_, rfl, ?_, by simp; omega, ?_⟩
      · have : min s content.length = s := by omega
        rw [this]
        exact readLoop_eq _ _ _ _ _ (Nat.le_refl _) (by omega)
      · simp only
        rw [readLoop_eq _ _ _ _ _ (Nat.le_refl _) (by omega)]
        simp; omega

/-- a request with start > end and start < L is rejected -/
theorem C17_inverted_rejected (content : Bytes) (picks : List Nat) (s e : Nat)
    (h1 : s > e) (h2 : s < content.length) :
    getRange content content.length picks s e = .error .invalidRange := by
  unfold getRange readBlobRange
  have : ¬ s ≥ content.length := by omega
  have h3 : s > min e content.length := by omega
  simp [this, h3]

/-- and start ≥ L is the empty slice whatever `end` is (documented behaviour) -/
theorem C17_start_beyond (content : Bytes) (picks : List Nat) (s e : Nat)
    (h : s ≥ content.length) :
    getRange content content.length picks s e = .ok ⟨[], 0⟩ := by
  simp [getRange, h]

example : getRange [1,2,3,4,5] 5 [0,0,7] 1 (2^64-1) = .ok ⟨[2,3,4,5], 4⟩ := by rfl

end CasModel
