import CasModel.Lock
import CasModel.Props.C11Proto
import CasModel.Props.GuardsSat4
import CasModel.Props.C01Closed
import CasModel.Props.C20Closed

/-!
# C11 as a system: several processes, one directory

`Props/C11Proto` decides WHO owns the directory; the history theorems (`C03_closed`, `C09_closed`,
`C01_closed`, …) say what ONE owner after the other does to it — their runs (`lRun`) hand the
directory over by `openBody`, without the lock prologue, and know nothing of other processes.
This file closes the gap:

* once a first `open` has run its prologue, the directory is `LockReady` (both top-level
  directories exist, LOCK exists and is empty), and every event of every script keeps it so at
  every prefix (no script touches LOCK or removes a directory);
* on a `LockReady` directory the prologue is the IDENTITY on the disk (`openPre_identity`): the
  whole refused call changes nothing at all (`refused_open_identity`) — wherever it falls between
  two filesystem calls of the owner (`refused_anywhere`) — and a granted call is `openBody`
  (`granted_open_is_body`);
* hence a multi-process run — steps of the successive owners (`own`) with any number of refused
  calls by other processes in between (`refused`) — is the single-owner run of its `own` steps
  (`mRun_eq_lRun`), and the closed history theorems hold for it word for word
  (`C03_closed_multi`).
-/
namespace CasModel
open Ghost

variable (H : Bytes → Bytes) (kind : KeyKind) (sz : Bytes → Nat) (N : Nat)

/-- both top-level directories exist and LOCK exists and is empty: the state of the lock prologue's
    targets from the first `open` on, for ever -/
def LockReady (d : Disk) : Prop :=
  d.dirs.contains [asciiBytes "staging"] = true ∧ d.dirs.contains [asciiBytes "cas"] = true ∧
  d.get .lock = some ⟨[], 0⟩

/-! ### no script touches LOCK -/

theorem logAndApply_lockfree (m : Mem) (d : Disk) (op : Op Bytes) (raw : RawOp)
    (evs : List Ev) (m' : Mem) (h : logAndApply H m d op raw = .ok (evs, m')) :
    ∀ e ∈ evs, e.touches .lock = false := by
  cases ha : applyOp m.cfg.kind.lt m.idx op with
  | error e => unfold logAndApply at h; simp [ha] at h
  | ok r =>
    obtain ⟨idx', unref⟩ := r
    have hp := logAndApply_parts H m d op raw idx' unref ha
    simp only at hp
    rw [hp] at h
    injection h with h; injection h with h1 _
    intro e he
    rw [← h1] at he
    rcases List.mem_append.mp he with he | he
    · rcases List.mem_append.mp he with he | he
      · rcases List.mem_append.mp he with he | he
        · unfold rollEvents at he
          split at he
          · cases he
          · simp only [List.mem_append, List.mem_singleton] at he
            rcases he with he | he
            · split at he
              · simp only [List.mem_cons, List.not_mem_nil, or_false] at he
                rcases he with rfl | rfl <;> rfl
              · cases he
            · subst he; rfl
        · simp only [List.mem_cons, List.not_mem_nil, or_false] at he
          rcases he with rfl | rfl <;> rfl
      · simp only [List.mem_map] at he
        obtain ⟨x, _, rfl⟩ := he
        rfl
    · have hck : ∀ (r : CkptReason) (mm : Mem) (dd : Disk), ∀ e ∈ (checkpointScript r mm dd).1,
          e.touches .lock = false := by
        intro r mm dd e he
        unfold checkpointScript at he
        split at he
        · cases he
        · simp only [List.mem_append, List.mem_cons, List.not_mem_nil, or_false] at he
          rcases he with (rfl | rfl | rfl | rfl) | he
          · rfl
          · rfl
          · rfl
          · rfl
          · split at he
            · cases he
            · simp only [List.mem_map] at he
              obtain ⟨j, _, rfl⟩ := he
              rfl
      exact ite_fst_all' (P := fun e => e.touches .lock = false) _ _ _ (hck _ _ _) (by simp) e he

theorem checkpointScript_lockfree (r : CkptReason) (mm : Mem) (dd : Disk) :
    ∀ e ∈ (checkpointScript r mm dd).1, e.touches .lock = false := by
  intro e he
  unfold checkpointScript at he
  split at he
  · cases he
  · simp only [List.mem_append, List.mem_cons, List.not_mem_nil, or_false] at he
    rcases he with (rfl | rfl | rfl | rfl) | he
    · rfl
    · rfl
    · rfl
    · rfl
    · split at he
      · cases he
      · obtain ⟨j, _, rfl⟩ := List.mem_map.mp he
        rfl

theorem putScript_lockfree (m : Mem) (d : Disk) (tn : Nat) (key : Bytes)
    (chunks : List Bytes) (evs : List Ev) (m' : Mem)
    (hrun : putScript H m d tn key chunks = (evs, m', .ok)) :
    ∀ e ∈ evs, e.touches .lock = false := by
  obtain ⟨evs2, hla, hevs⟩ := putScript_split H m d tn key chunks evs m' hrun
  intro e he
  rw [hevs] at he
  rcases List.mem_append.mp he with he | he
  · simp only [beginScript, List.mem_append, List.mem_cons, List.not_mem_nil, or_false] at he
    rcases he with ((he | he | he) | he) | he
    · subst he; rfl
    · subst he; rfl
    · split at he
      · simp only [List.mem_singleton] at he; subst he; rfl
      · cases he
    · split at he
      · cases he
      · unfold mkdirsFor at he
        split at he
        · simp only [List.mem_append] at he
          rcases he with he | he <;> (split at he <;> simp at he <;> subst he <;> rfl)
        · cases he
    · subst he; rfl
  · exact logAndApply_lockfree H m _ _ _ evs2 m' hla e he

theorem removeScript_lockfree (m : Mem) (d : Disk) (key : Bytes) :
    ∀ e ∈ (removeScript H m d key).1, e.touches .lock = false := by
  unfold removeScript
  split
  · intro e he; cases he
  · split
    · intro e he; cases he
    · rename_i evs2 m2 hla
      exact logAndApply_lockfree H m d _ _ evs2 m2 hla

theorem removeRangeScript_lockfree (m : Mem) (d : Disk) (lo hi : Bound) :
    ∀ e ∈ (removeRangeScript H m d lo hi).1, e.touches .lock = false := by
  unfold removeRangeScript
  simp only
  by_cases he : (rangeKeys m lo hi).isEmpty = true
  · simp only [he, ↓reduceIte]; intro e he; cases he
  · simp only [he, Bool.false_eq_true, ↓reduceIte]
    split
    · intro e he; cases he
    · rename_i evs2 m2 hla
      exact logAndApply_lockfree H m d _ _ evs2 m2 hla

theorem closeScript_lockfree (m : Mem) : ∀ e ∈ closeScript m, e.touches .lock = false := by
  intro e he
  unfold closeScript at he
  split at he
  · simp only [List.mem_singleton] at he; subst he; rfl
  · cases he

theorem abandoned_lockfree (t : Nat) (c : Bytes) : ∀ e ∈ abandonedEvents t c, e.touches .lock = false := by
  intro e he
  simp only [abandonedEvents, beginScript, abortScript, List.mem_append, List.mem_cons,
    List.not_mem_nil, or_false] at he
  rcases he with (rfl | rfl) | rfl <;> rfl


theorem settingsGate_lockfree (cfg : Config) (d : Disk) (e1 : List Ev) (pre : Bool)
    (h : settingsGate cfg d = .ok (e1, pre)) : ∀ e ∈ e1, e.touches .lock = false := by
  unfold settingsGate at h
  split at h
  · split at h
    · cases h
    · split at h
      · cases h
      · split at h
        · cases h
        · injection h with h; injection h with h1 _; subst h1; simp
  · injection h with h; injection h with h1 _; subst h1
    intro e he
    simp only [List.mem_append, List.mem_cons, List.not_mem_nil, or_false] at he
    rcases he with he | he
    · split at he
      · unfold preCreateEvents at he
        split at he
        · cases he
        · simp only [List.mem_singleton] at he; subst he; rfl
      · cases he
    · rcases he with he | he | he | he <;> subst he <;> rfl

/-- `open`, once it holds the lock, does not touch LOCK -/
theorem openBody_lockfree (cfg : Config) (d0 : Disk) :
    ∀ e ∈ (openBody H cfg d0).1, e.touches .lock = false := by
  cases hg : settingsGate cfg d0 with
  | error e => intro x hx; simp [openBody, hg] at hx
  | ok r =>
    obtain ⟨e1, pre⟩ := r
    have h1 := settingsGate_lockfree cfg d0 e1 pre hg
    cases hl : logical H cfg.kind (d0.applyAll e1) with
    | error e =>
      intro x hx
      unfold openBody at hx
      simp only [hg, hl] at hx
      exact h1 x hx
    | ok acc =>
      obtain ⟨ck, hck, hev, _⟩ := openBody_eq H cfg d0 e1 pre acc hg hl
      rw [hev]
      intro x hx
      simp only [List.mem_append] at hx
      rcases hx with (hx | hx) | hx
      · exact h1 x hx
      · split at hx
        · cases hx
        · simp only [List.mem_cons, List.not_mem_nil, or_false] at hx
          rcases hx with rfl | rfl <;> rfl
      · rw [hck] at hx
        have key : ∀ (c : Prop) [Decidable c] (x y : List Ev × Mem),
            (∀ z ∈ x.1, z.touches .lock = false) → (∀ z ∈ y.1, z.touches .lock = false) →
            ∀ z ∈ (if c then x else y).1, z.touches .lock = false := by
          intro c _ x y hx hy; split <;> assumption
        exact key _ _ _ (checkpointScript_lockfree _ _ _) (by intro z hz; cases hz) x hx

/-! ### `LockReady` is for ever -/

theorem dirs_apply_mono (d : Disk) (e : Ev) (p : List Bytes) (h : d.dirs.contains p = true) :
    (d.apply e).dirs.contains p = true := by
  cases e with
  | mkdir q =>
    simp only [Disk.apply]
    split
    · exact h
    · simp only [List.contains_eq_mem, List.mem_append, decide_eq_true_eq] at h ⊢
      exact Or.inl h
  | mkdirTree => exact h
  | flock => exact h
  | creat f t =>
    simp only [Disk.apply]
    split
    · exact h
    · split <;> exact h
  | write f bs => simp only [Disk.apply]; split <;> exact h
  | sync f => simp only [Disk.apply]; split <;> exact h
  | rename a b => simp only [Disk.apply]; split <;> exact h
  | unlink f => exact h

theorem LockReady.apply (d : Disk) (hw : d.WF) (e : Ev) (he : e.touches .lock = false)
    (h : LockReady d) : LockReady (d.apply e) :=
  ⟨dirs_apply_mono d e _ h.1, dirs_apply_mono d e _ h.2.1, by rw [get_untouched d hw _ e he]; exact h.2.2⟩

theorem LockReady.applyAll (d : Disk) (hw : d.WF) (evs : List Ev)
    (he : ∀ e ∈ evs, e.touches .lock = false) (h : LockReady d) : LockReady (d.applyAll evs) := by
  induction evs generalizing d with
  | nil => exact h
  | cons e es ih =>
    rw [Disk.applyAll_cons]
    exact ih _ (Disk.apply_WF d hw e) (fun x hx => he x (by simp [hx])) (h.apply d hw e (he e (by simp)))

/-- … at every prefix of a script that does not touch LOCK -/
theorem LockReady.prefix (d : Disk) (hw : d.WF) (evs : List Ev)
    (he : ∀ e ∈ evs, e.touches .lock = false) (h : LockReady d) (j : Nat) :
    LockReady (d.applyAll (evs.take j)) :=
  h.applyAll d hw _ (fun e hx => he e (List.mem_of_mem_take hx))

/-! ### on a `LockReady` directory the prologue is the identity -/

theorem fset_same (fs : List (FileId × File)) (f : FileId) (x : File) (h : fget fs f = some x) :
    fset fs f x = fs := by
  induction fs with
  | nil => simp [fget] at h
  | cons p r ih =>
    obtain ⟨g, y⟩ := p
    simp only [fget] at h
    simp only [fset]
    by_cases hg : g = f
    · simp only [hg, if_true] at h ⊢
      injection h with h; subst h; rfl
    · simp only [hg, if_false] at h ⊢
      rw [ih h]

theorem openPre_identity (d : Disk) (h : LockReady d) : d.applyAll (openPre d) = d := by
  obtain ⟨h1, h2, h3⟩ := h
  unfold openPre
  simp only [h1, h2, if_true, List.nil_append]
  show d.apply (.creat .lock true) = d
  simp only [Disk.apply, h3, if_true]
  have : fset d.files .lock ⟨[], 0⟩ = d.files := fset_same _ _ _ h3
  rw [this]

/-- **a refused `open` changes nothing at all**: the whole call, on a directory that is open
    elsewhere, returns `AlreadyOpened` and leaves the disk IDENTICAL (not just its database files) -/
theorem refused_open_identity (cfg : Config) (d : Disk) (h : LockReady d) :
    (openScript H cfg d true).2 = .error .alreadyOpened ∧
    d.applyAll (openScript H cfg d true).1 = d := by
  simp only [openScript, if_true, true_and]
  exact openPre_identity d h

/-- … wherever it falls between two filesystem calls of the owner: at every prefix of every script
    that does not touch LOCK -/
theorem refused_anywhere (cfg : Config) (d : Disk) (hw : d.WF) (h : LockReady d) (evs : List Ev)
    (he : ∀ e ∈ evs, e.touches .lock = false) (j : Nat) :
    (d.applyAll (evs.take j)).applyAll (openScript H cfg (d.applyAll (evs.take j)) true).1 =
      d.applyAll (evs.take j) :=
  (refused_open_identity H cfg _ (h.prefix d hw evs he j)).2

/-- **a granted `open` on a `LockReady` directory is `openBody`**: same result, same disk — the
    hand-overs of `lRun` (which leave the lock prologue out) are the real thing -/
theorem granted_open_is_body (cfg : Config) (d : Disk) (h : LockReady d) :
    (openScript H cfg d false).2 = (openBody H cfg d).2 ∧
    d.applyAll (openScript H cfg d false).1 = d.applyAll (openBody H cfg d).1 := by
  have hp : d.applyAll (openPre d ++ [Ev.flock]) = d := by
    rw [Disk.applyAll_append, openPre_identity d h]; rfl
  simp only [openScript, Bool.false_eq_true, if_false, hp, true_and]
  rw [Disk.applyAll_append, hp]

def ensureDir (d : Disk) (p : List Bytes) : Disk := if d.dirs.contains p = true then d else d.apply (.mkdir p)

theorem applyAll_ensure (d : Disk) (p : List Bytes) :
    d.applyAll (if d.dirs.contains p = true then [] else [Ev.mkdir p]) = ensureDir d p := by
  unfold ensureDir; split <;> rfl

theorem ensureDir_has (d : Disk) (p : List Bytes) : (ensureDir d p).dirs.contains p = true := by
  unfold ensureDir
  by_cases c : d.dirs.contains p = true
  · simp only [c, if_true]
  · simp only [c, Disk.apply]
    simp

theorem ensureDir_mono (d : Disk) (p q : List Bytes) (h : d.dirs.contains q = true) :
    (ensureDir d p).dirs.contains q = true := by
  unfold ensureDir; split
  · exact h
  · exact dirs_apply_mono d _ _ h

/-- the very first `open` of a directory makes it `LockReady`, whatever was there -/
theorem lockReady_first (d : Disk) : LockReady (d.applyAll (openPre d ++ [Ev.flock])) := by
  rw [Disk.applyAll_append]
  show LockReady (d.applyAll (openPre d))
  unfold openPre
  rw [Disk.applyAll_append, Disk.applyAll_append, applyAll_ensure]
  have hcas : ∀ x : Disk, x.applyAll (if d.dirs.contains [asciiBytes "cas"] = true then []
      else [Ev.mkdir [asciiBytes "cas"]]) = (if d.dirs.contains [asciiBytes "cas"] = true then x
      else x.apply (.mkdir [asciiBytes "cas"])) := by
    intro x; split <;> rfl
  rw [hcas]
  have h2 : (if d.dirs.contains [asciiBytes "cas"] = true then ensureDir d [asciiBytes "staging"]
      else (ensureDir d [asciiBytes "staging"]).apply (.mkdir [asciiBytes "cas"])).dirs.contains
        [asciiBytes "cas"] = true := by
    split
    · next c => exact ensureDir_mono d _ _ c
    · simp only [Disk.apply]
      split
      · next c => exact c
      · simp
  have h1 : (if d.dirs.contains [asciiBytes "cas"] = true then ensureDir d [asciiBytes "staging"]
      else (ensureDir d [asciiBytes "staging"]).apply (.mkdir [asciiBytes "cas"])).dirs.contains
        [asciiBytes "staging"] = true := by
    split
    · exact ensureDir_has d _
    · exact dirs_apply_mono _ _ _ (ensureDir_has d _)
  generalize (if d.dirs.contains [asciiBytes "cas"] = true then ensureDir d [asciiBytes "staging"]
      else (ensureDir d [asciiBytes "staging"]).apply (.mkdir [asciiBytes "cas"])) = x at h1 h2
  show LockReady (x.apply (.creat .lock true))
  refine ⟨dirs_apply_mono x _ _ h1, dirs_apply_mono x _ _ h2, ?_⟩
  rw [Disk.get_creat]
  simp only [if_true]
  cases x.get .lock <;> rfl

/-! ### several processes: owners one after the other, refused calls in between -/

/-- `lRun` one operation at a time -/
theorem lRun_cons (cfg : Config) (m : Mem) (d : Disk) (tn : Nat) (o : LOp) (ops : List LOp) :
    lRun H cfg m d tn (o :: ops) =
      match lRun H cfg m d tn [o] with
      | some (m', d', tn') => lRun H cfg m' d' tn' ops
      | none => none := by
  cases o <;> simp only [lRun] <;> (try rfl) <;> (split <;> rfl)

/-- the events of a put do not touch LOCK, whatever its outcome -/
theorem putScript_lockfree_any (m : Mem) (d : Disk) (tn : Nat) (key : Bytes) (chunks : List Bytes) :
    ∀ e ∈ (putScript H m d tn key chunks).1, e.touches .lock = false := by
  generalize hp : putScript H m d tn key chunks = r
  obtain ⟨evs, m1, res⟩ := r
  cases res with
  | ok => exact putScript_lockfree H m d tn key chunks evs m1 hp
  | panic p =>
    intro e he
    unfold putScript finishScript at hp
    simp only at hp
    split at hp
    · injection hp with h1 _
      rw [← h1] at he
      simp only [beginScript, List.mem_append, List.mem_cons, List.not_mem_nil, or_false] at he
      rcases he with he | ((he | he) | he) | he
      · subst he; rfl
      · subst he; rfl
      · split at he
        · simp only [List.mem_singleton] at he; subst he; rfl
        · cases he
      · split at he
        · cases he
        · unfold mkdirsFor at he
          split at he
          · simp only [List.mem_append] at he
            rcases he with he | he <;> (split at he <;> simp at he <;> subst he <;> rfl)
          · cases he
      · subst he; rfl
    · injection hp with _ h2; injection h2 with _ h3; cases h3

/-- one operation of an owner keeps the directory `LockReady` (and well-formed) -/
theorem lockReady_step (cfg : Config) (m : Mem) (d : Disk) (tn : Nat) (o : LOp)
    (hw : d.WF) (h : LockReady d) (m' : Mem) (d' : Disk) (tn' : Nat)
    (hr : lRun H cfg m d tn [o] = some (m', d', tn')) : d'.WF ∧ LockReady d' := by
  have two : ∀ (evs : List Ev) (j : Nat), (∀ e ∈ evs, e.touches .lock = false) →
      ((d.applyAll (evs.take j)).applyAll (openBody H cfg (d.applyAll (evs.take j))).1).WF ∧
      LockReady ((d.applyAll (evs.take j)).applyAll (openBody H cfg (d.applyAll (evs.take j))).1) := by
    intro evs j he
    have hw1 := Disk.applyAll_WF d hw (evs.take j)
    exact ⟨Disk.applyAll_WF _ hw1 _,
      (h.prefix d hw evs he j).applyAll _ hw1 _ (openBody_lockfree H cfg _)⟩
  have one : ∀ (evs : List Ev), (∀ e ∈ evs, e.touches .lock = false) →
      (d.applyAll evs).WF ∧ LockReady (d.applyAll evs) :=
    fun evs he => ⟨Disk.applyAll_WF d hw evs, h.applyAll d hw evs he⟩
  cases o with
  | put key chunks =>
    simp only [lRun] at hr
    generalize hp : putScript H m d tn key chunks = r at hr
    obtain ⟨evs, m1, res⟩ := r
    cases res with
    | ok => simp only [Option.some.injEq, Prod.mk.injEq] at hr; obtain ⟨_, rfl, _⟩ := hr
            exact one evs (putScript_lockfree H m d tn key chunks evs m1 hp)
    | panic e => simp at hr
  | remove key =>
    simp only [lRun] at hr
    have hl := removeScript_lockfree H m d key
    generalize removeScript H m d key = r at hr hl
    obtain ⟨evs, m1, res⟩ := r
    cases res with
    | ok b => simp only [Option.some.injEq, Prod.mk.injEq] at hr; obtain ⟨_, rfl, _⟩ := hr; exact one evs hl
    | error e => simp at hr
  | removeRange lo hi =>
    simp only [lRun] at hr
    have hl := removeRangeScript_lockfree H m d lo hi
    generalize removeRangeScript H m d lo hi = r at hr hl
    obtain ⟨evs, m1, res⟩ := r
    cases res with
    | ok b => simp only [Option.some.injEq, Prod.mk.injEq] at hr; obtain ⟨_, rfl, _⟩ := hr; exact one evs hl
    | error e => simp at hr
  | checkpoint =>
    simp only [lRun, Option.some.injEq, Prod.mk.injEq] at hr
    obtain ⟨_, rfl, _⟩ := hr
    exact one _ (checkpointScript_lockfree .explicit m d)
  | abandon content =>
    simp only [lRun, Option.some.injEq, Prod.mk.injEq] at hr
    obtain ⟨_, rfl, _⟩ := hr
    exact one _ (abandoned_lockfree tn content)
  | reopen =>
    simp only [lRun] at hr
    split at hr
    · simp only [Option.some.injEq, Prod.mk.injEq] at hr; obtain ⟨_, rfl, _⟩ := hr
      have := two (closeScript m) (closeScript m).length (closeScript_lockfree m)
      simpa using this
    · cases hr
  | putCrash key chunks j =>
    simp only [lRun] at hr
    split at hr
    · simp only [Option.some.injEq, Prod.mk.injEq] at hr; obtain ⟨_, rfl, _⟩ := hr
      generalize hp : putScript H m d tn key chunks = r
      obtain ⟨evs, m1, res⟩ := r
      cases res with
      | ok => exact two evs j (putScript_lockfree H m d tn key chunks evs m1 hp)
      | panic e =>
        -- a put whose apply panics never happens under the usage guards; its events are still lock-free
        exact two evs j (by
          intro e he
          have := putScript_lockfree_any H m d tn key chunks
          rw [hp] at this
          exact this e he)
    · cases hr
  | removeCrash key j =>
    simp only [lRun] at hr
    split at hr
    · simp only [Option.some.injEq, Prod.mk.injEq] at hr; obtain ⟨_, rfl, _⟩ := hr
      exact two _ j (removeScript_lockfree H m d key)
    · cases hr
  | removeRangeCrash lo hi j =>
    simp only [lRun] at hr
    split at hr
    · simp only [Option.some.injEq, Prod.mk.injEq] at hr; obtain ⟨_, rfl, _⟩ := hr
      exact two _ j (removeRangeScript_lockfree H m d lo hi)
    · cases hr
  | checkpointCrash j =>
    simp only [lRun] at hr
    split at hr
    · simp only [Option.some.injEq, Prod.mk.injEq] at hr; obtain ⟨_, rfl, _⟩ := hr
      exact two _ j (checkpointScript_lockfree .explicit m d)
    · cases hr
  | abandonCrash content j =>
    simp only [lRun] at hr
    split at hr
    · simp only [Option.some.injEq, Prod.mk.injEq] at hr; obtain ⟨_, rfl, _⟩ := hr
      exact two _ j (abandoned_lockfree tn content)
    · cases hr
  | reopenCrash j =>
    simp only [lRun] at hr
    split at hr
    · simp only [Option.some.injEq, Prod.mk.injEq] at hr; obtain ⟨_, rfl, _⟩ := hr
      exact two _ j (by
        intro e he
        rcases List.mem_append.mp he with he | he
        · exact closeScript_lockfree m e he
        · exact openBody_lockfree H cfg _ e he)
    · cases hr

/-- what the processes of a multi-process run do to the directory, in the order of their effects:
    a step of the current owner — a completed operation, a clean hand-over (`reopen`: the owner
    drops its handle and the next granted `open`, BY ANY PROCESS, takes over), or an operation
    killed at any of its filesystem calls together with the next granted `open` (`…Crash j`: the
    owner's process died) — or a whole call of `open` by some process while the directory is owned
    (refused, `C11_openCall`) -/
inductive MOp where
  | own (o : LOp)
  | refused

/-- the owners' steps of a multi-process run -/
def owns : List MOp → List LOp
  | [] => []
  | .own o :: r => o :: owns r
  | .refused :: r => owns r

def mRun (cfg : Config) : Mem → Disk → Nat → List MOp → Option (Mem × Disk × Nat)
  | m, d, tn, [] => some (m, d, tn)
  | m, d, tn, .refused :: r => mRun cfg m (d.applyAll (openScript H cfg d true).1) tn r
  | m, d, tn, .own o :: r =>
    match lRun H cfg m d tn [o] with
    | some (m', d', tn') => mRun cfg m' d' tn' r
    | none => none

/-- **a multi-process run is the single-owner run of its owners' steps**: the refused calls of the
    other processes, wherever they fall, leave no trace -/
theorem mRun_eq_lRun (cfg : Config) (ops : List MOp) :
    ∀ (m : Mem) (d : Disk) (tn : Nat), d.WF → LockReady d →
      mRun H cfg m d tn ops = lRun H cfg m d tn (owns ops) := by
  induction ops with
  | nil => intro m d tn _ _; rfl
  | cons op ops ih =>
    intro m d tn hw h
    cases op with
    | refused =>
      simp only [mRun, owns]
      rw [(refused_open_identity H cfg d h).2]
      exact ih m d tn hw h
    | own o =>
      simp only [mRun, owns]
      rw [lRun_cons H cfg m d tn o (owns ops)]
      cases hr : lRun H cfg m d tn [o] with
      | none => rfl
      | some r =>
        obtain ⟨m', d', tn'⟩ := r
        obtain ⟨hw', h'⟩ := lockReady_step H cfg m d tn o hw h m' d' tn' hr
        exact ih m' d' tn' hw' h'

/-- the lock prologue leaves an empty directory empty (it makes the two top-level directories
    and LOCK) -/
theorem EmptyDir.prologue (d : Disk) (e : EmptyDir d) : EmptyDir (d.applyAll (openPre d ++ [Ev.flock])) := by
  have hpre : ∀ ev ∈ openPre d ++ [Ev.flock], ev.preGate = true := by
    intro ev hev
    rcases List.mem_append.mp hev with hev | hev
    · exact (openPre_preGate d ev hev).1
    · simp at hev; subst hev; rfl
  have fr : ∀ g, g ≠ .lock → (d.applyAll (openPre d ++ [Ev.flock])).get g = d.get g :=
    fun g hg => preGate_frame_all d _ hpre g hg
  refine ⟨Disk.applyAll_WF d e.wf _, ?_, ?_, ?_, ?_, ?_, ?_⟩
  · intro i; simp only [segData]; rw [fr _ (by simp)]; exact e.seg i
  · rw [fr _ (by simp)]; exact e.idx
  · intro g; rw [fr _ (by simp)]; exact e.cas g
  · intro t; rw [fr _ (by simp)]; exact e.staging t
  · intro p; rw [fr _ (by simp)]; exact e.stray p
  · rw [fr _ (by simp)]; exact e.settings

/-- **C03, closed, for several processes.** From an empty directory: the first process calls
    `open` (the WHOLE call, lock prologue included); then any run of owners' steps — completed
    operations, clean hand-overs to whichever process is granted the directory next, operations
    killed at any filesystem call with the next granted `open` — with any number of refused calls
    of `open` by other processes anywhere in between: everything runs to completion and at the
    end every key reads exactly the content of a specification reachable by applying each
    completed operation and applying-or-not each killed one. The other processes changed nothing. -/
theorem C03_closed_multi (so : StrictOrder kind.lt) (hH : Hash32 H) (P : Bytes → Prop)
    (hinj : Inj H sz P) (cfg : Config) (hk : cfg.kind = kind) (hn : cfg.N = N)
    (hN : 0 < cfg.N) (hN64 : cfg.N < 2 ^ 64) (d0 : Disk) (e : EmptyDir d0)
    (ops : List MOp) (hb : (owns ops).length + 3 ≤ 2 ^ 15)
    (hops : ∀ op ∈ owns ops, SmallOpAll kind P op) :
    ∃ m0 sc, (openScript H cfg d0 false).2 = .ok (m0, sc) ∧
      ∃ m' d' tn' spec',
        mRun H cfg m0 (d0.applyAll (openScript H cfg d0 false).1) 0 ops = some (m', d', tn') ∧
        LReach kind (fun _ => none) (owns ops) spec' ∧
        ∀ k, getBlob m' d' k = match spec' k with
                               | none => .absent
                               | some c => .found c := by
  have e1 := e.prologue d0
  obtain ⟨m0, sc, hres, m', d', tn', spec', hrun, hreach, hread⟩ :=
    C03_closed H kind sz N so hH P hinj cfg hk hn hN hN64 _ e1 (owns ops) hb hops
  have hdisk : d0.applyAll (openScript H cfg d0 false).1 =
      (d0.applyAll (openPre d0 ++ [Ev.flock])).applyAll
        (openBody H cfg (d0.applyAll (openPre d0 ++ [Ev.flock]))).1 := by
    simp only [openScript, Bool.false_eq_true, if_false]
    rw [Disk.applyAll_append]
  refine ⟨m0, sc, by simpa [openScript] using hres, m', d', tn', spec', ?_, hreach, hread⟩
  rw [hdisk, mRun_eq_lRun H cfg ops m0 _ 0 (Disk.applyAll_WF _ e1.wf _)
    ((lockReady_first d0).applyAll _ e1.wf _ (openBody_lockfree H cfg _))]
  exact hrun

/-- the transfer, once and for all: whatever a closed single-owner theorem says about the end of
    the run (`Q`), it says about the multi-process run whose owners' steps those are, started by the
    WHOLE first `open` -/
theorem multi_of_single (cfg : Config) (d0 : Disk) (e : EmptyDir d0) (ops : List MOp)
    (Q : Mem → Disk → Nat → Prop)
    (h : ∃ m0 sc, (openBody H cfg (d0.applyAll (openPre d0 ++ [Ev.flock]))).2 = .ok (m0, sc) ∧
      ∃ m' d' tn', lRun H cfg m0 ((d0.applyAll (openPre d0 ++ [Ev.flock])).applyAll
          (openBody H cfg (d0.applyAll (openPre d0 ++ [Ev.flock]))).1) 0 (owns ops) = some (m', d', tn') ∧
        Q m' d' tn') :
    ∃ m0 sc, (openScript H cfg d0 false).2 = .ok (m0, sc) ∧
      ∃ m' d' tn', mRun H cfg m0 (d0.applyAll (openScript H cfg d0 false).1) 0 ops = some (m', d', tn') ∧
        Q m' d' tn' := by
  have e1 := e.prologue d0
  obtain ⟨m0, sc, hres, m', d', tn', hrun, hq⟩ := h
  have hdisk : d0.applyAll (openScript H cfg d0 false).1 =
      (d0.applyAll (openPre d0 ++ [Ev.flock])).applyAll
        (openBody H cfg (d0.applyAll (openPre d0 ++ [Ev.flock]))).1 := by
    simp only [openScript, Bool.false_eq_true, if_false]
    rw [Disk.applyAll_append]
  refine ⟨m0, sc, by simpa [openScript] using hres, m', d', tn', ?_, hq⟩
  rw [hdisk, mRun_eq_lRun H cfg ops m0 _ 0 (Disk.applyAll_WF _ e1.wf _)
    ((lockReady_first d0).applyAll _ e1.wf _ (openBody_lockfree H cfg _))]
  exact hrun

/-- **C20, closed, several processes**: the log and the snapshot are well-formed at the end of
    every multi-process run -/
theorem C20_closed_multi (hH : Hash32 H) (P : Bytes → Prop) (hinj : Inj H sz P) (cfg : Config)
    (hN : 0 < cfg.N) (hN64 : cfg.N < 2 ^ 64) (d0 : Disk) (e : EmptyDir d0)
    (ops : List MOp) (hb : (owns ops).length + 3 ≤ 2 ^ 15)
    (hops : ∀ op ∈ owns ops, SmallOpAll cfg.kind P op) :
    ∃ m0 sc, (openScript H cfg d0 false).2 = .ok (m0, sc) ∧
      ∃ m' d' tn', mRun H cfg m0 (d0.applyAll (openScript H cfg d0 false).1) 0 ops = some (m', d', tn') ∧
        ∃ hist', WellFormed H cfg.kind sz cfg.N [hist'] d' := by
  apply multi_of_single H cfg d0 e ops (fun _ d' _ => ∃ hist', WellFormed H cfg.kind sz cfg.N [hist'] d')
  obtain ⟨m0, sc, hres, m', d', tn', hist', hr, wf⟩ :=
    C20_closed H sz hH P hinj cfg hN hN64 _ (e.prologue d0) (owns ops) hb hops
  exact ⟨m0, sc, hres, m', d', tn', hr, hist', wf⟩

/-- **C06, closed, several processes**: every file under cas/ holds the bytes its name promises -/
theorem C06_closed_multi (hH : Hash32 H) (P : Bytes → Prop) (hinj : Inj H sz P) (cfg : Config)
    (hN : 0 < cfg.N) (hN64 : cfg.N < 2 ^ 64) (d0 : Disk) (e : EmptyDir d0)
    (ops : List MOp) (hb : (owns ops).length + 3 ≤ 2 ^ 15)
    (hops : ∀ op ∈ owns ops, SmallOpAll cfg.kind P op) :
    ∃ m0 sc, (openScript H cfg d0 false).2 = .ok (m0, sc) ∧
      ∃ m' d' tn', mRun H cfg m0 (d0.applyAll (openScript H cfg d0 false).1) 0 ops = some (m', d', tn') ∧
        CasOK H d' :=
  multi_of_single H cfg d0 e ops (fun _ d' _ => CasOK H d')
    (C06_closed H sz hH P hinj cfg hN hN64 _ (e.prologue d0) (owns ops) hb hops)

/-- **C01, closed, several processes**: with completed steps only (operations and clean
    hand-overs between processes), every read returns what the plain ordered map says -/
theorem C01_closed_multi (hH : Hash32 H) (P : Bytes → Prop) (hinj : Inj H sz P) (cfg : Config)
    (hN : 0 < cfg.N) (hN64 : cfg.N < 2 ^ 64) (d0 : Disk) (e : EmptyDir d0)
    (ops : List MOp) (hb : (owns ops).length + 3 ≤ 2 ^ 15)
    (hops : ∀ op ∈ owns ops, SmallOpAll cfg.kind P op) (hc : ∀ op ∈ owns ops, op.completed = true) :
    ∃ m0 sc, (openScript H cfg d0 false).2 = .ok (m0, sc) ∧
      ∃ m' d' tn', mRun H cfg m0 (d0.applyAll (openScript H cfg d0 false).1) 0 ops = some (m', d', tn') ∧
        ∀ k, getBlob m' d' k = match ((owns ops).foldl (mapStepL cfg.kind) (fun _ => none)) k with
                               | none => .absent
                               | some c => .found c :=
  multi_of_single H cfg d0 e ops _
    (C01_closed H sz hH P hinj cfg hN hN64 _ (e.prologue d0) (owns ops) hb hops hc)

/-! ### the same under power loss (Sync mode) -/

theorem LockReady.reboot (d : Disk) (lose : FileId → Bool) (h : LockReady d) : LockReady (d.reboot lose) := by
  refine ⟨h.1, h.2.1, ?_⟩
  show ((d.powerLoss lose).settle).get .lock = _
  rw [settle_get, powerLoss_get, h.2.2]
  cases lose .lock <;> rfl

theorem reboot_WF (d : Disk) (lose : FileId → Bool) (hw : d.WF) : (d.reboot lose).WF :=
  settle_WF _ (powerLoss_WF d lose hw)

theorem dRun_cons (cfg : Config) (m : Mem) (d : Disk) (tn : Nat) (o : DOp) (ops : List DOp) :
    dRun H cfg m d tn (o :: ops) =
      match dRun H cfg m d tn [o] with
      | some (m', d', tn') => dRun H cfg m' d' tn' ops
      | none => none := by
  cases o <;> simp only [dRun] <;> (try rfl) <;> (split <;> rfl)

/-- one step of an owner — completed, or cut by a power loss and followed by the reboot and the
    next granted `open` — keeps the directory `LockReady` -/
theorem lockReady_dstep (cfg : Config) (m : Mem) (d : Disk) (tn : Nat) (o : DOp)
    (hw : d.WF) (h : LockReady d) (m' : Mem) (d' : Disk) (tn' : Nat)
    (hr : dRun H cfg m d tn [o] = some (m', d', tn')) : d'.WF ∧ LockReady d' := by
  have two : ∀ (evs : List Ev) (j : Nat) (lose : FileId → Bool), (∀ e ∈ evs, e.touches .lock = false) →
      (lossOpen H cfg d evs j lose).2.WF ∧ LockReady (lossOpen H cfg d evs j lose).2 := by
    intro evs j lose he
    have hw1 := reboot_WF _ lose (Disk.applyAll_WF d hw (evs.take j))
    exact ⟨Disk.applyAll_WF _ hw1 _,
      ((h.prefix d hw evs he j).reboot _ lose).applyAll _ hw1 _ (openBody_lockfree H cfg _)⟩
  have one : ∀ (evs : List Ev), (∀ e ∈ evs, e.touches .lock = false) →
      (d.applyAll evs).WF ∧ LockReady (d.applyAll evs) :=
    fun evs he => ⟨Disk.applyAll_WF d hw evs, h.applyAll d hw evs he⟩
  cases o with
  | put key chunks =>
    simp only [dRun] at hr
    generalize hp : putScript H m d tn key chunks = r at hr
    obtain ⟨evs, m1, res⟩ := r
    cases res with
    | ok => simp only [Option.some.injEq, Prod.mk.injEq] at hr; obtain ⟨_, rfl, _⟩ := hr
            exact one evs (putScript_lockfree H m d tn key chunks evs m1 hp)
    | panic e => simp at hr
  | remove key =>
    simp only [dRun] at hr
    have hl := removeScript_lockfree H m d key
    generalize removeScript H m d key = r at hr hl
    obtain ⟨evs, m1, res⟩ := r
    cases res with
    | ok b => simp only [Option.some.injEq, Prod.mk.injEq] at hr; obtain ⟨_, rfl, _⟩ := hr; exact one evs hl
    | error e => simp at hr
  | removeRange lo hi =>
    simp only [dRun] at hr
    have hl := removeRangeScript_lockfree H m d lo hi
    generalize removeRangeScript H m d lo hi = r at hr hl
    obtain ⟨evs, m1, res⟩ := r
    cases res with
    | ok b => simp only [Option.some.injEq, Prod.mk.injEq] at hr; obtain ⟨_, rfl, _⟩ := hr; exact one evs hl
    | error e => simp at hr
  | checkpoint =>
    simp only [dRun, Option.some.injEq, Prod.mk.injEq] at hr
    obtain ⟨_, rfl, _⟩ := hr
    exact one _ (checkpointScript_lockfree .explicit m d)
  | abandon content =>
    simp only [dRun, Option.some.injEq, Prod.mk.injEq] at hr
    obtain ⟨_, rfl, _⟩ := hr
    exact one _ (abandoned_lockfree tn content)
  | reopen =>
    simp only [dRun] at hr
    split at hr
    · simp only [Option.some.injEq, Prod.mk.injEq] at hr; obtain ⟨_, rfl, _⟩ := hr
      have hw1 := Disk.applyAll_WF d hw (closeScript m)
      exact ⟨Disk.applyAll_WF _ hw1 _,
        (h.applyAll d hw _ (closeScript_lockfree m)).applyAll _ hw1 _ (openBody_lockfree H cfg _)⟩
    · cases hr
  | putLoss key chunks j lose =>
    simp only [dRun] at hr
    split at hr
    · simp only [Option.some.injEq, Prod.mk.injEq] at hr; obtain ⟨_, rfl, _⟩ := hr
      exact two _ j lose (putScript_lockfree_any H m d tn key chunks)
    · cases hr
  | removeLoss key j lose =>
    simp only [dRun] at hr
    split at hr
    · simp only [Option.some.injEq, Prod.mk.injEq] at hr; obtain ⟨_, rfl, _⟩ := hr
      exact two _ j lose (removeScript_lockfree H m d key)
    · cases hr
  | rangeLoss lo hi j lose =>
    simp only [dRun] at hr
    split at hr
    · simp only [Option.some.injEq, Prod.mk.injEq] at hr; obtain ⟨_, rfl, _⟩ := hr
      exact two _ j lose (removeRangeScript_lockfree H m d lo hi)
    · cases hr
  | checkpointLoss j lose =>
    simp only [dRun] at hr
    split at hr
    · simp only [Option.some.injEq, Prod.mk.injEq] at hr; obtain ⟨_, rfl, _⟩ := hr
      exact two _ j lose (checkpointScript_lockfree .explicit m d)
    · cases hr
  | abandonLoss content j lose =>
    simp only [dRun] at hr
    split at hr
    · simp only [Option.some.injEq, Prod.mk.injEq] at hr; obtain ⟨_, rfl, _⟩ := hr
      exact two _ j lose (abandoned_lockfree tn content)
    · cases hr
  | reopenLoss j lose =>
    simp only [dRun] at hr
    split at hr
    · simp only [Option.some.injEq, Prod.mk.injEq] at hr; obtain ⟨_, rfl, _⟩ := hr
      exact two _ j lose (by
        intro e he
        rcases List.mem_append.mp he with he | he
        · exact closeScript_lockfree m e he
        · exact openBody_lockfree H cfg _ e he)
    · cases hr

inductive DMOp where
  | own (o : DOp)
  | refused

def downs : List DMOp → List DOp
  | [] => []
  | .own o :: r => o :: downs r
  | .refused :: r => downs r

def dmRun (cfg : Config) : Mem → Disk → Nat → List DMOp → Option (Mem × Disk × Nat)
  | m, d, tn, [] => some (m, d, tn)
  | m, d, tn, .refused :: r => dmRun cfg m (d.applyAll (openScript H cfg d true).1) tn r
  | m, d, tn, .own o :: r =>
    match dRun H cfg m d tn [o] with
    | some (m', d', tn') => dmRun cfg m' d' tn' r
    | none => none

theorem dmRun_eq_dRun (cfg : Config) (ops : List DMOp) :
    ∀ (m : Mem) (d : Disk) (tn : Nat), d.WF → LockReady d →
      dmRun H cfg m d tn ops = dRun H cfg m d tn (downs ops) := by
  induction ops with
  | nil => intro m d tn _ _; rfl
  | cons op ops ih =>
    intro m d tn hw h
    cases op with
    | refused =>
      simp only [dmRun, downs]
      rw [(refused_open_identity H cfg d h).2]
      exact ih m d tn hw h
    | own o =>
      simp only [dmRun, downs]
      rw [dRun_cons H cfg m d tn o (downs ops)]
      cases hr : dRun H cfg m d tn [o] with
      | none => rfl
      | some r =>
        obtain ⟨m', d', tn'⟩ := r
        obtain ⟨hw', h'⟩ := lockReady_dstep H cfg m d tn o hw h m' d' tn' hr
        exact ih m' d' tn' hw' h'

/-- **C09, closed, for several processes** (Sync mode): as `C03_closed_multi`, with every owner's
    step possibly cut by a power loss (any choice of files losing their unsynced bytes), the reboot
    and the next granted `open` by whichever process gets there first -/
theorem C09_closed_multi (so : StrictOrder kind.lt) (hH : Hash32 H) (P : Bytes → Prop)
    (hinj : Inj H sz P) (cfg : Config) (hk : cfg.kind = kind) (hn : cfg.N = N) (hsync : cfg.sync = true)
    (hN : 0 < cfg.N) (hN64 : cfg.N < 2 ^ 64) (d0 : Disk) (e : EmptyDir d0)
    (hle : SyncLe (d0.applyAll (openPre d0 ++ [Ev.flock])))
    (htmp : d0.get .indexTmp = none)
    (ops : List DMOp) (hb : (downs ops).length + 3 ≤ 2 ^ 15)
    (hops : ∀ op ∈ downs ops, SmallDOp kind P op) :
    ∃ m0 sc, (openScript H cfg d0 false).2 = .ok (m0, sc) ∧
      ∃ m' d' tn' spec',
        dmRun H cfg m0 (d0.applyAll (openScript H cfg d0 false).1) 0 ops = some (m', d', tn') ∧
        LReach kind (fun _ => none) ((downs ops).map DOp.toL) spec' ∧
        ∀ k, getBlob m' d' k = match spec' k with
                               | none => .absent
                               | some c => .found c := by
  have e1 := e.prologue d0
  have htmp1 : (d0.applyAll (openPre d0 ++ [Ev.flock])).get .indexTmp = none := by
    have hpre : ∀ ev ∈ openPre d0 ++ [Ev.flock], ev.preGate = true := by
      intro ev hev
      rcases List.mem_append.mp hev with hev | hev
      · exact (openPre_preGate d0 ev hev).1
      · simp at hev; subst hev; rfl
    rw [preGate_frame_all d0 _ hpre .indexTmp (by simp)]; exact htmp
  obtain ⟨m0, sc, hres, m', d', tn', spec', hrun, hreach, hread⟩ :=
    C09_closed H kind sz N so hH P hinj cfg hk hn hsync hN hN64 _ e1 hle htmp1 (downs ops) hb hops
  have hdisk : d0.applyAll (openScript H cfg d0 false).1 =
      (d0.applyAll (openPre d0 ++ [Ev.flock])).applyAll
        (openBody H cfg (d0.applyAll (openPre d0 ++ [Ev.flock]))).1 := by
    simp only [openScript, Bool.false_eq_true, if_false]
    rw [Disk.applyAll_append]
  refine ⟨m0, sc, by simpa [openScript] using hres, m', d', tn', spec', ?_, hreach, hread⟩
  rw [hdisk, dmRun_eq_dRun H cfg ops m0 _ 0 (Disk.applyAll_WF _ e1.wf _)
    ((lockReady_first d0).applyAll _ e1.wf _ (openBody_lockfree H cfg _))]
  exact hrun

/-- non-vacuity: the prologue of the first `open` on the empty disk leaves it `LockReady` and empty -/
example : LockReady (({} : Disk).applyAll (openPre {} ++ [Ev.flock])) ∧
    EmptyDir (({} : Disk).applyAll (openPre {} ++ [Ev.flock])) :=
  ⟨lockReady_first {}, EmptyDir.prologue {} ⟨by simp [Disk.WF, FKeysNodup], fun _ => rfl, rfl, fun _ => rfl,
    fun _ => rfl, fun _ => rfl, rfl⟩⟩

example : owns [.refused, .own .checkpoint, .refused, .own .reopen] = [.checkpoint, .reopen] := rfl

end CasModel
