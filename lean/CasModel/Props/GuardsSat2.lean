import CasModel.Props.GuardsSat
/-
  `OpenOK` at EVERY kill image: the snapshot version on disk never exceeds the version counter of
  the handle that wrote it (`SnapBound`), at every prefix of every script; with that, the index
  recovery reads from any kill image fits the snapshot's fields and its next version fits a u64.
-/
namespace CasModel
open Ghost

variable (H : Bytes → Bytes) (kind : KeyKind) (sz : Bytes → Nat) (N : Nat)

/-- the snapshot on disk (if any) carries a version below `nx` -/
def SnapBound (nx : Nat) (d : Disk) : Prop :=
  ∀ s, loadSnapshot kind d = .ok s → s.lastPersisted < nx

theorem SnapBound.mono (nx nx' : Nat) (d : Disk) (h : SnapBound kind nx d) (hle : nx ≤ nx') :
    SnapBound kind nx' d := fun s hs => Nat.lt_of_lt_of_le (h s hs) hle

theorem snapBound_free (nx : Nat) (d : Disk) (hw : d.WF) (evs : List Ev)
    (hf : ∀ e ∈ evs, e.indexFree = true) :
    SnapBound kind nx (d.applyAll evs) ↔ SnapBound kind nx d := by
  have hid : indexData (d.applyAll evs) = indexData d := by
    induction evs generalizing d with
    | nil => rfl
    | cons e es ih =>
      rw [Disk.applyAll_cons, ih _ (Disk.apply_WF d hw e) (fun e' h' => hf e' (by simp [h']))]
      exact indexData_indexFree d hw e (hf e (by simp))
  unfold SnapBound
  rw [loadSnapshot_congr kind d _ hid]

/-- a live handle's disk: the snapshot version is below the handle's version counter -/
theorem Tied.snapBound (m : Mem) (sys : Sys (KMap Bytes) Bytes) (hist : Recs Bytes) (d : Disk)
    (t : Tied H kind sz N m sys hist d) : SnapBound kind m.next d := by
  intro s hs
  obtain ⟨s', h1, _, h3, _⟩ := t.cfg.rel.snap
  rw [hs] at h1; injection h1 with h1; subst h1
  rw [h3, ← t.next]
  exact (t.cfg.good.mem t.cfg.up).2.2.1

/-- a script with at most one event that touches the index file (the snapshot's rename): every
    kill image carries the snapshot of the start or of the end -/
theorem snapBound_prefixes (nx : Nat) (d : Disk) (hw : d.WF) (A B : List Ev) (e : Ev)
    (hA : ∀ x ∈ A, x.indexFree = true) (hB : ∀ x ∈ B, x.indexFree = true)
    (h0 : SnapBound kind nx d) (hF : SnapBound kind nx (d.applyAll (A ++ e :: B))) :
    ∀ j, SnapBound kind nx (d.applyAll ((A ++ e :: B).take j)) := by
  intro j
  by_cases hj : j ≤ A.length
  · rw [List.take_append_of_le_length hj]
    exact (snapBound_free kind nx d hw _ (fun x hx => hA x (List.mem_of_mem_take hx))).mpr h0
  · have hlen : A.length ≤ j := by omega
    rw [List.take_append, List.take_of_length_le hlen, Disk.applyAll_append]
    cases hk : j - A.length with
    | zero => omega
    | succ k =>
      rw [List.take_succ_cons, Disk.applyAll_cons]
      have wA := Disk.applyAll_WF d hw A
      have wE := Disk.apply_WF _ wA e
      rw [Disk.applyAll_append, Disk.applyAll_cons] at hF
      have hF' := (snapBound_free kind nx _ wE B hB).mp hF
      exact (snapBound_free kind nx _ wE _ (fun x hx => hB x (List.mem_of_mem_take hx))).mpr hF'

theorem snapBound_prefixes_free (nx : Nat) (d : Disk) (hw : d.WF) (evs : List Ev)
    (hf : ∀ x ∈ evs, x.indexFree = true) (h0 : SnapBound kind nx d) :
    ∀ j, SnapBound kind nx (d.applyAll (evs.take j)) :=
  fun _ => (snapBound_free kind nx d hw _ (fun x hx => hf x (List.mem_of_mem_take hx))).mpr h0

/-- **`OpenOK` on any recoverable image** whose snapshot version and logged versions are below
    `nx` and whose recovered key map is roomy -/
theorem openOK_of_image (so : StrictOrder kind.lt) (hH : Hash32 H)
    (sysj : Sys (KMap Bytes) Bytes) (histj : Recs Bytes) (dj : Disk)
    (cj : DCfg H kind sz N sysj histj dj) (nx : Nat) (hsb : SnapBound kind nx dj)
    (hvers : ∀ e ∈ histj, e.1 < nx) (hnx : nx < U64) (mp : KMap Bytes)
    (hrun : run (stepM kind) [] histj = .ok mp)
    (keys : ∀ e ∈ mp, SmallKey kind e.1) (ents : ∀ e ∈ mp, e.2.hash.length = 32 ∧ e.2.size < U64)
    (count : mp.length < U32) (cfg : Config)
    (hgate : ∃ e1 pre, settingsGate cfg dj = .ok (e1, pre)) : OpenOK H kind cfg dj := by
  obtain ⟨e1, pre, hg⟩ := hgate
  refine ⟨e1, pre, hg, ?_⟩
  intro a' hlog
  have hfree := settingsGate_free cfg dj e1 pre hg
  have c1 := cj.freeAll H kind sz N sysj histj dj e1 hfree
  obtain ⟨a, hl, hr, _, _, _, _, hrec⟩ := c1.recovers H hH kind so sz N sysj histj _
  rw [hl] at hlog; injection hlog with hlog; subst hlog
  have hmap : a.idx.map = mp := by rw [hrun] at hr; injection hr with hr; exact hr.symm
  refine ⟨saveOK_of kind _ a.idx hmap keys ents count, ?_⟩
  -- the snapshot version of the image
  have hsv : sysj.g.snapVer < nx := by
    obtain ⟨s, h1, _, h3, _⟩ := c1.rel.snap
    have := (snapBound_free kind nx dj cj.rel.wf e1 (fun x hx => (hfree x hx).2)).mpr hsb s h1
    rw [← h3]; exact this
  have hflat : ∀ e ∈ flat sysj.g.segs, e.1 < nx := by
    intro e he
    by_cases c : e.1 ≤ sysj.g.snapVer
    · omega
    · have hm : e ∈ above sysj.g.snapVer (flat sysj.g.segs) := by
        simp only [above, List.mem_filter, decide_eq_true_eq]; exact ⟨he, by omega⟩
      rw [cj.good.ginv.recs] at hm
      exact hvers e (List.mem_filter.mp hm).1
  have := recover_next_le (stepM kind) sysj.g nx hsv hflat _ _ hrec
  omega

/-- at most one event of the script touches the index file -/
def OneIdx (evs : List Ev) : Prop :=
  (∀ x ∈ evs, x.indexFree = true) ∨
  ∃ A e B, evs = A ++ e :: B ∧ (∀ x ∈ A, x.indexFree = true) ∧ (∀ x ∈ B, x.indexFree = true)

theorem oneIdx_prepend (F evs : List Ev) (hF : ∀ x ∈ F, x.indexFree = true) (h : OneIdx evs) :
    OneIdx (F ++ evs) := by
  rcases h with h | ⟨A, e, B, rfl, hA, hB⟩
  · left
    intro x hx
    rcases List.mem_append.mp hx with hx | hx
    · exact hF x hx
    · exact h x hx
  · right
    refine ⟨F ++ A, e, B, by simp [List.append_assoc], ?_, hB⟩
    intro x hx
    rcases List.mem_append.mp hx with hx | hx
    · exact hF x hx
    · exact hA x hx

theorem snapBound_allPre (nx : Nat) (d : Disk) (hw : d.WF) (evs : List Ev) (h : OneIdx evs)
    (h0 : SnapBound kind nx d) (hF : SnapBound kind nx (d.applyAll evs)) :
    AllPre (SnapBound kind nx) d evs := by
  rcases h with h | ⟨A, e, B, rfl, hA, hB⟩
  · exact snapBound_prefixes_free kind nx d hw evs h h0
  · exact snapBound_prefixes kind nx d hw A B e hA hB h0 hF

theorem checkpointScript_oneIdx (r : CkptReason) (mm : Mem) (dd : Disk) :
    OneIdx (checkpointScript r mm dd).1 := by
  unfold checkpointScript
  split
  · left; intro x hx; cases hx
  · right
    refine ⟨[Ev.creat .indexTmp true, .write .indexTmp _, .sync .indexTmp], .rename .indexTmp .index, _,
      rfl, ?_, ?_⟩
    · intro x hx
      simp only [List.mem_cons, List.not_mem_nil, or_false] at hx
      rcases hx with rfl | rfl | rfl <;> simp [Ev.indexFree]
    · intro x hx
      split at hx
      · cases hx
      · obtain ⟨j, _, rfl⟩ := List.mem_map.mp hx
        simp [Ev.indexFree]

theorem logAndApply_oneIdx (m : Mem) (d : Disk) (op : Op Bytes) (raw : RawOp) (evs : List Ev) (m' : Mem)
    (h : logAndApply H m d op raw = .ok (evs, m')) : OneIdx evs := by
  cases ha : applyOp m.cfg.kind.lt m.idx op with
  | error e => unfold logAndApply at h; simp [ha] at h
  | ok r =>
    obtain ⟨idx', unref⟩ := r
    have hp := logAndApply_parts H m d op raw idx' unref ha
    simp only at hp
    rw [hp] at h
    injection h with h; injection h with h1 _
    rw [← h1]
    apply oneIdx_prepend
    · intro x hx
      rcases List.mem_append.mp hx with hx | hx
      · rcases List.mem_append.mp hx with hx | hx
        · unfold rollEvents at hx
          split at hx
          · cases hx
          · simp only [List.mem_append, List.mem_singleton] at hx
            rcases hx with hx | hx
            · split at hx
              · simp only [List.mem_cons, List.not_mem_nil, or_false] at hx
                rcases hx with rfl | rfl <;> simp [Ev.indexFree]
              · cases hx
            · subst hx; simp [Ev.indexFree]
        · simp only [List.mem_cons, List.not_mem_nil, or_false] at hx
          rcases hx with rfl | rfl <;> simp [Ev.indexFree]
      · simp only [List.mem_map] at hx
        obtain ⟨g, _, rfl⟩ := hx
        simp [Ev.indexFree]
    · have key : ∀ (c : Prop) [Decidable c] (x y : List Ev × Mem), OneIdx x.1 → OneIdx y.1 →
          OneIdx (if c then x else y).1 := by
        intro c _ x y hx hy; split <;> assumption
      exact key _ _ _ (checkpointScript_oneIdx _ _ _) (Or.inl (by intro x hx; cases hx))

/-- every kill image of a commit carries a snapshot version below the next-but-one version -/
theorem commit_snapBound (so : StrictOrder kind.lt) (hH : Hash32 H) (m : Mem)
    (sys : Sys (KMap Bytes) Bytes) (hist : Recs Bytes) (d : Disk)
    (t : Tied H kind sz N m sys hist d) (op : Op Bytes) (raw : RawOp)
    (hraw : raw.WF) (hconv : fromRaw kind raw = some op) (hop : OpOK sz op)
    (hwf : (⟨m.next, serWalOp raw⟩ : Rec).WF)
    (hsave : ∀ idx' un, applyOp kind.lt m.idx op = .ok (idx', un) → SaveOK kind idx')
    (hver : m.next + 1 < U64) :
    ∃ evs m', logAndApply H m d op raw = .ok (evs, m') ∧
      AllPre (SnapBound kind (m.next + 1)) d evs := by
  obtain ⟨evs, m', hla, _, sys', t'⟩ := logAndApply_sim H kind sz N so hH m sys hist d t op raw hraw hconv
    hop hwf hsave hver
  refine ⟨evs, m', hla, snapBound_allPre kind _ d t.cfg.rel.wf evs (logAndApply_oneIdx H m d op raw evs m' hla)
    ((t.snapBound H kind sz N m sys hist d).mono kind _ _ d (Nat.le_succ _)) ?_⟩
  have := t'.snapBound H kind sz N m' sys' _ _
  rwa [logAndApply_next H m d op raw evs m' hla] at this

/-- versions of the logged history of a live handle are below its version counter -/
theorem Tied.versions (m : Mem) (sys : Sys (KMap Bytes) Bytes) (hist : Recs Bytes) (d : Disk)
    (t : Tied H kind sz N m sys hist d) : ∀ e ∈ hist, e.1 < m.next := by
  intro e he
  rw [← t.next]
  exact (t.cfg.good.mem t.cfg.up).2.1 e he

/-- a recoverable image of one of the two histories around a commit, with a bounded snapshot
    version: `OpenOK` -/
theorem openOK_two (so : StrictOrder kind.lt) (hH : Hash32 H) (b : Nat) (m : Mem)
    (sys : Sys (KMap Bytes) Bytes) (hist : Recs Bytes) (d : Disk) (t : Tied H kind sz N m sys hist d)
    (r : Roomy kind b m) (hb : b + 3 < U32) (op : Op Bytes) (raw : RawOp)
    (hraw : raw.WF) (hconv : fromRaw kind raw = some op)
    (hop : ∀ k hh size, op = .put k hh size → SmallKey kind k ∧ hh.length = 32 ∧ size < U64)
    (dj : Disk) (hrec : Recoverable H kind sz N [hist, hist ++ [(m.next, serWalOp raw)]] dj)
    (hsb : SnapBound kind (m.next + 1) dj) (cfg : Config)
    (hgate : ∃ e1 pre, settingsGate cfg dj = .ok (e1, pre)) : OpenOK H kind cfg dj := by
  obtain ⟨sysj, histj, hmem, cj⟩ := hrec
  have hM := t.mem_eq H kind sz N
  have hv := t.versions H kind sz N m sys hist d
  have h3264 : U32 < U64 := by decide
  have hnx : m.next + 1 < U64 := by have := r.next.2; omega
  simp only [List.mem_cons, List.not_mem_nil, or_false] at hmem
  rcases hmem with rfl | rfl
  · exact openOK_of_image H kind sz N so hH sysj _ dj cj (m.next + 1) hsb
      (fun e he => Nat.lt_succ_of_lt (hv e he)) hnx m.idx.map hM r.keys r.ents
      (by have := r.count; omega) cfg hgate
  · have hstep : stepM kind m.idx.map (serWalOp raw) = .ok (mapApply kind.lt m.idx.map op) := by
      have := C16_walop_roundtrip raw hraw []
      rw [List.append_nil] at this
      simp [stepM, this, hconv]
    have hrun2 : run (stepM kind) [] (hist ++ [(m.next, serWalOp raw)]) =
        .ok (mapApply kind.lt m.idx.map op) := by
      rw [run_append, hM]; simp [run, hstep]
    obtain ⟨a1, a2, a3⟩ := roomy_step kind b m r op hop
    refine openOK_of_image H kind sz N so hH sysj _ dj cj (m.next + 1) hsb ?_ hnx _ hrun2 a1 a2
      (by omega) cfg hgate
    intro e he
    rcases List.mem_append.mp he with he | he
    · exact Nat.lt_succ_of_lt (hv e he)
    · simp only [List.mem_singleton] at he; subst he; exact Nat.lt_succ_self _

/-- **`OpenOK` at every kill image of a commit** -/
theorem openOK_commit (so : StrictOrder kind.lt) (hH : Hash32 H) (b : Nat) (m : Mem)
    (sys : Sys (KMap Bytes) Bytes) (hist : Recs Bytes) (d : Disk) (t : Tied H kind sz N m sys hist d)
    (r : Roomy kind b m) (hb : b + 3 < U32) (op : Op Bytes) (raw : RawOp)
    (hraw : raw.WF) (hconv : fromRaw kind raw = some op) (hopk : OpOK sz op)
    (hwf : (⟨m.next, serWalOp raw⟩ : Rec).WF)
    (hsave : ∀ idx' un, applyOp kind.lt m.idx op = .ok (idx', un) → SaveOK kind idx')
    (hver : m.next + 1 < U64)
    (hop : ∀ k hh size, op = .put k hh size → SmallKey kind k ∧ hh.length = 32 ∧ size < U64)
    (cfg : Config) :
    ∃ evs m', logAndApply H m d op raw = .ok (evs, m') ∧
      ∀ j, (∃ e1 pre, settingsGate cfg (d.applyAll (evs.take j)) = .ok (e1, pre)) →
        OpenOK H kind cfg (d.applyAll (evs.take j)) := by
  obtain ⟨evs, m', hla, hpre, _⟩ := logAndApply_sim H kind sz N so hH m sys hist d t op raw hraw hconv
    hopk hwf hsave hver
  obtain ⟨evs2, m2, hla2, hsb⟩ := commit_snapBound H kind sz N so hH m sys hist d t op raw hraw hconv hopk
    hwf hsave hver
  rw [hla] at hla2; injection hla2 with hla2; injection hla2 with e1 e2; subst e1 e2
  exact ⟨evs, m', hla, fun j hg =>
    openOK_two H kind sz N so hH b m sys hist d t r hb op raw hraw hconv hop _ (hpre j) (hsb j) cfg hg⟩

/-- **`OpenOK` at every kill image of a put** -/
theorem openOK_put (so : StrictOrder kind.lt) (hH : Hash32 H) (P : Bytes → Prop) (hinj : Inj H sz P)
    (b : Nat) (m : Mem) (sys : Sys (KMap Bytes) Bytes) (hist : Recs Bytes) (d : Disk)
    (t : Tied H kind sz N m sys hist d) (r : Roomy kind b m) (hb : b + 3 < U32) (tn : Nat)
    (key : Bytes) (chunks : List Bytes) (hk : SmallKey kind key) (hP : P chunks.flatten)
    (hlen : chunks.flatten.length < U64) (cfg : Config) (j : Nat)
    (hgate : ∃ e1 pre, settingsGate cfg (d.applyAll ((putScript H m d tn key chunks).1.take j)) = .ok (e1, pre)) :
    OpenOK H kind cfg (d.applyAll ((putScript H m d tn key chunks).1.take j)) := by
  obtain ⟨_, hraw, hval, hwf, hsave, hver⟩ := putOK_of_roomy H kind hH P b m r (by omega) key chunks hk hP hlen
  have hsum : (chunks.map List.length).sum = chunks.flatten.length := by rw [List.length_flatten]
  have hop : (chunks.map List.length).sum = sz (H chunks.flatten) := by rw [hsum, hinj.2 _ hP]
  obtain ⟨hres, hpre, sys', t'⟩ := putScript_sim H kind sz N so hH m sys hist d t tn key chunks hraw hval hop
    hwf hsave hver
  generalize hps : putScript H m d tn key chunks = ps at hres hpre t' hgate ⊢
  obtain ⟨evs, m', res⟩ := ps
  simp only at hres hpre t' hgate ⊢
  subst hres
  obtain ⟨evs2, hla, hevs⟩ := putScript_split H m d tn key chunks evs m' hps
  -- the snapshot version at every kill image
  have hone : OneIdx evs := by
    rw [hevs]
    apply oneIdx_prepend _ _ _ (logAndApply_oneIdx H m _ _ _ evs2 m' hla)
    intro x hx
    have hh := putHead_spares m d tn (H chunks.flatten) chunks.flatten x hx
    -- the blob-side events: staging file, directories, the rename into cas/
    simp only [beginScript, List.mem_append, List.mem_cons, List.not_mem_nil, or_false] at hx
    rcases hx with ((hx | hx | hx) | hx) | hx
    · subst hx; simp [Ev.indexFree]
    · subst hx; simp [Ev.indexFree]
    · split at hx
      · simp only [List.mem_singleton] at hx; subst hx; simp [Ev.indexFree]
      · cases hx
    · split at hx
      · cases hx
      · unfold mkdirsFor at hx
        split at hx
        · simp only [List.mem_append] at hx
          rcases hx with hx | hx <;> (split at hx <;> simp at hx <;> subst hx <;> simp [Ev.indexFree])
        · cases hx
    · subst hx; simp [Ev.indexFree]
  have hn : m'.next = m.next + 1 := logAndApply_next H m _ _ _ evs2 m' hla
  have hsb := snapBound_allPre kind (m.next + 1) d t.cfg.rel.wf evs hone
    ((t.snapBound H kind sz N m sys hist d).mono kind _ _ d (Nat.le_succ _))
    (by have := t'.snapBound H kind sz N m' sys' _ _; rwa [hn] at this)
  refine openOK_two H kind sz N so hH b m sys hist d t r hb
    (.put key (H chunks.flatten) (chunks.map List.length).sum)
    (.put key (H chunks.flatten) (chunks.map List.length).sum) hraw (by simp [fromRaw, hval]) ?_ _
    (hpre j) (hsb j) cfg hgate
  intro k hh size ho
  injection ho with e1 e2 e3
  subst e1 e2 e3
  exact ⟨hk, hH _, by rw [hsum]; exact hlen⟩

/-- `OpenOK` on an image recoverable to the handle's own history with a bounded snapshot version -/
theorem openOK_same (so : StrictOrder kind.lt) (hH : Hash32 H) (b : Nat) (m : Mem)
    (sys : Sys (KMap Bytes) Bytes) (hist : Recs Bytes) (d : Disk) (t : Tied H kind sz N m sys hist d)
    (r : Roomy kind b m) (hb : b + 3 < U32) (dj : Disk)
    (hrec : Recoverable H kind sz N [hist] dj) (hsb : SnapBound kind m.next dj) (cfg : Config)
    (hgate : ∃ e1 pre, settingsGate cfg dj = .ok (e1, pre)) : OpenOK H kind cfg dj := by
  obtain ⟨sysj, histj, hmem, cj⟩ := hrec
  simp only [List.mem_singleton] at hmem; subst hmem
  have h3264 : U32 < U64 := by decide
  exact openOK_of_image H kind sz N so hH sysj _ dj cj m.next hsb (t.versions H kind sz N m sys _ d)
    (by have := r.next.2; omega) m.idx.map (t.mem_eq H kind sz N) r.keys r.ents
    (by have := r.count; omega) cfg hgate

/-- **`OpenOK` at every kill image of a remove** -/
theorem openOK_remove (so : StrictOrder kind.lt) (hH : Hash32 H)
    (b : Nat) (m : Mem) (sys : Sys (KMap Bytes) Bytes) (hist : Recs Bytes) (d : Disk)
    (t : Tied H kind sz N m sys hist d) (r : Roomy kind b m) (hb : b + 3 < U32)
    (key : Bytes) (hk : SmallKey kind key) (cfg : Config) (j : Nat)
    (hgate : ∃ e1 pre, settingsGate cfg (d.applyAll ((removeScript H m d key).1.take j)) = .ok (e1, pre)) :
    OpenOK H kind cfg (d.applyAll ((removeScript H m d key).1.take j)) := by
  obtain ⟨hraw, hval, hwf, hsave, hver⟩ := removeOK_of_roomy kind b m r (by omega) key hk
  unfold removeScript at hgate ⊢
  cases hl : kLookup m.idx.map key with
  | none =>
    simp only [hl, List.take_nil, Disk.applyAll_nil] at hgate ⊢
    exact openOK_of_tied H kind sz N so hH b m sys hist d t r (by omega) [] (by intro e he; cases he) cfg hgate
  | some item =>
    simp only [hl] at hgate ⊢
    obtain ⟨evs, m', hla, hall⟩ := openOK_commit H kind sz N so hH b m sys hist d t r hb (.remove [key])
      (.remove [key]) hraw (by simp [fromRaw, hval]) trivial hwf hsave hver
      (by intro k hh size ho; cases ho) cfg
    simp only [hla] at hgate ⊢
    exact hall j hgate

/-- **`OpenOK` at every kill image of a range removal** -/
theorem openOK_range (so : StrictOrder kind.lt) (hH : Hash32 H)
    (b : Nat) (m : Mem) (sys : Sys (KMap Bytes) Bytes) (hist : Recs Bytes) (d : Disk)
    (t : Tied H kind sz N m sys hist d) (r : Roomy kind b m) (hb : b + 3 ≤ 2 ^ 15)
    (lo hi : Bound) (cfg : Config) (j : Nat)
    (hgate : ∃ e1 pre, settingsGate cfg (d.applyAll ((removeRangeScript H m d lo hi).1.take j)) =
      .ok (e1, pre)) :
    OpenOK H kind cfg (d.applyAll ((removeRangeScript H m d lo hi).1.take j)) := by
  have h15 : (2:Nat) ^ 15 < U32 := by decide
  obtain ⟨hraw, hval, hwf, hsave, hver⟩ := rangeOK_of_roomy kind b m r (by omega) lo hi
  unfold removeRangeScript at hgate ⊢
  simp only at hgate ⊢
  by_cases he : (rangeKeys m lo hi).isEmpty = true
  · simp only [he, ↓reduceIte, List.take_nil, Disk.applyAll_nil] at hgate ⊢
    exact openOK_of_tied H kind sz N so hH b m sys hist d t r (by omega) [] (by intro e he; cases he) cfg hgate
  · simp only [he, Bool.false_eq_true, ↓reduceIte] at hgate ⊢
    obtain ⟨evs, m', hla, hall⟩ := openOK_commit H kind sz N so hH b m sys hist d t r (by omega)
      (.remove (rangeKeys m lo hi)) (.remove (rangeKeys m lo hi)) hraw (by simp [fromRaw, hval]) trivial
      hwf hsave hver (by intro k hh size ho; cases ho) cfg
    simp only [hla] at hgate ⊢
    exact hall j hgate

/-- **`OpenOK` at every kill image of an explicit checkpoint** -/
theorem openOK_checkpoint (so : StrictOrder kind.lt) (hH : Hash32 H)
    (b : Nat) (m : Mem) (sys : Sys (KMap Bytes) Bytes) (hist : Recs Bytes) (d : Disk)
    (t : Tied H kind sz N m sys hist d) (r : Roomy kind b m) (hb : b + 3 < U32)
    (cfg : Config) (j : Nat)
    (hgate : ∃ e1 pre, settingsGate cfg (d.applyAll ((checkpointScript .explicit m d).1.take j)) =
      .ok (e1, pre)) :
    OpenOK H kind cfg (d.applyAll ((checkpointScript .explicit m d).1.take j)) := by
  have h3264 : U32 < U64 := by decide
  have hsv : SaveOK kind m.idx := saveOK_of kind _ m.idx rfl r.keys r.ents (by have := r.count; omega)
  have hver : m.next < U64 := by have := r.next.2; omega
  obtain ⟨hpre, sys', t'⟩ := checkpoint_sim H kind sz N so .explicit m sys hist d d t hsv hver [hist] (by simp)
  have hn : (checkpointScript .explicit m d).2.next = m.next := by
    unfold checkpointScript
    cases ckptTarget .explicit m.next m.idx.lastPersisted <;> rfl
  have hsb := snapBound_allPre kind m.next d t.cfg.rel.wf _ (checkpointScript_oneIdx .explicit m d)
    (t.snapBound H kind sz N m sys hist d)
    (by have := t'.snapBound H kind sz N _ sys' _ _; rwa [hn] at this)
  exact openOK_same H kind sz N so hH b m sys hist d t r hb _ (hpre j) (hsb j) cfg hgate

/-- **`OpenOK` at every kill image of an abandoned transaction** -/
theorem openOK_abandon (so : StrictOrder kind.lt) (hH : Hash32 H)
    (b : Nat) (m : Mem) (sys : Sys (KMap Bytes) Bytes) (hist : Recs Bytes) (d : Disk)
    (t : Tied H kind sz N m sys hist d) (r : Roomy kind b m) (hb : b + 3 < U32) (tn : Nat)
    (content : Bytes) (cfg : Config) (j : Nat)
    (hgate : ∃ e1 pre, settingsGate cfg (d.applyAll ((abandonedEvents tn content).take j)) = .ok (e1, pre)) :
    OpenOK H kind cfg (d.applyAll ((abandonedEvents tn content).take j)) :=
  openOK_of_tied H kind sz N so hH b m sys hist d t r (by omega) _
    (fun e he => (abandoned_benign tn content e (List.mem_of_mem_take he)).1) cfg hgate

theorem openBody_oneIdx (cfg : Config) (d0 : Disk) (e1 : List Ev) (pre : Bool) (acc : ReplayAcc)
    (hg : settingsGate cfg d0 = .ok (e1, pre)) (hl : logical H cfg.kind (d0.applyAll e1) = .ok acc) :
    OneIdx (openBody H cfg d0).1 := by
  obtain ⟨ck, hck, hev, _⟩ := openBody_eq H cfg d0 e1 pre acc hg hl
  rw [hev, List.append_assoc]
  apply oneIdx_prepend _ _ (fun x hx => (settingsGate_free cfg d0 e1 pre hg x hx).2)
  apply oneIdx_prepend
  · intro x hx
    split at hx
    · cases hx
    · simp only [List.mem_cons, List.not_mem_nil, or_false] at hx
      rcases hx with rfl | rfl <;> simp [Ev.indexFree]
  · rw [hck]
    have key : ∀ (c : Prop) [Decidable c] (x y : List Ev × Mem), OneIdx x.1 → OneIdx y.1 →
        OneIdx (if c then x else y).1 := by
      intro c _ x y hx hy; split <;> assumption
    exact key _ _ _ (checkpointScript_oneIdx _ _ _) (Or.inl (by intro x hx; cases hx))

/-- **`OpenOK` at every kill image of a restart** (inside the drop, inside `open`) -/
theorem openOK_reopen (so : StrictOrder kind.lt) (hH : Hash32 H)
    (b : Nat) (m : Mem) (sys : Sys (KMap Bytes) Bytes) (hist : Recs Bytes) (d : Disk)
    (t : Tied H kind sz N m sys hist d) (r : Roomy kind b m) (hb : b + 3 < U32)
    (cfg0 : Config) (hk0 : cfg0.kind = kind) (hn0 : cfg0.N = N)
    (hgate0 : ∃ e0 pre0, settingsGate cfg0 (d.applyAll (closeScript m)) = .ok (e0, pre0))
    (cfg : Config) (j : Nat)
    (hgate : ∃ e1 pre, settingsGate cfg (d.applyAll ((closeScript m ++
      (openBody H cfg0 (d.applyAll (closeScript m))).1).take j)) = .ok (e1, pre)) :
    OpenOK H kind cfg (d.applyAll ((closeScript m ++
      (openBody H cfg0 (d.applyAll (closeScript m))).1).take j)) := by
  have hc := closeScript_benign m
  have ho0 := openOK_of_tied H kind sz N so hH b m sys hist d t r (by omega) (closeScript m)
    (fun e he => (hc e he).1) cfg0 hgate0
  have ⟨e0, pre0, hg0, hsv0⟩ := ho0
  have c1 := (t.cfg.toDCfg.freeAll H kind sz N sys hist d (closeScript m) (fun e he => (hc e he).1)).crash
    H kind sz N sys hist _
  obtain ⟨acc, hl, _, _, hpre2, mm, sys', hmm, _, hnext2, t2, hres⟩ :=
    open_sim_full H kind sz N so hH cfg0 hk0 hn0 _ hist _ c1 rfl e0 pre0 hg0 hsv0
  have hl' : logical H cfg0.kind ((d.applyAll (closeScript m)).applyAll e0) = .ok acc := by rw [hk0]; exact hl
  have hpre : AllPre (Recoverable H kind sz N [hist]) d
      (closeScript m ++ (openBody H cfg0 (d.applyAll (closeScript m))).1) :=
    allPre_append _ d _ _ (allPre_free H kind sz N sys hist d t.cfg [hist] (by simp) _
      (fun e he => (hc e he).1)) hpre2
  -- the version counter of the reopened handle is not larger
  have hle : mm.next ≤ m.next := by
    have c2 := (t.cfg.toDCfg.freeAll H kind sz N sys hist d (closeScript m) (fun e he => (hc e he).1)).freeAll
      H kind sz N sys hist _ e0 (settingsGate_free cfg0 _ e0 pre0 hg0)
    obtain ⟨a, hl2, _, _, _, _, _, hrec⟩ := c2.recovers H hH kind so sz N sys hist _
    rw [hl] at hl2; injection hl2 with hl2; subst hl2
    obtain ⟨_, _, m3, m4⟩ := t.cfg.good.mem t.cfg.up
    have := recover_next_le (stepM kind) sys.g sys.next m3 m4 _ _ hrec
    rw [t.next] at this
    rw [hnext2]; exact this
  have hone : OneIdx (closeScript m ++ (openBody H cfg0 (d.applyAll (closeScript m))).1) :=
    oneIdx_prepend _ _ (fun x hx => (hc x hx).1.2) (openBody_oneIdx H cfg0 _ e0 pre0 acc hg0 hl')
  have hsb := snapBound_allPre kind m.next d t.cfg.rel.wf _ hone (t.snapBound H kind sz N m sys hist d)
    (by rw [Disk.applyAll_append]
        exact (t2.snapBound H kind sz N mm sys' hist _).mono kind _ _ _ hle)
  exact openOK_same H kind sz N so hH b m sys hist d t r hb _ (hpre j) (hsb j) cfg hgate

/-! ### the settings file is written once, by the first `open`, and never touched again -/

theorem logAndApply_settings (H : Bytes → Bytes) (m : Mem) (d : Disk) (op : Op Bytes) (raw : RawOp)
    (evs : List Ev) (m' : Mem) (h : logAndApply H m d op raw = .ok (evs, m')) :
    ∀ e ∈ evs, e.touches .settings = false := by
  cases ha : applyOp m.cfg.kind.lt m.idx op with
  | error e => unfold logAndApply at h; simp [ha] at h
  | ok r =>
    obtain ⟨idx', unref⟩ := r
    have hp := logAndApply_parts H m d op raw idx' unref ha
    simp only at hp
    rw [hp] at h
    injection h with h; injection h with h1 _
    intro e he
    rw [← h1] at he
    rcases List.mem_append.mp he with he | he
    · rcases List.mem_append.mp he with he | he
      · rcases List.mem_append.mp he with he | he
        · unfold rollEvents at he
          split at he
          · cases he
          · simp only [List.mem_append, List.mem_singleton] at he
            rcases he with he | he
            · split at he
              · simp only [List.mem_cons, List.not_mem_nil, or_false] at he
                rcases he with rfl | rfl <;> rfl
              · cases he
            · subst he; rfl
        · simp only [List.mem_cons, List.not_mem_nil, or_false] at he
          rcases he with rfl | rfl <;> rfl
      · simp only [List.mem_map] at he
        obtain ⟨x, _, rfl⟩ := he
        rfl
    · have hck : ∀ (r : CkptReason) (mm : Mem) (dd : Disk), ∀ e ∈ (checkpointScript r mm dd).1,
          e.touches .settings = false := by
        intro r mm dd e he
        unfold checkpointScript at he
        split at he
        · cases he
        · simp only [List.mem_append, List.mem_cons, List.not_mem_nil, or_false] at he
          rcases he with (rfl | rfl | rfl | rfl) | he
          · rfl
          · rfl
          · rfl
          · rfl
          · split at he
            · cases he
            · simp only [List.mem_map] at he
              obtain ⟨j, _, rfl⟩ := he
              rfl
      exact ite_fst_all' (P := fun e => e.touches .settings = false) _ _ _ (hck _ _ _) (by simp) e he

/-- a settings file that passes the gate is in place -/
def Settled (cfg : Config) (d : Disk) : Prop :=
  ∃ f pre, d.get .settings = some f ∧ parseSettings f.data = some (4, pre, cfg.N)

theorem Settled.gate (cfg : Config) (d : Disk) (h : Settled cfg d) :
    ∃ e1 pre, settingsGate cfg d = .ok (e1, pre) := by
  obtain ⟨f, pre, hf, hp⟩ := h
  exact ⟨[], pre, by simp [settingsGate, hf, hp]⟩

theorem Settled.frame (cfg : Config) (d : Disk) (hw : d.WF) (evs : List Ev)
    (hq : ∀ e ∈ evs, e.touches .settings = false) (h : Settled cfg d) : Settled cfg (d.applyAll evs) := by
  obtain ⟨f, pre, hf, hp⟩ := h
  exact ⟨f, pre, by rw [get_untouched_all d hw _ evs hq]; exact hf, hp⟩

theorem checkpointScript_settings (r : CkptReason) (mm : Mem) (dd : Disk) :
    ∀ e ∈ (checkpointScript r mm dd).1, e.touches .settings = false := by
  intro e he
  unfold checkpointScript at he
  split at he
  · cases he
  · simp only [List.mem_append, List.mem_cons, List.not_mem_nil, or_false] at he
    rcases he with (rfl | rfl | rfl | rfl) | he
    · rfl
    · rfl
    · rfl
    · rfl
    · split at he
      · cases he
      · obtain ⟨j, _, rfl⟩ := List.mem_map.mp he
        rfl

theorem putScript_settings (m : Mem) (d : Disk) (tn : Nat) (key : Bytes)
    (chunks : List Bytes) (evs : List Ev) (m' : Mem)
    (hrun : putScript H m d tn key chunks = (evs, m', .ok)) :
    ∀ e ∈ evs, e.touches .settings = false := by
  obtain ⟨evs2, hla, hevs⟩ := putScript_split H m d tn key chunks evs m' hrun
  intro e he
  rw [hevs] at he
  rcases List.mem_append.mp he with he | he
  · simp only [beginScript, List.mem_append, List.mem_cons, List.not_mem_nil, or_false] at he
    rcases he with ((he | he | he) | he) | he
    · subst he; rfl
    · subst he; rfl
    · split at he
      · simp only [List.mem_singleton] at he; subst he; rfl
      · cases he
    · split at he
      · cases he
      · unfold mkdirsFor at he
        split at he
        · simp only [List.mem_append] at he
          rcases he with he | he <;> (split at he <;> simp at he <;> subst he <;> rfl)
        · cases he
    · subst he; rfl
  · exact logAndApply_settings H m _ _ _ evs2 m' hla e he

theorem removeScript_settings (m : Mem) (d : Disk) (key : Bytes) :
    ∀ e ∈ (removeScript H m d key).1, e.touches .settings = false := by
  unfold removeScript
  split
  · intro e he; cases he
  · split
    · intro e he; cases he
    · rename_i evs2 m2 hla
      exact logAndApply_settings H m d _ _ evs2 m2 hla

theorem removeRangeScript_settings (m : Mem) (d : Disk) (lo hi : Bound) :
    ∀ e ∈ (removeRangeScript H m d lo hi).1, e.touches .settings = false := by
  unfold removeRangeScript
  simp only
  by_cases he : (rangeKeys m lo hi).isEmpty = true
  · simp only [he, ↓reduceIte]; intro e he; cases he
  · simp only [he, Bool.false_eq_true, ↓reduceIte]
    split
    · intro e he; cases he
    · rename_i evs2 m2 hla
      exact logAndApply_settings H m d _ _ evs2 m2 hla

theorem closeScript_settings (m : Mem) : ∀ e ∈ closeScript m, e.touches .settings = false := by
  intro e he
  unfold closeScript at he
  split at he
  · simp only [List.mem_singleton] at he; subst he; rfl
  · cases he

theorem abandoned_settings (t : Nat) (c : Bytes) : ∀ e ∈ abandonedEvents t c, e.touches .settings = false := by
  intro e he
  simp only [abandonedEvents, beginScript, abortScript, List.mem_append, List.mem_cons,
    List.not_mem_nil, or_false] at he
  rcases he with (rfl | rfl) | rfl <;> rfl

/-- `open` on a directory whose settings file is in place does not touch it -/
theorem openBody_settings (cfg : Config) (d0 : Disk) (h : Settled cfg d0) :
    ∀ e ∈ (openBody H cfg d0).1, e.touches .settings = false := by
  obtain ⟨f, pre, hf, hp⟩ := h
  have hg : settingsGate cfg d0 = .ok ([], pre) := by simp [settingsGate, hf, hp]
  cases hl : logical H cfg.kind d0 with
  | error e =>
    intro x hx
    have hl' : logical H cfg.kind (d0.applyAll []) = .error e := hl
    unfold openBody at hx
    simp only [hg, hl'] at hx
    cases hx
  | ok acc =>
    have hl' : logical H cfg.kind (d0.applyAll []) = .ok acc := hl
    obtain ⟨ck, hck, hev, _⟩ := openBody_eq H cfg d0 [] pre acc hg hl'
    rw [hev]
    intro x hx
    simp only [List.nil_append, List.mem_append] at hx
    rcases hx with hx | hx
    · split at hx
      · cases hx
      · simp only [List.mem_cons, List.not_mem_nil, or_false] at hx
        rcases hx with rfl | rfl <;> rfl
    · rw [hck] at hx
      have key : ∀ (c : Prop) [Decidable c] (x y : List Ev × Mem),
          (∀ z ∈ x.1, z.touches .settings = false) → (∀ z ∈ y.1, z.touches .settings = false) →
          ∀ z ∈ (if c then x else y).1, z.touches .settings = false := by
        intro c _ x y hx hy; split <;> assumption
      exact key _ _ _ (checkpointScript_settings _ _ _) (by intro z hz; cases hz) x hx

/-! ### the handle `open` returns on a kill image is roomy again -/

/-- what `open` returns on a recoverable image with bounded versions: the replay of the image's
    history, and a version counter within the bound -/
theorem open_result_of_image (so : StrictOrder kind.lt) (hH : Hash32 H)
    (sysj : Sys (KMap Bytes) Bytes) (histj : Recs Bytes) (dj : Disk)
    (cj : DCfg H kind sz N sysj histj dj) (nx : Nat) (hsb : SnapBound kind nx dj)
    (hvers : ∀ e ∈ histj, e.1 < nx) (cfg : Config) (hk : cfg.kind = kind) (hn : cfg.N = N)
    (ho : OpenOK H kind cfg dj) (m2 : Mem) (sc : ScanOut)
    (hres : (openBody H cfg dj).2 = .ok (m2, sc)) :
    run (stepM kind) [] histj = .ok m2.idx.map ∧ 0 < m2.next ∧ m2.next ≤ nx ∧ m2.cfg.kind = kind := by
  obtain ⟨e1, pre, hg, hsv⟩ := ho
  obtain ⟨acc, hl, hrun, _, _, mm, sys', hmm, hmap2, hnext2, t2, _⟩ :=
    open_sim_full H kind sz N so hH cfg hk hn _ histj dj (cj.crash H kind sz N sysj histj dj) rfl e1 pre hg hsv
  have := hmm m2 sc hres
  subst this
  have hfree := settingsGate_free cfg dj e1 pre hg
  have c1 := cj.freeAll H kind sz N sysj histj dj e1 hfree
  obtain ⟨a, hl', _, _, _, _, _, hrec⟩ := c1.recovers H hH kind so sz N sysj histj _
  rw [hl] at hl'; injection hl' with hl'; subst hl'
  have hsnap : sysj.g.snapVer < nx := by
    obtain ⟨s, h1, _, h3, _⟩ := c1.rel.snap
    have := (snapBound_free kind nx dj cj.rel.wf e1 (fun x hx => (hfree x hx).2)).mpr hsb s h1
    rw [← h3]; exact this
  have hflat : ∀ e ∈ flat sysj.g.segs, e.1 < nx := by
    intro e he
    by_cases c : e.1 ≤ sysj.g.snapVer
    · omega
    · have hm : e ∈ above sysj.g.snapVer (flat sysj.g.segs) := by
        simp only [above, List.mem_filter, decide_eq_true_eq]; exact ⟨he, by omega⟩
      rw [cj.good.ginv.recs] at hm
      exact hvers e (List.mem_filter.mp hm).1
  have hle := recover_next_le (stepM kind) sysj.g nx hsnap hflat _ _ hrec
  exact ⟨by rw [hmap2]; exact hrun, by rw [hnext2]; exact Nat.succ_pos _, by rw [hnext2]; exact hle, t2.kindEq⟩

/-- after a kill inside a commit and `open`: roomy, counter one up -/
theorem roomy_open_two (so : StrictOrder kind.lt) (hH : Hash32 H) (b : Nat) (m : Mem)
    (sys : Sys (KMap Bytes) Bytes) (hist : Recs Bytes) (d : Disk) (t : Tied H kind sz N m sys hist d)
    (r : Roomy kind b m) (op : Op Bytes) (raw : RawOp)
    (hraw : raw.WF) (hconv : fromRaw kind raw = some op)
    (hop : ∀ k hh size, op = .put k hh size → SmallKey kind k ∧ hh.length = 32 ∧ size < U64)
    (dj : Disk) (hrec : Recoverable H kind sz N [hist, hist ++ [(m.next, serWalOp raw)]] dj)
    (hsb : SnapBound kind (m.next + 1) dj) (cfg : Config) (hk : cfg.kind = kind) (hn : cfg.N = N)
    (ho : OpenOK H kind cfg dj) (m2 : Mem) (sc : ScanOut)
    (hres : (openBody H cfg dj).2 = .ok (m2, sc)) : Roomy kind (b + 1) m2 := by
  obtain ⟨sysj, histj, hmem, cj⟩ := hrec
  have hM := t.mem_eq H kind sz N
  have hv := t.versions H kind sz N m sys hist d
  simp only [List.mem_cons, List.not_mem_nil, or_false] at hmem
  rcases hmem with rfl | rfl
  · obtain ⟨h1, h2, h3, _⟩ := open_result_of_image H kind sz N so hH sysj _ dj cj (m.next + 1) hsb
      (fun e he => Nat.lt_succ_of_lt (hv e he)) cfg hk hn ho m2 sc hres
    rw [hM] at h1; injection h1 with h1
    exact ⟨by rw [← h1]; exact r.keys, by rw [← h1]; exact r.ents,
      by rw [← h1]; exact Nat.le_succ_of_le r.count, h2, by have := r.next.2; omega⟩
  · have hstep : stepM kind m.idx.map (serWalOp raw) = .ok (mapApply kind.lt m.idx.map op) := by
      have := C16_walop_roundtrip raw hraw []
      rw [List.append_nil] at this
      simp [stepM, this, hconv]
    have hrun2 : run (stepM kind) [] (hist ++ [(m.next, serWalOp raw)]) =
        .ok (mapApply kind.lt m.idx.map op) := by
      rw [run_append, hM]; simp [run, hstep]
    obtain ⟨h1, h2, h3, _⟩ := open_result_of_image H kind sz N so hH sysj _ dj cj (m.next + 1) hsb
      (by
        intro e he
        rcases List.mem_append.mp he with he | he
        · exact Nat.lt_succ_of_lt (hv e he)
        · simp only [List.mem_singleton] at he; subst he; exact Nat.lt_succ_self _) cfg hk hn ho m2 sc hres
    rw [hrun2] at h1; injection h1 with h1
    obtain ⟨a1, a2, a3⟩ := roomy_step kind b m r op hop
    exact ⟨by rw [← h1]; exact a1, by rw [← h1]; exact a2, by rw [← h1]; exact a3, h2,
      by have := r.next.2; omega⟩

/-- after a kill inside a script that logs nothing and `open`: roomy, same counter -/
theorem roomy_open_same (so : StrictOrder kind.lt) (hH : Hash32 H) (b : Nat) (m : Mem)
    (sys : Sys (KMap Bytes) Bytes) (hist : Recs Bytes) (d : Disk) (t : Tied H kind sz N m sys hist d)
    (r : Roomy kind b m) (dj : Disk) (hrec : Recoverable H kind sz N [hist] dj)
    (hsb : SnapBound kind m.next dj) (cfg : Config) (hk : cfg.kind = kind) (hn : cfg.N = N)
    (ho : OpenOK H kind cfg dj) (m2 : Mem) (sc : ScanOut)
    (hres : (openBody H cfg dj).2 = .ok (m2, sc)) : Roomy kind b m2 := by
  obtain ⟨sysj, histj, hmem, cj⟩ := hrec
  simp only [List.mem_singleton] at hmem; subst hmem
  obtain ⟨h1, h2, h3, _⟩ := open_result_of_image H kind sz N so hH sysj _ dj cj m.next hsb
    (t.versions H kind sz N m sys _ d) cfg hk hn ho m2 sc hres
  rw [t.mem_eq H kind sz N] at h1; injection h1 with h1
  exact ⟨by rw [← h1]; exact r.keys, by rw [← h1]; exact r.ents, by rw [← h1]; exact r.count, h2,
    Nat.le_trans h3 r.next.2⟩

/-! ### the two facts about every kill image, per kind of script -/

/-- a kill image of a script that may log one record -/
structure ImgTwo (m : Mem) (hist : Recs Bytes) (raw : RawOp) (dj : Disk) : Prop where
  rcv : Recoverable H kind sz N [hist, hist ++ [(m.next, serWalOp raw)]] dj
  sb : SnapBound kind (m.next + 1) dj

/-- a kill image of a script that logs nothing -/
structure ImgSame (m : Mem) (hist : Recs Bytes) (dj : Disk) : Prop where
  rcv : Recoverable H kind sz N [hist] dj
  sb : SnapBound kind m.next dj

theorem ImgSame.two (m : Mem) (hist : Recs Bytes) (raw : RawOp) (dj : Disk)
    (i : ImgSame H kind sz N m hist dj) : ImgTwo H kind sz N m hist raw dj := by
  obtain ⟨⟨sysj, histj, hm, cj⟩, sb⟩ := i
  exact ⟨⟨sysj, histj, by simp only [List.mem_singleton] at hm; subst hm; simp, cj⟩,
    sb.mono kind _ _ dj (Nat.le_succ _)⟩

theorem tied_img (m : Mem) (sys : Sys (KMap Bytes) Bytes) (hist : Recs Bytes) (d : Disk)
    (t : Tied H kind sz N m sys hist d) (evs : List Ev)
    (hfree : ∀ e ∈ evs, e.segFree = true ∧ e.indexFree = true) :
    ImgSame H kind sz N m hist (d.applyAll evs) :=
  ⟨⟨sys, hist, by simp, t.cfg.toDCfg.freeAll H kind sz N sys hist d evs hfree⟩,
    (snapBound_free kind m.next d t.cfg.rel.wf evs (fun e he => (hfree e he).2)).mpr
      (t.snapBound H kind sz N m sys hist d)⟩

theorem commit_img (so : StrictOrder kind.lt) (hH : Hash32 H) (m : Mem)
    (sys : Sys (KMap Bytes) Bytes) (hist : Recs Bytes) (d : Disk)
    (t : Tied H kind sz N m sys hist d) (op : Op Bytes) (raw : RawOp)
    (hraw : raw.WF) (hconv : fromRaw kind raw = some op) (hopk : OpOK sz op)
    (hwf : (⟨m.next, serWalOp raw⟩ : Rec).WF)
    (hsave : ∀ idx' un, applyOp kind.lt m.idx op = .ok (idx', un) → SaveOK kind idx')
    (hver : m.next + 1 < U64) :
    ∃ evs m', logAndApply H m d op raw = .ok (evs, m') ∧
      ∀ j, ImgTwo H kind sz N m hist raw (d.applyAll (evs.take j)) := by
  obtain ⟨evs, m', hla, hpre, _⟩ := logAndApply_sim H kind sz N so hH m sys hist d t op raw hraw hconv
    hopk hwf hsave hver
  obtain ⟨evs2, m2, hla2, hsb⟩ := commit_snapBound H kind sz N so hH m sys hist d t op raw hraw hconv hopk
    hwf hsave hver
  rw [hla] at hla2; injection hla2 with hla2; injection hla2 with e1 e2; subst e1 e2
  exact ⟨evs, m', hla, fun j => ⟨hpre j, hsb j⟩⟩

theorem put_img (so : StrictOrder kind.lt) (hH : Hash32 H) (P : Bytes → Prop) (hinj : Inj H sz P)
    (m : Mem) (sys : Sys (KMap Bytes) Bytes) (hist : Recs Bytes) (d : Disk)
    (t : Tied H kind sz N m sys hist d) (tn : Nat) (key : Bytes) (chunks : List Bytes)
    (hok : PutOK H kind P m key chunks) (j : Nat) :
    ImgTwo H kind sz N m hist (.put key (H chunks.flatten) (chunks.map List.length).sum)
      (d.applyAll ((putScript H m d tn key chunks).1.take j)) := by
  obtain ⟨hP, hraw, hval, hwf, hsave, hver⟩ := hok
  have hsum : (chunks.map List.length).sum = chunks.flatten.length := by rw [List.length_flatten]
  have hop : (chunks.map List.length).sum = sz (H chunks.flatten) := by rw [hsum, hinj.2 _ hP]
  obtain ⟨hres, hpre, sys', t'⟩ := putScript_sim H kind sz N so hH m sys hist d t tn key chunks hraw hval hop
    hwf hsave hver
  generalize hps : putScript H m d tn key chunks = ps at hres hpre t' ⊢
  obtain ⟨evs, m', res⟩ := ps
  simp only at hres hpre t' ⊢
  subst hres
  obtain ⟨evs2, hla, hevs⟩ := putScript_split H m d tn key chunks evs m' hps
  have hone : OneIdx evs := by
    rw [hevs]
    apply oneIdx_prepend _ _ _ (logAndApply_oneIdx H m _ _ _ evs2 m' hla)
    intro x hx
    simp only [beginScript, List.mem_append, List.mem_cons, List.not_mem_nil, or_false] at hx
    rcases hx with ((hx | hx | hx) | hx) | hx
    · subst hx; simp [Ev.indexFree]
    · subst hx; simp [Ev.indexFree]
    · split at hx
      · simp only [List.mem_singleton] at hx; subst hx; simp [Ev.indexFree]
      · cases hx
    · split at hx
      · cases hx
      · unfold mkdirsFor at hx
        split at hx
        · simp only [List.mem_append] at hx
          rcases hx with hx | hx <;> (split at hx <;> simp at hx <;> subst hx <;> simp [Ev.indexFree])
        · cases hx
    · subst hx; simp [Ev.indexFree]
  have hn : m'.next = m.next + 1 := logAndApply_next H m _ _ _ evs2 m' hla
  have hsb := snapBound_allPre kind (m.next + 1) d t.cfg.rel.wf evs hone
    ((t.snapBound H kind sz N m sys hist d).mono kind _ _ d (Nat.le_succ _))
    (by have := t'.snapBound H kind sz N m' sys' _ _; rwa [hn] at this)
  exact ⟨hpre j, hsb j⟩

theorem remove_img (so : StrictOrder kind.lt) (hH : Hash32 H)
    (m : Mem) (sys : Sys (KMap Bytes) Bytes) (hist : Recs Bytes) (d : Disk)
    (t : Tied H kind sz N m sys hist d) (key : Bytes) (hok : RemoveOK kind m key) (j : Nat) :
    ImgTwo H kind sz N m hist (.remove [key]) (d.applyAll ((removeScript H m d key).1.take j)) := by
  obtain ⟨hraw, hval, hwf, hsave, hver⟩ := hok
  unfold removeScript
  cases hl : kLookup m.idx.map key with
  | none =>
    simp only [List.take_nil, Disk.applyAll_nil]
    exact (tied_img H kind sz N m sys hist d t [] (by intro e he; cases he)).two H kind sz N m hist _ _
  | some item =>
    obtain ⟨evs, m', hla, hall⟩ := commit_img H kind sz N so hH m sys hist d t (.remove [key])
      (.remove [key]) hraw (by simp [fromRaw, hval]) trivial hwf hsave hver
    simp only [hla]
    exact hall j

theorem range_img (so : StrictOrder kind.lt) (hH : Hash32 H)
    (m : Mem) (sys : Sys (KMap Bytes) Bytes) (hist : Recs Bytes) (d : Disk)
    (t : Tied H kind sz N m sys hist d) (lo hi : Bound) (hok : RangeOK kind m lo hi) (j : Nat) :
    ImgTwo H kind sz N m hist (.remove (rangeKeys m lo hi))
      (d.applyAll ((removeRangeScript H m d lo hi).1.take j)) := by
  obtain ⟨hraw, hval, hwf, hsave, hver⟩ := hok
  unfold removeRangeScript
  simp only
  by_cases he : (rangeKeys m lo hi).isEmpty = true
  · simp only [he, ↓reduceIte, List.take_nil, Disk.applyAll_nil]
    exact (tied_img H kind sz N m sys hist d t [] (by intro e he; cases he)).two H kind sz N m hist _ _
  · simp only [he, Bool.false_eq_true, ↓reduceIte]
    obtain ⟨evs, m', hla, hall⟩ := commit_img H kind sz N so hH m sys hist d t
      (.remove (rangeKeys m lo hi)) (.remove (rangeKeys m lo hi)) hraw (by simp [fromRaw, hval]) trivial
      hwf hsave hver
    simp only [hla]
    exact hall j

theorem checkpoint_img (so : StrictOrder kind.lt)
    (m : Mem) (sys : Sys (KMap Bytes) Bytes) (hist : Recs Bytes) (d : Disk)
    (t : Tied H kind sz N m sys hist d) (hsv : SaveOK kind m.idx) (hver : m.next < U64) (j : Nat) :
    ImgSame H kind sz N m hist (d.applyAll ((checkpointScript .explicit m d).1.take j)) := by
  obtain ⟨hpre, sys', t'⟩ := checkpoint_sim H kind sz N so .explicit m sys hist d d t hsv hver [hist] (by simp)
  have hn : (checkpointScript .explicit m d).2.next = m.next := by
    unfold checkpointScript
    cases ckptTarget .explicit m.next m.idx.lastPersisted <;> rfl
  have hsb := snapBound_allPre kind m.next d t.cfg.rel.wf _ (checkpointScript_oneIdx .explicit m d)
    (t.snapBound H kind sz N m sys hist d)
    (by have := t'.snapBound H kind sz N _ sys' _ _; rwa [hn] at this)
  exact ⟨hpre j, hsb j⟩

theorem reopen_img (so : StrictOrder kind.lt) (hH : Hash32 H)
    (m : Mem) (sys : Sys (KMap Bytes) Bytes) (hist : Recs Bytes) (d : Disk)
    (t : Tied H kind sz N m sys hist d)
    (cfg0 : Config) (hk0 : cfg0.kind = kind) (hn0 : cfg0.N = N)
    (ho0 : OpenOK H kind cfg0 (d.applyAll (closeScript m))) (j : Nat) :
    ImgSame H kind sz N m hist (d.applyAll ((closeScript m ++
      (openBody H cfg0 (d.applyAll (closeScript m))).1).take j)) := by
  have hc := closeScript_benign m
  have ⟨e0, pre0, hg0, hsv0⟩ := ho0
  have c1 := (t.cfg.toDCfg.freeAll H kind sz N sys hist d (closeScript m) (fun e he => (hc e he).1)).crash
    H kind sz N sys hist _
  obtain ⟨acc, hl, _, _, hpre2, mm, sys', hmm, _, hnext2, t2, hres⟩ :=
    open_sim_full H kind sz N so hH cfg0 hk0 hn0 _ hist _ c1 rfl e0 pre0 hg0 hsv0
  have hl' : logical H cfg0.kind ((d.applyAll (closeScript m)).applyAll e0) = .ok acc := by rw [hk0]; exact hl
  have hpre : AllPre (Recoverable H kind sz N [hist]) d
      (closeScript m ++ (openBody H cfg0 (d.applyAll (closeScript m))).1) :=
    allPre_append _ d _ _ (allPre_free H kind sz N sys hist d t.cfg [hist] (by simp) _
      (fun e he => (hc e he).1)) hpre2
  have hle : mm.next ≤ m.next := by
    have c2 := (t.cfg.toDCfg.freeAll H kind sz N sys hist d (closeScript m) (fun e he => (hc e he).1)).freeAll
      H kind sz N sys hist _ e0 (settingsGate_free cfg0 _ e0 pre0 hg0)
    obtain ⟨a, hl2, _, _, _, _, _, hrec⟩ := c2.recovers H hH kind so sz N sys hist _
    rw [hl] at hl2; injection hl2 with hl2; subst hl2
    obtain ⟨_, _, m3, m4⟩ := t.cfg.good.mem t.cfg.up
    have := recover_next_le (stepM kind) sys.g sys.next m3 m4 _ _ hrec
    rw [t.next] at this
    rw [hnext2]; exact this
  have hone : OneIdx (closeScript m ++ (openBody H cfg0 (d.applyAll (closeScript m))).1) :=
    oneIdx_prepend _ _ (fun x hx => (hc x hx).1.2) (openBody_oneIdx H cfg0 _ e0 pre0 acc hg0 hl')
  have hsb := snapBound_allPre kind m.next d t.cfg.rel.wf _ hone (t.snapBound H kind sz N m sys hist d)
    (by rw [Disk.applyAll_append]
        exact (t2.snapBound H kind sz N mm sys' hist _).mono kind _ _ _ hle)
  exact ⟨hpre j, hsb j⟩

/-! ### the guards hold along every small history, kills included -/

def SmallOpAll (P : Bytes → Prop) : LOp → Prop
  | .put k c | .putCrash k c _ => SmallKey kind k ∧ P c.flatten ∧ c.flatten.length < U64
  | .remove k | .removeCrash k _ => SmallKey kind k
  | _ => True

theorem settled_take (cfg : Config) (d : Disk) (hw : d.WF) (evs : List Ev)
    (hq : ∀ e ∈ evs, e.touches .settings = false) (h : Settled cfg d) (j : Nat) :
    Settled cfg (d.applyAll (evs.take j)) :=
  h.frame cfg d hw _ (fun e he => hq e (List.mem_of_mem_take he))

theorem settled_open (cfg : Config) (dj : Disk) (hw : dj.WF) (h : Settled cfg dj) :
    Settled cfg (dj.applyAll (openBody H cfg dj).1) :=
  h.frame cfg dj hw _ (openBody_settings H cfg dj h)

/-- **every guard of `C03_histories_with_crashes` holds along every history of at most 2^15 - 3
    operations on reasonable keys — puts, removes, range removals, checkpoints, restarts, abandoned
    transactions, and each of them killed after ANY number of filesystem events** — from any live,
    roomy store whose settings file is in place (e.g. right after the first `open`).  What is left
    of the hypotheses of that theorem: the key order is a strict total order (`keyOrder_strict`),
    the hash is 32 bytes wide and collision-free on the contents stored (`hash_hypotheses_satisfiable`). -/
theorem liveOK_of_small_all (so : StrictOrder kind.lt) (hH : Hash32 H) (P : Bytes → Prop)
    (hinj : Inj H sz P) (cfg : Config) (hk : cfg.kind = kind) (hn : cfg.N = N) (ops : List LOp) :
    ∀ (b : Nat) (m : Mem) (sys : Sys (KMap Bytes) Bytes) (hist : Recs Bytes) (d : Disk) (spec : Spec)
      (tn : Nat), StoreLive H kind sz N m sys hist d spec tn → (∀ k c, spec k = some c → P c) →
      Roomy kind b m → Settled cfg d → b + ops.length + 3 ≤ 2 ^ 15 →
      (∀ op ∈ ops, SmallOpAll kind P op) → LiveOK H kind P cfg m d tn ops := by
  induction ops with
  | nil => intro b m sys hist d spec tn _ _ _ _ _ _; trivial
  | cons op ops ih =>
    intro b m sys hist d spec tn live hspecP r hset hb hops
    have hop := hops op (by simp)
    have hrest : ∀ o ∈ ops, SmallOpAll kind P o := fun o ho => hops o (by simp [ho])
    simp only [List.length_cons] at hb
    have h15 : (2:Nat) ^ 15 < U32 := by decide
    have h3264 : U32 < U64 := by decide
    have hw := live.sinv.wf
    have t := live.tied
    cases op with
    | put key chunks =>
      obtain ⟨hk', hP, hlen⟩ := hop
      have hpo := putOK_of_roomy H kind hH P b m r (by omega) key chunks hk' hP hlen
      refine ⟨hpo, ?_⟩
      intro evs m' hrun
      obtain ⟨_, hraw, hval, hwf, hsave, hver⟩ := hpo
      obtain ⟨evs1, m1, sys1, hist1, hrun1, live1⟩ := live.put H kind sz N so hH P hinj m sys hist d spec tn
        hspecP key chunks hP hraw hval hwf hsave hver
      rw [hrun] at hrun1
      simp only [Prod.mk.injEq] at hrun1
      obtain ⟨e1, e2, _⟩ := hrun1
      subst e1 e2
      exact ih (b + 1) m' sys1 hist1 _ _ (tn + 1) live1 (specP_put P spec hspecP key _ hP)
        (roomy_put H kind hH b m r t.kindEq d tn key chunks hk' hlen evs m' hrun)
        (hset.frame cfg d hw evs (putScript_settings H m d tn key chunks evs m' hrun)) (by omega) hrest
    | remove key =>
      have hro := removeOK_of_roomy kind b m r (by omega) key hop
      refine ⟨hro, ?_⟩
      intro evs m' bb hrun
      obtain ⟨hraw, hval, hwf, hsave, hver⟩ := hro
      obtain ⟨evs1, m1, b1, sys1, hist1, hrun1, _, live1⟩ := live.remove H kind sz N so hH m sys hist d spec tn
        key hraw hval hwf hsave hver
      rw [hrun] at hrun1
      simp only [Prod.mk.injEq] at hrun1
      obtain ⟨e1, e2, _⟩ := hrun1
      subst e1 e2
      have hq := removeScript_settings H m d key
      rw [hrun] at hq
      exact ih (b + 1) m' sys1 hist1 _ _ tn live1 (specP_remove P spec hspecP key)
        (roomy_remove H kind b m r t.kindEq d key evs m' bb hrun) (hset.frame cfg d hw evs hq) (by omega) hrest
    | removeRange lo hi =>
      have hro := rangeOK_of_roomy kind b m r (by omega) lo hi
      refine ⟨hro, ?_⟩
      intro evs m' n hrun
      obtain ⟨evs1, m1, n1, sys1, hist1, hrun1, _, live1⟩ := live.removeRange H kind sz N so hH m sys hist d
        spec tn lo hi hro
      rw [hrun] at hrun1
      simp only [Prod.mk.injEq] at hrun1
      obtain ⟨e1, e2, _⟩ := hrun1
      subst e1 e2
      have hq := removeRangeScript_settings H m d lo hi
      rw [hrun] at hq
      exact ih (b + 1) m' sys1 hist1 _ _ tn live1 (specP_range P spec hspecP _)
        (roomy_removeRange H kind b m r t.kindEq d lo hi evs m' n hrun) (hset.frame cfg d hw evs hq)
        (by omega) hrest
    | checkpoint =>
      have hsv : SaveOK kind m.idx := saveOK_of kind _ m.idx rfl r.keys r.ents (by have := r.count; omega)
      have hver : m.next < U64 := by have := r.next.2; omega
      refine ⟨⟨hsv, hver⟩, ?_⟩
      obtain ⟨sys1, live1⟩ := live.checkpoint H kind sz N so m sys hist d spec tn hsv hver
      exact ih b _ sys1 hist _ _ tn live1 hspecP (roomy_checkpoint kind b m r .explicit d)
        (hset.frame cfg d hw _ (checkpointScript_settings .explicit m d)) (by omega) hrest
    | abandon content =>
      exact ih b m sys hist _ _ (tn + 1) (live.abandoned H kind sz N m sys hist d spec tn content) hspecP r
        (hset.frame cfg d hw _ (abandoned_settings tn content)) (by omega) hrest
    | reopen =>
      have hc := closeScript_benign m
      have hset1 := hset.frame cfg d hw _ (closeScript_settings m)
      have ho := openOK_of_tied H kind sz N so hH b m sys hist d t r (by omega) (closeScript m)
        (fun e he => (hc e he).1) cfg (hset1.gate cfg _)
      refine ⟨ho, ?_⟩
      intro m2 sc hres
      obtain ⟨m2', sys2, sc', hres', _, _, _, live2⟩ := live.reopen H kind sz N so hH P hinj m sys hist d spec tn
        hspecP cfg hk hn ho
      rw [hres] at hres'; injection hres' with hres'; injection hres' with e1 _; subst e1
      exact ih b m2 sys2 hist _ _ tn live2 hspecP
        (roomy_open H kind sz N so hH b m sys hist d t r (closeScript m) (fun e he => (hc e he).1) cfg hk hn
          ho m2 sc hres)
        (settled_open H cfg _ (Disk.applyAll_WF d hw _) hset1) (by omega) hrest
    | putCrash key chunks j =>
      obtain ⟨hk', hP, hlen⟩ := hop
      have hpo := putOK_of_roomy H kind hH P b m r (by omega) key chunks hk' hP hlen
      have himg := put_img H kind sz N so hH P hinj m sys hist d t tn key chunks hpo j
      obtain ⟨_, hraw, hval, hwf, hsave, hver⟩ := hpo
      have hsum : (chunks.map List.length).sum = chunks.flatten.length := by rw [List.length_flatten]
      have hopk : ∀ k hh size, Op.put key (H chunks.flatten) (chunks.map List.length).sum = .put k hh size →
          SmallKey kind k ∧ hh.length = 32 ∧ size < U64 := by
        intro k hh size ho
        injection ho with e1 e2 e3
        subst e1 e2 e3
        exact ⟨hk', hH _, by rw [hsum]; exact hlen⟩
      -- the put's events do not touch the settings file
      obtain ⟨evs, m', hrun, _⟩ := putScript_sinv H sz m d spec tn live.sinv key chunks P hinj hP hspecP
      have hq := putScript_settings H m d tn key chunks evs m' hrun
      have hset1 : Settled cfg (d.applyAll ((putScript H m d tn key chunks).1.take j)) := by
        rw [hrun]; exact settled_take cfg d hw evs hq hset j
      have ho := openOK_two H kind sz N so hH b m sys hist d t r (by omega) _ _ hraw
        (by simp [fromRaw, hval]) hopk _ himg.rcv himg.sb cfg (hset1.gate cfg _)
      refine ⟨⟨hP, hraw, hval, hwf, hsave, hver⟩, ho, ?_⟩
      intro m2 sc hres
      obtain ⟨m2', sys2, hist2, sc', spec2, hres', _, _, hs2, live2⟩ := live.putCrash H kind sz N so hH P hinj
        m sys hist d spec tn hspecP key chunks hP hraw hval hwf hsave hver cfg hk hn j ho
      rw [hres] at hres'; injection hres' with hres'; injection hres' with e1 _; subst e1
      have hsp2 : ∀ k c, spec2 k = some c → P c := by
        rcases hs2 with rfl | rfl
        · exact hspecP
        · exact specP_put P spec hspecP key _ hP
      exact ih (b + 1) m2 sys2 hist2 _ _ (tn + 1) live2 hsp2
        (roomy_open_two H kind sz N so hH b m sys hist d t r _ _ hraw (by simp [fromRaw, hval]) hopk _
          himg.rcv himg.sb cfg hk hn ho m2 sc hres)
        (settled_open H cfg _ (Disk.applyAll_WF d hw _) hset1) (by omega) hrest
    | removeCrash key j =>
      have hro := removeOK_of_roomy kind b m r (by omega) key hop
      have himg := remove_img H kind sz N so hH m sys hist d t key hro j
      obtain ⟨hraw, hval, hwf, hsave, hver⟩ := hro
      have hset1 : Settled cfg (d.applyAll ((removeScript H m d key).1.take j)) :=
        settled_take cfg d hw _ (removeScript_settings H m d key) hset j
      have ho := openOK_two H kind sz N so hH b m sys hist d t r (by omega) (.remove [key]) (.remove [key])
        hraw (by simp [fromRaw, hval]) (by intro k hh size ho; cases ho) _ himg.rcv himg.sb cfg
        (hset1.gate cfg _)
      refine ⟨⟨hraw, hval, hwf, hsave, hver⟩, ho, ?_⟩
      intro m2 sc hres
      obtain ⟨m2', sys2, hist2, sc', spec2, hres', _, _, hs2, live2⟩ := live.removeCrash H kind sz N so hH P
        hinj m sys hist d spec tn hspecP key hraw hval hwf hsave hver cfg hk hn j ho
      rw [hres] at hres'; injection hres' with hres'; injection hres' with e1 _; subst e1
      have hsp2 : ∀ k c, spec2 k = some c → P c := by
        rcases hs2 with rfl | rfl
        · exact hspecP
        · exact specP_remove P spec hspecP key
      exact ih (b + 1) m2 sys2 hist2 _ _ tn live2 hsp2
        (roomy_open_two H kind sz N so hH b m sys hist d t r (.remove [key]) (.remove [key]) hraw
          (by simp [fromRaw, hval]) (by intro k hh size ho; cases ho) _ himg.rcv himg.sb cfg hk hn ho m2 sc hres)
        (settled_open H cfg _ (Disk.applyAll_WF d hw _) hset1) (by omega) hrest
    | removeRangeCrash lo hi j =>
      have hro := rangeOK_of_roomy kind b m r (by omega) lo hi
      have himg := range_img H kind sz N so hH m sys hist d t lo hi hro j
      have hro' := hro
      obtain ⟨hraw, hval, hwf, hsave, hver⟩ := hro
      have hset1 : Settled cfg (d.applyAll ((removeRangeScript H m d lo hi).1.take j)) :=
        settled_take cfg d hw _ (removeRangeScript_settings H m d lo hi) hset j
      have ho := openOK_two H kind sz N so hH b m sys hist d t r (by omega) (.remove (rangeKeys m lo hi))
        (.remove (rangeKeys m lo hi)) hraw (by simp [fromRaw, hval]) (by intro k hh size ho; cases ho) _
        himg.rcv himg.sb cfg (hset1.gate cfg _)
      refine ⟨hro', ho, ?_⟩
      intro m2 sc hres
      obtain ⟨m2', sys2, hist2, sc', spec2, hres', _, _, hs2, live2⟩ := live.removeRangeCrash H kind sz N so hH
        P hinj m sys hist d spec tn hspecP lo hi hro' cfg hk hn j ho
      rw [hres] at hres'; injection hres' with hres'; injection hres' with e1 _; subst e1
      have hsp2 : ∀ k c, spec2 k = some c → P c := by
        rcases hs2 with rfl | rfl
        · exact hspecP
        · exact specP_range P spec hspecP _
      exact ih (b + 1) m2 sys2 hist2 _ _ tn live2 hsp2
        (roomy_open_two H kind sz N so hH b m sys hist d t r (.remove (rangeKeys m lo hi))
          (.remove (rangeKeys m lo hi)) hraw (by simp [fromRaw, hval]) (by intro k hh size ho; cases ho) _
          himg.rcv himg.sb cfg hk hn ho m2 sc hres)
        (settled_open H cfg _ (Disk.applyAll_WF d hw _) hset1) (by omega) hrest
    | checkpointCrash j =>
      have hsv : SaveOK kind m.idx := saveOK_of kind _ m.idx rfl r.keys r.ents (by have := r.count; omega)
      have hver : m.next < U64 := by have := r.next.2; omega
      have himg := checkpoint_img H kind sz N so m sys hist d t hsv hver j
      have hset1 : Settled cfg (d.applyAll ((checkpointScript .explicit m d).1.take j)) :=
        settled_take cfg d hw _ (checkpointScript_settings .explicit m d) hset j
      have ho := openOK_same H kind sz N so hH b m sys hist d t r (by omega) _ himg.rcv himg.sb cfg
        (hset1.gate cfg _)
      refine ⟨⟨hsv, hver⟩, ho, ?_⟩
      intro m2 sc hres
      obtain ⟨m2', sys2, sc', hres', _, _, _, live2⟩ := live.checkpointCrash H kind sz N so hH P hinj
        m sys hist d spec tn hspecP hsv hver cfg hk hn j ho
      rw [hres] at hres'; injection hres' with hres'; injection hres' with e1 _; subst e1
      exact ih b m2 sys2 hist _ _ tn live2 hspecP
        (roomy_open_same H kind sz N so hH b m sys hist d t r _ himg.rcv himg.sb cfg hk hn ho m2 sc hres)
        (settled_open H cfg _ (Disk.applyAll_WF d hw _) hset1) (by omega) hrest
    | reopenCrash j =>
      have hc := closeScript_benign m
      have hsetc := hset.frame cfg d hw _ (closeScript_settings m)
      have ho0 := openOK_of_tied H kind sz N so hH b m sys hist d t r (by omega) (closeScript m)
        (fun e he => (hc e he).1) cfg (hsetc.gate cfg _)
      have himg := reopen_img H kind sz N so hH m sys hist d t cfg hk hn ho0 j
      have hset1 : Settled cfg (d.applyAll ((closeScript m ++
          (openBody H cfg (d.applyAll (closeScript m))).1).take j)) := by
        apply settled_take cfg d hw _ _ hset j
        intro e he
        rcases List.mem_append.mp he with he | he
        · exact closeScript_settings m e he
        · exact openBody_settings H cfg _ hsetc e he
      have ho := openOK_same H kind sz N so hH b m sys hist d t r (by omega) _ himg.rcv himg.sb cfg
        (hset1.gate cfg _)
      refine ⟨ho0, ho, ?_⟩
      intro m2 sc hres
      obtain ⟨m2', sys2, sc', hres', _, _, _, live2⟩ := live.reopenCrash H kind sz N so hH P hinj
        m sys hist d spec tn hspecP cfg hk hn ho0 cfg hk hn j ho
      rw [hres] at hres'; injection hres' with hres'; injection hres' with e1 _; subst e1
      exact ih b m2 sys2 hist _ _ tn live2 hspecP
        (roomy_open_same H kind sz N so hH b m sys hist d t r _ himg.rcv himg.sb cfg hk hn ho m2 sc hres)
        (settled_open H cfg _ (Disk.applyAll_WF d hw _) hset1) (by omega) hrest
    | abandonCrash content j =>
      have hfree : ∀ e ∈ (abandonedEvents tn content).take j, e.segFree = true ∧ e.indexFree = true :=
        fun e he => (abandoned_benign tn content e (List.mem_of_mem_take he)).1
      have himg := tied_img H kind sz N m sys hist d t _ hfree
      have hset1 : Settled cfg (d.applyAll ((abandonedEvents tn content).take j)) :=
        settled_take cfg d hw _ (abandoned_settings tn content) hset j
      have ho := openOK_same H kind sz N so hH b m sys hist d t r (by omega) _ himg.rcv himg.sb cfg
        (hset1.gate cfg _)
      refine ⟨ho, ?_⟩
      intro m2 sc hres
      have live1 := live.abandonedPrefix H kind sz N m sys hist d spec tn content j
      obtain ⟨m2', sys2, sc', hres', _, _, _, live2⟩ := live1.killOpen H kind sz N so hH P hinj m sys hist _ spec
        (tn + 1) hspecP cfg hk hn ho
      rw [hres] at hres'; injection hres' with hres'; injection hres' with e1 _; subst e1
      exact ih b m2 sys2 hist _ _ (tn + 1) live2 hspecP
        (roomy_open_same H kind sz N so hH b m sys hist d t r _ himg.rcv himg.sb cfg hk hn ho m2 sc hres)
        (settled_open H cfg _ (Disk.applyAll_WF d hw _) hset1) (by omega) hrest

/-- **C03 for every small history, with no usage guard left**: from a live, roomy store whose
    settings file is in place, ANY history of at most 2^15 - 3 puts, removes, range removals,
    checkpoints, restarts and abandoned transactions on reasonable keys — each possibly KILLED after
    any number of its filesystem events and followed by `open` — runs to completion, every `open`
    returns a handle, and at the end every key reads exactly the content of a specification
    reachable by applying each completed operation and applying-or-not each killed one. -/
theorem C03_small_world (so : StrictOrder kind.lt) (hH : Hash32 H) (P : Bytes → Prop)
    (hinj : Inj H sz P) (cfg : Config) (hk : cfg.kind = kind) (hn : cfg.N = N)
    (b : Nat) (m : Mem) (sys : Sys (KMap Bytes) Bytes) (hist : Recs Bytes) (d : Disk) (spec : Spec)
    (tn : Nat) (live : StoreLive H kind sz N m sys hist d spec tn) (hspecP : ∀ k c, spec k = some c → P c)
    (r : Roomy kind b m) (hset : Settled cfg d) (ops : List LOp) (hb : b + ops.length + 3 ≤ 2 ^ 15)
    (hops : ∀ op ∈ ops, SmallOpAll kind P op) :
    ∃ m' d' tn' spec', lRun H cfg m d tn ops = some (m', d', tn') ∧ LReach kind spec ops spec' ∧
      ∀ k, getBlob m' d' k = match spec' k with
                             | none => .absent
                             | some c => .found c := by
  obtain ⟨m', d', tn', _, _, spec', hr, hreach, _, hread⟩ :=
    C03_histories_with_crashes H kind sz N so hH P hinj cfg hk hn ops m sys hist d spec tn live hspecP
      (liveOK_of_small_all H kind sz N so hH P hinj cfg hk hn ops b m sys hist d spec tn live hspecP r hset hb hops)
  exact ⟨m', d', tn', spec', hr, hreach, hread⟩

end CasModel
