import CasModel.Props.C02Hist
import CasModel.Props.C06Store
import CasModel.Proofs.OpenOK
/-
  C03, the blob side: after a kill at ANY filesystem call of a put / remove, every key that
  recovery shows is READABLE — its blob file is in cas/ and its bytes hash to its name.
  The argument the scripts embody: the put's blob is renamed into cas/ BEFORE its record is
  written; blobs are unlinked only AFTER the record that drops their last reference is written and
  synced, and only for hashes whose count reached zero.  Formally: the commit's script splits at
  the record write — every prefix before it recovers to the OLD history, every prefix from it on to
  the NEW one (`logAndApply_sim_split`) — no event before the write touches a cas/ path, and every
  event spares the blobs the new map references.
-/
namespace CasModel
open Ghost

variable (H : Bytes → Bytes) (kind : KeyKind) (sz : Bytes → Nat) (N : Nat)

/-- every key of the map has its blob file -/
def BlobsPresent (mp : KMap Bytes) (d : Disk) : Prop :=
  ∀ k item, kLookup mp k = some item → ∃ x, d.get (.cas item.hash) = some x

/-- **the commit script splits at the record write**: before it every prefix recovers to the old
    history, from it on to the new one -/
theorem logAndApply_sim_split (so : StrictOrder kind.lt) (hH : Hash32 H) (m : Mem)
    (sys : Sys (KMap Bytes) Bytes) (hist : Recs Bytes) (d : Disk)
    (t : Tied H kind sz N m sys hist d) (op : Op Bytes) (raw : RawOp)
    (hraw : raw.WF) (hconv : fromRaw kind raw = some op) (hop : OpOK sz op)
    (hwf : (⟨m.next, serWalOp raw⟩ : Rec).WF)
    (hsave : ∀ idx' un, applyOp kind.lt m.idx op = .ok (idx', un) → SaveOK kind idx')
    (hver : m.next + 1 < U64) :
    ∃ rest m', logAndApply H m d op raw = .ok
        (rollEvents m.active (Ghost.segOf N m.next) ++
          [Ev.write (.seg (Ghost.segOf N m.next)) (encodeEntry H ⟨m.next, serWalOp raw⟩)] ++ rest, m') ∧
      AllPre (Recoverable H kind sz N [hist]) d (rollEvents m.active (Ghost.segOf N m.next)) ∧
      AllPre (Recoverable H kind sz N [hist ++ [(m.next, serWalOp raw)]])
        (d.applyAll (rollEvents m.active (Ghost.segOf N m.next) ++
          [Ev.write (.seg (Ghost.segOf N m.next)) (encodeEntry H ⟨m.next, serWalOp raw⟩)])) rest := by
  obtain ⟨idx', unref, ha, sok, _⟩ := applyOp_spec so sz m.idx t.inv op hop
  have ha' : applyOp m.cfg.kind.lt m.idx op = .ok (idx', unref) := by rw [t.kindEq]; exact ha
  obtain ⟨dels, ck, hdels, hck, hrun⟩ := logAndApply_eq H m d op raw idx' unref ha'
  have hseg : segOf m.cfg.N m.next = Ghost.segOf N m.next := by rw [t.nEq]; rfl
  rw [hseg] at hrun hck
  let p := serWalOp raw
  have hp : RecOK kind sz p :=
    ⟨raw, op, by have := C16_walop_roundtrip raw hraw []; rwa [List.append_nil] at this, hconv, hop⟩
  -- roll: old history
  obtain ⟨pre1, sys1, n1, s1, v1, c1, old, ho⟩ := roll_sim H kind sz N m sys hist d t [hist] (by simp)
  have hwf' : (⟨sys1.next, p⟩ : Rec).WF := by rw [n1]; exact hwf
  rw [← n1] at ho
  obtain ⟨sys2, _, n2, st2, v2, g2, c2⟩ := c1.append H kind sz N hH sys1 hist _ p hp hwf' old ho
  rw [n1] at c2 g2 n2
  have c3 := c2.free H kind sz N sys2 _ _ (.sync (.seg (Ghost.segOf N m.next)))
    (by simp [Ev.segFree]) (by simp [Ev.indexFree])
  have hdfree : ∀ e ∈ dels, e.segFree = true ∧ e.indexFree = true := by
    intro e he
    obtain ⟨h, rfl⟩ := hdels e he
    simp [Ev.segFree, Ev.indexFree]
  have c4 := c3.freeAll H kind sz N sys2 _ _ dels hdfree
  have pre4 := allPre_free H kind sz N sys2 _ _ c3 [hist ++ [(m.next, p)]] (by simp) dels hdfree
  have hmap : idx'.map = mapApply kind.lt m.idx.map op := applyOp_map kind.lt m.idx idx' op unref ha
  have hst2 : sys2.st = idx'.map := by
    have : stepM kind sys1.st p = .ok (mapApply kind.lt sys1.st op) := by
      obtain ⟨raw', op', h1, h2, _⟩ := hp
      have e1 : raw' = raw := by
        have := C16_walop_roundtrip raw hraw []
        rw [List.append_nil] at this
        rw [this] at h1; injection h1 with h1; exact h1.symm
      subst e1
      rw [hconv] at h2; injection h2 with h2; subst h2
      simp [stepM, h1, hconv]
    rw [this] at st2
    injection st2 with st2
    rw [← st2, s1, t.st, hmap]
  let m1 : Mem := { m with idx := idx', next := m.next + 1, active := some (Ghost.segOf N m.next) }
  let A := rollEvents m.active (Ghost.segOf N m.next) ++
    [Ev.write (.seg (Ghost.segOf N m.next)) (encodeEntry H ⟨m.next, p⟩)]
  have hdA : d.applyAll A = (d.applyAll (rollEvents m.active (Ghost.segOf N m.next))).apply
      (.write (.seg (Ghost.segOf N m.next)) (encodeEntry H ⟨m.next, p⟩)) := by
    simp only [A, Disk.applyAll_append, Disk.applyAll_cons, Disk.applyAll_nil]
  -- memory after the WAL part, tied to sys2, at the disk after sync + deletions
  have t1 : Tied H kind sz N m1 sys2 (hist ++ [(m.next, p)])
      (((d.applyAll A).apply (.sync (.seg (Ghost.segOf N m.next)))).applyAll dels) := by
    rw [hdA]
    refine ⟨c4, t.kindEq, t.nEq, n2, hst2, sok.inv, ?_, ?_⟩
    · intro a haa
      simp only [m1, Option.some.injEq] at haa
      subst haa
      refine ⟨by simp [m1], by simp only [m1]; have := hwf.1; simp only at this; omega,
        ⟨p, by simp [m1]⟩, _, g2⟩
    · show idx'.lastPersisted = sys2.g.snapVer
      rw [sok.persisted, t.persisted, v2, v1]
  -- the rest of the script: sync, deletions, rollover checkpoint — all on the new history
  have hrest : ∀ ckevs, AllPre (Recoverable H kind sz N [hist ++ [(m.next, p)]])
      (((d.applyAll A).apply (.sync (.seg (Ghost.segOf N m.next)))).applyAll dels) ckevs →
      AllPre (Recoverable H kind sz N [hist ++ [(m.next, p)]]) (d.applyAll A)
        ([Ev.sync (.seg (Ghost.segOf N m.next))] ++ dels ++ ckevs) := by
    intro ckevs hck'
    rw [hdA] at hck' ⊢
    refine allPre_append (Recoverable H kind sz N [hist ++ [(m.next, p)]]) _ _ _
      (allPre_append (Recoverable H kind sz N [hist ++ [(m.next, p)]]) _ _ _ ?_ ?_) ?_
    · refine allPre_cons (Recoverable H kind sz N [hist ++ [(m.next, p)]]) _ _ _
        (c2.toRec H kind sz N _ (by simp)) ?_
      exact allPre_nil _ _ (c3.toRec H kind sz N _ (by simp))
    · simp only [Disk.applyAll_cons, Disk.applyAll_nil]; exact pre4
    · simp only [Disk.applyAll_append, Disk.applyAll_cons, Disk.applyAll_nil]; exact hck'
  have hevs : ∀ ckevs, rollEvents m.active (Ghost.segOf N m.next) ++
      [Ev.write (.seg (Ghost.segOf N m.next)) (encodeEntry H ⟨m.next, serWalOp raw⟩),
       .sync (.seg (Ghost.segOf N m.next))] ++ dels ++ ckevs =
      rollEvents m.active (Ghost.segOf N m.next) ++
        [Ev.write (.seg (Ghost.segOf N m.next)) (encodeEntry H ⟨m.next, serWalOp raw⟩)] ++
        ([Ev.sync (.seg (Ghost.segOf N m.next))] ++ dels ++ ckevs) := by
    intro ckevs; simp only [List.append_assoc, List.cons_append, List.nil_append]
  by_cases hroll : (if m.next > 1 then segOf m.cfg.N (m.next - 1) else 0) ≠ Ghost.segOf N m.next
  · rw [if_pos hroll] at hck
    have hsv : SaveOK kind m1.idx := hsave idx' unref ha
    obtain ⟨preB, _, _⟩ := checkpoint_sim H kind sz N so .rollover m1 sys2 _ _
      (((d.applyAll (rollEvents m.active (Ghost.segOf N m.next) ++
                  [Ev.write (.seg (Ghost.segOf N m.next)) (encodeEntry H ⟨m.next, serWalOp raw⟩),
                   .sync (.seg (Ghost.segOf N m.next))])).applyAll dels))
      t1 hsv (by simp only [m1]; omega) [hist ++ [(m.next, p)]] (by simp)
    refine ⟨[Ev.sync (.seg (Ghost.segOf N m.next))] ++ dels ++ ck.1, ck.2, ?_, pre1, ?_⟩
    · rw [hrun, hevs]
    · apply hrest
      rw [hck]; exact preB
  · rw [if_neg hroll] at hck
    refine ⟨[Ev.sync (.seg (Ghost.segOf N m.next))] ++ dels ++ ck.1, ck.2, ?_, pre1, ?_⟩
    · rw [hrun, hevs]
    · apply hrest
      rw [hck]
      exact allPre_nil _ _ (t1.cfg.toRec H kind sz N _ (by simp))


theorem Recoverable.single_logical (so : StrictOrder kind.lt) (hH : Hash32 H) (hist : Recs Bytes)
    (d : Disk) (r : Recoverable H kind sz N [hist] d) (mp : KMap Bytes)
    (hrun : run (stepM kind) [] hist = .ok mp) :
    ∃ a, logical H kind d = .ok a ∧ IdxInv kind.lt sz a.idx ∧ a.idx.map = mp := by
  obtain ⟨sys, hist', hm, c⟩ := r
  simp only [List.mem_singleton] at hm
  subst hm
  obtain ⟨a, h1, h2, h3, _⟩ := c.recovers H hH kind so sz N sys hist' d
  rw [hrun] at h2; injection h2 with h2
  exact ⟨a, h1, h3, h2.symm⟩

/-- **C03 (blobs), one commit.** Kill a commit (the log-and-apply part of a put, a remove or a
    remove_range) after any number of its filesystem events: recovery succeeds, and EVERY key it
    shows has its blob file — provided every key had its blob before, and (for a put) the put's own
    blob is already in cas/ when the commit starts. -/
theorem C03_commit_recovered_readable (so : StrictOrder kind.lt) (hH : Hash32 H) (m : Mem)
    (sys : Sys (KMap Bytes) Bytes) (hist : Recs Bytes) (d : Disk)
    (t : Tied H kind sz N m sys hist d) (op : Op Bytes) (raw : RawOp)
    (hraw : raw.WF) (hconv : fromRaw kind raw = some op) (hop : OpOK sz op)
    (hwf : (⟨m.next, serWalOp raw⟩ : Rec).WF)
    (hsave : ∀ idx' un, applyOp kind.lt m.idx op = .ok (idx', un) → SaveOK kind idx')
    (hver : m.next + 1 < U64)
    (hold : BlobsPresent m.idx.map d)
    (hnew : ∀ k h size, op = .put k h size → ∃ x, d.get (.cas h) = some x) :
    ∃ evs m', logAndApply H m d op raw = .ok (evs, m') ∧
      ∀ j, ∃ a, logical H kind (d.applyAll (evs.take j)) = .ok a ∧ IdxInv kind.lt sz a.idx ∧
        (a.idx.map = m.idx.map ∨ a.idx.map = mapApply kind.lt m.idx.map op) ∧
        BlobsPresent a.idx.map (d.applyAll (evs.take j)) := by
  obtain ⟨rest, m', hrun, preA, preB⟩ :=
    logAndApply_sim_split H kind sz N so hH m sys hist d t op raw hraw hconv hop hwf hsave hver
  refine ⟨_, m', hrun, ?_⟩
  have hw := t.cfg.rel.wf
  have hM := t.mem_eq H kind sz N
  obtain ⟨idx', unref, ha, sok, hl⟩ := applyOp_spec so sz m.idx t.inv op hop
  have ha' : applyOp m.cfg.kind.lt m.idx op = .ok (idx', unref) := by rw [t.kindEq]; exact ha
  have hmap : idx'.map = mapApply kind.lt m.idx.map op := applyOp_map kind.lt m.idx idx' op unref ha
  obtain ⟨evs0, m0, hla0, _, hspare⟩ := logAndApply_spec H m d op raw idx' unref ha'
  rw [hrun] at hla0
  injection hla0 with hla0; injection hla0 with hevs0 _
  have hstep : stepM kind m.idx.map (serWalOp raw) = .ok (mapApply kind.lt m.idx.map op) := by
    have := C16_walop_roundtrip raw hraw []
    rw [List.append_nil] at this
    simp [stepM, this, hconv]
  have hrun2 : run (stepM kind) [] (hist ++ [(m.next, serWalOp raw)]) =
      .ok (mapApply kind.lt m.idx.map op) := by
    rw [run_append, hM]; simp [run, hstep]
  -- the blobs of the NEW map survive every event of the script
  have hnewblobs : ∀ (evs' : List Ev), (∀ e ∈ evs', e ∈ evs0) →
      BlobsPresent (mapApply kind.lt m.idx.map op) (d.applyAll evs') := by
    intro evs' hsub k item hk
    rw [← hmap] at hk
    have hpos : 0 < countHash idx'.map item.hash := countHash_pos_of_lookup hk
    have hnu : item.hash ∉ unref := by
      intro c; have := ((sok.unref item.hash).mp c).2; omega
    rw [sparesCas_frame_all d hw item.hash evs' (fun e he => hspare item.hash hnu e (hsub e he))]
    -- present at the start: an old key's blob, or the put's own
    rw [hl k] at hk
    cases op with
    | put k0 h0 s0 =>
      simp only [specApply] at hk
      by_cases ck : k = k0
      · simp only [ck, ↓reduceIte, Option.some.injEq] at hk
        rw [← hk]; exact hnew k0 h0 s0 rfl
      · simp only [ck, ↓reduceIte] at hk; exact hold k item hk
    | remove ks =>
      simp only [specApply] at hk
      split at hk
      · cases hk
      · exact hold k item hk
  intro j
  by_cases hj : j ≤ (rollEvents m.active (Ghost.segOf N m.next)).length
  · -- before the record write: the old map; the roll touches no blob
    have htake : (rollEvents m.active (Ghost.segOf N m.next) ++
        [Ev.write (.seg (Ghost.segOf N m.next)) (encodeEntry H ⟨m.next, serWalOp raw⟩)] ++ rest).take j =
        (rollEvents m.active (Ghost.segOf N m.next)).take j := by
      rw [List.append_assoc, List.take_append_of_le_length hj]
    rw [htake]
    obtain ⟨a, h1, h2, h3⟩ := (preA j).single_logical H kind sz N so hH hist _ m.idx.map hM
    refine ⟨a, h1, h2, Or.inl h3, ?_⟩
    intro k item hk
    rw [h3] at hk
    obtain ⟨x, hx⟩ := hold k item hk
    refine ⟨x, ?_⟩
    rw [sparesCas_frame_all d hw item.hash _ (fun e he =>
      rollEvents_spares _ _ item.hash e (List.mem_of_mem_take he))]
    exact hx
  · -- from the record write on: the new map
    have hlen : (rollEvents m.active (Ghost.segOf N m.next) ++
        [Ev.write (.seg (Ghost.segOf N m.next)) (encodeEntry H ⟨m.next, serWalOp raw⟩)]).length ≤ j := by
      simp only [List.length_append, List.length_cons, List.length_nil]; omega
    have htake : (rollEvents m.active (Ghost.segOf N m.next) ++
        [Ev.write (.seg (Ghost.segOf N m.next)) (encodeEntry H ⟨m.next, serWalOp raw⟩)] ++ rest).take j =
        (rollEvents m.active (Ghost.segOf N m.next) ++
        [Ev.write (.seg (Ghost.segOf N m.next)) (encodeEntry H ⟨m.next, serWalOp raw⟩)]) ++
        rest.take (j - (rollEvents m.active (Ghost.segOf N m.next) ++
        [Ev.write (.seg (Ghost.segOf N m.next)) (encodeEntry H ⟨m.next, serWalOp raw⟩)]).length) := by
      rw [List.take_append, List.take_of_length_le hlen]
    rw [htake, Disk.applyAll_append]
    obtain ⟨a, h1, h2, h3⟩ := (preB _).single_logical H kind sz N so hH _ _ _ hrun2
    refine ⟨a, h1, h2, Or.inr h3, ?_⟩
    rw [h3, ← Disk.applyAll_append]
    apply hnewblobs
    intro e he
    rw [← hevs0]
    rcases List.mem_append.mp he with he | he
    · exact List.mem_append_left _ he
    · exact List.mem_append_right _ (List.mem_of_mem_take he)


/-- events that keep an existing file `f` existing -/
theorem get_some_apply (d : Disk) (hw : d.WF) (f : FileId) (e : Ev) (x : File) (hx : d.get f = some x)
    (hne : (∀ g, e ≠ .unlink g ∨ g ≠ f) ∧ (∀ a b, e = .rename a b → a ≠ f)) :
    ∃ y, (d.apply e).get f = some y := by
  cases e with
  | mkdir p => exact ⟨x, by rw [Disk.get_mkdir]; exact hx⟩
  | mkdirTree => exact ⟨x, by rw [Disk.get_mkdirTree]; exact hx⟩
  | flock => exact ⟨x, by rw [Disk.get_flock]; exact hx⟩
  | creat g t =>
    rw [Disk.get_creat]
    by_cases c : f = g
    · subst c; simp only [↓reduceIte, hx]; split <;> exact ⟨_, rfl⟩
    · simp only [c, ↓reduceIte]; exact ⟨x, hx⟩
  | write g bs =>
    rw [Disk.get_write]
    by_cases c : f = g
    · subst c; simp only [↓reduceIte, hx]; exact ⟨_, rfl⟩
    · simp only [c, ↓reduceIte]; exact ⟨x, hx⟩
  | sync g =>
    rw [Disk.get_sync]
    by_cases c : f = g
    · subst c; simp only [↓reduceIte, hx]; exact ⟨_, rfl⟩
    · simp only [c, ↓reduceIte]; exact ⟨x, hx⟩
  | unlink g =>
    rw [Disk.get_unlink d hw]
    have : f ≠ g := by
      rcases hne.1 g with h | h
      · exact absurd rfl h
      · exact fun c => h c.symm
    simp only [this, ↓reduceIte]; exact ⟨x, hx⟩
  | rename a b =>
    rw [Disk.get_rename d hw]
    have ha : a ≠ f := hne.2 a b rfl
    cases hda : d.get a with
    | none => exact ⟨x, hx⟩
    | some y =>
      simp only
      by_cases c : f = b
      · simp only [c, ↓reduceIte]; exact ⟨_, rfl⟩
      · have : ¬ f = a := fun c' => ha c'.symm
        simp only [c, this, ↓reduceIte]; exact ⟨x, hx⟩

/-- **C03 (blobs), a whole put.** Kill a put after any number of its filesystem events (staging,
    directories, rename, roll-over, record, deletions, roll-over checkpoint): recovery succeeds
    with the old key map or the old one with the put applied, and EVERY key it shows is readable:
    its blob file exists and its bytes hash to its name. -/
theorem C03_put_recovered_readable (so : StrictOrder kind.lt) (hH : Hash32 H) (m : Mem)
    (sys : Sys (KMap Bytes) Bytes) (hist : Recs Bytes) (d : Disk)
    (t : Tied H kind sz N m sys hist d) (tn : Nat) (key : Bytes) (chunks : List Bytes)
    (hraw : (RawOp.put key (H chunks.flatten) (chunks.map List.length).sum).WF)
    (hconv : kind.valid key = true)
    (hop : (chunks.map List.length).sum = sz (H chunks.flatten))
    (hwf : (⟨m.next, serWalOp (.put key (H chunks.flatten) (chunks.map List.length).sum)⟩ : Rec).WF)
    (hsave : ∀ idx' un, applyOp kind.lt m.idx
        (.put key (H chunks.flatten) (chunks.map List.length).sum) = .ok (idx', un) → SaveOK kind idx')
    (hver : m.next + 1 < U64)
    (hold : BlobsPresent m.idx.map d) (hcas : CasOK H d) (hfresh : d.get (.staging tn) = none) :
    ∀ j, ∃ a, logical H kind (d.applyAll ((putScript H m d tn key chunks).1.take j)) = .ok a ∧
      IdxInv kind.lt sz a.idx ∧
      (a.idx.map = m.idx.map ∨ a.idx.map = mapApply kind.lt m.idx.map
        (.put key (H chunks.flatten) (chunks.map List.length).sum)) ∧
      ∀ k item, kLookup a.idx.map k = some item →
        ∃ x, (d.applyAll ((putScript H m d tn key chunks).1.take j)).get (.cas item.hash) = some x ∧
          H x.data = item.hash := by
  have hw := t.cfg.rel.wf
  have hM := t.mem_eq H kind sz N
  obtain ⟨hres, _, _⟩ := putScript_sim H kind sz N so hH m sys hist d t tn key chunks hraw hconv hop hwf hsave hver
  have hcasAll := C06_put_all_prefixes H m d hw hcas tn key chunks hfresh
  generalize hps : putScript H m d tn key chunks = ps at hres hcasAll ⊢
  obtain ⟨evs, m', res⟩ := ps
  simp only at hres hcasAll ⊢
  subst hres
  obtain ⟨evs2, hla, hevs⟩ := putScript_split H m d tn key chunks evs m' hps
  -- the blob-side events up to (not including) the rename touch no cas path at all
  let pre0 : List Ev := beginScript tn ++ ([Ev.write (.staging tn) chunks.flatten] ++
      (if m.cfg.sync then [Ev.sync (.staging tn)] else [])) ++
      (if m.preCreated then [] else mkdirsFor (d.applyAll (beginScript tn)) (H chunks.flatten))
  have hpre0 : ∀ e ∈ pre0, (∀ g, e.touches (.cas g) = false) ∧ e.segFree = true ∧ e.indexFree = true ∧
      (∀ g, e ≠ .unlink g ∨ g ≠ .staging tn) ∧ (∀ a b, e = .rename a b → a ≠ .staging tn) := by
    intro e he
    simp only [pre0, beginScript, List.mem_append, List.mem_cons, List.not_mem_nil, or_false] at he
    rcases he with (he | he | he) | he
    · subst he; exact ⟨fun _ => rfl, by simp [Ev.segFree], by simp [Ev.indexFree], fun _ => Or.inl (by simp), by simp⟩
    · subst he; exact ⟨fun _ => rfl, by simp [Ev.segFree], by simp [Ev.indexFree], fun _ => Or.inl (by simp), by simp⟩
    · split at he
      · simp only [List.mem_singleton] at he; subst he
        exact ⟨fun _ => rfl, by simp [Ev.segFree], by simp [Ev.indexFree], fun _ => Or.inl (by simp), by simp⟩
      · cases he
    · split at he
      · cases he
      · unfold mkdirsFor at he
        split at he
        · simp only [List.mem_append] at he
          rcases he with he | he <;> (split at he <;> simp at he <;> subst he <;>
            exact ⟨fun _ => rfl, by simp [Ev.segFree], by simp [Ev.indexFree], fun _ => Or.inl (by simp), by simp⟩)
        · cases he
  have hsplit : evs = pre0 ++ ([Ev.rename (.staging tn) (.cas (H chunks.flatten))] ++ evs2) := by
    rw [hevs]; simp only [pre0, List.append_assoc]
  -- the staging file exists right before the rename
  have hstg : ∃ y, (d.applyAll pre0).get (.staging tn) = some y := by
    have h1 : ∃ y, (d.apply (.creat (.staging tn) true)).get (.staging tn) = some y := by
      rw [Disk.get_creat]; simp only [↓reduceIte]; split <;> exact ⟨_, rfl⟩
    have key : ∀ (l : List Ev) (dd : Disk), dd.WF → (∃ y, dd.get (.staging tn) = some y) →
        (∀ e ∈ l, (∀ g, e ≠ .unlink g ∨ g ≠ .staging tn) ∧ (∀ a b, e = .rename a b → a ≠ .staging tn)) →
        ∃ y, (dd.applyAll l).get (.staging tn) = some y := by
      intro l
      induction l with
      | nil => intro dd _ h _; exact h
      | cons e l ih =>
        intro dd hwd ⟨y, hy⟩ hl
        rw [Disk.applyAll_cons]
        exact ih _ (Disk.apply_WF dd hwd e) (get_some_apply dd hwd _ e y hy (hl e (by simp)))
          (fun e' he' => hl e' (by simp [he']))
    have : pre0 = Ev.creat (.staging tn) true :: pre0.tail := by simp [pre0, beginScript]
    rw [this, Disk.applyAll_cons]
    apply key _ _ (Disk.apply_WF d hw _) h1
    intro e he
    have hmem : e ∈ pre0 := by rw [this]; exact List.mem_cons_of_mem _ he
    exact ⟨(hpre0 e hmem).2.2.2.1, (hpre0 e hmem).2.2.2.2⟩
  intro j
  by_cases hj : j ≤ pre0.length
  · -- before the rename: old map, no cas path touched
    have htake : evs.take j = pre0.take j := by rw [hsplit, List.take_append_of_le_length hj]
    rw [htake]
    have hfree : ∀ e ∈ pre0.take j, e.segFree = true ∧ e.indexFree = true :=
      fun e he => ⟨(hpre0 e (List.mem_of_mem_take he)).2.1, (hpre0 e (List.mem_of_mem_take he)).2.2.1⟩
    have r : Recoverable H kind sz N [hist] (d.applyAll (pre0.take j)) :=
      ⟨sys, hist, by simp, t.cfg.toDCfg.freeAll H kind sz N sys hist d _ hfree⟩
    obtain ⟨a, h1, h2, h3⟩ := r.single_logical H kind sz N so hH hist _ m.idx.map hM
    refine ⟨a, h1, h2, Or.inl h3, ?_⟩
    intro k item hk
    rw [h3] at hk
    obtain ⟨x, hx⟩ := hold k item hk
    have hget : (d.applyAll (pre0.take j)).get (.cas item.hash) = some x := by
      rw [get_untouched_all d hw _ _ (fun e he => (hpre0 e (List.mem_of_mem_take he)).1 item.hash)]
      exact hx
    exact ⟨x, hget, hcas item.hash x hx⟩
  · -- from the rename on: the commit, started with the put's blob in place
    have hlen : (pre0 ++ [Ev.rename (.staging tn) (.cas (H chunks.flatten))]).length ≤ j := by
      simp only [List.length_append, List.length_cons, List.length_nil]; omega
    have hsplit2 : evs = (pre0 ++ [Ev.rename (.staging tn) (.cas (H chunks.flatten))]) ++ evs2 := by
      rw [hsplit]; simp only [List.append_assoc]
    have htake : evs.take j = (pre0 ++ [Ev.rename (.staging tn) (.cas (H chunks.flatten))]) ++
        evs2.take (j - (pre0 ++ [Ev.rename (.staging tn) (.cas (H chunks.flatten))]).length) := by
      rw [hsplit2, List.take_append, List.take_of_length_le hlen]
    have hpreeq : pre0 ++ [Ev.rename (.staging tn) (.cas (H chunks.flatten))] =
        beginScript tn ++ ([Ev.write (.staging tn) chunks.flatten] ++
          (if m.cfg.sync then [Ev.sync (.staging tn)] else [])) ++
          (if m.preCreated then [] else mkdirsFor (d.applyAll (beginScript tn)) (H chunks.flatten)) ++
          [Ev.rename (.staging tn) (.cas (H chunks.flatten))] := by
      simp only [pre0, List.append_assoc]
    -- the disk at the start of the commit
    have hfree1 : ∀ e ∈ pre0 ++ [Ev.rename (.staging tn) (.cas (H chunks.flatten))],
        e.segFree = true ∧ e.indexFree = true := by
      intro e he
      rcases List.mem_append.mp he with he | he
      · exact ⟨(hpre0 e he).2.1, (hpre0 e he).2.2.1⟩
      · simp only [List.mem_singleton] at he; subst he; simp [Ev.segFree, Ev.indexFree]
    have t1 : Tied H kind sz N m sys hist (d.applyAll (pre0 ++ [Ev.rename (.staging tn) (.cas (H chunks.flatten))])) :=
      ⟨t.cfg.freeAll H kind sz N sys hist d _ hfree1, t.kindEq, t.nEq, t.next, t.st, t.inv, t.active, t.persisted⟩
    have hw0 := Disk.applyAll_WF d hw pre0
    -- blobs at the start of the commit: the old ones untouched (or replaced by the put's own), the new one there
    have hnewblob : ∃ x, (d.applyAll (pre0 ++ [Ev.rename (.staging tn) (.cas (H chunks.flatten))])).get
        (.cas (H chunks.flatten)) = some x := by
      obtain ⟨y, hy⟩ := hstg
      refine ⟨y, ?_⟩
      rw [Disk.applyAll_append, Disk.applyAll_cons, Disk.applyAll_nil, Disk.get_rename _ hw0, hy]
      simp
    have hold1 : BlobsPresent m.idx.map (d.applyAll (pre0 ++ [Ev.rename (.staging tn) (.cas (H chunks.flatten))])) := by
      intro k item hk
      by_cases hh : item.hash = H chunks.flatten
      · rw [hh]; exact hnewblob
      · obtain ⟨x, hx⟩ := hold k item hk
        refine ⟨x, ?_⟩
        rw [Disk.applyAll_append, Disk.applyAll_cons, Disk.applyAll_nil, Disk.get_rename _ hw0]
        obtain ⟨y, hy⟩ := hstg
        rw [hy]
        have c1 : ¬ FileId.cas item.hash = FileId.cas (H chunks.flatten) := by simpa using hh
        have c2 : ¬ FileId.cas item.hash = FileId.staging tn := by simp
        simp only [c1, c2, ↓reduceIte]
        rw [get_untouched_all d hw _ _ (fun e he => (hpre0 e he).1 item.hash)]
        exact hx
    rw [← hpreeq] at hla
    obtain ⟨evs3, m3, hla3, hall⟩ := C03_commit_recovered_readable H kind sz N so hH m sys hist _ t1
      (.put key (H chunks.flatten) (chunks.map List.length).sum)
      (.put key (H chunks.flatten) (chunks.map List.length).sum) hraw
      (by simp [fromRaw, hconv]) hop hwf hsave hver hold1
      (fun k h size he => by injection he with _ h2 _; rw [← h2]; exact hnewblob)
    rw [hla] at hla3
    injection hla3 with hla3; injection hla3 with h3 _
    subst h3
    obtain ⟨a, h1, h2, h3, h4⟩ := hall (j - (pre0 ++ [Ev.rename (.staging tn) (.cas (H chunks.flatten))]).length)
    rw [htake, Disk.applyAll_append]
    refine ⟨a, h1, h2, h3, ?_⟩
    intro k item hk
    obtain ⟨x, hx⟩ := h4 k item hk
    refine ⟨x, hx, ?_⟩
    have := hcasAll j
    rw [htake, Disk.applyAll_append] at this
    exact this item.hash x hx


/-- **C03 (blobs), remove.** Kill a remove after any number of its filesystem events: recovery
    succeeds with the old key map or the one without the key, and every key it shows is readable. -/
theorem C03_remove_recovered_readable (so : StrictOrder kind.lt) (hH : Hash32 H) (m : Mem)
    (sys : Sys (KMap Bytes) Bytes) (hist : Recs Bytes) (d : Disk)
    (t : Tied H kind sz N m sys hist d) (key : Bytes)
    (hraw : (RawOp.remove [key]).WF) (hvalid : kind.valid key = true)
    (hwf : (⟨m.next, serWalOp (.remove [key])⟩ : Rec).WF)
    (hsave : ∀ idx' un, applyOp kind.lt m.idx (.remove [key]) = .ok (idx', un) → SaveOK kind idx')
    (hver : m.next + 1 < U64)
    (hold : BlobsPresent m.idx.map d) (hcas : CasOK H d) :
    ∀ j, ∃ a, logical H kind (d.applyAll ((removeScript H m d key).1.take j)) = .ok a ∧
      IdxInv kind.lt sz a.idx ∧
      (a.idx.map = m.idx.map ∨ a.idx.map = mapApply kind.lt m.idx.map (.remove [key])) ∧
      ∀ k item, kLookup a.idx.map k = some item →
        ∃ x, (d.applyAll ((removeScript H m d key).1.take j)).get (.cas item.hash) = some x ∧
          H x.data = item.hash := by
  have hw := t.cfg.rel.wf
  have hM := t.mem_eq H kind sz N
  intro j
  unfold removeScript
  cases hk : kLookup m.idx.map key with
  | none =>
    simp only [List.take_nil, Disk.applyAll_nil]
    have r : Recoverable H kind sz N [hist] d := ⟨sys, hist, by simp, t.cfg.toDCfg⟩
    obtain ⟨a, h1, h2, h3⟩ := r.single_logical H kind sz N so hH hist _ m.idx.map hM
    refine ⟨a, h1, h2, Or.inl h3, ?_⟩
    intro k item hk'
    rw [h3] at hk'
    obtain ⟨x, hx⟩ := hold k item hk'
    exact ⟨x, hx, hcas _ x hx⟩
  | some item0 =>
    obtain ⟨evs, m', hla, hall⟩ := C03_commit_recovered_readable H kind sz N so hH m sys hist d t
      (.remove [key]) (.remove [key]) hraw (by simp [fromRaw, hvalid]) trivial hwf hsave hver hold
      (fun k h size he => by cases he)
    simp only [hla]
    obtain ⟨a, h1, h2, h3, h4⟩ := hall j
    refine ⟨a, h1, h2, h3, ?_⟩
    intro k item hk'
    obtain ⟨x, hx⟩ := h4 k item hk'
    refine ⟨x, hx, ?_⟩
    have hcasAll := C06_commit_all_prefixes H m d hw hcas (.remove [key]) (.remove [key]) evs m' hla
    exact hcasAll j item.hash x hx


/-! ### contents, not only presence -/

/-- index and specification agree and every key's file holds exactly its content
    (the `agree` clause of `SInv`, for an arbitrary key map) -/
def Agree (mp : KMap Bytes) (spec : Spec) (d : Disk) : Prop :=
  ∀ k, match kLookup mp k, spec k with
    | none, none => True
    | some item, some c => item.hash = H c ∧ item.size = c.length ∧
        ∃ x, d.get (.cas item.hash) = some x ∧ x.data = c
    | _, _ => False

theorem Agree.read (mp : KMap Bytes) (spec : Spec) (d : Disk) (ag : Agree H mp spec d) (m : Mem)
    (hm : m.idx.map = mp) (k : Bytes) :
    getBlob m d k = match spec k with | none => .absent | some c => .found c := by
  have := ag k
  unfold getBlob
  rw [hm]
  cases h1 : kLookup mp k with
  | none =>
    cases h2 : spec k with
    | none => rfl
    | some c => simp [h1, h2] at this
  | some item =>
    cases h2 : spec k with
    | none => simp [h1, h2] at this
    | some c =>
      simp only [h1, h2] at this
      obtain ⟨_, _, x, hx, hd⟩ := this
      simp [hx, hd]

/-- agreement is carried along by events that leave the blobs of the map alone -/
theorem Agree.frame (mp : KMap Bytes) (spec : Spec) (d d' : Disk) (ag : Agree H mp spec d)
    (hsame : ∀ k item, kLookup mp k = some item → d'.get (.cas item.hash) = d.get (.cas item.hash)) :
    Agree H mp spec d' := by
  intro k
  have := ag k
  cases h1 : kLookup mp k with
  | none =>
    rw [h1] at this
    cases h2 : spec k with
    | none => trivial
    | some c => rw [h2] at this; exact this.elim
  | some item =>
    rw [h1] at this
    cases h2 : spec k with
    | none => rw [h2] at this; exact this.elim
    | some c =>
      rw [h2] at this
      simp only at this ⊢
      obtain ⟨a, b, x, hx, hd⟩ := this
      exact ⟨a, b, x, by rw [hsame k item h1]; exact hx, hd⟩


/-- **C03 (contents), one commit.** If at the start of the commit the disk carries the blobs of
    the OLD map (agreeing with `spec`) and of the NEW map (agreeing with `spec'`), then after a
    kill at any event recovery shows the old map, every key reading its `spec` content, or the new
    map, every key reading its `spec'` content. -/
theorem C03_commit_crash_contents (so : StrictOrder kind.lt) (hH : Hash32 H) (m : Mem)
    (sys : Sys (KMap Bytes) Bytes) (hist : Recs Bytes) (d : Disk)
    (t : Tied H kind sz N m sys hist d) (op : Op Bytes) (raw : RawOp)
    (hraw : raw.WF) (hconv : fromRaw kind raw = some op) (hop : OpOK sz op)
    (hwf : (⟨m.next, serWalOp raw⟩ : Rec).WF)
    (hsave : ∀ idx' un, applyOp kind.lt m.idx op = .ok (idx', un) → SaveOK kind idx')
    (hver : m.next + 1 < U64) (spec spec' : Spec)
    (hold : Agree H m.idx.map spec d) (hnew : Agree H (mapApply kind.lt m.idx.map op) spec' d) :
    ∃ evs m', logAndApply H m d op raw = .ok (evs, m') ∧
      ∀ j, ∃ a, logical H kind (d.applyAll (evs.take j)) = .ok a ∧ IdxInv kind.lt sz a.idx ∧
        ((a.idx.map = m.idx.map ∧ Agree H a.idx.map spec (d.applyAll (evs.take j))) ∨
         (a.idx.map = mapApply kind.lt m.idx.map op ∧ Agree H a.idx.map spec' (d.applyAll (evs.take j)))) := by
  obtain ⟨rest, m', hrun, preA, preB⟩ :=
    logAndApply_sim_split H kind sz N so hH m sys hist d t op raw hraw hconv hop hwf hsave hver
  refine ⟨_, m', hrun, ?_⟩
  have hw := t.cfg.rel.wf
  have hM := t.mem_eq H kind sz N
  obtain ⟨idx', unref, ha, sok, hl⟩ := applyOp_spec so sz m.idx t.inv op hop
  have ha' : applyOp m.cfg.kind.lt m.idx op = .ok (idx', unref) := by rw [t.kindEq]; exact ha
  have hmap : idx'.map = mapApply kind.lt m.idx.map op := applyOp_map kind.lt m.idx idx' op unref ha
  obtain ⟨evs0, m0, hla0, _, hspare⟩ := logAndApply_spec H m d op raw idx' unref ha'
  rw [hrun] at hla0
  injection hla0 with hla0; injection hla0 with hevs0 _
  have hstep : stepM kind m.idx.map (serWalOp raw) = .ok (mapApply kind.lt m.idx.map op) := by
    have := C16_walop_roundtrip raw hraw []
    rw [List.append_nil] at this
    simp [stepM, this, hconv]
  have hrun2 : run (stepM kind) [] (hist ++ [(m.next, serWalOp raw)]) =
      .ok (mapApply kind.lt m.idx.map op) := by
    rw [run_append, hM]; simp [run, hstep]
  intro j
  by_cases hj : j ≤ (rollEvents m.active (Ghost.segOf N m.next)).length
  · have htake : (rollEvents m.active (Ghost.segOf N m.next) ++
        [Ev.write (.seg (Ghost.segOf N m.next)) (encodeEntry H ⟨m.next, serWalOp raw⟩)] ++ rest).take j =
        (rollEvents m.active (Ghost.segOf N m.next)).take j := by
      rw [List.append_assoc, List.take_append_of_le_length hj]
    rw [htake]
    obtain ⟨a, h1, h2, h3⟩ := (preA j).single_logical H kind sz N so hH hist _ m.idx.map hM
    refine ⟨a, h1, h2, Or.inl ⟨h3, ?_⟩⟩
    rw [h3]
    apply hold.frame H m.idx.map spec d
    intro k item _
    exact sparesCas_frame_all d hw item.hash _ (fun e he =>
      rollEvents_spares _ _ item.hash e (List.mem_of_mem_take he))
  · have hlen : (rollEvents m.active (Ghost.segOf N m.next) ++
        [Ev.write (.seg (Ghost.segOf N m.next)) (encodeEntry H ⟨m.next, serWalOp raw⟩)]).length ≤ j := by
      simp only [List.length_append, List.length_cons, List.length_nil]; omega
    have htake : (rollEvents m.active (Ghost.segOf N m.next) ++
        [Ev.write (.seg (Ghost.segOf N m.next)) (encodeEntry H ⟨m.next, serWalOp raw⟩)] ++ rest).take j =
        (rollEvents m.active (Ghost.segOf N m.next) ++
        [Ev.write (.seg (Ghost.segOf N m.next)) (encodeEntry H ⟨m.next, serWalOp raw⟩)]) ++
        rest.take (j - (rollEvents m.active (Ghost.segOf N m.next) ++
        [Ev.write (.seg (Ghost.segOf N m.next)) (encodeEntry H ⟨m.next, serWalOp raw⟩)]).length) := by
      rw [List.take_append, List.take_of_length_le hlen]
    rw [htake, Disk.applyAll_append]
    obtain ⟨a, h1, h2, h3⟩ := (preB _).single_logical H kind sz N so hH _ _ _ hrun2
    refine ⟨a, h1, h2, Or.inr ⟨h3, ?_⟩⟩
    rw [h3, ← Disk.applyAll_append]
    apply hnew.frame H _ spec' d
    intro k item hk
    rw [← hmap] at hk
    have hpos : 0 < countHash idx'.map item.hash := countHash_pos_of_lookup hk
    have hnu : item.hash ∉ unref := by
      intro c; have := ((sok.unref item.hash).mp c).2; omega
    apply sparesCas_frame_all d hw item.hash
    intro e he
    apply hspare item.hash hnu e
    rw [← hevs0]
    rcases List.mem_append.mp he with he | he
    · exact List.mem_append_left _ he
    · exact List.mem_append_right _ (List.mem_of_mem_take he)


/-- **C03 (contents), a whole put.** From a store in the sequential invariant (`SInv`: every key
    reads its content) tied to the WAL machine: kill a put after any number of its filesystem
    events — recovery shows the old key map with every key reading its old content, or the map
    with the put applied, every key reading its content and the put's key reading the new bytes. -/
theorem C03_put_crash_contents (so : StrictOrder kind.lt) (hH : Hash32 H) (P : Bytes → Prop)
    (hinj : Inj H sz P) (m : Mem)
    (sys : Sys (KMap Bytes) Bytes) (hist : Recs Bytes) (d : Disk)
    (t : Tied H kind sz N m sys hist d) (spec : Spec) (tn : Nat) (inv : SInv H sz m d spec tn)
    (hspecP : ∀ k c, spec k = some c → P c)
    (key : Bytes) (chunks : List Bytes) (hP : P chunks.flatten)
    (hraw : (RawOp.put key (H chunks.flatten) (chunks.map List.length).sum).WF)
    (hconv : kind.valid key = true)
    (hwf : (⟨m.next, serWalOp (.put key (H chunks.flatten) (chunks.map List.length).sum)⟩ : Rec).WF)
    (hsave : ∀ idx' un, applyOp kind.lt m.idx
        (.put key (H chunks.flatten) (chunks.map List.length).sum) = .ok (idx', un) → SaveOK kind idx')
    (hver : m.next + 1 < U64) :
    ∀ j, ∃ a, logical H kind (d.applyAll ((putScript H m d tn key chunks).1.take j)) = .ok a ∧
      IdxInv kind.lt sz a.idx ∧
      ((a.idx.map = m.idx.map ∧
          Agree H a.idx.map spec (d.applyAll ((putScript H m d tn key chunks).1.take j))) ∨
       (a.idx.map = mapApply kind.lt m.idx.map (.put key (H chunks.flatten) (chunks.map List.length).sum) ∧
          Agree H a.idx.map (fun k => if k = key then some chunks.flatten else spec k)
            (d.applyAll ((putScript H m d tn key chunks).1.take j)))) := by
  have hw := t.cfg.rel.wf
  have hM := t.mem_eq H kind sz N
  have hlen : (chunks.map List.length).sum = chunks.flatten.length := by rw [List.length_flatten]
  have hop : (chunks.map List.length).sum = sz (H chunks.flatten) := by rw [hlen, hinj.2 _ hP]
  obtain ⟨hres, _, _⟩ := putScript_sim H kind sz N so hH m sys hist d t tn key chunks hraw hconv hop hwf hsave hver
  generalize hps : putScript H m d tn key chunks = ps at hres ⊢
  obtain ⟨evs, m', res⟩ := ps
  simp only at hres ⊢
  subst hres
  obtain ⟨evs2, hla, hevs⟩ := putScript_split H m d tn key chunks evs m' hps
  let pre0 : List Ev := beginScript tn ++ ([Ev.write (.staging tn) chunks.flatten] ++
      (if m.cfg.sync then [Ev.sync (.staging tn)] else [])) ++
      (if m.preCreated then [] else mkdirsFor (d.applyAll (beginScript tn)) (H chunks.flatten))
  have hpre0 : ∀ e ∈ pre0, (∀ g, e.touches (.cas g) = false) ∧ e.segFree = true ∧ e.indexFree = true := by
    intro e he
    simp only [pre0, beginScript, List.mem_append, List.mem_cons, List.not_mem_nil, or_false] at he
    rcases he with (he | he | he) | he
    · subst he; exact ⟨fun _ => rfl, by simp [Ev.segFree], by simp [Ev.indexFree]⟩
    · subst he; exact ⟨fun _ => rfl, by simp [Ev.segFree], by simp [Ev.indexFree]⟩
    · split at he
      · simp only [List.mem_singleton] at he; subst he
        exact ⟨fun _ => rfl, by simp [Ev.segFree], by simp [Ev.indexFree]⟩
      · cases he
    · split at he
      · cases he
      · unfold mkdirsFor at he
        split at he
        · simp only [List.mem_append] at he
          rcases he with he | he <;> (split at he <;> simp at he <;> subst he <;>
            exact ⟨fun _ => rfl, by simp [Ev.segFree], by simp [Ev.indexFree]⟩)
        · cases he
  have hsplit : evs = pre0 ++ ([Ev.rename (.staging tn) (.cas (H chunks.flatten))] ++ evs2) := by
    rw [hevs]; simp only [pre0, List.append_assoc]
  have hagree0 : Agree H m.idx.map spec d := inv.agree
  -- the staged file right before the rename holds exactly the content
  have hstg : ∃ y, (d.applyAll pre0).get (.staging tn) = some y ∧ y.data = chunks.flatten := by
    have hfresh := inv.fresh tn (Nat.le_refl _)
    have h2 : ∃ y, ((d.apply (.creat (.staging tn) true)).apply (.write (.staging tn) chunks.flatten)).get
        (.staging tn) = some y ∧ y.data = chunks.flatten := by
      rw [Disk.get_write, Disk.get_creat]
      simp only [↓reduceIte, hfresh]
      exact ⟨_, rfl, by simp⟩
    obtain ⟨y, hy, hyd⟩ := h2
    -- the remaining events (sync of the staging file, mkdirs) keep the data
    have keep : ∀ (l : List Ev) (dd : Disk) (y : File), dd.get (.staging tn) = some y →
        (∀ e ∈ l, e = .sync (.staging tn) ∨ ∃ p, e = .mkdir p) →
        ∃ y', (dd.applyAll l).get (.staging tn) = some y' ∧ y'.data = y.data := by
      intro l
      induction l with
      | nil => intro dd y h _; exact ⟨y, h, rfl⟩
      | cons e l ih =>
        intro dd y h hl
        rw [Disk.applyAll_cons]
        rcases hl e (by simp) with he | ⟨p, he⟩
        · subst he
          have : (dd.apply (.sync (.staging tn))).get (.staging tn) = some { y with synced := y.data.length } := by
            rw [Disk.get_sync]; simp [h]
          obtain ⟨y', a, b⟩ := ih _ _ this (fun e' he' => hl e' (by simp [he']))
          exact ⟨y', a, b⟩
        · subst he
          have : (dd.apply (.mkdir p)).get (.staging tn) = some y := by rw [Disk.get_mkdir]; exact h
          exact ih _ _ this (fun e' he' => hl e' (by simp [he']))
    have hshape : pre0 = [Ev.creat (.staging tn) true, Ev.write (.staging tn) chunks.flatten] ++
        ((if m.cfg.sync then [Ev.sync (.staging tn)] else []) ++
         (if m.preCreated then [] else mkdirsFor (d.applyAll (beginScript tn)) (H chunks.flatten))) := by
      simp [pre0, beginScript]
    rw [hshape, Disk.applyAll_append]
    simp only [Disk.applyAll_cons, Disk.applyAll_nil]
    obtain ⟨y', a, b⟩ := keep ((if m.cfg.sync then [Ev.sync (.staging tn)] else []) ++
         (if m.preCreated then [] else mkdirsFor (d.applyAll (beginScript tn)) (H chunks.flatten))) _ y hy (by
      intro e he
      rcases List.mem_append.mp he with he | he
      · split at he
        · simp only [List.mem_singleton] at he; exact Or.inl he
        · cases he
      · split at he
        · cases he
        · unfold mkdirsFor at he
          split at he
          · simp only [List.mem_append] at he
            rcases he with he | he <;> (split at he <;> simp at he <;> exact Or.inr ⟨_, he⟩)
          · cases he)
    exact ⟨y', a, by rw [b, hyd]⟩
  intro j
  by_cases hj : j ≤ pre0.length
  · have htake : evs.take j = pre0.take j := by rw [hsplit, List.take_append_of_le_length hj]
    rw [htake]
    have hfree : ∀ e ∈ pre0.take j, e.segFree = true ∧ e.indexFree = true :=
      fun e he => ⟨(hpre0 e (List.mem_of_mem_take he)).2.1, (hpre0 e (List.mem_of_mem_take he)).2.2⟩
    have r : Recoverable H kind sz N [hist] (d.applyAll (pre0.take j)) :=
      ⟨sys, hist, by simp, t.cfg.toDCfg.freeAll H kind sz N sys hist d _ hfree⟩
    obtain ⟨a, h1, h2, h3⟩ := r.single_logical H kind sz N so hH hist _ m.idx.map hM
    refine ⟨a, h1, h2, Or.inl ⟨h3, ?_⟩⟩
    rw [h3]
    apply hagree0.frame H m.idx.map spec d
    intro k item _
    exact get_untouched_all d hw _ _ (fun e he => (hpre0 e (List.mem_of_mem_take he)).1 item.hash)
  · have hlen' : (pre0 ++ [Ev.rename (.staging tn) (.cas (H chunks.flatten))]).length ≤ j := by
      simp only [List.length_append, List.length_cons, List.length_nil]; omega
    have hsplit2 : evs = (pre0 ++ [Ev.rename (.staging tn) (.cas (H chunks.flatten))]) ++ evs2 := by
      rw [hsplit]; simp only [List.append_assoc]
    have htake : evs.take j = (pre0 ++ [Ev.rename (.staging tn) (.cas (H chunks.flatten))]) ++
        evs2.take (j - (pre0 ++ [Ev.rename (.staging tn) (.cas (H chunks.flatten))]).length) := by
      rw [hsplit2, List.take_append, List.take_of_length_le hlen']
    have hpreeq : pre0 ++ [Ev.rename (.staging tn) (.cas (H chunks.flatten))] =
        beginScript tn ++ ([Ev.write (.staging tn) chunks.flatten] ++
          (if m.cfg.sync then [Ev.sync (.staging tn)] else [])) ++
          (if m.preCreated then [] else mkdirsFor (d.applyAll (beginScript tn)) (H chunks.flatten)) ++
          [Ev.rename (.staging tn) (.cas (H chunks.flatten))] := by
      simp only [pre0, List.append_assoc]
    have hfree1 : ∀ e ∈ pre0 ++ [Ev.rename (.staging tn) (.cas (H chunks.flatten))],
        e.segFree = true ∧ e.indexFree = true := by
      intro e he
      rcases List.mem_append.mp he with he | he
      · exact ⟨(hpre0 e he).2.1, (hpre0 e he).2.2⟩
      · simp only [List.mem_singleton] at he; subst he; simp [Ev.segFree, Ev.indexFree]
    have t1 : Tied H kind sz N m sys hist (d.applyAll (pre0 ++ [Ev.rename (.staging tn) (.cas (H chunks.flatten))])) :=
      ⟨t.cfg.freeAll H kind sz N sys hist d _ hfree1, t.kindEq, t.nEq, t.next, t.st, t.inv, t.active, t.persisted⟩
    have hw0 := Disk.applyAll_WF d hw pre0
    obtain ⟨y, hy, hyd⟩ := hstg
    -- the blobs at the start of the commit
    have hget1 : ∀ g, (d.applyAll (pre0 ++ [Ev.rename (.staging tn) (.cas (H chunks.flatten))])).get (.cas g) =
        if g = H chunks.flatten then some y else d.get (.cas g) := by
      intro g
      rw [Disk.applyAll_append, Disk.applyAll_cons, Disk.applyAll_nil, Disk.get_rename _ hw0, hy]
      by_cases c : g = H chunks.flatten
      · simp [c]
      · have c1 : ¬ FileId.cas g = FileId.cas (H chunks.flatten) := by simpa using c
        have c2 : ¬ FileId.cas g = FileId.staging tn := by simp
        simp only [c1, c2, c, ↓reduceIte]
        exact get_untouched_all d hw _ _ (fun e he => (hpre0 e he).1 g)
    have hold1 : Agree H m.idx.map spec (d.applyAll (pre0 ++ [Ev.rename (.staging tn) (.cas (H chunks.flatten))])) := by
      intro k
      have := hagree0 k
      cases h1 : kLookup m.idx.map k with
      | none =>
        rw [h1] at this
        cases h2 : spec k with
        | none => trivial
        | some c => rw [h2] at this; exact this.elim
      | some item =>
        rw [h1] at this
        cases h2 : spec k with
        | none => rw [h2] at this; exact this.elim
        | some c =>
          rw [h2] at this
          simp only at this ⊢
          obtain ⟨a, b, x, hx, hd⟩ := this
          refine ⟨a, b, ?_⟩
          rw [hget1]
          by_cases cc : item.hash = H chunks.flatten
          · -- the old key already had this very content
            simp only [cc, ↓reduceIte]
            have : c = chunks.flatten := hinj.1 c chunks.flatten (hspecP k c h2) hP (by rw [← a, cc])
            exact ⟨y, rfl, by rw [hyd, this]⟩
          · simp only [cc, ↓reduceIte]; exact ⟨x, hx, hd⟩
    obtain ⟨idx', unref, happ, _, hl⟩ := applyOp_spec so sz m.idx t.inv
      (.put key (H chunks.flatten) (chunks.map List.length).sum) hop
    have hmap : idx'.map = mapApply kind.lt m.idx.map (.put key (H chunks.flatten) (chunks.map List.length).sum) :=
      applyOp_map kind.lt m.idx idx' _ unref happ
    have hnew1 : Agree H (mapApply kind.lt m.idx.map (.put key (H chunks.flatten) (chunks.map List.length).sum))
        (fun k => if k = key then some chunks.flatten else spec k)
        (d.applyAll (pre0 ++ [Ev.rename (.staging tn) (.cas (H chunks.flatten))])) := by
      intro k
      rw [← hmap, hl k]
      simp only [specApply]
      by_cases ck : k = key
      · simp only [ck, ↓reduceIte]
        refine ⟨trivial, hlen, ?_⟩
        rw [hget1]; simp only [↓reduceIte]
        exact ⟨y, rfl, hyd⟩
      · simp only [ck, ↓reduceIte]
        exact hold1 k
    rw [← hpreeq] at hla
    obtain ⟨evs3, m3, hla3, hall⟩ := C03_commit_crash_contents H kind sz N so hH m sys hist _ t1
      (.put key (H chunks.flatten) (chunks.map List.length).sum)
      (.put key (H chunks.flatten) (chunks.map List.length).sum) hraw
      (by simp [fromRaw, hconv]) hop hwf hsave hver spec _ hold1 hnew1
    rw [hla] at hla3
    injection hla3 with hla3; injection hla3 with h3 _
    subst h3
    rw [htake, Disk.applyAll_append]
    exact hall _


/-- **C03 (contents), kill a put anywhere, then open.**  The handle the next `open` returns is tied
    again and reads, for EVERY key, exactly the old content (the put did not happen) or exactly the
    content after the put (it happened completely) — one alternative for the whole store. -/
theorem C03_put_crash_then_open_reads (so : StrictOrder kind.lt) (hH : Hash32 H) (P : Bytes → Prop)
    (hinj : Inj H sz P) (m : Mem)
    (sys : Sys (KMap Bytes) Bytes) (hist : Recs Bytes) (d : Disk)
    (t : Tied H kind sz N m sys hist d) (spec : Spec) (tn : Nat) (inv : SInv H sz m d spec tn)
    (hspecP : ∀ k c, spec k = some c → P c)
    (key : Bytes) (chunks : List Bytes) (hP : P chunks.flatten)
    (hraw : (RawOp.put key (H chunks.flatten) (chunks.map List.length).sum).WF)
    (hconv : kind.valid key = true)
    (hwf : (⟨m.next, serWalOp (.put key (H chunks.flatten) (chunks.map List.length).sum)⟩ : Rec).WF)
    (hsave : ∀ idx' un, applyOp kind.lt m.idx
        (.put key (H chunks.flatten) (chunks.map List.length).sum) = .ok (idx', un) → SaveOK kind idx')
    (hver : m.next + 1 < U64)
    (cfg : Config) (hk : cfg.kind = kind) (hn : cfg.N = N) (j : Nat)
    (ho : OpenOK H kind cfg (d.applyAll ((putScript H m d tn key chunks).1.take j))) :
    ∃ m2 sys2 hist2,
      (∀ m' sc, (openBody H cfg (d.applyAll ((putScript H m d tn key chunks).1.take j))).2 = .ok (m', sc) → m' = m2) ∧
      Tied H kind sz N m2 sys2 hist2 ((d.applyAll ((putScript H m d tn key chunks).1.take j)).applyAll
        (openBody H cfg (d.applyAll ((putScript H m d tn key chunks).1.take j))).1) ∧
      ((∀ k, getBlob m2 ((d.applyAll ((putScript H m d tn key chunks).1.take j)).applyAll
          (openBody H cfg (d.applyAll ((putScript H m d tn key chunks).1.take j))).1) k =
          match spec k with | none => .absent | some c => .found c) ∨
       (∀ k, getBlob m2 ((d.applyAll ((putScript H m d tn key chunks).1.take j)).applyAll
          (openBody H cfg (d.applyAll ((putScript H m d tn key chunks).1.take j))).1) k =
          match (fun k => if k = key then some chunks.flatten else spec k) k with
          | none => .absent | some c => .found c)) := by
  have hlen : (chunks.map List.length).sum = chunks.flatten.length := by rw [List.length_flatten]
  have hop : (chunks.map List.length).sum = sz (H chunks.flatten) := by rw [hlen, hinj.2 _ hP]
  obtain ⟨_, hpre, _⟩ := putScript_sim H kind sz N so hH m sys hist d t tn key chunks hraw hconv hop hwf hsave hver
  obtain ⟨a, hla, _, hcase⟩ := C03_put_crash_contents H kind sz N so hH P hinj m sys hist d t spec tn inv hspecP
    key chunks hP hraw hconv hwf hsave hver j
  obtain ⟨e1, pre, hg, hsv⟩ := ho
  generalize hdj : d.applyAll ((putScript H m d tn key chunks).1.take j) = dj at hg hsv hla hcase ⊢
  -- the witness of recoverability of the crash image
  obtain ⟨sysj, histj, _, cj⟩ := hpre j
  rw [hdj] at cj
  obtain ⟨a', l1, l2, _⟩ := cj.recovers H hH kind so sz N sysj histj dj
  rw [hla] at l1; injection l1 with l1; subst l1
  obtain ⟨acc, _, r2, _, _, m2, sys2, u1, u2, _, t2⟩ :=
    open_sim H kind sz N so hH cfg hk hn _ histj dj (cj.crash H kind sz N sysj histj dj) rfl e1 pre hg hsv
  have hm2 : m2.idx.map = a.idx.map := by
    rw [u2]; rw [l2] at r2; injection r2 with r2; exact r2.symm
  refine ⟨m2, sys2, histj, u1, t2, ?_⟩
  -- open touches no blob
  have hsame : ∀ g, (dj.applyAll (openBody H cfg dj).1).get (.cas g) = dj.get (.cas g) := by
    intro g
    exact sparesCas_frame_all dj cj.rel.wf g _ (fun e he => (openBody_quiet H cfg dj e he).1 g)
  rcases hcase with ⟨_, ag⟩ | ⟨_, ag⟩
  · left
    intro k
    exact (ag.frame H _ _ dj _ (fun _ item _ => hsame item.hash)).read H _ _ _ m2 hm2 k
  · right
    intro k
    exact (ag.frame H _ _ dj _ (fun _ item _ => hsame item.hash)).read H _ _ _ m2 hm2 k


/-- **C03 (contents), remove.** Kill a remove after any number of its filesystem events: recovery
    shows the old map, every key reading its content, or the map without the key, every other key
    reading its content. -/
theorem C03_remove_crash_contents (so : StrictOrder kind.lt) (hH : Hash32 H) (m : Mem)
    (sys : Sys (KMap Bytes) Bytes) (hist : Recs Bytes) (d : Disk)
    (t : Tied H kind sz N m sys hist d) (spec : Spec) (tn : Nat) (inv : SInv H sz m d spec tn)
    (key : Bytes)
    (hraw : (RawOp.remove [key]).WF) (hvalid : kind.valid key = true)
    (hwf : (⟨m.next, serWalOp (.remove [key])⟩ : Rec).WF)
    (hsave : ∀ idx' un, applyOp kind.lt m.idx (.remove [key]) = .ok (idx', un) → SaveOK kind idx')
    (hver : m.next + 1 < U64) :
    ∀ j, ∃ a, logical H kind (d.applyAll ((removeScript H m d key).1.take j)) = .ok a ∧
      IdxInv kind.lt sz a.idx ∧
      ((a.idx.map = m.idx.map ∧ Agree H a.idx.map spec (d.applyAll ((removeScript H m d key).1.take j))) ∨
       (a.idx.map = mapApply kind.lt m.idx.map (.remove [key]) ∧
          Agree H a.idx.map (fun k => if k = key then none else spec k)
            (d.applyAll ((removeScript H m d key).1.take j)))) := by
  have hM := t.mem_eq H kind sz N
  intro j
  unfold removeScript
  cases hk : kLookup m.idx.map key with
  | none =>
    simp only [List.take_nil, Disk.applyAll_nil]
    have r : Recoverable H kind sz N [hist] d := ⟨sys, hist, by simp, t.cfg.toDCfg⟩
    obtain ⟨a, h1, h2, h3⟩ := r.single_logical H kind sz N so hH hist _ m.idx.map hM
    exact ⟨a, h1, h2, Or.inl ⟨h3, by rw [h3]; exact inv.agree⟩⟩
  | some item0 =>
    obtain ⟨idx', unref, happ, _, hl⟩ := applyOp_spec so sz m.idx t.inv (.remove [key]) trivial
    have hmap : idx'.map = mapApply kind.lt m.idx.map (.remove [key]) :=
      applyOp_map kind.lt m.idx idx' _ unref happ
    have hnew : Agree H (mapApply kind.lt m.idx.map (.remove [key]))
        (fun k => if k = key then none else spec k) d := by
      intro k
      rw [← hmap, hl k]
      simp only [specApply, List.mem_singleton]
      by_cases ck : k = key
      · simp [ck]
      · simp only [ck, ↓reduceIte]; exact inv.agree k
    obtain ⟨evs, m', hla, hall⟩ := C03_commit_crash_contents H kind sz N so hH m sys hist d t
      (.remove [key]) (.remove [key]) hraw (by simp [fromRaw, hvalid]) trivial hwf hsave hver spec _
      inv.agree hnew
    simp only [hla]
    exact hall j

end CasModel
