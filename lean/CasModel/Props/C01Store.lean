import CasModel.Props.C18Store
/-
  C01 / C07, the file-content half, over whole sequential histories (event scripts of Store.lean).
  `SInv`: the index is in its invariant, and for every key the index and the specification map
  agree — the key is absent in both, or maps to `(H c, |c|)` where `c` is the specified content and
  the file `cas/(H c)` holds exactly `c`; staging files with numbers ≥ the next one do not exist.
  `runOps_sinv`: every history of puts (any chunking) and removes keeps `SInv`; hence
  `C01_history_reads`: after any history, `getBlob` returns for every key exactly what the plain
  map `key → content` holds — never `missing`, never other bytes.
  Hypothesis: `H` is collision-free on the contents that occur (`Inj`), and `sz (H c) = |c|`.
-/
namespace CasModel

/-- the event mentions file `f` -/
def Ev.touches (f : FileId) : Ev → Bool
  | .creat g _ | .write g _ | .sync g | .unlink g => g == f
  | .rename a b => a == f || b == f
  | _ => false

theorem get_untouched (d : Disk) (hwf : d.WF) (f : FileId) (e : Ev) (h : e.touches f = false) :
    (d.apply e).get f = d.get f := by
  cases e with
  | mkdir p => exact Disk.get_mkdir d p _
  | mkdirTree => rfl
  | flock => rfl
  | creat g t =>
    rw [Disk.get_creat]
    have : ¬ f = g := by intro c; subst c; simp [Ev.touches] at h
    simp [this]
  | write g bs =>
    rw [Disk.get_write]
    have : ¬ f = g := by intro c; subst c; simp [Ev.touches] at h
    simp [this]
  | sync g =>
    rw [Disk.get_sync]
    have : ¬ f = g := by intro c; subst c; simp [Ev.touches] at h
    simp [this]
  | unlink g =>
    rw [Disk.get_unlink d hwf]
    have : ¬ f = g := by intro c; subst c; simp [Ev.touches] at h
    simp [this]
  | rename a b =>
    rw [Disk.get_rename d hwf]
    simp only [Ev.touches, Bool.or_eq_false_iff, beq_eq_false_iff_ne, ne_eq] at h
    have h1 : ¬ f = b := fun c => h.2 c.symm
    have h2 : ¬ f = a := fun c => h.1 c.symm
    cases d.get a <;> simp [h1, h2]

theorem get_untouched_all (d : Disk) (hwf : d.WF) (f : FileId) (evs : List Ev)
    (h : ∀ e ∈ evs, e.touches f = false) : (d.applyAll evs).get f = d.get f := by
  induction evs generalizing d with
  | nil => rfl
  | cons e es ih =>
    rw [Disk.applyAll_cons, ih _ (Disk.apply_WF d hwf e) (fun e' h' => h e' (by simp [h']))]
    exact get_untouched d hwf f e (h e (by simp))

/-- a commit never mentions a staging file -/
theorem logAndApply_staging (H : Bytes → Bytes) (m : Mem) (d : Disk) (op : Op Bytes) (raw : RawOp)
    (evs : List Ev) (m' : Mem) (h : logAndApply H m d op raw = .ok (evs, m')) (t : Nat) :
    ∀ e ∈ evs, e.touches (.staging t) = false := by
  unfold logAndApply at h
  simp only at h
  split at h
  · cases h
  · injection h with h; injection h with h1 _
    subst h1
    intro e he
    simp only [List.mem_append] at he
    rcases he with ((he | he) | he) | he
    · split at he
      · simp at he
      · simp only [List.mem_append, List.mem_singleton] at he
        rcases he with he | he
        · split at he
          · simp only [List.mem_cons, List.mem_singleton, List.not_mem_nil, or_false] at he
            rcases he with rfl | rfl <;> rfl
          · simp at he
        · subst he; rfl
    · simp only [List.mem_cons, List.mem_singleton, List.not_mem_nil, or_false] at he
      rcases he with rfl | rfl <;> rfl
    · simp only [List.mem_map, List.mem_filter] at he
      obtain ⟨x, _, rfl⟩ := he
      rfl
    · have hck : ∀ (r : CkptReason) (mm : Mem) (dd : Disk), ∀ e ∈ (checkpointScript r mm dd).1,
          e.touches (.staging t) = false := by
        intro r mm dd e he
        unfold checkpointScript at he
        split at he
        · simp at he
        · simp only [List.mem_append, List.mem_cons, List.not_mem_nil, or_false] at he
          rcases he with (rfl | rfl | rfl | rfl) | he
          · rfl
          · rfl
          · rfl
          · rfl
          · split at he
            · simp at he
            · simp only [List.mem_map] at he
              obtain ⟨j, _, rfl⟩ := he
              rfl
      exact ite_fst_all' (P := fun e => e.touches (.staging t) = false) _ _ _ (hck _ _ _) (by simp) e he

/-! ### the sequential store invariant -/

abbrev Spec := Bytes → Option Bytes

structure SInv (H : Bytes → Bytes) (sz : Bytes → Nat) (m : Mem) (d : Disk) (spec : Spec) (tn : Nat) :
    Prop where
  so : StrictOrder m.cfg.kind.lt
  idx : IdxInv m.cfg.kind.lt sz m.idx
  wf : d.WF
  agree : ∀ k, match kLookup m.idx.map k, spec k with
    | none, none => True
    | some item, some c => item.hash = H c ∧ item.size = c.length ∧
        ∃ x, d.get (.cas item.hash) = some x ∧ x.data = c
    | _, _ => False
  fresh : ∀ t, tn ≤ t → d.get (.staging t) = none

/-- what the read path returns under the invariant: exactly the specified content -/
theorem SInv.read (H : Bytes → Bytes) (sz : Bytes → Nat) (m : Mem) (d : Disk) (spec : Spec) (tn : Nat)
    (inv : SInv H sz m d spec tn) (k : Bytes) :
    getBlob m d k = match spec k with | none => .absent | some c => .found c := by
  have := inv.agree k
  unfold getBlob
  cases h1 : kLookup m.idx.map k with
  | none =>
    cases h2 : spec k with
    | none => rfl
    | some c => simp [h1, h2] at this
  | some item =>
    cases h2 : spec k with
    | none => simp [h1, h2] at this
    | some c =>
      simp only [h1, h2] at this
      obtain ⟨_, _, x, hx, hd⟩ := this
      simp [hx, hd]

/-- collision-freeness of `H` on a set of contents, and consistency with the size function -/
def Inj (H : Bytes → Bytes) (sz : Bytes → Nat) (P : Bytes → Prop) : Prop :=
  (∀ a b, P a → P b → H a = H b → a = b) ∧ ∀ a, P a → sz (H a) = a.length

/-- **put keeps the store invariant**, the specification map updated at the key -/
theorem putScript_sinv (H : Bytes → Bytes) (sz : Bytes → Nat) (m : Mem) (d : Disk) (spec : Spec)
    (tn : Nat) (inv : SInv H sz m d spec tn) (key : Bytes) (chunks : List Bytes)
    (P : Bytes → Prop) (hinj : Inj H sz P) (hP : P chunks.flatten) (hspecP : ∀ k c, spec k = some c → P c) :
    ∃ evs m', putScript H m d tn key chunks = (evs, m', .ok) ∧
      SInv H sz m' (d.applyAll evs) (fun k => if k = key then some chunks.flatten else spec k) (tn + 1) := by
  have hsz := hinj.2 _ hP
  obtain ⟨evs, m', hrun, hinv', hkey, hother, x, hx, hxd, _⟩ :=
    C01_put_then_get H sz m inv.so inv.idx d inv.wf tn key chunks hsz (inv.fresh tn (Nat.le_refl _))
  -- structure of the script: blob side, then the commit
  have hlen : (chunks.map List.length).sum = chunks.flatten.length := by rw [List.length_flatten]
  obtain ⟨idx', unref, happ, ok, hl⟩ := applyOp_spec inv.so sz m.idx inv.idx
    (.put key (H chunks.flatten) chunks.flatten.length) hsz.symm
  let pre : List Ev := beginScript tn ++ ([Ev.write (.staging tn) chunks.flatten] ++
      (if m.cfg.sync then [Ev.sync (.staging tn)] else [])) ++
      (if m.preCreated then [] else mkdirsFor (d.applyAll (beginScript tn)) (H chunks.flatten)) ++
      [Ev.rename (.staging tn) (.cas (H chunks.flatten))]
  obtain ⟨evs2, m2, hla, ⟨hm1, _, hcfg, _, _⟩, hsp⟩ := logAndApply_spec H m (d.applyAll pre)
    (.put key (H chunks.flatten) chunks.flatten.length)
    (.put key (H chunks.flatten) chunks.flatten.length) idx' unref happ
  have hput : putScript H m d tn key chunks = (pre ++ evs2, m2, .ok) := by
    simp only [putScript, finishScript, hlen]
    have hd : (d.applyAll (beginScript tn)).applyAll
        ([Ev.write (.staging tn) chunks.flatten] ++ (if m.cfg.sync then [Ev.sync (.staging tn)] else []) ++
          (if m.preCreated then [] else mkdirsFor (d.applyAll (beginScript tn)) (H chunks.flatten)) ++
          [Ev.rename (.staging tn) (.cas (H chunks.flatten))]) = d.applyAll pre := by
      simp only [pre, Disk.applyAll_append, List.append_assoc]
    rw [hd, hla]
    simp only [pre, List.append_assoc]
  rw [hput] at hrun
  simp only [Prod.mk.injEq] at hrun
  obtain ⟨rfl, rfl, _⟩ := hrun
  have hcfg' : m2.cfg = m.cfg := hcfg
  refine ⟨_, _, hput, ?_⟩
  have hpre_cas : ∀ h', h' ≠ H chunks.flatten → ∀ e ∈ pre, e.touches (.cas h') = false := by
    intro h' hne e he
    simp only [pre, beginScript, List.mem_append, List.mem_cons, List.not_mem_nil, or_false] at he
    rcases he with ((he | he | he) | he) | he
    · subst he; rfl
    · subst he; rfl
    · split at he
      · simp only [List.mem_singleton] at he; subst he; rfl
      · cases he
    · split at he
      · cases he
      · unfold mkdirsFor at he
        split at he
        · simp only [List.mem_append] at he
          rcases he with he | he <;> (split at he <;> simp at he <;> subst he <;> rfl)
        · cases he
    · subst he
      have h1 : (FileId.staging tn == FileId.cas h') = false := by simp
      have h2 : (FileId.cas (H chunks.flatten) == FileId.cas h') = false := by
        simp only [beq_eq_false_iff_ne, ne_eq, FileId.cas.injEq]; exact fun c => hne c.symm
      simp [Ev.touches, h1, h2]
  have hpre_stg : ∀ t, t ≠ tn → ∀ e ∈ pre, e.touches (.staging t) = false := by
    intro t hne e he
    simp only [pre, beginScript, List.mem_append, List.mem_cons, List.not_mem_nil, or_false] at he
    have hns : ¬ tn = t := fun c => hne c.symm
    rcases he with ((he | he | he) | he) | he
    · subst he; simp [Ev.touches, hns]
    · subst he; simp [Ev.touches, hns]
    · split at he
      · simp only [List.mem_singleton] at he; subst he; simp [Ev.touches, hns]
      · cases he
    · split at he
      · cases he
      · unfold mkdirsFor at he
        split at he
        · simp only [List.mem_append] at he
          rcases he with he | he <;> (split at he <;> simp at he <;> subst he <;> rfl)
        · cases he
    · subst he; simp [Ev.touches, hns]
  have wpre := Disk.applyAll_WF d inv.wf pre
  refine ⟨by rw [hcfg']; exact inv.so, ?_, Disk.applyAll_WF d inv.wf _, ?_, ?_⟩
  · rw [hcfg']
    exact ⟨hinv'.sorted, hinv'.mapSz, hinv'.rcNodup, hinv'.rcOK, hinv'.unique, hinv'.total⟩
  · intro k
    by_cases ck : k = key
    · subst ck
      rw [hkey]
      simp only [↓reduceIte]
      exact ⟨trivial, trivial, x, hx, hxd⟩
    · simp only [ck, ↓reduceIte]
      rw [hother k ck]
      have hag := inv.agree k
      cases h1 : kLookup m.idx.map k with
      | none => cases h2 : spec k <;> simp [h1, h2] at hag ⊢
      | some item =>
        cases h2 : spec k with
        | none => simp [h1, h2] at hag
        | some c =>
          simp only [h1, h2] at hag ⊢
          obtain ⟨a1, a2, y, hy, hyd⟩ := hag
          refine ⟨a1, a2, ?_⟩
          by_cases ch : item.hash = H chunks.flatten
          · -- the same content under another key: the file now holds the bytes just committed
            have : c = chunks.flatten := hinj.1 _ _ (hspecP k c h2) hP (by rw [← a1, ch])
            rw [ch]
            exact ⟨x, hx, by rw [hxd, this]⟩
          · -- another content: every event of the put spares its file
            refine ⟨y, ?_, hyd⟩
            rw [Disk.applyAll_append]
            have hstill : item.hash ∉ unref := by
              intro hin
              have h0 := ((ok.unref _).mp hin).2
              have hk' : kLookup idx'.map k = some item := by
                rw [hl k]; simp [specApply, ck, h1]
              have := countHash_pos_of_lookup hk'
              omega
            rw [sparesCas_frame_all _ wpre _ evs2 (hsp _ hstill),
              get_untouched_all d inv.wf _ pre (hpre_cas _ ch), hy]
  · intro t ht
    rw [Disk.applyAll_append,
      get_untouched_all _ wpre _ evs2 (logAndApply_staging H m _ _ _ evs2 m2 hla t),
      get_untouched_all d inv.wf _ pre (hpre_stg t (by omega))]
    exact inv.fresh t (by omega)

end CasModel

namespace CasModel

/-- **remove keeps the store invariant**, the specification map cleared at the key -/
theorem removeScript_sinv (H : Bytes → Bytes) (sz : Bytes → Nat) (m : Mem) (d : Disk) (spec : Spec)
    (tn : Nat) (inv : SInv H sz m d spec tn) (key : Bytes) :
    ∃ b, (removeScript H m d key).2.2 = .ok b ∧ (b = (spec key).isSome) ∧
      SInv H sz (removeScript H m d key).2.1 (d.applyAll (removeScript H m d key).1)
        (fun k => if k = key then none else spec k) tn := by
  unfold removeScript
  have hagk := inv.agree key
  cases hk : kLookup m.idx.map key with
  | none =>
    cases hs : spec key with
    | some c => simp [hk, hs] at hagk
    | none =>
      simp only
      refine ⟨false, rfl, by simp, inv.so, inv.idx, inv.wf, ?_, inv.fresh⟩
      intro k
      by_cases ck : k = key
      · subst ck; simp [hk]
      · simp only [ck, ↓reduceIte]; exact inv.agree k
  | some item0 =>
    cases hs : spec key with
    | none => simp [hk, hs] at hagk
    | some c0 =>
      obtain ⟨idx', unref, happ, ok, hl⟩ := applyOp_spec inv.so sz m.idx inv.idx (.remove [key]) trivial
      obtain ⟨evs, m', hla, ⟨hm1, hm2, hcfg, hm4, hm5⟩, hsp⟩ := logAndApply_spec H m d
        (.remove [key]) (.remove [key]) idx' unref happ
      simp only [hla]
      refine ⟨true, rfl, by simp, by rw [hcfg]; exact inv.so, ?_, Disk.applyAll_WF d inv.wf _, ?_, ?_⟩
      · rw [hcfg]
        have := ok.inv
        exact ⟨by simpa [hm1] using this.sorted, by simpa [hm1] using this.mapSz,
               by simpa [hm2] using this.rcNodup, by simpa [hm1, hm2] using this.rcOK,
               by simpa [hm2, hm4] using this.unique, by simpa [hm2, hm5] using this.total⟩
      · intro k
        rw [hm1, hl k]
        by_cases ck : k = key
        · subst ck; simp [specApply]
        · simp only [specApply, List.mem_singleton, ck, ↓reduceIte]
          have hag := inv.agree k
          cases h1 : kLookup m.idx.map k with
          | none => cases h2 : spec k <;> simp [h1, h2] at hag ⊢
          | some item =>
            cases h2 : spec k with
            | none => simp [h1, h2] at hag
            | some c =>
              simp only [h1, h2] at hag ⊢
              obtain ⟨a1, a2, y, hy, hyd⟩ := hag
              refine ⟨a1, a2, y, ?_, hyd⟩
              have hstill : item.hash ∉ unref := by
                intro hin
                have h0 := ((ok.unref _).mp hin).2
                have hk' : kLookup idx'.map k = some item := by
                  rw [hl k]; simp [specApply, ck, h1]
                have := countHash_pos_of_lookup hk'
                omega
              rw [sparesCas_frame_all d inv.wf _ evs (hsp _ hstill), hy]
      · intro t ht
        rw [get_untouched_all d inv.wf _ evs (logAndApply_staging H m d _ _ evs m' hla t)]
        exact inv.fresh t ht

/-! ### whole histories -/

inductive SOp where
  | put (key : Bytes) (chunks : List Bytes)
  | remove (key : Bytes)

def specStep (spec : Spec) : SOp → Spec
  | .put key chunks => fun k => if k = key then some chunks.flatten else spec k
  | .remove key => fun k => if k = key then none else spec k

def runOps (H : Bytes → Bytes) : Mem → Disk → Nat → List SOp → Option (Mem × Disk × Nat)
  | m, d, tn, [] => some (m, d, tn)
  | m, d, tn, .put key chunks :: ops =>
    match putScript H m d tn key chunks with
    | (evs, m', .ok) => runOps H m' (d.applyAll evs) (tn + 1) ops
    | (_, _, .panic _) => none
  | m, d, tn, .remove key :: ops =>
    match removeScript H m d key with
    | (evs, m', .ok _) => runOps H m' (d.applyAll evs) tn ops
    | (_, _, .error _) => none

def SOp.content : SOp → Option Bytes
  | .put _ chunks => some chunks.flatten
  | .remove _ => none

/-- **every sequential history keeps the store invariant** (no panic, no missing blob) -/
theorem runOps_sinv (H : Bytes → Bytes) (sz : Bytes → Nat) (P : Bytes → Prop) (hinj : Inj H sz P)
    (ops : List SOp) (hops : ∀ op ∈ ops, ∀ c, op.content = some c → P c)
    (m : Mem) (d : Disk) (spec : Spec) (tn : Nat) (inv : SInv H sz m d spec tn)
    (hspecP : ∀ k c, spec k = some c → P c) :
    ∃ m' d' tn', runOps H m d tn ops = some (m', d', tn') ∧
      SInv H sz m' d' (ops.foldl specStep spec) tn' := by
  induction ops generalizing m d spec tn with
  | nil => exact ⟨m, d, tn, rfl, inv⟩
  | cons op ops ih =>
    cases op with
    | put key chunks =>
      have hP : P chunks.flatten := hops (.put key chunks) (by simp) _ rfl
      obtain ⟨evs, m1, hrun, inv1⟩ := putScript_sinv H sz m d spec tn inv key chunks P hinj hP hspecP
      have hsp1 : ∀ k c, (fun k => if k = key then some chunks.flatten else spec k) k = some c → P c := by
        intro k c hc
        simp only at hc
        by_cases ck : k = key
        · simp only [ck, ↓reduceIte, Option.some.injEq] at hc; rw [← hc]; exact hP
        · simp only [ck, ↓reduceIte] at hc; exact hspecP k c hc
      obtain ⟨m', d', tn', hr, hi⟩ := ih (fun op ho => hops op (by simp [ho])) m1 _ _ (tn + 1) inv1 hsp1
      exact ⟨m', d', tn', by simp only [runOps, hrun]; exact hr, by simpa [List.foldl, specStep] using hi⟩
    | remove key =>
      obtain ⟨b, hres, _, inv1⟩ := removeScript_sinv H sz m d spec tn inv key
      have hsp1 : ∀ k c, (fun k => if k = key then none else spec k) k = some c → P c := by
        intro k c hc
        simp only at hc
        by_cases ck : k = key
        · simp [ck] at hc
        · simp only [ck, ↓reduceIte] at hc; exact hspecP k c hc
      obtain ⟨m', d', tn', hr, hi⟩ := ih (fun op ho => hops op (by simp [ho])) _ _ _ tn inv1 hsp1
      refine ⟨m', d', tn', ?_, by simpa [List.foldl, specStep] using hi⟩
      simp only [runOps]
      generalize hrs : removeScript H m d key = r at hres hr
      obtain ⟨evs, m1, res⟩ := r
      simp only at hres
      subst hres
      exact hr

/-- **C01 (store level).** After any history of puts (any chunking, any sharing of contents
    between keys, overwrites) and removes on a store that satisfies the invariant (e.g. an empty
    one), reading any key returns exactly the content the plain map `key → content` holds for it:
    `absent` iff the key was never put or was removed since, otherwise the complete bytes of the
    LATEST put — never `missing`, never the bytes of another content. -/
theorem C01_history_reads (H : Bytes → Bytes) (sz : Bytes → Nat) (P : Bytes → Prop) (hinj : Inj H sz P)
    (ops : List SOp) (hops : ∀ op ∈ ops, ∀ c, op.content = some c → P c)
    (m : Mem) (d : Disk) (spec : Spec) (tn : Nat) (inv : SInv H sz m d spec tn)
    (hspecP : ∀ k c, spec k = some c → P c) :
    ∃ m' d' tn', runOps H m d tn ops = some (m', d', tn') ∧
      ∀ k, getBlob m' d' k = match (ops.foldl specStep spec) k with
                             | none => .absent
                             | some c => .found c := by
  obtain ⟨m', d', tn', hr, inv'⟩ := runOps_sinv H sz P hinj ops hops m d spec tn inv hspecP
  exact ⟨m', d', tn', hr, fun k => inv'.read H sz m' d' _ tn' k⟩

/-- the empty store satisfies the invariant (non-vacuity of the theorems above) -/
theorem sinv_empty (H : Bytes → Bytes) (sz : Bytes → Nat) (cfg : Config) (so : StrictOrder cfg.kind.lt) :
    SInv H sz { cfg := cfg } {} (fun _ => none) 0 :=
  ⟨so, IdxInv.init sz, by simp [Disk.WF, FKeysNodup], by intro k; simp [kLookup], by intro t _; rfl⟩

end CasModel
