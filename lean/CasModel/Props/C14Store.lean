import CasModel.Proofs.FClose
import CasModel.Props.C14Hist
import CasModel.Props.C14Image
/-
  C14 at the level of BYTES and FILESYSTEM EVENTS: a failed call is contained to the operation
  that hit it — including everything the same handle does afterwards.

  Setting (the property's): a store in a fault-free tied state (`Tied`: any state reachable from
  creation through logged operations, checkpoints and restarts — Props/C03Store), ONE failing call
  at ANY position `k` of a remove / remove_range / put, then ANY sequence of further fault-free
  operations of the same handle (puts, removes, explicit checkpoints; segment roll-overs and
  roll-over checkpoints included), then recovery of the resulting disk.

  Proved (`C14_remove_fault_contained`, `C14_put_fault_contained`):
    * the failed operation leaves memory with the OLD key map or the old one with exactly this
      operation applied (no panic outcome) — Fault.lean's error paths;
    * every later operation runs without panic, and memory afterwards is exactly the sequential
      application of the acknowledged operations to that map (what the failed record does on disk
      — retained in the writer's buffer and flushed in front of the next record, lost, or durable
      but never applied — is invisible to the live handle);
    * recovery (`logical`) of the disk at the end SUCCEEDS, reaches no panic site, and key by key
      returns what the live handle holds, or the value the FAILED operation would have written to
      that key — never anything else; keys the failed operation does not name are exact.
  The machine behind it (Proofs/WalFault, FSim, FScript, FFault, FDispatch): the record-level WAL
  machine with failed appends and a buffer of retained records; every event of the scripts is an
  action of that machine.
  Not covered here: the blob side (the failed put's blob stays protected: `C14_failed_put_blob_kept`),
  faults in `open`/`close` (images: Props/C14Image; record level: Props/C14Hist), faults combined
  with crashes (outside the property), `open` after the faulty session beyond its recovery function.
-/
namespace CasModel
open Ghost

theorem logAndApply_eq_buf (H : Bytes → Bytes) (m : Mem) (d : Disk) (op : Op Bytes) (raw : RawOp)
    (hb : m.walBuf = []) (hp : m.protectedFailed = []) :
    logAndApplyBuf H m d op raw = logAndApply H m d op raw := by
  obtain ⟨cfg, idx, next, active, pre, wb, pf⟩ := m
  simp only at hb hp
  subst hb hp
  have hb1 : ∀ x : Bytes, bufWrites [] x = [x] := by intro x; simp [bufWrites]
  unfold logAndApplyBuf logAndApply
  simp only [hb1]
  cases applyOp cfg.kind.lt idx op with
  | error e => rfl
  | ok r =>
    obtain ⟨idx', unref⟩ := r
    by_cases hs : active = some (segOf cfg.N next)
    · simp [hs, hb1]
    · cases active with
      | none => simp [hb1]
      | some o => simp [hs, hb1]

variable (H : Bytes → Bytes) (kind : KeyKind) (sz : Bytes → Nat) (N : Nat)

/-- one logged operation of a handle with a failed append in its past -/
theorem logAndApplyAny_fsim (so : StrictOrder kind.lt) (hH : Hash32 H) (m : Mem)
    (fs : FSys (KMap Bytes) Bytes) (h : Hist Bytes) (d : Disk)
    (t : FTied H kind sz N m fs h d) (op : Op Bytes) (raw : RawOp)
    (hraw : raw.WF) (hconv : fromRaw kind raw = some op) (hop : OpOK sz op)
    (hwf : (⟨m.next, serWalOp raw⟩ : Rec).WF)
    (hsave : ∀ idx' un, applyOp kind.lt m.idx op = .ok (idx', un) → SaveOK kind idx')
    (hver : m.next + 1 < U64) :
    ∃ evs m' fs' h', logAndApplyAny H m d op raw = .ok (evs, m') ∧
      FTied H kind sz N m' fs' h' (d.applyAll evs) ∧
      h'.hm = h.hm ++ [(m.next, serWalOp raw)] ∧ h'.failed = h.failed ∧
      m'.idx.map = mapApply kind.lt m.idx.map op ∧ Fresh N fs' ∧ 1 < m'.next := by
  obtain ⟨evs, m', fs', h', a, b, c, e, f, g1, _, _, _, g5⟩ :=
    logAndApplyBuf_fsim H kind sz N so hH m fs h d t op raw hraw hconv hop hwf hsave hver
  have hn' : fs'.sys.next = m.next + 1 := by rw [b.next, g1]
  have hfresh : Fresh N fs' := by
    rcases g5 with ⟨rs, h1, h2⟩ | h1
    · right
      refine ⟨rs, serWalOp raw, ?_, ?_⟩
      · rw [hn']; simpa using h1
      · rw [hn']; simpa using h2
    · left; rw [h1, hn']
  have hn1 : 1 < m'.next := by rw [g1]; have := hwf.1; simp only at this; omega
  refine ⟨evs, m', fs', h', ?_, b, c, e, f, hfresh, hn1⟩
  unfold logAndApplyAny
  by_cases hc : m.walBuf.isEmpty = true ∧ m.protectedFailed.isEmpty = true
  · rw [if_pos hc, ← logAndApply_eq_buf H m d op raw (by simpa using hc.1) (by simpa using hc.2)]
    exact a
  · rw [if_neg hc]; exact a

/-! ### the operations a handle goes on to perform -/

inductive ContOp where
  | put (tn : Nat) (key : Bytes) (chunks : List Bytes)
  | remove (keys : List Bytes)      -- remove / remove_range after its scan found `keys`
  | checkpoint
  deriving Repr

/-- the fault-free script of an operation issued by a handle whose past may contain a failed
    append (the scripts the driver runs in that situation) -/
def contStep (m : Mem) (d : Disk) : ContOp → Except IdxPanic (List Ev × Mem)
  | .put tn key chunks =>
    let h := H chunks.flatten
    let size := (chunks.map List.length).sum
    let head := beginScript tn ++ [Ev.write (.staging tn) chunks.flatten] ++
                (if m.cfg.sync then [Ev.sync (.staging tn)] else []) ++
                (if m.preCreated then [] else mkdirsFor (d.applyAll (beginScript tn)) h) ++
                [Ev.rename (.staging tn) (.cas h)]
    match logAndApplyAny H m (d.applyAll head) (.put key h size) (.put key h size) with
    | .error p => .error p
    | .ok (tailEvs, m') => .ok (head ++ tailEvs, m')
  | .remove keys => logAndApplyAny H m d (.remove keys) (.remove keys)
  | .checkpoint => .ok (checkpointScript .explicit m d)

/-- the logged operation an acknowledged call stands for -/
def ContOp.logged : ContOp → Option (Op Bytes)
  | .put _ key chunks => some (.put key (H chunks.flatten) (chunks.map List.length).sum)
  | .remove keys => some (.remove keys)
  | .checkpoint => none

/-- usage guards of one operation in memory state `m` (well-formed record, valid key, content
    consistent with the size function, index saveable, version below 2^64) -/
def ContOp.OK (m : Mem) : ContOp → Prop
  | .put _ key chunks =>
    let raw := RawOp.put key (H chunks.flatten) (chunks.map List.length).sum
    raw.WF ∧ kind.valid key = true ∧ (chunks.map List.length).sum = sz (H chunks.flatten) ∧
    (⟨m.next, serWalOp raw⟩ : Rec).WF ∧
    (∀ idx' un, applyOp kind.lt m.idx (.put key (H chunks.flatten) (chunks.map List.length).sum) =
        .ok (idx', un) → SaveOK kind idx') ∧ m.next + 1 < U64
  | .remove keys =>
    (RawOp.remove keys).WF ∧ fromRaw kind (.remove keys) = some (.remove keys) ∧
    OpOK sz (.remove keys) ∧ (⟨m.next, serWalOp (.remove keys)⟩ : Rec).WF ∧
    (∀ idx' un, applyOp kind.lt m.idx (.remove keys) = .ok (idx', un) → SaveOK kind idx') ∧
    m.next + 1 < U64
  | .checkpoint => SaveOK kind m.idx ∧ m.next < U64

def applyLogged (mp : KMap Bytes) (o : Option (Op Bytes)) : KMap Bytes :=
  match o with
  | some op => mapApply kind.lt mp op
  | none => mp

/-- **one later operation**: it runs without panic, memory holds exactly its effect, memory and
    disk stay tied, the set of failed records does not grow -/
theorem contStep_fsim (so : StrictOrder kind.lt) (hH : Hash32 H) (m : Mem)
    (fs : FSys (KMap Bytes) Bytes) (h : Hist Bytes) (d : Disk)
    (t : FTied H kind sz N m fs h d) (op : ContOp) (hok : op.OK H kind sz m) :
    ∃ evs m' fs' h', contStep H m d op = .ok (evs, m') ∧
      FTied H kind sz N m' fs' h' (d.applyAll evs) ∧ h'.failed = h.failed ∧
      m'.idx.map = applyLogged kind m.idx.map (op.logged H) ∧
      (1 < m.next → Fresh N fs' ∧ 1 < m'.next) := by
  cases op with
  | put tn key chunks =>
    obtain ⟨hraw, hval, hsz, hwf, hsave, hver⟩ := hok
    simp only [contStep]
    have hfree : ∀ e ∈ (beginScript tn ++ [Ev.write (.staging tn) chunks.flatten] ++
          (if m.cfg.sync then [Ev.sync (.staging tn)] else []) ++
          (if m.preCreated then [] else mkdirsFor (d.applyAll (beginScript tn)) (H chunks.flatten)) ++
          [Ev.rename (.staging tn) (.cas (H chunks.flatten))]),
        e.segFree = true ∧ e.indexFree = true := by
      intro e he
      simp only [beginScript, List.mem_append, List.mem_cons, List.not_mem_nil, or_false] at he
      rcases he with (((he | he) | he) | he) | he
      · subst he; simp [Ev.segFree, Ev.indexFree]
      · subst he; simp [Ev.segFree, Ev.indexFree]
      · split at he
        · simp only [List.mem_singleton] at he; subst he; simp [Ev.segFree, Ev.indexFree]
        · cases he
      · split at he
        · cases he
        · exact mkdirsFor_free _ _ e he
      · subst he; simp [Ev.segFree, Ev.indexFree]
    have t1 := t.freeAll H kind sz N m fs h d _ hfree
    have hconv : fromRaw kind (.put key (H chunks.flatten) (chunks.map List.length).sum) =
        some (.put key (H chunks.flatten) (chunks.map List.length).sum) := by
      simp [fromRaw, hval]
    obtain ⟨evs, m', fs', h', a, b, _, e, f, f1, f2⟩ := logAndApplyAny_fsim H kind sz N so hH m fs h _ t1
      (.put key (H chunks.flatten) (chunks.map List.length).sum)
      (.put key (H chunks.flatten) (chunks.map List.length).sum) hraw hconv hsz hwf hsave hver
    rw [a]
    exact ⟨_, m', fs', h', rfl, by rw [Disk.applyAll_append]; exact b, e, f, fun _ => ⟨f1, f2⟩⟩
  | remove keys =>
    obtain ⟨hraw, hconv, hop, hwf, hsave, hver⟩ := hok
    obtain ⟨evs, m', fs', h', a, b, _, e, f, f1, f2⟩ := logAndApplyAny_fsim H kind sz N so hH m fs h d t
      (.remove keys) (.remove keys) hraw hconv hop hwf hsave hver
    exact ⟨evs, m', fs', h', a, b, e, f, fun _ => ⟨f1, f2⟩⟩
  | checkpoint =>
    obtain ⟨hsave, hver⟩ := hok
    obtain ⟨fs', h', t', _, e, f, g1, _, g3, _⟩ := checkpoint_fsim H kind sz N so .explicit m fs h d d t hsave hver
    refine ⟨_, _, fs', h', rfl, t', e, f, ?_⟩
    intro hn
    refine ⟨?_, Nat.lt_of_lt_of_eq hn g1.symm⟩
    rcases g3 with ⟨hnone, _⟩ | hsv
    · -- an explicit checkpoint always has a target once a version was assigned
      exfalso
      simp [ckptTarget, hn] at hnone
    · left
      rw [hsv, t'.next, g1]; omega

/-- run a sequence of later operations -/
def contRun : Mem → Disk → List ContOp → Except IdxPanic (Mem × Disk)
  | m, d, [] => .ok (m, d)
  | m, d, op :: ops =>
    match contStep H m d op with
    | .error p => .error p
    | .ok (evs, m') => contRun m' (d.applyAll evs) ops

/-- the usage guards hold for every operation of the sequence, in the state it is issued in -/
def ContAllOK : Mem → Disk → List ContOp → Prop
  | _, _, [] => True
  | m, d, op :: ops => op.OK H kind sz m ∧
      ∀ evs m', contStep H m d op = .ok (evs, m') → ContAllOK m' (d.applyAll evs) ops

theorem contRun_fsim (so : StrictOrder kind.lt) (hH : Hash32 H) (ops : List ContOp) (m : Mem)
    (fs : FSys (KMap Bytes) Bytes) (h : Hist Bytes) (d : Disk)
    (t : FTied H kind sz N m fs h d) (hok : ContAllOK H kind sz m d ops) :
    ∃ m' d' fs' h', contRun H m d ops = .ok (m', d') ∧ FTied H kind sz N m' fs' h' d' ∧
      h'.failed = h.failed ∧
      m'.idx.map = (ops.map (ContOp.logged H)).foldl (applyLogged kind) m.idx.map ∧
      (1 < m.next → (ops ≠ [] ∨ Fresh N fs) → Fresh N fs' ∧ 1 < m'.next) := by
  induction ops generalizing m fs h d with
  | nil =>
    refine ⟨m, d, fs, h, rfl, t, rfl, rfl, ?_⟩
    intro hn hf
    rcases hf with hf | hf
    · exact absurd rfl hf
    · exact ⟨hf, hn⟩
  | cons op ops ih =>
    obtain ⟨h1, h2⟩ := hok
    obtain ⟨evs, m1, fs1, hh1, a, b, c, e, f⟩ := contStep_fsim H kind sz N so hH m fs h d t op h1
    obtain ⟨m', d', fs', h', a', b', c', e', f'⟩ := ih m1 fs1 hh1 _ b (h2 evs m1 a)
    refine ⟨m', d', fs', h', ?_, b', by rw [c', c], ?_, ?_⟩
    · simp only [contRun, a]; exact a'
    · rw [e', e]; rfl
    · intro hn _
      obtain ⟨f1, f2⟩ := f hn
      exact f' f2 (Or.inr f1)

/-! ### what recovery returns at the end -/

/-- what a logged payload writes at a key -/
def payloadEff (p : Bytes) (k : Bytes) : Option (Option Item) :=
  match deserWalOp p with
  | .error _ => none
  | .ok raw =>
    match fromRaw kind raw with
    | none => none
    | some op => opEff op k

/-- memory tied to the machine with failed appends: recovery of its disk succeeds and, key by
    key, returns what memory holds or what a failed record would have written -/
theorem FTied.recovery (so : StrictOrder kind.lt) (hH : Hash32 H) (m : Mem)
    (fs : FSys (KMap Bytes) Bytes) (h : Hist Bytes) (d : Disk) (t : FTied H kind sz N m fs h d) :
    ∃ a, logical H kind d = .ok a ∧ IdxInv kind.lt sz a.idx ∧
      ∀ k, kLookup a.idx.map k = kLookup m.idx.map k ∨
        ∃ e ∈ h.failed, payloadEff kind e.2 k = some (kLookup a.idx.map k) := by
  obtain ⟨a, h1, h2, h3, _⟩ := t.cfg.recovers H kind sz N hH so fs h d
  refine ⟨a, h1, h3, ?_⟩
  intro k
  have hmem : run (stepM kind) [] h.hm = .ok m.idx.map := by
    have := (t.cfg.good.mem t.cfg.up).1
    rw [t.st] at this; exact this
  have hstep : ∀ s r s', stepM kind s r = .ok s' →
      ∃ op, deserWalOp r = .ok (match deserWalOp r with | .ok raw => raw | .error _ => .remove []) ∧
        s' = mapApply kind.lt s op ∧ payloadEff kind r = opEff op := by
    intro s r s' hs
    unfold stepM at hs
    cases hd : deserWalOp r with
    | error e => simp [hd] at hs
    | ok raw =>
      cases hc : fromRaw kind raw with
      | none => simp [hd, hc] at hs
      | some op =>
        simp only [hd, hc] at hs
        injection hs with hs
        refine ⟨op, rfl, hs.symm, ?_⟩
        funext k
        simp [payloadEff, hd, hc]
  exact divergence_bounded (stepM kind) (Sorted kind.lt) kLookup (payloadEff kind)
    (fun s r s' hs hst => by
      obtain ⟨op, _, e, _⟩ := hstep s r s' hst
      rw [e]; exact mapApply_sorted so s hs op)
    (fun s r s' hs hst k => by
      obtain ⟨op, _, e, e2⟩ := hstep s r s' hst
      rw [e, e2]; exact kLookup_mapApply so s hs op k)
    h.hm h.hd t.cfg.good.sub t.cfg.good.ginv.incr h.failed t.cfg.good.fromFailed [] [] a.idx.map
    m.idx.map List.Pairwise.nil List.Pairwise.nil h2 hmem k (Or.inl rfl)

/-- **C14 (bytes): a failed remove / remove_range is contained, whatever the handle does next.** -/
theorem C14_remove_fault_contained (so : StrictOrder kind.lt) (hH : Hash32 H) (m : Mem)
    (sys : Sys (KMap Bytes) Bytes) (hist : Recs Bytes) (d : Disk)
    (t : Tied H kind sz N m sys hist d) (hb : m.walBuf = [] ∧ m.protectedFailed = [])
    (keys : List Bytes)
    (hraw : (RawOp.remove keys).WF) (hconv : fromRaw kind (.remove keys) = some (.remove keys))
    (hop : OpOK sz (.remove keys))
    (hwf : (⟨m.next, serWalOp (.remove keys)⟩ : Rec).WF)
    (hsave : ∀ idx' un, applyOp kind.lt m.idx (.remove keys) = .ok (idx', un) → SaveOK kind idx')
    (hver : m.next + 1 < U64) (k : Nat)
    (hreached : (faultRemove H m d keys k).res ≠ .completed) :
    ∃ m2, (faultRemove H m d keys k).mem = some m2 ∧
      (m2.idx.map = m.idx.map ∨ m2.idx.map = mapApply kind.lt m.idx.map (.remove keys)) ∧
      ∀ ops, ContAllOK H kind sz m2 (d.applyAll (faultRemove H m d keys k).events) ops →
        ∃ m3 d3, contRun H m2 (d.applyAll (faultRemove H m d keys k).events) ops = .ok (m3, d3) ∧
          m3.idx.map = (ops.map (ContOp.logged H)).foldl (applyLogged kind) m2.idx.map ∧
          ∃ a, logical H kind d3 = .ok a ∧ IdxInv kind.lt sz a.idx ∧
            ∀ key, kLookup a.idx.map key = kLookup m3.idx.map key ∨
              opEff (Op.remove keys) key = some (kLookup a.idx.map key) := by
  obtain ⟨evs, m', hrun, _, _⟩ :=
    logAndApply_sim H kind sz N so hH m sys hist d t (.remove keys) (.remove keys) hraw hconv hop
      hwf hsave hver
  have hany : logAndApplyAny H m d (.remove keys) (.remove keys) = .ok (evs, m') := by
    simp [logAndApplyAny, hb.1, hb.2, hrun]
  unfold faultRemove at hreached ⊢
  simp only [hany] at hreached ⊢
  cases hsp : (splitAtCounted k evs).2.1 with
  | none => simp [hsp] at hreached
  | some e =>
    simp only
    obtain ⟨hcut, _, _⟩ := splitAtCounted_some k evs e hsp
    have fp := faultLogAndApply_ftied H kind sz N so hH m sys hist d t hb.1 (.remove keys) (.remove keys)
      hraw hconv hop hwf hsave hver evs m' hrun (splitAtCounted k evs).1 e (splitAtCounted k evs).2.2 hcut
    obtain ⟨fs, h, ft, _, hcase⟩ := fp
    have hpe : ∀ key, payloadEff kind (serWalOp (.remove keys)) key = opEff (Op.remove keys) key := by
      intro key
      have hdec := C16_walop_roundtrip (.remove keys) hraw []
      rw [List.append_nil] at hdec
      simp [payloadEff, hdec, hconv]
    refine ⟨_, rfl, ?_, ?_⟩
    · rcases hcase with ⟨_, _, x⟩ | ⟨_, _, x⟩
      · exact Or.inl x
      · exact Or.inr x
    · intro ops hok
      obtain ⟨m3, d3, fs3, h3, r1, t3, f3, e3, _⟩ := contRun_fsim H kind sz N so hH ops _ fs h _ ft hok
      obtain ⟨a, l1, l2, l3⟩ := t3.recovery H kind sz N so hH m3 fs3 h3 d3
      refine ⟨m3, d3, r1, e3, a, l1, l2, ?_⟩
      intro key
      rcases l3 key with x | ⟨e', he', x⟩
      · exact Or.inl x
      · right
        rw [f3] at he'
        rcases hcase with ⟨_, hf, _⟩ | ⟨_, hf, _⟩
        · rw [hf] at he'
          simp only [List.mem_singleton] at he'
          subst he'
          rw [← hpe]; exact x
        · rw [hf] at he'; cases he'


theorem Tied.freeAll (m : Mem) (sys : Sys (KMap Bytes) Bytes) (hist : Recs Bytes) (d : Disk)
    (t : Tied H kind sz N m sys hist d) (evs : List Ev)
    (hf : ∀ e ∈ evs, e.segFree = true ∧ e.indexFree = true) :
    Tied H kind sz N m sys hist (d.applyAll evs) :=
  ⟨t.cfg.freeAll H kind sz N sys hist d evs hf, t.kindEq, t.nEq, t.next, t.st, t.inv, t.active, t.persisted⟩

/-- **C14 (bytes): a failed put is contained, whatever the handle does next.**  The failing call
    may be any counted call of the put: creating the staging file, its sync, a directory creation,
    the rename into cas/, or any call of the commit. -/
theorem C14_put_fault_contained (so : StrictOrder kind.lt) (hH : Hash32 H) (m : Mem)
    (sys : Sys (KMap Bytes) Bytes) (hist : Recs Bytes) (d : Disk)
    (t : Tied H kind sz N m sys hist d) (hb : m.walBuf = [] ∧ m.protectedFailed = [])
    (tn : Nat) (key : Bytes) (chunks : List Bytes)
    (hraw : (RawOp.put key (H chunks.flatten) (chunks.map List.length).sum).WF)
    (hval : kind.valid key = true)
    (hsz : (chunks.map List.length).sum = sz (H chunks.flatten))
    (hwf : (⟨m.next, serWalOp (.put key (H chunks.flatten) (chunks.map List.length).sum)⟩ : Rec).WF)
    (hsave : ∀ idx' un, applyOp kind.lt m.idx
        (.put key (H chunks.flatten) (chunks.map List.length).sum) = .ok (idx', un) → SaveOK kind idx')
    (hver : m.next + 1 < U64) (k : Nat)
    (hreached : (faultPut H m d tn key chunks k).res ≠ .completed) :
    ∃ m2, (faultPut H m d tn key chunks k).mem = some m2 ∧
      (m2.idx.map = m.idx.map ∨ m2.idx.map = mapApply kind.lt m.idx.map
        (.put key (H chunks.flatten) (chunks.map List.length).sum)) ∧
      ∀ ops, ContAllOK H kind sz m2 (d.applyAll (faultPut H m d tn key chunks k).events) ops →
        ∃ m3 d3, contRun H m2 (d.applyAll (faultPut H m d tn key chunks k).events) ops = .ok (m3, d3) ∧
          m3.idx.map = (ops.map (ContOp.logged H)).foldl (applyLogged kind) m2.idx.map ∧
          ∃ a, logical H kind d3 = .ok a ∧ IdxInv kind.lt sz a.idx ∧
            ∀ key', kLookup a.idx.map key' = kLookup m3.idx.map key' ∨
              opEff (Op.put key (H chunks.flatten) (chunks.map List.length).sum) key' =
                some (kLookup a.idx.map key') := by
  -- the head of the script touches neither segments nor the index
  have hfree : ∀ e ∈ (beginScript tn ++ [Ev.write (.staging tn) chunks.flatten] ++
        (if m.cfg.sync then [Ev.sync (.staging tn)] else []) ++
        (if m.preCreated then [] else mkdirsFor (d.applyAll (beginScript tn)) (H chunks.flatten)) ++
        [Ev.rename (.staging tn) (.cas (H chunks.flatten))]),
      e.segFree = true ∧ e.indexFree = true := by
    intro e he
    simp only [beginScript, List.mem_append, List.mem_cons, List.not_mem_nil, or_false] at he
    rcases he with (((he | he) | he) | he) | he
    · subst he; simp [Ev.segFree, Ev.indexFree]
    · subst he; simp [Ev.segFree, Ev.indexFree]
    · split at he
      · simp only [List.mem_singleton] at he; subst he; simp [Ev.segFree, Ev.indexFree]
      · cases he
    · split at he
      · cases he
      · exact mkdirsFor_free _ _ e he
    · subst he; simp [Ev.segFree, Ev.indexFree]
  have hconv : fromRaw kind (.put key (H chunks.flatten) (chunks.map List.length).sum) =
      some (.put key (H chunks.flatten) (chunks.map List.length).sum) := by
    simp [fromRaw, hval]
  have hpe : ∀ key', payloadEff kind (serWalOp (.put key (H chunks.flatten) (chunks.map List.length).sum)) key' =
      opEff (Op.put key (H chunks.flatten) (chunks.map List.length).sum) key' := by
    intro key'
    have hdec := C16_walop_roundtrip (.put key (H chunks.flatten) (chunks.map List.length).sum) hraw []
    rw [List.append_nil] at hdec
    simp [payloadEff, hdec, hconv]
  -- the conclusion from a tied post-fault state
  have fin : ∀ (m2 : Mem) (d2 : Disk) (fs : FSys (KMap Bytes) Bytes) (h : Hist Bytes),
      FTied H kind sz N m2 fs h d2 →
      (h.failed = [(m.next, serWalOp (.put key (H chunks.flatten) (chunks.map List.length).sum))] ∨
        h.failed = []) →
      ∀ ops, ContAllOK H kind sz m2 d2 ops →
        ∃ m3 d3, contRun H m2 d2 ops = .ok (m3, d3) ∧
          m3.idx.map = (ops.map (ContOp.logged H)).foldl (applyLogged kind) m2.idx.map ∧
          ∃ a, logical H kind d3 = .ok a ∧ IdxInv kind.lt sz a.idx ∧
            ∀ key', kLookup a.idx.map key' = kLookup m3.idx.map key' ∨
              opEff (Op.put key (H chunks.flatten) (chunks.map List.length).sum) key' =
                some (kLookup a.idx.map key') := by
    intro m2 d2 fs h ft hf ops hok
    obtain ⟨m3, d3, fs3, h3, r1, t3, f3, e3, _⟩ := contRun_fsim H kind sz N so hH ops _ fs h _ ft hok
    obtain ⟨a, l1, l2, l3⟩ := t3.recovery H kind sz N so hH m3 fs3 h3 d3
    refine ⟨m3, d3, r1, e3, a, l1, l2, ?_⟩
    intro key'
    rcases l3 key' with x | ⟨e', he', x⟩
    · exact Or.inl x
    · right
      rw [f3] at he'
      rcases hf with hf | hf
      · rw [hf] at he'
        simp only [List.mem_singleton] at he'
        subst he'
        rw [← hpe]; exact x
      · rw [hf] at he'; cases he'
  have thead := t.freeAll H kind sz N m sys hist d _ hfree
  obtain ⟨tailEvs, m', hrun, _, _⟩ :=
    logAndApply_sim H kind sz N so hH m sys hist _ thead
      (.put key (H chunks.flatten) (chunks.map List.length).sum)
      (.put key (H chunks.flatten) (chunks.map List.length).sum) hraw hconv hsz hwf hsave hver
  unfold faultPut at hreached ⊢
  simp only at hreached ⊢
  have hany : ∀ dd, logAndApplyAny H m dd (.put key (H chunks.flatten) (chunks.map List.length).sum)
      (.put key (H chunks.flatten) (chunks.map List.length).sum) =
      logAndApply H m dd (.put key (H chunks.flatten) (chunks.map List.length).sum)
      (.put key (H chunks.flatten) (chunks.map List.length).sum) := by
    intro dd; simp [logAndApplyAny, hb.1, hb.2]
  rw [hany, hrun] at hreached ⊢
  simp only at hreached ⊢
  generalize hhead : (beginScript tn ++ [Ev.write (.staging tn) chunks.flatten] ++
        (if m.cfg.sync then [Ev.sync (.staging tn)] else []) ++
        (if m.preCreated then [] else mkdirsFor (d.applyAll (beginScript tn)) (H chunks.flatten)) ++
        [Ev.rename (.staging tn) (.cas (H chunks.flatten))]) = head at hreached hfree thead hrun ⊢
  unfold faultPutCore at hreached ⊢
  simp only at hreached ⊢
  cases hsp : (splitAtCounted k (head ++ tailEvs)).2.1 with
  | none => simp [hsp] at hreached
  | some e =>
    simp only
    obtain ⟨hcut, _, _⟩ := splitAtCounted_some k (head ++ tailEvs) e hsp
    obtain ⟨t1, _⟩ := splitAtCounted_take k (head ++ tailEvs) e hsp
    by_cases hk : k < countedCount head
    · -- the blob never reached cas/: nothing happened as far as the log goes
      simp only [hk, ↓reduceIte]
      refine ⟨m, rfl, Or.inl rfl, ?_⟩
      -- the prefix lies within the head: all its events are free
      have hprefree : ∀ x ∈ (splitAtCounted k (head ++ tailEvs)).1, x.segFree = true ∧ x.indexFree = true := by
        intro x hx
        -- pre is a prefix of head ++ tail of counted length k < counted length of head
        rcases List.append_eq_append_iff.mp hcut with ⟨a', h1, h2⟩ | ⟨c', h1, h2⟩
        · -- pre = head ++ a': impossible, it would count at least as many as head
          exfalso
          have := (splitAtCounted_some k (head ++ tailEvs) e hsp).2.1
          rw [h1, countedCount_append] at this
          omega
        · exact hfree x (by rw [h1]; simp [hx])
      have hallfree : ∀ x ∈ (splitAtCounted k (head ++ tailEvs)).1 ++
          (if (splitAtCounted k (head ++ tailEvs)).1.any (fun x => x == Ev.creat (.staging tn) true) = true
           then [Ev.unlink (.staging tn)] else []), x.segFree = true ∧ x.indexFree = true := by
        intro x hx
        rcases List.mem_append.mp hx with hx | hx
        · exact hprefree x hx
        · split at hx
          · simp only [List.mem_singleton] at hx; subst hx; simp [Ev.segFree, Ev.indexFree]
          · cases hx
      have t2 := t.freeAll H kind sz N m sys hist d _ hallfree
      exact fin m _ _ _ (FTied.of_tied H kind sz N m sys hist _ t2 hb.1 []) (Or.inr rfl)
    · simp only [hk, ↓reduceIte]
      have hb2 := splitAtCounted_beyond k head tailEvs e hsp hk
      have hcut2 : tailEvs = (splitAtCounted k (head ++ tailEvs)).1.drop head.length ++
          e :: (splitAtCounted k (head ++ tailEvs)).2.2 := by
        have h3 : head ++ tailEvs = head ++ ((splitAtCounted k (head ++ tailEvs)).1.drop head.length ++
            e :: (splitAtCounted k (head ++ tailEvs)).2.2) := by
          rw [← List.append_assoc, hb2]; exact hcut
        exact List.append_cancel_left h3
      have fp := faultLogAndApply_ftied H kind sz N so hH m sys hist _ thead hb.1
        (.put key (H chunks.flatten) (chunks.map List.length).sum)
        (.put key (H chunks.flatten) (chunks.map List.length).sum)
        hraw hconv hsz hwf hsave hver tailEvs m' hrun _ e _ hcut2
      obtain ⟨fs, h, ft, _, hcase⟩ := fp
      refine ⟨_, rfl, ?_, ?_⟩
      · rcases hcase with ⟨_, _, x⟩ | ⟨_, _, x⟩
        · exact Or.inl x
        · exact Or.inr x
      · rw [Disk.applyAll_append]
        apply fin _ _ fs h ft
        rcases hcase with ⟨_, hf, _⟩ | ⟨_, hf, _⟩
        · exact Or.inl hf
        · exact Or.inr hf


/-- **C14 (bytes): a failed explicit checkpoint is contained.**  Whatever call fails (building
    index.tmp, the rename over the index file — `last_persisted_version` was already set in memory —
    or a segment unlink, whose error is swallowed), the key map in memory is unchanged, every later
    operation behaves as if nothing had happened, and recovery at the end returns exactly what the
    live handle holds. -/
theorem C14_checkpoint_fault_contained (so : StrictOrder kind.lt) (hH : Hash32 H) (m : Mem)
    (sys : Sys (KMap Bytes) Bytes) (hist : Recs Bytes) (d : Disk)
    (t : Tied H kind sz N m sys hist d) (hb : m.walBuf = [])
    (hsave : SaveOK kind m.idx) (hver : m.next < U64) (k : Nat)
    (hreached : (faultCheckpoint m d k).res ≠ .completed) :
    ∃ m2, (faultCheckpoint m d k).mem = some m2 ∧ m2.idx.map = m.idx.map ∧
      ∀ ops, ContAllOK H kind sz m2 (d.applyAll (faultCheckpoint m d k).events) ops →
        ∃ m3 d3, contRun H m2 (d.applyAll (faultCheckpoint m d k).events) ops = .ok (m3, d3) ∧
          m3.idx.map = (ops.map (ContOp.logged H)).foldl (applyLogged kind) m2.idx.map ∧
          ∃ a, logical H kind d3 = .ok a ∧ IdxInv kind.lt sz a.idx ∧
            ∀ key, kLookup a.idx.map key = kLookup m3.idx.map key := by
  have t0 := FTied.of_tied H kind sz N m sys hist d t hb []
  have hpre := fun lp ss => checkpoint_fpre H kind sz N so .explicit m ⟨sys, []⟩ _ d d t0 hsave hver lp ss
  have fin : ∀ (m2 : Mem) (d2 : Disk), FPost H kind sz N m2 hist [] d2 →
      ∀ ops, ContAllOK H kind sz m2 d2 ops →
        ∃ m3 d3, contRun H m2 d2 ops = .ok (m3, d3) ∧
          m3.idx.map = (ops.map (ContOp.logged H)).foldl (applyLogged kind) m2.idx.map ∧
          ∃ a, logical H kind d3 = .ok a ∧ IdxInv kind.lt sz a.idx ∧
            ∀ key, kLookup a.idx.map key = kLookup m3.idx.map key := by
    intro m2 d2 ⟨fs, h, ft, _, hf⟩ ops hok
    obtain ⟨m3, d3, fs3, h3, r1, t3, f3, e3, _⟩ := contRun_fsim H kind sz N so hH ops _ fs h _ ft hok
    obtain ⟨a, l1, l2, l3⟩ := t3.recovery H kind sz N so hH m3 fs3 h3 d3
    refine ⟨m3, d3, r1, e3, a, l1, l2, ?_⟩
    intro key
    rcases l3 key with x | ⟨e', he', _⟩
    · exact x
    · rw [f3, hf] at he'; cases he'
  unfold faultCheckpoint at hreached ⊢
  generalize hcs : checkpointScript .explicit m d = cs at hpre hreached ⊢
  obtain ⟨all, m'⟩ := cs
  simp only at hpre hreached ⊢
  -- the memory a completed checkpoint leaves is `m` with new bookkeeping
  have hm' : ∃ lp ss, m' = m.meta lp ss := by
    have : m' = (checkpointScript .explicit m d).2 := by rw [hcs]
    rw [this]
    unfold checkpointScript
    split
    · exact ⟨m.idx.lastPersisted, m.idx.serializedSize, rfl⟩
    · exact ⟨_, _, rfl⟩
  cases hsp : (splitAtCounted k all).2.1 with
  | none => simp [hsp] at hreached
  | some e =>
    obtain ⟨t1, _⟩ := splitAtCounted_take k all e hsp
    have hcutpost : ∀ lp ss, FPost H kind sz N (m.meta lp ss) hist []
        (d.applyAll (splitAtCounted k all).1) := by
      intro lp ss
      rw [t1]; exact hpre lp ss _
    cases e with
    | unlink f =>
      cases f with
      | seg j =>
        simp only
        obtain ⟨lp, ss, hm'⟩ := hm'
        refine ⟨m', rfl, by rw [hm']; rfl, ?_⟩
        rw [hm']
        exact fin _ _ (hcutpost lp ss)
      | _ =>
        simp only
        exact ⟨_, rfl, rfl, fin _ _ (hcutpost (m.next - 1) m.idx.serializedSize)⟩
    | _ =>
      simp only
      exact ⟨_, rfl, rfl, fin _ _ (hcutpost (m.next - 1) m.idx.serializedSize)⟩

/-! non-vacuity: a freshly created store is tied with nothing retained and nothing protected
    (`tied_fresh`), so both theorems apply to its first operation — and, `Tied` being re-established
    by every fault-free operation (Props/C03Store), to every later one; the fault position is
    reachable (the record's write of a remove in a fresh store, N = 2). -/
example (cfg : Config) (d : Disk) (hw : d.WF)
    (hseg : ∀ i, segData d i = if i = 0 then some [] else none) (hidx : d.get .index = none) :
    ∃ sys hist, Tied H cfg.kind sz cfg.N { cfg := cfg } sys hist d ∧
      ({ cfg := cfg } : Mem).walBuf = [] ∧ ({ cfg := cfg } : Mem).protectedFailed = [] :=
  ⟨_, _, tied_fresh H cfg.kind sz cfg.N cfg d hw rfl rfl hseg hidx, rfl, rfl⟩

example : (faultRemove (fun _ => List.replicate 32 0) { cfg := { kind := .bytes, N := 2 } }
    { files := [(.seg 0, ⟨[], 0⟩)] } [[1]] 1).res = .err := by decide

end CasModel
