import CasModel.Props.C12
/-
  C01 — ordered-map semantics, index level: after any history of logged operations the key map
  answers every lookup exactly like the plain ordered map `specAll`, and iterates in ascending
  key order without duplicates.  (`get` then reads the file of the looked-up hash: the
  file-content half is `C07_put_files`/`C06`; the streamed-put/abort half is C13/C18.)
-/
namespace CasModel
section
variable {K : Type} [DecidableEq K] {lt : K → K → Bool}

/-- the plain ordered map after a history -/
def specAll (f : K → Option Item) : List (Op K) → (K → Option Item)
  | [] => f
  | op :: ops => specAll (specApply f op) ops

theorem applyAll_refines (so : StrictOrder lt) (sz : Bytes → Nat) (s : IndexState K)
    (inv : IdxInv lt sz s) (ops : List (Op K)) (hops : ∀ op ∈ ops, OpOK sz op) :
    ∃ s', applyAll lt s ops = .ok s' ∧ IdxInv lt sz s' ∧
      ∀ k, kLookup s'.map k = specAll (kLookup s.map) ops k := by
  induction ops generalizing s with
  | nil => exact ⟨s, rfl, inv, fun _ => rfl⟩
  | cons op ops ih =>
    obtain ⟨s1, un, e, ok, l⟩ := applyOp_spec so sz s inv op (hops op (by simp))
    obtain ⟨s2, e2, inv2, l2⟩ := ih s1 ok.inv (fun o ho => hops o (by simp [ho]))
    refine ⟨s2, by simp [applyAll, e, e2], inv2, ?_⟩
    intro k
    rw [l2 k]
    have : kLookup s1.map = specApply (kLookup s.map) op := funext l
    simp [specAll, this]

/-- **C01 (index).** For every history: no panic; every point lookup equals the ordered-map
    specification; iteration is in strictly ascending key order; an entry is listed iff it is the
    specification's binding. -/
theorem C01_index_refines_map (so : StrictOrder lt) (sz : Bytes → Nat) (ops : List (Op K))
    (hops : ∀ op ∈ ops, OpOK sz op) :
    ∃ s, applyAll lt ({} : IndexState K) ops = .ok s ∧
      (∀ k, kLookup s.map k = specAll (fun _ => none) ops k) ∧
      Sorted lt s.map ∧
      (∀ k v, (k, v) ∈ s.map ↔ specAll (fun _ => none) ops k = some v) := by
  obtain ⟨s, e, inv, l⟩ := applyAll_refines so sz {} (IdxInv.init sz) ops hops
  refine ⟨s, e, ?_, inv.sorted, ?_⟩
  · intro k; rw [l k]; rfl
  · intro k v
    have := l k
    simp only [kLookup] at this
    constructor
    · intro hm; rw [← this]; exact mem_kLookup so inv.sorted hm
    · intro hs; rw [← this] at hs; exact kLookup_mem hs

/-- `remove` reports presence, `remove_range` the number of keys in range: both are reads of the
    key map before the (then exact) removal -/
theorem C01_remove_reports (so : StrictOrder lt) (sz : Bytes → Nat) (s : IndexState K)
    (inv : IdxInv lt sz s) (ks : List K) :
    ∃ s' un, applyOp lt s (.remove ks) = .ok (s', un) ∧
      ∀ k, kLookup s'.map k = if k ∈ ks then none else kLookup s.map k := by
  obtain ⟨s', un, e, _, l, _⟩ := applyRemove_spec so sz s inv ks
  exact ⟨s', un, e, l⟩

end
example : specAll (fun _ => none) [Op.put (1:Nat) [7] 3, .put 2 [7] 3, .remove [1]] 2 = some ⟨[7], 3⟩ := rfl
end CasModel
