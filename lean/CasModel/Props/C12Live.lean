import CasModel.Props.C03Live
import CasModel.Props.C12
/-
  C12 "after every operation, and after every reopen or crash recovery": `StoreLive` (Props/C03Live)
  — the invariant every step of every history with kills re-establishes — contains the index
  invariant, so in every such state the reference count of each blob is the number of keys mapped
  to it, the known blobs are exactly the referenced ones, the statistics are what a recomputation
  from scratch gives, and each key's recorded size is the length of the content it reads.
-/
namespace CasModel
open Ghost

variable (H : Bytes → Bytes) (kind : KeyKind) (sz : Bytes → Nat) (N : Nat)

theorem C12_live_counts (m : Mem) (sys : Sys (KMap Bytes) Bytes) (hist : Recs Bytes) (d : Disk)
    (spec : Spec) (tn : Nat) (live : StoreLive H kind sz N m sys hist d spec tn) :
    (∀ h, rcCount m.idx h = countHash m.idx.map h) ∧
    (∀ h, h ∈ rcKeys m.idx.rc ↔ ∃ e ∈ m.idx.map, e.2.hash = h) ∧
    (∀ n, (recomputeStats m.idx n).uniqueBlobs = m.idx.uniqueBlobs ∧
          (recomputeStats m.idx n).totalBytes = m.idx.totalBytes) ∧
    m.idx.uniqueBlobs = (rcKeys m.idx.rc).length ∧
    m.idx.totalBytes = ((rcKeys m.idx.rc).map sz).sum ∧
    (rcKeys m.idx.rc).Nodup ∧
    (∀ k item c, kLookup m.idx.map k = some item → spec k = some c →
      item.size = c.length ∧ getBlob m d k = .found c) := by
  have inv := live.tied.inv
  refine ⟨?_, rcKeys_iff sz m.idx inv, recompute_agrees sz m.idx inv, ?_, inv.total, inv.rcNodup, ?_⟩
  · intro h
    simp only [rcCount, inv.rcOK h]
    by_cases c : countHash m.idx.map h = 0 <;> simp [c]
  · rw [inv.unique]; simp [rcKeys]
  · intro k item c hk hs
    have hag := live.sinv.agree k
    rw [hk, hs] at hag
    have hr := live.sinv.read H sz m d spec tn k
    rw [hs] at hr
    exact ⟨hag.2.1, hr⟩

end CasModel
