import CasModel.Props.C01Store
import CasModel.Proofs.ScriptSim
/-
  C06 over whole scripts: at EVERY prefix of a put's script (a process kill between any two
  filesystem calls), every file in the CAS directory holds bytes whose hash is its name — a blob is
  never visible partially: it appears by one rename of a completely written staging file, and no
  event ever writes to a `cas/` path.  Same for remove / remove_range / checkpoint (they only
  unlink blobs).  `CasOK` is therefore an invariant of every crash image of every history.
-/
namespace CasModel

def CasOK (H : Bytes → Bytes) (d : Disk) : Prop := ∀ h x, d.get (.cas h) = some x → H x.data = h

/-- events under which `CasOK` is trivially preserved: they mention no blob, or only unlink/sync one -/
def Ev.casSafe : Ev → Bool
  | .creat (.cas _) _ | .write (.cas _) _ => false
  | .rename (.cas _) _ | .rename _ (.cas _) => false
  | _ => true

theorem casOK_safe (H : Bytes → Bytes) (d : Disk) (hwf : d.WF) (ok : CasOK H d) (e : Ev)
    (hs : e.casSafe = true) : CasOK H (d.apply e) := by
  intro h x hx
  cases e with
  | mkdir p => rw [Disk.get_mkdir] at hx; exact ok h x hx
  | mkdirTree => exact ok h x hx
  | flock => exact ok h x hx
  | creat f t =>
    rw [Disk.get_creat] at hx
    have : ¬ FileId.cas h = f := by intro c; subst c; simp [Ev.casSafe] at hs
    simp only [this, ↓reduceIte] at hx; exact ok h x hx
  | write f bs =>
    rw [Disk.get_write] at hx
    have : ¬ FileId.cas h = f := by intro c; subst c; simp [Ev.casSafe] at hs
    simp only [this, ↓reduceIte] at hx; exact ok h x hx
  | sync f =>
    rw [Disk.get_sync] at hx
    by_cases c : FileId.cas h = f
    · subst c
      simp only [↓reduceIte] at hx
      cases hg : d.get (.cas h) with
      | none => simp [hg] at hx
      | some y =>
        simp only [hg, Option.map_some, Option.some.injEq] at hx
        rw [← hx]; exact ok h y hg
    · simp only [c, ↓reduceIte] at hx; exact ok h x hx
  | unlink f =>
    rw [Disk.get_unlink d hwf] at hx
    by_cases c : FileId.cas h = f
    · simp [c] at hx
    · simp only [c, ↓reduceIte] at hx; exact ok h x hx
  | rename a b =>
    rw [Disk.get_rename d hwf] at hx
    have hb : ¬ FileId.cas h = b := by
      intro c; subst c; cases a <;> simp [Ev.casSafe] at hs
    have ha : ¬ FileId.cas h = a := by
      intro c; subst c; simp [Ev.casSafe] at hs
    cases hga : d.get a with
    | none => simp only [hga] at hx; exact ok h x hx
    | some y => simp only [hga, hb, ha, ↓reduceIte] at hx; exact ok h x hx

/-- the publishing rename: the staging file holds bytes hashing to the target name -/
theorem casOK_publish (H : Bytes → Bytes) (d : Disk) (hwf : d.WF) (ok : CasOK H d) (t : Nat)
    (h0 : Bytes) (y : File) (hy : d.get (.staging t) = some y) (hh : H y.data = h0) :
    CasOK H (d.apply (.rename (.staging t) (.cas h0))) := by
  intro h x hx
  rw [Disk.get_rename d hwf, hy] at hx
  by_cases c : FileId.cas h = FileId.cas h0
  · simp only [c, ↓reduceIte, Option.some.injEq] at hx
    injection c with c
    rw [← hx, c]; exact hh
  · have c2 : ¬ FileId.cas h = FileId.staging t := by intro e; cases e
    simp only [c, c2, ↓reduceIte] at hx
    exact ok h x hx

theorem allPre_casSafe (H : Bytes → Bytes) (d : Disk) (hwf : d.WF) (ok : CasOK H d) (evs : List Ev)
    (hs : ∀ e ∈ evs, e.casSafe = true) : AllPre (CasOK H) d evs := by
  induction evs generalizing d with
  | nil => exact allPre_nil _ _ ok
  | cons e es ih =>
    apply allPre_cons _ _ _ _ ok
    exact ih _ (Disk.apply_WF d hwf e) (casOK_safe H d hwf ok e (hs e (by simp)))
      (fun e' he' => hs e' (by simp [he']))

/-- every event of a commit is safe for the CAS directory -/
theorem logAndApply_casSafe (H : Bytes → Bytes) (m : Mem) (d : Disk) (op : Op Bytes) (raw : RawOp)
    (evs : List Ev) (m' : Mem) (h : logAndApply H m d op raw = .ok (evs, m')) :
    ∀ e ∈ evs, e.casSafe = true := by
  unfold logAndApply at h
  simp only at h
  split at h
  · cases h
  · injection h with h; injection h with h1 _
    subst h1
    intro e he
    simp only [List.mem_append] at he
    rcases he with ((he | he) | he) | he
    · split at he
      · simp at he
      · simp only [List.mem_append, List.mem_singleton] at he
        rcases he with he | he
        · split at he
          · simp only [List.mem_cons, List.mem_singleton, List.not_mem_nil, or_false] at he
            rcases he with rfl | rfl <;> rfl
          · simp at he
        · subst he; rfl
    · simp only [List.mem_cons, List.mem_singleton, List.not_mem_nil, or_false] at he
      rcases he with rfl | rfl <;> rfl
    · simp only [List.mem_map, List.mem_filter] at he
      obtain ⟨x, _, rfl⟩ := he
      rfl
    · have hck : ∀ (r : CkptReason) (mm : Mem) (dd : Disk), ∀ e ∈ (checkpointScript r mm dd).1,
          e.casSafe = true := by
        intro r mm dd e he
        unfold checkpointScript at he
        split at he
        · simp at he
        · simp only [List.mem_append, List.mem_cons, List.not_mem_nil, or_false] at he
          rcases he with (rfl | rfl | rfl | rfl) | he
          · rfl
          · rfl
          · rfl
          · rfl
          · split at he
            · simp at he
            · simp only [List.mem_map] at he
              obtain ⟨j, _, rfl⟩ := he
              rfl
      exact ite_fst_all' (P := fun e => e.casSafe = true) _ _ _ (hck _ _ _) (by simp) e he

/-- **C06 (every crash image of a put).** If every blob file is intact before a put, then after
    every prefix of the put's script every blob file is intact: the new blob is either not there
    yet or complete. -/
theorem C06_put_all_prefixes (H : Bytes → Bytes) (m : Mem) (d : Disk) (hwf : d.WF)
    (ok : CasOK H d) (tn : Nat) (key : Bytes) (chunks : List Bytes)
    (hfresh : d.get (.staging tn) = none) :
    AllPre (CasOK H) d (putScript H m d tn key chunks).1 := by
  let content := chunks.flatten
  let h := H content
  let pre : List Ev := beginScript tn ++ ([Ev.write (.staging tn) content] ++
      (if m.cfg.sync then [Ev.sync (.staging tn)] else [])) ++
      (if m.preCreated then [] else mkdirsFor (d.applyAll (beginScript tn)) h)
  have hpreSafe : ∀ e ∈ pre, e.casSafe = true := by
    intro e he
    simp only [pre, beginScript, List.mem_append, List.mem_cons, List.not_mem_nil, or_false] at he
    rcases he with (he | he | he) | he
    · subst he; rfl
    · subst he; rfl
    · split at he
      · simp only [List.mem_singleton] at he; subst he; rfl
      · cases he
    · split at he
      · cases he
      · unfold mkdirsFor at he
        split at he
        · simp only [List.mem_append] at he
          rcases he with he | he <;> (split at he <;> simp at he <;> subst he <;> rfl)
        · cases he
  -- the staging file right before the rename
  have hstg : ∃ y, (d.applyAll pre).get (.staging tn) = some y ∧ y.data = content := by
    have h0 : (d.applyAll (beginScript tn)).get (.staging tn) = some ⟨[], 0⟩ := by
      simp only [beginScript, Disk.applyAll, List.foldl]
      rw [Disk.get_creat]; simp [hfresh]
    have w0 := Disk.applyAll_WF d hwf (beginScript tn)
    have hmk : ∀ e ∈ (if m.preCreated then [] else mkdirsFor (d.applyAll (beginScript tn)) h),
        e.touches (.staging tn) = false := by
      intro e he
      split at he
      · cases he
      · unfold mkdirsFor at he
        split at he
        · simp only [List.mem_append] at he
          rcases he with he | he <;> (split at he <;> simp at he <;> subst he <;> rfl)
        · cases he
    simp only [pre, Disk.applyAll_append]
    rw [get_untouched_all _ (Disk.applyAll_WF _ (Disk.applyAll_WF _ w0 _) _) _ _ hmk]
    by_cases hs : m.cfg.sync = true
    · simp only [hs, ↓reduceIte, Disk.applyAll, List.foldl]
      rw [Disk.get_sync, Disk.get_write]
      simp only [↓reduceIte]
      have h0' : (List.foldl Disk.apply d (beginScript tn)).get (.staging tn) = some ⟨[], 0⟩ := h0
      rw [h0']
      exact ⟨_, rfl, by simp⟩
    · simp only [hs, Bool.false_eq_true, ↓reduceIte, Disk.applyAll, List.foldl]
      rw [Disk.get_write]
      simp only [↓reduceIte]
      have h0' : (List.foldl Disk.apply d (beginScript tn)).get (.staging tn) = some ⟨[], 0⟩ := h0
      rw [h0']
      exact ⟨_, rfl, by simp⟩
  obtain ⟨y, hy, hyd⟩ := hstg
  have wpre := Disk.applyAll_WF d hwf pre
  have okpre : CasOK H (d.applyAll pre) := allPre_last _ _ _ (allPre_casSafe H d hwf ok pre hpreSafe)
  have okmv : CasOK H ((d.applyAll pre).apply (.rename (.staging tn) (.cas h))) :=
    casOK_publish H _ wpre okpre tn h y hy (by rw [hyd])
  -- assemble: pre ++ [rename] ++ commit
  have hshape : ∃ evs2, (putScript H m d tn key chunks).1 = pre ++ [Ev.rename (.staging tn) (.cas h)] ++ evs2 ∧
      ∀ e ∈ evs2, e.casSafe = true := by
    simp only [putScript, finishScript]
    cases hla : logAndApply H m ((d.applyAll (beginScript tn)).applyAll
        ([Ev.write (.staging tn) chunks.flatten] ++ (if m.cfg.sync then [Ev.sync (.staging tn)] else []) ++
          (if m.preCreated then [] else mkdirsFor (d.applyAll (beginScript tn)) (H chunks.flatten)) ++
          [Ev.rename (.staging tn) (.cas (H chunks.flatten))]))
        (.put key (H chunks.flatten) (chunks.map List.length).sum)
        (.put key (H chunks.flatten) (chunks.map List.length).sum) with
    | error p => exact ⟨[], by simp [pre, content, h, List.append_assoc], by simp⟩
    | ok r =>
      obtain ⟨evs2, m2⟩ := r
      exact ⟨evs2, by simp [pre, content, h, List.append_assoc], logAndApply_casSafe H m _ _ _ evs2 m2 hla⟩
  obtain ⟨evs2, hsh, hsafe2⟩ := hshape
  rw [hsh]
  apply allPre_append _ _ _ _ (allPre_append _ _ _ _ (allPre_casSafe H d hwf ok pre hpreSafe) ?_) ?_
  · exact allPre_cons _ _ _ _ okpre (allPre_nil _ _ okmv)
  · rw [Disk.applyAll_append]
    simp only [Disk.applyAll_cons, Disk.applyAll_nil]
    exact allPre_casSafe H _ (Disk.apply_WF _ wpre _) okmv evs2 hsafe2

/-- **C06 (every crash image of a remove / remove_range / checkpoint).** -/
theorem C06_commit_all_prefixes (H : Bytes → Bytes) (m : Mem) (d : Disk) (hwf : d.WF)
    (ok : CasOK H d) (op : Op Bytes) (raw : RawOp) (evs : List Ev) (m' : Mem)
    (h : logAndApply H m d op raw = .ok (evs, m')) : AllPre (CasOK H) d evs :=
  allPre_casSafe H d hwf ok evs (logAndApply_casSafe H m d op raw evs m' h)

end CasModel
