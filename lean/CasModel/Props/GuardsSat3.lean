import CasModel.Props.GuardsSat2
import CasModel.Props.C09Live
/-
  The guards of `C09_histories_with_power_loss` are discharged like those of C03 (GuardsSat2): the
  two facts about kill images (`ImgTwo` / `ImgSame`: recoverable to the old or the new history,
  snapshot version bounded) only look at the WAL bytes, so they transfer to every power-loss image
  (`powerLoss_allPre_gen`); the settings file is written once, synced before it is renamed into
  place, and never touched again, so it survives every power loss (`SettledS`).
-/
namespace CasModel
open Ghost

variable (H : Bytes → Bytes) (kind : KeyKind) (sz : Bytes → Nat) (N : Nat)

theorem snapBound_of_view (nx : Nat) (d d' : Disk) (v : SameView d d') (h : SnapBound kind nx d) :
    SnapBound kind nx d' := by
  unfold SnapBound
  rw [loadSnapshot_congr kind d d' v.2.2.1]
  exact h

theorem ImgTwo.of_view (m : Mem) (hist : Recs Bytes) (raw : RawOp) (d d' : Disk)
    (i : ImgTwo H kind sz N m hist raw d) (v : SameView d d') : ImgTwo H kind sz N m hist raw d' :=
  ⟨i.rcv.of_view H kind sz N _ d d' v.1 v.2.1 v.2.2.1, snapBound_of_view kind _ d d' v i.sb⟩

theorem ImgSame.of_view (m : Mem) (hist : Recs Bytes) (d d' : Disk)
    (i : ImgSame H kind sz N m hist d) (v : SameView d d') : ImgSame H kind sz N m hist d' :=
  ⟨i.rcv.of_view H kind sz N _ d d' v.1 v.2.1 v.2.2.1, snapBound_of_view kind _ d d' v i.sb⟩

/-- the two facts at every POWER-LOSS image of a disciplined script with synced blob files -/
theorem lossImg_two (m : Mem) (hist : Recs Bytes) (raw : RawOp) (d : Disk) (hw : d.WF) (hd : Dur d)
    (evs : List Ev) (hdisc : Disc evs) (hcs : AllPre CasSynced d evs)
    (himg : ∀ j, ImgTwo H kind sz N m hist raw (d.applyAll (evs.take j))) (j : Nat) (lose : FileId → Bool) :
    ImgTwo H kind sz N m hist raw ((d.applyAll (evs.take j)).powerLoss lose) :=
  powerLoss_allPre_gen _ (fun a b => ImgTwo.of_view H kind sz N m hist raw a b) evs d hw hd hdisc himg hcs j lose

theorem lossImg_same (m : Mem) (hist : Recs Bytes) (d : Disk) (hw : d.WF) (hd : Dur d)
    (evs : List Ev) (hdisc : Disc evs) (hcs : AllPre CasSynced d evs)
    (himg : ∀ j, ImgSame H kind sz N m hist (d.applyAll (evs.take j))) (j : Nat) (lose : FileId → Bool) :
    ImgSame H kind sz N m hist ((d.applyAll (evs.take j)).powerLoss lose) :=
  powerLoss_allPre_gen _ (fun a b => ImgSame.of_view H kind sz N m hist a b) evs d hw hd hdisc himg hcs j lose

/-- … and at the image the next `open` finds after the reboot -/
theorem rebootImg_two (m : Mem) (hist : Recs Bytes) (raw : RawOp) (d : Disk) (hw : d.WF) (hd : Dur d)
    (evs : List Ev) (hdisc : Disc evs) (hcs : AllPre CasSynced d evs)
    (himg : ∀ j, ImgTwo H kind sz N m hist raw (d.applyAll (evs.take j))) (j : Nat) (lose : FileId → Bool) :
    ImgTwo H kind sz N m hist raw ((d.applyAll (evs.take j)).reboot lose) :=
  (lossImg_two H kind sz N m hist raw d hw hd evs hdisc hcs himg j lose).of_view H kind sz N m hist raw _ _
    (sameView_settle _ (powerLoss_WF _ _ (Disk.applyAll_WF d hw _)))

theorem rebootImg_same (m : Mem) (hist : Recs Bytes) (d : Disk) (hw : d.WF) (hd : Dur d)
    (evs : List Ev) (hdisc : Disc evs) (hcs : AllPre CasSynced d evs)
    (himg : ∀ j, ImgSame H kind sz N m hist (d.applyAll (evs.take j))) (j : Nat) (lose : FileId → Bool) :
    ImgSame H kind sz N m hist ((d.applyAll (evs.take j)).reboot lose) :=
  (lossImg_same H kind sz N m hist d hw hd evs hdisc hcs himg j lose).of_view H kind sz N m hist _ _
    (sameView_settle _ (powerLoss_WF _ _ (Disk.applyAll_WF d hw _)))

/-- a settings file that passes the gate is in place AND completely synced -/
def SettledS (cfg : Config) (d : Disk) : Prop :=
  ∃ f pre, d.get .settings = some f ∧ parseSettings f.data = some (4, pre, cfg.N) ∧
    f.synced = f.data.length

theorem SettledS.settled (cfg : Config) (d : Disk) (h : SettledS cfg d) : Settled cfg d := by
  obtain ⟨f, pre, a, b, _⟩ := h; exact ⟨f, pre, a, b⟩

theorem SettledS.frame (cfg : Config) (d : Disk) (hw : d.WF) (evs : List Ev)
    (hq : ∀ e ∈ evs, e.touches .settings = false) (h : SettledS cfg d) : SettledS cfg (d.applyAll evs) := by
  obtain ⟨f, pre, hf, hp, hs⟩ := h
  exact ⟨f, pre, by rw [get_untouched_all d hw _ evs hq]; exact hf, hp, hs⟩

theorem SettledS.powerLoss (cfg : Config) (d : Disk) (lose : FileId → Bool) (h : SettledS cfg d) :
    SettledS cfg (d.powerLoss lose) := by
  obtain ⟨f, pre, hf, hp, hs⟩ := h
  refine ⟨if lose .settings then { f with data := f.data.take f.synced } else f, pre, ?_, ?_, ?_⟩
  · rw [powerLoss_get, hf]; rfl
  · split
    · simp only [hs, List.take_length]; exact hp
    · exact hp
  · split
    · simp [hs]
    · exact hs

theorem SettledS.settle (cfg : Config) (d : Disk) (h : SettledS cfg d) : SettledS cfg d.settle := by
  obtain ⟨f, pre, hf, hp, _⟩ := h
  exact ⟨{ f with synced := f.data.length }, pre, by rw [settle_get, hf]; rfl, hp, rfl⟩

theorem SettledS.reboot (cfg : Config) (d : Disk) (lose : FileId → Bool) (h : SettledS cfg d) :
    SettledS cfg (d.reboot lose) := (h.powerLoss cfg d lose).settle cfg _

def SmallDOp (P : Bytes → Prop) : DOp → Prop
  | .put k c | .putLoss k c _ _ => SmallKey kind k ∧ P c.flatten ∧ c.flatten.length < U64
  | .remove k | .removeLoss k _ _ => SmallKey kind k
  | _ => True

/-- what a loss step needs and yields, for a script that may log one record -/
theorem loss_step_two (so : StrictOrder kind.lt) (hH : Hash32 H) (P : Bytes → Prop) (hinj : Inj H sz P)
    (cfg : Config) (hk : cfg.kind = kind) (hn : cfg.N = N) (hsync : cfg.sync = true)
    (b : Nat) (m : Mem) (sys : Sys (KMap Bytes) Bytes) (hist : Recs Bytes) (d : Disk) (spec : Spec)
    (tn : Nat) (ok : StoreDur H kind sz N m sys hist d spec tn) (r : Roomy kind b m) (hb : b + 3 < U32)
    (hset : SettledS cfg d) (op : Op Bytes) (raw : RawOp) (hraw : raw.WF)
    (hconv : fromRaw kind raw = some op)
    (hop : ∀ k hh size, op = .put k hh size → SmallKey kind k ∧ hh.length = 32 ∧ size < U64)
    (spec' : Spec) (tn' : Nat) (evs : List Ev)
    (s : ScriptOK H kind sz N m sys hist d [hist, hist ++ [(m.next, serWalOp raw)]] [spec, spec'] tn' evs)
    (himg : ∀ j, ImgTwo H kind sz N m hist raw (d.applyAll (evs.take j)))
    (hq : ∀ e ∈ evs, e.touches .settings = false)
    (hspecP : ∀ sx ∈ [spec, spec'], ∀ k c, sx k = some c → P c) (j : Nat) (lose : FileId → Bool) :
    GateOK H kind cfg d evs j lose ∧
    ∀ m2 sc, (lossOpen H cfg d evs j lose).1 = .ok (m2, sc) →
      ∃ sys2 hist2 spec2, (spec2 = spec ∨ spec2 = spec') ∧
        StoreDur H kind sz N m2 sys2 hist2 (lossOpen H cfg d evs j lose).2 spec2 tn' ∧
        Roomy kind (b + 1) m2 ∧ SettledS cfg (lossOpen H cfg d evs j lose).2 := by
  have hw := ok.live.sinv.wf
  have t := ok.live.tied
  have hl := rebootImg_two H kind sz N m hist raw d hw ok.dur evs s.disc s.cas himg j lose
  have hset1 : SettledS cfg ((d.applyAll (evs.take j)).reboot lose) :=
    (hset.frame cfg d hw _ (fun e he => hq e (List.mem_of_mem_take he))).reboot cfg _ _
  have ho : OpenOK H kind cfg ((d.applyAll (evs.take j)).reboot lose) :=
    openOK_two H kind sz N so hH b m sys hist d t r hb op raw hraw hconv hop _ hl.rcv hl.sb cfg
      ((hset1.settled cfg _).gate cfg _)
  refine ⟨ho, ?_⟩
  intro m2 sc hres
  obtain ⟨m2', sys2, hist2, sc', spec2, hres', hs2, dur2⟩ := ok.lossOpen H kind sz N so hH P hinj cfg hk hn
    hsync m sys hist d spec tn _ _ tn' evs s hspecP j lose ho
  have hres0 : (openBody H cfg ((d.applyAll (evs.take j)).reboot lose)).2 = .ok (m2, sc) := hres
  rw [hres0] at hres'; injection hres' with hres'; injection hres' with e1 _; subst e1
  refine ⟨sys2, hist2, spec2, by simpa using hs2, dur2, ?_, ?_⟩
  · exact roomy_open_two H kind sz N so hH b m sys hist d t r op raw hraw hconv hop _ hl.rcv hl.sb cfg hk hn
      ho m2 sc hres0
  · have hwi : ((d.applyAll (evs.take j)).reboot lose).WF :=
      settle_WF _ (powerLoss_WF _ _ (Disk.applyAll_WF d hw _))
    exact hset1.frame cfg _ hwi _ (openBody_settings H cfg _ (hset1.settled cfg _))

/-- the same for a script that logs nothing -/
theorem loss_step_same (so : StrictOrder kind.lt) (hH : Hash32 H) (P : Bytes → Prop) (hinj : Inj H sz P)
    (cfg : Config) (hk : cfg.kind = kind) (hn : cfg.N = N) (hsync : cfg.sync = true)
    (b : Nat) (m : Mem) (sys : Sys (KMap Bytes) Bytes) (hist : Recs Bytes) (d : Disk) (spec : Spec)
    (tn : Nat) (ok : StoreDur H kind sz N m sys hist d spec tn) (r : Roomy kind b m) (hb : b + 3 < U32)
    (hset : SettledS cfg d) (tn' : Nat) (evs : List Ev)
    (s : ScriptOK H kind sz N m sys hist d [hist] [spec] tn' evs)
    (himg : ∀ j, ImgSame H kind sz N m hist (d.applyAll (evs.take j)))
    (hq : ∀ e ∈ evs, e.touches .settings = false)
    (hspecP : ∀ k c, spec k = some c → P c) (j : Nat) (lose : FileId → Bool) :
    GateOK H kind cfg d evs j lose ∧
    ∀ m2 sc, (lossOpen H cfg d evs j lose).1 = .ok (m2, sc) →
      ∃ sys2 hist2, StoreDur H kind sz N m2 sys2 hist2 (lossOpen H cfg d evs j lose).2 spec tn' ∧
        Roomy kind b m2 ∧ SettledS cfg (lossOpen H cfg d evs j lose).2 := by
  have hw := ok.live.sinv.wf
  have t := ok.live.tied
  have hl := rebootImg_same H kind sz N m hist d hw ok.dur evs s.disc s.cas himg j lose
  have hset1 : SettledS cfg ((d.applyAll (evs.take j)).reboot lose) :=
    (hset.frame cfg d hw _ (fun e he => hq e (List.mem_of_mem_take he))).reboot cfg _ _
  have ho : OpenOK H kind cfg ((d.applyAll (evs.take j)).reboot lose) :=
    openOK_same H kind sz N so hH b m sys hist d t r hb _ hl.rcv hl.sb cfg
      ((hset1.settled cfg _).gate cfg _)
  refine ⟨ho, ?_⟩
  intro m2 sc hres
  obtain ⟨m2', sys2, hist2, sc', spec2, hres', hs2, dur2⟩ := ok.lossOpen H kind sz N so hH P hinj cfg hk hn
    hsync m sys hist d spec tn _ _ tn' evs s (specsP_single P _ hspecP) j lose ho
  have hres0 : (openBody H cfg ((d.applyAll (evs.take j)).reboot lose)).2 = .ok (m2, sc) := hres
  rw [hres0] at hres'; injection hres' with hres'; injection hres' with e1 _; subst e1
  simp only [List.mem_singleton] at hs2; subst hs2
  refine ⟨sys2, hist2, dur2, ?_, ?_⟩
  · exact roomy_open_same H kind sz N so hH b m sys hist d t r _ hl.rcv hl.sb cfg hk hn ho m2 sc hres0
  · have hwi : ((d.applyAll (evs.take j)).reboot lose).WF :=
      settle_WF _ (powerLoss_WF _ _ (Disk.applyAll_WF d hw _))
    exact hset1.frame cfg _ hwi _ (openBody_settings H cfg _ (hset1.settled cfg _))

/-- **every guard of `C09_histories_with_power_loss` holds along every history of at most 2^15 - 3
    operations on reasonable keys** — completed ones and ones cut anywhere by a power loss, whatever files lose their unsynced bytes —
    from any durable, roomy store whose settings file is in place and synced -/
theorem durOK_of_small_all (so : StrictOrder kind.lt) (hH : Hash32 H) (P : Bytes → Prop)
    (hinj : Inj H sz P) (cfg : Config) (hk : cfg.kind = kind) (hn : cfg.N = N) (hsync : cfg.sync = true)
    (ops : List DOp) :
    ∀ (b : Nat) (m : Mem) (sys : Sys (KMap Bytes) Bytes) (hist : Recs Bytes) (d : Disk) (spec : Spec)
      (tn : Nat), StoreDur H kind sz N m sys hist d spec tn → (∀ k c, spec k = some c → P c) →
      Roomy kind b m → SettledS cfg d → b + ops.length + 3 ≤ 2 ^ 15 →
      (∀ op ∈ ops, SmallDOp kind P op) → DurOK H kind P cfg m d tn ops := by
  induction ops with
  | nil => intro b m sys hist d spec tn _ _ _ _ _ _; trivial
  | cons op ops ih =>
    intro b m sys hist d spec tn ok hspecP r hset hb hops
    have hop := hops op (by simp)
    have hrest : ∀ o ∈ ops, SmallDOp kind P o := fun o ho => hops o (by simp [ho])
    simp only [List.length_cons] at hb
    have h15 : (2:Nat) ^ 15 < U32 := by decide
    have h3264 : U32 < U64 := by decide
    have live := ok.live
    have hw := live.sinv.wf
    have t := live.tied
    cases op with
    | put key chunks =>
      obtain ⟨hk', hP, hlen⟩ := hop
      have hpo := putOK_of_roomy H kind hH P b m r (by omega) key chunks hk' hP hlen
      refine ⟨hpo, ?_⟩
      intro evs m' hrun
      obtain ⟨evs1, m1, sys1, hist1, hrun1, ok1⟩ := ok.put H kind sz N so hH P hinj m sys hist d spec tn
        hspecP key chunks hpo
      rw [hrun] at hrun1
      simp only [Prod.mk.injEq] at hrun1
      obtain ⟨e1, e2, _⟩ := hrun1
      subst e1 e2
      exact ih (b + 1) m' sys1 hist1 _ _ (tn + 1) ok1 (specP_put P spec hspecP key _ hP)
        (roomy_put H kind hH b m r t.kindEq d tn key chunks hk' hlen evs m' hrun)
        (hset.frame cfg d hw evs (putScript_settings H m d tn key chunks evs m' hrun)) (by omega) hrest
    | remove key =>
      have hro := removeOK_of_roomy kind b m r (by omega) key hop
      refine ⟨hro, ?_⟩
      intro evs m' bb hrun
      obtain ⟨evs1, m1, b1, sys1, hist1, hrun1, _, ok1⟩ := ok.remove H kind sz N so hH m sys hist d spec tn
        key hro
      rw [hrun] at hrun1
      simp only [Prod.mk.injEq] at hrun1
      obtain ⟨e1, e2, _⟩ := hrun1
      subst e1 e2
      have hq := removeScript_settings H m d key
      rw [hrun] at hq
      exact ih (b + 1) m' sys1 hist1 _ _ tn ok1 (specP_remove P spec hspecP key)
        (roomy_remove H kind b m r t.kindEq d key evs m' bb hrun) (hset.frame cfg d hw evs hq) (by omega) hrest
    | removeRange lo hi =>
      have hro := rangeOK_of_roomy kind b m r (by omega) lo hi
      refine ⟨hro, ?_⟩
      intro evs m' n hrun
      obtain ⟨evs1, m1, n1, sys1, hist1, hrun1, _, ok1⟩ := ok.removeRange H kind sz N so hH m sys hist d
        spec tn lo hi hro
      rw [hrun] at hrun1
      simp only [Prod.mk.injEq] at hrun1
      obtain ⟨e1, e2, _⟩ := hrun1
      subst e1 e2
      have hq := removeRangeScript_settings H m d lo hi
      rw [hrun] at hq
      exact ih (b + 1) m' sys1 hist1 _ _ tn ok1 (specP_range P spec hspecP _)
        (roomy_removeRange H kind b m r t.kindEq d lo hi evs m' n hrun) (hset.frame cfg d hw evs hq)
        (by omega) hrest
    | checkpoint =>
      have hsv : SaveOK kind m.idx := saveOK_of kind _ m.idx rfl r.keys r.ents (by have := r.count; omega)
      have hver : m.next < U64 := by have := r.next.2; omega
      refine ⟨⟨hsv, hver⟩, ?_⟩
      obtain ⟨sys1, ok1⟩ := ok.checkpoint H kind sz N so m sys hist d spec tn hsv hver
      exact ih b _ sys1 hist _ _ tn ok1 hspecP (roomy_checkpoint kind b m r .explicit d)
        (hset.frame cfg d hw _ (checkpointScript_settings .explicit m d)) (by omega) hrest
    | abandon content =>
      exact ih b m sys hist _ _ (tn + 1) (ok.abandoned H kind sz N m sys hist d spec tn content) hspecP r
        (hset.frame cfg d hw _ (abandoned_settings tn content)) (by omega) hrest
    | reopen =>
      have hc := closeScript_benign m
      have hset1 := hset.frame cfg d hw _ (closeScript_settings m)
      have ho := openOK_of_tied H kind sz N so hH b m sys hist d t r (by omega) (closeScript m)
        (fun e he => (hc e he).1) cfg ((hset1.settled cfg _).gate cfg _)
      refine ⟨ho, ?_⟩
      intro m2 sc hres
      obtain ⟨m2', sys2, sc', hres', ok2⟩ := ok.reopen H kind sz N so hH P hinj m sys hist d spec tn
        hspecP cfg hk hn hsync ho
      rw [hres] at hres'; injection hres' with hres'; injection hres' with e1 _; subst e1
      exact ih b m2 sys2 hist _ _ tn ok2 hspecP
        (roomy_open H kind sz N so hH b m sys hist d t r (closeScript m) (fun e he => (hc e he).1) cfg hk hn
          ho m2 sc hres)
        (hset1.frame cfg _ (Disk.applyAll_WF d hw _) _ (openBody_settings H cfg _ (hset1.settled cfg _)))
        (by omega) hrest
    | putLoss key chunks j lose =>
      obtain ⟨hk', hP, hlen⟩ := hop
      have hpo := putOK_of_roomy H kind hH P b m r (by omega) key chunks hk' hP hlen
      have hsum : (chunks.map List.length).sum = chunks.flatten.length := by rw [List.length_flatten]
      obtain ⟨evs, m', hrun, _⟩ := putScript_sinv H sz m d spec tn live.sinv key chunks P hinj hP hspecP
      have hq : ∀ e ∈ (putScript H m d tn key chunks).1, e.touches .settings = false := by
        rw [hrun]; exact putScript_settings H m d tn key chunks evs m' hrun
      obtain ⟨hg, hnext⟩ := loss_step_two H kind sz N so hH P hinj cfg hk hn hsync b m sys hist d spec tn ok r
        (by omega) hset (.put key (H chunks.flatten) (chunks.map List.length).sum)
        (.put key (H chunks.flatten) (chunks.map List.length).sum) hpo.2.1 (by simp [fromRaw, hpo.2.2.1])
        (by
          intro k hh size ho
          injection ho with e1 e2 e3
          subst e1 e2 e3
          exact ⟨hk', hH _, by rw [hsum]; exact hlen⟩)
        _ (tn + 1) _ (put_scriptOK H kind sz N so hH P hinj m sys hist d spec tn ok hspecP key chunks hpo)
        (put_img H kind sz N so hH P hinj m sys hist d t tn key chunks hpo) hq
        (specsP_pair P _ _ hspecP (specP_put P spec hspecP key _ hP)) j lose
      refine ⟨hpo, hg, ?_⟩
      intro m2 sc hres
      obtain ⟨sys2, hist2, spec2, hs2, ok2, r2, set2⟩ := hnext m2 sc hres
      have hsp2 : ∀ k c, spec2 k = some c → P c := by
        rcases hs2 with rfl | rfl
        · exact hspecP
        · exact specP_put P spec hspecP key _ hP
      exact ih (b + 1) m2 sys2 hist2 _ _ (tn + 1) ok2 hsp2 r2 set2 (by omega) hrest
    | removeLoss key j lose =>
      have hro := removeOK_of_roomy kind b m r (by omega) key hop
      obtain ⟨hg, hnext⟩ := loss_step_two H kind sz N so hH P hinj cfg hk hn hsync b m sys hist d spec tn ok r
        (by omega) hset (.remove [key]) (.remove [key]) hro.1 (by simp [fromRaw, hro.2.1])
        (by intro k hh size ho; cases ho)
        _ tn _ (remove_scriptOK H kind sz N so hH m sys hist d spec tn ok key hro)
        (remove_img H kind sz N so hH m sys hist d t key hro) (removeScript_settings H m d key)
        (specsP_pair P _ _ hspecP (specP_remove P spec hspecP key)) j lose
      refine ⟨hro, hg, ?_⟩
      intro m2 sc hres
      obtain ⟨sys2, hist2, spec2, hs2, ok2, r2, set2⟩ := hnext m2 sc hres
      have hsp2 : ∀ k c, spec2 k = some c → P c := by
        rcases hs2 with rfl | rfl
        · exact hspecP
        · exact specP_remove P spec hspecP key
      exact ih (b + 1) m2 sys2 hist2 _ _ tn ok2 hsp2 r2 set2 (by omega) hrest
    | rangeLoss lo hi j lose =>
      have hro := rangeOK_of_roomy kind b m r (by omega) lo hi
      obtain ⟨hg, hnext⟩ := loss_step_two H kind sz N so hH P hinj cfg hk hn hsync b m sys hist d spec tn ok r
        (by omega) hset (.remove (rangeKeys m lo hi)) (.remove (rangeKeys m lo hi)) hro.1
        (by simp [fromRaw, hro.2.1]) (by intro k hh size ho; cases ho)
        _ tn _ (range_scriptOK H kind sz N so hH m sys hist d spec tn ok lo hi hro)
        (range_img H kind sz N so hH m sys hist d t lo hi hro) (removeRangeScript_settings H m d lo hi)
        (specsP_pair P _ _ hspecP (specP_range P spec hspecP _)) j lose
      refine ⟨hro, hg, ?_⟩
      intro m2 sc hres
      obtain ⟨sys2, hist2, spec2, hs2, ok2, r2, set2⟩ := hnext m2 sc hres
      have hsp2 : ∀ k c, spec2 k = some c → P c := by
        rcases hs2 with rfl | rfl
        · exact hspecP
        · exact specP_range P spec hspecP _
      exact ih (b + 1) m2 sys2 hist2 _ _ tn ok2 hsp2 r2 set2 (by omega) hrest
    | checkpointLoss j lose =>
      have hsv : SaveOK kind m.idx := saveOK_of kind _ m.idx rfl r.keys r.ents (by have := r.count; omega)
      have hver : m.next < U64 := by have := r.next.2; omega
      obtain ⟨hg, hnext⟩ := loss_step_same H kind sz N so hH P hinj cfg hk hn hsync b m sys hist d spec tn ok r
        (by omega) hset tn _ (checkpoint_scriptOK H kind sz N so m sys hist d spec tn ok hsv hver)
        (checkpoint_img H kind sz N so m sys hist d t hsv hver) (checkpointScript_settings .explicit m d)
        hspecP j lose
      refine ⟨⟨hsv, hver⟩, hg, ?_⟩
      intro m2 sc hres
      obtain ⟨sys2, hist2, ok2, r2, set2⟩ := hnext m2 sc hres
      exact ih b m2 sys2 hist2 _ _ tn ok2 hspecP r2 set2 (by omega) hrest
    | reopenLoss j lose =>
      have hc := closeScript_benign m
      have hsetc := hset.frame cfg d hw _ (closeScript_settings m)
      have ho0 := openOK_of_tied H kind sz N so hH b m sys hist d t r (by omega) (closeScript m)
        (fun e he => (hc e he).1) cfg ((hsetc.settled cfg _).gate cfg _)
      obtain ⟨hg, hnext⟩ := loss_step_same H kind sz N so hH P hinj cfg hk hn hsync b m sys hist d spec tn ok r
        (by omega) hset tn _ (reopen_scriptOK H kind sz N so hH m sys hist d spec tn ok cfg hk hn ho0)
        (reopen_img H kind sz N so hH m sys hist d t cfg hk hn ho0)
        (by
          intro e he
          rcases List.mem_append.mp he with he | he
          · exact closeScript_settings m e he
          · exact openBody_settings H cfg _ (hsetc.settled cfg _) e he)
        hspecP j lose
      refine ⟨ho0, hg, ?_⟩
      intro m2 sc hres
      obtain ⟨sys2, hist2, ok2, r2, set2⟩ := hnext m2 sc hres
      exact ih b m2 sys2 hist2 _ _ tn ok2 hspecP r2 set2 (by omega) hrest
    | abandonLoss content j lose =>
      obtain ⟨hg, hnext⟩ := loss_step_same H kind sz N so hH P hinj cfg hk hn hsync b m sys hist d spec tn ok r
        (by omega) hset (tn + 1) _ (abandoned_scriptOK H kind sz N m sys hist d spec tn ok content)
        (fun j => tied_img H kind sz N m sys hist d t _
          (fun e he => (abandoned_benign tn content e (List.mem_of_mem_take he)).1))
        (abandoned_settings tn content) hspecP j lose
      refine ⟨hg, ?_⟩
      intro m2 sc hres
      obtain ⟨sys2, hist2, ok2, r2, set2⟩ := hnext m2 sc hres
      exact ih b m2 sys2 hist2 _ _ (tn + 1) ok2 hspecP r2 set2 (by omega) hrest

/-- **C09 for every small history, with no usage guard left** (Sync mode) -/
theorem C09_small_world (so : StrictOrder kind.lt) (hH : Hash32 H) (P : Bytes → Prop)
    (hinj : Inj H sz P) (cfg : Config) (hk : cfg.kind = kind) (hn : cfg.N = N) (hsync : cfg.sync = true)
    (b : Nat) (m : Mem) (sys : Sys (KMap Bytes) Bytes) (hist : Recs Bytes) (d : Disk) (spec : Spec)
    (tn : Nat) (ok : StoreDur H kind sz N m sys hist d spec tn) (hspecP : ∀ k c, spec k = some c → P c)
    (r : Roomy kind b m) (hset : SettledS cfg d) (ops : List DOp) (hb : b + ops.length + 3 ≤ 2 ^ 15)
    (hops : ∀ op ∈ ops, SmallDOp kind P op) :
    ∃ m' d' tn' spec', dRun H cfg m d tn ops = some (m', d', tn') ∧
      LReach kind spec (ops.map DOp.toL) spec' ∧
      ∀ k, getBlob m' d' k = match spec' k with
                             | none => .absent
                             | some c => .found c := by
  obtain ⟨m', d', tn', _, _, spec', hr, hreach, _, hread⟩ :=
    C09_histories_with_power_loss H kind sz N so hH P hinj cfg hk hn hsync ops m sys hist d spec tn ok hspecP
      (durOK_of_small_all H kind sz N so hH P hinj cfg hk hn hsync ops b m sys hist d spec tn ok hspecP r
        hset hb hops)
  exact ⟨m', d', tn', spec', hr, hreach, hread⟩

end CasModel
