import CasModel.Proofs.WalMachine
/-
  C02 / C03 / C20 at record level (the WAL manager's logic; see Proofs/WalMachine for the machine).
  Quantifiers: every sequence of actions — appends (one per logged API operation), snapshot
  installs, prunes, segment creations, opens, clean closes and CRASHES at arbitrary positions
  (a crash between any two durable mutations, also during first initialisation and during
  recovery itself, nested to any depth), for every segment size `N`, every state type, record
  type and (possibly failing) apply function.
  What is NOT covered here: that the byte-level event scripts of Store.lean perform exactly these
  actions (tied by the trace correspondence and, for the codecs, by the C16/C10 theorems) —
  hence the suffix `_records`.
-/
namespace CasModel.Ghost

variable {S R E : Type}

/-- **C03 (records).** Wherever the action sequence stops, a crash followed by `open` succeeds and
    yields exactly the state after the records appended so far (= the acknowledged operations,
    plus the in-flight one iff its single record reached the log: all-or-nothing), with a next
    version above every version ever logged. The recovered system is again `Good`, so the
    guarantee continues to hold for everything that follows. -/
theorem C03_crash_atomic_records (step : S → R → Except E S) (init : S) (N : Nat)
    (acts : List (Act R)) (sys : Sys S R) (hist : Recs R)
    (h : runActs step N (emptySys init) [] acts = some (sys, hist)) :
    ∃ st sys', run step init hist = .ok st ∧
      act step N { sys with up := false } .open_ = some sys' ∧
      sys'.st = st ∧ (∀ e ∈ hist, e.1 < sys'.next) ∧ Good step init N hist sys' := by
  have good := reachable_good step init N acts _ _ (good_empty step init N) sys hist h
  have gc : Good step init N hist { sys with up := false } :=
    ⟨good.ginv, good.sorted, good.placed, good.runs, by simp⟩
  obtain ⟨st, hst⟩ := good.runs
  obtain ⟨next, hr, h1, h2, h3⟩ := recover_eq step init N hist sys.g good.ginv st hst
  refine ⟨st, { sys with up := true, st := st, next := next }, hst, ?_, rfl, h1, ?_⟩
  · simp [act, hr]
  · exact ⟨good.ginv, good.sorted, good.placed, ⟨st, hst⟩, fun _ => ⟨hst, h1, h3, h2⟩⟩

/-- **C02 (records).** While a handle is open its in-memory state IS the state after the logged
    history; a clean close followed by open reproduces exactly that state and continues with a
    fresh version. -/
theorem C02_reopen_transparent_records (step : S → R → Except E S) (init : S) (N : Nat)
    (acts : List (Act R)) (sys : Sys S R) (hist : Recs R)
    (h : runActs step N (emptySys init) [] acts = some (sys, hist)) (hup : sys.up = true) :
    ∃ sys1 sys2, act step N sys .close = some sys1 ∧ act step N sys1 .open_ = some sys2 ∧
      sys2.st = sys.st ∧ sys2.g = sys.g ∧ (∀ e ∈ hist, e.1 < sys2.next) := by
  have good := reachable_good step init N acts _ _ (good_empty step init N) sys hist h
  obtain ⟨hrun, _, _, _⟩ := good.mem hup
  obtain ⟨next, hr, h1, _, _⟩ := recover_eq step init N hist sys.g good.ginv sys.st hrun
  exact ⟨{ sys with up := false }, { sys with up := true, st := sys.st, next := next },
    rfl, by simp [act, hr], rfl, rfl, h1⟩

/-- **C20 (records).** At every instant of every action sequence: versions in the history are
    strictly increasing (never reused, also across restarts); every record sits in the segment
    `(version-1)/N`; segments are in id order; the snapshot holds the state after exactly the
    records up to its version; and every logged record above the snapshot version is still present
    in the segments, in order. -/
theorem C20_wellformed_records (step : S → R → Except E S) (init : S) (N : Nat)
    (acts : List (Act R)) (sys : Sys S R) (hist : Recs R)
    (h : runActs step N (emptySys init) [] acts = some (sys, hist)) :
    Incr hist ∧
    (∀ s ∈ sys.g.segs, ∀ e ∈ s.2, segOf N e.1 = s.1) ∧
    SegSorted sys.g.segs ∧
    run step init (upto sys.g.snapVer hist) = .ok sys.g.snapState ∧
    above sys.g.snapVer (flat sys.g.segs) = above sys.g.snapVer hist := by
  have good := reachable_good step init N acts _ _ (good_empty step init N) sys hist h
  exact ⟨good.ginv.incr, good.placed, good.sorted, good.ginv.snap, good.ginv.recs⟩

/-! non-vacuity: N = 2, three appends with a crash, a rollover checkpoint and a prune in between -/
example :
    ∃ sys hist, runActs (fun (s : List Nat) (r : Nat) => (Except.ok (s ++ [r]) : Except Unit (List Nat))) 2
      (emptySys []) [] [.open_, .ensure, .append 10, .append 11, .crash, .open_, .ensure, .append 12,
        .install, .prune 0, .crash, .open_] = some (sys, hist) ∧
      sys.st = [10, 11, 12] ∧ sys.next = 4 ∧ sys.g.segs = [(1, [(3, 12)])] ∧ sys.g.snapVer = 3 :=
  ⟨_, _, rfl, rfl, rfl, rfl, rfl⟩

end CasModel.Ghost
