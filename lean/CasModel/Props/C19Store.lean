import CasModel.Props.C19
import CasModel.Proofs.OpenSim
/-
  C19, second half: the pre-creation choice made at creation is what every later open uses.
  For an existing settings file that passes the gate, the handle's `preCreated` flag is the STORED
  flag, whatever `pre_create_cas_dirs` the caller passes now; and the open creates no directory
  tree.  (That the flag is unobservable — a put creates the directories it needs iff the stored
  flag says they are not all there — is `mkdirsFor` in `finishScript`; compared on every reopen
  with the other flag by slice c19.)
-/
namespace CasModel

theorem settingsGate_existing (cfg : Config) (d : Disk) (f : File) (ver : Nat) (pre : Bool) (n : Nat)
    (hf : d.get .settings = some f) (hp : parseSettings f.data = some (ver, pre, n)) :
    settingsGate cfg d =
      if ver ≠ 4 then .error .unsupportedVersion
      else if n ≠ cfg.N then .error .validation else .ok ([], pre) := by
  unfold settingsGate
  simp only [hf, hp]

/-- **C19 (remembered).** -/
theorem C19_precreate_remembered (H : Bytes → Bytes) (cfg : Config) (d : Disk) (f : File)
    (pre : Bool) (hf : d.get .settings = some f)
    (hp : parseSettings f.data = some (4, pre, cfg.N)) (m : Mem) (sc : ScanOut)
    (hopen : (openBody H cfg d).2 = .ok (m, sc)) :
    m.preCreated = pre ∧ Ev.mkdirTree ∉ (openBody H cfg d).1 := by
  have hg : settingsGate cfg d = .ok ([], pre) := by
    rw [settingsGate_existing cfg d f 4 pre cfg.N hf hp]; simp
  cases hl : logical H cfg.kind (d.applyAll []) with
  | error e =>
    unfold openBody at hopen
    simp only [hg] at hopen
    simp only [hl] at hopen
    cases hopen
  | ok acc =>
    obtain ⟨ck, hck, hev, hmem⟩ := openBody_eq H cfg d [] pre acc hg hl
    have hm := hmem m sc hopen
    refine ⟨?_, ?_⟩
    · rw [hm, hck]
      split
      · unfold checkpointScript
        split <;> rfl
      · rfl
    · rw [hev]
      intro hmem'
      simp only [List.nil_append, List.mem_append] at hmem'
      rcases hmem' with h | h
      · split at h
        · cases h
        · simp only [List.mem_cons, List.not_mem_nil, or_false] at h
          rcases h with h | h <;> cases h
      · rw [hck] at h
        split at h
        · unfold checkpointScript at h
          split at h
          · cases h
          · simp only [List.mem_append, List.mem_cons, List.not_mem_nil, or_false] at h
            rcases h with (h | h | h | h) | h
            · cases h
            · cases h
            · cases h
            · cases h
            · split at h
              · cases h
              · simp only [List.mem_map] at h
                obtain ⟨j, _, hj⟩ := h
                cases hj
        · cases h

end CasModel
