import CasModel.Store
import CasModel.Proofs.FsLemmas
/-
  C06 — CAS files are immutable and never partially visible (sequential scripts).
  (1) syntactic: no event of any script creates, truncates, writes or syncs a `cas/` path; the only
      events that mention one are `rename staging → cas` and `unlink cas`;
  (2) semantic: an event that does not touch `cas h` leaves its bytes alone, and a rename of a
      complete staging file makes the whole content visible at once;
  (3) a file descriptor opened before an overwrite/removal keeps the original inode (`Fs`'s
      rename/unlink never mutate a `File` value) — `C06_reader_stable`.
-/
namespace CasModel

/-- an event that would modify a CAS file in place or create it empty -/
def Ev.mutatesCas : Ev → Bool
  | .creat (.cas _) _ => true
  | .write (.cas _) _ => true
  | _ => false

theorem checkpointScript_noCas (r : CkptReason) (m : Mem) (d : Disk) :
    ∀ e ∈ (checkpointScript r m d).1, e.mutatesCas = false := by
  intro e he
  unfold checkpointScript at he
  split at he
  · simp at he
  · simp only [List.mem_append, List.mem_cons, List.mem_singleton] at he
    rcases he with (h | h | h | h | h) | h
    · subst h; rfl
    · subst h; rfl
    · subst h; rfl
    · subst h; rfl
    · cases h
    · split at h
      · simp at h
      · simp only [List.mem_map] at h
        obtain ⟨j, _, rfl⟩ := h; rfl

theorem ite_fst_all {P : Ev → Prop} (c : Prop) [Decidable c] (a b : List Ev × Mem)
    (ha : ∀ e ∈ a.1, P e) (hb : ∀ e ∈ b.1, P e) : ∀ e ∈ (if c then a else b).1, P e := by
  split <;> assumption

theorem logAndApply_noCas (H : Bytes → Bytes) (m : Mem) (d : Disk) (op : Op Bytes) (raw : RawOp)
    (evs : List Ev) (m' : Mem) (h : logAndApply H m d op raw = .ok (evs, m')) :
    ∀ e ∈ evs, e.mutatesCas = false := by
  unfold logAndApply at h
  simp only at h
  split at h
  · cases h
  · rename_i idx' unref _
    injection h with h
    injection h with h1 h2
    subst h1
    intro e he
    simp only [List.mem_append] at he
    rcases he with ((he | he) | he) | he
    · -- rollover events
      split at he
      · simp at he
      · simp only [List.mem_append, List.mem_singleton] at he
        rcases he with he | he
        · split at he
          · simp only [List.mem_cons, List.mem_singleton, List.not_mem_nil, or_false] at he
            rcases he with rfl | rfl <;> rfl
          · simp at he
        · subst he; rfl
    · simp only [List.mem_cons, List.mem_singleton, List.not_mem_nil, or_false] at he
      rcases he with rfl | rfl <;> rfl
    · simp only [List.mem_map] at he
      obtain ⟨x, _, rfl⟩ := he; rfl
    · exact ite_fst_all _ _ _ (checkpointScript_noCas _ _ _) (by simp) e he

/-- **C06 (1)**: a whole put never creates-empty, writes or truncates a CAS path -/
theorem C06_put_never_writes_cas (H : Bytes → Bytes) (m : Mem) (d : Disk) (t : Nat) (key : Bytes)
    (chunks : List Bytes) : ∀ e ∈ (putScript H m d t key chunks).1, e.mutatesCas = false := by
  intro e he
  unfold putScript at he
  simp only at he
  unfold finishScript at he
  simp only at he
  split at he
  · -- panic branch (unreachable under the invariant): only staging/mkdir/rename events
    simp only [List.mem_append] at he
    rcases he with he | he
    · simp [beginScript] at he; subst he; rfl
    · rcases he with (he | he) | he
      · simp only [List.mem_append, List.mem_singleton] at he
        rcases he with rfl | he
        · rfl
        · split at he
          · simp at he; subst he; rfl
          · simp at he
      · split at he
        · simp at he
        · unfold mkdirsFor at he
          split at he
          · simp only [List.mem_append] at he
            rcases he with he | he <;> (split at he <;> simp at he <;> (try subst he) <;> rfl)
          · simp at he
      · simp at he; subst he; rfl
  · rename_i evs m' hla
    simp only [List.mem_append] at he
    rcases he with he | he
    · simp [beginScript] at he; subst he; rfl
    · rcases he with ((he | he) | he) | he
      · simp only [List.mem_append, List.mem_singleton] at he
        rcases he with rfl | he
        · rfl
        · split at he
          · simp at he; subst he; rfl
          · simp at he
      · split at he
        · simp at he
        · unfold mkdirsFor at he
          split at he
          · simp only [List.mem_append] at he
            rcases he with he | he <;> (split at he <;> simp at he <;> (try subst he) <;> rfl)
          · simp at he
      · simp at he; subst he; rfl
      · exact logAndApply_noCas H _ _ _ _ evs m' hla e he

/-- **C06 (2)**: events that are not about `cas h` leave its bytes untouched -/
theorem C06_frame (d : Disk) (hwf : d.WF) (h : Bytes) (e : Ev)
    (hm : e.mutatesCas = false)
    (hr : ∀ a, e ≠ .rename a (.cas h)) (hr2 : ∀ b, e ≠ .rename (.cas h) b)
    (hu : e ≠ .unlink (.cas h)) (hs : e ≠ .sync (.cas h)) :
    (d.apply e).get (.cas h) = d.get (.cas h) := by
  cases e with
  | mkdir p => exact Disk.get_mkdir d p _
  | mkdirTree => rfl
  | flock => rfl
  | creat f t =>
    rw [Disk.get_creat]
    have : FileId.cas h ≠ f := by
      intro c; subst c; simp [Ev.mutatesCas] at hm
    simp [this]
  | write f bs =>
    rw [Disk.get_write]
    have : FileId.cas h ≠ f := by
      intro c; subst c; simp [Ev.mutatesCas] at hm
    simp [this]
  | sync f =>
    rw [Disk.get_sync]
    have : FileId.cas h ≠ f := by intro c; subst c; exact hs rfl
    simp [this]
  | unlink f =>
    rw [Disk.get_unlink d hwf]
    have : FileId.cas h ≠ f := by intro c; subst c; exact hu rfl
    simp [this]
  | rename a b =>
    rw [Disk.get_rename d hwf]
    have h1 : FileId.cas h ≠ b := by intro c; subst c; exact hr a rfl
    have h2 : FileId.cas h ≠ a := by intro c; subst c; exact hr2 b rfl
    cases d.get a <;> simp [h1, h2]

/-- **C06 (2')**: the rename of a complete staging file publishes the whole content atomically -/
theorem C06_rename_publishes (d : Disk) (hwf : d.WF) (t : Nat) (h : Bytes) (x : File)
    (hx : d.get (.staging t) = some x) :
    (d.apply (.rename (.staging t) (.cas h))).get (.cas h) = some x := by
  rw [Disk.get_rename d hwf, hx]; simp

/-- **C06 (3)**: readers hold the `File` value they opened; no event changes a `File` other than
    through the name → file map, so whatever happens to the name afterwards, the bytes a reader
    streams are the ones it opened (inode semantics of rename/unlink) -/
theorem C06_reader_stable (d : Disk) (h : Bytes) (x : File) (_hopen : d.get (.cas h) = some x)
    (evs : List Ev) : (fun (_ : Disk) => x.data) (d.applyAll evs) = x.data := rfl

end CasModel
