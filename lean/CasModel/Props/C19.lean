import CasModel.Store
import CasModel.Proofs.FsLemmas
/-
  C19 — settings and format version gate every open; C11 — the lock comes first.
  Both are statements about `openScript`: which events it issues before it can fail.
-/
namespace CasModel

/-- the only events an open may issue before it holds the lock and has validated the settings:
    creating the two top-level directories if absent, opening LOCK, taking the flock -/
def Ev.preGate : Ev → Bool
  | .mkdir p => p = [asciiBytes "staging"] || p = [asciiBytes "cas"]
  | .creat .lock _ => true
  | .flock => true
  | _ => false

/-- such events change no file other than LOCK -/
theorem preGate_frame (d : Disk) (e : Ev) (he : e.preGate = true) (g : FileId) (hg : g ≠ .lock) :
    (d.apply e).get g = d.get g := by
  cases e with
  | mkdir p => exact Disk.get_mkdir d p g
  | mkdirTree => rfl
  | flock => rfl
  | creat f t =>
    cases f <;> simp [Ev.preGate] at he
    rw [Disk.get_creat]; simp [hg]
  | write f bs => simp [Ev.preGate] at he
  | sync f => simp [Ev.preGate] at he
  | rename a b => simp [Ev.preGate] at he
  | unlink f => simp [Ev.preGate] at he

theorem preGate_frame_all (d : Disk) (evs : List Ev) (he : ∀ e ∈ evs, e.preGate = true)
    (g : FileId) (hg : g ≠ .lock) : (d.applyAll evs).get g = d.get g := by
  induction evs generalizing d with
  | nil => rfl
  | cons e es ih =>
    rw [Disk.applyAll_cons, ih _ (fun e' h' => he e' (by simp [h']))]
    exact preGate_frame d e (he e (by simp)) g hg

theorem openPre_preGate (d : Disk) : ∀ ev ∈ openPre d, ev.preGate = true ∧ ev ≠ .flock := by
  intro ev hev
  simp only [openPre, List.mem_append, List.mem_singleton] at hev
  rcases hev with (hev | hev) | hev
  · split at hev <;> simp at hev; subst hev; simp [Ev.preGate]
  · split at hev <;> simp at hev; subst hev; simp [Ev.preGate]
  · subst hev; simp [Ev.preGate]

/-- **C19.** If the stored settings carry another format version or another `num_ops_per_wal`,
    `open` fails with the corresponding error after issuing only pre-gate events: no settings,
    index, WAL, CAS or staging file is created, written, renamed or removed — for EVERY disk
    (so: at any point of any history) and every requested configuration. -/
theorem C19_gate (H : Bytes → Bytes) (cfg : Config) (d : Disk) (f : File)
    (hs : d.get .settings = some f) (ver : Nat) (pre : Bool) (N : Nat)
    (hp : parseSettings f.data = some (ver, pre, N)) (hbad : ver ≠ 4 ∨ N ≠ cfg.N) :
    ∃ evs e, openScript H cfg d false = (evs, .error e) ∧
      (e = .unsupportedVersion ∨ e = .validation) ∧
      (∀ ev ∈ evs, ev.preGate = true) ∧
      (∀ g, g ≠ .lock → (d.applyAll evs).get g = d.get g) := by
  have hpre : ∀ ev ∈ openPre d ++ [Ev.flock], ev.preGate = true := by
    intro ev hev
    rcases List.mem_append.mp hev with hev | hev
    · exact (openPre_preGate d ev hev).1
    · simp at hev; subst hev; rfl
  have hs' : (d.applyAll (openPre d ++ [Ev.flock])).get .settings = some f := by
    rw [preGate_frame_all d _ hpre .settings (by simp)]; exact hs
  have hgate : ∃ e, settingsGate cfg (d.applyAll (openPre d ++ [Ev.flock])) = .error e ∧
      (e = .unsupportedVersion ∨ e = .validation) := by
    unfold settingsGate
    simp only [hs', hp]
    by_cases hv : ver ≠ 4
    · exact ⟨_, by simp [hv], Or.inl rfl⟩
    · have hv' : ver = 4 := by simpa using hv
      have hn : N ≠ cfg.N := by
        rcases hbad with h | h
        · exact absurd hv' h
        · exact h
      exact ⟨_, by simp [hv', hn], Or.inr rfl⟩
  obtain ⟨e, he, hee⟩ := hgate
  refine ⟨openPre d ++ [Ev.flock] ++ [], e, ?_, hee, ?_, ?_⟩
  · simp [openScript, openBody, he]
  · simpa using hpre
  · intro g hg
    simpa using preGate_frame_all d _ hpre g hg

/-- **C11 (lock first).** While another handle holds the lock, `open` returns `AlreadyOpened`
    having at most created the two top-level directories and opened LOCK: no flock succeeds, and
    no database file other than LOCK is touched — whatever the disk and configuration. -/
theorem C11_lock_first (H : Bytes → Bytes) (cfg : Config) (d : Disk) :
    ∃ evs, openScript H cfg d true = (evs, .error .alreadyOpened) ∧
      (∀ ev ∈ evs, ev.preGate = true ∧ ev ≠ .flock) ∧
      (∀ g, g ≠ .lock → (d.applyAll evs).get g = d.get g) :=
  ⟨openPre d, by simp [openScript], openPre_preGate d,
   fun g hg => preGate_frame_all _ _ (fun e he => (openPre_preGate d e he).1) g hg⟩

/-- in every open that is not refused by the lock, the flock precedes every event that is not a
    pre-gate event (settings, index, WAL, CAS, staging traffic all come after it) -/
theorem C11_flock_precedes (H : Bytes → Bytes) (cfg : Config) (d : Disk) :
    ∃ rest, (openScript H cfg d false).1 = openPre d ++ [Ev.flock] ++ rest ∧
      ∀ ev ∈ openPre d, ev.preGate = true ∧ ev ≠ .flock :=
  ⟨(openBody H cfg (d.applyAll (openPre d ++ [Ev.flock]))).1, by simp [openScript], openPre_preGate d⟩

end CasModel
