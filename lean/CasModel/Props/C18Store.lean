import CasModel.Props.C06
import CasModel.Props.C12
/-
  C18 (chunk independence) and the store-level "read your write" lemma shared by C01 / C07.
-/
namespace CasModel

/-- **C18.** Everything a commit does depends on the chunk list only through its concatenation:
    same bytes, however split (empty chunks, one chunk, many) ⇒ same events, same memory, same
    result; the recorded size is the length of the concatenation and the hash is `H` of it. -/
theorem C18_chunk_independent (H : Bytes → Bytes) (m : Mem) (d : Disk) (t : Nat) (key : Bytes)
    (c1 c2 : List Bytes) (h : c1.flatten = c2.flatten) :
    finishScript H m d t key c1 = finishScript H m d t key c2 := by
  have hs : (c1.map List.length).sum = (c2.map List.length).sum := by
    rw [← List.length_flatten, ← List.length_flatten, h]
  unfold finishScript
  simp only [h, hs]

theorem C18_put_chunk_independent (H : Bytes → Bytes) (m : Mem) (d : Disk) (t : Nat) (key : Bytes)
    (c1 c2 : List Bytes) (h : c1.flatten = c2.flatten) :
    putScript H m d t key c1 = putScript H m d t key c2 := by
  unfold putScript
  simp only [C18_chunk_independent H m _ t key c1 c2 h]

/-- events that leave the file `cas h` alone -/
def Ev.sparesCas (h : Bytes) : Ev → Bool
  | .creat (.cas _) _ => false
  | .write (.cas _) _ => false
  | .sync (.cas x) => x != h
  | .unlink (.cas x) => x != h
  | .rename a b => a != .cas h && b != .cas h
  | _ => true

theorem sparesCas_frame (d : Disk) (hwf : d.WF) (h : Bytes) (e : Ev) (he : e.sparesCas h = true) :
    (d.apply e).get (.cas h) = d.get (.cas h) := by
  apply C06_frame d hwf h e
  · cases e <;> simp [Ev.mutatesCas] <;> (rename_i f _; cases f <;> simp [Ev.sparesCas] at he ⊢)
  · intro a c; subst c; simp [Ev.sparesCas] at he
  · intro b c; subst c; simp [Ev.sparesCas] at he
  · intro c; subst c; simp [Ev.sparesCas] at he
  · intro c; subst c; simp [Ev.sparesCas] at he

theorem sparesCas_frame_all (d : Disk) (hwf : d.WF) (h : Bytes) (evs : List Ev)
    (he : ∀ e ∈ evs, e.sparesCas h = true) :
    (d.applyAll evs).get (.cas h) = d.get (.cas h) := by
  induction evs generalizing d with
  | nil => rfl
  | cons e es ih =>
    rw [Disk.applyAll_cons, ih _ (Disk.apply_WF d hwf e) (fun e' h' => he e' (by simp [h']))]
    exact sparesCas_frame d hwf h e (he e (by simp))

end CasModel

namespace CasModel

theorem checkpointScript_spares (r : CkptReason) (m : Mem) (d : Disk) (h : Bytes) :
    ∀ e ∈ (checkpointScript r m d).1, e.sparesCas h = true := by
  intro e he
  unfold checkpointScript at he
  split at he
  · simp at he
  · simp only [List.mem_append, List.mem_cons, List.mem_singleton] at he
    rcases he with (h' | h' | h' | h' | h') | h'
    · subst h'; rfl
    · subst h'; rfl
    · subst h'; rfl
    · subst h'; rfl
    · cases h'
    · split at h'
      · simp at h'
      · simp only [List.mem_map] at h'
        obtain ⟨j, _, rfl⟩ := h'; rfl

theorem ite_fst_all' {P : Ev → Prop} (c : Prop) [Decidable c] (a b : List Ev × Mem)
    (ha : ∀ e ∈ a.1, P e) (hb : ∀ e ∈ b.1, P e) : ∀ e ∈ (if c then a else b).1, P e := by
  split <;> assumption

/-- a checkpoint changes only `last_persisted_version` and the serialized-size statistic -/
theorem checkpointScript_mem (r : CkptReason) (m : Mem) (d : Disk) :
    let m' := (checkpointScript r m d).2
    m'.idx.map = m.idx.map ∧ m'.idx.rc = m.idx.rc ∧ m'.cfg = m.cfg ∧
    m'.idx.uniqueBlobs = m.idx.uniqueBlobs ∧ m'.idx.totalBytes = m.idx.totalBytes ∧
    m'.next = m.next ∧ m'.active = m.active ∧ m'.preCreated = m.preCreated := by
  unfold checkpointScript
  cases ckptTarget r m.next m.idx.lastPersisted <;> simp

theorem ite_snd {P : Mem → Prop} (c : Prop) [Decidable c] (a b : List Ev × Mem)
    (ha : P a.2) (hb : P b.2) : P (if c then a else b).2 := by
  split <;> assumption

/-- shape of a successful `logAndApply`: its events spare every CAS file that is not in the
    unreferenced list of the applied operation -/
theorem logAndApply_spec (H : Bytes → Bytes) (m : Mem) (d : Disk) (op : Op Bytes) (raw : RawOp)
    (idx' : IndexState Bytes) (unref : List Bytes)
    (happ : applyOp m.cfg.kind.lt m.idx op = .ok (idx', unref)) :
    ∃ evs m', logAndApply H m d op raw = .ok (evs, m') ∧
      (m'.idx.map = idx'.map ∧ m'.idx.rc = idx'.rc ∧ m'.cfg = m.cfg ∧
       m'.idx.uniqueBlobs = idx'.uniqueBlobs ∧ m'.idx.totalBytes = idx'.totalBytes) ∧
      ∀ h, h ∉ unref → ∀ e ∈ evs, e.sparesCas h = true := by
  unfold logAndApply
  simp only [happ]
  refine ⟨_, _, rfl, ?_, ?_⟩
  · apply ite_snd (P := fun m' => m'.idx.map = idx'.map ∧ m'.idx.rc = idx'.rc ∧ m'.cfg = m.cfg ∧
       m'.idx.uniqueBlobs = idx'.uniqueBlobs ∧ m'.idx.totalBytes = idx'.totalBytes)
    · have := checkpointScript_mem .rollover
        { m with idx := idx', next := m.next + 1, active := some (segOf m.cfg.N m.next) }
      simp only at this
      obtain ⟨a, b, c, d1, e, _⟩ := this _
      exact ⟨a, b, c, d1, e⟩
    · exact ⟨rfl, rfl, rfl, rfl, rfl⟩
  · intro h hn e he
    simp only [List.mem_append] at he
    rcases he with ((he | he) | he) | he
    · split at he
      · simp at he
      · simp only [List.mem_append, List.mem_singleton] at he
        rcases he with he | he
        · split at he
          · simp only [List.mem_cons, List.mem_singleton, List.not_mem_nil, or_false] at he
            rcases he with rfl | rfl <;> rfl
          · simp at he
        · subst he; rfl
    · simp only [List.mem_cons, List.mem_singleton, List.not_mem_nil, or_false] at he
      rcases he with rfl | rfl <;> rfl
    · simp only [List.mem_map, List.mem_filter] at he
      obtain ⟨x, ⟨hx, _⟩, rfl⟩ := he
      simp only [Ev.sparesCas, bne_iff_ne, ne_eq]
      intro c; subst c; exact hn hx
    · exact ite_fst_all' _ _ _ (checkpointScript_spares _ _ _ h) (by simp) e he

end CasModel

namespace CasModel

theorem mkdirsFor_spares (d : Disk) (h h' : Bytes) : ∀ e ∈ mkdirsFor d h, e.sparesCas h' = true := by
  intro e he
  unfold mkdirsFor at he
  split at he
  · simp only [List.mem_append] at he
    rcases he with he | he <;> (split at he <;> simp at he <;> subst he <;> rfl)
  · simp at he

/-- **read your write (C01 / C18 / C07 "nothing less")**: from any state satisfying the index
    invariant, on any well-formed disk, a put with any chunking commits without panic;
    afterwards the key maps to `(H content, |content|)`, every other key is unchanged, and the
    file `cas/(H content)` holds exactly `content` (whatever blobs the operation reclaimed). -/
theorem C01_put_then_get (H : Bytes → Bytes) (sz : Bytes → Nat) (m : Mem)
    (so : StrictOrder m.cfg.kind.lt) (inv : IdxInv m.cfg.kind.lt sz m.idx)
    (d : Disk) (hwf : d.WF) (t : Nat) (key : Bytes) (chunks : List Bytes)
    (hsz : sz (H chunks.flatten) = chunks.flatten.length)
    (hfresh : d.get (.staging t) = none) :
    ∃ evs m', putScript H m d t key chunks = (evs, m', .ok) ∧
      IdxInv m.cfg.kind.lt sz { m'.idx with lastPersisted := m.idx.lastPersisted, serializedSize := m.idx.serializedSize } ∧
      kLookup m'.idx.map key = some ⟨H chunks.flatten, chunks.flatten.length⟩ ∧
      (∀ k', k' ≠ key → kLookup m'.idx.map k' = kLookup m.idx.map k') ∧
      (∃ x, (d.applyAll evs).get (.cas (H chunks.flatten)) = some x ∧ x.data = chunks.flatten ∧
            (m.cfg.sync = true → x.synced = x.data.length)) := by
  have hlen : (chunks.map List.length).sum = chunks.flatten.length := by
    rw [List.length_flatten]
  obtain ⟨idx', unref, happ, ok, hl⟩ := applyOp_spec so sz m.idx inv
    (.put key (H chunks.flatten) chunks.flatten.length) hsz.symm
  -- the new blob's hash is referenced afterwards, hence not in the unreferenced list
  have hkey : kLookup idx'.map key = some ⟨H chunks.flatten, chunks.flatten.length⟩ := by
    rw [hl key]; simp [specApply]
  have hnot : H chunks.flatten ∉ unref := by
    intro hin
    have := ((ok.unref _).mp hin).2
    have hp := countHash_pos_of_lookup hkey
    simp only at hp
    omega
  unfold putScript finishScript
  simp only [hlen]
  generalize hd1 : (d.applyAll (beginScript t)).applyAll
      ([Ev.write (.staging t) chunks.flatten] ++ (if m.cfg.sync then [Ev.sync (.staging t)] else []) ++
        (if m.preCreated then [] else mkdirsFor (d.applyAll (beginScript t)) (H chunks.flatten)) ++
        [Ev.rename (.staging t) (.cas (H chunks.flatten))]) = d1
  obtain ⟨evs2, m2, hla, ⟨hm1, hm2, hm3, hm4, hm5⟩, hsp⟩ := logAndApply_spec H m d1
    (.put key (H chunks.flatten) chunks.flatten.length)
    (.put key (H chunks.flatten) chunks.flatten.length) idx' unref happ
  simp only [hla]
  refine ⟨_, _, rfl, ?_, ?_, ?_, ?_⟩
  · have := ok.inv
    exact ⟨by simpa [hm1] using this.sorted, by simpa [hm1] using this.mapSz,
           by simpa [hm2] using this.rcNodup, by simpa [hm1, hm2] using this.rcOK,
           by simpa [hm2, hm4] using this.unique, by simpa [hm2, hm5] using this.total⟩
  · rw [hm1]; exact hkey
  · intro k' hk'; rw [hm1, hl k']; simp [specApply, hk']
  · -- file content: staged, renamed into place, then spared by everything that follows
    have w0 := Disk.applyAll_WF d hwf (beginScript t)
    -- state of the staging file right before the rename
    have hstage : ∃ x, ((d.applyAll (beginScript t)).applyAll
        ([Ev.write (.staging t) chunks.flatten] ++ (if m.cfg.sync then [Ev.sync (.staging t)] else []) ++
         (if m.preCreated then [] else mkdirsFor (d.applyAll (beginScript t)) (H chunks.flatten)))).get
          (.staging t) = some x ∧ x.data = chunks.flatten ∧
          (m.cfg.sync = true → x.synced = x.data.length) := by
      have h0 : (d.applyAll (beginScript t)).get (.staging t) = some ⟨[], 0⟩ := by
        simp only [beginScript, Disk.applyAll, List.foldl]
        rw [Disk.get_creat]; simp [hfresh]
      have h1 : ((d.applyAll (beginScript t)).apply (.write (.staging t) chunks.flatten)).get (.staging t)
          = some ⟨chunks.flatten, 0⟩ := by
        rw [Disk.get_write]; simp [h0]
      -- sync (optional) keeps the data; mkdirs do not touch files
      have hmk : ∀ (dd : Disk) (l : List Ev), (∀ e ∈ l, ∃ p, e = .mkdir p) → ∀ g, (dd.applyAll l).get g = dd.get g := by
        intro dd l hl' g
        induction l generalizing dd with
        | nil => rfl
        | cons e es ih =>
          obtain ⟨p, rfl⟩ := hl' e (by simp)
          rw [Disk.applyAll_cons, ih _ (fun e' h' => hl' e' (by simp [h'])), Disk.get_mkdir]
      have hmkdirs : ∀ e ∈ (if m.preCreated then [] else mkdirsFor (d.applyAll (beginScript t)) (H chunks.flatten)),
          ∃ p, e = Ev.mkdir p := by
        intro e he
        split at he
        · simp at he
        · unfold mkdirsFor at he
          split at he
          · simp only [List.mem_append] at he
            rcases he with he | he <;> (split at he <;> simp at he <;> exact ⟨_, he⟩)
          · simp at he
      rw [Disk.applyAll_append, hmk _ _ hmkdirs, Disk.applyAll_append]
      by_cases hs : m.cfg.sync = true
      · simp only [hs, ↓reduceIte, Disk.applyAll, List.foldl]
        rw [Disk.get_sync]
        simp only [↓reduceIte]
        simp only [Disk.applyAll, List.foldl] at h1
        rw [h1]
        exact ⟨_, rfl, rfl, fun _ => rfl⟩
      · simp only [hs, Bool.false_eq_true, ↓reduceIte, Disk.applyAll, List.foldl]
        simp only [Disk.applyAll, List.foldl] at h1
        exact ⟨_, h1, rfl, fun c => by simp at c⟩
    obtain ⟨x, hx, hxd, hxs⟩ := hstage
    refine ⟨x, ?_, hxd, hxs⟩
    rw [Disk.applyAll_append, Disk.applyAll_append]
    have wmid := Disk.applyAll_WF _ w0
        ([Ev.write (.staging t) chunks.flatten] ++ (if m.cfg.sync then [Ev.sync (.staging t)] else []) ++
         (if m.preCreated then [] else mkdirsFor (d.applyAll (beginScript t)) (H chunks.flatten)) ++
         [Ev.rename (.staging t) (.cas (H chunks.flatten))])
    rw [hd1] at wmid ⊢
    rw [sparesCas_frame_all d1 wmid _ evs2 (hsp _ hnot)]
    rw [← hd1, Disk.applyAll_append]
    simp only [Disk.applyAll, List.foldl]
    have wpre := Disk.applyAll_WF _ w0
        ([Ev.write (.staging t) chunks.flatten] ++ (if m.cfg.sync then [Ev.sync (.staging t)] else []) ++
         (if m.preCreated then [] else mkdirsFor (d.applyAll (beginScript t)) (H chunks.flatten)))
    simp only [Disk.applyAll] at wpre hx
    exact C06_rename_publishes _ wpre t _ x hx

end CasModel
