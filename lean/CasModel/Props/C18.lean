import CasModel.Path
/-
  C18 — hash ↔ path is a bijection (the chunk-independence half of C18 lives in Props/C18Store:
  it is about the transaction model).
-/
namespace CasModel

theorem fromHexDigit_hexDigit (n : Nat) (h : n < 16) : fromHexDigit (hexDigit n) = some n := by
  have : n = 0 ∨ n = 1 ∨ n = 2 ∨ n = 3 ∨ n = 4 ∨ n = 5 ∨ n = 6 ∨ n = 7 ∨ n = 8 ∨ n = 9 ∨ n = 10
      ∨ n = 11 ∨ n = 12 ∨ n = 13 ∨ n = 14 ∨ n = 15 := by omega
  rcases this with h|h|h|h|h|h|h|h|h|h|h|h|h|h|h|h <;> subst h <;> rfl

theorem toHex_length (h : Bytes) : (toHex h).length = 2 * h.length := by
  induction h with
  | nil => rfl
  | cons b bs ih => simp [toHex, ih]; omega

theorem decodeHex_toHex (h : Bytes) : decodeHex (toHex h) = some h := by
  induction h with
  | nil => rfl
  | cons b bs ih =>
    have hb := b.toNat_lt
    simp only [toHex, decodeHex, fromHexDigit_hexDigit (b.toNat / 16) (by omega),
      fromHexDigit_hexDigit (b.toNat % 16) (by omega), ih]
    have : b.toNat / 16 * 16 + b.toNat % 16 = b.toNat := by omega
    simp [this]

theorem relativePath_concat (h : Bytes) :
    List.take 2 (toHex h) ++ (List.take 2 (List.drop 2 (toHex h)) ++ List.drop 4 (toHex h))
      = toHex h := by
  rw [← List.append_assoc]
  have : List.take 2 (toHex h) ++ List.take 2 (List.drop 2 (toHex h)) = List.take 4 (toHex h) := by
    rw [show (4:Nat) = 2 + 2 from rfl, List.take_add]
  rw [this, List.take_append_drop]

/-- every canonical path parses back to its hash -/
theorem C18_path_roundtrip (h : Bytes) (h32 : h.length = 32) :
    fromRelativePath (relativePath h) = some h := by
  have hc := relativePath_concat h
  simp only [fromRelativePath, relativePath, List.reverse_cons, List.reverse_nil, List.nil_append,
    List.cons_append]
  rw [hc, toHex_length, h32]
  simp [decodeHex_toHex]

/-- also with any leading components (`/var/data/cas/...`) -/
theorem C18_path_roundtrip_prefixed (pre : List Bytes) (h : Bytes) (h32 : h.length = 32) :
    fromRelativePath (pre ++ relativePath h) = some h := by
  have := C18_path_roundtrip h h32
  simp only [fromRelativePath, relativePath, List.reverse_append, List.reverse_cons,
    List.reverse_nil, List.nil_append, List.cons_append] at this ⊢
  exact this

/-- distinct hashes give distinct paths -/
theorem C18_path_injective (h1 h2 : Bytes) (l1 : h1.length = 32) (l2 : h2.length = 32)
    (heq : relativePath h1 = relativePath h2) : h1 = h2 := by
  have a := C18_path_roundtrip h1 l1
  rw [heq, C18_path_roundtrip h2 l2] at a
  exact (Option.some.inj a).symm

/-- shape of a canonical path: three components of 2, 2 and 60 lower-case hex digits -/
theorem C18_path_shape (h : Bytes) (h32 : h.length = 32) :
    ∃ a b c, relativePath h = [a, b, c] ∧ a.length = 2 ∧ b.length = 2 ∧ c.length = 60 := by
  refine ⟨_, _, _, rfl, ?_, ?_, ?_⟩ <;> simp [toHex_length, h32]

/-- the canonical acceptor (scan_orphans after the F5 repair) accepts exactly the canonical paths -/
theorem fromCanonicalPath_iff (comps : List Bytes) (h : Bytes) (h32 : h.length = 32) :
    fromCanonicalPath comps = some h ↔ comps = relativePath h := by
  constructor
  · intro hc
    unfold fromCanonicalPath at hc
    split at hc
    · rename_i h' _
      split at hc
      · rename_i heq; injection hc with hc; subst hc; exact heq.symm
      · cases hc
    · cases hc
  · intro hc
    subst hc
    simp [fromCanonicalPath, C18_path_roundtrip h h32]

/-- F5 witness: the un-repaired parser accepts a non-canonical split of the same digits -/
theorem fromRelativePath_accepts_noncanonical :
    ∃ comps h, fromRelativePath comps = some h ∧ comps ≠ relativePath h := by
  refine ⟨[toHex (List.replicate 2 0xab), toHex [0xab], toHex (List.replicate 29 0xab)],
          List.replicate 32 0xab, by rfl, by decide⟩

example : relativePath (List.replicate 32 0x12) =
    [[49,50],[49,50], (List.replicate 30 [49,50]).flatten] := by rfl

end CasModel
