import CasModel.Props.C01Closed

/-!
# C02 and C13 in closed form

Corollaries of `C01_closed` (from an empty directory, no usage guard, settings or reachability
assumption): a clean restart anywhere, and an abandoned transaction anywhere, change no read of any
later moment — stated as two runs, one with and one without the restart / the abandoned
transaction, that answer every `get` alike.
-/
namespace CasModel
open Ghost

variable (H : Bytes → Bytes) (sz : Bytes → Nat)

theorem foldl_mapStepL_skip (kind : KeyKind) (a b : List LOp) (x : LOp)
    (hx : ∀ s, mapStepL kind s x = s) (s : Spec) :
    (a ++ x :: b).foldl (mapStepL kind) s = (a ++ b).foldl (mapStepL kind) s := by
  simp only [List.foldl_append, List.foldl_cons, hx]

/-- the shape shared by both corollaries: inserting a step that does nothing to the ordered map
    (`reopen`, `abandon c`, `checkpoint`) at ANY position of ANY completed history changes no read
    at the end -/
theorem C01_closed_insert (hH : Hash32 H) (P : Bytes → Prop) (hinj : Inj H sz P) (cfg : Config)
    (hN : 0 < cfg.N) (hN64 : cfg.N < 2 ^ 64) (d : Disk) (e : EmptyDir d)
    (a b : List LOp) (x : LOp) (hxc : x.completed = true) (hxs : SmallOpAll cfg.kind P x)
    (hx : ∀ s, mapStepL cfg.kind s x = s)
    (hb : (a ++ x :: b).length + 3 ≤ 2 ^ 15)
    (hops : ∀ op ∈ a ++ b, SmallOpAll cfg.kind P op) (hc : ∀ op ∈ a ++ b, op.completed = true) :
    ∃ m0 sc, (openBody H cfg d).2 = .ok (m0, sc) ∧
      ∃ m₁ d₁ t₁ m₂ d₂ t₂,
        lRun H cfg m0 (d.applyAll (openBody H cfg d).1) 0 (a ++ x :: b) = some (m₁, d₁, t₁) ∧
        lRun H cfg m0 (d.applyAll (openBody H cfg d).1) 0 (a ++ b) = some (m₂, d₂, t₂) ∧
        ∀ k, getBlob m₁ d₁ k = getBlob m₂ d₂ k := by
  have hops' : ∀ op ∈ a ++ x :: b, SmallOpAll cfg.kind P op := by
    intro op hop
    simp only [List.mem_append, List.mem_cons] at hop
    rcases hop with h | rfl | h
    · exact hops op (by simp [h])
    · exact hxs
    · exact hops op (by simp [h])
  have hc' : ∀ op ∈ a ++ x :: b, op.completed = true := by
    intro op hop
    simp only [List.mem_append, List.mem_cons] at hop
    rcases hop with h | rfl | h
    · exact hc op (by simp [h])
    · exact hxc
    · exact hc op (by simp [h])
  have hlen : (a ++ b).length + 3 ≤ 2 ^ 15 := by
    simp only [List.length_append, List.length_cons] at hb ⊢; omega
  obtain ⟨m0, sc, hres, m₁, d₁, t₁, hr₁, hread₁⟩ :=
    C01_closed H sz hH P hinj cfg hN hN64 d e (a ++ x :: b) hb hops' hc'
  obtain ⟨m0', sc', hres', m₂, d₂, t₂, hr₂, hread₂⟩ :=
    C01_closed H sz hH P hinj cfg hN hN64 d e (a ++ b) hlen hops hc
  rw [hres] at hres'; injection hres' with hres'; injection hres' with e1 _; subst e1
  refine ⟨m0, sc, hres, m₁, d₁, t₁, m₂, d₂, t₂, hr₁, hr₂, ?_⟩
  intro k
  rw [hread₁ k, hread₂ k, foldl_mapStepL_skip cfg.kind a b x hx]

/-- **C02, closed**: a clean restart at any position of any completed history changes no read -/
theorem C02_closed (hH : Hash32 H) (P : Bytes → Prop) (hinj : Inj H sz P) (cfg : Config)
    (hN : 0 < cfg.N) (hN64 : cfg.N < 2 ^ 64) (d : Disk) (e : EmptyDir d) (a b : List LOp)
    (hb : (a ++ LOp.reopen :: b).length + 3 ≤ 2 ^ 15)
    (hops : ∀ op ∈ a ++ b, SmallOpAll cfg.kind P op) (hc : ∀ op ∈ a ++ b, op.completed = true) :
    ∃ m0 sc, (openBody H cfg d).2 = .ok (m0, sc) ∧
      ∃ m₁ d₁ t₁ m₂ d₂ t₂,
        lRun H cfg m0 (d.applyAll (openBody H cfg d).1) 0 (a ++ LOp.reopen :: b) = some (m₁, d₁, t₁) ∧
        lRun H cfg m0 (d.applyAll (openBody H cfg d).1) 0 (a ++ b) = some (m₂, d₂, t₂) ∧
        ∀ k, getBlob m₁ d₁ k = getBlob m₂ d₂ k :=
  C01_closed_insert H sz hH P hinj cfg hN hN64 d e a b .reopen rfl trivial (fun _ => rfl) hb hops hc

/-- **C13, closed**: a transaction abandoned after any writes, at any position of any completed
    history, changes no read -/
theorem C13_closed (hH : Hash32 H) (P : Bytes → Prop) (hinj : Inj H sz P) (cfg : Config)
    (hN : 0 < cfg.N) (hN64 : cfg.N < 2 ^ 64) (d : Disk) (e : EmptyDir d) (a b : List LOp)
    (content : Bytes)
    (hb : (a ++ LOp.abandon content :: b).length + 3 ≤ 2 ^ 15)
    (hops : ∀ op ∈ a ++ b, SmallOpAll cfg.kind P op) (hc : ∀ op ∈ a ++ b, op.completed = true) :
    ∃ m0 sc, (openBody H cfg d).2 = .ok (m0, sc) ∧
      ∃ m₁ d₁ t₁ m₂ d₂ t₂,
        lRun H cfg m0 (d.applyAll (openBody H cfg d).1) 0 (a ++ LOp.abandon content :: b) = some (m₁, d₁, t₁) ∧
        lRun H cfg m0 (d.applyAll (openBody H cfg d).1) 0 (a ++ b) = some (m₂, d₂, t₂) ∧
        ∀ k, getBlob m₁ d₁ k = getBlob m₂ d₂ k :=
  C01_closed_insert H sz hH P hinj cfg hN hN64 d e a b (.abandon content) rfl trivial (fun _ => rfl) hb hops hc

end CasModel
