import CasModel.Props.C07Seq
import CasModel.Props.C03Store
import CasModel.Proofs.OpenSim
import CasModel.Props.C08Clean
import CasModel.Props.C18
/-
  C02 at STORE level: a clean restart is transparent for the whole store, not only for the key map.
  `C02_reopen_keeps_store`: drop the handle of a store that satisfies the sequential store
  invariant (`SInv`: every key reads exactly its content; `NoGarbage`, `NoStaging`: nothing else is
  on disk) and is tied to the WAL machine, and open it again: the new handle satisfies the same
  invariants for the SAME specification map — every key reads exactly the same content, reference
  counts and statistics are those of the same key map (`IdxInv`), no blob file appeared or
  disappeared — and is tied again, so histories continue through restarts
  (`runOps`/`C07_sequential_exact` apply from the reopened state).
  Argument: `C02_reopen_transparent_bytes` (same key map, index invariant, tied) + no event of
  close/open mentions a cas/ or staging/ path (`openBody_quiet`).
-/
namespace CasModel
open Ghost

/-- nothing `open` does (after the lock) mentions a blob or a staging file -/
theorem openBody_quiet (H : Bytes → Bytes) (cfg : Config) (d0 : Disk) :
    ∀ e ∈ (openBody H cfg d0).1, (∀ g, e.sparesCas g = true) ∧ (∀ t, e.touches (.staging t) = false) ∧
      (∀ p, e.touches (.stray p) = false) := by
  have hgate : ∀ e1 pre, settingsGate cfg d0 = .ok (e1, pre) →
      ∀ e ∈ e1, (∀ g, e.sparesCas g = true) ∧ (∀ t, e.touches (.staging t) = false) ∧
      (∀ p, e.touches (.stray p) = false) := by
    intro e1 pre hg e he
    unfold settingsGate at hg
    split at hg
    · split at hg
      · cases hg
      · split at hg
        · cases hg
        · split at hg
          · cases hg
          · injection hg with hg; injection hg with h1 _; subst h1; cases he
    · injection hg with hg; injection hg with h1 _; subst h1
      simp only [List.mem_append, List.mem_cons, List.not_mem_nil, or_false] at he
      rcases he with he | he | he | he | he
      · split at he
        · unfold preCreateEvents at he
          split at he
          · cases he
          · simp only [List.mem_singleton] at he; subst he; exact ⟨fun _ => rfl, fun _ => rfl, fun _ => rfl⟩
        · cases he
      · subst he; exact ⟨fun _ => rfl, fun _ => rfl, fun _ => rfl⟩
      · subst he; exact ⟨fun _ => rfl, fun _ => rfl, fun _ => rfl⟩
      · subst he; exact ⟨fun _ => rfl, fun _ => rfl, fun _ => rfl⟩
      · subst he; exact ⟨fun _ => rfl, fun _ => rfl, fun _ => rfl⟩
  have hck : ∀ (r : CkptReason) (mm : Mem) (dd : Disk), ∀ e ∈ (checkpointScript r mm dd).1,
      (∀ g, e.sparesCas g = true) ∧ (∀ t, e.touches (.staging t) = false) ∧
      (∀ p, e.touches (.stray p) = false) := by
    intro r mm dd e he
    refine ⟨fun g => checkpointScript_spares r mm dd g e he, ?_⟩
    unfold checkpointScript at he
    split at he
    · cases he
    · simp only [List.mem_append, List.mem_cons, List.not_mem_nil, or_false] at he
      rcases he with (rfl | rfl | rfl | rfl) | he
      · exact ⟨fun _ => rfl, fun _ => rfl⟩
      · exact ⟨fun _ => rfl, fun _ => rfl⟩
      · exact ⟨fun _ => rfl, fun _ => rfl⟩
      · exact ⟨fun _ => rfl, fun _ => rfl⟩
      · split at he
        · cases he
        · simp only [List.mem_map] at he
          obtain ⟨j, _, rfl⟩ := he
          exact ⟨fun _ => rfl, fun _ => rfl⟩
  intro e he
  cases hg : settingsGate cfg d0 with
  | error err =>
    have : (openBody H cfg d0).1 = [] := by simp [openBody, hg]
    rw [this] at he; cases he
  | ok r =>
    obtain ⟨e1, pre⟩ := r
    cases hl : logical H cfg.kind (d0.applyAll e1) with
    | error err =>
      have : (openBody H cfg d0).1 = e1 := by simp [openBody, hg, hl]
      rw [this] at he
      exact hgate e1 pre hg e he
    | ok acc =>
      obtain ⟨ck, hck', hev, _⟩ := openBody_eq H cfg d0 e1 pre acc hg hl
      rw [hev] at he
      rcases List.mem_append.mp he with he | he
      · rcases List.mem_append.mp he with he | he
        · exact hgate e1 pre hg e he
        · split at he
          · cases he
          · simp only [List.mem_cons, List.not_mem_nil, or_false] at he
            rcases he with rfl | rfl <;> exact ⟨fun _ => rfl, fun _ => rfl, fun _ => rfl⟩
      · rw [hck'] at he
        split at he
        · exact hck _ _ _ e he
        · cases he

variable (H : Bytes → Bytes) (kind : KeyKind) (sz : Bytes → Nat) (N : Nat)

/-- **C02 (store level): drop and reopen keeps the whole store.** -/
theorem C02_reopen_keeps_store (so : StrictOrder kind.lt) (hH : Hash32 H) (m : Mem)
    (sys : Sys (KMap Bytes) Bytes) (hist : Recs Bytes) (d : Disk)
    (t : Tied H kind sz N m sys hist d) (spec : Spec) (tn : Nat)
    (inv : SInv H sz m d spec tn) (ng : NoGarbage m d) (ns : NoStaging d)
    (cfg : Config) (hk : cfg.kind = kind) (hn : cfg.N = N)
    (ho : OpenOK H kind cfg (d.applyAll (closeScript m))) :
    ∃ m2 sys2, (∀ m' sc, (openBody H cfg (d.applyAll (closeScript m))).2 = .ok (m', sc) → m' = m2) ∧
      Tied H kind sz N m2 sys2 hist ((d.applyAll (closeScript m)).applyAll
        (openBody H cfg (d.applyAll (closeScript m))).1) ∧
      SInv H sz m2 ((d.applyAll (closeScript m)).applyAll
        (openBody H cfg (d.applyAll (closeScript m))).1) spec tn ∧
      NoGarbage m2 ((d.applyAll (closeScript m)).applyAll
        (openBody H cfg (d.applyAll (closeScript m))).1) ∧
      NoStaging ((d.applyAll (closeScript m)).applyAll
        (openBody H cfg (d.applyAll (closeScript m))).1) := by
  obtain ⟨m2, sys2, h1, hmap, t2⟩ :=
    C02_reopen_transparent_bytes H kind sz N so hH m sys hist d t cfg hk hn ho
  -- no event of close + open mentions a blob or a staging file
  have hquiet : ∀ e ∈ closeScript m ++ (openBody H cfg (d.applyAll (closeScript m))).1,
      (∀ g, e.sparesCas g = true) ∧ (∀ t, e.touches (.staging t) = false) ∧
      (∀ p, e.touches (.stray p) = false) := by
    intro e he
    rcases List.mem_append.mp he with he | he
    · unfold closeScript at he
      split at he
      · simp only [List.mem_singleton] at he; subst he; exact ⟨fun _ => rfl, fun _ => rfl, fun _ => rfl⟩
      · cases he
    · exact openBody_quiet H cfg _ e he
  have hcas : ∀ g, ((d.applyAll (closeScript m)).applyAll
      (openBody H cfg (d.applyAll (closeScript m))).1).get (.cas g) = d.get (.cas g) := by
    intro g
    rw [← Disk.applyAll_append]
    exact sparesCas_frame_all d inv.wf g _ (fun e he => (hquiet e he).1 g)
  have hst : ∀ t', ((d.applyAll (closeScript m)).applyAll
      (openBody H cfg (d.applyAll (closeScript m))).1).get (.staging t') = d.get (.staging t') := by
    intro t'
    rw [← Disk.applyAll_append]
    exact get_untouched_all d inv.wf _ _ (fun e he => (hquiet e he).2.1 t')
  have hkind : m2.cfg.kind = m.cfg.kind := by rw [t2.kindEq, t.kindEq]
  refine ⟨m2, sys2, h1, t2, ?_, ?_, ?_⟩
  · refine ⟨by rw [hkind]; exact inv.so, by rw [hkind, t.kindEq]; exact t2.inv, ?_, ?_, ?_⟩
    · rw [← Disk.applyAll_append]; exact Disk.applyAll_WF d inv.wf _
    · intro k
      have := inv.agree k
      rw [hmap]
      cases h3 : kLookup m.idx.map k with
      | none =>
        rw [h3] at this
        cases h4 : spec k with
        | none => trivial
        | some c => rw [h4] at this; exact this.elim
      | some item =>
        rw [h3] at this
        cases h4 : spec k with
        | none => rw [h4] at this; exact this.elim
        | some c =>
          rw [h4] at this
          simp only at this ⊢
          obtain ⟨a, b, x, hx, hd⟩ := this
          exact ⟨a, b, x, by rw [hcas]; exact hx, hd⟩
    · intro t' ht'; rw [hst]; exact inv.fresh t' ht'
  · intro g x hx
    rw [hcas] at hx
    rw [hmap]; exact ng g x hx
  · intro t'; rw [hst]; exact ns t'


/-! ### the integrity gate at the end of `open` finds nothing to complain about -/

theorem fget_of_mem_wf (fs : List (FileId × File)) (hn : FKeysNodup fs) (f : FileId) (x : File)
    (h : (f, x) ∈ fs) : fget fs f = some x := by
  induction fs with
  | nil => cases h
  | cons e fs ih =>
    obtain ⟨g, z⟩ := e
    have hn' := (FKeysNodup_cons g z fs).mp hn
    simp only [fget]
    rcases List.mem_cons.mp h with h | h
    · injection h with h1 h2; subst h1 h2; simp
    · have : g ≠ f := by
        intro c; subst c
        exact hn'.1 (List.mem_map.mpr ⟨(g, x), h, rfl⟩)
      simp only [this, ↓reduceIte]
      exact ih hn'.2 h

theorem expectedSize_of_all (m : KMap Bytes) (h : Bytes) (n : Nat)
    (hall : ∀ e ∈ m, e.2.hash = h → e.2.size = n) (hex : ∃ e ∈ m, e.2.hash = h) :
    expectedSize m h = some n := by
  unfold expectedSize
  -- fold invariant: the accumulator is `none` until an entry with hash `h` is met, `some n` after
  have key : ∀ (l : List (Bytes × Item)) (acc : Option Nat),
      (∀ e ∈ l, e.2.hash = h → e.2.size = n) → (acc = some n ∨ (acc = none ∧ ∃ e ∈ l, e.2.hash = h)) →
      l.foldl (fun acc e => if e.2.hash = h then some e.2.size else acc) acc = some n := by
    intro l
    induction l with
    | nil =>
      intro acc _ hacc
      rcases hacc with x | ⟨_, e, he, _⟩
      · exact x
      · cases he
    | cons a l ih =>
      intro acc hl hacc
      simp only [List.foldl_cons]
      apply ih _ (fun e he => hl e (by simp [he]))
      by_cases c : a.2.hash = h
      · left; simp [c, hl a (by simp) c]
      · simp only [c, ↓reduceIte]
        rcases hacc with x | ⟨x, e, he, heh⟩
        · exact Or.inl x
        · right
          refine ⟨x, ?_⟩
          rcases List.mem_cons.mp he with he | he
          · subst he; exact absurd heh c
          · exact ⟨e, he, heh⟩
  exact key m none hall (Or.inr ⟨rfl, hex⟩)

/-- **a store in its sequential invariants passes the integrity gate**: the scan reports no
    missing and no corrupted blob (with or without verification) -/
theorem scan_clean (H : Bytes → Bytes) (sz : Bytes → Nat) (hH : Hash32 H) (P : Bytes → Prop)
    (hinj : Inj H sz P) (verify : Bool) (m : Mem) (d : Disk) (spec : Spec) (tn : Nat)
    (inv : SInv H sz m d spec tn) (hspecP : ∀ k c, spec k = some c → P c)
    (ng : NoGarbage m d) (nostray : ∀ p, d.get (.stray p) = none) :
    (scanCanonical H verify m.idx d).missing = [] ∧ (scanCanonical H verify m.idx d).corrupted = [] := by
  -- every referenced hash: its key, its content, its file
  have href : ∀ h, 0 < countHash m.idx.map h →
      ∃ c x, h = H c ∧ P c ∧ d.get (.cas h) = some x ∧ x.data = c := by
    intro h hpos
    obtain ⟨e, he, heh⟩ := (countHash_pos_iff _ _).mp hpos
    have hl := mem_kLookup inv.so inv.idx.sorted (k := e.1) (v := e.2) he
    have := inv.agree e.1
    rw [hl] at this
    cases hs : spec e.1 with
    | none => rw [hs] at this; exact this.elim
    | some c =>
      rw [hs] at this
      simp only at this
      obtain ⟨a, _, x, hx, hd⟩ := this
      exact ⟨c, x, by rw [← heh, a], hspecP _ _ hs, by rw [← heh]; exact hx, hd⟩
  have h32 : ∀ h, 0 < countHash m.idx.map h → h.length = 32 := by
    intro h hp
    obtain ⟨c, _, e, _⟩ := href h hp
    rw [e]; exact hH c
  -- a file of the scanned tree at the canonical path of a referenced hash is that hash's blob file
  have htree : ∀ h content, 0 < countHash m.idx.map h → (relativePath h, content) ∈ treeFiles d →
      ∃ x, d.get (.cas h) = some x ∧ x.data = content := by
    intro h content hp hin
    simp only [treeFiles, List.mem_filterMap] at hin
    obtain ⟨⟨f, x⟩, hmem, hf⟩ := hin
    cases f with
    | cas h' =>
      simp only [Option.some.injEq, Prod.mk.injEq] at hf
      obtain ⟨hp', hc⟩ := hf
      have hget : d.get (.cas h') = some x := by
        unfold Disk.get
        exact fget_of_mem_wf d.files inv.wf _ _ hmem
      have hp2 := ng h' x hget
      have : h' = h := C18_path_injective h' h (h32 h' hp2) (h32 h hp) hp'
      subst this
      exact ⟨x, hget, hc⟩
    | stray p =>
      exfalso
      have hget : d.get (.stray p) = some x := by
        unfold Disk.get
        exact fget_of_mem_wf d.files inv.wf _ _ hmem
      rw [nostray p] at hget; cases hget
    | _ => simp at hf
  constructor
  · apply List.eq_nil_iff_forall_not_mem.mpr
    intro h hm
    have hd : h ∈ distinctHashes m.idx.map := by
      simp only [scanCanonical, scanTree, List.mem_filter] at hm; exact hm.1
    have hpos : 0 < countHash m.idx.map h := by
      rw [countHash_pos_iff]
      simp only [distinctHashes, List.mem_eraseDups, List.mem_map] at hd
      obtain ⟨e, he, heh⟩ := hd
      exact ⟨e, he, heh⟩
    have := (C08_missing_exact H verify m.idx.map (treeFiles d) h (h32 h hpos)).mp
      (by simpa [scanCanonical] using hm)
    obtain ⟨_, x, _, _, hx, _⟩ := href h hpos
    apply this.2
    refine ⟨x.data, ?_⟩
    simp only [treeFiles, List.mem_filterMap]
    exact ⟨(.cas h, x), fget_mem d.files _ _ hx, rfl⟩
  · apply List.eq_nil_iff_forall_not_mem.mpr
    intro h hm
    -- a corrupted report names a referenced hash
    have hm' : h ∈ (scanTree H verify m.idx.map (treeFiles d)).corrupted := by
      simpa [scanCanonical] using hm
    have hrefd : refd m.idx.map h = true := by
      simp only [scanTree, List.mem_filterMap, List.mem_map] at hm'
      obtain ⟨c, ⟨f, _, rfl⟩, hc⟩ := hm'
      split at hc
      · rename_i h' heq; injection hc with hc; subst hc
        exact ((classify_corrupt H verify m.idx.map f h').mp heq).2.2.1
      · cases hc
    have hpos := (refd_iff_count _ _).mp hrefd
    obtain ⟨_, _, content, hin, hbad⟩ :=
      (C08_corrupted_exact H verify m.idx.map (treeFiles d) h (h32 h hpos)).mp hm'
    obtain ⟨x, hx, hxc⟩ := htree h content hpos hin
    obtain ⟨c, x', hc, hPc, hx', hd'⟩ := href h hpos
    rw [hx] at hx'; injection hx' with hx'; subst hx'
    rcases hbad with hb | hb
    · apply hb
      rw [← hxc, hd']
      have hsz : sz h = c.length := by rw [hc]; exact hinj.2 c hPc
      rw [expectedSize_of_all m.idx.map h (sz h)
        (fun e he heh => by rw [inv.idx.mapSz e he, heh])
        ((countHash_pos_iff _ _).mp hpos), hsz]
    · apply hb
      rw [← hxc, hd', hc]


variable (H : Bytes → Bytes) (kind : KeyKind) (sz : Bytes → Nat) (N : Nat)

/-- **C02 (store level): a clean restart succeeds and is transparent.**  Drop the handle of a
    store that is tied to the WAL machine and satisfies the sequential invariants (every key reads
    its content, nothing else under cas/ or staging/), open the directory again (once the settings
    gate passes): `open` RETURNS A HANDLE — the replay reaches no panic site and the integrity scan
    finds neither a missing nor a corrupted blob, with or without verification — whose key map is
    the old one, which satisfies the same invariants for the same specification, and is tied again. -/
theorem C02_reopen_succeeds (so : StrictOrder kind.lt) (hH : Hash32 H) (m : Mem)
    (sys : Sys (KMap Bytes) Bytes) (hist : Recs Bytes) (d : Disk)
    (t : Tied H kind sz N m sys hist d) (spec : Spec) (tn : Nat)
    (inv : SInv H sz m d spec tn) (ng : NoGarbage m d) (ns : NoStaging d)
    (nostray : ∀ p, d.get (.stray p) = none)
    (P : Bytes → Prop) (hinj : Inj H sz P) (hspecP : ∀ k c, spec k = some c → P c)
    (cfg : Config) (hk : cfg.kind = kind) (hn : cfg.N = N)
    (ho : OpenOK H kind cfg (d.applyAll (closeScript m))) :
    ∃ m2 sys2 sc, (openBody H cfg (d.applyAll (closeScript m))).2 = .ok (m2, sc) ∧
      sc.missing = [] ∧ sc.corrupted = [] ∧ m2.idx.map = m.idx.map ∧
      Tied H kind sz N m2 sys2 hist ((d.applyAll (closeScript m)).applyAll
        (openBody H cfg (d.applyAll (closeScript m))).1) ∧
      SInv H sz m2 ((d.applyAll (closeScript m)).applyAll
        (openBody H cfg (d.applyAll (closeScript m))).1) spec tn ∧
      NoGarbage m2 ((d.applyAll (closeScript m)).applyAll
        (openBody H cfg (d.applyAll (closeScript m))).1) ∧
      NoStaging ((d.applyAll (closeScript m)).applyAll
        (openBody H cfg (d.applyAll (closeScript m))).1) := by
  obtain ⟨e1, pre, hg, hsv⟩ := ho
  have hfree : ∀ e ∈ closeScript m, e.segFree = true ∧ e.indexFree = true := by
    intro e he
    unfold closeScript at he
    split at he
    · simp only [List.mem_singleton] at he; subst he; simp [Ev.segFree, Ev.indexFree]
    · cases he
  have c1 := (t.cfg.toDCfg.freeAll H kind sz N sys hist d (closeScript m) hfree).crash H kind sz N sys hist _
  obtain ⟨acc, _, hr, _, _, m2, sys2, _, hmap2, _, t2, hres⟩ :=
    open_sim_full H kind sz N so hH cfg hk hn _ hist _ c1 rfl e1 pre hg hsv
  have hmap : m2.idx.map = m.idx.map := by
    rw [hmap2]
    have hM := t.mem_eq H kind sz N
    rw [hM] at hr; injection hr with hr; exact hr.symm
  -- no event of close + open mentions a blob, a staging file or a stray file
  have hquiet : ∀ e ∈ closeScript m ++ (openBody H cfg (d.applyAll (closeScript m))).1,
      (∀ g, e.sparesCas g = true) ∧ (∀ t, e.touches (.staging t) = false) ∧
      (∀ p, e.touches (.stray p) = false) := by
    intro e he
    rcases List.mem_append.mp he with he | he
    · unfold closeScript at he
      split at he
      · simp only [List.mem_singleton] at he; subst he; exact ⟨fun _ => rfl, fun _ => rfl, fun _ => rfl⟩
      · cases he
    · exact openBody_quiet H cfg _ e he
  have hcas : ∀ g, ((d.applyAll (closeScript m)).applyAll
      (openBody H cfg (d.applyAll (closeScript m))).1).get (.cas g) = d.get (.cas g) := by
    intro g
    rw [← Disk.applyAll_append]
    exact sparesCas_frame_all d inv.wf g _ (fun e he => (hquiet e he).1 g)
  have hst : ∀ t', ((d.applyAll (closeScript m)).applyAll
      (openBody H cfg (d.applyAll (closeScript m))).1).get (.staging t') = d.get (.staging t') := by
    intro t'
    rw [← Disk.applyAll_append]
    exact get_untouched_all d inv.wf _ _ (fun e he => (hquiet e he).2.1 t')
  have hkind : m2.cfg.kind = m.cfg.kind := by rw [t2.kindEq, t.kindEq]
  have inv2 : SInv H sz m2 ((d.applyAll (closeScript m)).applyAll
      (openBody H cfg (d.applyAll (closeScript m))).1) spec tn := by
    refine ⟨by rw [hkind]; exact inv.so, by rw [hkind, t.kindEq]; exact t2.inv, ?_, ?_, ?_⟩
    · rw [← Disk.applyAll_append]; exact Disk.applyAll_WF d inv.wf _
    · intro k
      have := inv.agree k
      rw [hmap]
      cases h3 : kLookup m.idx.map k with
      | none =>
        rw [h3] at this
        cases h4 : spec k with
        | none => trivial
        | some c => rw [h4] at this; exact this.elim
      | some item =>
        rw [h3] at this
        cases h4 : spec k with
        | none => rw [h4] at this; exact this.elim
        | some c =>
          rw [h4] at this
          simp only at this ⊢
          obtain ⟨a, b, x, hx, hd⟩ := this
          exact ⟨a, b, x, by rw [hcas]; exact hx, hd⟩
    · intro t' ht'; rw [hst]; exact inv.fresh t' ht'
  have ng2 : NoGarbage m2 ((d.applyAll (closeScript m)).applyAll
      (openBody H cfg (d.applyAll (closeScript m))).1) := by
    intro g x hx
    rw [hcas] at hx
    rw [hmap]; exact ng g x hx
  -- stray files: none before, none created
  have hstray : ∀ p, ((d.applyAll (closeScript m)).applyAll
      (openBody H cfg (d.applyAll (closeScript m))).1).get (.stray p) = none := by
    intro p
    rw [← Disk.applyAll_append, get_untouched_all d inv.wf _ _ ?_]
    · exact nostray p
    · intro e he; exact (hquiet e he).2.2 p
  obtain ⟨hmiss, hcorr⟩ := scan_clean H sz hH P hinj cfg.verify m2 _ spec tn inv2 hspecP ng2 hstray
  rw [hmiss, hcorr] at hres
  simp only [ne_eq, not_true_eq_false, or_self, and_false, ↓reduceIte] at hres
  exact ⟨m2, sys2, _, hres, hmiss, hcorr, hmap, t2, inv2, ng2, fun t' => by rw [hst]; exact ns t'⟩

end CasModel
