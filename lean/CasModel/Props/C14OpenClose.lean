import CasModel.Props.C14Reopen
/-
  C14 for faults inside `open` and inside the drop of the handle, at byte level (images):
  * `C14_open_fault_image`: whatever call of `open` fails (every call is on a `?` path except the
    prunes of the after-replay checkpoint, whose errors are swallowed), the disk is left at a prefix
    of open's script — recoverable to the same history as before (`open_sim`: every prefix of the
    open script is), so the next `open` succeeds with the same key map.
  * `C14_close_fault_image`: errors of the final flush / sync are only logged; the retained bytes
    reach the file in any case (the dropped `BufWriter` flushes again); the disk is the fault-free
    close image possibly without the final sync — a configuration of the fault-free theory.
-/
namespace CasModel
open Ghost

variable (H : Bytes → Bytes) (kind : KeyKind) (sz : Bytes → Nat) (N : Nat)

theorem openPre_free (d : Disk) : ∀ e ∈ openPre d ++ [Ev.flock], e.segFree = true ∧ e.indexFree = true := by
  intro e he
  simp only [openPre, List.mem_append, List.mem_singleton] at he
  rcases he with ((he | he) | he) | he
  · split at he
    · cases he
    · simp only [List.mem_singleton] at he; subst he; simp [Ev.segFree, Ev.indexFree]
  · split at he
    · cases he
    · simp only [List.mem_singleton] at he; subst he; simp [Ev.segFree, Ev.indexFree]
  · subst he; simp [Ev.segFree, Ev.indexFree]
  · subst he; simp [Ev.segFree, Ev.indexFree]

theorem allPre_dfree (hists : List (Recs Bytes)) (d : Disk) (r : Recoverable H kind sz N hists d)
    (evs : List Ev) (h : ∀ e ∈ evs, e.segFree = true ∧ e.indexFree = true) :
    AllPre (Recoverable H kind sz N hists) d evs := by
  induction evs generalizing d with
  | nil => exact allPre_nil _ _ r
  | cons e evs ih =>
    refine allPre_cons (Recoverable H kind sz N hists) _ _ _ r ?_
    exact ih _ (r.freeAll H kind sz N hists d [e] (fun x hx => by
      simp only [List.mem_singleton] at hx; subst hx; exact h x (by simp)))
      (fun e' he' => h e' (by simp [he']))

/-- **a failed call inside `open` leaves a recoverable image** -/
theorem C14_open_fault_image (so : StrictOrder kind.lt) (hH : Hash32 H) (cfg : Config)
    (hk : cfg.kind = kind) (hn : cfg.N = N) (hist : Recs Bytes) (d : Disk)
    (r : Recoverable H kind sz N [hist] d)
    (e1 : List Ev) (pre : Bool)
    (hg : settingsGate cfg (d.applyAll (openPre d ++ [Ev.flock])) = .ok (e1, pre))
    (hsave : ∀ a, logical H kind ((d.applyAll (openPre d ++ [Ev.flock])).applyAll e1) = .ok a →
      SaveOK kind a.idx ∧ a.highest + 1 < U64) (k : Nat) :
    Recoverable H kind sz N [hist] (d.applyAll (faultOpen H cfg d k).1.events) := by
  have r0 := r.freeAll H kind sz N [hist] d _ (openPre_free d)
  obtain ⟨hist', hm, _, _, _, hpre, _⟩ :=
    open_of_recoverable H kind sz N so hH cfg hk hn [hist] _ r0 e1 pre hg hsave
  simp only [List.mem_singleton] at hm
  subst hm
  have hall : AllPre (Recoverable H kind sz N [hist']) d (openScript H cfg d false).1 := by
    simp only [openScript, Bool.false_eq_true, ↓reduceIte]
    exact allPre_append _ _ _ _ (allPre_dfree H kind sz N [hist'] d r _ (openPre_free d)) hpre
  unfold faultOpen
  generalize hos : openScript H cfg d false = os at hall
  obtain ⟨all, res⟩ := os
  simp only at hall ⊢
  cases hsp : (splitAtCounted k all).2.1 with
  | none =>
    simp only
    have := hall all.length
    rwa [List.take_length] at this
  | some e =>
    obtain ⟨t1, _⟩ := splitAtCounted_take k all e hsp
    have hcut : Recoverable H kind sz N [hist'] (d.applyAll (splitAtCounted k all).1) := by
      rw [t1]; exact hall _
    cases e with
    | unlink f => cases f <;> exact hcut
    | _ => exact hcut

/-- whatever call of the drop fails, the retained bytes are written (a failed flush is retried by
    the dropped `BufWriter`), followed by the final sync or by nothing -/
theorem faultClose_events (m : Mem) (k : Nat) :
    ∃ tail, (∀ e ∈ tail, e.segFree = true ∧ e.indexFree = true) ∧
      (faultClose m k).events = flushPart m ++ tail := by
  have hs : ∀ i, (Ev.sync (.seg i)).segFree = true ∧ (Ev.sync (.seg i)).indexFree = true := by
    intro i; simp [Ev.segFree, Ev.indexFree]
  unfold faultClose flushPart closeScript
  by_cases hw : m.walBuf.isEmpty = true
  · cases ha : m.active with
    | none => exact ⟨[], by simp, by simp [hw, splitAtCounted]⟩
    | some i =>
      cases k with
      | zero => exact ⟨[], by simp, by simp [hw, splitAtCounted, counted]⟩
      | succ k => exact ⟨[Ev.sync (.seg i)], by simpa using hs i, by simp [hw, splitAtCounted, counted]⟩
  · cases ha : m.active with
    | none => exact ⟨[], by simp, by simp [hw, splitAtCounted]⟩
    | some i =>
      cases k with
      | zero => exact ⟨[], by simp, by simp [hw, splitAtCounted, counted]⟩
      | succ k =>
        cases k with
        | zero => exact ⟨[], by simp, by simp [hw, splitAtCounted, counted]⟩
        | succ k => exact ⟨[Ev.sync (.seg i)], by simpa using hs i, by simp [hw, splitAtCounted, counted]⟩

/-- **a failed call while the handle is dropped**: the image is the close image, possibly without
    its final sync — a configuration of the fault-free theory replaying to the same key map -/
theorem C14_close_fault_image (so : StrictOrder kind.lt) (hH : Hash32 H) (m : Mem)
    (fs : FSys (KMap Bytes) Bytes) (h : Hist Bytes) (d : Disk) (t : FTied H kind sz N m fs h d)
    (hf : Fresh N fs) (k : Nat) :
    ∃ sys' hist' mp, DCfg H kind sz N sys' hist' (d.applyAll (faultClose m k).events) ∧
      sys'.up = false ∧ run (stepM kind) [] hist' = .ok mp ∧
      ∀ key, kLookup mp key = kLookup m.idx.map key ∨
        ∃ e ∈ h.failed, payloadEff kind e.2 key = some (kLookup mp key) := by
  obtain ⟨tail, hfree, hev⟩ := faultClose_events m k
  rw [hev]
  exact t.close_sim_gen H kind sz N so hH m fs h d hf tail hfree

end CasModel
