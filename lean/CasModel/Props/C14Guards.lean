import CasModel.Props.GuardsSat4
import CasModel.Props.C14Store
/-
  The guards of the C14 theorems (`ContAllOK`: the usage guards of every operation issued after a
  failed call) are discharged by the same size invariant as those of C03 (`Roomy`).
-/
namespace CasModel
open Ghost

theorem memAfterApply_next (m : Mem) (op : Op Bytes) :
    (memAfterApply m op).next ≤ m.next + 1 ∧ m.next ≤ (memAfterApply m op).next ∧
    (memAfterApply m op).cfg = m.cfg := by
  unfold memAfterApply
  split
  · exact ⟨Nat.le_succ _, Nat.le_refl _, rfl⟩
  · exact ⟨Nat.le_refl _, Nat.le_succ _, rfl⟩

theorem faultLogAndApply_next (H : Bytes → Bytes) (m : Mem) (op : Op Bytes) (raw : RawOp)
    (pre : List Ev) (e : Ev) :
    (faultLogAndApply H m op raw pre e).2.1.next ≤ m.next + 1 ∧
    m.next ≤ (faultLogAndApply H m op raw pre e).2.1.next ∧
    (faultLogAndApply H m op raw pre e).2.1.cfg = m.cfg := by
  have hma := memAfterApply_next m op
  unfold faultLogAndApply
  simp only
  split
  · split
    · exact ⟨Nat.le_refl _, Nat.le_succ _, rfl⟩
    · exact ⟨Nat.le_refl _, Nat.le_succ _, rfl⟩
  · split
    · exact ⟨Nat.le_refl _, Nat.le_succ _, rfl⟩
    · exact ⟨Nat.le_refl _, Nat.le_succ _, rfl⟩
  · exact ⟨Nat.le_refl _, Nat.le_succ _, rfl⟩
  · exact hma
  all_goals first | exact hma | exact ⟨Nat.le_succ _, Nat.le_refl _, rfl⟩

theorem faultPutCore_next (H : Bytes → Bytes) (m m' : Mem) (op : Op Bytes) (t : Nat)
    (head tailEvs : List Ev) (k : Nat) (hm' : m'.next = m.next + 1 ∧ m'.cfg = m.cfg) (m2 : Mem)
    (h : (faultPutCore H m m' op t head tailEvs k).mem = some m2) :
    m2.next ≤ m.next + 1 ∧ m.next ≤ m2.next ∧ m2.cfg = m.cfg := by
  unfold faultPutCore at h
  simp only at h
  split at h
  · simp only [Option.some.injEq] at h; subst h
    exact ⟨by rw [hm'.1]; exact Nat.le_refl _, by rw [hm'.1]; exact Nat.le_succ _, hm'.2⟩
  · split at h
    · simp only [Option.some.injEq] at h; subst h
      exact ⟨Nat.le_succ _, Nat.le_refl _, rfl⟩
    · simp only [Option.some.injEq] at h; subst h
      exact faultLogAndApply_next H m op _ _ _

variable (H : Bytes → Bytes) (kind : KeyKind) (sz : Bytes → Nat) (N : Nat)

/-- memory after a faulty put: the version counter moved by at most one, the configuration is
    unchanged -/
theorem faultPut_next (m : Mem) (hb : m.walBuf = [] ∧ m.protectedFailed = []) (d : Disk) (t : Nat)
    (key : Bytes) (chunks : List Bytes) (k : Nat) (m2 : Mem)
    (h : (faultPut H m d t key chunks k).mem = some m2) :
    m2.next ≤ m.next + 1 ∧ m.next ≤ m2.next ∧ m2.cfg = m.cfg := by
  unfold faultPut at h
  simp only at h
  split at h
  · simp only [Option.some.injEq] at h; subst h
    exact ⟨Nat.le_succ _, Nat.le_refl _, rfl⟩
  · rename_i tailEvs m' hany
    have hla : logAndApply H m
        (d.applyAll (((beginScript t ++ [Ev.write (.staging t) chunks.flatten] ++
              (if m.cfg.sync = true then [Ev.sync (.staging t)] else [])) ++
            (if m.preCreated = true then [] else mkdirsFor (d.applyAll (beginScript t)) (H chunks.flatten))) ++
          [Ev.rename (.staging t) (.cas (H chunks.flatten))]))
        (.put key (H chunks.flatten) (chunks.map List.length).sum)
        (.put key (H chunks.flatten) (chunks.map List.length).sum) = .ok (tailEvs, m') := by
      simpa [logAndApplyAny, hb.1, hb.2] using hany
    exact faultPutCore_next H m m' _ t _ tailEvs k
      ⟨logAndApply_next H m _ _ _ tailEvs m' hla, logAndApply_cfg H m _ _ _ tailEvs m' hla⟩ m2 h

theorem checkpointScript_fields (r : CkptReason) (mm : Mem) (dd : Disk) :
    (checkpointScript r mm dd).2.idx.map = mm.idx.map ∧ (checkpointScript r mm dd).2.next = mm.next ∧
    (checkpointScript r mm dd).2.cfg = mm.cfg := by
  unfold checkpointScript
  cases ckptTarget r mm.next mm.idx.lastPersisted <;> exact ⟨rfl, rfl, rfl⟩

/-- memory after a commit through the buffered path (a handle whose past contains a failed append) -/
theorem logAndApplyBuf_mem (m : Mem) (d : Disk) (op : Op Bytes) (raw : RawOp) (evs : List Ev) (m' : Mem)
    (h : logAndApplyBuf H m d op raw = .ok (evs, m')) :
    ∃ idx' unref, applyOp m.cfg.kind.lt m.idx op = .ok (idx', unref) ∧ m'.idx.map = idx'.map ∧
      m'.next = m.next + 1 ∧ m'.cfg = m.cfg := by
  unfold logAndApplyBuf at h
  simp only at h
  split at h
  · cases h
  · rename_i idx' unref ha
    refine ⟨idx', unref, ha, ?_⟩
    injection h with h; injection h with _ h2
    rw [← h2]
    have key : ∀ (c : Prop) [Decidable c] (x y : List Ev × Mem),
        (x.2.idx.map = idx'.map ∧ x.2.next = m.next + 1 ∧ x.2.cfg = m.cfg) →
        (y.2.idx.map = idx'.map ∧ y.2.next = m.next + 1 ∧ y.2.cfg = m.cfg) →
        ((if c then x else y).2.idx.map = idx'.map ∧ (if c then x else y).2.next = m.next + 1 ∧
          (if c then x else y).2.cfg = m.cfg) := by
      intro c _ x y hx hy; split <;> assumption
    exact key _ _ _ (checkpointScript_fields _ _ _) ⟨rfl, rfl, rfl⟩

theorem logAndApplyAny_mem (m : Mem) (d : Disk) (op : Op Bytes) (raw : RawOp) (evs : List Ev) (m' : Mem)
    (h : logAndApplyAny H m d op raw = .ok (evs, m')) :
    ∃ idx' unref, applyOp m.cfg.kind.lt m.idx op = .ok (idx', unref) ∧ m'.idx.map = idx'.map ∧
      m'.next = m.next + 1 ∧ m'.cfg = m.cfg := by
  unfold logAndApplyAny at h
  split at h
  · cases ha : applyOp m.cfg.kind.lt m.idx op with
    | error e => unfold logAndApply at h; simp [ha] at h
    | ok x =>
      obtain ⟨idx', unref⟩ := x
      obtain ⟨evs3, m3, hla3, ⟨hm1, _, hcfg, _, _⟩, _⟩ := logAndApply_spec H m d op raw idx' unref ha
      rw [h] at hla3; injection hla3 with hla3; injection hla3 with _ e2; subst e2
      exact ⟨idx', unref, rfl, hm1, logAndApply_next H m d op raw evs m' h, hcfg⟩
  · exact logAndApplyBuf_mem H m d op raw evs m' h

/-- one committed record through either path keeps the store roomy -/
theorem roomy_commitAny (b : Nat) (m : Mem) (r : Roomy kind b m) (hkind : m.cfg.kind = kind) (d : Disk)
    (op : Op Bytes) (raw : RawOp) (evs : List Ev) (m' : Mem)
    (h : logAndApplyAny H m d op raw = .ok (evs, m'))
    (hop : ∀ k hh size, op = .put k hh size → SmallKey kind k ∧ hh.length = 32 ∧ size < U64) :
    Roomy kind (b + 1) m' ∧ m'.cfg = m.cfg := by
  obtain ⟨idx', unref, ha, hm1, hn, hcfg⟩ := logAndApplyAny_mem H m d op raw evs m' h
  rw [hkind] at ha
  have hmap := applyOp_map kind.lt m.idx idx' _ unref ha
  obtain ⟨a1, a2, a3⟩ := roomy_step kind b m r op hop
  exact ⟨⟨by rw [hm1, hmap]; exact a1, by rw [hm1, hmap]; exact a2, by rw [hm1, hmap]; exact a3,
    by rw [hn]; have := r.next; omega⟩, hcfg⟩

/-- operations one would call reasonable, for the continuation after a failed call -/
def SmallCont (P : Bytes → Prop) : ContOp → Prop
  | .put _ k c => SmallKey kind k ∧ P c.flatten ∧ c.flatten.length < U64
  | .remove ks => ks.length ≤ 2 ^ 15 ∧ ∀ k ∈ ks, SmallKey kind k
  | .checkpoint => True

/-- `ContOp.OK` holds in every roomy state for a reasonable operation -/
theorem contOK_of_roomy (hH : Hash32 H) (P : Bytes → Prop) (hinj : Inj H sz P) (b : Nat) (m : Mem)
    (r : Roomy kind b m) (hb : b + 2 < U32) (op : ContOp) (hs : SmallCont kind P op) :
    op.OK H kind sz m := by
  have h3264 : U32 < U64 := by decide
  cases op with
  | put tn key chunks =>
    obtain ⟨hk, hP, hlen⟩ := hs
    obtain ⟨_, hraw, hval, hwf, hsave, hver⟩ := putOK_of_roomy H kind hH P b m r hb key chunks hk hP hlen
    have hsum : (chunks.map List.length).sum = chunks.flatten.length := by rw [List.length_flatten]
    exact ⟨hraw, hval, by rw [hsum, hinj.2 _ hP], hwf, hsave, hver⟩
  | remove keys =>
    obtain ⟨hl, hks⟩ := hs
    have hU : (2:Nat) ^ 15 * (2 ^ 16 + 4) + 5 < U32 := by decide
    have h15 : (2:Nat) ^ 15 < U32 := by decide
    have h16 : (2:Nat) ^ 16 < U32 := by decide
    refine ⟨⟨by omega, fun k hk => by have := (hks k hk).2; show k.length < U32; omega⟩, ?_, trivial,
      ⟨r.next.1, ?_, ?_, ?_⟩, ?_, ?_⟩
    · have : keys.all kind.valid = true := by
        simp only [List.all_eq_true]; intro k hk; exact (hks k hk).1
      simp [fromRaw, this]
    · show m.next < U64
      have := r.next.2; omega
    · simp [serWalOp]
    · show (serWalOp (.remove keys)).length < U32
      simp only [serWalOp, List.length_cons, List.length_append, leBytes_length]
      have h1 := serKeys_length_le keys (2 ^ 16) (fun k hk => (hks k hk).2)
      have h2 : keys.length * (2 ^ 16 + 4) ≤ 2 ^ 15 * (2 ^ 16 + 4) := Nat.mul_le_mul_right _ hl
      omega
    · intro idx' un ha
      have hmap := applyOp_map kind.lt m.idx idx' _ un ha
      obtain ⟨a1, a2, a3⟩ := roomy_step kind b m r (.remove keys) (by intro k hh size ho; cases ho)
      exact saveOK_of kind _ idx' hmap a1 a2 (by omega)
    · have := r.next.2; omega
  | checkpoint =>
    exact ⟨saveOK_of kind _ m.idx rfl r.keys r.ents (by have := r.count; omega), by have := r.next.2; omega⟩

/-- **`ContAllOK` holds for every sequence of reasonable operations from a roomy state** -/
theorem contAllOK_of_small (hH : Hash32 H) (P : Bytes → Prop) (hinj : Inj H sz P) (ops : List ContOp) :
    ∀ (b : Nat) (m : Mem) (d : Disk), Roomy kind b m → m.cfg.kind = kind → b + ops.length + 2 < U32 →
      (∀ op ∈ ops, SmallCont kind P op) → ContAllOK H kind sz m d ops := by
  induction ops with
  | nil => intro b m d _ _ _ _; trivial
  | cons op ops ih =>
    intro b m d r hkind hb hops
    simp only [List.length_cons] at hb
    have hs := hops op (by simp)
    refine ⟨contOK_of_roomy H kind sz hH P hinj b m r (by omega) op hs, ?_⟩
    intro evs m' hstep
    have hrest : ∀ o ∈ ops, SmallCont kind P o := fun o ho => hops o (by simp [ho])
    cases op with
    | put tn key chunks =>
      obtain ⟨hk, hP, hlen⟩ := hs
      have hsum : (chunks.map List.length).sum = chunks.flatten.length := by rw [List.length_flatten]
      simp only [contStep] at hstep
      split at hstep
      · cases hstep
      · rename_i tailEvs m2 hany
        injection hstep with hstep
        simp only [Prod.mk.injEq] at hstep
        obtain ⟨e1, e2⟩ := hstep
        subst e1 e2
        obtain ⟨r', hcfg⟩ := roomy_commitAny H kind b m r hkind _ _ _ tailEvs m2 hany (by
          intro k hh size ho
          injection ho with e1 e2 e3
          subst e1 e2 e3
          exact ⟨hk, hH _, by rw [hsum]; exact hlen⟩)
        exact ih (b + 1) m2 _ r' (by rw [hcfg]; exact hkind) (by omega) hrest
    | remove keys =>
      simp only [contStep] at hstep
      obtain ⟨r', hcfg⟩ := roomy_commitAny H kind b m r hkind d _ _ evs m' hstep
        (by intro k hh size ho; cases ho)
      exact ih (b + 1) m' _ r' (by rw [hcfg]; exact hkind) (by omega) hrest
    | checkpoint =>
      simp only [contStep] at hstep
      injection hstep with hstep
      have hf := checkpointScript_fields .explicit m d
      rw [hstep] at hf
      simp only at hf
      have r' : Roomy kind b m' :=
        ⟨by rw [hf.1]; exact r.keys, by rw [hf.1]; exact r.ents, by rw [hf.1]; exact r.count,
          by rw [hf.2.1]; exact r.next⟩
      exact ih b m' _ r' (by rw [hf.2.2]; exact hkind) (by omega) hrest

/-- **C14 (put), guards discharged**: in a roomy live store, ONE failing call at any position of a
    reasonable put, then ANY sequence of reasonable puts, removes (of up to 2^15 keys each) and
    checkpoints: none panics, memory is the sequential application of the acknowledged operations,
    and recovery of the final disk shows per key what memory holds or what the failed put would have
    written — with no usage guard left to assume. -/
theorem C14_put_fault_small (so : StrictOrder kind.lt) (hH : Hash32 H) (P : Bytes → Prop)
    (hinj : Inj H sz P) (b : Nat) (m : Mem)
    (sys : Sys (KMap Bytes) Bytes) (hist : Recs Bytes) (d : Disk)
    (t : Tied H kind sz N m sys hist d) (hbuf : m.walBuf = [] ∧ m.protectedFailed = [])
    (r : Roomy kind b m) (tn : Nat) (key : Bytes) (chunks : List Bytes) (hk : SmallKey kind key)
    (hP : P chunks.flatten) (hlen : chunks.flatten.length < U64) (k : Nat)
    (hreached : (faultPut H m d tn key chunks k).res ≠ .completed)
    (ops : List ContOp) (hb : b + ops.length + 4 < U32) (hops : ∀ op ∈ ops, SmallCont kind P op) :
    ∃ m2, (faultPut H m d tn key chunks k).mem = some m2 ∧
      ∃ m3 d3, contRun H m2 (d.applyAll (faultPut H m d tn key chunks k).events) ops = .ok (m3, d3) ∧
        m3.idx.map = (ops.map (ContOp.logged H)).foldl (applyLogged kind) m2.idx.map ∧
        ∃ a, logical H kind d3 = .ok a ∧ IdxInv kind.lt sz a.idx ∧
          ∀ key', kLookup a.idx.map key' = kLookup m3.idx.map key' ∨
            opEff (Op.put key (H chunks.flatten) (chunks.map List.length).sum) key' =
              some (kLookup a.idx.map key') := by
  obtain ⟨_, hraw, hval, hwf, hsave, hver⟩ := putOK_of_roomy H kind hH P b m r (by omega) key chunks hk hP hlen
  have hsum : (chunks.map List.length).sum = chunks.flatten.length := by rw [List.length_flatten]
  have hsz : (chunks.map List.length).sum = sz (H chunks.flatten) := by rw [hsum, hinj.2 _ hP]
  obtain ⟨m2, hm2, hmap, hall⟩ := C14_put_fault_contained H kind sz N so hH m sys hist d t hbuf tn key chunks
    hraw hval hsz hwf hsave hver k hreached
  obtain ⟨hn1, hn2, hcfg⟩ := faultPut_next H m hbuf d tn key chunks k m2 hm2
  have r2 : Roomy kind (b + 1) m2 := by
    obtain ⟨a1, a2, a3⟩ := roomy_step kind b m r (.put key (H chunks.flatten) (chunks.map List.length).sum)
      (by
        intro k' hh size ho
        injection ho with e1 e2 e3
        subst e1 e2 e3
        exact ⟨hk, hH _, by rw [hsum]; exact hlen⟩)
    rcases hmap with e | e
    · exact ⟨by rw [e]; exact r.keys, by rw [e]; exact r.ents, by rw [e]; exact Nat.le_succ_of_le r.count,
        Nat.lt_of_lt_of_le r.next.1 hn2, by have := r.next.2; omega⟩
    · exact ⟨by rw [e]; exact a1, by rw [e]; exact a2, by rw [e]; exact a3,
        Nat.lt_of_lt_of_le r.next.1 hn2, by have := r.next.2; omega⟩
  exact ⟨m2, hm2, hall ops (contAllOK_of_small H kind sz hH P hinj ops (b + 1) m2 _ r2
    (by rw [hcfg]; exact t.kindEq) (by omega) hops)⟩

theorem faultRemove_next (m : Mem) (hb : m.walBuf = [] ∧ m.protectedFailed = []) (d : Disk)
    (keys : List Bytes) (k : Nat) (m2 : Mem) (h : (faultRemove H m d keys k).mem = some m2) :
    m2.next ≤ m.next + 1 ∧ m.next ≤ m2.next ∧ m2.cfg = m.cfg := by
  unfold faultRemove at h
  split at h
  · simp only [Option.some.injEq] at h; subst h
    exact ⟨Nat.le_succ _, Nat.le_refl _, rfl⟩
  · rename_i all m' hany
    have hla : logAndApply H m d (.remove keys) (.remove keys) = .ok (all, m') := by
      simpa [logAndApplyAny, hb.1, hb.2] using hany
    simp only at h
    split at h
    · simp only [Option.some.injEq] at h; subst h
      rw [logAndApply_next H m d _ _ all m' hla, logAndApply_cfg H m d _ _ all m' hla]
      exact ⟨Nat.le_refl _, Nat.le_succ _, rfl⟩
    · simp only [Option.some.injEq] at h; subst h
      exact faultLogAndApply_next H m _ _ _ _

/-- **C14 (remove / remove_range), guards discharged** -/
theorem C14_remove_fault_small (so : StrictOrder kind.lt) (hH : Hash32 H) (P : Bytes → Prop)
    (hinj : Inj H sz P) (b : Nat) (m : Mem)
    (sys : Sys (KMap Bytes) Bytes) (hist : Recs Bytes) (d : Disk)
    (t : Tied H kind sz N m sys hist d) (hbuf : m.walBuf = [] ∧ m.protectedFailed = [])
    (r : Roomy kind b m) (keys : List Bytes) (hkl : keys.length ≤ 2 ^ 15)
    (hks : ∀ k ∈ keys, SmallKey kind k) (k : Nat)
    (hreached : (faultRemove H m d keys k).res ≠ .completed)
    (ops : List ContOp) (hb : b + ops.length + 4 < U32) (hops : ∀ op ∈ ops, SmallCont kind P op) :
    ∃ m2, (faultRemove H m d keys k).mem = some m2 ∧
      ∃ m3 d3, contRun H m2 (d.applyAll (faultRemove H m d keys k).events) ops = .ok (m3, d3) ∧
        m3.idx.map = (ops.map (ContOp.logged H)).foldl (applyLogged kind) m2.idx.map ∧
        ∃ a, logical H kind d3 = .ok a ∧ IdxInv kind.lt sz a.idx ∧
          ∀ key, kLookup a.idx.map key = kLookup m3.idx.map key ∨
            opEff (Op.remove keys) key = some (kLookup a.idx.map key) := by
  obtain ⟨hraw, hconv, hop, hwf, hsave, hver⟩ :=
    contOK_of_roomy H kind sz hH P hinj b m r (by omega) (.remove keys) ⟨hkl, hks⟩
  obtain ⟨m2, hm2, hmap, hall⟩ := C14_remove_fault_contained H kind sz N so hH m sys hist d t hbuf keys
    hraw hconv hop hwf hsave hver k hreached
  obtain ⟨hn1, hn2, hcfg⟩ := faultRemove_next H m hbuf d keys k m2 hm2
  have r2 : Roomy kind (b + 1) m2 := by
    obtain ⟨a1, a2, a3⟩ := roomy_step kind b m r (.remove keys) (by intro k' hh size ho; cases ho)
    rcases hmap with e | e
    · exact ⟨by rw [e]; exact r.keys, by rw [e]; exact r.ents, by rw [e]; exact Nat.le_succ_of_le r.count,
        Nat.lt_of_lt_of_le r.next.1 hn2, by have := r.next.2; omega⟩
    · exact ⟨by rw [e]; exact a1, by rw [e]; exact a2, by rw [e]; exact a3,
        Nat.lt_of_lt_of_le r.next.1 hn2, by have := r.next.2; omega⟩
  exact ⟨m2, hm2, hall ops (contAllOK_of_small H kind sz hH P hinj ops (b + 1) m2 _ r2
    (by rw [hcfg]; exact t.kindEq) (by omega) hops)⟩

theorem faultCheckpoint_next (m : Mem) (d : Disk) (k : Nat) (m2 : Mem)
    (h : (faultCheckpoint m d k).mem = some m2) : m2.next = m.next ∧ m2.cfg = m.cfg := by
  have hf := checkpointScript_fields .explicit m d
  unfold faultCheckpoint at h
  simp only at h
  split at h
  · simp only [Option.some.injEq] at h; subst h; exact ⟨hf.2.1, hf.2.2⟩
  · simp only [Option.some.injEq] at h; subst h; exact ⟨hf.2.1, hf.2.2⟩
  · simp only [Option.some.injEq] at h; subst h; exact ⟨rfl, rfl⟩

/-- **C14 (explicit checkpoint), guards discharged** -/
theorem C14_checkpoint_fault_small (so : StrictOrder kind.lt) (hH : Hash32 H) (P : Bytes → Prop)
    (hinj : Inj H sz P) (b : Nat) (m : Mem)
    (sys : Sys (KMap Bytes) Bytes) (hist : Recs Bytes) (d : Disk)
    (t : Tied H kind sz N m sys hist d) (hbuf : m.walBuf = [])
    (r : Roomy kind b m) (k : Nat) (hreached : (faultCheckpoint m d k).res ≠ .completed)
    (ops : List ContOp) (hb : b + ops.length + 4 < U32) (hops : ∀ op ∈ ops, SmallCont kind P op) :
    ∃ m2, (faultCheckpoint m d k).mem = some m2 ∧ m2.idx.map = m.idx.map ∧
      ∃ m3 d3, contRun H m2 (d.applyAll (faultCheckpoint m d k).events) ops = .ok (m3, d3) ∧
        m3.idx.map = (ops.map (ContOp.logged H)).foldl (applyLogged kind) m2.idx.map ∧
        ∃ a, logical H kind d3 = .ok a ∧ IdxInv kind.lt sz a.idx ∧
          ∀ key, kLookup a.idx.map key = kLookup m3.idx.map key := by
  have h3264 : U32 < U64 := by decide
  have hsv : SaveOK kind m.idx := saveOK_of kind _ m.idx rfl r.keys r.ents (by have := r.count; omega)
  have hver : m.next < U64 := by have := r.next.2; omega
  obtain ⟨m2, hm2, hmap, hall⟩ := C14_checkpoint_fault_contained H kind sz N so hH m sys hist d t hbuf hsv hver k
    hreached
  obtain ⟨hn, hcfg⟩ := faultCheckpoint_next m d k m2 hm2
  have r2 : Roomy kind b m2 :=
    ⟨by rw [hmap]; exact r.keys, by rw [hmap]; exact r.ents, by rw [hmap]; exact r.count, by rw [hn]; exact r.next⟩
  exact ⟨m2, hm2, hmap, hall ops (contAllOK_of_small H kind sz hH P hinj ops b m2 _ r2
    (by rw [hcfg]; exact t.kindEq) (by omega) hops)⟩

end CasModel
