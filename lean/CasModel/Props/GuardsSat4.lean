import CasModel.Props.GuardsSat3
import CasModel.Proofs.ParseRender
import CasModel.Proofs.KeyOrder
/-
  From an EMPTY DIRECTORY: the first `open` writes a settings file that parses back to the
  configuration (`parse_render`), returns a live, roomy store — and from there `C03_small_world`
  applies.  `C03_closed`: C03 for every history of at most 2^15 - 3 operations with NO hypothesis
  about guards, settings or reachability left.
-/
namespace CasModel
open Ghost

variable (H : Bytes → Bytes) (kind : KeyKind) (sz : Bytes → Nat) (N : Nat)

/-- an empty directory: no database file of any kind (directories and a LOCK file may exist) -/
structure EmptyDir (d : Disk) : Prop where
  wf : d.WF
  seg : ∀ i, segData d i = none
  idx : d.get .index = none
  cas : ∀ g, d.get (.cas g) = none
  staging : ∀ t, d.get (.staging t) = none
  stray : ∀ p, d.get (.stray p) = none
  settings : d.get .settings = none

theorem snapBound_empty (d : Disk) (hidx : d.get .index = none) : SnapBound kind 1 d := by
  intro s hs
  simp only [loadSnapshot, hidx] at hs
  injection hs with hs
  rw [← hs]
  simp [recomputeStats]

theorem gate_empty (cfg : Config) (d : Disk) (hs : d.get .settings = none) :
    settingsGate cfg d = .ok ((if cfg.pre then preCreateEvents d else []) ++
         [Ev.creat .settingsTmp true, .write .settingsTmp (renderSettings 4 cfg.pre cfg.N),
          .sync .settingsTmp, .rename .settingsTmp .settings], cfg.pre) := by
  simp [settingsGate, hs]

/-- **`OpenOK` for the first `open` of an empty directory** -/
theorem openOK_empty (so : StrictOrder kind.lt) (hH : Hash32 H) (cfg : Config) (d : Disk)
    (e : EmptyDir d) : OpenOK H kind cfg d := by
  have h3264 : (1:Nat) < U64 := by decide
  exact openOK_of_image H kind (fun _ => 0) 1 so hH _ [] d (dcfg_empty H kind (fun _ => 0) 1 d e.wf e.seg e.idx) 1
    (snapBound_empty kind d e.idx) (by intro x hx; cases hx) h3264 [] rfl (by intro x hx; cases hx)
    (by intro x hx; cases hx) (by decide) cfg ⟨_, _, gate_empty cfg d e.settings⟩

/-- the settings file after the gate's events of a first `open` -/
theorem settled_after_gate (cfg : Config) (hN : 0 < cfg.N) (hN64 : cfg.N < 2 ^ 64) (d : Disk) (hw : d.WF)
    (pre : List Ev) :
    SettledS cfg (d.applyAll (pre ++ [Ev.creat .settingsTmp true,
      .write .settingsTmp (renderSettings 4 cfg.pre cfg.N), .sync .settingsTmp,
      .rename .settingsTmp .settings])) := by
  rw [Disk.applyAll_append]
  have hw0 := Disk.applyAll_WF d hw pre
  generalize d.applyAll pre = d0 at hw0 ⊢
  simp only [Disk.applyAll_cons, Disk.applyAll_nil]
  have w1 := Disk.apply_WF d0 hw0 (.creat .settingsTmp true)
  have w2 := Disk.apply_WF _ w1 (.write .settingsTmp (renderSettings 4 cfg.pre cfg.N))
  have w3 := Disk.apply_WF _ w2 (.sync .settingsTmp)
  have h1 : (d0.apply (.creat .settingsTmp true)).get .settingsTmp = some ⟨[], 0⟩ := by
    rw [Disk.get_creat]; simp only [↓reduceIte]; cases d0.get .settingsTmp <;> rfl
  have h2 : ((d0.apply (.creat .settingsTmp true)).apply
      (.write .settingsTmp (renderSettings 4 cfg.pre cfg.N))).get .settingsTmp =
      some ⟨renderSettings 4 cfg.pre cfg.N, 0⟩ := by
    rw [Disk.get_write]; simp [h1]
  have h3 : (((d0.apply (.creat .settingsTmp true)).apply
      (.write .settingsTmp (renderSettings 4 cfg.pre cfg.N))).apply (.sync .settingsTmp)).get .settingsTmp =
      some ⟨renderSettings 4 cfg.pre cfg.N, (renderSettings 4 cfg.pre cfg.N).length⟩ := by
    rw [Disk.get_sync]; simp [h2]
  refine ⟨⟨renderSettings 4 cfg.pre cfg.N, (renderSettings 4 cfg.pre cfg.N).length⟩, cfg.pre, ?_,
    parse_render cfg.pre cfg.N hN hN64, rfl⟩
  rw [Disk.get_rename _ w3, h3]
  simp

/-- **the first `open` of an empty directory**: a handle, a live, roomy (0 keys) store, settings in
    place and synced -/
theorem first_open_small (so : StrictOrder kind.lt) (hH : Hash32 H) (P : Bytes → Prop)
    (hinj : Inj H sz P) (cfg : Config) (hk : cfg.kind = kind) (hn : cfg.N = N)
    (hN : 0 < cfg.N) (hN64 : cfg.N < 2 ^ 64) (d : Disk) (e : EmptyDir d) :
    ∃ m0 sys0 sc, (openBody H cfg d).2 = .ok (m0, sc) ∧
      StoreLive H kind sz N m0 sys0 [] (d.applyAll (openBody H cfg d).1) (fun _ => none) 0 ∧
      Roomy kind 0 m0 ∧ SettledS cfg (d.applyAll (openBody H cfg d).1) := by
  have ho := openOK_empty H kind so hH cfg d e
  obtain ⟨m0, sys0, sc, hres, _, _, _, live⟩ := C03_first_open_live H kind sz N so hH P hinj d e.wf e.seg e.idx
    e.cas e.staging e.stray cfg hk hn ho
  refine ⟨m0, sys0, sc, hres, live, ?_, ?_⟩
  · obtain ⟨h1, h2, h3, _⟩ := open_result_of_image H kind sz N so hH _ [] d
      (dcfg_empty H kind sz N d e.wf e.seg e.idx) 1 (snapBound_empty kind d e.idx)
      (by intro x hx; cases hx) cfg hk hn ho m0 sc hres
    simp only [run] at h1
    injection h1 with h1
    exact ⟨(by rw [← h1]; intro x hx; cases hx), (by rw [← h1]; intro x hx; cases hx),
      (by rw [← h1]; exact Nat.le_refl _), h2, h3⟩
  · -- the settings file: written by the gate's events, untouched by the rest of `open`
    have hg := gate_empty cfg d e.settings
    have hl : ∃ acc, logical H cfg.kind (d.applyAll ((if cfg.pre then preCreateEvents d else []) ++
         [Ev.creat .settingsTmp true, .write .settingsTmp (renderSettings 4 cfg.pre cfg.N),
          .sync .settingsTmp, .rename .settingsTmp .settings])) = .ok acc := by
      obtain ⟨e1, pre, hg', hsv⟩ := ho
      rw [hg] at hg'; injection hg' with hg'; injection hg' with e1' _; subst e1'
      obtain ⟨acc, hl, _⟩ := open_sim_full H kind sz N so hH cfg hk hn _ [] d
        ((dcfg_empty H kind sz N d e.wf e.seg e.idx).crash H kind sz N _ [] d) rfl _ _ hg hsv
      exact ⟨acc, by rw [hk]; exact hl⟩
    obtain ⟨acc, hl⟩ := hl
    obtain ⟨ck, hck, hev, _⟩ := openBody_eq H cfg d _ cfg.pre acc hg hl
    rw [hev, List.append_assoc, Disk.applyAll_append]
    have hs1 := settled_after_gate cfg hN hN64 d e.wf (if cfg.pre then preCreateEvents d else [])
    refine hs1.frame cfg _ (Disk.applyAll_WF d e.wf _) _ ?_
    intro x hx
    rcases List.mem_append.mp hx with hx | hx
    · have hsub : ∀ (b : Bool) (s : Nat), x ∈ (if b = true then []
          else [Ev.creat (.seg s) true, .sync (.seg s)]) → x.touches .settings = false := by
        intro b s hb
        cases b with
        | true => cases hb
        | false =>
          simp only [Bool.false_eq_true, ↓reduceIte, List.mem_cons, List.not_mem_nil, or_false] at hb
          rcases hb with rfl | rfl <;> rfl
      exact hsub _ _ hx
    · rw [hck] at hx
      have key : ∀ (c : Prop) [Decidable c] (x y : List Ev × Mem),
          (∀ z ∈ x.1, z.touches .settings = false) → (∀ z ∈ y.1, z.touches .settings = false) →
          ∀ z ∈ (if c then x else y).1, z.touches .settings = false := by
        intro c _ x y hx hy; split <;> assumption
      exact key _ _ _ (checkpointScript_settings _ _ _) (by intro z hz; cases hz) x hx

/-- **C03, closed.**  From an empty directory, with a configuration whose `num_ops_per_wal` is a
    non-zero u64: the first `open` returns a handle, and then ANY history of at most 2^15 - 3 puts,
    removes, range removals, checkpoints, restarts and abandoned transactions on keys that are valid
    for the key type and shorter than 64 KiB, with contents the hash is collision-free on — each
    operation possibly KILLED after any number of its filesystem events and followed by `open` —
    runs to completion, every `open` returns a handle, and at the end every key reads exactly the
    content of a specification reachable from the empty one by applying each completed operation
    and applying-or-not each killed one.  No usage guard, no assumption about the settings file, no
    reachability assumption is left; what is assumed: the key order is a strict total order
    (`keyOrder_strict` per key kind) and `H` is a 32-byte function, collision-free on `P`. -/
theorem C03_closed (so : StrictOrder kind.lt) (hH : Hash32 H) (P : Bytes → Prop)
    (hinj : Inj H sz P) (cfg : Config) (hk : cfg.kind = kind) (hn : cfg.N = N)
    (hN : 0 < cfg.N) (hN64 : cfg.N < 2 ^ 64) (d : Disk) (e : EmptyDir d)
    (ops : List LOp) (hb : ops.length + 3 ≤ 2 ^ 15) (hops : ∀ op ∈ ops, SmallOpAll kind P op) :
    ∃ m0 sc, (openBody H cfg d).2 = .ok (m0, sc) ∧
      ∃ m' d' tn' spec', lRun H cfg m0 (d.applyAll (openBody H cfg d).1) 0 ops = some (m', d', tn') ∧
        LReach kind (fun _ => none) ops spec' ∧
        ∀ k, getBlob m' d' k = match spec' k with
                               | none => .absent
                               | some c => .found c := by
  obtain ⟨m0, sys0, sc, hres, live, r, hset⟩ := first_open_small H kind sz N so hH P hinj cfg hk hn hN hN64 d e
  exact ⟨m0, sc, hres, C03_small_world H kind sz N so hH P hinj cfg hk hn 0 m0 sys0 [] _ _ 0 live
    (fun _ _ h => by cases h) r (hset.settled cfg _) ops (by omega) hops⟩

/-- **C09, closed** (Sync mode): from an empty directory whose files (a LOCK file at most) claim no
    more synced bytes than they have — the first `open`, then ANY history of at most 2^15 - 3
    operations on reasonable keys, each possibly cut after any number of filesystem events by a
    power loss (ANY choice of the files that lose their unsynced bytes, per loss) and followed by the
    reboot and `open`: everything runs to completion and every key reads a content
    reachable by applying each completed operation and applying-or-not each interrupted one. -/
theorem C09_closed (so : StrictOrder kind.lt) (hH : Hash32 H) (P : Bytes → Prop)
    (hinj : Inj H sz P) (cfg : Config) (hk : cfg.kind = kind) (hn : cfg.N = N) (hsync : cfg.sync = true)
    (hN : 0 < cfg.N) (hN64 : cfg.N < 2 ^ 64) (d : Disk) (e : EmptyDir d) (hle : SyncLe d)
    (htmp : d.get .indexTmp = none)
    (ops : List DOp) (hb : ops.length + 3 ≤ 2 ^ 15) (hops : ∀ op ∈ ops, SmallDOp kind P op) :
    ∃ m0 sc, (openBody H cfg d).2 = .ok (m0, sc) ∧
      ∃ m' d' tn' spec', dRun H cfg m0 (d.applyAll (openBody H cfg d).1) 0 ops = some (m', d', tn') ∧
        LReach kind (fun _ => none) (ops.map DOp.toL) spec' ∧
        ∀ k, getBlob m' d' k = match spec' k with
                               | none => .absent
                               | some c => .found c := by
  obtain ⟨m0, sys0, sc, hres, live, r, hset⟩ := first_open_small H kind sz N so hH P hinj cfg hk hn hN hN64 d e
  have ho := openOK_empty H kind so hH cfg d e
  -- the first open also leaves a DURABLE store
  have hpre : LivePre H kind sz N [[]] [fun _ => none] 0 d :=
    ⟨_, [], fun _ => none, [], by simp, dcfg_empty H kind sz N d e.wf e.seg e.idx, by simp, rfl,
      (by intro k; simp [kLookup]), (by intro g x hx; rw [e.cas g] at hx; cases hx), e.stray,
      fun t _ => e.staging t⟩
  have hdur : Dur d := by
    refine ⟨?_, ?_, ?_⟩
    · intro i x hx
      have := e.seg i
      unfold segData at this
      rw [hx] at this; cases this
    · intro x hx; rw [e.idx] at hx; cases hx
    · intro x hx; rw [htmp] at hx; cases hx
  have hcs : CasSynced d := by intro g x hx; rw [e.cas g] at hx; cases hx
  obtain ⟨m0', sys0', hist0, sc', spec0, hres', _, _, hh, hs, dur0⟩ := open_dur_of_pre H kind sz N so hH P hinj
    cfg hk hn hsync [[]] [fun _ => none] 0 d hpre hdur hle hcs
    (by intro sx hsx k c hc; simp only [List.mem_singleton] at hsx; subst hsx; cases hc) ho
  rw [hres] at hres'; injection hres' with hres'; injection hres' with e1 _; subst e1
  simp only [List.mem_singleton] at hh hs
  subst hh hs
  exact ⟨m0, sc, hres, C09_small_world H kind sz N so hH P hinj cfg hk hn hsync 0 m0 sys0' [] _ _ 0 dur0
    (fun _ _ h => by cases h) r hset ops (by omega) hops⟩

/-- `C03_closed` for every key kind: the order hypothesis is discharged by `keyOrder_strict` -/
theorem C03_closed_all_kinds (hH : Hash32 H) (P : Bytes → Prop) (hinj : Inj H sz P) (cfg : Config)
    (hN : 0 < cfg.N) (hN64 : cfg.N < 2 ^ 64) (d : Disk) (e : EmptyDir d)
    (ops : List LOp) (hb : ops.length + 3 ≤ 2 ^ 15) (hops : ∀ op ∈ ops, SmallOpAll cfg.kind P op) :
    ∃ m0 sc, (openBody H cfg d).2 = .ok (m0, sc) ∧
      ∃ m' d' tn' spec', lRun H cfg m0 (d.applyAll (openBody H cfg d).1) 0 ops = some (m', d', tn') ∧
        LReach cfg.kind (fun _ => none) ops spec' ∧
        ∀ k, getBlob m' d' k = match spec' k with
                               | none => .absent
                               | some c => .found c :=
  C03_closed H cfg.kind sz cfg.N (keyOrder_strict cfg.kind) hH P hinj cfg rfl rfl hN hN64 d e ops hb hops

/-- `C09_closed` for every key kind -/
theorem C09_closed_all_kinds (hH : Hash32 H) (P : Bytes → Prop) (hinj : Inj H sz P) (cfg : Config)
    (hsync : cfg.sync = true) (hN : 0 < cfg.N) (hN64 : cfg.N < 2 ^ 64) (d : Disk) (e : EmptyDir d)
    (hle : SyncLe d) (htmp : d.get .indexTmp = none)
    (ops : List DOp) (hb : ops.length + 3 ≤ 2 ^ 15) (hops : ∀ op ∈ ops, SmallDOp cfg.kind P op) :
    ∃ m0 sc, (openBody H cfg d).2 = .ok (m0, sc) ∧
      ∃ m' d' tn' spec', dRun H cfg m0 (d.applyAll (openBody H cfg d).1) 0 ops = some (m', d', tn') ∧
        LReach cfg.kind (fun _ => none) (ops.map DOp.toL) spec' ∧
        ∀ k, getBlob m' d' k = match spec' k with
                               | none => .absent
                               | some c => .found c :=
  C09_closed H cfg.kind sz cfg.N (keyOrder_strict cfg.kind) hH P hinj cfg rfl rfl hsync hN hN64 d e hle htmp
    ops hb hops

/-- non-vacuity of `EmptyDir`: the disk with no file at all -/
example : EmptyDir ({} : Disk) :=
  ⟨by simp [Disk.WF, FKeysNodup], fun _ => rfl, rfl, fun _ => rfl, fun _ => rfl, fun _ => rfl, rfl⟩

end CasModel
