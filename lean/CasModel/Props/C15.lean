import CasModel.Proofs.ConcLocks
/-
  C15 — concurrent calls always complete (no deadlock).
  For every set of thread programs (any number of threads, any operations: puts, aborts, removes,
  range removes, reads, checkpoints, orphan clean-up) and EVERY schedule:
    * the lock invariant holds at every step (holders = threads inside the critical sections),
    * locks are requested in the order intents < state (< wal, which is taken and released inside
      a single step while both others are held),
    * whenever some thread has work left, some thread can take a step (`C15_no_deadlock`).
  Each step of the model is a terminating function and an operation takes at most
  (12 + number of blobs it unlinks) steps, so under any fair scheduler every call returns; that
  last counting argument and the fairness of parking_lot's locks are not formalised.
  The rwlock is modelled as exclusive at yield-point granularity (readers never park while
  holding it), which over-approximates blocking.
-/
namespace CasModel.Conc

def initSys (sh : Shared) (programs : List (List COp)) : Sys :=
  { sh := { sh with lockIntents := none, lockState := none },
    threads := programs.map (fun ops => { ops := ops }) }

theorem lockInv_init (sh : Shared) (programs : List (List COp)) : LockInv (initSys sh programs) := by
  refine ⟨?_, ?_, by simp [initSys], by simp [initSys]⟩
  · intro t th hth
    simp only [initSys, List.getElem?_map] at hth
    cases hp : programs[t]? with
    | none => simp [hp] at hth
    | some ops => simp [hp] at hth; subst hth; simp [holdsIntents, initSys]
  · intro t th hth
    simp only [initSys, List.getElem?_map] at hth
    cases hp : programs[t]? with
    | none => simp [hp] at hth
    | some ops => simp [hp] at hth; subst hth; simp [holdsState, initSys]

theorem run_lockInv (H : Bytes → Bytes) (s s' : Sys) (sched : List Tid) (inv : LockInv s)
    (h : run H s sched = some s') : LockInv s' := by
  induction sched generalizing s with
  | nil => simp only [run] at h; injection h with h; subst h; exact inv
  | cons t ts ih =>
    simp only [run] at h
    cases hs : step H s t with
    | none => simp [hs] at h
    | some s1 => simp only [hs] at h; exact ih s1 (step_lockInv H s s1 t inv hs) h

/-- **C15.** After any schedule prefix of any programs, either every thread has finished all its
    operations or some thread can take a step: no reachable state is a deadlock. -/
theorem C15_no_deadlock (H : Bytes → Bytes) (sh : Shared) (programs : List (List COp))
    (sched : List Tid) (s : Sys) (h : run H (initSys sh programs) sched = some s) :
    (∀ (t : Nat) (th : Thread), s.threads[t]? = some th → th.pc = .idle ∧ th.ops = []) ∨
    (∃ t, (step H s t).isSome = true) := by
  have inv := run_lockInv H _ s sched (lockInv_init sh programs) h
  by_cases hall : ∀ (t : Nat) (th : Thread), s.threads[t]? = some th → th.pc = .idle ∧ th.ops = []
  · exact Or.inl hall
  · right
    apply progress H s inv
    obtain ⟨t, ht⟩ := Classical.not_forall.mp hall
    obtain ⟨th, hth'⟩ := Classical.not_forall.mp ht
    have hth : s.threads[t]? = some th := by
      cases hc : s.threads[t]? with
      | none => exact absurd (fun h => by rw [hc] at h; cases h) hth'
      | some x =>
        by_cases hx : x = th
        · rw [hx]
        · exact absurd (fun h => by rw [hc] at h; injection h with h; exact absurd h hx) hth'
    have hn : ¬ (th.pc = .idle ∧ th.ops = []) := fun h => hth' (fun _ => h)
    refine ⟨t, th, hth, ?_⟩
    unfold unfinished
    by_cases c : th.pc = .idle
    · right; intro c2; exact hn ⟨c, c2⟩
    · left; exact c

/-- **C15, lock order.** A thread asking for `intents` holds no lock; a thread asking for `state`
    does not hold `state` (it may hold `intents`): requests follow intents < state. -/
theorem C15_lock_order (pc : Pc) :
    (pc.wants = 1 → holdsIntents pc = false ∧ holdsState pc = false) ∧
    ((pc.wants = 2 ∨ pc.wants = 3) → holdsState pc = false) := lock_order pc

/-! non-vacuity: two threads, same key, a full schedule runs to completion -/
example : (run (fun b => b) (initSys {} [[.put [1] [7]], [.put [1] [8], .remove [1]]])
    [0,0,0,1,1,1,1,1,1,1,0,0,0,0,1,1,1,1,1,1]).isSome = true := by rfl

end CasModel.Conc
