import CasModel.Fault
import CasModel.Proofs.ApiSim
import CasModel.Props.C03Store
/-
  C14 at byte level, part 1: the disk IMAGE a failed call leaves behind.

  For a remove / remove_range commit, a put and an explicit checkpoint issued in a tied state
  (fault-free so far: nothing retained in the segment writer), and for EVERY position `k` of the
  failing call: the events that the error paths of Fault.lean leave on disk are a PREFIX of the
  fault-free script, followed at most by the unlink of the transaction's staging file.  Hence
  (`putScript_sim` / `logAndApply_sim` / `checkpoint_sim`: every prefix is recoverable) the image
  is recoverable: `logical` succeeds on it, without panic, with the old key map or the old one
  with exactly this operation applied — so a reopen right after the failed operation succeeds and
  the failed operation's keys hold their old or their new value, all other keys exactly theirs.

  What a LATER operation of the same handle does on that image (retained BufWriter bytes, version
  gap, kept protection) is covered at record level by Props/C14Hist (every history) and tied to
  the code by the c14 slice; it is not proved at byte level.
-/
namespace CasModel
open Ghost

theorem splitAtCounted_some (k : Nat) (all : List Ev) (e : Ev)
    (h : (splitAtCounted k all).2.1 = some e) :
    all = (splitAtCounted k all).1 ++ e :: (splitAtCounted k all).2.2 ∧
      countedCount (splitAtCounted k all).1 = k ∧ counted e = true := by
  induction all generalizing k with
  | nil => simp [splitAtCounted] at h
  | cons x xs ih =>
    unfold splitAtCounted at h ⊢
    by_cases c : counted x = true
    · simp only [c, ↓reduceIte] at h ⊢
      cases k with
      | zero =>
        simp only at h ⊢
        injection h with h; subst h
        exact ⟨rfl, by simp [countedCount], c⟩
      | succ k =>
        simp only at h ⊢
        obtain ⟨a, b, c'⟩ := ih k h
        refine ⟨by rw [List.cons_append, ← a], ?_, c'⟩
        simp only [countedCount, List.filter_cons, c, ↓reduceIte, List.length_cons] at b ⊢
        omega
    · simp only [c, Bool.false_eq_true, ↓reduceIte] at h ⊢
      obtain ⟨a, b, c'⟩ := ih k h
      refine ⟨by rw [List.cons_append, ← a], ?_, c'⟩
      simp only [countedCount, List.filter_cons, c, Bool.false_eq_true, ↓reduceIte] at b ⊢
      exact b

/-- the part of a split script before the failing call is a `take` of the script -/
theorem splitAtCounted_take (k : Nat) (all : List Ev) (e : Ev)
    (h : (splitAtCounted k all).2.1 = some e) :
    (splitAtCounted k all).1 = all.take (splitAtCounted k all).1.length ∧
    (splitAtCounted k all).1 ++ [e] = all.take ((splitAtCounted k all).1.length + 1) := by
  obtain ⟨a, _⟩ := splitAtCounted_some k all e h
  generalize (splitAtCounted k all).1 = p at a ⊢
  generalize (splitAtCounted k all).2.2 = q at a
  subst a
  constructor
  · simp
  · have : p ++ e :: q = (p ++ [e]) ++ q := by simp
    rw [this, List.take_left' (by simp)]

/-- the events on disk after a fault in the log-and-apply part: those before the failing call,
    possibly plus the (retried, successful) call itself -/
theorem faultLogAndApply_events (H : Bytes → Bytes) (m : Mem) (op : Op Bytes) (raw : RawOp)
    (pre : List Ev) (e : Ev) :
    (faultLogAndApply H m op raw pre e).1 = pre ∨ (faultLogAndApply H m op raw pre e).1 = pre ++ [e] := by
  unfold faultLogAndApply
  cases e with
  | write f bs =>
    cases f <;> dsimp only <;>
      first | (left; rfl) | (right; rfl) | (split <;> first | (left; rfl) | (right; rfl))
  | sync f =>
    cases f <;> dsimp only <;>
      first | (left; rfl) | (right; rfl) | (split <;> first | (left; rfl) | (right; rfl))
  | creat f t =>
    cases f <;> dsimp only <;>
      first | (left; rfl) | (right; rfl) | (split <;> first | (left; rfl) | (right; rfl))
  | unlink f =>
    cases f <;> dsimp only <;>
      first | (left; rfl) | (right; rfl) | (split <;> first | (left; rfl) | (right; rfl))
  | rename a b =>
    cases a <;> cases b <;> dsimp only <;>
      first | (left; rfl) | (right; rfl) | (split <;> first | (left; rfl) | (right; rfl))
  | mkdir p => right; rfl
  | mkdirTree => right; rfl
  | flock => right; rfl

variable (H : Bytes → Bytes) (kind : KeyKind) (sz : Bytes → Nat) (N : Nat)

/-- a recoverable image recovers, byte level, to one of the listed histories -/
theorem Recoverable.logical (so : StrictOrder kind.lt) (hH : Hash32 H) (hists : List (Recs Bytes))
    (d : Disk) (r : Recoverable H kind sz N hists d) :
    ∃ a hist, hist ∈ hists ∧ logical H kind d = .ok a ∧ IdxInv kind.lt sz a.idx ∧
      run (stepM kind) [] hist = .ok a.idx.map := by
  obtain ⟨sys, hist, hm, c⟩ := r
  obtain ⟨a, h1, h2, h3, _⟩ := c.recovers H hH kind so sz N sys hist d
  exact ⟨a, hist, hm, h1, h3, h2⟩

theorem Recoverable.freeAll (hists : List (Recs Bytes)) (d : Disk)
    (r : Recoverable H kind sz N hists d) (evs : List Ev)
    (h : ∀ e ∈ evs, e.segFree = true ∧ e.indexFree = true) :
    Recoverable H kind sz N hists (d.applyAll evs) := by
  obtain ⟨sys, hist, hm, c⟩ := r
  exact ⟨sys, hist, hm, c.freeAll H kind sz N sys hist d evs h⟩

/-- **C14 image (remove / remove_range).** Whatever call of the commit fails, the image left on
    disk is recoverable to the old history or the old history plus this operation's record. -/
theorem C14_remove_fault_image (so : StrictOrder kind.lt) (hH : Hash32 H) (m : Mem)
    (sys : Sys (KMap Bytes) Bytes) (hist : Recs Bytes) (d : Disk)
    (t : Tied H kind sz N m sys hist d) (keys : List Bytes)
    (hb : m.walBuf = [] ∧ m.protectedFailed = [])
    (hraw : (RawOp.remove keys).WF) (hconv : fromRaw kind (.remove keys) = some (.remove keys))
    (hop : OpOK sz (.remove keys))
    (hwf : (⟨m.next, serWalOp (.remove keys)⟩ : Rec).WF)
    (hsave : ∀ idx' un, applyOp kind.lt m.idx (.remove keys) = .ok (idx', un) → SaveOK kind idx')
    (hver : m.next + 1 < U64) (k : Nat) :
    Recoverable H kind sz N [hist, hist ++ [(m.next, serWalOp (.remove keys))]]
      (d.applyAll (faultRemove H m d keys k).events) := by
  obtain ⟨evs, m', hrun, hpre, _⟩ :=
    logAndApply_sim H kind sz N so hH m sys hist d t (.remove keys) (.remove keys) hraw hconv hop
      hwf hsave hver
  have hany : logAndApplyAny H m d (.remove keys) (.remove keys) = .ok (evs, m') := by
    simp [logAndApplyAny, hb.1, hb.2, hrun]
  unfold faultRemove
  simp only [hany]
  cases hsp : (splitAtCounted k evs).2.1 with
  | none =>
    simp only
    have := hpre evs.length
    rwa [List.take_length] at this
  | some e =>
    simp only
    obtain ⟨t1, t2⟩ := splitAtCounted_take k evs e hsp
    rcases faultLogAndApply_events H m (.remove keys) (.remove keys) (splitAtCounted k evs).1 e with h | h
    · rw [h, t1]; exact hpre _
    · rw [h, t2]; exact hpre _

/-- in bytes: reopening the image succeeds with the old key map or the one after the remove -/
theorem C14_remove_fault_reopens (so : StrictOrder kind.lt) (hH : Hash32 H) (m : Mem)
    (sys : Sys (KMap Bytes) Bytes) (hist : Recs Bytes) (d : Disk)
    (t : Tied H kind sz N m sys hist d) (keys : List Bytes)
    (hb : m.walBuf = [] ∧ m.protectedFailed = [])
    (hraw : (RawOp.remove keys).WF) (hconv : fromRaw kind (.remove keys) = some (.remove keys))
    (hop : OpOK sz (.remove keys))
    (hwf : (⟨m.next, serWalOp (.remove keys)⟩ : Rec).WF)
    (hsave : ∀ idx' un, applyOp kind.lt m.idx (.remove keys) = .ok (idx', un) → SaveOK kind idx')
    (hver : m.next + 1 < U64) (k : Nat) :
    ∃ a, logical H kind (d.applyAll (faultRemove H m d keys k).events) = .ok a ∧
      IdxInv kind.lt sz a.idx ∧
      (a.idx.map = m.idx.map ∨ a.idx.map = mapApply kind.lt m.idx.map (.remove keys)) := by
  have r := C14_remove_fault_image H kind sz N so hH m sys hist d t keys hb hraw hconv hop hwf hsave hver k
  obtain ⟨a, hist', hm, h1, h3, h2⟩ := r.logical H kind sz N so hH _ _
  have hM := t.mem_eq H kind sz N
  have hstep : stepM kind m.idx.map (serWalOp (.remove keys)) =
      .ok (mapApply kind.lt m.idx.map (.remove keys)) := by
    have := C16_walop_roundtrip (.remove keys) hraw []
    rw [List.append_nil] at this
    simp [stepM, this, hconv]
  refine ⟨a, h1, h3, ?_⟩
  simp only [List.mem_cons, List.mem_singleton, List.not_mem_nil, or_false] at hm
  rcases hm with e | e
  · subst e; rw [hM] at h2; injection h2 with h2; exact Or.inl h2.symm
  · subst e
    rw [run_append, hM] at h2
    simp only [run, hstep] at h2
    injection h2 with h2; exact Or.inr h2.symm

theorem countedCount_append (a b : List Ev) : countedCount (a ++ b) = countedCount a + countedCount b := by
  simp [countedCount, List.filter_append]

/-- a failing call at or beyond the end of `head` splits the script inside the tail -/
theorem splitAtCounted_beyond (k : Nat) (head tail : List Ev) (e : Ev)
    (h : (splitAtCounted k (head ++ tail)).2.1 = some e) (hk : ¬ k < countedCount head) :
    head ++ (splitAtCounted k (head ++ tail)).1.drop head.length = (splitAtCounted k (head ++ tail)).1 := by
  obtain ⟨a, b, c⟩ := splitAtCounted_some k (head ++ tail) e h
  generalize (splitAtCounted k (head ++ tail)).1 = p at a b ⊢
  generalize (splitAtCounted k (head ++ tail)).2.2 = q at a
  rcases List.append_eq_append_iff.mp a with ⟨a', h1, _⟩ | ⟨c', h1, h2⟩
  · rw [h1]; simp
  · cases c' with
    | nil => simp at h1; rw [h1]; simp
    | cons x xs =>
      exfalso
      simp only [List.cons_append, List.cons.injEq] at h2
      obtain ⟨hx, _⟩ := h2
      subst hx
      rw [h1, countedCount_append] at hk
      have : countedCount (e :: xs) ≥ 1 := by
        simp [countedCount, List.filter_cons, c]
      omega

/-- **C14 image (put).** Whatever counted call of a put fails — creating the staging file, its
    sync, a directory creation, the rename into cas/, or any call of the commit — the image left on
    disk (the transaction's drop unlinks the staging file) is recoverable to the old history or
    the old history plus the put's record. -/
theorem C14_put_fault_image (so : StrictOrder kind.lt) (hH : Hash32 H) (m : Mem)
    (sys : Sys (KMap Bytes) Bytes) (hist : Recs Bytes) (d : Disk)
    (t : Tied H kind sz N m sys hist d) (tn : Nat) (key : Bytes) (chunks : List Bytes)
    (hb : m.walBuf = [] ∧ m.protectedFailed = [])
    (hraw : (RawOp.put key (H chunks.flatten) (chunks.map List.length).sum).WF)
    (hconv : kind.valid key = true)
    (hop : (chunks.map List.length).sum = sz (H chunks.flatten))
    (hwf : (⟨m.next, serWalOp (.put key (H chunks.flatten) (chunks.map List.length).sum)⟩ : Rec).WF)
    (hsave : ∀ idx' un, applyOp kind.lt m.idx
        (.put key (H chunks.flatten) (chunks.map List.length).sum) = .ok (idx', un) → SaveOK kind idx')
    (hver : m.next + 1 < U64) (k : Nat) :
    Recoverable H kind sz N
      [hist, hist ++ [(m.next, serWalOp (.put key (H chunks.flatten) (chunks.map List.length).sum))]]
      (d.applyAll (faultPut H m d tn key chunks k).events) := by
  obtain ⟨hres, hpre, _⟩ := putScript_sim H kind sz N so hH m sys hist d t tn key chunks hraw hconv
    hop hwf hsave hver
  -- the fault-free script, in the shape `faultPut` builds it
  unfold putScript finishScript at hres hpre
  simp only at hres hpre
  unfold faultPut
  simp only
  have hd : d.applyAll (beginScript tn ++ [Ev.write (.staging tn) chunks.flatten] ++
        (if m.cfg.sync then [Ev.sync (.staging tn)] else []) ++
        (if m.preCreated then [] else mkdirsFor (d.applyAll (beginScript tn)) (H chunks.flatten)) ++
        [Ev.rename (.staging tn) (.cas (H chunks.flatten))]) =
      (d.applyAll (beginScript tn)).applyAll ([Ev.write (.staging tn) chunks.flatten] ++
        (if m.cfg.sync then [Ev.sync (.staging tn)] else []) ++
        (if m.preCreated then [] else mkdirsFor (d.applyAll (beginScript tn)) (H chunks.flatten)) ++
        [Ev.rename (.staging tn) (.cas (H chunks.flatten))]) := by
    rw [← Disk.applyAll_append]; simp only [List.append_assoc]
  rw [hd]
  generalize hla : logAndApply H m ((d.applyAll (beginScript tn)).applyAll
      ([Ev.write (.staging tn) chunks.flatten] ++
        (if m.cfg.sync then [Ev.sync (.staging tn)] else []) ++
        (if m.preCreated then [] else mkdirsFor (d.applyAll (beginScript tn)) (H chunks.flatten)) ++
        [Ev.rename (.staging tn) (.cas (H chunks.flatten))]))
      (.put key (H chunks.flatten) (chunks.map List.length).sum)
      (.put key (H chunks.flatten) (chunks.map List.length).sum) = la at hres hpre
  have hany : ∀ dd, logAndApplyAny H m dd (.put key (H chunks.flatten) (chunks.map List.length).sum)
      (.put key (H chunks.flatten) (chunks.map List.length).sum) =
      logAndApply H m dd (.put key (H chunks.flatten) (chunks.map List.length).sum)
      (.put key (H chunks.flatten) (chunks.map List.length).sum) := by
    intro dd; simp [logAndApplyAny, hb.1, hb.2]
  rw [hany, hla]
  cases la with
  | error p => simp at hres
  | ok r =>
    obtain ⟨tailEvs, m'⟩ := r
    simp only at hpre ⊢
    -- `hpre` speaks about b ++ (stage ++ mk ++ mv ++ tail); bring it to head ++ tail
    have hall : beginScript tn ++ ([Ev.write (.staging tn) chunks.flatten] ++
          (if m.cfg.sync then [Ev.sync (.staging tn)] else []) ++
          (if m.preCreated then [] else mkdirsFor (d.applyAll (beginScript tn)) (H chunks.flatten)) ++
          [Ev.rename (.staging tn) (.cas (H chunks.flatten))] ++ tailEvs) =
        (beginScript tn ++ [Ev.write (.staging tn) chunks.flatten] ++
          (if m.cfg.sync then [Ev.sync (.staging tn)] else []) ++
          (if m.preCreated then [] else mkdirsFor (d.applyAll (beginScript tn)) (H chunks.flatten)) ++
          [Ev.rename (.staging tn) (.cas (H chunks.flatten))]) ++ tailEvs := by
      simp only [List.append_assoc]
    rw [hall] at hpre
    generalize hhead : (beginScript tn ++ [Ev.write (.staging tn) chunks.flatten] ++
          (if m.cfg.sync then [Ev.sync (.staging tn)] else []) ++
          (if m.preCreated then [] else mkdirsFor (d.applyAll (beginScript tn)) (H chunks.flatten)) ++
          [Ev.rename (.staging tn) (.cas (H chunks.flatten))]) = head at hpre ⊢
    unfold faultPutCore
    simp only
    cases hsp : (splitAtCounted k (head ++ tailEvs)).2.1 with
    | none =>
      simp only
      have := hpre (head ++ tailEvs).length
      rwa [List.take_length] at this
    | some e =>
      simp only
      obtain ⟨t1, t2⟩ := splitAtCounted_take k (head ++ tailEvs) e hsp
      by_cases hk : k < countedCount head
      · simp only [hk, ↓reduceIte]
        rw [Disk.applyAll_append]
        apply Recoverable.freeAll
        · rw [t1]; exact hpre _
        · intro x hx
          split at hx
          · simp only [List.mem_singleton] at hx; subst hx; simp [Ev.segFree, Ev.indexFree]
          · cases hx
      · simp only [hk, ↓reduceIte]
        have hb2 := splitAtCounted_beyond k head tailEvs e hsp hk
        rcases faultLogAndApply_events H m (.put key (H chunks.flatten) (chunks.map List.length).sum)
            (.put key (H chunks.flatten) (chunks.map List.length).sum)
            ((splitAtCounted k (head ++ tailEvs)).1.drop head.length) e with h | h
        · rw [h, hb2, t1]; exact hpre _
        · rw [h, ← List.append_assoc, hb2, t2]; exact hpre _

/-- **C14 image (checkpoint).** A failed call of an explicit checkpoint leaves a prefix of its
    script: recoverable to the unchanged history. -/
theorem C14_checkpoint_fault_image (so : StrictOrder kind.lt) (hH : Hash32 H) (m : Mem)
    (sys : Sys (KMap Bytes) Bytes) (hist : Recs Bytes) (d : Disk)
    (t : Tied H kind sz N m sys hist d) (hsave : SaveOK kind m.idx) (hver : m.next < U64) (k : Nat) :
    Recoverable H kind sz N [hist] (d.applyAll (faultCheckpoint m d k).events) := by
  obtain ⟨hpre, _⟩ := checkpoint_sim H kind sz N so .explicit m sys hist d d t hsave hver [hist] (by simp)
  unfold faultCheckpoint
  generalize hcs : checkpointScript .explicit m d = cs at hpre
  obtain ⟨all, m'⟩ := cs
  simp only at hpre ⊢
  cases hsp : (splitAtCounted k all).2.1 with
  | none =>
    simp only
    have := hpre all.length
    rwa [List.take_length] at this
  | some e =>
    obtain ⟨t1, _⟩ := splitAtCounted_take k all e hsp
    have hcut : Recoverable H kind sz N [hist] (d.applyAll (splitAtCounted k all).1) := by
      rw [t1]; exact hpre _
    cases e with
    | unlink f => cases f <;> exact hcut
    | _ => exact hcut

end CasModel
