import CasModel.Props.C03Blobs
import CasModel.Proofs.OpenOK
import CasModel.Props.C01Range
import CasModel.Props.C13
/-
  C03, the last sentence — "the recovered store is fully usable: further operations, checkpoints,
  crashes and reopens keep satisfying the same guarantee" — and the whole of C03 over histories, at
  the level of bytes and events, CONTENTS INCLUDED.

  `StoreLive` is the invariant that carries it: the handle is tied to the WAL machine (`Tied`), every
  key reads its content (`SInv`), every file name under cas/ is a digest (`Names32`), nothing
  foreign is in the tree.  Unlike `StoreOK` (Props/C02Hist) it tolerates what a kill leaves behind —
  unreferenced blob files and old staging files — so it survives kills.

    * `open_live`: `open` on ANY recoverable image whose blobs agree with a specification returns a
      handle (nothing missing, nothing corrupted — `scan_clean32`) and a live store.
    * each operation keeps `StoreLive`: put, remove, remove_range, checkpoint, clean restart, a
      transaction begun, written to and dropped (C13)
      (`StoreLive.put/remove/removeRange/checkpoint/reopen/abandoned`);
    * each operation KILLED after any number of its filesystem events and followed by `open` yields
      a live store again, for the old or the new specification, nothing else
      (`StoreLive.putCrash/removeCrash/removeRangeCrash/checkpointCrash/reopenCrash` — the last one
      is a kill inside the drop or inside start-up recovery itself; `abandonedPrefix` + `killOpen`
      for a kill inside an open transaction);
    * `C03_histories_with_crashes`: induction over arbitrary histories of all of these (`LOp`);
      `LReach` says which specifications the end state may have, `LReach.untouched` that a key no
      killed operation named reads the content of its last completed write;
    * `C03_first_open_crash_live`, `C03_from_empty_directory`: first-time initialisation, killed or
      not, and the whole story from an empty directory;
    * `StoreLive.cleanup`: `delete_orphans` after a crash restores exactness (`StoreOK`).

  Model-level assumptions (trusted base): staging names are fresh (`tn` counts up; the code uses
  `NamedTempFile`), the process-kill model of C03 (completed calls persist — power loss is C09),
  the usage guards `PutOK`/`RemoveOK`/`RangeOK` (u32/u64 fields fit, keys valid), `OpenOK` at every
  `open` (a settings file that passes the gate; the index recovered from THAT image fits the
  snapshot's fields), and `Inj H sz P` (no hash collision among stored contents).
-/
namespace CasModel
open Ghost

/-- every file under cas/ carries a 32-byte name (all the store ever renames there are digests) -/
def Names32 (d : Disk) : Prop := ∀ h x, d.get (.cas h) = some x → h.length = 32

/-- the event creates no cas/ file under a name that is not 32 bytes long -/
def Ev.makes32 : Ev → Bool
  | .creat (.cas h) _ => h.length == 32
  | .rename _ (.cas h) => h.length == 32
  | _ => true

theorem names32_apply (d : Disk) (hw : d.WF) (e : Ev) (he : e.makes32 = true) (n : Names32 d) :
    Names32 (d.apply e) := by
  intro h x hx
  cases e with
  | mkdir p => rw [Disk.get_mkdir] at hx; exact n h x hx
  | mkdirTree => exact n h x hx
  | flock => exact n h x hx
  | creat f t =>
    rw [Disk.get_creat] at hx
    by_cases c : FileId.cas h = f
    · subst c; simpa [Ev.makes32] using he
    · rw [if_neg c] at hx; exact n h x hx
  | write f bs =>
    rw [Disk.get_write] at hx
    by_cases c : FileId.cas h = f
    · rw [if_pos c] at hx
      cases hg : d.get f with
      | none => rw [hg] at hx; cases hx
      | some y => rw [← c] at hg; exact n h y hg
    · rw [if_neg c] at hx; exact n h x hx
  | sync f =>
    rw [Disk.get_sync] at hx
    by_cases c : FileId.cas h = f
    · rw [if_pos c] at hx
      cases hg : d.get f with
      | none => rw [hg] at hx; cases hx
      | some y => rw [← c] at hg; exact n h y hg
    · rw [if_neg c] at hx; exact n h x hx
  | unlink f =>
    rw [Disk.get_unlink d hw] at hx
    by_cases c : FileId.cas h = f
    · rw [if_pos c] at hx; cases hx
    · rw [if_neg c] at hx; exact n h x hx
  | rename a b =>
    rw [Disk.get_rename d hw] at hx
    cases ha : d.get a with
    | none => rw [ha] at hx; exact n h x hx
    | some y =>
      rw [ha] at hx
      simp only at hx
      by_cases c : FileId.cas h = b
      · subst c; simpa [Ev.makes32] using he
      · rw [if_neg c] at hx
        by_cases c2 : FileId.cas h = a
        · rw [if_pos c2] at hx; cases hx
        · rw [if_neg c2] at hx; exact n h x hx

theorem names32_applyAll (d : Disk) (hw : d.WF) (evs : List Ev) (he : ∀ e ∈ evs, e.makes32 = true)
    (n : Names32 d) : Names32 (d.applyAll evs) := by
  induction evs generalizing d with
  | nil => exact n
  | cons e es ih =>
    rw [Disk.applyAll_cons]
    exact ih _ (Disk.apply_WF d hw e) (fun e' h' => he e' (by simp [h']))
      (names32_apply d hw e (he e (by simp)) n)

theorem makes32_of_spares (e : Ev) (h : ∀ g, e.sparesCas g = true) : e.makes32 = true := by
  cases e with
  | creat f t => cases f <;> first | rfl | (have := h []; simp [Ev.sparesCas] at this)
  | rename a b =>
    cases b with
    | cas g => have := h g; simp [Ev.sparesCas] at this
    | _ => rfl
  | _ => rfl

/-- `scan_clean` (Props/C02Store) with unreferenced blob files allowed: what matters is that the
    names under cas/ are digests -/
theorem scan_clean32 (H : Bytes → Bytes) (sz : Bytes → Nat) (hH : Hash32 H) (P : Bytes → Prop)
    (hinj : Inj H sz P) (verify : Bool) (m : Mem) (d : Disk) (spec : Spec) (tn : Nat)
    (inv : SInv H sz m d spec tn) (hspecP : ∀ k c, spec k = some c → P c)
    (ng : Names32 d) (nostray : ∀ p, d.get (.stray p) = none) :
    (scanCanonical H verify m.idx d).missing = [] ∧ (scanCanonical H verify m.idx d).corrupted = [] := by
  -- every referenced hash: its key, its content, its file
  have href : ∀ h, 0 < countHash m.idx.map h →
      ∃ c x, h = H c ∧ P c ∧ d.get (.cas h) = some x ∧ x.data = c := by
    intro h hpos
    obtain ⟨e, he, heh⟩ := (countHash_pos_iff _ _).mp hpos
    have hl := mem_kLookup inv.so inv.idx.sorted (k := e.1) (v := e.2) he
    have := inv.agree e.1
    rw [hl] at this
    cases hs : spec e.1 with
    | none => rw [hs] at this; exact this.elim
    | some c =>
      rw [hs] at this
      simp only at this
      obtain ⟨a, _, x, hx, hd⟩ := this
      exact ⟨c, x, by rw [← heh, a], hspecP _ _ hs, by rw [← heh]; exact hx, hd⟩
  have h32 : ∀ h, 0 < countHash m.idx.map h → h.length = 32 := by
    intro h hp
    obtain ⟨c, _, e, _⟩ := href h hp
    rw [e]; exact hH c
  -- a file of the scanned tree at the canonical path of a referenced hash is that hash's blob file
  have htree : ∀ h content, 0 < countHash m.idx.map h → (relativePath h, content) ∈ treeFiles d →
      ∃ x, d.get (.cas h) = some x ∧ x.data = content := by
    intro h content hp hin
    simp only [treeFiles, List.mem_filterMap] at hin
    obtain ⟨⟨f, x⟩, hmem, hf⟩ := hin
    cases f with
    | cas h' =>
      simp only [Option.some.injEq, Prod.mk.injEq] at hf
      obtain ⟨hp', hc⟩ := hf
      have hget : d.get (.cas h') = some x := by
        unfold Disk.get
        exact fget_of_mem_wf d.files inv.wf _ _ hmem
      have : h' = h := C18_path_injective h' h (ng h' x hget) (h32 h hp) hp'
      subst this
      exact ⟨x, hget, hc⟩
    | stray p =>
      exfalso
      have hget : d.get (.stray p) = some x := by
        unfold Disk.get
        exact fget_of_mem_wf d.files inv.wf _ _ hmem
      rw [nostray p] at hget; cases hget
    | _ => simp at hf
  constructor
  · apply List.eq_nil_iff_forall_not_mem.mpr
    intro h hm
    have hd : h ∈ distinctHashes m.idx.map := by
      simp only [scanCanonical, scanTree, List.mem_filter] at hm; exact hm.1
    have hpos : 0 < countHash m.idx.map h := by
      rw [countHash_pos_iff]
      simp only [distinctHashes, List.mem_eraseDups, List.mem_map] at hd
      obtain ⟨e, he, heh⟩ := hd
      exact ⟨e, he, heh⟩
    have := (C08_missing_exact H verify m.idx.map (treeFiles d) h (h32 h hpos)).mp
      (by simpa [scanCanonical] using hm)
    obtain ⟨_, x, _, _, hx, _⟩ := href h hpos
    apply this.2
    refine ⟨x.data, ?_⟩
    simp only [treeFiles, List.mem_filterMap]
    exact ⟨(.cas h, x), fget_mem d.files _ _ hx, rfl⟩
  · apply List.eq_nil_iff_forall_not_mem.mpr
    intro h hm
    -- a corrupted report names a referenced hash
    have hm' : h ∈ (scanTree H verify m.idx.map (treeFiles d)).corrupted := by
      simpa [scanCanonical] using hm
    have hrefd : refd m.idx.map h = true := by
      simp only [scanTree, List.mem_filterMap, List.mem_map] at hm'
      obtain ⟨c, ⟨f, _, rfl⟩, hc⟩ := hm'
      split at hc
      · rename_i h' heq; injection hc with hc; subst hc
        exact ((classify_corrupt H verify m.idx.map f h').mp heq).2.2.1
      · cases hc
    have hpos := (refd_iff_count _ _).mp hrefd
    obtain ⟨_, _, content, hin, hbad⟩ :=
      (C08_corrupted_exact H verify m.idx.map (treeFiles d) h (h32 h hpos)).mp hm'
    obtain ⟨x, hx, hxc⟩ := htree h content hpos hin
    obtain ⟨c, x', hc, hPc, hx', hd'⟩ := href h hpos
    rw [hx] at hx'; injection hx' with hx'; subst hx'
    rcases hbad with hb | hb
    · apply hb
      rw [← hxc, hd']
      have hsz : sz h = c.length := by rw [hc]; exact hinj.2 c hPc
      rw [expectedSize_of_all m.idx.map h (sz h)
        (fun e he heh => by rw [inv.idx.mapSz e he, heh])
        ((countHash_pos_iff _ _).mp hpos), hsz]
    · apply hb
      rw [← hxc, hd', hc]

theorem logAndApply_makes32 (H : Bytes → Bytes) (m : Mem) (d : Disk) (op : Op Bytes) (raw : RawOp)
    (evs : List Ev) (m' : Mem) (h : logAndApply H m d op raw = .ok (evs, m')) :
    ∀ e ∈ evs, e.makes32 = true := by
  cases ha : applyOp m.cfg.kind.lt m.idx op with
  | error e => unfold logAndApply at h; simp [ha] at h
  | ok r =>
    obtain ⟨idx', unref⟩ := r
    have hp := logAndApply_parts H m d op raw idx' unref ha
    simp only at hp
    rw [hp] at h
    injection h with h; injection h with h1 _
    intro e he
    rw [← h1] at he
    rcases List.mem_append.mp he with he | he
    · rcases List.mem_append.mp he with he | he
      · rcases List.mem_append.mp he with he | he
        · unfold rollEvents at he
          split at he
          · cases he
          · simp only [List.mem_append, List.mem_singleton] at he
            rcases he with he | he
            · split at he
              · simp only [List.mem_cons, List.not_mem_nil, or_false] at he
                rcases he with rfl | rfl <;> rfl
              · cases he
            · subst he; rfl
        · simp only [List.mem_cons, List.not_mem_nil, or_false] at he
          rcases he with rfl | rfl <;> rfl
      · simp only [List.mem_map] at he
        obtain ⟨x, _, rfl⟩ := he
        rfl
    · have hck : ∀ (r : CkptReason) (mm : Mem) (dd : Disk), ∀ e ∈ (checkpointScript r mm dd).1,
          e.makes32 = true := by
        intro r mm dd e he
        unfold checkpointScript at he
        split at he
        · cases he
        · simp only [List.mem_append, List.mem_cons, List.not_mem_nil, or_false] at he
          rcases he with (rfl | rfl | rfl | rfl) | he
          · rfl
          · rfl
          · rfl
          · rfl
          · split at he
            · cases he
            · simp only [List.mem_map] at he
              obtain ⟨j, _, rfl⟩ := he
              rfl
      exact ite_fst_all' (P := fun e => e.makes32 = true) _ _ _ (hck _ _ _) (by simp) e he

/-- what the events of a put may touch: no foreign file, no staging file but the put's own, and
    the only file they create under cas/ carries a digest as its name -/
theorem putScript_benign (H : Bytes → Bytes) (hH : Hash32 H) (m : Mem) (d : Disk) (tn : Nat) (key : Bytes)
    (chunks : List Bytes) (evs : List Ev) (m' : Mem)
    (hrun : putScript H m d tn key chunks = (evs, m', .ok)) :
    ∀ e ∈ evs, (∀ p, e.touches (.stray p) = false) ∧ e.makes32 = true ∧
      (∀ t, t ≠ tn → e.touches (.staging t) = false) := by
  obtain ⟨evs2, hla, hevs⟩ := putScript_split H m d tn key chunks evs m' hrun
  intro e he
  rw [hevs] at he
  rcases List.mem_append.mp he with he | he
  · refine ⟨?_, ?_, (putHead_spares m d tn (H chunks.flatten) chunks.flatten e he).2⟩
    · intro p
      simp only [beginScript, List.mem_append, List.mem_cons, List.not_mem_nil, or_false] at he
      rcases he with ((he | he | he) | he) | he
      · subst he; rfl
      · subst he; rfl
      · split at he
        · simp only [List.mem_singleton] at he; subst he; rfl
        · cases he
      · split at he
        · cases he
        · unfold mkdirsFor at he
          split at he
          · simp only [List.mem_append] at he
            rcases he with he | he <;> (split at he <;> simp at he <;> subst he <;> rfl)
          · cases he
      · subst he; rfl
    · simp only [beginScript, List.mem_append, List.mem_cons, List.not_mem_nil, or_false] at he
      rcases he with ((he | he | he) | he) | he
      · subst he; rfl
      · subst he; rfl
      · split at he
        · simp only [List.mem_singleton] at he; subst he; rfl
        · cases he
      · split at he
        · cases he
        · unfold mkdirsFor at he
          split at he
          · simp only [List.mem_append] at he
            rcases he with he | he <;> (split at he <;> simp at he <;> subst he <;> rfl)
          · cases he
      · subst he
        simp [Ev.makes32, hH chunks.flatten]
  · exact ⟨fun p => logAndApply_stray H m _ _ _ evs2 m' hla p e he,
      logAndApply_makes32 H m _ _ _ evs2 m' hla e he,
      fun t _ => logAndApply_staging H m _ _ _ evs2 m' hla t e he⟩

theorem removeScript_benign (H : Bytes → Bytes) (m : Mem) (d : Disk) (key : Bytes)
    (evs : List Ev) (m' : Mem) (b : Bool) (hrs : removeScript H m d key = (evs, m', .ok b)) :
    ∀ e ∈ evs, (∀ p, e.touches (.stray p) = false) ∧ e.makes32 = true ∧
      (∀ t, e.touches (.staging t) = false) := by
  intro e he
  unfold removeScript at hrs
  split at hrs
  · simp only [Prod.mk.injEq] at hrs
    obtain ⟨h1, _⟩ := hrs
    rw [← h1] at he; cases he
  · split at hrs
    · simp at hrs
    · rename_i evs2 m2 hla
      simp only [Prod.mk.injEq] at hrs
      obtain ⟨h1, _⟩ := hrs
      rw [← h1] at he
      exact ⟨fun p => logAndApply_stray H m d _ _ evs2 m2 hla p e he,
        logAndApply_makes32 H m d _ _ evs2 m2 hla e he,
        fun t => logAndApply_staging H m d _ _ evs2 m2 hla t e he⟩

variable (H : Bytes → Bytes) (kind : KeyKind) (sz : Bytes → Nat) (N : Nat)

/-- a store one can go on using: tied to the WAL machine, every key reads its content, names under
    cas/ are digests, nothing foreign in the tree.  Unlike `StoreOK` (Props/C02Hist) it tolerates
    what a crash leaves behind: unreferenced blob files and old staging files. -/
structure StoreLive (m : Mem) (sys : Sys (KMap Bytes) Bytes) (hist : Recs Bytes) (d : Disk)
    (spec : Spec) (tn : Nat) : Prop where
  tied : Tied H kind sz N m sys hist d
  sinv : SInv H sz m d spec tn
  names : Names32 d
  nostray : ∀ p, d.get (.stray p) = none

/-- **`open` on any recoverable image whose blobs agree with a specification returns a live store**:
    it returns a handle (the integrity scan finds nothing missing and nothing corrupted, with or
    without verification), the handle's key map is the recovered one, and the store is `StoreLive`
    for that specification. -/
theorem open_live (so : StrictOrder kind.lt) (hH : Hash32 H) (P : Bytes → Prop) (hinj : Inj H sz P)
    (cfg : Config) (hk : cfg.kind = kind) (hn : cfg.N = N)
    (sysj : Sys (KMap Bytes) Bytes) (histj : Recs Bytes) (dj : Disk)
    (cj : DCfg H kind sz N sysj histj dj) (hdown : sysj.up = false)
    (mp : KMap Bytes) (hrun : run (stepM kind) [] histj = .ok mp) (spec : Spec) (tn : Nat)
    (ag : Agree H mp spec dj) (hspecP : ∀ k c, spec k = some c → P c)
    (names : Names32 dj) (nostray : ∀ p, dj.get (.stray p) = none)
    (fresh : ∀ t, tn ≤ t → dj.get (.staging t) = none)
    (ho : OpenOK H kind cfg dj) :
    ∃ m2 sys2 sc, (openBody H cfg dj).2 = .ok (m2, sc) ∧ sc.missing = [] ∧ sc.corrupted = [] ∧
      m2.idx.map = mp ∧
      StoreLive H kind sz N m2 sys2 histj (dj.applyAll (openBody H cfg dj).1) spec tn := by
  obtain ⟨e1, pre, hg, hsv⟩ := ho
  obtain ⟨acc, _, hr, _, _, m2, sys2, _, hmap2, _, t2, hres⟩ :=
    open_sim_full H kind sz N so hH cfg hk hn sysj histj dj cj hdown e1 pre hg hsv
  have hmap : m2.idx.map = mp := by
    rw [hmap2]; rw [hrun] at hr; injection hr with hr; exact hr.symm
  have hw := cj.rel.wf
  have hq := openBody_quiet H cfg dj
  have hcas : ∀ g, (dj.applyAll (openBody H cfg dj).1).get (.cas g) = dj.get (.cas g) :=
    fun g => sparesCas_frame_all dj hw g _ (fun e he => (hq e he).1 g)
  have hst : ∀ t', (dj.applyAll (openBody H cfg dj).1).get (.staging t') = dj.get (.staging t') :=
    fun t' => get_untouched_all dj hw _ _ (fun e he => (hq e he).2.1 t')
  have hstray : ∀ p, (dj.applyAll (openBody H cfg dj).1).get (.stray p) = none := by
    intro p
    rw [get_untouched_all dj hw _ _ (fun e he => (hq e he).2.2 p)]; exact nostray p
  have hnames : Names32 (dj.applyAll (openBody H cfg dj).1) :=
    names32_applyAll dj hw _ (fun e he => makes32_of_spares e (hq e he).1) names
  have inv2 : SInv H sz m2 (dj.applyAll (openBody H cfg dj).1) spec tn := by
    refine ⟨by rw [t2.kindEq]; exact so, by rw [t2.kindEq]; exact t2.inv, Disk.applyAll_WF dj hw _, ?_, ?_⟩
    · rw [hmap]
      exact ag.frame H mp spec dj _ (fun _ item _ => hcas item.hash)
    · intro t' ht'; rw [hst]; exact fresh t' ht'
  obtain ⟨hmiss, hcorr⟩ := scan_clean32 H sz hH P hinj cfg.verify m2 _ spec tn inv2 hspecP hnames hstray
  rw [hmiss, hcorr] at hres
  simp only [ne_eq, not_true_eq_false, or_self, and_false, ↓reduceIte] at hres
  exact ⟨m2, sys2, _, hres, hmiss, hcorr, hmap, t2, inv2, hnames, hstray⟩

/-- what a benign script, cut anywhere, leaves of the side conditions of `StoreLive` -/
theorem benign_prefix (d : Disk) (hw : d.WF) (names : Names32 d) (nostray : ∀ p, d.get (.stray p) = none)
    (tn : Nat) (fresh : ∀ t, tn ≤ t → d.get (.staging t) = none) (evs : List Ev)
    (hb : ∀ e ∈ evs, (∀ p, e.touches (.stray p) = false) ∧ e.makes32 = true ∧
      (∀ t, t ≠ tn → e.touches (.staging t) = false)) (j : Nat) :
    Names32 (d.applyAll (evs.take j)) ∧ (∀ p, (d.applyAll (evs.take j)).get (.stray p) = none) ∧
      ∀ t, tn + 1 ≤ t → (d.applyAll (evs.take j)).get (.staging t) = none := by
  have hm : ∀ e ∈ evs.take j, e ∈ evs := fun e he => List.mem_of_mem_take he
  refine ⟨names32_applyAll d hw _ (fun e he => (hb e (hm e he)).2.1) names, ?_, ?_⟩
  · intro p
    rw [get_untouched_all d hw _ _ (fun e he => (hb e (hm e he)).1 p)]; exact nostray p
  · intro t ht
    rw [get_untouched_all d hw _ _ (fun e he => (hb e (hm e he)).2.2 t (by omega))]
    exact fresh t (by omega)

/-- **put keeps `StoreLive`** -/
theorem StoreLive.put (so : StrictOrder kind.lt) (hH : Hash32 H) (P : Bytes → Prop) (hinj : Inj H sz P)
    (m : Mem) (sys : Sys (KMap Bytes) Bytes) (hist : Recs Bytes) (d : Disk) (spec : Spec) (tn : Nat)
    (ok : StoreLive H kind sz N m sys hist d spec tn) (hspecP : ∀ k c, spec k = some c → P c)
    (key : Bytes) (chunks : List Bytes) (hP : P chunks.flatten)
    (hraw : (RawOp.put key (H chunks.flatten) (chunks.map List.length).sum).WF)
    (hval : kind.valid key = true)
    (hwf : (⟨m.next, serWalOp (.put key (H chunks.flatten) (chunks.map List.length).sum)⟩ : Rec).WF)
    (hsave : ∀ idx' un, applyOp kind.lt m.idx
        (.put key (H chunks.flatten) (chunks.map List.length).sum) = .ok (idx', un) → SaveOK kind idx')
    (hver : m.next + 1 < U64) :
    ∃ evs m' sys' hist', putScript H m d tn key chunks = (evs, m', .ok) ∧
      StoreLive H kind sz N m' sys' hist' (d.applyAll evs)
        (fun k => if k = key then some chunks.flatten else spec k) (tn + 1) := by
  have hlen : (chunks.map List.length).sum = chunks.flatten.length := by rw [List.length_flatten]
  have hsz : (chunks.map List.length).sum = sz (H chunks.flatten) := by rw [hlen, hinj.2 _ hP]
  obtain ⟨_, _, sys', t'⟩ := putScript_sim H kind sz N so hH m sys hist d ok.tied tn key chunks hraw hval
    hsz hwf hsave hver
  obtain ⟨evs, m', hrun, inv'⟩ := putScript_sinv H sz m d spec tn ok.sinv key chunks P hinj hP hspecP
  rw [hrun] at t'
  have hb := putScript_benign H hH m d tn key chunks evs m' hrun
  refine ⟨evs, m', sys', _, hrun, t', inv', ?_, ?_⟩
  · exact names32_applyAll d ok.sinv.wf _ (fun e he => (hb e he).2.1) ok.names
  · intro p
    rw [get_untouched_all d ok.sinv.wf _ _ (fun e he => (hb e he).1 p)]; exact ok.nostray p

/-- **remove keeps `StoreLive`** -/
theorem StoreLive.remove (so : StrictOrder kind.lt) (hH : Hash32 H)
    (m : Mem) (sys : Sys (KMap Bytes) Bytes) (hist : Recs Bytes) (d : Disk) (spec : Spec) (tn : Nat)
    (ok : StoreLive H kind sz N m sys hist d spec tn) (key : Bytes)
    (hraw : (RawOp.remove [key]).WF) (hval : kind.valid key = true)
    (hwf : (⟨m.next, serWalOp (.remove [key])⟩ : Rec).WF)
    (hsave : ∀ idx' un, applyOp kind.lt m.idx (.remove [key]) = .ok (idx', un) → SaveOK kind idx')
    (hver : m.next + 1 < U64) :
    ∃ evs m' b sys' hist', removeScript H m d key = (evs, m', .ok b) ∧ b = (spec key).isSome ∧
      StoreLive H kind sz N m' sys' hist' (d.applyAll evs) (fun k => if k = key then none else spec k) tn := by
  obtain ⟨_, sys', hist', _, t'⟩ := removeScript_sim H kind sz N so hH m sys hist d ok.tied key hraw hval
    hwf hsave hver
  obtain ⟨b, hres, hb, inv'⟩ := removeScript_sinv H sz m d spec tn ok.sinv key
  generalize hrs : removeScript H m d key = r at t' hres inv'
  obtain ⟨evs, m', res⟩ := r
  simp only at t' hres inv'
  subst hres
  have hbn := removeScript_benign H m d key evs m' b hrs
  refine ⟨evs, m', b, sys', hist', rfl, hb, t', inv', ?_, ?_⟩
  · exact names32_applyAll d ok.sinv.wf _ (fun e he => (hbn e he).2.1) ok.names
  · intro p
    rw [get_untouched_all d ok.sinv.wf _ _ (fun e he => (hbn e he).1 p)]; exact ok.nostray p

/-- the events of dropping the handle -/
theorem closeScript_benign (m : Mem) : ∀ e ∈ closeScript m,
    (e.segFree = true ∧ e.indexFree = true) ∧ (∀ g, e.sparesCas g = true) ∧
    (∀ t, e.touches (.staging t) = false) ∧ (∀ p, e.touches (.stray p) = false) := by
  intro e he
  unfold closeScript at he
  split at he
  · simp only [List.mem_singleton] at he; subst he
    exact ⟨by simp [Ev.segFree, Ev.indexFree], fun _ => rfl, fun _ => rfl, fun _ => rfl⟩
  · cases he

/-- **a clean restart keeps `StoreLive`** and returns a handle — also when unreferenced blob files
    and old staging files are lying around (a restart after a crash that nobody cleaned up after) -/
theorem StoreLive.reopen (so : StrictOrder kind.lt) (hH : Hash32 H) (P : Bytes → Prop) (hinj : Inj H sz P)
    (m : Mem) (sys : Sys (KMap Bytes) Bytes) (hist : Recs Bytes) (d : Disk) (spec : Spec) (tn : Nat)
    (ok : StoreLive H kind sz N m sys hist d spec tn) (hspecP : ∀ k c, spec k = some c → P c)
    (cfg : Config) (hk : cfg.kind = kind) (hn : cfg.N = N) (ho : OpenOK H kind cfg (d.applyAll (closeScript m))) :
    ∃ m2 sys2 sc, (openBody H cfg (d.applyAll (closeScript m))).2 = .ok (m2, sc) ∧
      sc.missing = [] ∧ sc.corrupted = [] ∧ m2.idx.map = m.idx.map ∧
      StoreLive H kind sz N m2 sys2 hist ((d.applyAll (closeScript m)).applyAll
        (openBody H cfg (d.applyAll (closeScript m))).1) spec tn := by
  have hc := closeScript_benign m
  have hw := ok.sinv.wf
  have c1 := (ok.tied.cfg.toDCfg.freeAll H kind sz N sys hist d (closeScript m) (fun e he => (hc e he).1)).crash
    H kind sz N sys hist _
  refine open_live H kind sz N so hH P hinj cfg hk hn _ hist _ c1 rfl m.idx.map (ok.tied.mem_eq H kind sz N)
    spec tn ?_ hspecP ?_ ?_ ?_ ho
  · exact Agree.frame H _ _ d _ ok.sinv.agree
      (fun _ item _ => sparesCas_frame_all d hw _ _ (fun e he => (hc e he).2.1 _))
  · exact names32_applyAll d hw _ (fun e he => makes32_of_spares e (hc e he).2.1) ok.names
  · intro p
    rw [get_untouched_all d hw _ _ (fun e he => (hc e he).2.2.2 p)]; exact ok.nostray p
  · intro t ht
    rw [get_untouched_all d hw _ _ (fun e he => (hc e he).2.2.1 t)]; exact ok.sinv.fresh t ht

/-- **kill a put anywhere, open again: a live store** for the old or the new specification.  `open`
    returns a handle (nothing missing, nothing corrupted), and the store it returns is `StoreLive`
    again — so everything proved from `StoreLive` applies to it: further puts, removes, restarts, and
    further kills. -/
theorem StoreLive.putCrash (so : StrictOrder kind.lt) (hH : Hash32 H) (P : Bytes → Prop) (hinj : Inj H sz P)
    (m : Mem) (sys : Sys (KMap Bytes) Bytes) (hist : Recs Bytes) (d : Disk) (spec : Spec) (tn : Nat)
    (ok : StoreLive H kind sz N m sys hist d spec tn) (hspecP : ∀ k c, spec k = some c → P c)
    (key : Bytes) (chunks : List Bytes) (hP : P chunks.flatten)
    (hraw : (RawOp.put key (H chunks.flatten) (chunks.map List.length).sum).WF)
    (hval : kind.valid key = true)
    (hwf : (⟨m.next, serWalOp (.put key (H chunks.flatten) (chunks.map List.length).sum)⟩ : Rec).WF)
    (hsave : ∀ idx' un, applyOp kind.lt m.idx
        (.put key (H chunks.flatten) (chunks.map List.length).sum) = .ok (idx', un) → SaveOK kind idx')
    (hver : m.next + 1 < U64)
    (cfg : Config) (hk : cfg.kind = kind) (hn : cfg.N = N) (j : Nat) (ho : OpenOK H kind cfg (d.applyAll ((putScript H m d tn key chunks).1.take j))) :
    ∃ m2 sys2 hist2 sc spec2,
      (openBody H cfg (d.applyAll ((putScript H m d tn key chunks).1.take j))).2 = .ok (m2, sc) ∧
      sc.missing = [] ∧ sc.corrupted = [] ∧
      (spec2 = spec ∨ spec2 = fun k => if k = key then some chunks.flatten else spec k) ∧
      StoreLive H kind sz N m2 sys2 hist2 ((d.applyAll ((putScript H m d tn key chunks).1.take j)).applyAll
        (openBody H cfg (d.applyAll ((putScript H m d tn key chunks).1.take j))).1) spec2 (tn + 1) := by
  have hlen : (chunks.map List.length).sum = chunks.flatten.length := by rw [List.length_flatten]
  have hop : (chunks.map List.length).sum = sz (H chunks.flatten) := by rw [hlen, hinj.2 _ hP]
  obtain ⟨hres, hpre, _⟩ := putScript_sim H kind sz N so hH m sys hist d ok.tied tn key chunks hraw hval hop
    hwf hsave hver
  obtain ⟨a, hla, _, hcase⟩ := C03_put_crash_contents H kind sz N so hH P hinj m sys hist d ok.tied spec tn
    ok.sinv hspecP key chunks hP hraw hval hwf hsave hver j
  have hb : ∀ e ∈ (putScript H m d tn key chunks).1, (∀ p, e.touches (.stray p) = false) ∧
      e.makes32 = true ∧ (∀ t, t ≠ tn → e.touches (.staging t) = false) := by
    generalize hps : putScript H m d tn key chunks = ps at hres
    obtain ⟨evs, m', res⟩ := ps
    simp only at hres; subst hres
    exact putScript_benign H hH m d tn key chunks evs m' hps
  obtain ⟨hnames, hstray, hfresh⟩ := benign_prefix d ok.sinv.wf ok.names ok.nostray tn ok.sinv.fresh _ hb j
  generalize hdj : d.applyAll ((putScript H m d tn key chunks).1.take j) = dj at ho hla hcase hnames hstray hfresh ⊢
  obtain ⟨sysj, histj, _, cj⟩ := hpre j
  rw [hdj] at cj
  obtain ⟨a', l1, l2, _⟩ := cj.recovers H hH kind so sz N sysj histj dj
  rw [hla] at l1; injection l1 with l1; subst l1
  have hsp1 : ∀ k c, (fun k => if k = key then some chunks.flatten else spec k) k = some c → P c := by
    intro k c hc
    simp only at hc
    by_cases ck : k = key
    · simp only [ck, ↓reduceIte, Option.some.injEq] at hc; rw [← hc]; exact hP
    · simp only [ck, ↓reduceIte] at hc; exact hspecP k c hc
  rcases hcase with ⟨_, ag⟩ | ⟨_, ag⟩
  · obtain ⟨m2, sys2, sc, h1, h2, h3, _, live⟩ := open_live H kind sz N so hH P hinj cfg hk hn _ histj dj
      (cj.crash H kind sz N sysj histj dj) rfl a.idx.map l2 spec (tn + 1) ag hspecP hnames hstray hfresh
      ho
    exact ⟨m2, sys2, histj, sc, spec, h1, h2, h3, Or.inl rfl, live⟩
  · obtain ⟨m2, sys2, sc, h1, h2, h3, _, live⟩ := open_live H kind sz N so hH P hinj cfg hk hn _ histj dj
      (cj.crash H kind sz N sysj histj dj) rfl a.idx.map l2 _ (tn + 1) ag hsp1 hnames hstray hfresh
      ho
    exact ⟨m2, sys2, histj, sc, _, h1, h2, h3, Or.inr rfl, live⟩

/-- **kill a remove anywhere, open again: a live store** for the old or the new specification -/
theorem StoreLive.removeCrash (so : StrictOrder kind.lt) (hH : Hash32 H) (P : Bytes → Prop)
    (hinj : Inj H sz P)
    (m : Mem) (sys : Sys (KMap Bytes) Bytes) (hist : Recs Bytes) (d : Disk) (spec : Spec) (tn : Nat)
    (ok : StoreLive H kind sz N m sys hist d spec tn) (hspecP : ∀ k c, spec k = some c → P c)
    (key : Bytes)
    (hraw : (RawOp.remove [key]).WF) (hval : kind.valid key = true)
    (hwf : (⟨m.next, serWalOp (.remove [key])⟩ : Rec).WF)
    (hsave : ∀ idx' un, applyOp kind.lt m.idx (.remove [key]) = .ok (idx', un) → SaveOK kind idx')
    (hver : m.next + 1 < U64)
    (cfg : Config) (hk : cfg.kind = kind) (hn : cfg.N = N) (j : Nat) (ho : OpenOK H kind cfg (d.applyAll ((removeScript H m d key).1.take j))) :
    ∃ m2 sys2 hist2 sc spec2,
      (openBody H cfg (d.applyAll ((removeScript H m d key).1.take j))).2 = .ok (m2, sc) ∧
      sc.missing = [] ∧ sc.corrupted = [] ∧
      (spec2 = spec ∨ spec2 = fun k => if k = key then none else spec k) ∧
      StoreLive H kind sz N m2 sys2 hist2 ((d.applyAll ((removeScript H m d key).1.take j)).applyAll
        (openBody H cfg (d.applyAll ((removeScript H m d key).1.take j))).1) spec2 tn := by
  obtain ⟨hpre, _⟩ := removeScript_sim H kind sz N so hH m sys hist d ok.tied key hraw hval hwf hsave hver
  obtain ⟨a, hla, _, hcase⟩ := C03_remove_crash_contents H kind sz N so hH m sys hist d ok.tied spec tn
    ok.sinv key hraw hval hwf hsave hver j
  obtain ⟨b, hres, _, _⟩ := removeScript_sinv H sz m d spec tn ok.sinv key
  have hb : ∀ e ∈ (removeScript H m d key).1, (∀ p, e.touches (.stray p) = false) ∧
      e.makes32 = true ∧ (∀ t, e.touches (.staging t) = false) := by
    generalize hps : removeScript H m d key = ps at hres
    obtain ⟨evs, m', res⟩ := ps
    simp only at hres; subst hres
    exact removeScript_benign H m d key evs m' b hps
  have hm : ∀ e ∈ (removeScript H m d key).1.take j, e ∈ (removeScript H m d key).1 :=
    fun e he => List.mem_of_mem_take he
  have hw := ok.sinv.wf
  have hnames : Names32 (d.applyAll ((removeScript H m d key).1.take j)) :=
    names32_applyAll d hw _ (fun e he => (hb e (hm e he)).2.1) ok.names
  have hstray : ∀ p, (d.applyAll ((removeScript H m d key).1.take j)).get (.stray p) = none := by
    intro p
    rw [get_untouched_all d hw _ _ (fun e he => (hb e (hm e he)).1 p)]; exact ok.nostray p
  have hfresh : ∀ t, tn ≤ t → (d.applyAll ((removeScript H m d key).1.take j)).get (.staging t) = none := by
    intro t ht
    rw [get_untouched_all d hw _ _ (fun e he => (hb e (hm e he)).2.2 t)]; exact ok.sinv.fresh t ht
  generalize hdj : d.applyAll ((removeScript H m d key).1.take j) = dj at ho hla hcase hnames hstray hfresh ⊢
  obtain ⟨sysj, histj, _, cj⟩ := hpre j
  rw [hdj] at cj
  obtain ⟨a', l1, l2, _⟩ := cj.recovers H hH kind so sz N sysj histj dj
  rw [hla] at l1; injection l1 with l1; subst l1
  have hsp1 : ∀ k c, (fun k => if k = key then none else spec k) k = some c → P c := by
    intro k c hc
    simp only at hc
    by_cases ck : k = key
    · simp [ck] at hc
    · simp only [ck, ↓reduceIte] at hc; exact hspecP k c hc
  rcases hcase with ⟨_, ag⟩ | ⟨_, ag⟩
  · obtain ⟨m2, sys2, sc, h1, h2, h3, _, live⟩ := open_live H kind sz N so hH P hinj cfg hk hn _ histj dj
      (cj.crash H kind sz N sysj histj dj) rfl a.idx.map l2 spec tn ag hspecP hnames hstray hfresh
      ho
    exact ⟨m2, sys2, histj, sc, spec, h1, h2, h3, Or.inl rfl, live⟩
  · obtain ⟨m2, sys2, sc, h1, h2, h3, _, live⟩ := open_live H kind sz N so hH P hinj cfg hk hn _ histj dj
      (cj.crash H kind sz N sysj histj dj) rfl a.idx.map l2 _ tn ag hsp1 hnames hstray hfresh
      ho
    exact ⟨m2, sys2, histj, sc, _, h1, h2, h3, Or.inr rfl, live⟩

/-- **kill a restart anywhere (inside the drop or inside `open`), open again: the same live store** -/
theorem StoreLive.reopenCrash (so : StrictOrder kind.lt) (hH : Hash32 H) (P : Bytes → Prop)
    (hinj : Inj H sz P)
    (m : Mem) (sys : Sys (KMap Bytes) Bytes) (hist : Recs Bytes) (d : Disk) (spec : Spec) (tn : Nat)
    (ok : StoreLive H kind sz N m sys hist d spec tn) (hspecP : ∀ k c, spec k = some c → P c)
    (cfg0 : Config) (hk0 : cfg0.kind = kind) (hn0 : cfg0.N = N) (ho0 : OpenOK H kind cfg0 (d.applyAll (closeScript m)))
    (cfg : Config) (hk : cfg.kind = kind) (hn : cfg.N = N) (j : Nat) (ho : OpenOK H kind cfg (d.applyAll ((closeScript m ++
      (openBody H cfg0 (d.applyAll (closeScript m))).1).take j))) :
    ∃ m2 sys2 sc,
      (openBody H cfg (d.applyAll ((closeScript m ++
        (openBody H cfg0 (d.applyAll (closeScript m))).1).take j))).2 = .ok (m2, sc) ∧
      sc.missing = [] ∧ sc.corrupted = [] ∧ m2.idx.map = m.idx.map ∧
      StoreLive H kind sz N m2 sys2 hist ((d.applyAll ((closeScript m ++
        (openBody H cfg0 (d.applyAll (closeScript m))).1).take j)).applyAll
        (openBody H cfg (d.applyAll ((closeScript m ++
          (openBody H cfg0 (d.applyAll (closeScript m))).1).take j))).1) spec tn := by
  obtain ⟨e0, pre0, hg0, hsv0⟩ := ho0
  have hc := closeScript_benign m
  have hw := ok.sinv.wf
  have c1 := (ok.tied.cfg.toDCfg.freeAll H kind sz N sys hist d (closeScript m) (fun e he => (hc e he).1)).crash
    H kind sz N sys hist _
  obtain ⟨_, _, _, _, hpre2, _⟩ :=
    open_sim_full H kind sz N so hH cfg0 hk0 hn0 _ hist _ c1 rfl e0 pre0 hg0 hsv0
  have hpre : AllPre (Recoverable H kind sz N [hist]) d
      (closeScript m ++ (openBody H cfg0 (d.applyAll (closeScript m))).1) :=
    allPre_append _ d _ _ (allPre_free H kind sz N sys hist d ok.tied.cfg [hist] (by simp) _
      (fun e he => (hc e he).1)) hpre2
  have hq : ∀ e ∈ closeScript m ++ (openBody H cfg0 (d.applyAll (closeScript m))).1,
      (∀ g, e.sparesCas g = true) ∧ (∀ t, e.touches (.staging t) = false) ∧
      (∀ p, e.touches (.stray p) = false) := by
    intro e he
    rcases List.mem_append.mp he with he | he
    · exact (hc e he).2
    · exact openBody_quiet H cfg0 _ e he
  have hm : ∀ e ∈ (closeScript m ++ (openBody H cfg0 (d.applyAll (closeScript m))).1).take j,
      e ∈ closeScript m ++ (openBody H cfg0 (d.applyAll (closeScript m))).1 :=
    fun e he => List.mem_of_mem_take he
  obtain ⟨sysj, histj, hmem, cj⟩ := hpre j
  simp only [List.mem_singleton] at hmem; subst hmem
  refine open_live H kind sz N so hH P hinj cfg hk hn _ histj _ (cj.crash H kind sz N sysj histj _) rfl
    m.idx.map (ok.tied.mem_eq H kind sz N) spec tn ?_ hspecP ?_ ?_ ?_ ho
  · exact Agree.frame H _ _ d _ ok.sinv.agree
      (fun _ item _ => sparesCas_frame_all d hw _ _ (fun e he => (hq e (hm e he)).1 _))
  · exact names32_applyAll d hw _ (fun e he => makes32_of_spares e (hq e (hm e he)).1) ok.names
  · intro p
    rw [get_untouched_all d hw _ _ (fun e he => (hq e (hm e he)).2.2 p)]; exact ok.nostray p
  · intro t ht
    rw [get_untouched_all d hw _ _ (fun e he => (hq e (hm e he)).2.1 t)]; exact ok.sinv.fresh t ht

/-- the events of a checkpoint: index file and segment files only -/
theorem checkpointScript_quiet (r : CkptReason) (mm : Mem) (dd : Disk) :
    ∀ e ∈ (checkpointScript r mm dd).1, (∀ g, e.sparesCas g = true) ∧
      (∀ t, e.touches (.staging t) = false) ∧ (∀ p, e.touches (.stray p) = false) := by
  intro e he
  unfold checkpointScript at he
  split at he
  · cases he
  · simp only [List.mem_append, List.mem_cons, List.not_mem_nil, or_false] at he
    rcases he with (rfl | rfl | rfl | rfl) | he
    · exact ⟨fun _ => rfl, fun _ => rfl, fun _ => rfl⟩
    · exact ⟨fun _ => rfl, fun _ => rfl, fun _ => rfl⟩
    · exact ⟨fun _ => rfl, fun _ => rfl, fun _ => rfl⟩
    · exact ⟨fun _ => rfl, fun _ => rfl, fun _ => rfl⟩
    · split at he
      · cases he
      · simp only [List.mem_map] at he
        obtain ⟨j, _, rfl⟩ := he
        exact ⟨fun _ => rfl, fun _ => rfl, fun _ => rfl⟩

theorem checkpointScript_map (r : CkptReason) (mm : Mem) (dd : Disk) :
    (checkpointScript r mm dd).2.idx.map = mm.idx.map ∧ (checkpointScript r mm dd).2.cfg = mm.cfg := by
  unfold checkpointScript
  split <;> exact ⟨rfl, rfl⟩

/-- **an explicit checkpoint keeps `StoreLive`** (same specification) -/
theorem StoreLive.checkpoint (so : StrictOrder kind.lt)
    (m : Mem) (sys : Sys (KMap Bytes) Bytes) (hist : Recs Bytes) (d : Disk) (spec : Spec) (tn : Nat)
    (ok : StoreLive H kind sz N m sys hist d spec tn) (hsave : SaveOK kind m.idx) (hver : m.next < U64) :
    ∃ sys', StoreLive H kind sz N (checkpointScript .explicit m d).2 sys' hist
      (d.applyAll (checkpointScript .explicit m d).1) spec tn := by
  obtain ⟨_, sys', t'⟩ := checkpoint_sim H kind sz N so .explicit m sys hist d d ok.tied hsave hver [hist]
    (by simp)
  have hq := checkpointScript_quiet .explicit m d
  have hw := ok.sinv.wf
  obtain ⟨hmap, hcfg⟩ := checkpointScript_map .explicit m d
  refine ⟨sys', t', ⟨by rw [hcfg]; exact ok.sinv.so, by rw [t'.kindEq]; exact t'.inv,
    Disk.applyAll_WF d hw _, ?_, ?_⟩, ?_, ?_⟩
  · rw [hmap]
    exact Agree.frame H _ _ d _ ok.sinv.agree
      (fun _ item _ => sparesCas_frame_all d hw _ _ (fun e he => (hq e he).1 _))
  · intro t ht
    rw [get_untouched_all d hw _ _ (fun e he => (hq e he).2.1 t)]; exact ok.sinv.fresh t ht
  · exact names32_applyAll d hw _ (fun e he => makes32_of_spares e (hq e he).1) ok.names
  · intro p
    rw [get_untouched_all d hw _ _ (fun e he => (hq e he).2.2 p)]; exact ok.nostray p

/-- **kill an explicit checkpoint anywhere, open again: the same live store** -/
theorem StoreLive.checkpointCrash (so : StrictOrder kind.lt) (hH : Hash32 H) (P : Bytes → Prop)
    (hinj : Inj H sz P)
    (m : Mem) (sys : Sys (KMap Bytes) Bytes) (hist : Recs Bytes) (d : Disk) (spec : Spec) (tn : Nat)
    (ok : StoreLive H kind sz N m sys hist d spec tn) (hspecP : ∀ k c, spec k = some c → P c)
    (hsave : SaveOK kind m.idx) (hver : m.next < U64)
    (cfg : Config) (hk : cfg.kind = kind) (hn : cfg.N = N) (j : Nat) (ho : OpenOK H kind cfg (d.applyAll ((checkpointScript .explicit m d).1.take j))) :
    ∃ m2 sys2 sc,
      (openBody H cfg (d.applyAll ((checkpointScript .explicit m d).1.take j))).2 = .ok (m2, sc) ∧
      sc.missing = [] ∧ sc.corrupted = [] ∧ m2.idx.map = m.idx.map ∧
      StoreLive H kind sz N m2 sys2 hist ((d.applyAll ((checkpointScript .explicit m d).1.take j)).applyAll
        (openBody H cfg (d.applyAll ((checkpointScript .explicit m d).1.take j))).1) spec tn := by
  obtain ⟨hpre, _⟩ := checkpoint_sim H kind sz N so .explicit m sys hist d d ok.tied hsave hver [hist]
    (by simp)
  have hq := checkpointScript_quiet .explicit m d
  have hw := ok.sinv.wf
  have hm : ∀ e ∈ (checkpointScript .explicit m d).1.take j, e ∈ (checkpointScript .explicit m d).1 :=
    fun e he => List.mem_of_mem_take he
  obtain ⟨sysj, histj, hmem, cj⟩ := hpre j
  simp only [List.mem_singleton] at hmem; subst hmem
  refine open_live H kind sz N so hH P hinj cfg hk hn _ histj _ (cj.crash H kind sz N sysj histj _) rfl
    m.idx.map (ok.tied.mem_eq H kind sz N) spec tn ?_ hspecP ?_ ?_ ?_ ho
  · exact Agree.frame H _ _ d _ ok.sinv.agree
      (fun _ item _ => sparesCas_frame_all d hw _ _ (fun e he => (hq e (hm e he)).1 _))
  · exact names32_applyAll d hw _ (fun e he => makes32_of_spares e (hq e (hm e he)).1) ok.names
  · intro p
    rw [get_untouched_all d hw _ _ (fun e he => (hq e (hm e he)).2.2 p)]; exact ok.nostray p
  · intro t ht
    rw [get_untouched_all d hw _ _ (fun e he => (hq e (hm e he)).2.1 t)]; exact ok.sinv.fresh t ht

/-! ### `remove_range` ("a multi-key range removal is one operation") -/

/-- the commit of a multi-key Remove record keeps the sequential invariant, for the specification
    without those keys -/
theorem removeKeys_sinv (H : Bytes → Bytes) (sz : Bytes → Nat) (m : Mem) (d : Disk) (spec : Spec)
    (tn : Nat) (inv : SInv H sz m d spec tn) (keys : List Bytes) :
    ∃ evs m', logAndApply H m d (.remove keys) (.remove keys) = .ok (evs, m') ∧
      SInv H sz m' (d.applyAll evs) (fun k => if k ∈ keys then none else spec k) tn := by
  obtain ⟨idx', unref, happ, ok, hl⟩ := applyOp_spec inv.so sz m.idx inv.idx (.remove keys) trivial
  obtain ⟨evs, m', hla, ⟨hm1, hm2, hcfg, hm4, hm5⟩, hsp⟩ := logAndApply_spec H m d
    (.remove keys) (.remove keys) idx' unref happ
  refine ⟨evs, m', hla, by rw [hcfg]; exact inv.so, ?_, Disk.applyAll_WF d inv.wf _, ?_, ?_⟩
  · rw [hcfg]
    have := ok.inv
    exact ⟨by simpa [hm1] using this.sorted, by simpa [hm1] using this.mapSz,
           by simpa [hm2] using this.rcNodup, by simpa [hm1, hm2] using this.rcOK,
           by simpa [hm2, hm4] using this.unique, by simpa [hm2, hm5] using this.total⟩
  · intro k
    rw [hm1, hl k]
    by_cases ck : k ∈ keys
    · simp [specApply, ck]
    · simp only [specApply, ck, ↓reduceIte]
      have hag := inv.agree k
      cases h1 : kLookup m.idx.map k with
      | none => cases h2 : spec k <;> simp [h1, h2] at hag ⊢
      | some item =>
        cases h2 : spec k with
        | none => simp [h1, h2] at hag
        | some c =>
          simp only [h1, h2] at hag ⊢
          obtain ⟨a1, a2, y, hy, hyd⟩ := hag
          refine ⟨a1, a2, y, ?_, hyd⟩
          have hstill : item.hash ∉ unref := by
            intro hin
            have h0 := ((ok.unref _).mp hin).2
            have hk' : kLookup idx'.map k = some item := by
              rw [hl k]; simp [specApply, ck, h1]
            have := countHash_pos_of_lookup hk'
            omega
          rw [sparesCas_frame_all d inv.wf _ evs (hsp _ hstill), hy]
  · intro t ht
    rw [get_untouched_all d inv.wf _ evs (logAndApply_staging H m d _ _ evs m' hla t)]
    exact inv.fresh t ht

/-- removing the keys of the index that lie within the bounds = removing everything within the
    bounds, as far as a specification that agrees with the index is concerned -/
theorem rangeSpec_eq (H : Bytes → Bytes) (sz : Bytes → Nat) (m : Mem) (d : Disk) (spec : Spec) (tn : Nat)
    (inv : SInv H sz m d spec tn) (lo hi : Bound) :
    (fun k => if k ∈ rangeKeys m lo hi then none else spec k) =
      fun k => if inRange m.cfg.kind.lt lo hi k = true then none else spec k := by
  funext k
  by_cases hin : inRange m.cfg.kind.lt lo hi k = true
  · simp only [hin, ↓reduceIte]
    by_cases hk : k ∈ rangeKeys m lo hi
    · simp [hk]
    · simp only [hk, ↓reduceIte]
      have hag := inv.agree k
      cases hq : kLookup m.idx.map k with
      | none => cases h2 : spec k <;> simp [hq, h2] at hag ⊢
      | some item =>
        exfalso; exact hk ((mem_rangeKeys m inv.so inv.idx.sorted lo hi k).mpr ⟨by rw [hq]; rfl, hin⟩)
  · have hk : k ∉ rangeKeys m lo hi :=
      fun c => hin ((mem_rangeKeys m inv.so inv.idx.sorted lo hi k).mp c).2
    simp [hin, hk]


/-- the usage guards of one range removal in a given state -/
def RangeOK (m : Mem) (lo hi : Bound) : Prop :=
  (RawOp.remove (rangeKeys m lo hi)).WF ∧ (rangeKeys m lo hi).all kind.valid = true ∧
  (⟨m.next, serWalOp (.remove (rangeKeys m lo hi))⟩ : Rec).WF ∧
  (∀ idx' un, applyOp kind.lt m.idx (.remove (rangeKeys m lo hi)) = .ok (idx', un) → SaveOK kind idx') ∧
  m.next + 1 < U64

theorem logAndApply_benign (m : Mem) (d : Disk) (op : Op Bytes) (raw : RawOp)
    (evs : List Ev) (m' : Mem) (h : logAndApply H m d op raw = .ok (evs, m')) :
    ∀ e ∈ evs, (∀ p, e.touches (.stray p) = false) ∧ e.makes32 = true ∧
      (∀ t, e.touches (.staging t) = false) :=
  fun e he => ⟨fun p => logAndApply_stray H m d _ _ evs m' h p e he,
    logAndApply_makes32 H m d _ _ evs m' h e he,
    fun t => logAndApply_staging H m d _ _ evs m' h t e he⟩

/-- **remove_range keeps `StoreLive`**: exactly the keys within the bounds are gone -/
theorem StoreLive.removeRange (so : StrictOrder kind.lt) (hH : Hash32 H)
    (m : Mem) (sys : Sys (KMap Bytes) Bytes) (hist : Recs Bytes) (d : Disk) (spec : Spec) (tn : Nat)
    (ok : StoreLive H kind sz N m sys hist d spec tn) (lo hi : Bound)
    (hok : RangeOK kind m lo hi) :
    ∃ evs m' n sys' hist', removeRangeScript H m d lo hi = (evs, m', .ok n) ∧
      n = (rangeKeys m lo hi).length ∧
      StoreLive H kind sz N m' sys' hist' (d.applyAll evs)
        (fun k => if inRange kind.lt lo hi k = true then none else spec k) tn := by
  obtain ⟨hraw, hval, hwf, hsave, hver⟩ := hok
  have hsp := rangeSpec_eq H sz m d spec tn ok.sinv lo hi
  rw [ok.tied.kindEq] at hsp
  rw [← hsp]
  unfold removeRangeScript
  by_cases he : (rangeKeys m lo hi).isEmpty = true
  · simp only [he, ↓reduceIte]
    have hnil := List.isEmpty_iff.mp he
    refine ⟨[], m, 0, sys, hist, rfl, by simp [hnil], ?_⟩
    have : (fun k => if k ∈ rangeKeys m lo hi then none else spec k) = spec := by
      funext k; simp [hnil]
    rw [this]; exact ok
  · simp only [he, Bool.false_eq_true, ↓reduceIte]
    obtain ⟨evs, m', hla, _, sys', t'⟩ := removeKeys_sim H kind sz N so hH m sys hist d ok.tied
      (rangeKeys m lo hi) hraw hval hwf hsave hver
    obtain ⟨evs2, m2, hla2, inv'⟩ := removeKeys_sinv H sz m d spec tn ok.sinv (rangeKeys m lo hi)
    rw [hla] at hla2; injection hla2 with hla2; injection hla2 with e1 e2; subst e1 e2
    simp only [hla]
    have hb := logAndApply_benign H m d _ _ evs m' hla
    refine ⟨evs, m', _, sys', _, rfl, rfl, t', inv', ?_, ?_⟩
    · exact names32_applyAll d ok.sinv.wf _ (fun e he => (hb e he).2.1) ok.names
    · intro p
      rw [get_untouched_all d ok.sinv.wf _ _ (fun e he => (hb e he).1 p)]; exact ok.nostray p

/-- **kill a remove_range anywhere, open again: a live store in which ALL the keys within the
    bounds are gone, or none** -/
theorem StoreLive.removeRangeCrash (so : StrictOrder kind.lt) (hH : Hash32 H) (P : Bytes → Prop)
    (hinj : Inj H sz P)
    (m : Mem) (sys : Sys (KMap Bytes) Bytes) (hist : Recs Bytes) (d : Disk) (spec : Spec) (tn : Nat)
    (ok : StoreLive H kind sz N m sys hist d spec tn) (hspecP : ∀ k c, spec k = some c → P c)
    (lo hi : Bound) (hok : RangeOK kind m lo hi)
    (cfg : Config) (hk : cfg.kind = kind) (hn : cfg.N = N) (j : Nat) (ho : OpenOK H kind cfg (d.applyAll ((removeRangeScript H m d lo hi).1.take j))) :
    ∃ m2 sys2 hist2 sc spec2,
      (openBody H cfg (d.applyAll ((removeRangeScript H m d lo hi).1.take j))).2 = .ok (m2, sc) ∧
      sc.missing = [] ∧ sc.corrupted = [] ∧
      (spec2 = spec ∨ spec2 = fun k => if inRange kind.lt lo hi k = true then none else spec k) ∧
      StoreLive H kind sz N m2 sys2 hist2 ((d.applyAll ((removeRangeScript H m d lo hi).1.take j)).applyAll
        (openBody H cfg (d.applyAll ((removeRangeScript H m d lo hi).1.take j))).1) spec2 tn := by
  obtain ⟨hraw, hval, hwf, hsave, hver⟩ := hok
  have hsp := rangeSpec_eq H sz m d spec tn ok.sinv lo hi
  rw [ok.tied.kindEq] at hsp
  rw [← hsp]
  have hw := ok.sinv.wf
  unfold removeRangeScript at ho ⊢
  by_cases he : (rangeKeys m lo hi).isEmpty = true
  · simp only [he, ↓reduceIte, List.take_nil, Disk.applyAll_nil] at ho ⊢
    -- nothing was issued: this is a kill between operations
    have c1 := ok.tied.cfg.toDCfg.crash H kind sz N sys hist d
    obtain ⟨m2, sys2, sc, h1, h2, h3, _, live⟩ := open_live H kind sz N so hH P hinj cfg hk hn _ hist d
      c1 rfl m.idx.map (ok.tied.mem_eq H kind sz N) spec tn ok.sinv.agree hspecP ok.names ok.nostray
      ok.sinv.fresh ho
    exact ⟨m2, sys2, hist, sc, spec, h1, h2, h3, Or.inl rfl, live⟩
  · simp only [he, Bool.false_eq_true, ↓reduceIte] at ho ⊢
    obtain ⟨evs, m', hla, hpre, _⟩ := removeKeys_sim H kind sz N so hH m sys hist d ok.tied
      (rangeKeys m lo hi) hraw hval hwf hsave hver
    obtain ⟨idx', unref, happ, _, hl⟩ := applyOp_spec so sz m.idx ok.tied.inv
      (.remove (rangeKeys m lo hi)) trivial
    have hmap : idx'.map = mapApply kind.lt m.idx.map (.remove (rangeKeys m lo hi)) :=
      applyOp_map kind.lt m.idx idx' _ unref happ
    have hnew : Agree H (mapApply kind.lt m.idx.map (.remove (rangeKeys m lo hi)))
        (fun k => if k ∈ rangeKeys m lo hi then none else spec k) d := by
      intro k
      rw [← hmap, hl k]
      simp only [specApply]
      by_cases ck : k ∈ rangeKeys m lo hi
      · simp [ck]
      · simp only [ck, ↓reduceIte]; exact ok.sinv.agree k
    obtain ⟨evs2, m2', hla2, hall⟩ := C03_commit_crash_contents H kind sz N so hH m sys hist d ok.tied
      (.remove (rangeKeys m lo hi)) (.remove (rangeKeys m lo hi)) hraw (by simp [fromRaw, hval]) trivial
      hwf hsave hver spec _ ok.sinv.agree hnew
    rw [hla] at hla2; injection hla2 with hla2; injection hla2 with e1' e2'; subst e1' e2'
    simp only [hla] at ho ⊢
    obtain ⟨a, hlog, _, hcase⟩ := hall j
    have hb := logAndApply_benign H m d _ _ evs m' hla
    have hm : ∀ e ∈ evs.take j, e ∈ evs := fun e he => List.mem_of_mem_take he
    have hnames : Names32 (d.applyAll (evs.take j)) :=
      names32_applyAll d hw _ (fun e he => (hb e (hm e he)).2.1) ok.names
    have hstray : ∀ p, (d.applyAll (evs.take j)).get (.stray p) = none := by
      intro p
      rw [get_untouched_all d hw _ _ (fun e he => (hb e (hm e he)).1 p)]; exact ok.nostray p
    have hfresh : ∀ t, tn ≤ t → (d.applyAll (evs.take j)).get (.staging t) = none := by
      intro t ht
      rw [get_untouched_all d hw _ _ (fun e he => (hb e (hm e he)).2.2 t)]; exact ok.sinv.fresh t ht
    generalize hdj : d.applyAll (evs.take j) = dj at ho hlog hcase hnames hstray hfresh ⊢
    obtain ⟨sysj, histj, _, cj⟩ := hpre j
    rw [hdj] at cj
    obtain ⟨a', l1, l2, _⟩ := cj.recovers H hH kind so sz N sysj histj dj
    rw [hlog] at l1; injection l1 with l1; subst l1
    have hsp1 : ∀ k c, (fun k => if k ∈ rangeKeys m lo hi then none else spec k) k = some c → P c := by
      intro k c hc
      simp only at hc
      by_cases ck : k ∈ rangeKeys m lo hi
      · simp [ck] at hc
      · simp only [ck, ↓reduceIte] at hc; exact hspecP k c hc
    rcases hcase with ⟨_, ag⟩ | ⟨_, ag⟩
    · obtain ⟨m2, sys2, sc, h1, h2, h3, _, live⟩ := open_live H kind sz N so hH P hinj cfg hk hn _ histj dj
        (cj.crash H kind sz N sysj histj dj) rfl a.idx.map l2 spec tn ag hspecP hnames hstray hfresh
        ho
      exact ⟨m2, sys2, histj, sc, spec, h1, h2, h3, Or.inl rfl, live⟩
    · obtain ⟨m2, sys2, sc, h1, h2, h3, _, live⟩ := open_live H kind sz N so hH P hinj cfg hk hn _ histj dj
        (cj.crash H kind sz N sysj histj dj) rfl a.idx.map l2 _ tn ag hsp1 hnames hstray hfresh
        ho
      exact ⟨m2, sys2, histj, sc, _, h1, h2, h3, Or.inr rfl, live⟩


/-! ### an abandoned transaction (C13) -/

theorem abandoned_benign (t : Nat) (content : Bytes) : ∀ e ∈ abandonedEvents t content,
    (e.segFree = true ∧ e.indexFree = true) ∧ (∀ g, e.sparesCas g = true) ∧
    (∀ t', t' ≠ t → e.touches (.staging t') = false) ∧ (∀ p, e.touches (.stray p) = false) := by
  intro e he
  have hst : ∀ t', t' ≠ t → (FileId.staging t == FileId.staging t') = false := by
    intro t' h; simp; exact fun c => h c.symm
  simp only [abandonedEvents, beginScript, abortScript, List.mem_append, List.mem_cons,
    List.not_mem_nil, or_false] at he
  rcases he with (rfl | rfl) | rfl
  · exact ⟨by simp [Ev.segFree, Ev.indexFree], fun _ => rfl, fun t' h => by simp [Ev.touches, hst t' h],
      fun _ => rfl⟩
  · exact ⟨by simp [Ev.segFree, Ev.indexFree], fun _ => rfl, fun t' h => by simp [Ev.touches, hst t' h],
      fun _ => rfl⟩
  · exact ⟨by simp [Ev.segFree, Ev.indexFree], fun _ => rfl, fun t' h => by simp [Ev.touches, hst t' h],
      fun _ => rfl⟩

/-- **a transaction begun, written to and dropped — or killed anywhere in between — leaves a live
    store for the SAME specification**: what remains of it at worst is its private staging file -/
theorem StoreLive.abandonedPrefix
    (m : Mem) (sys : Sys (KMap Bytes) Bytes) (hist : Recs Bytes) (d : Disk) (spec : Spec) (tn : Nat)
    (ok : StoreLive H kind sz N m sys hist d spec tn) (content : Bytes) (j : Nat) :
    StoreLive H kind sz N m sys hist (d.applyAll ((abandonedEvents tn content).take j)) spec (tn + 1) := by
  have hb := abandoned_benign tn content
  have hm : ∀ e ∈ (abandonedEvents tn content).take j, e ∈ abandonedEvents tn content :=
    fun e he => List.mem_of_mem_take he
  have hw := ok.sinv.wf
  refine ⟨⟨ok.tied.cfg.freeAll H kind sz N sys hist d _ (fun e he => (hb e (hm e he)).1), ok.tied.kindEq,
    ok.tied.nEq, ok.tied.next, ok.tied.st, ok.tied.inv, ok.tied.active, ok.tied.persisted⟩,
    ⟨ok.sinv.so, ok.sinv.idx, Disk.applyAll_WF d hw _, ?_, ?_⟩, ?_, ?_⟩
  · exact Agree.frame H _ _ d _ ok.sinv.agree
      (fun _ item _ => sparesCas_frame_all d hw _ _ (fun e he => (hb e (hm e he)).2.1 _))
  · intro t ht
    rw [get_untouched_all d hw _ _ (fun e he => (hb e (hm e he)).2.2.1 t (by omega))]
    exact ok.sinv.fresh t (by omega)
  · exact names32_applyAll d hw _ (fun e he => makes32_of_spares e (hb e (hm e he)).2.1) ok.names
  · intro p
    rw [get_untouched_all d hw _ _ (fun e he => (hb e (hm e he)).2.2.2 p)]; exact ok.nostray p

theorem StoreLive.abandoned
    (m : Mem) (sys : Sys (KMap Bytes) Bytes) (hist : Recs Bytes) (d : Disk) (spec : Spec) (tn : Nat)
    (ok : StoreLive H kind sz N m sys hist d spec tn) (content : Bytes) :
    StoreLive H kind sz N m sys hist (d.applyAll (abandonedEvents tn content)) spec (tn + 1) := by
  have := ok.abandonedPrefix H kind sz N m sys hist d spec tn content (abandonedEvents tn content).length
  rwa [List.take_length] at this

/-- a live store whose process is killed between operations, opened again -/
theorem StoreLive.killOpen (so : StrictOrder kind.lt) (hH : Hash32 H) (P : Bytes → Prop)
    (hinj : Inj H sz P)
    (m : Mem) (sys : Sys (KMap Bytes) Bytes) (hist : Recs Bytes) (d : Disk) (spec : Spec) (tn : Nat)
    (ok : StoreLive H kind sz N m sys hist d spec tn) (hspecP : ∀ k c, spec k = some c → P c)
    (cfg : Config) (hk : cfg.kind = kind) (hn : cfg.N = N) (ho : OpenOK H kind cfg d) :
    ∃ m2 sys2 sc, (openBody H cfg d).2 = .ok (m2, sc) ∧ sc.missing = [] ∧ sc.corrupted = [] ∧
      m2.idx.map = m.idx.map ∧
      StoreLive H kind sz N m2 sys2 hist (d.applyAll (openBody H cfg d).1) spec tn :=
  open_live H kind sz N so hH P hinj cfg hk hn _ hist d (ok.tied.cfg.toDCfg.crash H kind sz N sys hist d) rfl
    m.idx.map (ok.tied.mem_eq H kind sz N) spec tn ok.sinv.agree hspecP ok.names ok.nostray ok.sinv.fresh
    ho

/-! ### histories with crashes -/

/-- operations of a history: the three of `HOp` (Props/C02Hist), and each of them killed after `j`
    of its filesystem events and followed by an `open` of what is left -/
inductive LOp where
  | put (key : Bytes) (chunks : List Bytes)
  | remove (key : Bytes)
  | reopen
  | putCrash (key : Bytes) (chunks : List Bytes) (j : Nat)
  | removeCrash (key : Bytes) (j : Nat)
  | reopenCrash (j : Nat)
  | checkpoint
  | checkpointCrash (j : Nat)
  | removeRange (lo hi : Bound)
  | removeRangeCrash (lo hi : Bound) (j : Nat)
  | abandon (content : Bytes)
  | abandonCrash (content : Bytes) (j : Nat)

/-- what an operation may do to the specification `key → content`: a completed operation applies,
    a killed one applies or does not — never anything else, and never anything to another key -/
def lStep (s : Spec) : LOp → Spec → Prop
  | .put key chunks, s' => s' = fun k => if k = key then some chunks.flatten else s k
  | .remove key, s' => s' = fun k => if k = key then none else s k
  | .reopen, s' => s' = s
  | .putCrash key chunks _, s' => s' = s ∨ s' = fun k => if k = key then some chunks.flatten else s k
  | .removeCrash key _, s' => s' = s ∨ s' = fun k => if k = key then none else s k
  | .reopenCrash _, s' => s' = s
  | .checkpoint, s' => s' = s
  | .checkpointCrash _, s' => s' = s
  | .removeRange lo hi, s' => s' = fun k => if inRange kind.lt lo hi k = true then none else s k
  | .removeRangeCrash lo hi _, s' =>
    s' = s ∨ s' = fun k => if inRange kind.lt lo hi k = true then none else s k
  | .abandon _, s' => s' = s
  | .abandonCrash _ _, s' => s' = s

def LReach : Spec → List LOp → Spec → Prop
  | s, [], s' => s' = s
  | s, op :: ops, s' => ∃ s1, lStep kind s op s1 ∧ LReach s1 ops s'

/-- run a history: the scripts of Store.lean one after the other; a kill cuts the script and the
    directory is opened again with configuration `cfg` -/
def lRun (cfg : Config) : Mem → Disk → Nat → List LOp → Option (Mem × Disk × Nat)
  | m, d, tn, [] => some (m, d, tn)
  | m, d, tn, .put key chunks :: ops =>
    match putScript H m d tn key chunks with
    | (evs, m', .ok) => lRun cfg m' (d.applyAll evs) (tn + 1) ops
    | (_, _, .panic _) => none
  | m, d, tn, .remove key :: ops =>
    match removeScript H m d key with
    | (evs, m', .ok _) => lRun cfg m' (d.applyAll evs) tn ops
    | (_, _, .error _) => none
  | m, d, tn, .reopen :: ops =>
    match (openBody H cfg (d.applyAll (closeScript m))).2 with
    | .ok (m2, _) =>
      lRun cfg m2 ((d.applyAll (closeScript m)).applyAll (openBody H cfg (d.applyAll (closeScript m))).1) tn ops
    | .error _ => none
  | m, d, tn, .putCrash key chunks j :: ops =>
    match (openBody H cfg (d.applyAll ((putScript H m d tn key chunks).1.take j))).2 with
    | .ok (m2, _) =>
      lRun cfg m2 ((d.applyAll ((putScript H m d tn key chunks).1.take j)).applyAll
        (openBody H cfg (d.applyAll ((putScript H m d tn key chunks).1.take j))).1) (tn + 1) ops
    | .error _ => none
  | m, d, tn, .removeCrash key j :: ops =>
    match (openBody H cfg (d.applyAll ((removeScript H m d key).1.take j))).2 with
    | .ok (m2, _) =>
      lRun cfg m2 ((d.applyAll ((removeScript H m d key).1.take j)).applyAll
        (openBody H cfg (d.applyAll ((removeScript H m d key).1.take j))).1) tn ops
    | .error _ => none
  | m, d, tn, .reopenCrash j :: ops =>
    match (openBody H cfg (d.applyAll ((closeScript m ++
        (openBody H cfg (d.applyAll (closeScript m))).1).take j))).2 with
    | .ok (m2, _) =>
      lRun cfg m2 ((d.applyAll ((closeScript m ++ (openBody H cfg (d.applyAll (closeScript m))).1).take j)).applyAll
        (openBody H cfg (d.applyAll ((closeScript m ++
          (openBody H cfg (d.applyAll (closeScript m))).1).take j))).1) tn ops
    | .error _ => none
  | m, d, tn, .checkpoint :: ops =>
    lRun cfg (checkpointScript .explicit m d).2 (d.applyAll (checkpointScript .explicit m d).1) tn ops
  | m, d, tn, .checkpointCrash j :: ops =>
    match (openBody H cfg (d.applyAll ((checkpointScript .explicit m d).1.take j))).2 with
    | .ok (m2, _) =>
      lRun cfg m2 ((d.applyAll ((checkpointScript .explicit m d).1.take j)).applyAll
        (openBody H cfg (d.applyAll ((checkpointScript .explicit m d).1.take j))).1) tn ops
    | .error _ => none
  | m, d, tn, .removeRange lo hi :: ops =>
    match removeRangeScript H m d lo hi with
    | (evs, m', .ok _) => lRun cfg m' (d.applyAll evs) tn ops
    | (_, _, .error _) => none
  | m, d, tn, .removeRangeCrash lo hi j :: ops =>
    match (openBody H cfg (d.applyAll ((removeRangeScript H m d lo hi).1.take j))).2 with
    | .ok (m2, _) =>
      lRun cfg m2 ((d.applyAll ((removeRangeScript H m d lo hi).1.take j)).applyAll
        (openBody H cfg (d.applyAll ((removeRangeScript H m d lo hi).1.take j))).1) tn ops
    | .error _ => none
  | m, d, tn, .abandon content :: ops =>
    lRun cfg m (d.applyAll (abandonedEvents tn content)) (tn + 1) ops
  | _, d, tn, .abandonCrash content j :: ops =>
    match (openBody H cfg (d.applyAll ((abandonedEvents tn content).take j))).2 with
    | .ok (m2, _) =>
      lRun cfg m2 ((d.applyAll ((abandonedEvents tn content).take j)).applyAll
        (openBody H cfg (d.applyAll ((abandonedEvents tn content).take j))).1) (tn + 1) ops
    | .error _ => none

/-- the usage guards of one put / one remove in a given state (those of `HistOK`) -/
def PutOK (P : Bytes → Prop) (m : Mem) (key : Bytes) (chunks : List Bytes) : Prop :=
  P chunks.flatten ∧ (RawOp.put key (H chunks.flatten) (chunks.map List.length).sum).WF ∧
  kind.valid key = true ∧
  (⟨m.next, serWalOp (.put key (H chunks.flatten) (chunks.map List.length).sum)⟩ : Rec).WF ∧
  (∀ idx' un, applyOp kind.lt m.idx (.put key (H chunks.flatten) (chunks.map List.length).sum) =
      .ok (idx', un) → SaveOK kind idx') ∧ m.next + 1 < U64

def RemoveOK (m : Mem) (key : Bytes) : Prop :=
  (RawOp.remove [key]).WF ∧ kind.valid key = true ∧
  (⟨m.next, serWalOp (.remove [key])⟩ : Rec).WF ∧
  (∀ idx' un, applyOp kind.lt m.idx (.remove [key]) = .ok (idx', un) → SaveOK kind idx') ∧
  m.next + 1 < U64

/-- usage guards along a history, each checked in the state the operation is issued in; every
    `open` finds a settings file that passes the gate -/
def LiveOK (P : Bytes → Prop) (cfg : Config) : Mem → Disk → Nat → List LOp → Prop
  | _, _, _, [] => True
  | m, d, tn, .put key chunks :: ops =>
    PutOK H kind P m key chunks ∧
    ∀ evs m', putScript H m d tn key chunks = (evs, m', .ok) → LiveOK P cfg m' (d.applyAll evs) (tn + 1) ops
  | m, d, tn, .remove key :: ops =>
    RemoveOK kind m key ∧
    ∀ evs m' b, removeScript H m d key = (evs, m', .ok b) → LiveOK P cfg m' (d.applyAll evs) tn ops
  | m, d, tn, .reopen :: ops =>
    OpenOK H kind cfg (d.applyAll (closeScript m)) ∧
    ∀ m2 sc, (openBody H cfg (d.applyAll (closeScript m))).2 = .ok (m2, sc) →
      LiveOK P cfg m2 ((d.applyAll (closeScript m)).applyAll
        (openBody H cfg (d.applyAll (closeScript m))).1) tn ops
  | m, d, tn, .putCrash key chunks j :: ops =>
    PutOK H kind P m key chunks ∧
    OpenOK H kind cfg (d.applyAll ((putScript H m d tn key chunks).1.take j)) ∧
    ∀ m2 sc, (openBody H cfg (d.applyAll ((putScript H m d tn key chunks).1.take j))).2 = .ok (m2, sc) →
      LiveOK P cfg m2 ((d.applyAll ((putScript H m d tn key chunks).1.take j)).applyAll
        (openBody H cfg (d.applyAll ((putScript H m d tn key chunks).1.take j))).1) (tn + 1) ops
  | m, d, tn, .removeCrash key j :: ops =>
    RemoveOK kind m key ∧
    OpenOK H kind cfg (d.applyAll ((removeScript H m d key).1.take j)) ∧
    ∀ m2 sc, (openBody H cfg (d.applyAll ((removeScript H m d key).1.take j))).2 = .ok (m2, sc) →
      LiveOK P cfg m2 ((d.applyAll ((removeScript H m d key).1.take j)).applyAll
        (openBody H cfg (d.applyAll ((removeScript H m d key).1.take j))).1) tn ops
  | m, d, tn, .reopenCrash j :: ops =>
    OpenOK H kind cfg (d.applyAll (closeScript m)) ∧
    OpenOK H kind cfg (d.applyAll ((closeScript m ++
        (openBody H cfg (d.applyAll (closeScript m))).1).take j)) ∧
    ∀ m2 sc, (openBody H cfg (d.applyAll ((closeScript m ++
        (openBody H cfg (d.applyAll (closeScript m))).1).take j))).2 = .ok (m2, sc) →
      LiveOK P cfg m2 ((d.applyAll ((closeScript m ++
          (openBody H cfg (d.applyAll (closeScript m))).1).take j)).applyAll
        (openBody H cfg (d.applyAll ((closeScript m ++
          (openBody H cfg (d.applyAll (closeScript m))).1).take j))).1) tn ops
  | m, d, tn, .checkpoint :: ops =>
    (SaveOK kind m.idx ∧ m.next < U64) ∧
    LiveOK P cfg (checkpointScript .explicit m d).2 (d.applyAll (checkpointScript .explicit m d).1) tn ops
  | m, d, tn, .checkpointCrash j :: ops =>
    (SaveOK kind m.idx ∧ m.next < U64) ∧
    OpenOK H kind cfg (d.applyAll ((checkpointScript .explicit m d).1.take j)) ∧
    ∀ m2 sc, (openBody H cfg (d.applyAll ((checkpointScript .explicit m d).1.take j))).2 = .ok (m2, sc) →
      LiveOK P cfg m2 ((d.applyAll ((checkpointScript .explicit m d).1.take j)).applyAll
        (openBody H cfg (d.applyAll ((checkpointScript .explicit m d).1.take j))).1) tn ops
  | m, d, tn, .removeRange lo hi :: ops =>
    RangeOK kind m lo hi ∧
    ∀ evs m' n, removeRangeScript H m d lo hi = (evs, m', .ok n) → LiveOK P cfg m' (d.applyAll evs) tn ops
  | m, d, tn, .removeRangeCrash lo hi j :: ops =>
    RangeOK kind m lo hi ∧
    OpenOK H kind cfg (d.applyAll ((removeRangeScript H m d lo hi).1.take j)) ∧
    ∀ m2 sc, (openBody H cfg (d.applyAll ((removeRangeScript H m d lo hi).1.take j))).2 = .ok (m2, sc) →
      LiveOK P cfg m2 ((d.applyAll ((removeRangeScript H m d lo hi).1.take j)).applyAll
        (openBody H cfg (d.applyAll ((removeRangeScript H m d lo hi).1.take j))).1) tn ops
  | m, d, tn, .abandon content :: ops =>
    LiveOK P cfg m (d.applyAll (abandonedEvents tn content)) (tn + 1) ops
  | _, d, tn, .abandonCrash content j :: ops =>
    OpenOK H kind cfg (d.applyAll ((abandonedEvents tn content).take j)) ∧
    ∀ m2 sc, (openBody H cfg (d.applyAll ((abandonedEvents tn content).take j))).2 = .ok (m2, sc) →
      LiveOK P cfg m2 ((d.applyAll ((abandonedEvents tn content).take j)).applyAll
        (openBody H cfg (d.applyAll ((abandonedEvents tn content).take j))).1) (tn + 1) ops

theorem specP_range (P : Bytes → Prop) (spec : Spec) (hspecP : ∀ k c, spec k = some c → P c)
    (f : Bytes → Bool) : ∀ k c, (fun k => if f k = true then none else spec k) k = some c → P c := by
  intro k c hc
  simp only at hc
  by_cases ck : f k = true
  · simp [ck] at hc
  · simp only [ck] at hc; exact hspecP k c hc

theorem specP_put (P : Bytes → Prop) (spec : Spec) (hspecP : ∀ k c, spec k = some c → P c)
    (key content : Bytes) (hP : P content) :
    ∀ k c, (fun k => if k = key then some content else spec k) k = some c → P c := by
  intro k c hc
  simp only at hc
  by_cases ck : k = key
  · simp only [ck, ↓reduceIte, Option.some.injEq] at hc; rw [← hc]; exact hP
  · simp only [ck, ↓reduceIte] at hc; exact hspecP k c hc

theorem specP_remove (P : Bytes → Prop) (spec : Spec) (hspecP : ∀ k c, spec k = some c → P c)
    (key : Bytes) : ∀ k c, (fun k => if k = key then none else spec k) k = some c → P c := by
  intro k c hc
  simp only at hc
  by_cases ck : k = key
  · simp [ck] at hc
  · simp only [ck, ↓reduceIte] at hc; exact hspecP k c hc

/-- **C03 over whole histories with crashes (bytes and events, contents included).**  Any sequence
    of puts, removes, clean restarts, and puts / removes / restarts KILLED after any number of their
    filesystem events and followed by `open`, started from a live store (e.g. a fresh one), runs to
    completion: every `open` — after a clean drop or after a kill — returns a handle, and at the
    end the store is live again for a specification `key → content` that is reachable from the
    initial one by applying every completed operation and applying-or-not every killed one
    (`LReach`); every key reads exactly that specification's content.  In particular a key no killed
    operation named reads the content of its last completed put, however many kills happened. -/
theorem C03_histories_with_crashes (so : StrictOrder kind.lt) (hH : Hash32 H) (P : Bytes → Prop)
    (hinj : Inj H sz P) (cfg : Config) (hk : cfg.kind = kind) (hn : cfg.N = N)
    (ops : List LOp) :
    ∀ (m : Mem) (sys : Sys (KMap Bytes) Bytes) (hist : Recs Bytes) (d : Disk) (spec : Spec) (tn : Nat),
    StoreLive H kind sz N m sys hist d spec tn → (∀ k c, spec k = some c → P c) →
    LiveOK H kind P cfg m d tn ops →
    ∃ m' d' tn' sys' hist' spec', lRun H cfg m d tn ops = some (m', d', tn') ∧
      LReach kind spec ops spec' ∧
      StoreLive H kind sz N m' sys' hist' d' spec' tn' ∧
      ∀ k, getBlob m' d' k = match spec' k with
                             | none => .absent
                             | some c => .found c := by
  induction ops with
  | nil =>
    intro m sys hist d spec tn ok _ _
    exact ⟨m, d, tn, sys, hist, spec, rfl, rfl, ok, fun k => ok.sinv.read H sz m d spec tn k⟩
  | cons op ops ih =>
    intro m sys hist d spec tn ok hspecP hok
    cases op with
    | put key chunks =>
      obtain ⟨⟨hP, hraw, hval, hwf, hsave, hver⟩, hnext⟩ := hok
      obtain ⟨evs, m1, sys1, hist1, hrun, ok1⟩ := ok.put H kind sz N so hH P hinj m sys hist d spec tn
        hspecP key chunks hP hraw hval hwf hsave hver
      obtain ⟨m', d', tn', sys', hist', spec', hr, hreach, okf, hread⟩ :=
        ih m1 sys1 hist1 _ _ (tn + 1) ok1 (specP_put P spec hspecP key _ hP) (hnext evs m1 hrun)
      exact ⟨m', d', tn', sys', hist', spec', by simp only [lRun, hrun]; exact hr,
        ⟨_, rfl, hreach⟩, okf, hread⟩
    | remove key =>
      obtain ⟨⟨hraw, hval, hwf, hsave, hver⟩, hnext⟩ := hok
      obtain ⟨evs, m1, b, sys1, hist1, hrun, _, ok1⟩ := ok.remove H kind sz N so hH m sys hist d spec tn
        key hraw hval hwf hsave hver
      obtain ⟨m', d', tn', sys', hist', spec', hr, hreach, okf, hread⟩ :=
        ih m1 sys1 hist1 _ _ tn ok1 (specP_remove P spec hspecP key) (hnext evs m1 b hrun)
      exact ⟨m', d', tn', sys', hist', spec', by simp only [lRun, hrun]; exact hr,
        ⟨_, rfl, hreach⟩, okf, hread⟩
    | reopen =>
      obtain ⟨ho, hnext⟩ := hok
      obtain ⟨m2, sys2, sc, hres, _, _, _, ok2⟩ := ok.reopen H kind sz N so hH P hinj m sys hist d spec tn
        hspecP cfg hk hn ho
      obtain ⟨m', d', tn', sys', hist', spec', hr, hreach, okf, hread⟩ :=
        ih m2 sys2 hist _ _ tn ok2 hspecP (hnext m2 sc hres)
      exact ⟨m', d', tn', sys', hist', spec', by simp only [lRun, hres]; exact hr,
        ⟨_, rfl, hreach⟩, okf, hread⟩
    | putCrash key chunks j =>
      obtain ⟨⟨hP, hraw, hval, hwf, hsave, hver⟩, ho, hnext⟩ := hok
      obtain ⟨m2, sys2, hist2, sc, spec2, hres, _, _, hs2, ok2⟩ := ok.putCrash H kind sz N so hH P hinj
        m sys hist d spec tn hspecP key chunks hP hraw hval hwf hsave hver cfg hk hn j ho
      have hsp2 : ∀ k c, spec2 k = some c → P c := by
        rcases hs2 with rfl | rfl
        · exact hspecP
        · exact specP_put P spec hspecP key _ hP
      obtain ⟨m', d', tn', sys', hist', spec', hr, hreach, okf, hread⟩ :=
        ih m2 sys2 hist2 _ _ (tn + 1) ok2 hsp2 (hnext m2 sc hres)
      exact ⟨m', d', tn', sys', hist', spec', by simp only [lRun, hres]; exact hr,
        ⟨spec2, hs2, hreach⟩, okf, hread⟩
    | removeCrash key j =>
      obtain ⟨⟨hraw, hval, hwf, hsave, hver⟩, ho, hnext⟩ := hok
      obtain ⟨m2, sys2, hist2, sc, spec2, hres, _, _, hs2, ok2⟩ := ok.removeCrash H kind sz N so hH P hinj
        m sys hist d spec tn hspecP key hraw hval hwf hsave hver cfg hk hn j ho
      have hsp2 : ∀ k c, spec2 k = some c → P c := by
        rcases hs2 with rfl | rfl
        · exact hspecP
        · exact specP_remove P spec hspecP key
      obtain ⟨m', d', tn', sys', hist', spec', hr, hreach, okf, hread⟩ :=
        ih m2 sys2 hist2 _ _ tn ok2 hsp2 (hnext m2 sc hres)
      exact ⟨m', d', tn', sys', hist', spec', by simp only [lRun, hres]; exact hr,
        ⟨spec2, hs2, hreach⟩, okf, hread⟩
    | reopenCrash j =>
      obtain ⟨ho0, ho, hnext⟩ := hok
      obtain ⟨m2, sys2, sc, hres, _, _, _, ok2⟩ := ok.reopenCrash H kind sz N so hH P hinj
        m sys hist d spec tn hspecP cfg hk hn ho0 cfg hk hn j ho
      obtain ⟨m', d', tn', sys', hist', spec', hr, hreach, okf, hread⟩ :=
        ih m2 sys2 hist _ _ tn ok2 hspecP (hnext m2 sc hres)
      exact ⟨m', d', tn', sys', hist', spec', by simp only [lRun, hres]; exact hr,
        ⟨_, rfl, hreach⟩, okf, hread⟩
    | checkpoint =>
      obtain ⟨⟨hsv, hver⟩, hnext⟩ := hok
      obtain ⟨sys1, ok1⟩ := ok.checkpoint H kind sz N so m sys hist d spec tn hsv hver
      obtain ⟨m', d', tn', sys', hist', spec', hr, hreach, okf, hread⟩ :=
        ih _ sys1 hist _ _ tn ok1 hspecP hnext
      exact ⟨m', d', tn', sys', hist', spec', by simp only [lRun]; exact hr,
        ⟨_, rfl, hreach⟩, okf, hread⟩
    | checkpointCrash j =>
      obtain ⟨⟨hsv, hver⟩, ho, hnext⟩ := hok
      obtain ⟨m2, sys2, sc, hres, _, _, _, ok2⟩ := ok.checkpointCrash H kind sz N so hH P hinj
        m sys hist d spec tn hspecP hsv hver cfg hk hn j ho
      obtain ⟨m', d', tn', sys', hist', spec', hr, hreach, okf, hread⟩ :=
        ih m2 sys2 hist _ _ tn ok2 hspecP (hnext m2 sc hres)
      exact ⟨m', d', tn', sys', hist', spec', by simp only [lRun, hres]; exact hr,
        ⟨_, rfl, hreach⟩, okf, hread⟩
    | removeRange lo hi =>
      obtain ⟨hrok, hnext⟩ := hok
      obtain ⟨evs, m1, n, sys1, hist1, hrun, _, ok1⟩ := ok.removeRange H kind sz N so hH m sys hist d spec tn
        lo hi hrok
      obtain ⟨m', d', tn', sys', hist', spec', hr, hreach, okf, hread⟩ :=
        ih m1 sys1 hist1 _ _ tn ok1 (specP_range P spec hspecP _) (hnext evs m1 n hrun)
      exact ⟨m', d', tn', sys', hist', spec', by simp only [lRun, hrun]; exact hr,
        ⟨_, rfl, hreach⟩, okf, hread⟩
    | removeRangeCrash lo hi j =>
      obtain ⟨hrok, ho, hnext⟩ := hok
      obtain ⟨m2, sys2, hist2, sc, spec2, hres, _, _, hs2, ok2⟩ := ok.removeRangeCrash H kind sz N so hH P
        hinj m sys hist d spec tn hspecP lo hi hrok cfg hk hn j ho
      have hsp2 : ∀ k c, spec2 k = some c → P c := by
        rcases hs2 with rfl | rfl
        · exact hspecP
        · exact specP_range P spec hspecP _
      obtain ⟨m', d', tn', sys', hist', spec', hr, hreach, okf, hread⟩ :=
        ih m2 sys2 hist2 _ _ tn ok2 hsp2 (hnext m2 sc hres)
      exact ⟨m', d', tn', sys', hist', spec', by simp only [lRun, hres]; exact hr,
        ⟨spec2, hs2, hreach⟩, okf, hread⟩
    | abandon content =>
      have ok1 := ok.abandoned H kind sz N m sys hist d spec tn content
      obtain ⟨m', d', tn', sys', hist', spec', hr, hreach, okf, hread⟩ :=
        ih m sys hist _ _ (tn + 1) ok1 hspecP hok
      exact ⟨m', d', tn', sys', hist', spec', by simp only [lRun]; exact hr,
        ⟨_, rfl, hreach⟩, okf, hread⟩
    | abandonCrash content j =>
      obtain ⟨ho, hnext⟩ := hok
      have ok1 := ok.abandonedPrefix H kind sz N m sys hist d spec tn content j
      obtain ⟨m2, sys2, sc, hres, _, _, _, ok2⟩ := ok1.killOpen H kind sz N so hH P hinj m sys hist _ spec
        (tn + 1) hspecP cfg hk hn ho
      obtain ⟨m', d', tn', sys', hist', spec', hr, hreach, okf, hread⟩ :=
        ih m2 sys2 hist _ _ (tn + 1) ok2 hspecP (hnext m2 sc hres)
      exact ⟨m', d', tn', sys', hist', spec', by simp only [lRun, hres]; exact hr,
        ⟨_, rfl, hreach⟩, okf, hread⟩

/-- non-vacuity: a freshly created store is live -/
theorem storeLive_fresh (cfg : Config) (so : StrictOrder cfg.kind.lt) (d : Disk) (hw : d.WF)
    (hseg : ∀ i, segData d i = if i = 0 then some [] else none) (hidx : d.get .index = none)
    (hcas : ∀ g, d.get (.cas g) = none) (hst : ∀ t, d.get (.staging t) = none)
    (hstray : ∀ p, d.get (.stray p) = none) :
    ∃ sys hist, StoreLive H cfg.kind sz cfg.N { cfg := cfg } sys hist d (fun _ => none) 0 :=
  ⟨_, _, ⟨tied_fresh H cfg.kind sz cfg.N cfg d hw rfl rfl hseg hidx,
    ⟨so, IdxInv.init sz, hw, by intro k; simp [kLookup], fun t _ => hst t⟩,
    (fun g x hx => by rw [hcas g] at hx; exact absurd hx (by simp)), hstray⟩⟩

/-- what `LReach` says about a key no killed operation named (or covered, for a range): its content
    is folded over the COMPLETED operations alone, like in `hSpec` (Props/C02Hist) -/
theorem LReach.untouched (key : Bytes) (ops : List LOp)
    (hno : ∀ op ∈ ops, match op with
      | .putCrash k _ _ => k ≠ key | .removeCrash k _ => k ≠ key
      | .removeRangeCrash lo hi _ => inRange kind.lt lo hi key = false | _ => True) :
    ∀ (s s' : Spec), LReach kind s ops s' →
      s' key = (ops.foldl (fun acc op => match op with
        | .put k chunks => if k = key then some chunks.flatten else acc
        | .remove k => if k = key then none else acc
        | .removeRange lo hi => if inRange kind.lt lo hi key = true then none else acc
        | _ => acc) (s key)) := by
  induction ops with
  | nil => intro s s' h; simp only [LReach] at h; subst h; rfl
  | cons op ops ih =>
    intro s s' h
    obtain ⟨s1, hstep, hrest⟩ := h
    have hno' : ∀ op ∈ ops, match op with
      | .putCrash k _ _ => k ≠ key | .removeCrash k _ => k ≠ key
      | .removeRangeCrash lo hi _ => inRange kind.lt lo hi key = false | _ => True :=
      fun o ho => hno o (by simp [ho])
    have h0 := hno op (by simp)
    rw [ih hno' s1 s' hrest]
    simp only [List.foldl]
    congr 1
    cases op with
    | put k chunks => simp only [lStep] at hstep; subst hstep; by_cases c : key = k <;> simp [c, eq_comm]
    | remove k => simp only [lStep] at hstep; subst hstep; by_cases c : key = k <;> simp [c, eq_comm]
    | reopen => simp only [lStep] at hstep; subst hstep; rfl
    | reopenCrash j => simp only [lStep] at hstep; subst hstep; rfl
    | checkpoint => simp only [lStep] at hstep; subst hstep; rfl
    | checkpointCrash j => simp only [lStep] at hstep; subst hstep; rfl
    | removeRange lo hi => simp only [lStep] at hstep; subst hstep; rfl
    | abandon c => simp only [lStep] at hstep; subst hstep; rfl
    | abandonCrash c j => simp only [lStep] at hstep; subst hstep; rfl
    | putCrash k chunks j =>
      simp only at h0
      rcases hstep with rfl | rfl
      · rfl
      · simp [Ne.symm h0]
    | removeCrash k j =>
      simp only at h0
      rcases hstep with rfl | rfl
      · rfl
      · simp [Ne.symm h0]
    | removeRangeCrash lo hi j =>
      simp only at h0
      rcases hstep with rfl | rfl
      · rfl
      · simp [h0]

/-- a store in the sequential invariants with nothing else on disk (`StoreOK`) is live -/
theorem StoreOK.live (hH : Hash32 H) (m : Mem) (sys : Sys (KMap Bytes) Bytes) (hist : Recs Bytes)
    (d : Disk) (spec : Spec) (tn : Nat) (ok : StoreOK H kind sz N m sys hist d spec tn) :
    StoreLive H kind sz N m sys hist d spec tn := by
  refine ⟨ok.tied, ok.sinv, ?_, ok.nostray⟩
  intro h x hx
  obtain ⟨e, he, heh⟩ := (countHash_pos_iff _ _).mp (ok.ng h x hx)
  have hl := mem_kLookup ok.sinv.so ok.sinv.idx.sorted (k := e.1) (v := e.2) he
  have := ok.sinv.agree e.1
  rw [hl] at this
  cases hs : spec e.1 with
  | none => rw [hs] at this; exact this.elim
  | some c =>
    rw [hs] at this
    simp only at this
    rw [← heh, this.1]; exact hH c

/-- **cleaning up after a crash restores exactness**: `delete_orphans`, run on a live store with the
    scan of the same directory, leaves a `StoreOK` store — tied, every key reading its content, and
    NOTHING else under cas/ or staging/ (the leftovers of killed operations are gone). -/
theorem StoreLive.cleanup (verify : Bool)
    (m : Mem) (sys : Sys (KMap Bytes) Bytes) (hist : Recs Bytes) (d : Disk) (spec : Spec) (tn : Nat)
    (ok : StoreLive H kind sz N m sys hist d spec tn) :
    StoreOK H kind sz N m sys hist
      (d.applyAll (deleteOrphansScript m (scanCanonical H verify m.idx d) d).1) spec tn := by
  have hw := ok.sinv.wf
  obtain ⟨c1, c2, c3, c4⟩ := C08_cleanup_restores_exactness H sz verify m ok.sinv.idx d hw ok.names
    (fun p x hx => by rw [ok.nostray p] at hx; cases hx)
  have hfree : ∀ e ∈ (deleteOrphansScript m (scanCanonical H verify m.idx d) d).1,
      e.segFree = true ∧ e.indexFree = true := by
    intro e he
    rw [deleteOrphansScript_events] at he
    obtain ⟨o1, _, _⟩ := orphanFold_spec m d hw (scanCanonical H verify m.idx d).orphaned ([], 0, 0) (by simp)
    rcases List.mem_append.mp he with he | he
    · rcases List.mem_append.mp he with he | he
      · obtain ⟨g, rfl, _⟩ := o1 e he
        simp [Ev.segFree, Ev.indexFree]
      · simp only [List.mem_map] at he
        obtain ⟨p, _, rfl⟩ := he
        simp [Ev.segFree, Ev.indexFree]
    · simp only [List.mem_map] at he
      obtain ⟨n, _, rfl⟩ := he
      simp [Ev.segFree, Ev.indexFree]
  refine ⟨⟨ok.tied.cfg.freeAll H kind sz N sys hist d _ hfree, ok.tied.kindEq, ok.tied.nEq, ok.tied.next,
      ok.tied.st, ok.tied.inv, ok.tied.active, ok.tied.persisted⟩,
    ⟨ok.sinv.so, ok.sinv.idx, Disk.applyAll_WF d hw _, ?_, fun t _ => c4 t⟩, c1, c4, c3⟩
  exact Agree.frame H _ _ d _ ok.sinv.agree (fun k item hk => by
    apply c2
    rw [countHash_pos_iff]
    exact ⟨(k, item), kLookup_mem hk, rfl⟩)

/-! ### first-time initialisation -/

/-- an empty directory (no segment file, no index file) is the disk of the initial WAL machine -/
theorem dcfg_empty (d : Disk) (hw : d.WF) (hseg : ∀ i, segData d i = none) (hidx : d.get .index = none) :
    DCfg H kind sz N (emptySys [] : Sys (KMap Bytes) Bytes) [] d := by
  have hsr : SegRel H d [] := by
    apply SegRel.of_get H d _ (by simp [SegSorted])
    · intro i; rw [has_seg_iff, hseg i]; simp [segGet]
    · intro i recs hg; simp [segGet] at hg
  refine ⟨good_empty _ _ _, ⟨hw, hsr, ?_⟩, by simp, ?_⟩
  · refine ⟨recomputeStats {} 0, by simp [loadSnapshot, hidx], rfl, rfl, ?_⟩
    exact ⟨List.Pairwise.nil, by simp [recomputeStats], by simp [recomputeStats, rcKeys],
      by simp [recomputeStats, rcGet], by simp [recomputeStats, recomputeUnique],
      by simp [recomputeStats, recomputeUnique, rcKeys]⟩
  · intro i recs hg; simp [emptySys, segGet] at hg

/-- **first-time initialisation, killed anywhere (or not at all), then `open`: a live, empty
    store.**  `d` is a directory with no segment, index, blob, staging or foreign file (it may hold
    directories, a LOCK file or a settings file from an earlier attempt); `open` is killed after `j`
    of its filesystem events; the next `open` returns a handle and the store is live for the
    empty specification.  `j ≥` the length of the script is the un-killed first open followed by a
    kill before any operation. -/
theorem C03_first_open_crash_live (so : StrictOrder kind.lt) (hH : Hash32 H) (P : Bytes → Prop)
    (hinj : Inj H sz P) (d : Disk) (hw : d.WF) (hseg : ∀ i, segData d i = none)
    (hidx : d.get .index = none) (hcas : ∀ g, d.get (.cas g) = none)
    (hst : ∀ t, d.get (.staging t) = none) (hstray : ∀ p, d.get (.stray p) = none)
    (cfg0 : Config) (hk0 : cfg0.kind = kind) (hn0 : cfg0.N = N) (ho0 : OpenOK H kind cfg0 d)
    (cfg : Config) (hk : cfg.kind = kind) (hn : cfg.N = N) (j : Nat) (ho : OpenOK H kind cfg (d.applyAll ((openBody H cfg0 d).1.take j))) :
    ∃ m2 sys2 sc, (openBody H cfg (d.applyAll ((openBody H cfg0 d).1.take j))).2 = .ok (m2, sc) ∧
      sc.missing = [] ∧ sc.corrupted = [] ∧ m2.idx.map = [] ∧
      StoreLive H kind sz N m2 sys2 [] ((d.applyAll ((openBody H cfg0 d).1.take j)).applyAll
        (openBody H cfg (d.applyAll ((openBody H cfg0 d).1.take j))).1) (fun _ => none) 0 := by
  obtain ⟨e0, pre0, hg0, hsv0⟩ := ho0
  have c0 := dcfg_empty H kind sz N d hw hseg hidx
  obtain ⟨_, _, _, _, hpre, _⟩ :=
    open_sim_full H kind sz N so hH cfg0 hk0 hn0 _ [] d c0 rfl e0 pre0 hg0 hsv0
  have hq := openBody_quiet H cfg0 d
  have hm : ∀ e ∈ (openBody H cfg0 d).1.take j, e ∈ (openBody H cfg0 d).1 :=
    fun e he => List.mem_of_mem_take he
  obtain ⟨sysj, histj, hmem, cj⟩ := hpre j
  simp only [List.mem_singleton] at hmem; subst hmem
  refine open_live H kind sz N so hH P hinj cfg hk hn _ [] _ (cj.crash H kind sz N sysj [] _) rfl
    [] rfl (fun _ => none) 0 ?_ (fun _ _ h => by cases h) ?_ ?_ ?_ ho
  · intro k; simp [kLookup]
  · intro g x hx
    rw [sparesCas_frame_all d hw g _ (fun e he => (hq e (hm e he)).1 g), hcas g] at hx; cases hx
  · intro p
    rw [get_untouched_all d hw _ _ (fun e he => (hq e (hm e he)).2.2 p)]; exact hstray p
  · intro t _
    rw [get_untouched_all d hw _ _ (fun e he => (hq e (hm e he)).2.1 t)]; exact hst t

/-- **first-time initialisation, not killed: a live, empty store** -/
theorem C03_first_open_live (so : StrictOrder kind.lt) (hH : Hash32 H) (P : Bytes → Prop)
    (hinj : Inj H sz P) (d : Disk) (hw : d.WF) (hseg : ∀ i, segData d i = none)
    (hidx : d.get .index = none) (hcas : ∀ g, d.get (.cas g) = none)
    (hst : ∀ t, d.get (.staging t) = none) (hstray : ∀ p, d.get (.stray p) = none)
    (cfg : Config) (hk : cfg.kind = kind) (hn : cfg.N = N) (ho : OpenOK H kind cfg d) :
    ∃ m2 sys2 sc, (openBody H cfg d).2 = .ok (m2, sc) ∧
      sc.missing = [] ∧ sc.corrupted = [] ∧ m2.idx.map = [] ∧
      StoreLive H kind sz N m2 sys2 [] (d.applyAll (openBody H cfg d).1) (fun _ => none) 0 := by
  refine open_live H kind sz N so hH P hinj cfg hk hn _ [] d
    ((dcfg_empty H kind sz N d hw hseg hidx).crash H kind sz N _ [] d) rfl
    [] rfl (fun _ => none) 0 ?_ (fun _ _ h => by cases h) ?_ hstray (fun t _ => hst t) ho
  · intro k; simp [kLookup]
  · intro g x hx; rw [hcas g] at hx; cases hx

/-- **C03, from an empty directory, everything together.**  The first `open` of an empty directory
    returns a handle; from there ANY history of puts, removes, range removals, checkpoints, clean
    restarts, and any of these killed after any number of filesystem events and followed by `open`
    (`LOp`), runs to completion — every `open` returns a handle — and ends in a live store whose
    every key reads the content of a specification reachable by applying each completed operation
    and applying-or-not each killed one. -/
theorem C03_from_empty_directory (so : StrictOrder kind.lt) (hH : Hash32 H) (P : Bytes → Prop)
    (hinj : Inj H sz P) (d : Disk) (hw : d.WF) (hseg : ∀ i, segData d i = none)
    (hidx : d.get .index = none) (hcas : ∀ g, d.get (.cas g) = none)
    (hst : ∀ t, d.get (.staging t) = none) (hstray : ∀ p, d.get (.stray p) = none)
    (cfg : Config) (hk : cfg.kind = kind) (hn : cfg.N = N) (ho : OpenOK H kind cfg d) :
    ∃ m0 sc, (openBody H cfg d).2 = .ok (m0, sc) ∧
      ∀ ops, LiveOK H kind P cfg m0 (d.applyAll (openBody H cfg d).1) 0 ops →
        ∃ m' d' tn' spec', lRun H cfg m0 (d.applyAll (openBody H cfg d).1) 0 ops = some (m', d', tn') ∧
          LReach kind (fun _ => none) ops spec' ∧
          ∀ k, getBlob m' d' k = match spec' k with
                                 | none => .absent
                                 | some c => .found c := by
  obtain ⟨m0, sys0, sc, hres, _, _, _, live⟩ := C03_first_open_live H kind sz N so hH P hinj d hw hseg hidx
    hcas hst hstray cfg hk hn ho
  refine ⟨m0, sc, hres, ?_⟩
  intro ops hok
  obtain ⟨m', d', tn', _, _, spec', hr, hreach, _, hread⟩ :=
    C03_histories_with_crashes H kind sz N so hH P hinj cfg hk hn ops m0 sys0 [] _ _ 0 live
      (fun _ _ h => by cases h) hok
  exact ⟨m', d', tn', spec', hr, hreach, hread⟩

end CasModel
