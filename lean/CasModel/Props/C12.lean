import CasModel.Proofs.Recompute
/-
  C12 — reference counts, sizes and statistics are exact, after every operation of every history.
  `sz h` is the length of THE content with hash `h` (contents with equal hashes are equal: the
  collision-freeness assumption); an operation is consistent (`OpOK`) when a put records
  `size = sz hash`, which `Transaction::write` guarantees by counting the bytes it hashes (C18).
  The statements after restart / crash recovery (`C12_after_load`) are in Props/C12Load.
-/
namespace CasModel
section
variable {K : Type} [DecidableEq K] {lt : K → K → Bool}

/-- apply a whole history of logged operations -/
def applyAll (lt : K → K → Bool) (s : IndexState K) : List (Op K) → Except IdxPanic (IndexState K)
  | [] => .ok s
  | op :: ops =>
    match applyOp lt s op with
    | .error e => .error e
    | .ok (s', _) => applyAll lt s' ops

/-- every history is applied without panic and keeps the invariant -/
theorem applyAll_inv (so : StrictOrder lt) (sz : Bytes → Nat) (s : IndexState K)
    (inv : IdxInv lt sz s) (ops : List (Op K)) (hops : ∀ op ∈ ops, OpOK sz op) :
    ∃ s', applyAll lt s ops = .ok s' ∧ IdxInv lt sz s' := by
  induction ops generalizing s with
  | nil => exact ⟨s, rfl, inv⟩
  | cons op ops ih =>
    obtain ⟨s1, un, e, ok, _⟩ := applyOp_spec so sz s inv op (hops op (by simp))
    obtain ⟨s2, e2, inv2⟩ := ih s1 ok.inv (fun o ho => hops o (by simp [ho]))
    exact ⟨s2, by simp [applyAll, e, e2], inv2⟩

def rcCount (s : IndexState K) (h : Bytes) : Nat := (rcGet s.rc h).getD 0

/-- **C12.** After every history (any operations, any order, any sharing of contents):
    no panic branch was reached, and
    (1) the reference count of every hash is the number of keys mapped to it,
    (2) the known blobs are exactly the hashes some key maps to,
    (3) `unique_blobs` is the number of distinct referenced hashes and `total_bytes` the sum of
        their sizes — both equal to what `recompute_stats` computes from scratch,
    (4) every key's recorded size is the size of its content. -/
theorem C12_counts_exact (so : StrictOrder lt) (sz : Bytes → Nat) (ops : List (Op K))
    (hops : ∀ op ∈ ops, OpOK sz op) :
    ∃ s, applyAll lt ({} : IndexState K) ops = .ok s ∧
      (∀ h, rcCount s h = countHash s.map h) ∧
      (∀ h, h ∈ rcKeys s.rc ↔ ∃ e ∈ s.map, e.2.hash = h) ∧
      (∀ n, (recomputeStats s n).uniqueBlobs = s.uniqueBlobs ∧
            (recomputeStats s n).totalBytes = s.totalBytes) ∧
      s.uniqueBlobs = (rcKeys s.rc).length ∧
      s.totalBytes = ((rcKeys s.rc).map sz).sum ∧
      (∀ e ∈ s.map, e.2.size = sz e.2.hash) ∧
      (rcKeys s.rc).Nodup := by
  obtain ⟨s, e, inv⟩ := applyAll_inv so sz {} (IdxInv.init sz) ops hops
  refine ⟨s, e, ?_, rcKeys_iff sz s inv, recompute_agrees sz s inv, ?_, inv.total, inv.mapSz, inv.rcNodup⟩
  · intro h
    simp only [rcCount, inv.rcOK h]
    by_cases c : countHash s.map h = 0 <;> simp [c]
  · rw [inv.unique]; simp [rcKeys]

/-- one step, from any state satisfying the invariant: the returned list is exactly the hashes
    that lost their last reference (drives space reclamation, C07) -/
theorem C12_step (so : StrictOrder lt) (sz : Bytes → Nat) (s : IndexState K)
    (inv : IdxInv lt sz s) (op : Op K) (hop : OpOK sz op) :
    ∃ s' un, applyOp lt s op = .ok (s', un) ∧ IdxInv lt sz s' ∧ un.Nodup ∧
      (∀ x, x ∈ un ↔ (0 < countHash s.map x ∧ countHash s'.map x = 0)) := by
  obtain ⟨s', un, e, ok, _⟩ := applyOp_spec so sz s inv op hop
  exact ⟨s', un, e, ok.inv, ok.nodup, ok.unref⟩

end

/-! non-vacuity: a concrete order and history (shared content, repoint, remove) -/
theorem natLt_strict : StrictOrder (fun a b : Nat => decide (a < b)) :=
  ⟨by simp, by intro a b c; simp; omega, by intro a b; simp; omega⟩

example : ∃ s, applyAll (fun a b : Nat => decide (a < b)) ({} : IndexState Nat)
    [.put 1 [7] 3, .put 2 [7] 3, .put 1 [8] 5, .remove [2, 9]] = .ok s ∧
    s.uniqueBlobs = 1 ∧ s.totalBytes = 5 ∧ s.rc = [([8], 1)] := ⟨_, rfl, rfl, rfl, rfl⟩

end CasModel
