import CasModel.Proofs.PowerLoss
import CasModel.Props.C03Store
/-
  C09 at the level of bytes: power loss at ANY cut of a commit.
  For a store tied to a machine state whose WAL files are fully synced (`Dur`, re-established by
  every script: `dur_applyAll_disc`), cut the script of a put / remove / remove_range commit after
  any number `j` of events and let ANY set of files lose everything after their last sync: recovery
  (`logical`) of that image succeeds without panic and returns the old key map or the old key map
  with exactly this operation applied.  After the whole script the WAL files are fully synced
  again, so an ACKNOWLEDGED operation is never lost (its record is covered by a sync before the
  call returns — the cut after the last event is the fully durable case).
  The blob half (an acknowledged put's blob is complete and fully synced before its record is
  written, in Sync mode) is `C09_blob_durable`.
-/
namespace CasModel
open Ghost

variable (H : Bytes → Bytes) (kind : KeyKind) (sz : Bytes → Nat) (N : Nat)

/-- **C09 (bytes).** -/
theorem C09_commit_power_loss_bytes (so : StrictOrder kind.lt) (hH : Hash32 H) (m : Mem)
    (sys : Sys (KMap Bytes) Bytes) (hist : Recs Bytes) (d : Disk)
    (t : Tied H kind sz N m sys hist d) (hdur : Dur d) (op : Op Bytes) (raw : RawOp)
    (hraw : raw.WF) (hconv : fromRaw kind raw = some op) (hop : OpOK sz op)
    (hwf : (⟨m.next, serWalOp raw⟩ : Rec).WF)
    (hsave : ∀ idx' un, applyOp kind.lt m.idx op = .ok (idx', un) → SaveOK kind idx')
    (hver : m.next + 1 < U64) :
    ∃ evs m', logAndApply H m d op raw = .ok (evs, m') ∧
      (∀ j lose, ∃ a, logical H kind ((d.applyAll (evs.take j)).powerLoss lose) = .ok a ∧
        IdxInv kind.lt sz a.idx ∧
        (a.idx.map = m.idx.map ∨ a.idx.map = mapApply kind.lt m.idx.map op)) ∧
      Dur (d.applyAll evs) := by
  obtain ⟨evs, m', hrun, hpre, sys', t'⟩ :=
    logAndApply_sim H kind sz N so hH m sys hist d t op raw hraw hconv hop hwf hsave hver
  have hM := t.mem_eq H kind sz N
  have hstep : stepM kind m.idx.map (serWalOp raw) = .ok (mapApply kind.lt m.idx.map op) := by
    have := C16_walop_roundtrip raw hraw []
    rw [List.append_nil] at this
    simp [stepM, this, hconv]
  have hrun2 : run (stepM kind) [] (hist ++ [(m.next, serWalOp raw)]) =
      .ok (mapApply kind.lt m.idx.map op) := by
    rw [run_append, hM]
    simp [run, hstep]
  have hdisc := logAndApply_disc H m d op raw evs m' hrun
  have hw := t.cfg.rel.wf
  refine ⟨evs, m', hrun, ?_, dur_applyAll_disc evs d hw hdur hdisc⟩
  intro j lose
  obtain ⟨sysj, histj, hmem, cj⟩ := powerLoss_allPre H kind sz N _ evs d hw hdur hdisc hpre j lose
  obtain ⟨a, h1, h2, h3, _⟩ := cj.recovers H hH kind so sz N sysj histj _
  refine ⟨a, h1, h3, ?_⟩
  simp only [List.mem_cons, List.not_mem_nil, or_false] at hmem
  rcases hmem with e | e
  · subst e; rw [hM] at h2; injection h2 with h2; exact Or.inl h2.symm
  · subst e; rw [hrun2] at h2; injection h2 with h2; exact Or.inr h2.symm

/-- the whole put script obeys the sync discipline -/
theorem putScript_disc (m : Mem) (d : Disk) (tn : Nat) (key : Bytes) (chunks : List Bytes) :
    Disc (putScript H m d tn key chunks).1 := by
  simp only [putScript, finishScript]
  have hpre : ∀ (l : List Ev), (∀ e ∈ l, e.walClean = true) → Disc l := disc_of_clean
  have hmk : ∀ (dd : Disk) (h : Bytes), ∀ e ∈ mkdirsFor dd h, e.walClean = true := by
    intro dd h e he
    unfold mkdirsFor at he
    split at he
    · simp only [List.mem_append] at he
      rcases he with he | he <;> (split at he <;> simp at he <;> subst he <;> rfl)
    · cases he
  have hclean : ∀ e ∈ beginScript tn ++ ([Ev.write (.staging tn) chunks.flatten] ++
      (if m.cfg.sync then [Ev.sync (.staging tn)] else []) ++
      (if m.preCreated then [] else mkdirsFor (d.applyAll (beginScript tn)) (H chunks.flatten)) ++
      [Ev.rename (.staging tn) (.cas (H chunks.flatten))]), e.walClean = true := by
    intro e he
    rcases List.mem_append.mp he with he | he
    · simp only [beginScript, List.mem_singleton] at he; subst he; rfl
    · rcases List.mem_append.mp he with he | he
      · rcases List.mem_append.mp he with he | he
        · rcases List.mem_append.mp he with he | he
          · simp only [List.mem_singleton] at he; subst he; rfl
          · split at he
            · simp only [List.mem_singleton] at he; subst he; rfl
            · cases he
        · split at he
          · cases he
          · exact hmk _ _ e he
      · simp only [List.mem_singleton] at he; subst he; rfl
  cases hla : logAndApply H m ((d.applyAll (beginScript tn)).applyAll
      ([Ev.write (.staging tn) chunks.flatten] ++ (if m.cfg.sync then [Ev.sync (.staging tn)] else []) ++
        (if m.preCreated then [] else mkdirsFor (d.applyAll (beginScript tn)) (H chunks.flatten)) ++
        [Ev.rename (.staging tn) (.cas (H chunks.flatten))]))
      (.put key (H chunks.flatten) (chunks.map List.length).sum)
      (.put key (H chunks.flatten) (chunks.map List.length).sum) with
  | error p => exact hpre _ hclean
  | ok r =>
    obtain ⟨evs2, m2⟩ := r
    simp only
    rw [← List.append_assoc]
    exact disc_append _ _ (hpre _ hclean) (logAndApply_disc H m _ _ _ evs2 m2 hla)

/-- **C09 (bytes), whole put.** The same for the complete `put` script (staging write and sync,
    directory creation, rename into cas/, then the commit): power loss at any cut recovers to the
    old key map or to the old one with this put applied. (The blob-side events touch no WAL file;
    the staged file is renamed only after its own sync, `C09_sync_before_rename`, so an
    acknowledged put's blob is complete and synced, `C09_blob_durable`.) -/
theorem C09_put_power_loss_bytes (so : StrictOrder kind.lt) (hH : Hash32 H) (m : Mem)
    (sys : Sys (KMap Bytes) Bytes) (hist : Recs Bytes) (d : Disk)
    (t : Tied H kind sz N m sys hist d) (hdur : Dur d) (tn : Nat) (key : Bytes) (chunks : List Bytes)
    (hraw : (RawOp.put key (H chunks.flatten) (chunks.map List.length).sum).WF)
    (hconv : kind.valid key = true)
    (hop : (chunks.map List.length).sum = sz (H chunks.flatten))
    (hwf : (⟨m.next, serWalOp (.put key (H chunks.flatten) (chunks.map List.length).sum)⟩ : Rec).WF)
    (hsave : ∀ idx' un, applyOp kind.lt m.idx
        (.put key (H chunks.flatten) (chunks.map List.length).sum) = .ok (idx', un) → SaveOK kind idx')
    (hver : m.next + 1 < U64) :
    ∀ j lose, ∃ a, logical H kind
        ((d.applyAll ((putScript H m d tn key chunks).1.take j)).powerLoss lose) = .ok a ∧
      IdxInv kind.lt sz a.idx ∧
      (a.idx.map = m.idx.map ∨
       a.idx.map = mapApply kind.lt m.idx.map (.put key (H chunks.flatten) (chunks.map List.length).sum)) := by
  obtain ⟨_, hpre, _⟩ := putScript_sim H kind sz N so hH m sys hist d t tn key chunks hraw hconv hop hwf
    hsave hver
  have hM := t.mem_eq H kind sz N
  have hconv' : fromRaw kind (.put key (H chunks.flatten) (chunks.map List.length).sum) =
      some (.put key (H chunks.flatten) (chunks.map List.length).sum) := by simp [fromRaw, hconv]
  have hstep : stepM kind m.idx.map (serWalOp (.put key (H chunks.flatten) (chunks.map List.length).sum)) =
      .ok (mapApply kind.lt m.idx.map (.put key (H chunks.flatten) (chunks.map List.length).sum)) := by
    have := C16_walop_roundtrip _ hraw []
    rw [List.append_nil] at this
    simp [stepM, this, hconv']
  have hrun2 : run (stepM kind) []
      (hist ++ [(m.next, serWalOp (.put key (H chunks.flatten) (chunks.map List.length).sum))]) =
      .ok (mapApply kind.lt m.idx.map (.put key (H chunks.flatten) (chunks.map List.length).sum)) := by
    rw [run_append, hM]
    simp [run, hstep]
  intro j lose
  obtain ⟨sysj, histj, hmem, cj⟩ := powerLoss_allPre H kind sz N _ _ d t.cfg.rel.wf hdur
    (putScript_disc H m d tn key chunks) hpre j lose
  obtain ⟨a, h1, h2, h3, _⟩ := cj.recovers H hH kind so sz N sysj histj _
  refine ⟨a, h1, h3, ?_⟩
  simp only [List.mem_cons, List.not_mem_nil, or_false] at hmem
  rcases hmem with e | e
  · subst e; rw [hM] at h2; injection h2 with h2; exact Or.inl h2.symm
  · subst e; rw [hrun2] at h2; injection h2 with h2; exact Or.inr h2.symm

/-- **C09 (bytes), checkpoint.** Power loss at any cut of a checkpoint (explicit, rollover or
    after-replay) leaves an image that recovers to exactly the key map memory holds: the snapshot
    replaces the index file only after it is completely synced, and segments are pruned only after
    that rename. -/
theorem C09_checkpoint_power_loss_bytes (so : StrictOrder kind.lt) (hH : Hash32 H)
    (reason : CkptReason) (m : Mem) (sys : Sys (KMap Bytes) Bytes) (hist : Recs Bytes)
    (d dAny : Disk) (t : Tied H kind sz N m sys hist d) (hdur : Dur d) (hsave : SaveOK kind m.idx)
    (hver : m.next < U64) :
    (∀ j lose, ∃ a, logical H kind
        ((d.applyAll ((checkpointScript reason m dAny).1.take j)).powerLoss lose) = .ok a ∧
        IdxInv kind.lt sz a.idx ∧ a.idx.map = m.idx.map) ∧
    Dur (d.applyAll (checkpointScript reason m dAny).1) := by
  obtain ⟨hpre, _, _⟩ := checkpoint_sim H kind sz N so reason m sys hist d dAny t hsave hver
    [hist] (by simp)
  have hM := t.mem_eq H kind sz N
  have hdisc := checkpointScript_disc reason m dAny
  have hw := t.cfg.rel.wf
  refine ⟨?_, dur_applyAll_disc _ d hw hdur hdisc⟩
  intro j lose
  obtain ⟨sysj, histj, hmem, cj⟩ := powerLoss_allPre H kind sz N _ _ d hw hdur hdisc hpre j lose
  obtain ⟨a, h1, h2, h3, _⟩ := cj.recovers H hH kind so sz N sysj histj _
  simp only [List.mem_singleton] at hmem
  subst hmem
  rw [hM] at h2; injection h2 with h2
  exact ⟨a, h1, h3, h2.symm⟩

/-- the settings gate's events never touch a WAL file -/
theorem settingsGate_clean (cfg : Config) (d : Disk) (e1 : List Ev) (pre : Bool)
    (h : settingsGate cfg d = .ok (e1, pre)) : ∀ e ∈ e1, e.walClean = true := by
  unfold settingsGate at h
  split at h
  · split at h
    · cases h
    · split at h
      · cases h
      · split at h
        · cases h
        · injection h with h; injection h with h1 _; subst h1; simp
  · injection h with h; injection h with h1 _; subst h1
    intro e he
    simp only [List.mem_append, List.mem_cons, List.not_mem_nil, or_false] at he
    rcases he with he | he
    · split at he
      · unfold preCreateEvents at he
        split at he
        · cases he
        · simp only [List.mem_singleton] at he; subst he; rfl
      · cases he
    · rcases he with he | he | he | he <;> subst he <;> rfl

/-- **C09 (bytes), open.** Power loss at any cut of `open` itself (settings, replay, creation of the
    next segment file, after-replay checkpoint), started on a crash image whose WAL files are
    fully synced, leaves an image that recovers to the same logged history. -/
theorem C09_open_power_loss_bytes (so : StrictOrder kind.lt) (hH : Hash32 H) (cfg : Config)
    (hk : cfg.kind = kind) (hn : cfg.N = N) (sys : Sys (KMap Bytes) Bytes) (hist : Recs Bytes)
    (d0 : Disk) (c : DCfg H kind sz N sys hist d0) (hdown : sys.up = false) (hdur : Dur d0)
    (e1 : List Ev) (pre : Bool) (hg : settingsGate cfg d0 = .ok (e1, pre))
    (hsave : ∀ a, logical H kind (d0.applyAll e1) = .ok a → SaveOK kind a.idx ∧ a.highest + 1 < U64) :
    ∀ j lose, ∃ a, logical H kind
        ((d0.applyAll ((openBody H cfg d0).1.take j)).powerLoss lose) = .ok a ∧
      IdxInv kind.lt sz a.idx ∧ run (stepM kind) [] hist = .ok a.idx.map := by
  obtain ⟨acc, hl, _, _, hpre, _⟩ := open_sim H kind sz N so hH cfg hk hn sys hist d0 c hdown e1 pre hg hsave
  have hl' : logical H cfg.kind (d0.applyAll e1) = .ok acc := by rw [hk]; exact hl
  obtain ⟨ck, hck, hev, _⟩ := openBody_eq H cfg d0 e1 pre acc hg hl'
  have hdisc : Disc (openBody H cfg d0).1 := by
    rw [hev]
    apply disc_append
    · apply disc_append
      · exact disc_of_clean _ (settingsGate_clean cfg d0 e1 pre hg)
      · split
        · trivial
        · exact disc_of_clean _ (by
            intro e he
            simp only [List.mem_cons, List.not_mem_nil, or_false] at he
            rcases he with rfl | rfl <;> rfl)
    · rw [hck]
      split
      · exact checkpointScript_disc _ _ _
      · trivial
  intro j lose
  obtain ⟨sysj, histj, hmem, cj⟩ := powerLoss_allPre H kind sz N _ _ d0 c.rel.wf hdur hdisc hpre j lose
  obtain ⟨a, h1, h2, h3, _⟩ := cj.recovers H hH kind so sz N sysj histj _
  simp only [List.mem_singleton] at hmem
  subst hmem
  exact ⟨a, h1, h3, h2⟩

/-- **C09 (bytes), repeated power loss.** Cut a commit anywhere and lose power (every file keeps
    only its synced prefix); run `open` on what is left, cut IT anywhere and lose power again; run
    `open` once more, to completion: the log is read without panic, memory holds the old key map or
    the old one with exactly this operation, and memory and disk are tied again. -/
theorem C09_repeated_power_loss_bytes (so : StrictOrder kind.lt) (hH : Hash32 H) (m : Mem)
    (sys : Sys (KMap Bytes) Bytes) (hist : Recs Bytes) (d : Disk)
    (t : Tied H kind sz N m sys hist d) (hdur : Dur d) (hle : SyncLe d) (op : Op Bytes) (raw : RawOp)
    (hraw : raw.WF) (hconv : fromRaw kind raw = some op) (hop : OpOK sz op)
    (hwf : (⟨m.next, serWalOp raw⟩ : Rec).WF)
    (hsave : ∀ idx' un, applyOp kind.lt m.idx op = .ok (idx', un) → SaveOK kind idx')
    (hver : m.next + 1 < U64)
    (cfg : Config) (hk : cfg.kind = kind) (hn : cfg.N = N)
    (j j2 : Nat) :
    ∃ evs m', logAndApply H m d op raw = .ok (evs, m') ∧
      let d1 := (d.applyAll (evs.take j)).powerLoss (fun _ => true)
      (OpenOK H kind cfg d1 →
      let d2 := (d1.applyAll ((openBody H cfg d1).1.take j2)).powerLoss (fun _ => true)
      OpenOK H kind cfg d2 →
      ∃ m2 sys2 hist2, (∀ m' sc, (openBody H cfg d2).2 = .ok (m', sc) → m' = m2) ∧
        (m2.idx.map = m.idx.map ∨ m2.idx.map = mapApply kind.lt m.idx.map op) ∧
        Tied H kind sz N m2 sys2 hist2 (d2.applyAll (openBody H cfg d2).1)) := by
  obtain ⟨evs, m', hrun, hpre, _, _⟩ :=
    logAndApply_sim H kind sz N so hH m sys hist d t op raw hraw hconv hop hwf hsave hver
  have hM := t.mem_eq H kind sz N
  have hstep : stepM kind m.idx.map (serWalOp raw) = .ok (mapApply kind.lt m.idx.map op) := by
    have := C16_walop_roundtrip raw hraw []
    rw [List.append_nil] at this
    simp [stepM, this, hconv]
  have hrun2 : run (stepM kind) [] (hist ++ [(m.next, serWalOp raw)]) =
      .ok (mapApply kind.lt m.idx.map op) := by
    rw [run_append, hM]
    simp [run, hstep]
  have hw := t.cfg.rel.wf
  have hdisc := logAndApply_disc H m d op raw evs m' hrun
  refine ⟨evs, m', hrun, ?_⟩
  intro d1 ⟨e1, pre, hg, hsv⟩ d2 ⟨e1', pre', hg', hsv'⟩
  -- first loss image: recoverable, fully synced
  have r1 : Recoverable H kind sz N _ d1 := powerLoss_allPre H kind sz N _ evs d hw hdur hdisc hpre j _
  have hle1 : SyncLe (d.applyAll (evs.take j)) := hle.applyAll d hw _
  obtain ⟨dur1, sle1⟩ := dur_of_full_loss _ hle1
  obtain ⟨sys1, hist1, hm1, c1⟩ := r1
  have c1' := c1.crash H kind sz N sys1 hist1 d1
  -- the first recovery, cut and hit by the second loss
  have w1 : d1.WF := c1.rel.wf
  have p2 := C09_open_power_loss_bytes H kind sz N so hH cfg hk hn _ hist1 d1 c1' rfl dur1 e1 pre hg hsv
  -- that image is itself recoverable to `hist1` (as a configuration, not only through `logical`)
  obtain ⟨acc, hl, _, _, hpreO, _⟩ := open_sim H kind sz N so hH cfg hk hn _ hist1 d1 c1' rfl e1 pre hg hsv
  have hl' : logical H cfg.kind (d1.applyAll e1) = .ok acc := by rw [hk]; exact hl
  obtain ⟨ck, hck, hev, _⟩ := openBody_eq H cfg d1 e1 pre acc hg hl'
  have hdiscO : Disc (openBody H cfg d1).1 := by
    rw [hev]
    apply disc_append
    · apply disc_append
      · exact disc_of_clean _ (settingsGate_clean cfg d1 e1 pre hg)
      · split
        · trivial
        · exact disc_of_clean _ (by
            intro e he
            simp only [List.mem_cons, List.not_mem_nil, or_false] at he
            rcases he with rfl | rfl <;> rfl)
    · rw [hck]
      split
      · exact checkpointScript_disc _ _ _
      · trivial
  have r2 : Recoverable H kind sz N [hist1] d2 :=
    powerLoss_allPre H kind sz N _ _ d1 w1 dur1 hdiscO hpreO j2 _
  -- the final recovery
  obtain ⟨h2, hh2, acc2, _, hr2, _, m2, sys2, hm2, hmap2, t2⟩ :=
    open_of_recoverable H kind sz N so hH cfg hk hn _ d2 r2 e1' pre' hg' hsv'
  simp only [List.mem_singleton] at hh2
  subst hh2
  refine ⟨m2, sys2, h2, hm2, ?_, t2⟩
  rw [hmap2]
  simp only [List.mem_cons, List.not_mem_nil, or_false] at hm1
  rcases hm1 with e | e
  · subst e; rw [hM] at hr2; injection hr2 with hr2; exact Or.inl hr2.symm
  · subst e; rw [hrun2] at hr2; injection hr2 with hr2; exact Or.inr hr2.symm

/-- a freshly created store (empty first segment, no index file yet) has fully synced WAL files
    as soon as its segment file is synced: non-vacuity of `Dur` together with `tied_fresh` -/
example (d : Disk) (h1 : ∀ i x, d.get (.seg i) = some x → x = ⟨[], 0⟩)
    (h2 : d.get .index = none) (h3 : d.get .indexTmp = none) : Dur d := by
  refine ⟨?_, ?_, ?_⟩
  · intro i x hx
    rw [h1 i x hx]; rfl
  · intro x hx
    rw [h2] at hx; cases hx
  · intro x hx
    rw [h3] at hx; cases hx

end CasModel
