import CasModel.Orphan
import CasModel.Props.C18
/-
  C08 — the orphan scan is exact, for EVERY tree of regular files below cas/ (depth ≤ 3: any
  names, non-hex, upper-case, wrong lengths, non-canonical splits, truncated / altered blobs) and
  every index — hence in particular on every crash image.  Proved for the repaired scan (a file is
  a blob only at the canonical path of the hash its name decodes to).
-/
namespace CasModel
section
variable {K : Type}

theorem fromCanonicalPath_some {p : List Bytes} {h : Bytes} (hc : fromCanonicalPath p = some h) :
    p = relativePath h := by
  unfold fromCanonicalPath at hc
  split at hc
  · split at hc
    · rename_i heq; injection hc with hc; subst hc; exact heq.symm
    · cases hc
  · cases hc

theorem classify_orphan (H : Bytes → Bytes) (verify : Bool) (m : KMap K) (f : TreeFile) (h : Bytes) :
    classify H verify m f = .orphan h ↔ f.1 = relativePath h ∧ fromCanonicalPath f.1 = some h ∧ refd m h = false := by
  unfold classify
  constructor
  · intro hc
    split at hc
    · split at hc
      · rename_i h' hp
        split at hc
        · split at hc <;> cases hc
        · rename_i hr; injection hc with hc; subst hc
          exact ⟨fromCanonicalPath_some hp, hp, by simpa using hr⟩
      · cases hc
    · cases hc
  · rintro ⟨hp, hc, hr⟩
    have h3 : f.1.length = 3 := by rw [hp]; rfl
    simp [h3, hc, hr]

theorem classify_corrupt (H : Bytes → Bytes) (verify : Bool) (m : KMap K) (f : TreeFile) (h : Bytes) :
    classify H verify m f = .corrupt h ↔
      f.1 = relativePath h ∧ fromCanonicalPath f.1 = some h ∧ refd m h = true ∧ verify = true ∧
      (some f.2.length ≠ expectedSize m h ∨ H f.2 ≠ h) := by
  unfold classify
  constructor
  · intro hc
    split at hc
    · split at hc
      · rename_i h' hp
        split at hc
        · rename_i hr
          split at hc
          · rename_i hv; injection hc with hc; subst hc
            simp only [Bool.and_eq_true, Bool.or_eq_true, bne_iff_ne, ne_eq] at hv
            exact ⟨fromCanonicalPath_some hp, hp, hr, hv.1, hv.2⟩
          · cases hc
        · cases hc
      · cases hc
    · cases hc
  · rintro ⟨hp, hc, hr, hv, hbad⟩
    have h3 : f.1.length = 3 := by rw [hp]; rfl
    simp only [h3, ↓reduceIte, hc, hr, hv, Bool.true_and]
    have : (some f.2.length != expectedSize m h || H f.2 != h) = true := by
      simp only [Bool.or_eq_true, bne_iff_ne, ne_eq]; exact hbad
    simp [this]

theorem classify_invalid (H : Bytes → Bytes) (verify : Bool) (m : KMap K) (f : TreeFile) (p : List Bytes) :
    classify H verify m f = .invalid p ↔ f.1 = p ∧ (f.1.length ≠ 3 ∨ fromCanonicalPath f.1 = none) := by
  unfold classify
  constructor
  · intro hc
    split at hc
    · split at hc
      · split at hc
        · split at hc <;> cases hc
        · cases hc
      · rename_i hn; injection hc with hc; exact ⟨hc, Or.inr hn⟩
    · rename_i h3; injection hc with hc; exact ⟨hc, Or.inl h3⟩
  · rintro ⟨hp, hbad⟩
    subst hp
    by_cases h3 : f.1.length = 3
    · rcases hbad with hbad | hbad
      · exact absurd h3 hbad
      · simp [h3, hbad]
    · simp [h3]

/-- **C08 (orphans).** `h` is reported as an orphan iff some regular file sits at the canonical
    path of `h` and no key references `h`. -/
theorem C08_orphans_exact (H : Bytes → Bytes) (verify : Bool) (m : KMap K) (files : List TreeFile)
    (h : Bytes) (h32 : h.length = 32) :
    h ∈ (scanTree H verify m files).orphaned ↔
      (∃ content, (relativePath h, content) ∈ files) ∧ refd m h = false := by
  simp only [scanTree, List.mem_filterMap, List.mem_map]
  constructor
  · rintro ⟨c, ⟨f, hf, rfl⟩, hc⟩
    split at hc
    · rename_i h' heq; injection hc with hc; subst hc
      obtain ⟨a, _, b⟩ := (classify_orphan H verify m f h').mp heq
      exact ⟨⟨f.2, by rw [← a]; exact hf⟩, b⟩
    · cases hc
  · rintro ⟨⟨content, hf⟩, hr⟩
    refine ⟨.orphan h, ⟨(relativePath h, content), hf, ?_⟩, rfl⟩
    exact (classify_orphan H verify m _ h).mpr ⟨rfl, (fromCanonicalPath_iff _ h h32).mpr rfl, hr⟩

/-- **C08 (corrupted).** With verification on, `h` is reported corrupted iff it is referenced and
    some file at its canonical path has another size or other bytes. -/
theorem C08_corrupted_exact (H : Bytes → Bytes) (verify : Bool) (m : KMap K) (files : List TreeFile)
    (h : Bytes) (h32 : h.length = 32) :
    h ∈ (scanTree H verify m files).corrupted ↔
      verify = true ∧ refd m h = true ∧
      ∃ content, (relativePath h, content) ∈ files ∧
        (some content.length ≠ expectedSize m h ∨ H content ≠ h) := by
  simp only [scanTree, List.mem_filterMap, List.mem_map]
  constructor
  · rintro ⟨c, ⟨f, hf, rfl⟩, hc⟩
    split at hc
    · rename_i h' heq; injection hc with hc; subst hc
      obtain ⟨a, _, b, c, d⟩ := (classify_corrupt H verify m f h').mp heq
      exact ⟨c, b, f.2, by rw [← a]; exact hf, d⟩
    · cases hc
  · rintro ⟨hv, hr, content, hf, hbad⟩
    refine ⟨.corrupt h, ⟨(relativePath h, content), hf, ?_⟩, rfl⟩
    exact (classify_corrupt H verify m _ h).mpr ⟨rfl, (fromCanonicalPath_iff _ h h32).mpr rfl, hr, hv, hbad⟩

/-- **C08 (invalid).** A path is reported invalid iff a regular file sits there and it is not at
    depth 3 or its name is not the canonical path of any hash. -/
theorem C08_invalid_exact (H : Bytes → Bytes) (verify : Bool) (m : KMap K) (files : List TreeFile)
    (p : List Bytes) :
    p ∈ (scanTree H verify m files).invalid ↔
      (∃ content, (p, content) ∈ files) ∧ (p.length ≠ 3 ∨ fromCanonicalPath p = none) := by
  simp only [scanTree, List.mem_filterMap, List.mem_map]
  constructor
  · rintro ⟨c, ⟨f, hf, rfl⟩, hc⟩
    split at hc
    · rename_i p' heq; injection hc with hc; subst hc
      obtain ⟨a, b⟩ := (classify_invalid H verify m f p').mp heq
      subst a
      exact ⟨⟨f.2, hf⟩, b⟩
    · cases hc
  · rintro ⟨⟨content, hf⟩, hbad⟩
    exact ⟨.invalid p, ⟨(p, content), hf, (classify_invalid H verify m _ p).mpr ⟨rfl, hbad⟩⟩, rfl⟩

/-- a hash is "seen" iff a regular file sits at its canonical path -/
theorem seen_iff (H : Bytes → Bytes) (verify : Bool) (m : KMap K) (files : List TreeFile)
    (h : Bytes) (h32 : h.length = 32) :
    seen (files.map (classify H verify m)) h = true ↔ ∃ content, (relativePath h, content) ∈ files := by
  simp only [seen, List.any_eq_true, List.mem_map, Bool.or_eq_true, beq_iff_eq]
  constructor
  · rintro ⟨c, ⟨f, hf, rfl⟩, hc⟩
    have hp : f.1 = relativePath h := by
      unfold classify at hc
      split at hc
      · split at hc
        · rename_i h' hp
          have : h' = h := by
            split at hc
            · split at hc
              · rcases hc with (hc | hc) | hc <;> first | (injection hc) | cases hc
              · rcases hc with (hc | hc) | hc <;> first | (injection hc) | cases hc
            · rcases hc with (hc | hc) | hc <;> first | (injection hc) | cases hc
          subst this; exact fromCanonicalPath_some hp
        · rcases hc with (hc | hc) | hc <;> cases hc
      · rcases hc with (hc | hc) | hc <;> cases hc
    exact ⟨f.2, by rw [← hp]; exact hf⟩
  · rintro ⟨content, hf⟩
    refine ⟨_, ⟨(relativePath h, content), hf, rfl⟩, ?_⟩
    have hc := (fromCanonicalPath_iff _ h h32).mpr rfl
    unfold classify
    simp only [show (relativePath h).length = 3 from rfl, ↓reduceIte, hc]
    split
    · split <;> simp
    · simp

/-- **C08 (missing).** `h` is reported missing iff some key references it and no regular file
    sits at its canonical path. -/
theorem C08_missing_exact (H : Bytes → Bytes) (verify : Bool) (m : KMap K) (files : List TreeFile)
    (h : Bytes) (h32 : h.length = 32) :
    h ∈ (scanTree H verify m files).missing ↔
      h ∈ distinctHashes m ∧ ¬ ∃ content, (relativePath h, content) ∈ files := by
  simp only [scanTree, List.mem_filter, Bool.not_eq_true', ← seen_iff H verify m files h h32]
  constructor
  · rintro ⟨a, b⟩; exact ⟨a, by simp [b]⟩
  · rintro ⟨a, b⟩; exact ⟨a, by simpa using b⟩

end

/-- non-vacuity: a non-canonical split of a referenced hash's digits no longer masks the missing blob -/
example : ∃ r, r = scanTree (K := Nat) (fun b => b) false [(1, ⟨List.replicate 32 0xab, 1⟩)]
    [([toHex (List.replicate 2 0xab), toHex [0xab], toHex (List.replicate 29 0xab)], [1])] ∧
    r.missing = [List.replicate 32 0xab] ∧ r.invalid.length = 1 ∧ r.orphaned = [] := ⟨_, rfl, by decide, by decide, by decide⟩

end CasModel
