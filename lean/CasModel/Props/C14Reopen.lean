import CasModel.Props.C14Store
/-
  C14, last part: "… and after reopening, which succeeds".

  After one failed call and any non-empty sequence of further operations, the handle is dropped
  (the drop flushes what the segment writer retained, then syncs the segment) and the store is
  opened again.  `FTied.close_sim`: the disk after the drop is a configuration of the FAULT-FREE
  theory (`DCfg`, Proofs/Simulation) for a history that replays to a key map `mp` which, key by key,
  is what the dropped handle held or what the failed operation would have written.  Everything
  proved about `open` for fault-free stores therefore applies (`C14_reopen_after_faulty_session`,
  through `open_sim`): `open` succeeds, reads exactly `mp`, every prefix of its own script is
  recoverable again (a crash during that open is covered too), and on completion memory and disk
  are `Tied` — the fault has left no trace in the invariants, and all theorems of Props/C03Store,
  C09Store, C14Store apply to the reopened store.
  (Dropping the handle immediately after the failed operation, with no operation in between, is
  the case of Props/C14Image: that image is a prefix of the fault-free script.)
-/
namespace CasModel
open Ghost

variable (H : Bytes → Bytes) (kind : KeyKind) (sz : Bytes → Nat) (N : Nat)

/-- the events of dropping the handle: the writer's retained bytes are flushed, the active segment
    is synced (`faultClose`'s fault-free script) -/
def flushPart (m : Mem) : List Ev :=
  if m.walBuf.isEmpty then [] else
    match m.active with | some i => [Ev.write (.seg i) m.walBuf] | none => []

def closeEvents (m : Mem) : List Ev := flushPart m ++ closeScript m

/-- recovery of the disk of a configuration, key by key against a given memory map -/
theorem FCfg.recovery (so : StrictOrder kind.lt) (hH : Hash32 H)
    (fs : FSys (KMap Bytes) Bytes) (h : Hist Bytes) (d : Disk) (c : FCfg H kind sz N fs h d) :
    ∃ mp, run (stepM kind) [] h.hd = .ok mp ∧
      ∀ k, kLookup mp k = kLookup fs.sys.st k ∨
        ∃ e ∈ h.failed, payloadEff kind e.2 k = some (kLookup mp k) := by
  obtain ⟨mp, hmp⟩ := c.good.runs
  refine ⟨mp, hmp, ?_⟩
  intro k
  have hmem : run (stepM kind) [] h.hm = .ok fs.sys.st := (c.good.mem c.up).1
  have hstep : ∀ s r s', stepM kind s r = .ok s' →
      ∃ op, s' = mapApply kind.lt s op ∧ payloadEff kind r = opEff op := by
    intro s r s' hs
    unfold stepM at hs
    cases hd : deserWalOp r with
    | error e => simp [hd] at hs
    | ok raw =>
      cases hc : fromRaw kind raw with
      | none => simp [hd, hc] at hs
      | some op =>
        simp only [hd, hc] at hs
        injection hs with hs
        refine ⟨op, hs.symm, ?_⟩
        funext k
        simp [payloadEff, hd, hc]
  exact divergence_bounded (stepM kind) (Sorted kind.lt) kLookup (payloadEff kind)
    (fun s r s' hs hst => by
      obtain ⟨op, e, _⟩ := hstep s r s' hst
      rw [e]; exact mapApply_sorted so s hs op)
    (fun s r s' hs hst k => by
      obtain ⟨op, e, e2⟩ := hstep s r s' hst
      rw [e, e2]; exact kLookup_mapApply so s hs op k)
    h.hm h.hd c.good.sub c.good.ginv.incr h.failed c.good.fromFailed [] [] mp
    fs.sys.st List.Pairwise.nil List.Pairwise.nil hmp hmem k (Or.inl rfl)

theorem encodeEntry_ne_nil (r : Rec) : encodeEntry H r ≠ [] := by
  intro c
  have := congrArg List.length c
  simp [encodeEntry] at this

theorem closeScript_free (m : Mem) : ∀ e ∈ closeScript m, e.segFree = true ∧ e.indexFree = true := by
  intro e he
  unfold closeScript at he
  split at he
  · simp only [List.mem_singleton] at he; subst he; simp [Ev.segFree, Ev.indexFree]
  · cases he

/-- the retained bytes are flushed, then any events that touch neither a segment's bytes nor the
    index file (the final sync, or nothing if it failed) -/
theorem FTied.close_sim_gen (so : StrictOrder kind.lt) (hH : Hash32 H) (m : Mem)
    (fs : FSys (KMap Bytes) Bytes) (h : Hist Bytes) (d : Disk) (t : FTied H kind sz N m fs h d)
    (hf : Fresh N fs) (tail : List Ev) (hcfree : ∀ e ∈ tail, e.segFree = true ∧ e.indexFree = true) :
    ∃ sys' hist' mp, DCfg H kind sz N sys' hist' (d.applyAll (flushPart m ++ tail)) ∧ sys'.up = false ∧
      run (stepM kind) [] hist' = .ok mp ∧
      ∀ k, kLookup mp k = kLookup m.idx.map k ∨
        ∃ e ∈ h.failed, payloadEff kind e.2 k = some (kLookup mp k) := by
  -- finish from a configuration with nothing retained
  have fin : ∀ (fs1 : FSys (KMap Bytes) Bytes) (h1 : Hist Bytes) (d1 : Disk),
      FCfg H kind sz N fs1 h1 d1 → fs1.pend = [] → Fresh N fs1 → fs1.sys.st = m.idx.map →
      h1.failed = h.failed →
      ∃ sys' hist' mp, DCfg H kind sz N sys' hist' (d1.applyAll tail) ∧ sys'.up = false ∧
        run (stepM kind) [] hist' = .ok mp ∧
        ∀ k, kLookup mp k = kLookup m.idx.map k ∨
          ∃ e ∈ h.failed, payloadEff kind e.2 k = some (kLookup mp k) := by
    intro fs1 h1 d1 c1 p1 f1 s1 e1
    have c2 := c1.freeAll H kind sz N fs1 h1 d1 _ hcfree
    obtain ⟨mp, hmp, hk⟩ := c2.recovery H kind sz N so hH fs1 h1 _
    have dc := c2.toDCfg H kind sz N fs1 h1 _ p1 f1
    refine ⟨_, _, mp, dc, rfl, run_withNoop kind _ _ c2.good.ginv.incr mp hmp, ?_⟩
    intro k
    rw [← s1, ← e1]; exact hk k
  unfold flushPart
  cases hp : fs.pend with
  | nil =>
    have hw : m.walBuf = [] := by rw [t.buf, hp]; rfl
    simp only [hw, List.isEmpty_nil, ↓reduceIte, List.nil_append]
    exact fin fs h d t.cfg hp hf t.st rfl
  | cons q qs =>
    obtain ⟨a, old, a1, a2, a3, a4⟩ := t.pendSeg (by simp [hp])
    have hw : m.walBuf.isEmpty = false := by
      rw [t.buf, hp, pendBytes_cons]
      cases hq : encodeEntry H ⟨q.1, q.2⟩ with
      | nil => exact absurd hq (encodeEntry_ne_nil H _)
      | cons x xs => rfl
    simp only [hw, Bool.false_eq_true, ↓reduceIte, a1, Disk.applyAll_append, Disk.applyAll_cons,
      Disk.applyAll_nil]
    obtain ⟨fs1, d1, n1, s1, p1, v1, g1, g1', c1, e1⟩ :=
      t.cfg.flushAll H kind sz N hH fs.pend fs h d rfl a a2 old a3 (fun _ => a4) []
    rw [t.buf]
    have hd1 : d.apply (.write (.seg a) (pendBytes H fs.pend)) = d1.apply (.write (.seg a) []) := by
      rw [← e1]; simp
    rw [hd1]
    -- an empty write changes no file
    have c1' : FCfg H kind sz N fs1 (flushHist fs.sys.g.snapVer h fs.pend)
        (d1.apply (.write (.seg a) [])) := by
      apply c1.of_data H kind sz N fs1 _ d1 _ (Disk.apply_WF d1 c1.rel.wf _)
      · intro i; unfold segData; rw [Disk.apply_write_nil d1 c1.rel.wf]
      · unfold indexData; rw [Disk.apply_write_nil d1 c1.rel.wf]
    have hf1 : Fresh N fs1 := by
      rcases hf with hf | ⟨rs, p, hrs, hpm⟩
      · left; rw [v1, n1]; exact hf
      · right
        by_cases hc : Ghost.segOf N (fs.sys.next - 1) = a
        · refine ⟨old ++ fs.pend, p, by rw [n1, hc]; exact g1, ?_⟩
          rw [hc, a3] at hrs; injection hrs with hrs
          rw [n1, hrs]; exact List.mem_append_left _ hpm
        · exact ⟨rs, p, by rw [n1, g1' _ hc]; exact hrs, by rw [n1]; exact hpm⟩
    exact fin fs1 _ _ c1' p1 hf1 (by rw [s1, t.st]) (flushHist_hm _ _ _).2

/-- **dropping the handle after a faulty session.** -/
theorem FTied.close_sim (so : StrictOrder kind.lt) (hH : Hash32 H) (m : Mem)
    (fs : FSys (KMap Bytes) Bytes) (h : Hist Bytes) (d : Disk) (t : FTied H kind sz N m fs h d)
    (hf : Fresh N fs) :
    ∃ sys' hist' mp, DCfg H kind sz N sys' hist' (d.applyAll (closeEvents m)) ∧ sys'.up = false ∧
      run (stepM kind) [] hist' = .ok mp ∧
      ∀ k, kLookup mp k = kLookup m.idx.map k ∨
        ∃ e ∈ h.failed, payloadEff kind e.2 k = some (kLookup mp k) :=
  t.close_sim_gen H kind sz N so hH m fs h d hf (closeScript m) (closeScript_free m)

/-- **C14: reopening after a faulty session succeeds.**  From the memory/disk a faulty session
    leaves (`FTied`, last assigned version on disk), drop the handle and open again: `open` reads a
    key map that per key is what the dropped handle held or what a failed operation would have
    written; every prefix of the open script is recoverable to that same history; on completion
    memory and disk are `Tied` — the store is back in the fault-free theory. -/
theorem C14_reopen_after_faulty_session (so : StrictOrder kind.lt) (hH : Hash32 H) (m : Mem)
    (fs : FSys (KMap Bytes) Bytes) (h : Hist Bytes) (d : Disk) (t : FTied H kind sz N m fs h d)
    (hf : Fresh N fs) (cfg : Config) (hk : cfg.kind = kind) (hn : cfg.N = N)
    (e1 : List Ev) (pre : Bool)
    (hg : settingsGate cfg (d.applyAll (closeEvents m)) = .ok (e1, pre))
    (hsave : ∀ a, logical H kind ((d.applyAll (closeEvents m)).applyAll e1) = .ok a →
      SaveOK kind a.idx ∧ a.highest + 1 < U64) :
    ∃ hist' acc m4 sys4,
      logical H kind ((d.applyAll (closeEvents m)).applyAll e1) = .ok acc ∧
      (∀ m' sc, (openBody H cfg (d.applyAll (closeEvents m))).2 = .ok (m', sc) → m' = m4) ∧
      m4.idx.map = acc.idx.map ∧
      (∀ k, kLookup m4.idx.map k = kLookup m.idx.map k ∨
        ∃ e ∈ h.failed, payloadEff kind e.2 k = some (kLookup m4.idx.map k)) ∧
      AllPre (Recoverable H kind sz N [hist']) (d.applyAll (closeEvents m))
        (openBody H cfg (d.applyAll (closeEvents m))).1 ∧
      Tied H kind sz N m4 sys4 hist'
        ((d.applyAll (closeEvents m)).applyAll (openBody H cfg (d.applyAll (closeEvents m))).1) := by
  obtain ⟨sys', hist', mp, dc, hdown, hrun, hkeys⟩ := t.close_sim H kind sz N so hH m fs h d hf
  obtain ⟨acc, l1, l2, _, l4, m4, sys4, l5, l6, _, l8⟩ :=
    open_sim H kind sz N so hH cfg hk hn sys' hist' _ dc hdown e1 pre hg hsave
  rw [hrun] at l2
  injection l2 with l2
  refine ⟨hist', acc, m4, sys4, l1, l5, l6, ?_, l4, l8⟩
  intro k
  rw [l6, ← l2]; exact hkeys k


/-! ### the whole story: one failing call, further operations, drop, reopen -/

/-- from the state a failed commit leaves: any non-empty sequence of further operations, then the
    drop of the handle, then `open` -/
theorem FaultPost.session_reopens (so : StrictOrder kind.lt) (hH : Hash32 H) (m : Mem)
    (hist : Recs Bytes) (p : Bytes) (op : Op Bytes) (m2 : Mem) (d2 : Disk)
    (fp : FaultPost H kind sz N m hist p op m2 d2) (hpos : 0 < m.next)
    (hpe : ∀ key, payloadEff kind p key = opEff op key)
    (ops : List ContOp) (hne : ops ≠ []) (hok : ContAllOK H kind sz m2 d2 ops)
    (cfg : Config) (hk : cfg.kind = kind) (hn : cfg.N = N) :
    ∃ m3 d3, contRun H m2 d2 ops = .ok (m3, d3) ∧
      m3.idx.map = (ops.map (ContOp.logged H)).foldl (applyLogged kind) m2.idx.map ∧
      ∀ (e1 : List Ev) (pre : Bool),
        settingsGate cfg (d3.applyAll (closeEvents m3)) = .ok (e1, pre) →
        (∀ a, logical H kind ((d3.applyAll (closeEvents m3)).applyAll e1) = .ok a →
          SaveOK kind a.idx ∧ a.highest + 1 < U64) →
        ∃ hist' m4 sys4,
          (∀ m' sc, (openBody H cfg (d3.applyAll (closeEvents m3))).2 = .ok (m', sc) → m' = m4) ∧
          (∀ k, kLookup m4.idx.map k = kLookup m3.idx.map k ∨
            opEff op k = some (kLookup m4.idx.map k)) ∧
          AllPre (Recoverable H kind sz N [hist']) (d3.applyAll (closeEvents m3))
            (openBody H cfg (d3.applyAll (closeEvents m3))).1 ∧
          Tied H kind sz N m4 sys4 hist'
            ((d3.applyAll (closeEvents m3)).applyAll (openBody H cfg (d3.applyAll (closeEvents m3))).1) := by
  obtain ⟨fs, h, ft, hnext, hcase⟩ := fp
  obtain ⟨m3, d3, fs3, h3, r1, t3, f3, e3, fr⟩ := contRun_fsim H kind sz N so hH ops m2 fs h d2 ft hok
  obtain ⟨hfresh, _⟩ := fr (by omega) (Or.inl hne)
  refine ⟨m3, d3, r1, e3, ?_⟩
  intro e1 pre hg hsave
  obtain ⟨hist', acc, m4, sys4, _, l5, _, l7, l8, l9⟩ :=
    C14_reopen_after_faulty_session H kind sz N so hH m3 fs3 h3 d3 t3 hfresh cfg hk hn e1 pre hg hsave
  refine ⟨hist', m4, sys4, l5, ?_, l8, l9⟩
  intro k
  rcases l7 k with x | ⟨e', he', x⟩
  · exact Or.inl x
  · right
    rw [f3] at he'
    rcases hcase with ⟨_, hf, _⟩ | ⟨_, hf, _⟩
    · rw [hf] at he'
      simp only [List.mem_singleton] at he'
      subst he'
      rw [← hpe]; exact x
    · rw [hf] at he'; cases he'

/-- the state a failed remove / remove_range leaves is tied to the machine with failed appends -/
theorem faultRemove_post (so : StrictOrder kind.lt) (hH : Hash32 H) (m : Mem)
    (sys : Sys (KMap Bytes) Bytes) (hist : Recs Bytes) (d : Disk)
    (t : Tied H kind sz N m sys hist d) (hb : m.walBuf = [] ∧ m.protectedFailed = [])
    (keys : List Bytes)
    (hraw : (RawOp.remove keys).WF) (hconv : fromRaw kind (.remove keys) = some (.remove keys))
    (hop : OpOK sz (.remove keys))
    (hwf : (⟨m.next, serWalOp (.remove keys)⟩ : Rec).WF)
    (hsave : ∀ idx' un, applyOp kind.lt m.idx (.remove keys) = .ok (idx', un) → SaveOK kind idx')
    (hver : m.next + 1 < U64) (k : Nat)
    (hreached : (faultRemove H m d keys k).res ≠ .completed) :
    ∃ m2, (faultRemove H m d keys k).mem = some m2 ∧
      FaultPost H kind sz N m hist (serWalOp (.remove keys)) (.remove keys) m2
        (d.applyAll (faultRemove H m d keys k).events) := by
  obtain ⟨evs, m', hrun, _, _⟩ :=
    logAndApply_sim H kind sz N so hH m sys hist d t (.remove keys) (.remove keys) hraw hconv hop
      hwf hsave hver
  have hany : logAndApplyAny H m d (.remove keys) (.remove keys) = .ok (evs, m') := by
    simp [logAndApplyAny, hb.1, hb.2, hrun]
  unfold faultRemove at hreached ⊢
  simp only [hany] at hreached ⊢
  cases hsp : (splitAtCounted k evs).2.1 with
  | none => simp [hsp] at hreached
  | some e =>
    simp only
    obtain ⟨hcut, _, _⟩ := splitAtCounted_some k evs e hsp
    exact ⟨_, rfl, faultLogAndApply_ftied H kind sz N so hH m sys hist d t hb.1 (.remove keys)
      (.remove keys) hraw hconv hop hwf hsave hver evs m' hrun (splitAtCounted k evs).1 e
      (splitAtCounted k evs).2.2 hcut⟩

/-- **C14 (bytes), complete for remove / remove_range:** one failing call at any position, any
    non-empty sequence of further operations, drop of the handle, `open`: every operation runs
    without panic, `open` succeeds and reads, per key, what the handle held at the end or the value
    the failed removal would have left (absent); the reopened store is `Tied` again. -/
theorem C14_remove_fault_session_reopens (so : StrictOrder kind.lt) (hH : Hash32 H) (m : Mem)
    (sys : Sys (KMap Bytes) Bytes) (hist : Recs Bytes) (d : Disk)
    (t : Tied H kind sz N m sys hist d) (hb : m.walBuf = [] ∧ m.protectedFailed = [])
    (keys : List Bytes)
    (hraw : (RawOp.remove keys).WF) (hconv : fromRaw kind (.remove keys) = some (.remove keys))
    (hop : OpOK sz (.remove keys))
    (hwf : (⟨m.next, serWalOp (.remove keys)⟩ : Rec).WF)
    (hsave : ∀ idx' un, applyOp kind.lt m.idx (.remove keys) = .ok (idx', un) → SaveOK kind idx')
    (hver : m.next + 1 < U64) (k : Nat)
    (hreached : (faultRemove H m d keys k).res ≠ .completed)
    (cfg : Config) (hk : cfg.kind = kind) (hn : cfg.N = N) :
    ∃ m2, (faultRemove H m d keys k).mem = some m2 ∧
      ∀ ops, ops ≠ [] → ContAllOK H kind sz m2 (d.applyAll (faultRemove H m d keys k).events) ops →
      ∃ m3 d3, contRun H m2 (d.applyAll (faultRemove H m d keys k).events) ops = .ok (m3, d3) ∧
        m3.idx.map = (ops.map (ContOp.logged H)).foldl (applyLogged kind) m2.idx.map ∧
        ∀ (e1 : List Ev) (pre : Bool),
          settingsGate cfg (d3.applyAll (closeEvents m3)) = .ok (e1, pre) →
          (∀ a, logical H kind ((d3.applyAll (closeEvents m3)).applyAll e1) = .ok a →
            SaveOK kind a.idx ∧ a.highest + 1 < U64) →
          ∃ hist' m4 sys4,
            (∀ m' sc, (openBody H cfg (d3.applyAll (closeEvents m3))).2 = .ok (m', sc) → m' = m4) ∧
            (∀ key, kLookup m4.idx.map key = kLookup m3.idx.map key ∨
              opEff (Op.remove keys) key = some (kLookup m4.idx.map key)) ∧
            AllPre (Recoverable H kind sz N [hist']) (d3.applyAll (closeEvents m3))
              (openBody H cfg (d3.applyAll (closeEvents m3))).1 ∧
            Tied H kind sz N m4 sys4 hist'
              ((d3.applyAll (closeEvents m3)).applyAll
                (openBody H cfg (d3.applyAll (closeEvents m3))).1) := by
  obtain ⟨m2, hm2, fp⟩ := faultRemove_post H kind sz N so hH m sys hist d t hb keys hraw hconv hop hwf
    hsave hver k hreached
  refine ⟨m2, hm2, ?_⟩
  intro ops hne hok
  have hpe : ∀ key, payloadEff kind (serWalOp (.remove keys)) key = opEff (Op.remove keys) key := by
    intro key
    have hdec := C16_walop_roundtrip (.remove keys) hraw []
    rw [List.append_nil] at hdec
    simp [payloadEff, hdec, hconv]
  have hpos : 0 < m.next := by have := hwf.1; simpa using this
  exact fp.session_reopens H kind sz N so hH m hist _ _ m2 _ hpos hpe ops hne hok cfg hk hn


/-- the state a failed put leaves: if the failing call came before the blob was in place, memory is
    untouched and the store is still `Tied` (nothing happened as far as the log goes: the
    fault-free theory applies as before); otherwise it is tied to the machine with failed appends -/
theorem faultPut_post (so : StrictOrder kind.lt) (hH : Hash32 H) (m : Mem)
    (sys : Sys (KMap Bytes) Bytes) (hist : Recs Bytes) (d : Disk)
    (t : Tied H kind sz N m sys hist d) (hb : m.walBuf = [] ∧ m.protectedFailed = [])
    (tn : Nat) (key : Bytes) (chunks : List Bytes)
    (hraw : (RawOp.put key (H chunks.flatten) (chunks.map List.length).sum).WF)
    (hval : kind.valid key = true)
    (hsz : (chunks.map List.length).sum = sz (H chunks.flatten))
    (hwf : (⟨m.next, serWalOp (.put key (H chunks.flatten) (chunks.map List.length).sum)⟩ : Rec).WF)
    (hsave : ∀ idx' un, applyOp kind.lt m.idx
        (.put key (H chunks.flatten) (chunks.map List.length).sum) = .ok (idx', un) → SaveOK kind idx')
    (hver : m.next + 1 < U64) (k : Nat)
    (hreached : (faultPut H m d tn key chunks k).res ≠ .completed) :
    ∃ m2, (faultPut H m d tn key chunks k).mem = some m2 ∧
      ((m2 = m ∧ Tied H kind sz N m sys hist (d.applyAll (faultPut H m d tn key chunks k).events)) ∨
       FaultPost H kind sz N m hist
        (serWalOp (.put key (H chunks.flatten) (chunks.map List.length).sum))
        (.put key (H chunks.flatten) (chunks.map List.length).sum) m2
        (d.applyAll (faultPut H m d tn key chunks k).events)) := by
  have hfree : ∀ e ∈ (beginScript tn ++ [Ev.write (.staging tn) chunks.flatten] ++
        (if m.cfg.sync then [Ev.sync (.staging tn)] else []) ++
        (if m.preCreated then [] else mkdirsFor (d.applyAll (beginScript tn)) (H chunks.flatten)) ++
        [Ev.rename (.staging tn) (.cas (H chunks.flatten))]),
      e.segFree = true ∧ e.indexFree = true := by
    intro e he
    simp only [beginScript, List.mem_append, List.mem_cons, List.not_mem_nil, or_false] at he
    rcases he with (((he | he) | he) | he) | he
    · subst he; simp [Ev.segFree, Ev.indexFree]
    · subst he; simp [Ev.segFree, Ev.indexFree]
    · split at he
      · simp only [List.mem_singleton] at he; subst he; simp [Ev.segFree, Ev.indexFree]
      · cases he
    · split at he
      · cases he
      · exact mkdirsFor_free _ _ e he
    · subst he; simp [Ev.segFree, Ev.indexFree]
  have hconv : fromRaw kind (.put key (H chunks.flatten) (chunks.map List.length).sum) =
      some (.put key (H chunks.flatten) (chunks.map List.length).sum) := by
    simp [fromRaw, hval]
  have thead := t.freeAll H kind sz N m sys hist d _ hfree
  obtain ⟨tailEvs, m', hrun, _, _⟩ :=
    logAndApply_sim H kind sz N so hH m sys hist _ thead
      (.put key (H chunks.flatten) (chunks.map List.length).sum)
      (.put key (H chunks.flatten) (chunks.map List.length).sum) hraw hconv hsz hwf hsave hver
  unfold faultPut at hreached ⊢
  simp only at hreached ⊢
  have hany : ∀ dd, logAndApplyAny H m dd (.put key (H chunks.flatten) (chunks.map List.length).sum)
      (.put key (H chunks.flatten) (chunks.map List.length).sum) =
      logAndApply H m dd (.put key (H chunks.flatten) (chunks.map List.length).sum)
      (.put key (H chunks.flatten) (chunks.map List.length).sum) := by
    intro dd; simp [logAndApplyAny, hb.1, hb.2]
  rw [hany, hrun] at hreached ⊢
  simp only at hreached ⊢
  generalize hhead : (beginScript tn ++ [Ev.write (.staging tn) chunks.flatten] ++
        (if m.cfg.sync then [Ev.sync (.staging tn)] else []) ++
        (if m.preCreated then [] else mkdirsFor (d.applyAll (beginScript tn)) (H chunks.flatten)) ++
        [Ev.rename (.staging tn) (.cas (H chunks.flatten))]) = head at hreached hfree thead hrun ⊢
  unfold faultPutCore at hreached ⊢
  simp only at hreached ⊢
  cases hsp : (splitAtCounted k (head ++ tailEvs)).2.1 with
  | none => simp [hsp] at hreached
  | some e =>
    simp only
    obtain ⟨hcut, _, _⟩ := splitAtCounted_some k (head ++ tailEvs) e hsp
    by_cases hk : k < countedCount head
    · simp only [hk, ↓reduceIte]
      refine ⟨m, rfl, Or.inl ⟨rfl, ?_⟩⟩
      have hprefree : ∀ x ∈ (splitAtCounted k (head ++ tailEvs)).1, x.segFree = true ∧ x.indexFree = true := by
        intro x hx
        rcases List.append_eq_append_iff.mp hcut with ⟨a', h1, h2⟩ | ⟨c', h1, h2⟩
        · exfalso
          have := (splitAtCounted_some k (head ++ tailEvs) e hsp).2.1
          rw [h1, countedCount_append] at this
          omega
        · exact hfree x (by rw [h1]; simp [hx])
      apply t.freeAll H kind sz N m sys hist d
      intro x hx
      rcases List.mem_append.mp hx with hx | hx
      · exact hprefree x hx
      · split at hx
        · simp only [List.mem_singleton] at hx; subst hx; simp [Ev.segFree, Ev.indexFree]
        · cases hx
    · simp only [hk, ↓reduceIte]
      have hb2 := splitAtCounted_beyond k head tailEvs e hsp hk
      have hcut2 : tailEvs = (splitAtCounted k (head ++ tailEvs)).1.drop head.length ++
          e :: (splitAtCounted k (head ++ tailEvs)).2.2 := by
        have h3 : head ++ tailEvs = head ++ ((splitAtCounted k (head ++ tailEvs)).1.drop head.length ++
            e :: (splitAtCounted k (head ++ tailEvs)).2.2) := by
          rw [← List.append_assoc, hb2]; exact hcut
        exact List.append_cancel_left h3
      have fp := faultLogAndApply_ftied H kind sz N so hH m sys hist _ thead hb.1
        (.put key (H chunks.flatten) (chunks.map List.length).sum)
        (.put key (H chunks.flatten) (chunks.map List.length).sum)
        hraw hconv hsz hwf hsave hver tailEvs m' hrun _ e _ hcut2
      refine ⟨_, rfl, Or.inr ?_⟩
      rw [Disk.applyAll_append]
      exact fp

/-- **C14 (bytes), complete for put:** one failing call at any position of the put's commit (the
    blob is already in cas/), any non-empty sequence of further operations, drop of the handle,
    `open`: every operation runs without panic, `open` succeeds and reads, per key, what the handle
    held at the end or the value the failed put would have written; the reopened store is `Tied`. -/
theorem C14_put_fault_session_reopens (so : StrictOrder kind.lt) (hH : Hash32 H) (m : Mem)
    (hist : Recs Bytes) (key : Bytes) (chunks : List Bytes) (m2 : Mem) (d2 : Disk)
    (hraw : (RawOp.put key (H chunks.flatten) (chunks.map List.length).sum).WF)
    (hval : kind.valid key = true) (hpos : 0 < m.next)
    (fp : FaultPost H kind sz N m hist
      (serWalOp (.put key (H chunks.flatten) (chunks.map List.length).sum))
      (.put key (H chunks.flatten) (chunks.map List.length).sum) m2 d2)
    (cfg : Config) (hk : cfg.kind = kind) (hn : cfg.N = N)
    (ops : List ContOp) (hne : ops ≠ []) (hok : ContAllOK H kind sz m2 d2 ops) :
    ∃ m3 d3, contRun H m2 d2 ops = .ok (m3, d3) ∧
      m3.idx.map = (ops.map (ContOp.logged H)).foldl (applyLogged kind) m2.idx.map ∧
      ∀ (e1 : List Ev) (pre : Bool),
        settingsGate cfg (d3.applyAll (closeEvents m3)) = .ok (e1, pre) →
        (∀ a, logical H kind ((d3.applyAll (closeEvents m3)).applyAll e1) = .ok a →
          SaveOK kind a.idx ∧ a.highest + 1 < U64) →
        ∃ hist' m4 sys4,
          (∀ m' sc, (openBody H cfg (d3.applyAll (closeEvents m3))).2 = .ok (m', sc) → m' = m4) ∧
          (∀ k, kLookup m4.idx.map k = kLookup m3.idx.map k ∨
            opEff (Op.put key (H chunks.flatten) (chunks.map List.length).sum) k =
              some (kLookup m4.idx.map k)) ∧
          AllPre (Recoverable H kind sz N [hist']) (d3.applyAll (closeEvents m3))
            (openBody H cfg (d3.applyAll (closeEvents m3))).1 ∧
          Tied H kind sz N m4 sys4 hist'
            ((d3.applyAll (closeEvents m3)).applyAll (openBody H cfg (d3.applyAll (closeEvents m3))).1) := by
  have hconv : fromRaw kind (.put key (H chunks.flatten) (chunks.map List.length).sum) =
      some (.put key (H chunks.flatten) (chunks.map List.length).sum) := by
    simp [fromRaw, hval]
  have hpe : ∀ key', payloadEff kind (serWalOp (.put key (H chunks.flatten) (chunks.map List.length).sum)) key' =
      opEff (Op.put key (H chunks.flatten) (chunks.map List.length).sum) key' := by
    intro key'
    have hdec := C16_walop_roundtrip (.put key (H chunks.flatten) (chunks.map List.length).sum) hraw []
    rw [List.append_nil] at hdec
    simp [payloadEff, hdec, hconv]
  exact fp.session_reopens H kind sz N so hH m hist _ _ m2 d2 hpos hpe ops hne hok cfg hk hn

end CasModel
