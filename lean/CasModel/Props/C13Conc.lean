import CasModel.Conc
/-
  C13, concurrent half: an abandoned transaction is invisible to every other thread.
  In the interleaving model an abandoned transaction (begin, write any chunks, drop) completes
  inside its own start step — the staging file is private (Props/C13: `C13_open_tx_private`) — and
  that step changes NOTHING shared: index, intents, protection counts, locks, CAS directory.
  Every other thread's next step reads only the shared state and its own program counter, so it
  behaves exactly as if the abandoned transaction had never existed — in particular a transaction
  that is committing the same key at the same time.
-/
namespace CasModel.Conc
open CasModel

/-- **C13 (concurrent).** Whatever the other threads are doing, an abandoned transaction can
    always be run (it needs no lock), returns `ok`, and leaves the whole shared state and all
    other threads exactly as they were. -/
theorem C13_abort_invisible (H : Bytes → Bytes) (s : Sys) (tid : Tid) (th : Thread)
    (hth : s.threads[tid]? = some th) (hpc : th.pc = .idle) (k c : Bytes) (rest : List COp)
    (hops : th.ops = .abort k c :: rest) :
    ∃ s', step H s tid = some s' ∧ s'.sh = s.sh ∧
      s'.threads = s.threads.set tid { th with ops := rest, pc := .idle, results := th.results ++ [.ok] } := by
  let th' : Thread := { th with ops := rest, pc := .idle, results := th.results ++ [.ok] }
  refine ⟨⟨s.sh, s.threads.set tid th'⟩, ?_, rfl, rfl⟩
  unfold step
  simp only [hth, hpc, hops, COp.startsWithStateRead, Bool.false_and, Bool.false_eq_true, ↓reduceIte,
    startOp, Option.toList]
  rfl

end CasModel.Conc
