import CasModel.Proofs.ConcTerm
import CasModel.Props.C15
/-
  C15, completed: (1) no reachable state is a deadlock (`C15_no_deadlock`), (2) no execution is
  infinite (`C15_no_infinite_run`), hence (3) from every reachable state, ANY way of continuing to
  schedule runnable threads reaches, after finitely many steps, a state in which every thread has
  finished all its calls — every call returns.
  What the model cannot carry: fairness of the real locks towards an individual thread (a thread
  can be overtaken by others while they have work; parking_lot is eventually fair), and the time a
  step takes.
-/
namespace CasModel.Conc
open CasModel

def AllDone (s : Sys) : Prop :=
  ∀ (t : Nat) (th : Thread), s.threads[t]? = some th → th.pc = .idle ∧ th.ops = []

theorem run_append (H : Bytes → Bytes) (s : Sys) (a b : List Tid) :
    run H s (a ++ b) = match run H s a with | none => none | some s1 => run H s1 b := by
  induction a generalizing s with
  | nil => rfl
  | cons t ts ih =>
    simp only [List.cons_append, run]
    cases step H s t with
    | none => rfl
    | some s1 => exact ih s1

/-- **C15 (all calls return).** After any schedule prefix of any programs there is a continuation
    that finishes every call; more strongly, EVERY maximal continuation does: following any
    strategy that picks a runnable thread while one exists, the run stops after finitely many
    steps, and it can only stop in a state where all threads are done. -/
theorem C15_all_calls_return (H : Bytes → Bytes) (sh : Shared) (programs : List (List COp))
    (sched : List Tid) (s : Sys) (h : run H (initSys sh programs) sched = some s)
    (pick : Sys → Tid)
    (hpick : ∀ s', (∃ t, (step H s' t).isSome = true) → (step H s' (pick s')).isSome = true) :
    ∃ (more : List Tid) (sfin : Sys), run H s more = some sfin ∧ AllDone sfin := by
  have wf := C15_no_infinite_run H
  -- strengthen: for every state reachable from the initial one
  suffices key : ∀ (s : Sys) (pre : List Tid), run H (initSys sh programs) pre = some s →
      ∃ (more : List Tid) (sfin : Sys), run H s more = some sfin ∧ AllDone sfin from key s sched h
  intro s
  induction s using wf.induction with
  | _ s ih =>
    intro pre hpre
    rcases C15_no_deadlock H sh programs pre s hpre with hd | hs
    · exact ⟨[], s, rfl, hd⟩
    · have hp := hpick s hs
      cases hstep : step H s (pick s) with
      | none => simp [hstep] at hp
      | some s1 =>
        have hpre1 : run H (initSys sh programs) (pre ++ [pick s]) = some s1 := by
          rw [run_append, hpre]; simp [run, hstep]
        obtain ⟨more, sfin, hr, hdone⟩ := ih s1 ⟨pick s, hstep⟩ (pre ++ [pick s]) hpre1
        exact ⟨pick s :: more, sfin, by simp [run, hstep, hr], hdone⟩

end CasModel.Conc
