import CasModel.Props.C04
/-
  C05, the write half: linearization points.
  In the interleaving model the index changes only at `apWal` steps (log + apply under
  state.write + wal).  `runLog` replays a schedule and records, in order, the operation applied at
  every such step.  `C05_writes_linearize`: after ANY schedule of ANY programs the index is exactly
  the result of applying the recorded operations one after the other to the initial index — the
  writes take effect atomically, in the order of their apply steps, each between its call and its
  return (the step belongs to the calling thread's operation).  Together with `C05_read_atomic`
  (a read returns the complete content the key holds at its lookup step) this is linearizability
  with linearization points = apply step (put, and the removal half of remove / remove_range) and
  lookup step (reads); the presence reported by remove/remove_range is taken at their scan step,
  which is why they are "not strictly atomic".
-/
namespace CasModel.Conc
open CasModel

/-- the write operation a step of thread `tid` applies, if it is at its apply step -/
def appliedBy (s : Sys) (tid : Tid) : List (Op Bytes) :=
  match s.threads[tid]? with
  | some th => match th.pc with
    | .apWal op _ _ => [op]
    | _ => []
  | none => []

def runLog (H : Bytes → Bytes) (s : Sys) : List Tid → Option (Sys × List (Op Bytes))
  | [] => some (s, [])
  | t :: ts =>
    match step H s t with
    | none => none
    | some s' =>
      match runLog H s' ts with
      | none => none
      | some (sf, log) => some (sf, appliedBy s t ++ log)

theorem runLog_run (H : Bytes → Bytes) (s : Sys) (sched : List Tid) :
    (runLog H s sched).map (·.1) = run H s sched := by
  induction sched generalizing s with
  | nil => rfl
  | cons t ts ih =>
    simp only [runLog, run]
    cases step H s t with
    | none => rfl
    | some s' =>
      simp only
      rw [← ih s']
      cases runLog H s' ts <;> rfl

/-- sequential application of logged operations to an index -/
def applyLog (lt : Bytes → Bytes → Bool) (idx : IndexState Bytes) : List (Op Bytes) → Option (IndexState Bytes)
  | [] => some idx
  | op :: ops =>
    match applyOp lt idx op with
    | .error _ => none
    | .ok (idx', _) => applyLog lt idx' ops

/-- only the apply step touches the index -/
theorem stepPc_idx_other (H : Bytes → Bytes) (tid : Tid) (sh : Shared) (pc : Pc)
    (hne : ∀ op own res, pc ≠ .apWal op own res) :
    (stepPc H tid sh pc).sh.idx = sh.idx ∧ (stepPc H tid sh pc).sh.kind = sh.kind := by
  cases pc with
  | apWal op own res => exact absurd rfl (hne op own res)
  | apUnlink pending t =>
    match pending with
    | [] => exact ⟨rfl, rfl⟩
    | [h] => exact ⟨rfl, rfl⟩
    | h :: h' :: rest => exact ⟨rfl, rfl⟩
  | orIntents hs del skip => cases hs <;> exact ⟨rfl, rfl⟩
  | orUnlocked rest del skip => cases rest <;> exact ⟨rfl, rfl⟩
  | apUnlocked t => simp only [stepPc]; split <;> exact ⟨rfl, rfl⟩
  | rmScan k => simp only [stepPc]; split <;> exact ⟨rfl, rfl⟩
  | rrScan lo hi => simp only [stepPc]; split <;> exact ⟨rfl, rfl⟩
  | orState h rest del skip => simp only [stepPc]; split <;> exact ⟨rfl, rfl⟩
  | rdLookup k =>
    simp only [stepPc]
    split
    · exact ⟨rfl, rfl⟩
    · split <;> exact ⟨rfl, rfl⟩
  | rdLookupR k s0 e0 =>
    simp only [stepPc]
    split
    · exact ⟨rfl, rfl⟩
    · split
      · exact ⟨rfl, rfl⟩
      · split <;> exact ⟨rfl, rfl⟩
  | _ => exact ⟨rfl, rfl⟩

/-- one step changes the index by exactly the operation it applies (or not at all) -/
theorem step_idx (H : Bytes → Bytes) (sz : Bytes → Nat) (s s' : Sys) (tid : Tid)
    (inv : ConcInv H sz s) (h : step H s tid = some s') :
    applyLog s.sh.kind.lt s.sh.idx (appliedBy s tid) = some s'.sh.idx ∧ s'.sh.kind = s.sh.kind := by
  unfold step at h
  unfold appliedBy
  cases hth : s.threads[tid]? with
  | none => simp [hth] at h
  | some th =>
    simp only [hth] at h ⊢
    cases hpc : th.pc with
    | idle =>
      simp only [hpc] at h ⊢
      cases hops : th.ops with
      | nil => simp [hops] at h
      | cons op rest =>
        simp only [hops] at h
        split at h
        · cases h
        injection h with h; subst h
        exact ⟨rfl, rfl⟩
    | apWal op own res =>
      simp only [hpc] at h ⊢
      split at h
      · cases h
      injection h with h; subst h
      have hti := (inv.tinv tid th hth).1
      rw [hpc] at hti
      simp only [TInv] at hti
      obtain ⟨idx', unref, happ, _, _⟩ := applyOp_spec inv.so sz s.sh.idx inv.idx op hti.1
      simp only [applyLog, happ, stepPc, applyStep]
      split
      · exact ⟨by simp [bookkeep_idx], by unfold bookkeep; split <;> rfl⟩
      · exact ⟨by simp [bookkeep_idx], by unfold bookkeep; split <;> rfl⟩
    | _ =>
      all_goals
        simp only [hpc] at h ⊢
        split at h
        · cases h
        injection h with h; subst h
        simp only [applyLog]
        have := stepPc_idx_other H tid s.sh th.pc (by rw [hpc]; intro _ _ _ c; cases c)
        rw [hpc] at this
        exact ⟨by rw [this.1], this.2⟩

theorem applyLog_append (lt : Bytes → Bytes → Bool) (idx : IndexState Bytes) (a b : List (Op Bytes)) :
    applyLog lt idx (a ++ b) = match applyLog lt idx a with
      | none => none
      | some idx' => applyLog lt idx' b := by
  induction a generalizing idx with
  | nil => rfl
  | cons op ops ih =>
    simp only [List.cons_append, applyLog]
    cases applyOp lt idx op with
    | error e => rfl
    | ok x => exact ih x.1

/-- **C05 (writes).** After any schedule, the index is the sequential application of the write
    operations in the order of their apply steps. -/
theorem C05_writes_linearize (H : Bytes → Bytes) (sz : Bytes → Nat) (sh : Shared)
    (programs : List (List COp)) (ok : InitOK H sz sh programs) (sched : List Tid) (s : Sys)
    (log : List (Op Bytes)) (hrun : runLog H (initSys sh programs) sched = some (s, log)) :
    applyLog sh.kind.lt sh.idx log = some s.sh.idx := by
  have key : ∀ (sched : List Tid) (s0 s : Sys) (log : List (Op Bytes)), ConcInv H sz s0 →
      runLog H s0 sched = some (s, log) →
      applyLog s0.sh.kind.lt s0.sh.idx log = some s.sh.idx := by
    intro sched
    induction sched with
    | nil =>
      intro s0 s log _ h
      simp only [runLog, Option.some.injEq, Prod.mk.injEq] at h
      obtain ⟨rfl, rfl⟩ := h
      rfl
    | cons t ts ih =>
      intro s0 s log inv h
      simp only [runLog] at h
      cases hs : step H s0 t with
      | none => simp [hs] at h
      | some s1 =>
        simp only [hs] at h
        cases hr : runLog H s1 ts with
        | none => simp [hr] at h
        | some p =>
          obtain ⟨sf, lg⟩ := p
          simp only [hr, Option.some.injEq, Prod.mk.injEq] at h
          obtain ⟨rfl, rfl⟩ := h
          obtain ⟨h1, hk⟩ := step_idx H sz s0 s1 t inv hs
          have h2 := ih s1 sf lg (step_concInv H sz s0 s1 t inv hs) hr
          rw [applyLog_append, h1]
          simp only
          rw [← hk]
          exact h2
  exact key sched _ s log (concInv_init H sz sh programs ok) hrun

end CasModel.Conc
