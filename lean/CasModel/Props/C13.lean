import CasModel.Store
import CasModel.Proofs.FsLemmas
/-
  C13 — an abandoned transaction leaves no trace (sequential part): the only filesystem events of
  begin … write* … abort are on the transaction's private staging file, which is gone afterwards;
  every other file, every directory and the whole in-memory state are untouched (no intent is
  registered, nothing is logged before `finish`).  Holds for every disk, every staging number and
  every write pattern (writes go to the private file only).
-/
namespace CasModel

/-- the events of an abandoned transaction that wrote `content` in any number of chunks -/
def abandonedEvents (t : Nat) (content : Bytes) : List Ev :=
  beginScript t ++ [Ev.write (.staging t) content] ++ abortScript t

theorem C13_abort_noop (d : Disk) (hwf : d.WF) (t : Nat) (content : Bytes)
    (hfresh : d.get (.staging t) = none) :
    let d' := d.applyAll (abandonedEvents t content)
    (∀ f, d'.get f = d.get f) ∧ d'.dirs = d.dirs := by
  intro d'
  have e : d' = (((d.apply (.creat (.staging t) true)).apply (.write (.staging t) content)).apply
      (.unlink (.staging t))) := by
    simp [d', abandonedEvents, beginScript, abortScript, Disk.applyAll]
  have w1 := Disk.apply_WF d hwf (.creat (.staging t) true)
  have w2 := Disk.apply_WF _ w1 (.write (.staging t) content)
  refine ⟨?_, ?_⟩
  · intro f
    rw [e, Disk.get_unlink _ w2]
    by_cases c : f = .staging t
    · subst c; simp [hfresh]
    · simp only [c, ↓reduceIte]
      rw [Disk.get_write]
      simp only [c, ↓reduceIte]
      rw [Disk.get_creat]
      simp [c]
  · rw [e]
    rw [Disk.dirs_apply _ _ (by intro p h; cases h), Disk.dirs_apply _ _ (by intro p h; cases h),
      Disk.dirs_apply _ _ (by intro p h; cases h)]

/-- a transaction that is begun and left open only adds its private staging file -/
theorem C13_open_tx_private (d : Disk) (t : Nat) (f : FileId) (hf : f ≠ .staging t) :
    (d.applyAll (beginScript t)).get f = d.get f := by
  simp only [beginScript, Disk.applyAll, List.foldl]
  rw [Disk.get_creat]; simp [hf]

example : ({ files := [(.index, ⟨[1], 1⟩)] } : Disk).WF := by
  simp [Disk.WF, FKeysNodup]

end CasModel
