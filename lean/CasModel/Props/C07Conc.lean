import CasModel.Proofs.ConcExact
import CasModel.Props.C04
/-
  C07 under concurrency — exact space reclamation at quiescence, for every program set (puts,
  abandoned transactions, removes, range removes, reads, checkpoints, orphan clean-up; several
  writers on one key or with one content) and EVERY schedule:
  whenever all threads are idle, the CAS directory holds a file for a hash if and only if some key
  references that hash — nothing less (C04's invariant) and nothing more (`ExactInv`): no blob of
  an overwritten, removed or raced-away content survives, none is protected any longer.
  (Staging files: a transaction's staging file is private to it, Props/C13.)
-/
namespace CasModel.Conc
open CasModel

theorem casGet_some_mem (c : List (Bytes × Bytes)) (h x : Bytes) (hc : casGet c h = some x) :
    h ∈ c.map (·.1) := by
  induction c with
  | nil => simp [casGet] at hc
  | cons e r ih =>
    obtain ⟨h', y⟩ := e
    simp only [casGet] at hc
    by_cases c0 : h' = h
    · simp [c0]
    · simp only [c0, ↓reduceIte] at hc
      simp only [List.map_cons, List.mem_cons]
      exact Or.inr (ih hc)

theorem exactInv_init (H : Bytes → Bytes) (O : List Bytes) (sh : Shared)
    (programs : List (List COp)) (hprot : sh.prot = [])
    (hO : ∀ h, (casGet sh.cas h).isSome → 0 < countHash sh.idx.map h ∨ h ∈ O) :
    ExactInv H O (initSys sh programs) := by
  refine ⟨?_, ?_⟩
  · intro h
    simp only [initSys, need_init, hprot]
    rfl
  · intro h hf
    rcases hO h hf with c | c
    · exact Or.inl c
    · exact Or.inr (Or.inr (Or.inr c))

/-- **C07 (concurrent, quiescent).** From a store whose CAS directory holds exactly the referenced
    contents, after ANY schedule of ANY programs: at every state in which all threads are idle
    (no operation in flight) a file exists for hash `h` iff some key maps to `h`; and the file's
    bytes hash to `h`. -/
theorem C07_quiescent_exact (H : Bytes → Bytes) (sz : Bytes → Nat) (sh : Shared)
    (programs : List (List COp)) (ok : InitOK H sz sh programs)
    (hexact : ∀ h, (casGet sh.cas h).isSome → 0 < countHash sh.idx.map h)
    (sched : List Tid) (s : Sys) (hrun : run H (initSys sh programs) sched = some s)
    (hidle : ∀ th ∈ s.threads, th.pc = .idle) :
    ∀ h, (casGet s.sh.cas h).isSome ↔ 0 < countHash s.sh.idx.map h := by
  have inv := run_concInv H sz _ s sched (concInv_init H sz sh programs ok) hrun
  have ex := run_exact H sz [] _ s sched (concInv_init H sz sh programs ok)
    (exactInv_init H [] sh programs ok.noProt (fun h hf => Or.inl (hexact h hf))) hrun
  intro h
  constructor
  · intro hf
    rcases ex.cover h hf with c | c | ⟨t, th, ht, hm⟩ | c
    · exact c
    · rw [ex.protEq h, need_all_idle H s.threads h hidle] at c; omega
    · have := hidle th (List.mem_of_getElem? ht)
      rw [this] at hm; simp [pendingOf] at hm
    · cases c
  · exact inv.present h

/-- **C07/C08 (with garbage present).** If files `O` were unreferenced before the run (orphans not
    yet cleaned up), then at every quiescent state every file is referenced or one of `O`:
    concurrent operation never ADDS garbage. -/
theorem C07_quiescent_no_new_garbage (H : Bytes → Bytes) (sz : Bytes → Nat) (sh : Shared)
    (programs : List (List COp)) (ok : InitOK H sz sh programs) (O : List Bytes)
    (hO : ∀ h, (casGet sh.cas h).isSome → 0 < countHash sh.idx.map h ∨ h ∈ O)
    (sched : List Tid) (s : Sys) (hrun : run H (initSys sh programs) sched = some s)
    (hidle : ∀ th ∈ s.threads, th.pc = .idle) :
    ∀ h, (casGet s.sh.cas h).isSome → 0 < countHash s.sh.idx.map h ∨ h ∈ O := by
  have ex := run_exact H sz O _ s sched (concInv_init H sz sh programs ok)
    (exactInv_init H O sh programs ok.noProt hO) hrun
  intro h hf
  rcases ex.cover h hf with c | c | ⟨t, th, ht, hm⟩ | c
  · exact Or.inl c
  · rw [ex.protEq h, need_all_idle H s.threads h hidle] at c; omega
  · have := hidle th (List.mem_of_getElem? ht)
    rw [this] at hm; simp [pendingOf] at hm
  · exact Or.inr c

/-- **protection is released exactly.** In every reachable state the protection count of a hash
    is the number of commits between their registration and their application. -/
theorem C07_protection_exact (H : Bytes → Bytes) (sz : Bytes → Nat) (sh : Shared)
    (programs : List (List COp)) (ok : InitOK H sz sh programs)
    (sched : List Tid) (s : Sys) (hrun : run H (initSys sh programs) sched = some s) :
    ∀ h, protCount s.sh.prot h = need H s.threads h :=
  (run_exact H sz (sh.cas.map (·.1)) _ s sched (concInv_init H sz sh programs ok)
    (exactInv_init H _ sh programs ok.noProt (by
      intro h hf
      right
      cases hc : casGet sh.cas h with
      | none => simp [hc] at hf
      | some c => exact casGet_some_mem sh.cas h c hc)) hrun).protEq

end CasModel.Conc
