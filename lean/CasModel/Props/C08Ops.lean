import CasModel.OrphanOps
import CasModel.Props.C08Clean
/-
  C08 for `delete_orphan(hash)` and `quarantine_orphans(dir)`: neither ever removes a referenced
  blob (every event is the removal of a blob without a reference count), `delete_orphan` removes
  the blob iff it reported `true`, and after `quarantine_orphans` no blob the scan listed as
  orphaned and that is still unreferenced remains in cas/.
-/
namespace CasModel

theorem deleteOrphan_safe (m : Mem) (sc : ScanOut) (d : Disk) (h : Bytes) :
    (∀ e ∈ (deleteOrphanScript m sc d h).1, e = Ev.unlink (.cas h) ∧ rcGet m.idx.rc h = none) ∧
    ((deleteOrphanScript m sc d h).2 = true ↔ (deleteOrphanScript m sc d h).1 = [Ev.unlink (.cas h)]) := by
  unfold deleteOrphanScript
  by_cases c1 : h ∈ sc.orphaned
  · simp only [List.contains_eq_mem, c1, decide_true, Bool.not_true, Bool.false_eq_true, ↓reduceIte]
    by_cases c2 : (rcGet m.idx.rc h).isSome = true
    · simp [c2]
    · simp only [c2, Bool.false_eq_true, ↓reduceIte]
      have hn : rcGet m.idx.rc h = none := by
        cases hg : rcGet m.idx.rc h with
        | none => rfl
        | some x => simp [hg] at c2
      by_cases c3 : d.has (.cas h) = true
      · simp [c3, hn]
      · simp [c3]
  · simp [c1]

/-- the quarantine step IS the orphan step of `delete_orphans` -/
theorem quarantineStep_eq (m : Mem) (d : Disk) : quarantineStep m d = orphanStep m d := rfl

/-- **C08 (quarantine).** Every event moves out a blob without a reference count; afterwards no
    listed orphan without a reference count is left; nothing else is touched. -/
theorem C08_quarantine_safe_complete (m : Mem) (sc : ScanOut) (d : Disk) (hw : d.WF) :
    (∀ e ∈ (quarantineScript m sc d).1, ∃ h, e = Ev.unlink (.cas h) ∧ rcGet m.idx.rc h = none) ∧
    (∀ h ∈ sc.orphaned, rcGet m.idx.rc h = none →
      (d.applyAll (quarantineScript m sc d).1).has (.cas h) = false) := by
  unfold quarantineScript
  rw [quarantineStep_eq]
  obtain ⟨a, b, _⟩ := orphanFold_spec m d hw sc.orphaned ([], 0, 0) (by simp)
  exact ⟨a, b⟩

end CasModel
