import CasModel.Proofs.ConcBasics
import CasModel.Proofs.Recompute
/-
  P4: the interleaving invariant `ConcInv` and its preservation by every step of every thread,
  for all programs, thread counts and schedules (proved for the model of the repaired code:
  protection counted per hash and released at apply time).
-/
namespace CasModel.Conc
open CasModel

/-- contents handed to the store are consistent with the global size function
    (`sz (H c) = |c|`: collision-freeness of `H` on the contents involved) -/
def OpsOK (H : Bytes → Bytes) (sz : Bytes → Nat) (ops : List COp) : Prop :=
  ∀ op ∈ ops, match op with
    | .put _ c => sz (H c) = c.length
    | .abort _ c => sz (H c) = c.length
    | _ => True

/-- what each parked thread may rely on -/
def TInv (H : Bytes → Bytes) (sz : Bytes → Nat) (sh : Shared) : Pc → Prop
  | .putReg _ c => sz (H c) = c.length
  | .putRename _ c => sz (H c) = c.length
  | .apIntents op own _ | .apState op own _ | .apWal op own _ =>
    OpOK sz op ∧ (∀ k h, own = some (k, h) → (∃ size, op = .put k h size) ∧ (casGet sh.cas h).isSome) ∧
    (own = none → ∃ ks, op = .remove ks)
  | .apUnlink pending _ => ∀ h ∈ pending, countHash sh.idx.map h = 0 ∧ protCount sh.prot h = 0
  | .orUnlink h _ _ _ => countHash sh.idx.map h = 0 ∧ protCount sh.prot h = 0
  | _ => True

structure ConcInv (H : Bytes → Bytes) (sz : Bytes → Nat) (s : Sys) : Prop where
  so : StrictOrder s.sh.kind.lt
  idx : IdxInv s.sh.kind.lt sz s.sh.idx
  /-- C06: every file's content hashes to its name (and has the size of that hash) -/
  files : ∀ h c, casGet s.sh.cas h = some c → H c = h ∧ c.length = sz h
  /-- C04: every hash some key maps to has a file -/
  present : ∀ h, 0 < countHash s.sh.idx.map h → (casGet s.sh.cas h).isSome
  protNodup : (rcKeys s.sh.prot).Nodup
  /-- every thread inside its commit window is covered by the protection count of its hash -/
  prot : ∀ h, need H s.threads h ≤ protCount s.sh.prot h
  tinv : ∀ (t : Nat) (th : Thread), s.threads[t]? = some th → TInv H sz s.sh th.pc ∧ OpsOK H sz th.ops
  locks : LockInv s

/-- a referenced hash after an operation was referenced before, or is the hash just put -/
theorem count_pos_after {lt : Bytes → Bytes → Bool} (so : StrictOrder lt) (sz : Bytes → Nat)
    (s s' : IndexState Bytes) (inv : IdxInv lt sz s) (inv' : IdxInv lt sz s') (op : Op Bytes)
    (hl : ∀ k', kLookup s'.map k' = specApply (kLookup s.map) op k') (x : Bytes)
    (hx : 0 < countHash s'.map x) :
    0 < countHash s.map x ∨ ∃ k size, op = .put k x size := by
  obtain ⟨e, he, hxe⟩ := (countHash_pos_iff s'.map x).mp hx
  obtain ⟨k, v⟩ := e
  have hlook := mem_kLookup so inv'.sorted he
  rw [hl k] at hlook
  cases op with
  | put k0 h0 size =>
    simp only [specApply] at hlook
    by_cases c : k = k0
    · simp only [c, ↓reduceIte] at hlook
      injection hlook with hlook
      right; refine ⟨k0, size, ?_⟩
      simp only at hxe
      rw [← hlook] at hxe; simp only at hxe; rw [hxe]
    · simp only [c, ↓reduceIte] at hlook
      left; exact (countHash_pos_iff s.map x).mpr ⟨(k, v), kLookup_mem hlook, hxe⟩
  | remove ks =>
    simp only [specApply] at hlook
    by_cases c : k ∈ ks
    · simp [c] at hlook
    · simp only [c, ↓reduceIte] at hlook
      left; exact (countHash_pos_iff s.map x).mpr ⟨(k, v), kLookup_mem hlook, hxe⟩

/-- replacing one thread: a predicate on all threads -/
theorem threads_set_forall {P : Thread → Prop} (ths : List Thread) (t : Nat) (th' : Thread)
    (hall : ∀ (i : Nat) (th : Thread), ths[i]? = some th → i ≠ t → P th) (hnew : P th') :
    ∀ (i : Nat) (th : Thread), (ths.set t th')[i]? = some th → P th := by
  intro i th hi
  simp only [List.getElem?_set] at hi
  by_cases c : t = i
  · subst c
    simp only [↓reduceIte] at hi
    by_cases hl : t < ths.length
    · simp only [hl, ↓reduceIte] at hi; injection hi with hi; subst hi; exact hnew
    · simp [hl] at hi
  · simp only [c, ↓reduceIte] at hi
    exact hall i th hi (fun e => c e.symm)

end CasModel.Conc

namespace CasModel.Conc
open CasModel

/-- other threads, when neither the index nor the protection table changes and files disappear
    only for unprotected hashes -/
theorem TInv_frameA (H : Bytes → Bytes) (sz : Bytes → Nat) (sh sh' : Shared) (pc : Pc)
    (hidx : sh'.idx = sh.idx) (hprot : sh'.prot = sh.prot)
    (hw : ∀ h, window H pc = some h → 1 ≤ protCount sh.prot h)
    (hcas : ∀ h, 1 ≤ protCount sh.prot h → (casGet sh.cas h).isSome → (casGet sh'.cas h).isSome)
    (ht : TInv H sz sh pc) : TInv H sz sh' pc := by
  cases pc <;> simp only [TInv, hidx, hprot] at ht ⊢ <;> try exact ht
  all_goals
    refine ⟨ht.1, ?_, ht.2.2⟩
    intro k h hown
    obtain ⟨a, b⟩ := ht.2.1 k h hown
    refine ⟨a, hcas h (hw h ?_) b⟩
    subst hown; rfl

def isUnlinker : Pc → Bool
  | .apUnlink .. | .orUnlink .. => true
  | _ => false

/-- other threads that are not in an unlink phase, when the CAS directory does not change -/
theorem TInv_frameB (H : Bytes → Bytes) (sz : Bytes → Nat) (sh sh' : Shared) (pc : Pc)
    (hcas : sh'.cas = sh.cas) (hpc : isUnlinker pc = false)
    (ht : TInv H sz sh pc) : TInv H sz sh' pc := by
  cases pc <;> simp only [TInv, hcas, isUnlinker] at ht hpc ⊢ <;> first | exact ht | cases hpc

theorem unlinker_holds (pc : Pc) (h : isUnlinker pc = true) : holdsIntents pc = true := by
  cases pc <;> simp [isUnlinker, holdsIntents] at h ⊢

/-- the window of a thread that holds nothing and is not past its registration is empty, etc. -/
theorem window_startOp (H : Bytes → Bytes) (sh : Shared) (op : COp) :
    window H (startOp H sh op).1 = none := by
  cases op with
  | getRange k s' e' =>
    simp only [startOp]
    cases kLookup sh.idx.map k with
    | none => rfl
    | some item => by_cases c : s' ≥ item.size <;> simp [c, window]
  | _ => rfl

end CasModel.Conc

namespace CasModel.Conc
open CasModel

theorem assemble (H : Bytes → Bytes) (sz : Bytes → Nat) (s : Sys) (inv : ConcInv H sz s)
    (tid : Nat) (th : Thread) (hth : s.threads[tid]? = some th) (sh' : Shared) (th' : Thread)
    (hkind : sh'.kind = s.sh.kind)
    (hidx : IdxInv s.sh.kind.lt sz sh'.idx)
    (hfiles : ∀ h c, casGet sh'.cas h = some c → H c = h ∧ c.length = sz h)
    (hpresent : ∀ h, 0 < countHash sh'.idx.map h → (casGet sh'.cas h).isSome)
    (hpn : (rcKeys sh'.prot).Nodup)
    (hprot : ∀ h, need H s.threads h + weight H h th'.pc ≤ protCount sh'.prot h + weight H h th.pc)
    (hself : TInv H sz sh' th'.pc ∧ OpsOK H sz th'.ops)
    (hothers : ∀ (i : Nat) (th2 : Thread), s.threads[i]? = some th2 → i ≠ tid → TInv H sz sh' th2.pc)
    (hlocks : LockInv ⟨sh', s.threads.set tid th'⟩) :
    ConcInv H sz ⟨sh', s.threads.set tid th'⟩ := by
  refine ⟨by rw [hkind]; exact inv.so, by rw [hkind]; exact hidx, hfiles, hpresent, hpn, ?_, ?_, hlocks⟩
  · intro h
    have := need_set H s.threads tid th th' h hth
    have := hprot h
    show need H (s.threads.set tid th') h ≤ protCount sh'.prot h
    omega
  · apply threads_set_forall (P := fun th => TInv H sz sh' th.pc ∧ OpsOK H sz th.ops)
    · intro i th2 h2 hne
      exact ⟨hothers i th2 h2 hne, (inv.tinv i th2 h2).2⟩
    · exact hself

/-- while thread `tid` holds `intents` (or nobody does and `tid` is about to take it), no OTHER
    thread is in an unlink phase -/
theorem no_other_unlinker (s : Sys) (linv : LockInv s) (tid : Nat)
    (hfree : s.sh.lockIntents = none ∨ s.sh.lockIntents = some tid)
    (i : Nat) (th2 : Thread) (h2 : s.threads[i]? = some th2) (hne : i ≠ tid) :
    isUnlinker th2.pc = false := by
  cases hu : isUnlinker th2.pc with
  | false => rfl
  | true =>
    have := (linv.intents i th2 h2).mp (unlinker_holds _ hu)
    rcases hfree with hf | hf
    · rw [hf] at this; cases this
    · rw [hf] at this; injection this with this; exact absurd this.symm hne

/-- every thread inside its window is covered: its hash has protection ≥ 1 -/
theorem window_protected (H : Bytes → Bytes) (sz : Bytes → Nat) (s : Sys) (inv : ConcInv H sz s)
    (i : Nat) (th2 : Thread) (h2 : s.threads[i]? = some th2) (h : Bytes)
    (hw : window H th2.pc = some h) : 1 ≤ protCount s.sh.prot h := by
  have a := need_ge_weight H s.threads i th2 h h2
  have b := inv.prot h
  simp only [weight, hw, ↓reduceIte] at a
  omega

end CasModel.Conc

namespace CasModel.Conc
open CasModel

def SameData (sh sh' : Shared) : Prop :=
  sh'.kind = sh.kind ∧ sh'.idx = sh.idx ∧ sh'.prot = sh.prot ∧ sh'.cas = sh.cas

theorem TInv_congr (H : Bytes → Bytes) (sz : Bytes → Nat) (sh sh' : Shared) (pc : Pc)
    (hd : SameData sh sh') (ht : TInv H sz sh pc) : TInv H sz sh' pc := by
  obtain ⟨_, h2, h3, h4⟩ := hd
  cases pc <;> simp only [TInv, h2, h3, h4] at ht ⊢ <;> exact ht

/-- steps that only move locks / the program counter -/
theorem assemble_sameData (H : Bytes → Bytes) (sz : Bytes → Nat) (s : Sys) (inv : ConcInv H sz s)
    (tid : Nat) (th : Thread) (hth : s.threads[tid]? = some th) (sh' : Shared) (th' : Thread)
    (hd : SameData s.sh sh')
    (hw : ∀ h, weight H h th'.pc ≤ weight H h th.pc)
    (hself : TInv H sz sh' th'.pc ∧ OpsOK H sz th'.ops)
    (hlocks : LockInv ⟨sh', s.threads.set tid th'⟩) :
    ConcInv H sz ⟨sh', s.threads.set tid th'⟩ := by
  obtain ⟨h1, h2, h3, h4⟩ := hd
  apply assemble H sz s inv tid th hth sh' th' h1
  · rw [h2]; exact inv.idx
  · rw [h4]; exact inv.files
  · rw [h2, h4]; exact inv.present
  · rw [h3]; exact inv.protNodup
  · intro h; rw [h3]; have := inv.prot h; have := hw h; omega
  · exact hself
  · intro i th2 h2' _
    exact TInv_congr H sz s.sh sh' th2.pc ⟨h1, h2, h3, h4⟩ (inv.tinv i th2 h2').1
  · exact hlocks

end CasModel.Conc

namespace CasModel.Conc
open CasModel

/-- steps that unlink the file of a hash that is neither referenced nor protected -/
theorem assemble_unlink (H : Bytes → Bytes) (sz : Bytes → Nat) (s : Sys) (inv : ConcInv H sz s)
    (tid : Nat) (th : Thread) (hth : s.threads[tid]? = some th) (h : Bytes)
    (hc : countHash s.sh.idx.map h = 0) (hp : protCount s.sh.prot h = 0)
    (sh' : Shared) (th' : Thread)
    (hk : sh'.kind = s.sh.kind) (hi : sh'.idx = s.sh.idx) (hpr : sh'.prot = s.sh.prot)
    (hcas : sh'.cas = casDel s.sh.cas h)
    (hw : ∀ g, weight H g th'.pc ≤ weight H g th.pc)
    (hself : TInv H sz sh' th'.pc ∧ OpsOK H sz th'.ops)
    (hlocks : LockInv ⟨sh', s.threads.set tid th'⟩) :
    ConcInv H sz ⟨sh', s.threads.set tid th'⟩ := by
  refine assemble H sz s inv tid th hth sh' th' hk (by rw [hi]; exact inv.idx) ?_ ?_
    (by rw [hpr]; exact inv.protNodup) ?_ hself ?_ hlocks
  · intro g x hg
    rw [hcas, casGet_casDel] at hg
    by_cases cg : g = h
    · simp [cg] at hg
    · simp only [cg, ↓reduceIte] at hg; exact inv.files g x hg
  · intro g hg
    rw [hi] at hg
    rw [hcas, casGet_casDel]
    have : g ≠ h := by intro e; subst e; omega
    simp only [this, ↓reduceIte]; exact inv.present g hg
  · intro g; rw [hpr]; have := inv.prot g; have := hw g; omega
  · intro i th2 h2 _
    refine TInv_frameA H sz s.sh sh' th2.pc hi hpr
      (fun g hw => window_protected H sz s inv i th2 h2 g hw) ?_ (inv.tinv i th2 h2).1
    intro g hg1 hg2
    rw [hcas, casGet_casDel]
    have : g ≠ h := by intro e; subst e; omega
    simp only [this, ↓reduceIte]; exact hg2

@[simp] theorem bookkeep_kind (sh : Shared) (i : IndexState Bytes) (o : Option (Bytes × Bytes)) :
    (bookkeep sh i o).kind = sh.kind := by unfold bookkeep; split <;> rfl
@[simp] theorem bookkeep_idx (sh : Shared) (i : IndexState Bytes) (o : Option (Bytes × Bytes)) :
    (bookkeep sh i o).idx = i := by unfold bookkeep; split <;> rfl
@[simp] theorem bookkeep_cas (sh : Shared) (i : IndexState Bytes) (o : Option (Bytes × Bytes)) :
    (bookkeep sh i o).cas = sh.cas := by unfold bookkeep; split <;> rfl
theorem bookkeep_prot (sh : Shared) (i : IndexState Bytes) (o : Option (Bytes × Bytes)) :
    (bookkeep sh i o).prot = match o with | some (_, h) => unprotect sh.prot h | none => sh.prot := by
  unfold bookkeep; split <;> rfl

/-- the WAL step (log + apply) keeps the invariant -/
theorem apWal_concInv (H : Bytes → Bytes) (sz : Bytes → Nat) (s : Sys) (inv : ConcInv H sz s)
    (tid : Nat) (th : Thread) (hth : s.threads[tid]? = some th)
    (op : Op Bytes) (own : Option (Bytes × Bytes)) (res : Res) (hpc : th.pc = .apWal op own res)
    (th' : Thread) (hops' : th'.ops = th.ops) (hpc' : th'.pc = (applyStep s.sh op own res).pc)
    (hlocks : LockInv ⟨(applyStep s.sh op own res).sh, s.threads.set tid th'⟩) :
    ConcInv H sz ⟨(applyStep s.sh op own res).sh, s.threads.set tid th'⟩ := by
  have hti := (inv.tinv tid th hth).1
  have hops := (inv.tinv tid th hth).2
  rw [hpc] at hti
  simp only [TInv] at hti
  obtain ⟨hok, hown, hnone⟩ := hti
  have hI : s.sh.lockIntents = some tid := by
    have := inv.locks.intents tid th hth
    rw [hpc] at this; exact this.mp rfl
  obtain ⟨idx', unref, happ, ok, hl⟩ := applyOp_spec inv.so sz s.sh.idx inv.idx op hok
  have hpres : ∀ x, 0 < countHash idx'.map x → (casGet s.sh.cas x).isSome := by
    intro x hx
    rcases count_pos_after inv.so sz s.sh.idx idx' inv.idx ok.inv op hl x hx with h1 | ⟨k, size, h2⟩
    · exact inv.present x h1
    · cases own with
      | none => obtain ⟨ks, hks⟩ := hnone rfl; rw [hks] at h2; cases h2
      | some p =>
        obtain ⟨k', h'⟩ := p
        obtain ⟨⟨size', hs'⟩, hf⟩ := hown k' h' rfl
        rw [hs'] at h2; injection h2 with _ e2 _; subst e2; exact hf
  have hpn : (rcKeys (bookkeep s.sh idx' own).prot).Nodup := by
    rw [bookkeep_prot]
    cases own with
    | none => exact inv.protNodup
    | some p => exact unprotect_nodup _ inv.protNodup _
  have hprot : ∀ g, need H s.threads g ≤ protCount (bookkeep s.sh idx' own).prot g + weight H g th.pc := by
    intro g
    have hg := inv.prot g
    rw [bookkeep_prot, hpc]
    cases own with
    | none => simp only; omega
    | some p =>
      obtain ⟨k, h⟩ := p
      simp only [protCount_unprotect _ inv.protNodup]
      have hw1 : 1 ≤ protCount s.sh.prot h :=
        window_protected H sz s inv tid th hth h (by rw [hpc]; rfl)
      by_cases cg : g = h
      · subst cg; simp [weight, window]; omega
      · simp only [cg, ↓reduceIte]; omega
  have hothers : ∀ (sh' : Shared), sh'.cas = s.sh.cas → ∀ (i : Nat) (th2 : Thread),
      s.threads[i]? = some th2 → i ≠ tid → TInv H sz sh' th2.pc := by
    intro sh' hc i th2 h2 hne
    exact TInv_frameB H sz s.sh sh' th2.pc hc
      (no_other_unlinker s inv.locks tid (Or.inr hI) i th2 h2 hne) (inv.tinv i th2 h2).1
  unfold applyStep at hlocks hpc' ⊢
  simp only [happ] at hlocks hpc' ⊢
  by_cases hp : (List.filter (fun h => !isProtected (bookkeep s.sh idx' own).prot h) unref).isEmpty = true
  · simp only [hp, ↓reduceIte] at hlocks hpc' ⊢
    refine assemble H sz s inv tid th hth _ th' (by simp) (by simpa using ok.inv)
      (by simpa using inv.files) (by simpa using hpres) (by simpa using hpn) ?_ ?_ ?_ hlocks
    · intro g
      have h0 : weight H g th'.pc = 0 := by rw [hpc']; rfl
      rw [h0]; have := hprot g; simpa using this
    · rw [hpc', hops']; exact ⟨by simp [TInv], hops⟩
    · exact hothers _ (by simp)
  · simp only [hp, Bool.false_eq_true, ↓reduceIte] at hlocks hpc' ⊢
    refine assemble H sz s inv tid th hth _ th' (by simp) (by simpa using ok.inv)
      (by simpa using inv.files) (by simpa using hpres) (by simpa using hpn) ?_ ?_ ?_ hlocks
    · intro g
      have h0 : weight H g th'.pc = 0 := by rw [hpc']; rfl
      rw [h0]; have := hprot g; simpa using this
    · rw [hpc', hops']
      refine ⟨?_, hops⟩
      simp only [TInv]
      intro x hx
      simp only [List.mem_filter, Bool.not_eq_true'] at hx
      refine ⟨by simpa using ((ok.unref x).mp hx.1).2, ?_⟩
      have := hx.2
      simp only [isProtected, decide_eq_false_iff_not] at this
      omega
    · exact hothers _ (by simp)

theorem weight_none (H : Bytes → Bytes) (h : Bytes) (pc : Pc) (hw : window H pc = none) :
    weight H h pc = 0 := by simp [weight, hw]

/-- **P4, one step of a parked thread.** -/
theorem stepPc_concInv (H : Bytes → Bytes) (sz : Bytes → Nat) (s : Sys) (inv : ConcInv H sz s)
    (tid : Nat) (th : Thread) (hth : s.threads[tid]? = some th)
    (hen : enabled s.sh th.pc = true)
    (hlocks : LockInv ⟨(stepPc H tid s.sh th.pc).sh, s.threads.set tid
        { th with pc := (stepPc H tid s.sh th.pc).pc,
                  results := th.results ++ (stepPc H tid s.sh th.pc).done.toList }⟩) :
    ConcInv H sz ⟨(stepPc H tid s.sh th.pc).sh, s.threads.set tid
        { th with pc := (stepPc H tid s.sh th.pc).pc,
                  results := th.results ++ (stepPc H tid s.sh th.pc).done.toList }⟩ := by
  have hti := (inv.tinv tid th hth).1
  have hops := (inv.tinv tid th hth).2
  have hli := inv.locks.intents tid th hth
  cases hpc : th.pc with
  | idle =>
    rw [hpc] at hlocks
    simp only [stepPc] at hlocks ⊢
    exact assemble_sameData H sz s inv tid th hth _ _ ⟨rfl, rfl, rfl, rfl⟩
      (by intro h; simp [weight, window]) ⟨by simp [TInv], hops⟩ hlocks
  | putReg k c =>
    rw [hpc] at hlocks hti hen
    simp only [stepPc] at hlocks ⊢
    simp only [TInv] at hti
    have hfree : s.sh.lockIntents = none := by
      simpa [enabled, Pc.wants] using hen
    refine assemble H sz s inv tid th hth _ _ rfl inv.idx inv.files inv.present
      (protect_nodup _ inv.protNodup _) ?_ ?_ ?_ hlocks
    · intro g
      simp only [protCount_protect, hpc]
      have := inv.prot g
      by_cases cg : g = H c
      · subst cg; simp [weight, window]; omega
      · have : weight H g (Pc.putRename k c) = 0 := by
          simp only [weight, window]
          have : ¬ H c = g := fun e => cg e.symm
          simp [this]
        simp only [cg, ↓reduceIte, this]; omega
    · exact ⟨by simpa [TInv] using hti, hops⟩
    · intro i th2 h2 hne
      exact TInv_frameB H sz s.sh _ th2.pc rfl
        (no_other_unlinker s inv.locks tid (Or.inl hfree) i th2 h2 hne) (inv.tinv i th2 h2).1
  | putRename k c =>
    rw [hpc] at hlocks hti
    simp only [stepPc] at hlocks ⊢
    simp only [TInv] at hti
    refine assemble H sz s inv tid th hth _ _ rfl inv.idx ?_ ?_ inv.protNodup ?_ ?_ ?_ hlocks
    · intro g x hg
      simp only [casGet_casPut] at hg
      by_cases cg : g = H c
      · subst cg; simp at hg; subst hg; exact ⟨rfl, hti.symm⟩
      · simp only [cg, ↓reduceIte] at hg; exact inv.files g x hg
    · intro g hg
      simp only [casGet_casPut]
      by_cases cg : g = H c
      · simp [cg]
      · simp only [cg, ↓reduceIte]; exact inv.present g hg
    · intro g
      have := inv.prot g
      have hw : weight H g (Pc.apIntents (Op.put k (H c) c.length) (some (k, H c)) Res.ok)
          = weight H g th.pc := by rw [hpc]; simp [weight, window]
      show need H s.threads g + _ ≤ protCount s.sh.prot g + _
      rw [hw]; omega
    · refine ⟨?_, hops⟩
      simp only [TInv, OpOK]
      refine ⟨hti.symm, ?_, by simp⟩
      intro k' h' hown
      injection hown with hown; injection hown with e1 e2; subst e1 e2
      exact ⟨⟨_, rfl⟩, by simp [casGet_casPut]⟩
    · intro i th2 h2 hne
      refine TInv_frameA H sz s.sh _ th2.pc rfl rfl
        (fun h hw => window_protected H sz s inv i th2 h2 h hw) ?_ (inv.tinv i th2 h2).1
      intro g _ hg
      simp only [casGet_casPut]
      by_cases cg : g = H c <;> simp [cg, hg]
  | apIntents op own res =>
    rw [hpc] at hlocks hti
    simp only [stepPc] at hlocks ⊢
    exact assemble_sameData H sz s inv tid th hth _ _ ⟨rfl, rfl, rfl, rfl⟩
      (by intro h; rw [hpc]; cases own <;> simp [weight, window]) ⟨by simpa [TInv] using hti, hops⟩ hlocks
  | apState op own res =>
    rw [hpc] at hlocks hti
    simp only [stepPc] at hlocks ⊢
    exact assemble_sameData H sz s inv tid th hth _ _ ⟨rfl, rfl, rfl, rfl⟩
      (by intro h; rw [hpc]; cases own <;> simp [weight, window]) ⟨by simpa [TInv] using hti, hops⟩ hlocks
  | apWal op own res =>
    rw [hpc] at hlocks
    simp only [stepPc] at hlocks ⊢
    exact apWal_concInv H sz s inv tid th hth op own res hpc _ rfl rfl hlocks
  | apUnlink pending t =>
    rw [hpc] at hlocks hti
    simp only [TInv] at hti
    match pending with
    | [] =>
      simp only [stepPc] at hlocks ⊢
      exact assemble_sameData H sz s inv tid th hth _ _ ⟨rfl, rfl, rfl, rfl⟩
        (by intro h; simp [weight, window]) ⟨by simp [TInv], hops⟩ hlocks
    | [h] =>
      simp only [stepPc] at hlocks ⊢
      obtain ⟨a, b⟩ := hti h (by simp)
      exact assemble_unlink H sz s inv tid th hth h a b _ _ rfl rfl rfl rfl
        (by intro g; simp [weight, window]) ⟨by simp [TInv], hops⟩ hlocks
    | h :: h' :: rest =>
      simp only [stepPc] at hlocks ⊢
      obtain ⟨a, b⟩ := hti h (by simp)
      refine assemble_unlink H sz s inv tid th hth h a b _ _ rfl rfl rfl rfl
        (by intro g; simp [weight, window]) ⟨?_, hops⟩ hlocks
      simp only [TInv]
      intro x hx
      exact hti x (by simp at hx ⊢; right; exact hx)
  | apUnlocked t =>
    rw [hpc] at hlocks
    simp only [stepPc] at hlocks ⊢
    by_cases hr : t.rolled = true
    · simp only [hr, ↓reduceIte] at hlocks ⊢
      exact assemble_sameData H sz s inv tid th hth _ _ ⟨rfl, rfl, rfl, rfl⟩
        (by intro h; simp [weight, window]) ⟨by simp [TInv], hops⟩ hlocks
    · simp only [hr, Bool.false_eq_true, ↓reduceIte] at hlocks ⊢
      exact assemble_sameData H sz s inv tid th hth _ _ ⟨rfl, rfl, rfl, rfl⟩
        (by intro h; simp [weight, window]) ⟨by simp [TInv], hops⟩ hlocks
  | ckState t =>
    rw [hpc] at hlocks
    simp only [stepPc] at hlocks ⊢
    exact assemble_sameData H sz s inv tid th hth _ _ ⟨rfl, rfl, rfl, rfl⟩
      (by intro h; simp [weight, window]) ⟨by simp [TInv], hops⟩ hlocks
  | ckWal t =>
    rw [hpc] at hlocks
    simp only [stepPc] at hlocks ⊢
    exact assemble_sameData H sz s inv tid th hth _ _ ⟨rfl, rfl, rfl, rfl⟩
      (by intro h; simp [weight, window]) ⟨by simp [TInv], hops⟩ hlocks
  | rmScan k =>
    rw [hpc] at hlocks
    simp only [stepPc] at hlocks ⊢
    cases hk : kLookup s.sh.idx.map k with
    | none =>
      simp only [hk] at hlocks ⊢
      exact assemble_sameData H sz s inv tid th hth _ _ ⟨rfl, rfl, rfl, rfl⟩
        (by intro h; simp [weight, window]) ⟨by simp [TInv], hops⟩ hlocks
    | some item =>
      simp only [hk] at hlocks ⊢
      exact assemble_sameData H sz s inv tid th hth _ _ ⟨rfl, rfl, rfl, rfl⟩
        (by intro h; simp [weight, window]) ⟨by simp [TInv, OpOK], hops⟩ hlocks
  | rrScan lo hi =>
    rw [hpc] at hlocks
    simp only [stepPc] at hlocks ⊢
    split at hlocks
    · rename_i he
      simp only [he, ↓reduceIte]
      exact assemble_sameData H sz s inv tid th hth _ _ ⟨rfl, rfl, rfl, rfl⟩
        (by intro h; simp [weight, window]) ⟨by simp [TInv], hops⟩ hlocks
    · rename_i he
      simp only [he, Bool.false_eq_true, ↓reduceIte]
      exact assemble_sameData H sz s inv tid th hth _ _ ⟨rfl, rfl, rfl, rfl⟩
        (by intro h; simp [weight, window]) ⟨by simp [TInv, OpOK], hops⟩ hlocks
  | rdLookup k =>
    rw [hpc] at hlocks
    simp only [stepPc] at hlocks ⊢
    cases hk : kLookup s.sh.idx.map k with
    | none =>
      simp only [hk] at hlocks ⊢
      exact assemble_sameData H sz s inv tid th hth _ _ ⟨rfl, rfl, rfl, rfl⟩
        (by intro h; simp [weight, window]) ⟨by simp [TInv], hops⟩ hlocks
    | some item =>
      simp only [hk] at hlocks ⊢
      cases hc : casGet s.sh.cas item.hash with
      | none =>
        simp only [hc] at hlocks ⊢
        exact assemble_sameData H sz s inv tid th hth _ _ ⟨rfl, rfl, rfl, rfl⟩
          (by intro h; simp [weight, window]) ⟨by simp [TInv], hops⟩ hlocks
      | some c =>
        simp only [hc] at hlocks ⊢
        exact assemble_sameData H sz s inv tid th hth _ _ ⟨rfl, rfl, rfl, rfl⟩
          (by intro h; simp [weight, window]) ⟨by simp [TInv], hops⟩ hlocks
  | rdLookupR k s' e' =>
    rw [hpc] at hlocks
    simp only [stepPc] at hlocks ⊢
    cases hk : kLookup s.sh.idx.map k with
    | none =>
      simp only [hk] at hlocks ⊢
      exact assemble_sameData H sz s inv tid th hth _ _ ⟨rfl, rfl, rfl, rfl⟩
        (by intro h; simp [weight, window]) ⟨by simp [TInv], hops⟩ hlocks
    | some item =>
      simp only [hk] at hlocks ⊢
      cases hc : casGet s.sh.cas item.hash with
      | none =>
        simp only [hc] at hlocks ⊢
        exact assemble_sameData H sz s inv tid th hth _ _ ⟨rfl, rfl, rfl, rfl⟩
          (by intro h; simp [weight, window]) ⟨by simp [TInv], hops⟩ hlocks
      | some c =>
        simp only [hc] at hlocks ⊢
        cases hg : getRange c item.size [] s' e' with
        | ok out =>
          simp only [hg] at hlocks ⊢
          exact assemble_sameData H sz s inv tid th hth _ _ ⟨rfl, rfl, rfl, rfl⟩
            (by intro h; simp [weight, window]) ⟨by simp [TInv], hops⟩ hlocks
        | error err =>
          simp only [hg] at hlocks ⊢
          exact assemble_sameData H sz s inv tid th hth _ _ ⟨rfl, rfl, rfl, rfl⟩
            (by intro h; simp [weight, window]) ⟨by simp [TInv], hops⟩ hlocks
  | rdOpened r =>
    rw [hpc] at hlocks
    simp only [stepPc] at hlocks ⊢
    exact assemble_sameData H sz s inv tid th hth _ _ ⟨rfl, rfl, rfl, rfl⟩
      (by intro h; simp [weight, window]) ⟨by simp [TInv], hops⟩ hlocks
  | orIntents hs del skip =>
    rw [hpc] at hlocks
    simp only [stepPc] at hlocks ⊢
    cases hs with
    | nil =>
      simp only at hlocks ⊢
      exact assemble_sameData H sz s inv tid th hth _ _ ⟨rfl, rfl, rfl, rfl⟩
        (by intro h; simp [weight, window]) ⟨by simp [TInv], hops⟩ hlocks
    | cons h rest =>
      simp only at hlocks ⊢
      exact assemble_sameData H sz s inv tid th hth _ _ ⟨rfl, rfl, rfl, rfl⟩
        (by intro h; simp [weight, window]) ⟨by simp [TInv], hops⟩ hlocks
  | orState h rest del skip =>
    rw [hpc] at hlocks
    simp only [stepPc] at hlocks ⊢
    by_cases hc : ((rcGet s.sh.idx.rc h).isSome || isProtected s.sh.prot h) = true
    · simp only [hc, ↓reduceIte] at hlocks ⊢
      exact assemble_sameData H sz s inv tid th hth _ _ ⟨rfl, rfl, rfl, rfl⟩
        (by intro h; simp [weight, window]) ⟨by simp [TInv], hops⟩ hlocks
    · simp only [hc, Bool.false_eq_true, ↓reduceIte] at hlocks ⊢
      refine assemble_sameData H sz s inv tid th hth _ _ ⟨rfl, rfl, rfl, rfl⟩
        (by intro h; simp [weight, window]) ⟨?_, hops⟩ hlocks
      simp only [TInv]
      simp only [Bool.or_eq_true, not_or, Bool.not_eq_true] at hc
      constructor
      · have := inv.idx.rcOK h
        by_cases c0 : countHash s.sh.idx.map h = 0
        · exact c0
        · simp only [c0, ↓reduceIte] at this
          rw [this] at hc; simp at hc
      · have := hc.2
        simp only [isProtected, decide_eq_false_iff_not] at this
        omega
  | orUnlink h rest del skip =>
    rw [hpc] at hlocks hti
    simp only [TInv] at hti
    simp only [stepPc] at hlocks ⊢
    exact assemble_unlink H sz s inv tid th hth h hti.1 hti.2 _ _ rfl rfl rfl rfl
      (by intro g; simp [weight, window]) ⟨by simp [TInv], hops⟩ hlocks
  | orUnlocked rest del skip =>
    rw [hpc] at hlocks
    simp only [stepPc] at hlocks ⊢
    cases rest with
    | nil =>
      simp only at hlocks ⊢
      exact assemble_sameData H sz s inv tid th hth _ _ ⟨rfl, rfl, rfl, rfl⟩
        (by intro h; simp [weight, window]) ⟨by simp [TInv], hops⟩ hlocks
    | cons h rest =>
      simp only at hlocks ⊢
      exact assemble_sameData H sz s inv tid th hth _ _ ⟨rfl, rfl, rfl, rfl⟩
        (by intro h; simp [weight, window]) ⟨by simp [TInv], hops⟩ hlocks

end CasModel.Conc

namespace CasModel.Conc
open CasModel

/-- **P4.** Every step of every thread, in every state satisfying the invariant, re-establishes
    the invariant. -/
theorem step_concInv (H : Bytes → Bytes) (sz : Bytes → Nat) (s s' : Sys) (tid : Tid)
    (inv : ConcInv H sz s) (h : step H s tid = some s') : ConcInv H sz s' := by
  have hlocks := step_lockInv H s s' tid inv.locks h
  unfold step at h
  cases hth : s.threads[tid]? with
  | none => simp [hth] at h
  | some th =>
    simp only [hth] at h
    have hops := (inv.tinv tid th hth).2
    cases hpc : th.pc with
    | idle =>
      simp only [hpc] at h
      cases hops' : th.ops with
      | nil => simp [hops'] at h
      | cons op rest =>
        simp only [hops'] at h
        have hrest : OpsOK H sz rest := by
          intro o ho; exact hops o (by rw [hops']; simp [ho])
        have hop := hops op (by rw [hops']; simp)
        split at h
        · cases h
        injection h with h; subst h
        refine assemble_sameData H sz s inv tid th hth _ _ ⟨rfl, rfl, rfl, rfl⟩
          (by intro g; simp only [weight, window_startOp]; simp) ⟨?_, hrest⟩ hlocks
        cases op with
        | getRange k s' e' =>
          simp only [startOp]
          cases kLookup s.sh.idx.map k with
          | none => simp [TInv]
          | some item => by_cases c : s' ≥ item.size <;> simp [c, TInv]
        | put k c => simpa [startOp, TInv] using hop
        | _ => simp [startOp, TInv]
    | _ =>
      all_goals
        simp only [hpc] at h
        split at h
        · cases h
        · rename_i hen
          injection h with h; subst h
          have hen' : enabled s.sh th.pc = true := by rw [hpc]; simpa using hen
          have := stepPc_concInv H sz s inv tid th hth hen' (by rw [hpc]; exact hlocks)
          rw [hpc] at this; exact this

theorem run_concInv (H : Bytes → Bytes) (sz : Bytes → Nat) (s s' : Sys) (sched : List Tid)
    (inv : ConcInv H sz s) (h : run H s sched = some s') : ConcInv H sz s' := by
  induction sched generalizing s with
  | nil => simp only [run] at h; injection h with h; subst h; exact inv
  | cons t ts ih =>
    simp only [run] at h
    cases hs : step H s t with
    | none => simp [hs] at h
    | some s1 => simp only [hs] at h; exact ih s1 (step_concInv H sz s s1 t inv hs) h

end CasModel.Conc
