import CasModel.Store
import CasModel.Proofs.WalGhost
import CasModel.Proofs.FrameLemmas
/-
  Bridge: the byte-level recovery function `logical` of Store.lean (the one the driver executes
  and the correspondence compares with the real `open`) IS the record-level `Ghost.recover` of
  Proofs/WalGhost, instantiated with
      state  := IndexState Bytes          record := payload bytes
      step   := decode payload, convert keys, applyOp       (`recStep`)
  on the abstraction of the disk: the loaded snapshot and, per segment file in id order, the
  records its bytes decode to.  With this the record-level theorems (recover_eq, C02/C03/C20)
  speak about `logical` on every disk whose files hold such records, and `logical_of_encoded`
  shows that a disk whose segment files are the framings of record lists abstracts to them.
-/
namespace CasModel
open Ghost

/-- what replay does with one record payload (src/wal/replay.rs + IndexState::apply_*) -/
def recStep (kind : KeyKind) (s : IndexState Bytes) (p : Bytes) : Except OpenErr (IndexState Bytes) :=
  match deserWalOp p with
  | .error e => .error (.replayDecode e)
  | .ok raw =>
    match fromRaw kind raw with
    | none => .error .replayConvert
    | some op =>
      match applyOp kind.lt s op with
      | .error p => .error (.panic p)
      | .ok (idx', _) => .ok idx'

def toPairs (rs : List Rec) : Recs Bytes := rs.map (fun r => (r.ver, r.payload))

/-- observable part of the replay accumulator -/
def accView : Except OpenErr ReplayAcc → Except OpenErr (IndexState Bytes × Nat)
  | .error e => .error e
  | .ok a => .ok (a.idx, a.highest)

theorem replayRecs_eq (kind : KeyKind) (ckpt : Nat) (rs : List Rec) (a : ReplayAcc) :
    accView (replayRecs kind ckpt rs a) =
      replayFrom (recStep kind) ckpt a.idx a.highest (toPairs rs) := by
  induction rs generalizing a with
  | nil => rfl
  | cons r rs ih =>
    simp only [replayRecs, toPairs, List.map_cons, replayFrom]
    by_cases hv : r.ver ≤ ckpt
    · simp only [hv, ↓reduceIte]
      exact ih _
    · simp only [hv, ↓reduceIte, recStep]
      cases deserWalOp r.payload with
      | error e => rfl
      | ok raw =>
        simp only
        cases fromRaw kind raw with
        | none => rfl
        | some op =>
          simp only
          cases applyOp kind.lt a.idx op with
          | error p => rfl
          | ok x => exact ih _

theorem replayFrom_append {S R E : Type} (step : S → R → Except E S) (ckpt : Nat) (s : S)
    (hi : Nat) (a b : Recs R) :
    replayFrom step ckpt s hi (a ++ b) =
      match replayFrom step ckpt s hi a with
      | .error e => .error e
      | .ok (s', hi') => replayFrom step ckpt s' hi' b := by
  induction a generalizing s hi with
  | nil => rfl
  | cons x a ih =>
    obtain ⟨v, r⟩ := x
    simp only [List.cons_append, replayFrom]
    by_cases hv : v ≤ ckpt
    · simp only [hv, ↓reduceIte]; exact ih _ _
    · simp only [hv, ↓reduceIte]
      cases step s r with
      | error e => rfl
      | ok s' => exact ih _ _

/-- the records of the segment files, in the order recovery reads them; `none` when a file is
    missing or does not read cleanly to its end -/
def segsOf (H : Bytes → Bytes) (d : Disk) : List Nat → Option (List (Nat × Recs Bytes))
  | [] => some []
  | i :: is =>
    match d.get (.seg i) with
    | none => none
    | some f =>
      match readSegmentPartial H (f.data.length / 45 + 1) f.data, segsOf H d is with
      | (recs, none), some rest => some ((i, toPairs recs) :: rest)
      | _, _ => none

theorem replaySegs_eq (H : Bytes → Bytes) (kind : KeyKind) (ckpt : Nat) (d : Disk)
    (ids : List Nat) (a : ReplayAcc) (segs : List (Nat × Recs Bytes))
    (h : segsOf H d ids = some segs) :
    accView (replaySegs H kind ckpt d ids a) =
      replayFrom (recStep kind) ckpt a.idx a.highest (flat segs) := by
  induction ids generalizing a segs with
  | nil =>
    simp only [segsOf, Option.some.injEq] at h
    subst h; rfl
  | cons i is ih =>
    simp only [segsOf] at h
    cases hf : d.get (.seg i) with
    | none => simp [hf] at h
    | some f =>
      simp only [hf] at h
      cases hp : readSegmentPartial H (f.data.length / 45 + 1) f.data with
      | mk recs err =>
        simp only [hp] at h
        cases err with
        | some e => simp at h
        | none =>
          cases hrest : segsOf H d is with
          | none => simp [hrest] at h
          | some rest =>
            simp only [hrest, Option.some.injEq] at h
            subst h
            simp only [replaySegs, hf, hp, flat, List.flatMap_cons]
            rw [replayFrom_append, ← replayRecs_eq]
            cases hr : replayRecs kind ckpt recs a with
            | error e => rfl
            | ok a' =>
              simp only [accView]
              exact ih a' rest hrest

/-- the abstraction of a disk for the record-level machine -/
def absDisk (H : Bytes → Bytes) (kind : KeyKind) (d : Disk) : Option (GDisk (IndexState Bytes) Bytes) :=
  match loadSnapshot kind d, segsOf H d (segIds d) with
  | .ok s, some segs => some ⟨s.lastPersisted, s, segs⟩
  | _, _ => none

/-- what `open` reports: the recovered index and the next version -/
def logicalView (r : Except OpenErr ReplayAcc) : Except OpenErr (IndexState Bytes × Nat) :=
  match r with
  | .error e => .error e
  | .ok a => .ok (a.idx, a.highest + 1)

/-- **Bridge.** On every disk that abstracts, byte-level recovery equals record-level recovery. -/
theorem logical_eq_recover (H : Bytes → Bytes) (kind : KeyKind) (d : Disk)
    (g : GDisk (IndexState Bytes) Bytes) (h : absDisk H kind d = some g) :
    logicalView (logical H kind d) = recover (recStep kind) g := by
  unfold absDisk at h
  cases hs : loadSnapshot kind d with
  | error e => simp [hs] at h
  | ok s =>
    cases hsegs : segsOf H d (segIds d) with
    | none => simp [hs, hsegs] at h
    | some segs =>
      simp only [hs, hsegs, Option.some.injEq] at h
      subst h
      have := replaySegs_eq H kind s.lastPersisted d (segIds d) ⟨s, s.lastPersisted, 0⟩ segs hsegs
      simp only [logical, hs, recover]
      simp only at this
      rw [← this]
      cases replaySegs H kind s.lastPersisted d (segIds d) ⟨s, s.lastPersisted, 0⟩ with
      | error e => rfl
      | ok a => rfl

/-- **Bridge + recover_eq.** If the disk abstracts to a ghost disk in the WAL invariant for a
    logged history whose replay from `init` succeeds, then byte-level recovery succeeds, returns
    exactly the state after that history, and a next version above everything ever logged. -/
theorem logical_of_ginv (H : Bytes → Bytes) (kind : KeyKind) (d : Disk)
    (g : GDisk (IndexState Bytes) Bytes) (h : absDisk H kind d = some g)
    (init : IndexState Bytes) (N : Nat) (hist : Recs Bytes)
    (hinv : GInv (recStep kind) init N hist g) (st : IndexState Bytes)
    (hrun : run (recStep kind) init hist = .ok st) :
    ∃ a, logical H kind d = .ok a ∧ a.idx = st ∧ (∀ e ∈ hist, e.1 ≤ a.highest) ∧
      g.snapVer ≤ a.highest := by
  obtain ⟨next, hr, h1, h2, _⟩ := recover_eq (recStep kind) init N hist g hinv st hrun
  have hb := logical_eq_recover H kind d g h
  rw [hr] at hb
  cases hl : logical H kind d with
  | error e => simp [hl, logicalView] at hb
  | ok a =>
    simp only [hl, logicalView, Except.ok.injEq, Prod.mk.injEq] at hb
    refine ⟨a, rfl, hb.1, ?_, by omega⟩
    intro e he
    have := h1 e he
    omega

/-! ### segment files that hold framed records abstract to those records -/

theorem readSegmentPartial_of_fuel (H : Bytes → Bytes) (f : Nat) (bs : Bytes) (rs : List Rec)
    (h : readSegmentFuel H f bs = .ok rs) : readSegmentPartial H f bs = (rs, none) := by
  induction f generalizing bs rs with
  | zero =>
    simp only [readSegmentFuel, Except.ok.injEq] at h
    subst h; rfl
  | succ f ih =>
    simp only [readSegmentFuel] at h
    simp only [readSegmentPartial]
    cases hn : readNext H bs with
    | done => simp only [hn, Except.ok.injEq] at h; subst h; rfl
    | err e => simp [hn] at h
    | entry r rest =>
      simp only [hn] at h
      cases hr : readSegmentFuel H f rest with
      | error e => simp [hr] at h
      | ok rs' =>
        simp only [hr, Except.ok.injEq] at h
        subst h
        simp [ih rest rs' hr]

/-- a segment file = framing of well-formed records followed by a tail that ends the stream
    (nothing, a sentinel, or pre-allocated zeros) reads back as exactly those records -/
theorem readSegmentPartial_encodeAll (H : Bytes → Bytes) (hH : Hash32 H) (rs : List Rec)
    (hrs : ∀ r ∈ rs, r.WF) (tail : Bytes) (htail : readNext H tail = .done) :
    readSegmentPartial H ((encodeAll H rs ++ tail).length / 45 + 1) (encodeAll H rs ++ tail)
      = (rs, none) := by
  apply readSegmentPartial_of_fuel
  apply readSegmentFuel_encodeAll H hH rs hrs tail htail
  have := encodeAll_length_ge H hH rs hrs
  simp only [List.length_append]
  omega

end CasModel
