import CasModel.Index
/-
  Lemmas about the hand-rolled ordered map (`kInsert`, `kErase`, `kLookup`) and the refcount
  association list (`rcGet`, `rcSet`, `rcErase`).
-/
namespace CasModel

/-- the laws of `Ord` the index relies on (BTreeMap's contract), for the key order `lt` -/
structure StrictOrder {K : Type} (lt : K → K → Bool) : Prop where
  irrefl : ∀ a, lt a a = false
  trans : ∀ a b c, lt a b = true → lt b c = true → lt a c = true
  total : ∀ a b, lt a b = true ∨ a = b ∨ lt b a = true

section
variable {K : Type} [DecidableEq K] {lt : K → K → Bool}

def Sorted (lt : K → K → Bool) (m : KMap K) : Prop := m.Pairwise (fun a b => lt a.1 b.1 = true)

def countHash (m : KMap K) (h : Bytes) : Nat := (m.filter (fun e => e.2.hash = h)).length

@[simp] theorem countHash_nil (h : Bytes) : countHash ([] : KMap K) h = 0 := rfl

theorem countHash_cons (e : K × Item) (m : KMap K) (h : Bytes) :
    countHash (e :: m) h = (if e.2.hash = h then 1 else 0) + countHash m h := by
  unfold countHash
  by_cases c : e.2.hash = h <;> simp [List.filter_cons, c] <;> omega

theorem kLookup_none_of_lt (so : StrictOrder lt) {m : KMap K} {k : K}
    (h : ∀ e ∈ m, lt k e.1 = true) : kLookup m k = none := by
  induction m with
  | nil => rfl
  | cons e m ih =>
    have he := h e (by simp)
    have : e.1 ≠ k := by
      intro c; rw [c, so.irrefl] at he; cases he
    simp only [kLookup, this, ↓reduceIte]
    exact ih (fun e' h' => h e' (by simp [h']))

theorem kLookup_mem {m : KMap K} {k : K} {v : Item} (h : kLookup m k = some v) : (k, v) ∈ m := by
  induction m with
  | nil => cases h
  | cons e m ih =>
    obtain ⟨k', v'⟩ := e
    simp only [kLookup] at h
    split at h
    · rename_i c; injection h with h; subst c h; simp
    · simp [ih h]

theorem mem_kLookup (so : StrictOrder lt) {m : KMap K} (hs : Sorted lt m) {k : K} {v : Item}
    (h : (k, v) ∈ m) : kLookup m k = some v := by
  induction m with
  | nil => cases h
  | cons e m ih =>
    obtain ⟨k', v'⟩ := e
    have hs' := List.pairwise_cons.mp hs
    simp only [kLookup]
    rcases List.mem_cons.mp h with h | h
    · injection h with h1 h2; subst h1 h2; simp
    · have : k' ≠ k := by
        intro c; subst c
        have := hs'.1 _ h
        simp [so.irrefl] at this
      simp only [this, ↓reduceIte]
      exact ih hs'.2 h

/-- lookup after insert -/
theorem kLookup_kInsert (m : KMap K) (k : K) (v : Item) (k' : K) :
    kLookup (kInsert lt m k v).1 k' = if k' = k then some v else kLookup m k' := by
  induction m with
  | nil =>
    simp only [kInsert, kLookup]
    by_cases c : k' = k
    · subst c; simp
    · have : ¬ k = k' := fun h => c h.symm
      simp [c, this]
  | cons e m ih =>
    obtain ⟨k0, v0⟩ := e
    simp only [kInsert]
    by_cases c0 : k0 = k
    · subst c0
      simp only [↓reduceIte, kLookup]
      by_cases c : k' = k0
      · subst c; simp
      · have : ¬ k0 = k' := fun h => c h.symm
        simp [c, this]
    · simp only [c0, ↓reduceIte]
      by_cases c1 : lt k k0 = true
      · simp only [c1, ↓reduceIte, kLookup]
        by_cases c : k = k'
        · subst c; simp
        · have : ¬ k' = k := fun h => c h.symm
          simp [c, this]
      · simp only [c1, Bool.false_eq_true, ↓reduceIte, kLookup]
        by_cases c : k0 = k'
        · subst c
          simp [c0]
        · simp only [c, ↓reduceIte]; exact ih

/-- the previous value returned by insert is the lookup (sorted maps) -/
theorem kInsert_prev (so : StrictOrder lt) (m : KMap K) (hs : Sorted lt m) (k : K) (v : Item) :
    (kInsert lt m k v).2 = kLookup m k := by
  induction m with
  | nil => rfl
  | cons e m ih =>
    obtain ⟨k0, v0⟩ := e
    have hs' := List.pairwise_cons.mp hs
    simp only [kInsert, kLookup]
    by_cases c0 : k0 = k
    · simp [c0]
    · simp only [c0, ↓reduceIte]
      by_cases c1 : lt k k0 = true
      · simp only [c1, ↓reduceIte]
        symm
        apply kLookup_none_of_lt so
        intro e he
        exact so.trans _ _ _ c1 (hs'.1 e he)
      · simp only [c1, Bool.false_eq_true, ↓reduceIte]
        exact ih hs'.2

theorem kInsert_keys_mem (m : KMap K) (k : K) (v : Item) (e : K × Item)
    (h : e ∈ (kInsert lt m k v).1) : e = (k, v) ∨ e ∈ m := by
  induction m with
  | nil => simp [kInsert] at h; simp [h]
  | cons e0 m ih =>
    obtain ⟨k0, v0⟩ := e0
    simp only [kInsert] at h
    by_cases c0 : k0 = k
    · simp only [c0, ↓reduceIte] at h
      rcases List.mem_cons.mp h with h | h
      · simp [h]
      · simp [h]
    · simp only [c0, ↓reduceIte] at h
      by_cases c1 : lt k k0 = true
      · simp only [c1, ↓reduceIte] at h
        rcases List.mem_cons.mp h with h | h
        · simp [h]
        · right; exact h
      · simp only [c1, Bool.false_eq_true, ↓reduceIte] at h
        rcases List.mem_cons.mp h with h | h
        · simp [h]
        · rcases ih h with h | h
          · simp [h]
          · right; simp [h]

theorem kInsert_sorted (so : StrictOrder lt) (m : KMap K) (hs : Sorted lt m) (k : K) (v : Item) :
    Sorted lt (kInsert lt m k v).1 := by
  induction m with
  | nil => simp [kInsert, Sorted]
  | cons e m ih =>
    obtain ⟨k0, v0⟩ := e
    have hs' := List.pairwise_cons.mp hs
    simp only [kInsert]
    by_cases c0 : k0 = k
    · subst c0
      simp only [↓reduceIte]
      exact List.pairwise_cons.mpr ⟨hs'.1, hs'.2⟩
    · simp only [c0, ↓reduceIte]
      by_cases c1 : lt k k0 = true
      · simp only [c1, ↓reduceIte]
        refine List.pairwise_cons.mpr ⟨?_, hs⟩
        intro e he
        rcases List.mem_cons.mp he with he | he
        · subst he; exact c1
        · exact so.trans _ _ _ c1 (hs'.1 e he)
      · simp only [c1, Bool.false_eq_true, ↓reduceIte]
        refine List.pairwise_cons.mpr ⟨?_, ih hs'.2⟩
        intro e he
        rcases kInsert_keys_mem m k v e he with he | he
        · subst he
          rcases so.total k0 k with t | t | t
          · exact t
          · exact absurd t c0
          · exact absurd t c1
        · exact hs'.1 e he

theorem countHash_kInsert (so : StrictOrder lt) (m : KMap K) (hs : Sorted lt m) (k : K) (v : Item)
    (h : Bytes) :
    countHash (kInsert lt m k v).1 h + (match kLookup m k with
                                        | some p => if p.hash = h then 1 else 0
                                        | none => 0)
      = countHash m h + (if v.hash = h then 1 else 0) := by
  induction m with
  | nil => simp [kInsert, kLookup, countHash_cons]
  | cons e m ih =>
    obtain ⟨k0, v0⟩ := e
    have hs' := List.pairwise_cons.mp hs
    simp only [kInsert, kLookup]
    by_cases c0 : k0 = k
    · simp only [c0, ↓reduceIte, countHash_cons]; omega
    · simp only [c0, ↓reduceIte]
      by_cases c1 : lt k k0 = true
      · simp only [c1, ↓reduceIte]
        have : kLookup m k = none := by
          apply kLookup_none_of_lt so
          intro e he
          exact so.trans _ _ _ c1 (hs'.1 e he)
        simp only [this, countHash_cons]; omega
      · simp only [c1, Bool.false_eq_true, ↓reduceIte, countHash_cons]
        have := ih hs'.2
        omega

/-! erase -/

theorem kErase_prev (m : KMap K) (k : K) : (kErase m k).2 = kLookup m k := by
  induction m with
  | nil => rfl
  | cons e m ih =>
    obtain ⟨k0, v0⟩ := e
    simp only [kErase, kLookup]
    by_cases c0 : k0 = k
    · simp [c0]
    · simp only [c0, ↓reduceIte]; exact ih

theorem kErase_mem (m : KMap K) (k : K) (e : K × Item) (h : e ∈ (kErase m k).1) : e ∈ m := by
  induction m with
  | nil => simp [kErase] at h
  | cons e0 m ih =>
    obtain ⟨k0, v0⟩ := e0
    simp only [kErase] at h
    by_cases c0 : k0 = k
    · simp only [c0, ↓reduceIte] at h; simp [h]
    · simp only [c0, ↓reduceIte] at h
      rcases List.mem_cons.mp h with h | h
      · simp [h]
      · simp [ih h]

theorem kErase_sorted (m : KMap K) (hs : Sorted lt m) (k : K) : Sorted lt (kErase m k).1 := by
  induction m with
  | nil => simp [kErase, Sorted]
  | cons e m ih =>
    obtain ⟨k0, v0⟩ := e
    have hs' := List.pairwise_cons.mp hs
    simp only [kErase]
    by_cases c0 : k0 = k
    · simp only [c0, ↓reduceIte]; exact hs'.2
    · simp only [c0, ↓reduceIte]
      refine List.pairwise_cons.mpr ⟨?_, ih hs'.2⟩
      intro e he
      exact hs'.1 e (kErase_mem m k e he)

theorem kLookup_kErase (so : StrictOrder lt) (m : KMap K) (hs : Sorted lt m) (k k' : K) :
    kLookup (kErase m k).1 k' = if k' = k then none else kLookup m k' := by
  induction m with
  | nil => simp [kErase, kLookup]
  | cons e m ih =>
    obtain ⟨k0, v0⟩ := e
    have hs' := List.pairwise_cons.mp hs
    simp only [kErase]
    by_cases c0 : k0 = k
    · subst c0
      simp only [↓reduceIte, kLookup]
      by_cases c : k' = k0
      · subst c
        simp only [↓reduceIte]
        apply kLookup_none_of_lt so
        intro e he; exact hs'.1 e he
      · have : ¬ k0 = k' := fun h => c h.symm
        simp [c, this]
    · simp only [c0, ↓reduceIte, kLookup]
      by_cases c : k0 = k'
      · subst c
        have : ¬ k0 = k := c0
        simp [this]
      · simp only [c, ↓reduceIte]; exact ih hs'.2

theorem kErase_absent (m : KMap K) (k : K) (h : kLookup m k = none) : (kErase m k).1 = m := by
  induction m with
  | nil => rfl
  | cons e m ih =>
    obtain ⟨k0, v0⟩ := e
    simp only [kLookup] at h
    by_cases c0 : k0 = k
    · simp [c0] at h
    · simp only [c0, ↓reduceIte] at h
      simp only [kErase, c0, ↓reduceIte, ih h]

theorem countHash_kErase (m : KMap K) (k : K) (h : Bytes) :
    countHash (kErase m k).1 h + (match kLookup m k with
                                  | some p => if p.hash = h then 1 else 0
                                  | none => 0) = countHash m h := by
  induction m with
  | nil => simp [kErase, kLookup]
  | cons e m ih =>
    obtain ⟨k0, v0⟩ := e
    simp only [kErase, kLookup]
    by_cases c0 : k0 = k
    · simp only [c0, ↓reduceIte, countHash_cons]; omega
    · simp only [c0, ↓reduceIte, countHash_cons]
      have := ih
      omega
end

/-! ### refcount association list -/

def rcKeys (rc : RcMap) : List Bytes := rc.map (·.1)

theorem rcGet_rcSet (rc : RcMap) (h : Bytes) (c : Nat) (h' : Bytes) :
    rcGet (rcSet rc h c) h' = if h' = h then some c else rcGet rc h' := by
  induction rc with
  | nil =>
    simp only [rcSet, rcGet]
    by_cases x : h' = h
    · subst x; simp
    · have : ¬ h = h' := fun y => x y.symm
      simp [x, this]
  | cons e rc ih =>
    obtain ⟨h0, c0⟩ := e
    simp only [rcSet]
    by_cases x0 : h0 = h
    · subst x0
      simp only [↓reduceIte, rcGet]
      by_cases x : h' = h0
      · subst x; simp
      · have : ¬ h0 = h' := fun y => x y.symm
        simp [x, this]
    · simp only [x0, ↓reduceIte, rcGet]
      by_cases x : h0 = h'
      · subst x
        have : ¬ h0 = h := x0
        simp [this]
      · simp only [x, ↓reduceIte]; exact ih

theorem rcGet_none_of_not_mem (rc : RcMap) (h : Bytes) (hn : h ∉ rcKeys rc) : rcGet rc h = none := by
  induction rc with
  | nil => rfl
  | cons e rc ih =>
    obtain ⟨h0, c0⟩ := e
    simp only [rcKeys, List.map_cons, List.mem_cons, not_or] at hn
    have : ¬ h0 = h := fun x => hn.1 x.symm
    simp only [rcGet, this, ↓reduceIte]
    exact ih hn.2

theorem rcGet_some_mem (rc : RcMap) (h : Bytes) (c : Nat) (hg : rcGet rc h = some c) :
    h ∈ rcKeys rc := by
  induction rc with
  | nil => cases hg
  | cons e rc ih =>
    obtain ⟨h0, c0⟩ := e
    simp only [rcGet] at hg
    by_cases x : h0 = h
    · simp [rcKeys, x]
    · simp only [x, ↓reduceIte] at hg
      have := ih hg
      simp only [rcKeys] at this ⊢
      simp [this]

theorem rcGet_rcErase (rc : RcMap) (hnd : (rcKeys rc).Nodup) (h h' : Bytes) :
    rcGet (rcErase rc h) h' = if h' = h then none else rcGet rc h' := by
  induction rc with
  | nil => simp [rcErase, rcGet]
  | cons e rc ih =>
    obtain ⟨h0, c0⟩ := e
    simp only [rcKeys, List.map_cons, List.nodup_cons] at hnd
    simp only [rcErase]
    by_cases x0 : h0 = h
    · subst x0
      simp only [↓reduceIte, rcGet]
      by_cases x : h' = h0
      · subst x
        simp only [↓reduceIte]
        exact rcGet_none_of_not_mem rc h' hnd.1
      · have : ¬ h0 = h' := fun y => x y.symm
        simp [x, this]
    · simp only [x0, ↓reduceIte, rcGet]
      by_cases x : h0 = h'
      · subst x
        have : ¬ h0 = h := x0
        simp [this]
      · simp only [x, ↓reduceIte]; exact ih hnd.2

theorem rcKeys_rcSet_mem (rc : RcMap) (h : Bytes) (c : Nat) (hm : h ∈ rcKeys rc) :
    rcKeys (rcSet rc h c) = rcKeys rc := by
  induction rc with
  | nil => simp [rcKeys] at hm
  | cons e rc ih =>
    obtain ⟨h0, c0⟩ := e
    simp only [rcSet]
    by_cases x0 : h0 = h
    · simp [x0, rcKeys]
    · simp only [x0, ↓reduceIte]
      simp only [rcKeys, List.map_cons, List.mem_cons] at hm
      rcases hm with hm | hm
      · exact absurd hm.symm x0
      · have := ih hm
        simp only [rcKeys] at this ⊢
        simp [this]

theorem rcKeys_rcSet_new (rc : RcMap) (h : Bytes) (c : Nat) (hm : h ∉ rcKeys rc) :
    rcKeys (rcSet rc h c) = rcKeys rc ++ [h] := by
  induction rc with
  | nil => simp [rcKeys, rcSet]
  | cons e rc ih =>
    obtain ⟨h0, c0⟩ := e
    simp only [rcKeys, List.map_cons, List.mem_cons, not_or] at hm
    have x0 : ¬ h0 = h := fun x => hm.1 x.symm
    simp only [rcSet, x0, ↓reduceIte]
    have := ih hm.2
    simp only [rcKeys] at this ⊢
    simp [this]

theorem rcKeys_rcErase (rc : RcMap) (h : Bytes) : rcKeys (rcErase rc h) = (rcKeys rc).erase h := by
  induction rc with
  | nil => rfl
  | cons e rc ih =>
    obtain ⟨h0, c0⟩ := e
    simp only [rcErase]
    by_cases x0 : h0 = h
    · subst x0; simp [rcKeys]
    · simp only [x0, ↓reduceIte]
      simp only [rcKeys] at ih ⊢
      simp only [List.map_cons, ih]
      rw [List.erase_cons_tail]
      simpa using x0

theorem sum_map_erase (f : Bytes → Nat) (l : List Bytes) (h : Bytes) (hm : h ∈ l) :
    ((l.erase h).map f).sum + f h = (l.map f).sum := by
  induction l with
  | nil => cases hm
  | cons a l ih =>
    by_cases x : a = h
    · subst x; simp; omega
    · rw [List.erase_cons_tail (by simpa using x)]
      rcases List.mem_cons.mp hm with hm | hm
      · exact absurd hm.symm x
      · have := ih hm
        simp only [List.map_cons, List.sum_cons]
        omega

end CasModel
