import CasModel.Proofs.SegEvents
import CasModel.Proofs.BridgeMap
import CasModel.Proofs.Load
/-
  Simulation: every filesystem event the store issues on its WAL/snapshot files is an action of
  the record-level machine (or leaves its ghost disk unchanged), so that the disk after ANY prefix
  of a script abstracts to a machine state reachable by actions — and therefore recovers, by the
  byte-level `logical`, to the state after the logged history (Bridge + recover_eq).

  `Cfg sys hist d`: machine state `sys` (over key maps, `stepM`) is Good for history `hist`, the
  disk `d` abstracts to `sys.g` (segment files ↔ segment lists, index file ↔ snapshot), every
  logged record is well formed, and every segment at or above the one of the next version is
  unsealed (it may be appended to).
-/
namespace CasModel
open Ghost

/-! ### the snapshot file -/

def indexData (d : Disk) : Option Bytes := (d.get .index).map (·.data)

theorem loadSnapshot_congr (kind : KeyKind) (d d' : Disk) (h : indexData d' = indexData d) :
    loadSnapshot kind d' = loadSnapshot kind d := by
  unfold indexData at h
  unfold loadSnapshot
  cases h1 : d.get .index with
  | none =>
    cases h2 : d'.get .index with
    | none => rfl
    | some f' => simp [h1, h2] at h
  | some f =>
    cases h2 : d'.get .index with
    | none => simp [h1, h2] at h
    | some f' =>
      simp only [h1, h2, Option.map_some, Option.some.injEq] at h
      simp only [h]

/-- events that cannot change the bytes of the index file -/
def Ev.indexFree : Ev → Bool
  | .mkdir _ | .mkdirTree | .flock | .sync _ => true
  | .creat f _ | .write f _ | .unlink f => decide (f ≠ .index)
  | .rename a b => decide (a ≠ .index) && decide (b ≠ .index)

theorem indexData_indexFree (d : Disk) (hw : d.WF) (e : Ev) (h : e.indexFree = true) :
    indexData (d.apply e) = indexData d := by
  unfold indexData
  cases e with
  | mkdir p => rw [Disk.get_mkdir]
  | mkdirTree => rw [Disk.get_mkdirTree]
  | flock => rw [Disk.get_flock]
  | sync f =>
    rw [Disk.get_sync]
    by_cases c : FileId.index = f
    · subst c
      simp only [↓reduceIte]
      cases d.get .index <;> rfl
    · simp [c]
  | creat f t =>
    rw [Disk.get_creat]
    have : ¬ FileId.index = f := by
      intro c; subst c; simp [Ev.indexFree] at h
    simp [this]
  | write f bs =>
    rw [Disk.get_write]
    have : ¬ FileId.index = f := by
      intro c; subst c; simp [Ev.indexFree] at h
    simp [this]
  | unlink f =>
    rw [Disk.get_unlink d hw]
    have : ¬ FileId.index = f := by
      intro c; subst c; simp [Ev.indexFree] at h
    simp [this]
  | rename a b =>
    rw [Disk.get_rename d hw]
    simp only [Ev.indexFree, Bool.and_eq_true, decide_eq_true_eq] at h
    have ha : ¬ FileId.index = a := fun c => h.1 c.symm
    have hb : ¬ FileId.index = b := fun c => h.2 c.symm
    cases d.get a <;> simp [ha, hb]

/-- the index file loads to a state in the invariant with this key map and version
    (no index file: the empty state, version 0) -/
def SnapRel (kind : KeyKind) (sz : Bytes → Nat) (d : Disk) (ver : Nat) (snap : KMap Bytes) : Prop :=
  ∃ s, loadSnapshot kind d = .ok s ∧ s.map = snap ∧ s.lastPersisted = ver ∧ IdxInv kind.lt sz s

structure DiskRel (H : Bytes → Bytes) (kind : KeyKind) (sz : Bytes → Nat) (d : Disk)
    (g : GDisk (KMap Bytes) Bytes) : Prop where
  wf : d.WF
  segs : SegRel H d g.segs
  snap : SnapRel kind sz d g.snapVer g.snapState

theorem run_stepM_total (kind : KeyKind) (sz : Bytes → Nat) (hist : Recs Bytes) (m : KMap Bytes)
    (h : ∀ e ∈ hist, RecOK kind sz e.2) : ∃ st, run (stepM kind) m hist = .ok st := by
  induction hist generalizing m with
  | nil => exact ⟨m, rfl⟩
  | cons e hist ih =>
    obtain ⟨v, p⟩ := e
    obtain ⟨raw, op, h1, h2, _⟩ := h (v, p) (by simp)
    simp only [run, stepM, h1, h2]
    exact ih _ (fun e he => h e (by simp [he]))

/-- **recovery of an abstracting disk.** If the disk abstracts to a ghost disk that is in the WAL
    invariant for a history of well-formed records, byte-level recovery succeeds without panic,
    its key map is the ordered-map replay of the whole history, the recovered state satisfies the
    index invariant, and the next version is above every version ever logged. -/
theorem diskRel_recovers (H : Bytes → Bytes) (hH : Hash32 H) (kind : KeyKind)
    (so : StrictOrder kind.lt) (sz : Bytes → Nat) (N : Nat) (d : Disk)
    (g : GDisk (KMap Bytes) Bytes) (rel : DiskRel H kind sz d g) (hist : Recs Bytes)
    (ginv : GInv (stepM kind) [] N hist g) (hok : ∀ e ∈ hist, RecOK kind sz e.2) :
    ∃ a, logical H kind d = .ok a ∧ run (stepM kind) [] hist = .ok a.idx.map ∧
      IdxInv kind.lt sz a.idx ∧ (∀ e ∈ hist, e.1 ≤ a.highest) ∧ g.snapVer ≤ a.highest ∧
      a.idx.lastPersisted = g.snapVer ∧ recover (stepM kind) g = .ok (a.idx.map, a.highest + 1) := by
  obtain ⟨s, hl, hm, hv, hinv⟩ := rel.snap
  have hsegs := segRel_abs H hH d rel.wf g.segs rel.segs
  have habs : absDisk H kind d = some ⟨s.lastPersisted, s, g.segs⟩ := by
    simp [absDisk, hl, hsegs]
  have hrecs : ∀ e ∈ flat g.segs, s.lastPersisted < e.1 → RecOK kind sz e.2 := by
    intro e he hlt
    have : e ∈ above g.snapVer (flat g.segs) := by
      simp only [above, List.mem_filter, decide_eq_true_eq]
      exact ⟨he, by rw [← hv]; exact hlt⟩
    rw [ginv.recs] at this
    simp only [above, List.mem_filter] at this
    exact hok e this.1
  obtain ⟨a, ha, hai, har, halp⟩ := logical_map_eq_recover H kind so sz d ⟨s.lastPersisted, s, g.segs⟩
    habs hinv hrecs
  obtain ⟨st, hst⟩ := run_stepM_total kind sz hist [] hok
  obtain ⟨next, hr, h1, _, h3⟩ := recover_eq (stepM kind) [] N hist g ginv st hst
  have hg : (⟨s.lastPersisted, s.map, g.segs⟩ : GDisk (KMap Bytes) Bytes) = g := by
    cases g; simp_all
  simp only at har halp
  rw [hg] at har
  have har2 := har
  rw [hr] at har
  simp only [Except.ok.injEq, Prod.mk.injEq] at har
  refine ⟨a, ha, by rw [hst, har.1], hai, ?_, by omega, by rw [halp, hv], har2⟩
  intro e he
  have := h1 e he
  omega

/-! ### configurations -/

/-- disk-level configuration (holds whether or not a handle is open): machine state `sys` is Good
    for `hist`, the disk abstracts to `sys.g`, every logged record is well formed, and a segment
    file carries a sentinel only if a version beyond that segment has been logged -/
structure DCfg (H : Bytes → Bytes) (kind : KeyKind) (sz : Bytes → Nat) (N : Nat)
    (sys : Sys (KMap Bytes) Bytes) (hist : Recs Bytes) (d : Disk) : Prop where
  good : Good (stepM kind) [] N hist sys
  rel : DiskRel H kind sz d sys.g
  histOK : ∀ e ∈ hist, RecOK kind sz e.2
  unsealed : ∀ i recs, segGet sys.g.segs i = some recs →
    SegFile H d i recs 0 ∨ ∃ e ∈ hist, i < Ghost.segOf N (e.1 + 1)

/-- configuration with an open handle -/
structure Cfg (H : Bytes → Bytes) (kind : KeyKind) (sz : Bytes → Nat) (N : Nat)
    (sys : Sys (KMap Bytes) Bytes) (hist : Recs Bytes) (d : Disk) : Prop
    extends DCfg H kind sz N sys hist d where
  up : sys.up = true

/-- every segment at or above the one of a version beyond the whole history is unsealed -/
theorem DCfg.unsealedAt (H : Bytes → Bytes) (kind : KeyKind) (sz : Bytes → Nat) (N : Nat)
    (sys : Sys (KMap Bytes) Bytes) (hist : Recs Bytes) (d : Disk) (c : DCfg H kind sz N sys hist d)
    (nx : Nat) (hnx : ∀ e ∈ hist, e.1 < nx) (i : Nat) (recs : Recs Bytes)
    (hi : Ghost.segOf N nx ≤ i) (hg : segGet sys.g.segs i = some recs) : SegFile H d i recs 0 := by
  rcases c.unsealed i recs hg with h | ⟨e, he, hlt⟩
  · exact h
  · have := hnx e he
    have : Ghost.segOf N (e.1 + 1) ≤ Ghost.segOf N nx := segOf_mono N (by omega)
    omega

theorem Cfg.unsealedNext (H : Bytes → Bytes) (kind : KeyKind) (sz : Bytes → Nat) (N : Nat)
    (sys : Sys (KMap Bytes) Bytes) (hist : Recs Bytes) (d : Disk) (c : Cfg H kind sz N sys hist d)
    (i : Nat) (recs : Recs Bytes) (hi : Ghost.segOf N sys.next ≤ i)
    (hg : segGet sys.g.segs i = some recs) : SegFile H d i recs 0 :=
  c.toDCfg.unsealedAt H kind sz N sys hist d sys.next (c.good.mem c.up).2.1 i recs hi hg

/-- a crash image that recovers to `hist`: what a process kill leaves when the disk is `d` -/
theorem DCfg.recovers (H : Bytes → Bytes) (hH : Hash32 H) (kind : KeyKind)
    (so : StrictOrder kind.lt) (sz : Bytes → Nat) (N : Nat) (sys : Sys (KMap Bytes) Bytes)
    (hist : Recs Bytes) (d : Disk) (c : DCfg H kind sz N sys hist d) :
    ∃ a, logical H kind d = .ok a ∧ run (stepM kind) [] hist = .ok a.idx.map ∧
      IdxInv kind.lt sz a.idx ∧ (∀ e ∈ hist, e.1 ≤ a.highest) ∧ sys.g.snapVer ≤ a.highest ∧
      a.idx.lastPersisted = sys.g.snapVer ∧
      recover (stepM kind) sys.g = .ok (a.idx.map, a.highest + 1) :=
  diskRel_recovers H hH kind so sz N d sys.g c.rel hist c.good.ginv c.histOK

theorem Cfg.recovers (H : Bytes → Bytes) (hH : Hash32 H) (kind : KeyKind)
    (so : StrictOrder kind.lt) (sz : Bytes → Nat) (N : Nat) (sys : Sys (KMap Bytes) Bytes)
    (hist : Recs Bytes) (d : Disk) (c : Cfg H kind sz N sys hist d) :
    ∃ a, logical H kind d = .ok a ∧ run (stepM kind) [] hist = .ok a.idx.map ∧
      IdxInv kind.lt sz a.idx ∧ (∀ e ∈ hist, e.1 ≤ a.highest) :=
  let ⟨a, h1, h2, h3, h4, _, _, _⟩ := c.toDCfg.recovers H hH kind so sz N sys hist d
  ⟨a, h1, h2, h3, h4⟩

/-- events on files other than segments and the index leave the configuration alone -/
theorem DCfg.free (H : Bytes → Bytes) (kind : KeyKind) (sz : Bytes → Nat) (N : Nat)
    (sys : Sys (KMap Bytes) Bytes) (hist : Recs Bytes) (d : Disk) (c : DCfg H kind sz N sys hist d)
    (e : Ev) (h1 : e.segFree = true) (h2 : e.indexFree = true) :
    DCfg H kind sz N sys hist (d.apply e) := by
  refine ⟨c.good, ⟨Disk.apply_WF d c.rel.wf e, c.rel.segs.segFree H d c.rel.wf _ e h1, ?_⟩,
    c.histOK, ?_⟩
  · obtain ⟨s, a, b⟩ := c.rel.snap
    exact ⟨s, by rw [loadSnapshot_congr kind d _ (indexData_indexFree d c.rel.wf e h2)]; exact a, b⟩
  · intro i recs hg
    rcases c.unsealed i recs hg with h | h
    · exact Or.inl (h.of_data H d _ i recs 0 (segData_segFree d c.rel.wf e h1 i))
    · exact Or.inr h

theorem Cfg.free (H : Bytes → Bytes) (kind : KeyKind) (sz : Bytes → Nat) (N : Nat)
    (sys : Sys (KMap Bytes) Bytes) (hist : Recs Bytes) (d : Disk) (c : Cfg H kind sz N sys hist d)
    (e : Ev) (h1 : e.segFree = true) (h2 : e.indexFree = true) :
    Cfg H kind sz N sys hist (d.apply e) :=
  ⟨c.toDCfg.free H kind sz N sys hist d e h1 h2, c.up⟩

theorem DCfg.freeAll (H : Bytes → Bytes) (kind : KeyKind) (sz : Bytes → Nat) (N : Nat)
    (sys : Sys (KMap Bytes) Bytes) (hist : Recs Bytes) (d : Disk) (c : DCfg H kind sz N sys hist d)
    (evs : List Ev) (h : ∀ e ∈ evs, e.segFree = true ∧ e.indexFree = true) :
    DCfg H kind sz N sys hist (d.applyAll evs) := by
  induction evs generalizing d with
  | nil => exact c
  | cons e evs ih =>
    rw [Disk.applyAll_cons]
    exact ih _ (c.free H kind sz N sys hist d e (h e (by simp)).1 (h e (by simp)).2)
      (fun e' he' => h e' (by simp [he']))

theorem Cfg.freeAll (H : Bytes → Bytes) (kind : KeyKind) (sz : Bytes → Nat) (N : Nat)
    (sys : Sys (KMap Bytes) Bytes) (hist : Recs Bytes) (d : Disk) (c : Cfg H kind sz N sys hist d)
    (evs : List Ev) (h : ∀ e ∈ evs, e.segFree = true ∧ e.indexFree = true) :
    Cfg H kind sz N sys hist (d.applyAll evs) :=
  ⟨c.toDCfg.freeAll H kind sz N sys hist d evs h, c.up⟩

end CasModel

namespace CasModel
open Ghost

variable (H : Bytes → Bytes) (kind : KeyKind) (sz : Bytes → Nat) (N : Nat)

theorem snapRel_segEvent (d : Disk) (hw : d.WF) (e : Ev) (h : e.indexFree = true) (ver : Nat)
    (snap : KMap Bytes) (r : SnapRel kind sz d ver snap) : SnapRel kind sz (d.apply e) ver snap := by
  obtain ⟨s, a, b⟩ := r
  exact ⟨s, by rw [loadSnapshot_congr kind d _ (indexData_indexFree d hw e h)]; exact a, b⟩

/-- sealing a segment that a logged version has moved beyond -/
theorem Cfg.seal (sys : Sys (KMap Bytes) Bytes) (hist : Recs Bytes) (d : Disk)
    (c : Cfg H kind sz N sys hist d) (a : Nat) (ha : ∃ e ∈ hist, a < Ghost.segOf N (e.1 + 1)) :
    Cfg H kind sz N sys hist (d.apply (.write (.seg a) sentinel)) := by
  refine ⟨⟨c.good, ⟨Disk.apply_WF d c.rel.wf _, c.rel.segs.seal H d _ a,
    snapRel_segEvent kind sz d c.rel.wf _ (by simp [Ev.indexFree]) _ _ c.rel.snap⟩, c.histOK, ?_⟩, c.up⟩
  intro i recs hg
  by_cases ci : i = a
  · subst ci; exact Or.inr ha
  · rcases c.unsealed i recs hg with h | h
    · left
      apply h.of_data H d _ i recs 0
      rw [segData_write]; simp [ci]
    · exact Or.inr h

/-- creating the segment file of the next version (fresh, or opening it without truncation)
    = `ensure` -/
theorem Cfg.ensure (sys : Sys (KMap Bytes) Bytes) (hist : Recs Bytes) (d : Disk)
    (c : Cfg H kind sz N sys hist d) (trunc : Bool)
    (htr : trunc = false ∨ segData d (Ghost.segOf N sys.next) = none) :
    ∃ sys', act (stepM kind) N sys .ensure = some sys' ∧ sys'.next = sys.next ∧ sys'.st = sys.st ∧
      sys'.g.snapVer = sys.g.snapVer ∧
      Cfg H kind sz N sys' hist (d.apply (.creat (.seg (Ghost.segOf N sys.next)) trunc)) ∧
      (∃ old, segGet sys'.g.segs (Ghost.segOf N sys.next) = some old) := by
  have hact : act (stepM kind) N sys .ensure = some
      { sys with g := { sys.g with segs := segInsert sys.g.segs (Ghost.segOf N sys.next) none } } := by
    simp [act, c.up]
  refine ⟨_, hact, rfl, rfl, rfl, ?_, ?_⟩
  · have good' := act_good (stepM kind) [] N hist sys _ c.good .ensure hact
    refine ⟨⟨good', ⟨Disk.apply_WF d c.rel.wf _,
      c.rel.segs.creat H d _ (Ghost.segOf N sys.next) trunc htr,
      snapRel_segEvent kind sz d c.rel.wf _ (by simp [Ev.indexFree]) _ _ c.rel.snap⟩, c.histOK, ?_⟩, c.up⟩
    intro i recs hg
    simp only at hg
    rw [segGet_segInsert _ c.rel.segs.sorted] at hg
    by_cases ci : i = Ghost.segOf N sys.next
    · subst ci
      simp only [↓reduceIte, Option.toList_none, List.append_nil, Option.some.injEq] at hg
      left
      cases hs : segGet sys.g.segs (Ghost.segOf N sys.next) with
      | none =>
        have hn : segData d (Ghost.segOf N sys.next) = none := by
          have := c.rel.segs.get_isSome H d _ (Ghost.segOf N sys.next)
          rw [hs, has_seg_iff] at this
          cases hx : segData d (Ghost.segOf N sys.next) with
          | none => rfl
          | some x => simp [hx] at this
        refine (segFile_iff H _ _ recs 0).mpr ⟨[], ?_, by simp, ?_⟩
        · rw [segData_creat]; simp [hn, encodeAll, zeros]
        · rw [← hg, hs]; rfl
      | some old =>
        have hk := c.unsealedNext H kind sz N sys hist d _ old (Nat.le_refl _) hs
        obtain ⟨rs, h1, h2, h3⟩ := (segFile_iff H d _ old 0).mp hk
        have htr' : trunc = false := by
          rcases htr with h | h
          · exact h
          · rw [h1] at h; cases h
        refine (segFile_iff H _ _ recs 0).mpr ⟨rs, ?_, h2, ?_⟩
        · rw [segData_creat]; simp [h1, htr']
        · rw [← hg, hs]; simpa using h3
    · simp only [ci, ↓reduceIte] at hg
      rcases c.unsealed i recs hg with h | h
      · left
        apply h.of_data H d _ i recs 0
        rw [segData_creat]; simp [ci]
      · exact Or.inr h
  · simp only
    rw [segGet_segInsert _ c.rel.segs.sorted]
    simp

/-- appending the framed record of the next version to its (unsealed, existing) segment = `append` -/
theorem Cfg.append (hH : Hash32 H) (sys : Sys (KMap Bytes) Bytes) (hist : Recs Bytes) (d : Disk)
    (c : Cfg H kind sz N sys hist d) (p : Bytes) (hp : RecOK kind sz p)
    (hwf : (⟨sys.next, p⟩ : Rec).WF) (old : Recs Bytes)
    (hold : segGet sys.g.segs (Ghost.segOf N sys.next) = some old) :
    ∃ sys', act (stepM kind) N sys (.append p) = some sys' ∧ sys'.next = sys.next + 1 ∧
      stepM kind sys.st p = .ok sys'.st ∧ sys'.g.snapVer = sys.g.snapVer ∧
      segGet sys'.g.segs (Ghost.segOf N sys.next) = some (old ++ [(sys.next, p)]) ∧
      Cfg H kind sz N sys' (hist ++ [(sys.next, p)])
        (d.apply (.write (.seg (Ghost.segOf N sys.next)) (encodeEntry H ⟨sys.next, p⟩))) := by
  obtain ⟨raw, op, h1, h2, h3⟩ := hp
  have hstep : stepM kind sys.st p = .ok (mapApply kind.lt sys.st op) := by simp [stepM, h1, h2]
  have hact : act (stepM kind) N sys (.append p) = some
      { sys with g := { sys.g with segs := segInsert sys.g.segs (Ghost.segOf N sys.next) (some (sys.next, p)) },
                 st := mapApply kind.lt sys.st op, next := sys.next + 1 } := by
    simp [act, c.up, hstep]
  have good' := act_good (stepM kind) [] N hist sys _ c.good (.append p) hact
  have hk := c.unsealedNext H kind sz N sys hist d _ old (Nat.le_refl _) hold
  obtain ⟨r1, r2⟩ := c.rel.segs.append H d _ (Ghost.segOf N sys.next) ⟨sys.next, p⟩ hwf old hold hk
  refine ⟨_, hact, rfl, hstep, rfl, ?_, ?_⟩
  · simp only
    rw [segGet_segInsert _ c.rel.segs.sorted]
    simp [hold]
  refine ⟨⟨good', ⟨Disk.apply_WF d c.rel.wf _, r1,
      snapRel_segEvent kind sz d c.rel.wf _ (by simp [Ev.indexFree]) _ _ c.rel.snap⟩, ?_, ?_⟩, c.up⟩
  · intro e he
    rcases List.mem_append.mp he with he | he
    · exact c.histOK e he
    · simp only [List.mem_singleton] at he; subst he; exact ⟨raw, op, h1, h2, h3⟩
  · intro i recs hg
    simp only at hg
    rw [segGet_segInsert _ c.rel.segs.sorted] at hg
    by_cases ci : i = Ghost.segOf N sys.next
    · subst ci
      simp only [↓reduceIte, hold, Option.getD_some, Option.toList_some, Option.some.injEq] at hg
      subst hg
      exact Or.inl r2
    · simp only [ci, ↓reduceIte] at hg
      rcases c.unsealed i recs hg with h | ⟨e, he, hlt⟩
      · left
        apply h.of_data H d _ i recs 0
        rw [segData_write]; simp [ci]
      · exact Or.inr ⟨e, by simp [he], hlt⟩

/-- unlinking a segment below the one of the snapshot version = `prune` -/
theorem Cfg.prune (sys : Sys (KMap Bytes) Bytes) (hist : Recs Bytes) (d : Disk)
    (c : Cfg H kind sz N sys hist d) (j : Nat) (hj : j < Ghost.segOf N sys.g.snapVer) :
    ∃ sys', act (stepM kind) N sys (.prune j) = some sys' ∧ sys'.next = sys.next ∧ sys'.st = sys.st ∧
      sys'.g.snapVer = sys.g.snapVer ∧
      Cfg H kind sz N sys' hist (d.apply (.unlink (.seg j))) := by
  have hact : act (stepM kind) N sys (.prune j) = some
      { sys with g := { sys.g with segs := removeSeg sys.g.segs j } } := by
    simp [act, hj]
  have good' := act_good (stepM kind) [] N hist sys _ c.good (.prune j) hact
  refine ⟨_, hact, rfl, rfl, rfl, ⟨good', ⟨Disk.apply_WF d c.rel.wf _,
      c.rel.segs.unlink H d c.rel.wf _ j,
      snapRel_segEvent kind sz d c.rel.wf _ (by simp [Ev.indexFree]) _ _ c.rel.snap⟩, c.histOK, ?_⟩, c.up⟩
  intro i recs hg
  simp only at hg
  rw [segGet_removeSeg _ c.rel.segs.sorted] at hg
  by_cases ci : i = j
  · simp [ci] at hg
  · simp only [ci, ↓reduceIte] at hg
    rcases c.unsealed i recs hg with h | h
    · left
      apply h.of_data H d _ i recs 0
      rw [segData_unlink d c.rel.wf]; simp [ci]
    · exact Or.inr h

/-- renaming a complete image of the in-memory index over the index file = `install` -/
theorem Cfg.install (so : StrictOrder kind.lt) (sys : Sys (KMap Bytes) Bytes) (hist : Recs Bytes)
    (d : Disk) (c : Cfg H kind sz N sys hist d) (s : IndexState Bytes)
    (hinv : IdxInv kind.lt sz s) (hmap : s.map = sys.st) (hn : 1 < sys.next)
    (sv : Saveable kind s (sys.next - 1)) (synced : Nat)
    (htmp : d.get .indexTmp = some ⟨serIndex (entriesOf s.map) (sys.next - 1), synced⟩) :
    ∃ sys', act (stepM kind) N sys .install = some sys' ∧ sys'.next = sys.next ∧ sys'.st = sys.st ∧
      sys'.g.snapVer = sys.next - 1 ∧ sys'.g.segs = sys.g.segs ∧
      Cfg H kind sz N sys' hist (d.apply (.rename .indexTmp .index)) := by
  have hact : act (stepM kind) N sys .install = some
      { sys with g := { sys.g with snapVer := sys.next - 1, snapState := sys.st } } := by
    simp [act, c.up, hn]
  have good' := act_good (stepM kind) [] N hist sys _ c.good .install hact
  have hidx : (d.apply (.rename .indexTmp .index)).get .index =
      some ⟨serIndex (entriesOf s.map) (sys.next - 1), synced⟩ := by
    rw [Disk.get_rename d c.rel.wf, htmp]; simp
  obtain ⟨r, l1, l2, _, l4, _, _, _, l8⟩ := load_saved kind so sz s hinv (sys.next - 1) sv _ synced hidx
  have hseg : ∀ i, segData (d.apply (.rename .indexTmp .index)) i = segData d i :=
    segData_segFree d c.rel.wf _ (by simp [Ev.segFree])
  refine ⟨_, hact, rfl, rfl, rfl, rfl, ⟨good', ⟨Disk.apply_WF d c.rel.wf _,
      c.rel.segs.of_data H d _ _ hseg, ⟨r, l1, by rw [l2, hmap], l4, l8⟩⟩, c.histOK, ?_⟩, c.up⟩
  intro i recs hg
  rcases c.unsealed i recs hg with h | h
  · exact Or.inl (h.of_data H d _ i recs 0 (hseg i))
  · exact Or.inr h

end CasModel
