import CasModel.Proofs.ConcLocks
import CasModel.Proofs.IndexInv
/-
  Basic lemmas for the interleaving invariant: association-list CAS, protection counts,
  per-hash demand ("need") of the threads inside their commit window.
-/
namespace CasModel.Conc
open CasModel

/-! ### CAS as an association list -/

theorem casGet_casDel (c : List (Bytes × Bytes)) (h g : Bytes) :
    casGet (casDel c h) g = if g = h then none else casGet c g := by
  induction c with
  | nil => simp [casDel, casGet]
  | cons e c ih =>
    obtain ⟨h0, x⟩ := e
    simp only [casDel, List.filter_cons] at ih ⊢
    by_cases c0 : h0 = h
    · subst c0
      simp only [ne_eq, not_true_eq_false, decide_false, Bool.false_eq_true, ↓reduceIte, casGet]
      rw [ih]
      by_cases c1 : g = h0
      · simp [c1]
      · have : ¬ h0 = g := fun e => c1 e.symm
        simp [c1, this]
    · simp only [ne_eq, c0, not_false_eq_true, decide_true, ↓reduceIte, casGet]
      by_cases c1 : h0 = g
      · subst c1; simp [c0]
      · simp only [c1, ↓reduceIte]; exact ih

theorem casGet_append (a b : List (Bytes × Bytes)) (g : Bytes) :
    casGet (a ++ b) g = match casGet a g with | some x => some x | none => casGet b g := by
  induction a with
  | nil => simp [casGet]
  | cons e a ih =>
    obtain ⟨h0, x⟩ := e
    simp only [List.cons_append, casGet]
    by_cases c : h0 = g <;> simp [c, ih]

theorem casGet_casPut (c : List (Bytes × Bytes)) (h x g : Bytes) :
    casGet (casPut c h x) g = if g = h then some x else casGet c g := by
  unfold casPut
  rw [casGet_append, casGet_casDel]
  by_cases c1 : g = h
  · subst c1; simp [casGet]
  · have : ¬ h = g := fun e => c1 e.symm
    simp only [c1, ↓reduceIte, casGet, this]
    cases casGet c g <;> rfl

/-! ### protection counts -/

theorem protCount_protect (p : List (Bytes × Nat)) (h g : Bytes) :
    protCount (protect p h) g = if g = h then protCount p h + 1 else protCount p g := by
  unfold protect protCount
  rw [rcGet_rcSet]
  by_cases c : g = h <;> simp [c]

theorem protCount_unprotect (p : List (Bytes × Nat)) (hnd : (rcKeys p).Nodup) (h g : Bytes) :
    protCount (unprotect p h) g = if g = h then protCount p h - 1 else protCount p g := by
  unfold unprotect
  by_cases c1 : protCount p h ≤ 1
  · simp only [c1, ↓reduceIte]
    unfold protCount at *
    rw [rcGet_rcErase p hnd]
    by_cases c : g = h
    · subst c; simp; omega
    · simp [c]
  · simp only [c1, ↓reduceIte]
    unfold protCount at *
    rw [rcGet_rcSet]
    by_cases c : g = h <;> simp [c]

theorem protect_nodup (p : List (Bytes × Nat)) (hnd : (rcKeys p).Nodup) (h : Bytes) :
    (rcKeys (protect p h)).Nodup := by
  unfold protect
  by_cases hm : h ∈ rcKeys p
  · rw [rcKeys_rcSet_mem p h _ hm]; exact hnd
  · rw [rcKeys_rcSet_new p h _ hm]
    exact List.nodup_append.mpr ⟨hnd, by simp, by
      intro a ha b hb; simp at hb; subst hb; intro e; subst e; exact hm ha⟩

theorem unprotect_nodup (p : List (Bytes × Nat)) (hnd : (rcKeys p).Nodup) (h : Bytes) :
    (rcKeys (unprotect p h)).Nodup := by
  unfold unprotect
  split
  · rw [rcKeys_rcErase]; exact hnd.erase h
  · by_cases hm : h ∈ rcKeys p
    · rw [rcKeys_rcSet_mem p h _ hm]; exact hnd
    · rw [rcKeys_rcSet_new p h _ hm]
      exact List.nodup_append.mpr ⟨hnd, by simp, by
        intro a ha b hb; simp at hb; subst hb; intro e; subst e; exact hm ha⟩

/-! ### demand for protection -/

/-- the hash a thread needs protected: from its registration until its commit is applied -/
def window (H : Bytes → Bytes) : Pc → Option Bytes
  | .putRename _ c => some (H c)
  | .apIntents _ (some (_, h)) _ => some h
  | .apState _ (some (_, h)) _ => some h
  | .apWal _ (some (_, h)) _ => some h
  | _ => none

def weight (H : Bytes → Bytes) (h : Bytes) (pc : Pc) : Nat := if window H pc = some h then 1 else 0

def need (H : Bytes → Bytes) (ths : List Thread) (h : Bytes) : Nat :=
  (ths.map (fun th => weight H h th.pc)).sum

theorem need_set (H : Bytes → Bytes) (ths : List Thread) (t : Nat) (th th' : Thread) (h : Bytes)
    (hth : ths[t]? = some th) :
    need H (ths.set t th') h + weight H h th.pc = need H ths h + weight H h th'.pc := by
  induction ths generalizing t with
  | nil => simp at hth
  | cons a ths ih =>
    cases t with
    | zero =>
      simp at hth; subst hth
      simp [need, List.set]; omega
    | succ t =>
      simp at hth
      have := ih t hth
      simp only [need, List.set, List.map_cons, List.sum_cons] at this ⊢
      omega

theorem need_ge_weight (H : Bytes → Bytes) (ths : List Thread) (t : Nat) (th : Thread) (h : Bytes)
    (hth : ths[t]? = some th) : weight H h th.pc ≤ need H ths h := by
  induction ths generalizing t with
  | nil => simp at hth
  | cons a ths ih =>
    cases t with
    | zero => simp at hth; subst hth; simp [need]
    | succ t =>
      simp at hth
      have := ih t hth
      simp only [need, List.map_cons, List.sum_cons] at this ⊢
      omega

end CasModel.Conc
