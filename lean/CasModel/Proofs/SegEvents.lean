import CasModel.Proofs.SegAbs
/-
  SegEvents: effect of each filesystem event on the segment-file abstraction.
  `segData d i` = bytes of `<i>_index.wal` (none: no such file). Every event changes `segData` in
  one of five ways; `SegRel` follows the machine's `segInsert` / `removeSeg` accordingly.
-/
namespace CasModel
open Ghost

def segData (d : Disk) (i : Nat) : Option Bytes := (d.get (.seg i)).map (·.data)

/-- events that cannot touch a segment file -/
def Ev.segFree : Ev → Bool
  | .mkdir _ | .mkdirTree | .flock | .sync _ => true
  | .creat f _ | .write f _ | .unlink f => match f with | .seg _ => false | _ => true
  | .rename a b => (match a with | .seg _ => false | _ => true) && (match b with | .seg _ => false | _ => true)

theorem segData_segFree (d : Disk) (hw : d.WF) (e : Ev) (h : e.segFree = true) (i : Nat) :
    segData (d.apply e) i = segData d i := by
  unfold segData
  cases e with
  | mkdir p => rw [Disk.get_mkdir]
  | mkdirTree => rw [Disk.get_mkdirTree]
  | flock => rw [Disk.get_flock]
  | sync f =>
    rw [Disk.get_sync]
    by_cases c : FileId.seg i = f
    · subst c
      simp only [↓reduceIte]
      cases d.get (.seg i) <;> rfl
    · simp [c]
  | creat f t =>
    rw [Disk.get_creat]
    have : ¬ FileId.seg i = f := by
      intro c; subst c; simp [Ev.segFree] at h
    simp [this]
  | write f bs =>
    rw [Disk.get_write]
    have : ¬ FileId.seg i = f := by
      intro c; subst c; simp [Ev.segFree] at h
    simp [this]
  | unlink f =>
    rw [Disk.get_unlink d hw]
    have : ¬ FileId.seg i = f := by
      intro c; subst c; simp [Ev.segFree] at h
    simp [this]
  | rename a b =>
    rw [Disk.get_rename d hw]
    have ha : ¬ FileId.seg i = a := by
      intro c; subst c; simp [Ev.segFree] at h
    have hb : ¬ FileId.seg i = b := by
      intro c; subst c; simp [Ev.segFree] at h
    cases d.get a <;> simp [ha, hb]

theorem segData_creat (d : Disk) (t : Nat) (trunc : Bool) (i : Nat) :
    segData (d.apply (.creat (.seg t) trunc)) i =
      if i = t then (match segData d t with
                     | none => some []
                     | some x => if trunc then some [] else some x)
      else segData d i := by
  unfold segData
  rw [Disk.get_creat]
  by_cases c : i = t
  · subst c
    simp only [↓reduceIte]
    cases d.get (.seg i) with
    | none => rfl
    | some x => cases trunc <;> rfl
  · have : ¬ FileId.seg i = FileId.seg t := by simpa using c
    simp [c, this]

theorem segData_write (d : Disk) (t : Nat) (bs : Bytes) (i : Nat) :
    segData (d.apply (.write (.seg t) bs)) i =
      if i = t then (segData d t).map (· ++ bs) else segData d i := by
  unfold segData
  rw [Disk.get_write]
  by_cases c : i = t
  · subst c
    simp only [↓reduceIte]
    cases d.get (.seg i) <;> rfl
  · have : ¬ FileId.seg i = FileId.seg t := by simpa using c
    simp [c, this]

theorem segData_unlink (d : Disk) (hw : d.WF) (j i : Nat) :
    segData (d.apply (.unlink (.seg j))) i = if i = j then none else segData d i := by
  unfold segData
  rw [Disk.get_unlink d hw]
  by_cases c : i = j
  · subst c; simp
  · have : ¬ FileId.seg i = FileId.seg j := by simpa using c
    simp [c, this]

/-! `SegFile` and `SegRel` only look at `segData` -/

theorem segFile_iff (H : Bytes → Bytes) (d : Disk) (i : Nat) (recs : Recs Bytes) (k : Nat) :
    SegFile H d i recs k ↔
      ∃ rs, segData d i = some (encodeAll H rs ++ zeros k) ∧ (∀ r ∈ rs, r.WF) ∧ toPairs rs = recs := by
  unfold SegFile segData
  constructor
  · rintro ⟨f, rs, h1, h2, h3, h4⟩
    exact ⟨rs, by rw [h1]; simp [h2], h3, h4⟩
  · rintro ⟨rs, h1, h3, h4⟩
    cases hg : d.get (.seg i) with
    | none => simp [hg] at h1
    | some f =>
      simp only [hg, Option.map_some, Option.some.injEq] at h1
      exact ⟨f, rs, rfl, h1, h3, h4⟩

theorem has_seg_iff (d : Disk) (i : Nat) : d.has (.seg i) = (segData d i).isSome := by
  unfold Disk.has segData Disk.get
  cases fget d.files (.seg i) <;> rfl

theorem SegRel.of_data (H : Bytes → Bytes) (d d' : Disk) (segs : List (Nat × Recs Bytes))
    (r : SegRel H d segs) (h : ∀ i, segData d' i = segData d i) : SegRel H d' segs := by
  apply r.frame H d d' segs
  intro i
  exact h i

theorem SegRel.segFree (H : Bytes → Bytes) (d : Disk) (hw : d.WF) (segs : List (Nat × Recs Bytes))
    (r : SegRel H d segs) (e : Ev) (h : e.segFree = true) : SegRel H (d.apply e) segs :=
  r.of_data H d _ segs (segData_segFree d hw e h)

/-- creating a segment file (fresh, or opening an existing one without truncation) -/
theorem SegRel.creat (H : Bytes → Bytes) (d : Disk) (segs : List (Nat × Recs Bytes))
    (r : SegRel H d segs) (t : Nat) (trunc : Bool) (h : trunc = false ∨ segData d t = none) :
    SegRel H (d.apply (.creat (.seg t) trunc)) (segInsert segs t none) := by
  apply SegRel.of_get H _ _ (segInsert_sorted segs r.sorted t none)
  · intro i
    rw [segGet_segInsert segs r.sorted, has_seg_iff, segData_creat]
    by_cases c : i = t
    · subst c
      simp only [↓reduceIte, Option.isSome_some]
      cases segData d i with
      | none => rfl
      | some x => cases trunc <;> rfl
    · simp only [c, ↓reduceIte]
      rw [r.get_isSome H d segs i, has_seg_iff]
  · intro i recs hg
    rw [segGet_segInsert segs r.sorted] at hg
    by_cases c : i = t
    · subst c
      simp only [↓reduceIte, Option.toList_none, List.append_nil, Option.some.injEq] at hg
      cases hs : segGet segs i with
      | none =>
        -- no such segment before: the file is new and empty
        have hn : segData d i = none := by
          have := r.get_isSome H d segs i
          rw [hs, has_seg_iff] at this
          cases hx : segData d i with
          | none => rfl
          | some x => simp [hx] at this
        refine ⟨0, (segFile_iff H _ i recs 0).mpr ⟨[], ?_, by simp, ?_⟩⟩
        · rw [segData_creat]; simp [hn, encodeAll, zeros]
        · rw [← hg, hs]; rfl
      | some old =>
        obtain ⟨k, hk⟩ := r.get_file H d segs i old hs
        obtain ⟨rs, h1, h2, h3⟩ := (segFile_iff H d i old k).mp hk
        have htr : trunc = false := by
          rcases h with h | h
          · exact h
          · rw [h1] at h; cases h
        refine ⟨k, (segFile_iff H _ i recs k).mpr ⟨rs, ?_, h2, ?_⟩⟩
        · rw [segData_creat]; simp [h1, htr]
        · rw [← hg, hs]; simpa using h3
    · simp only [c, ↓reduceIte] at hg
      obtain ⟨k, hk⟩ := r.get_file H d segs i recs hg
      obtain ⟨rs, h1, h2, h3⟩ := (segFile_iff H d i recs k).mp hk
      exact ⟨k, (segFile_iff H _ i recs k).mpr ⟨rs, by rw [segData_creat]; simp [c, h1], h2, h3⟩⟩

/-- appending one framed record to an unsealed segment file -/
theorem SegRel.append (H : Bytes → Bytes) (d : Disk) (segs : List (Nat × Recs Bytes))
    (r : SegRel H d segs) (t : Nat) (rec : Rec) (hrec : rec.WF) (old : Recs Bytes)
    (hold : segGet segs t = some old) (hk : SegFile H d t old 0) :
    SegRel H (d.apply (.write (.seg t) (encodeEntry H rec)))
      (segInsert segs t (some (rec.ver, rec.payload))) ∧
    SegFile H (d.apply (.write (.seg t) (encodeEntry H rec))) t (old ++ [(rec.ver, rec.payload)]) 0 := by
  obtain ⟨rs, h1, h2, h3⟩ := (segFile_iff H d t old 0).mp hk
  have hnew : SegFile H (d.apply (.write (.seg t) (encodeEntry H rec))) t
      (old ++ [(rec.ver, rec.payload)]) 0 := by
    refine (segFile_iff H _ t _ 0).mpr ⟨rs ++ [rec], ?_, ?_, ?_⟩
    · rw [segData_write]
      simp only [↓reduceIte, h1, Option.map_some, Option.some.injEq]
      simp [encodeAll_append, encodeAll, zeros]
    · intro x hx
      rcases List.mem_append.mp hx with hx | hx
      · exact h2 x hx
      · simp only [List.mem_singleton] at hx; subst hx; exact hrec
    · simp [toPairs, ← h3]
  refine ⟨?_, hnew⟩
  apply SegRel.of_get H _ _ (segInsert_sorted segs r.sorted t _)
  · intro i
    rw [segGet_segInsert segs r.sorted, has_seg_iff, segData_write]
    by_cases c : i = t
    · subst c; simp [h1]
    · simp only [c, ↓reduceIte]
      rw [r.get_isSome H d segs i, has_seg_iff]
  · intro i recs hg
    rw [segGet_segInsert segs r.sorted] at hg
    by_cases c : i = t
    · subst c
      simp only [↓reduceIte, hold, Option.getD_some, Option.toList_some, Option.some.injEq] at hg
      subst hg
      exact ⟨0, hnew⟩
    · simp only [c, ↓reduceIte] at hg
      obtain ⟨k, hk'⟩ := r.get_file H d segs i recs hg
      obtain ⟨rs', g1, g2, g3⟩ := (segFile_iff H d i recs k).mp hk'
      exact ⟨k, (segFile_iff H _ i recs k).mpr ⟨rs', by rw [segData_write]; simp [c, g1], g2, g3⟩⟩

/-- sealing a segment (appending the 44-byte sentinel) changes no record -/
theorem SegRel.seal (H : Bytes → Bytes) (d : Disk) (segs : List (Nat × Recs Bytes))
    (r : SegRel H d segs) (t : Nat) :
    SegRel H (d.apply (.write (.seg t) sentinel)) segs := by
  apply SegRel.of_get H _ _ r.sorted
  · intro i
    rw [has_seg_iff, segData_write, r.get_isSome H d segs i, has_seg_iff]
    by_cases c : i = t
    · subst c; cases segData d i <;> simp
    · simp [c]
  · intro i recs hg
    obtain ⟨k, hk⟩ := r.get_file H d segs i recs hg
    obtain ⟨rs, h1, h2, h3⟩ := (segFile_iff H d i recs k).mp hk
    by_cases c : i = t
    · subst c
      refine ⟨k + 1, (segFile_iff H _ i recs (k + 1)).mpr ⟨rs, ?_, h2, h3⟩⟩
      rw [segData_write]
      simp only [↓reduceIte, h1, Option.map_some, Option.some.injEq, List.append_assoc]
      simp only [zeros, sentinel, List.replicate_append_replicate]
      congr 2 <;> omega
    · exact ⟨k, (segFile_iff H _ i recs k).mpr ⟨rs, by rw [segData_write]; simp [c, h1], h2, h3⟩⟩

/-- unlinking a segment file -/
theorem SegRel.unlink (H : Bytes → Bytes) (d : Disk) (hw : d.WF) (segs : List (Nat × Recs Bytes))
    (r : SegRel H d segs) (j : Nat) :
    SegRel H (d.apply (.unlink (.seg j))) (removeSeg segs j) := by
  apply SegRel.of_get H _ _ (removeSeg_sorted segs r.sorted j)
  · intro i
    rw [segGet_removeSeg segs r.sorted, has_seg_iff, segData_unlink d hw]
    by_cases c : i = j
    · simp [c]
    · simp only [c, ↓reduceIte]
      rw [r.get_isSome H d segs i, has_seg_iff]
  · intro i recs hg
    rw [segGet_removeSeg segs r.sorted] at hg
    by_cases c : i = j
    · simp [c] at hg
    · simp only [c, ↓reduceIte] at hg
      obtain ⟨k, hk⟩ := r.get_file H d segs i recs hg
      obtain ⟨rs, h1, h2, h3⟩ := (segFile_iff H d i recs k).mp hk
      exact ⟨k, (segFile_iff H _ i recs k).mpr ⟨rs, by rw [segData_unlink d hw]; simp [c, h1], h2, h3⟩⟩

/-- a `SegFile` fact about segment `i` survives every event that leaves `i`'s bytes alone -/
theorem SegFile.of_data (H : Bytes → Bytes) (d d' : Disk) (i : Nat) (recs : Recs Bytes) (k : Nat)
    (h : SegFile H d i recs k) (hd : segData d' i = segData d i) : SegFile H d' i recs k := by
  obtain ⟨rs, h1, h2, h3⟩ := (segFile_iff H d i recs k).mp h
  exact (segFile_iff H d' i recs k).mpr ⟨rs, by rw [hd, h1], h2, h3⟩

end CasModel
