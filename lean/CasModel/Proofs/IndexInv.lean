import CasModel.Proofs.MapLemmas
/-
  P2: the index invariant and its preservation by `apply_logical_op` (no panic reachable),
  with the exact characterisation of the lookups and of the returned unreferenced hashes.
  `sz` is the size of THE content with a given hash (a function because contents with equal
  hashes are equal: the collision-freeness assumption, see DESIGN §9).
-/
namespace CasModel

section
variable {K : Type} [DecidableEq K] {lt : K → K → Bool}

structure IdxInv (lt : K → K → Bool) (sz : Bytes → Nat) (s : IndexState K) : Prop where
  sorted : Sorted lt s.map
  mapSz : ∀ e ∈ s.map, e.2.size = sz e.2.hash
  rcNodup : (rcKeys s.rc).Nodup
  rcOK : ∀ h, rcGet s.rc h = if countHash s.map h = 0 then none else some (countHash s.map h)
  unique : s.uniqueBlobs = s.rc.length
  total : s.totalBytes = ((rcKeys s.rc).map sz).sum

theorem IdxInv.init (sz : Bytes → Nat) : IdxInv lt sz ({} : IndexState K) :=
  ⟨List.Pairwise.nil, by simp, by simp [rcKeys], by simp [rcGet], rfl, by simp [rcKeys]⟩

theorem countHash_pos_of_lookup {m : KMap K} {k : K} {p : Item} (h : kLookup m k = some p) :
    0 < countHash m p.hash := by
  have := kLookup_mem h
  unfold countHash
  apply List.length_pos_of_mem (a := (k, p))
  simp [List.mem_filter, this]

/-- referenced = some key maps to it -/
def Refd (s : IndexState K) (h : Bytes) : Prop := 0 < countHash s.map h

/-- effect of `increment_ref` under the invariant -/
theorem incRef_spec (sz : Bytes → Nat) (rc : RcMap) (hnd : (rcKeys rc).Nodup) (h : Bytes) (n : Nat)
    (hget : rcGet rc h = if n = 0 then none else some n) :
    let r := incRef rc h
    (rcKeys r.1).Nodup ∧ (∀ h', rcGet r.1 h' = if h' = h then some (n + 1) else rcGet rc h') ∧
    r.2 = decide (n = 0) ∧
    r.1.length = rc.length + (if n = 0 then 1 else 0) ∧
    ((rcKeys r.1).map sz).sum = ((rcKeys rc).map sz).sum + (if n = 0 then sz h else 0) := by
  intro r
  by_cases hn : n = 0
  · subst hn
    simp only [↓reduceIte] at hget
    have hnm : h ∉ rcKeys rc := by
      intro hm
      -- a key that is present has a value
      clear r
      induction rc with
      | nil => simp [rcKeys] at hm
      | cons e rc ih =>
        obtain ⟨h0, c0⟩ := e
        simp only [rcGet] at hget
        by_cases x : h0 = h
        · simp [x] at hget
        · simp only [x, ↓reduceIte] at hget
          simp only [rcKeys, List.map_cons, List.mem_cons] at hm
          rcases hm with hm | hm
          · exact x hm.symm
          · simp only [rcKeys, List.map_cons, List.nodup_cons] at hnd
            exact ih hnd.2 hget hm
    have hr : r = (rcSet rc h 1, true) := by simp [r, incRef, hget]
    rw [hr]
    have hk := rcKeys_rcSet_new rc h 1 hnm
    refine ⟨?_, ?_, by simp, ?_, ?_⟩
    · rw [hk]
      exact List.nodup_append.mpr ⟨hnd, by simp, by
        intro a ha b hb; simp at hb; subst hb; intro e; subst e; exact hnm ha⟩
    · intro h'; simp [rcGet_rcSet]
    · have : (rcSet rc h 1).length = (rcKeys (rcSet rc h 1)).length := by simp [rcKeys]
      rw [this, hk]; simp [rcKeys]
    · rw [hk]; simp
  · simp only [hn, ↓reduceIte] at hget
    have hm : h ∈ rcKeys rc := rcGet_some_mem rc h n hget
    have hr : r = (rcSet rc h (n + 1), false) := by
      simp only [r, incRef, hget]
      have : (n == 0) = false := by simp [hn]
      simp [this]
    rw [hr]
    have hk := rcKeys_rcSet_mem rc h (n + 1) hm
    refine ⟨by rw [hk]; exact hnd, ?_, by simp [hn], ?_, ?_⟩
    · intro h'; simp [rcGet_rcSet]
    · have : (rcSet rc h (n+1)).length = (rcKeys (rcSet rc h (n+1))).length := by simp [rcKeys]
      rw [this, hk]; simp [rcKeys, hn]
    · rw [hk]; simp [hn]

/-- effect of `decrement_ref` on a hash with count `n ≥ 1` -/
theorem decRef_spec (sz : Bytes → Nat) (rc : RcMap) (hnd : (rcKeys rc).Nodup) (h : Bytes) (n : Nat)
    (hn : 0 < n) (hget : rcGet rc h = some n) :
    ∃ rc' freed, decRef rc h = .ok (rc', freed) ∧ (rcKeys rc').Nodup ∧
      (∀ h', rcGet rc' h' = if h' = h then (if n = 1 then none else some (n - 1)) else rcGet rc h') ∧
      freed = (if n = 1 then some h else none) ∧
      rc'.length + (if n = 1 then 1 else 0) = rc.length ∧
      ((rcKeys rc').map sz).sum + (if n = 1 then sz h else 0) = ((rcKeys rc).map sz).sum := by
  have hm : h ∈ rcKeys rc := rcGet_some_mem rc h n hget
  by_cases h1 : n = 1
  · subst h1
    refine ⟨rcErase rc h, some h, by simp [decRef, hget], ?_, ?_, by simp, ?_, ?_⟩
    · rw [rcKeys_rcErase]; exact hnd.erase h
    · intro h'; simp [rcGet_rcErase rc hnd]
    · have e1 : (rcErase rc h).length = (rcKeys (rcErase rc h)).length := by simp [rcKeys]
      have e2 : rc.length = (rcKeys rc).length := by simp [rcKeys]
      rw [e1, e2, rcKeys_rcErase, List.length_erase_of_mem hm]
      have : 0 < (rcKeys rc).length := List.length_pos_of_mem hm
      simp; omega
    · rw [rcKeys_rcErase]; simpa using sum_map_erase sz (rcKeys rc) h hm
  · have hk := rcKeys_rcSet_mem rc h (n - 1) hm
    refine ⟨rcSet rc h (n - 1), none, ?_, by rw [hk]; exact hnd, ?_, by simp [h1], ?_, ?_⟩
    · have a : ¬ n = 0 := by omega
      have b : ¬ n - 1 = 0 := by omega
      simp [decRef, hget, a, b]
    · intro h'; simp [rcGet_rcSet, h1]
    · have e1 : (rcSet rc h (n-1)).length = (rcKeys (rcSet rc h (n-1))).length := by simp [rcKeys]
      rw [e1, hk]; simp [rcKeys, h1]
    · rw [hk]; simp [h1]

end
end CasModel

namespace CasModel
section
variable {K : Type} [DecidableEq K] {lt : K → K → Bool}

@[simp] theorem statsAdd_map (a : IndexState K) (b : Bool) (c : Nat) : (statsAdd a b c).map = a.map := by
  unfold statsAdd; split <;> rfl
@[simp] theorem statsAdd_rc (a : IndexState K) (b : Bool) (c : Nat) : (statsAdd a b c).rc = a.rc := by
  unfold statsAdd; split <;> rfl
@[simp] theorem statsAdd_lp (a : IndexState K) (b : Bool) (c : Nat) :
    (statsAdd a b c).lastPersisted = a.lastPersisted := by
  unfold statsAdd; split <;> rfl
@[simp] theorem statsAdd_ss (a : IndexState K) (b : Bool) (c : Nat) :
    (statsAdd a b c).serializedSize = a.serializedSize := by
  unfold statsAdd; split <;> rfl
theorem statsAdd_unique (a : IndexState K) (b : Bool) (c : Nat) :
    (statsAdd a b c).uniqueBlobs = a.uniqueBlobs + (if b then 1 else 0) := by
  unfold statsAdd; split <;> simp
theorem statsAdd_total (a : IndexState K) (b : Bool) (c : Nat) :
    (statsAdd a b c).totalBytes = a.totalBytes + (if b then c else 0) := by
  unfold statsAdd; split <;> simp

/-- what one applied operation guarantees -/
structure StepOK (lt : K → K → Bool) (sz : Bytes → Nat) (s s' : IndexState K) (un : List Bytes) : Prop where
  inv : IdxInv lt sz s'
  unref : ∀ x, x ∈ un ↔ (0 < countHash s.map x ∧ countHash s'.map x = 0)
  nodup : un.Nodup
  persisted : s'.lastPersisted = s.lastPersisted
  serialized : s'.serializedSize = s.serializedSize

theorem applyPut_spec (so : StrictOrder lt) (sz : Bytes → Nat) (s : IndexState K)
    (inv : IdxInv lt sz s) (k : K) (h : Bytes) (size : Nat) (hsz : size = sz h) :
    ∃ s' un, applyPut lt s k h size = .ok (s', un) ∧ StepOK lt sz s s' un ∧
      (∀ k', kLookup s'.map k' = if k' = k then some ⟨h, size⟩ else kLookup s.map k') := by
  have hprev := kInsert_prev so s.map inv.sorted k ⟨h, size⟩
  have hcnt := countHash_kInsert so s.map inv.sorted k ⟨h, size⟩
  have hlook := kLookup_kInsert (lt := lt) s.map k ⟨h, size⟩
  have hsorted := kInsert_sorted so s.map inv.sorted k ⟨h, size⟩
  have hmapSz : ∀ e ∈ (kInsert lt s.map k ⟨h, size⟩).1, e.2.size = sz e.2.hash := by
    intro e he
    rcases kInsert_keys_mem s.map k ⟨h, size⟩ e he with he | he
    · subst he; exact hsz
    · exact inv.mapSz e he
  simp only at hcnt
  unfold applyPut
  simp only [hprev]
  cases hp : kLookup s.map k with
  | none =>
    simp only [hp] at hcnt
    obtain ⟨i1, i2, i3, i4, i5⟩ := incRef_spec sz s.rc inv.rcNodup h (countHash s.map h) (inv.rcOK h)
    refine ⟨_, _, rfl, ⟨⟨by simpa using hsorted, by simpa using hmapSz, by simpa using i1, ?_, ?_, ?_⟩,
      ?_, by simp, by simp, by simp⟩, by simpa using hlook⟩
    · intro x
      have hx := hcnt x
      simp only [statsAdd_map, statsAdd_rc]
      rw [i2 x]
      by_cases c : x = h
      · subst c; simp at hx; simp [hx]
      · have c' : ¬ h = x := fun e => c e.symm
        simp only [c, c', ↓reduceIte, Nat.add_zero] at hx ⊢
        rw [hx]; exact inv.rcOK x
    · rw [statsAdd_unique, i3]
      simp only [statsAdd_rc]
      by_cases c : countHash s.map h = 0
      · simp [c] at i4 ⊢; rw [i4, inv.unique]
      · simp [c] at i4 ⊢; rw [i4, inv.unique]
    · rw [statsAdd_total, i3]
      simp only [statsAdd_rc]
      by_cases c : countHash s.map h = 0
      · simp [c] at i5 ⊢; rw [i5, inv.total, hsz]
      · simp [c] at i5 ⊢; rw [i5, inv.total]
    · intro x
      have hx := hcnt x
      simp only [statsAdd_map, List.not_mem_nil, false_iff, not_and]
      intro hpos; omega
  | some p =>
    simp only [hp] at hcnt
    have hpm : (k, p) ∈ s.map := kLookup_mem hp
    have hpsz : p.size = sz p.hash := inv.mapSz _ hpm
    have hppos : 0 < countHash s.map p.hash := countHash_pos_of_lookup hp
    by_cases hne : p.hash = h
    · -- same blob: nothing changes but the stored item
      have hsize : p.size = size := by rw [hpsz, hne, hsz]
      simp only [hne, ne_eq, not_true_eq_false, ↓reduceIte, hsize]
      have hc : ∀ x, countHash (kInsert lt s.map k ⟨h, size⟩).1 x = countHash s.map x := by
        intro x; have := hcnt x; rw [hne] at this; omega
      refine ⟨_, _, rfl, ⟨⟨hsorted, hmapSz, inv.rcNodup, ?_, inv.unique, inv.total⟩, ?_, by simp, rfl, rfl⟩, hlook⟩
      · intro x; simp only [hc x]; exact inv.rcOK x
      · intro x; simp only [hc x, List.not_mem_nil, false_iff, not_and]; intro hpos; omega
    · simp only [ne_eq, hne, not_false_eq_true, ↓reduceIte]
      have hgetp : rcGet s.rc p.hash = some (countHash s.map p.hash) := by
        rw [inv.rcOK p.hash]; simp; omega
      obtain ⟨rc1, freed, d0, d1, d2, d3, d4, d5⟩ :=
        decRef_spec sz s.rc inv.rcNodup p.hash (countHash s.map p.hash) hppos hgetp
      simp only [d0]
      have hne' : ¬ h = p.hash := fun e => hne e.symm
      have hgeth : rcGet rc1 h = if countHash s.map h = 0 then none else some (countHash s.map h) := by
        rw [d2 h]; simp only [hne', ↓reduceIte]; exact inv.rcOK h
      obtain ⟨i1, i2, i3, i4, i5⟩ := incRef_spec sz rc1 d1 h (countHash s.map h) hgeth
      -- counts in the new map
      have hc : ∀ x, countHash (kInsert lt s.map k ⟨h, size⟩).1 x + (if p.hash = x then 1 else 0)
          = countHash s.map x + (if h = x then 1 else 0) := hcnt
      by_cases h1 : countHash s.map p.hash = 1
      · -- the old blob becomes unreferenced
        subst d3
        simp only [h1, ↓reduceIte] at d2 d4 d5 ⊢
        have hu : ¬ (s.uniqueBlobs = 0 ∨ s.totalBytes < p.size) := by
          rw [inv.unique, inv.total, hpsz]; omega
        simp only [statsDrop, hu, ↓reduceIte]
        refine ⟨_, _, rfl, ⟨⟨by simpa using hsorted, by simpa using hmapSz, by simpa using i1, ?_, ?_, ?_⟩,
          ?_, by simp, by simp, by simp⟩, by simpa using hlook⟩
        · intro x
          have hx := hc x
          simp only [statsAdd_map, statsAdd_rc]
          rw [i2 x]
          by_cases c : x = h
          · subst c
            simp only [↓reduceIte, hne] at hx ⊢
            have : countHash (kInsert lt s.map k ⟨x, size⟩).1 x = countHash s.map x + 1 := by omega
            simp [this]
          · have c' : ¬ h = x := fun e => c e.symm
            simp only [c, c', ↓reduceIte, Nat.add_zero] at hx ⊢
            rw [d2 x]
            by_cases cp : x = p.hash
            · subst cp
              simp only [↓reduceIte] at hx ⊢
              have : countHash (kInsert lt s.map k ⟨h, size⟩).1 p.hash = 0 := by omega
              simp [this]
            · have cp' : ¬ p.hash = x := fun e => cp e.symm
              simp only [cp, cp', ↓reduceIte, Nat.add_zero] at hx ⊢
              rw [hx]; exact inv.rcOK x
        · rw [statsAdd_unique, i3]
          simp only [statsAdd_rc]
          by_cases c : countHash s.map h = 0
          · simp [c] at i4 ⊢; rw [i4, inv.unique]; omega
          · simp [c] at i4 ⊢; rw [i4, inv.unique]; omega
        · rw [statsAdd_total, i3]
          simp only [statsAdd_rc]
          by_cases c : countHash s.map h = 0
          · simp [c] at i5 ⊢; rw [i5, inv.total, hsz, hpsz]; omega
          · simp [c] at i5 ⊢; rw [i5, inv.total, hpsz]; omega
        · intro x
          have hx := hc x
          simp only [statsAdd_map, Option.toList, List.mem_singleton]
          constructor
          · intro e; subst e
            simp only [↓reduceIte, hne'] at hx
            omega
          · intro ⟨a, b⟩
            by_cases cp : p.hash = x
            · exact cp.symm
            · simp only [cp, ↓reduceIte] at hx; omega
      · -- the old blob stays referenced by other keys
        subst d3
        simp only [h1, ↓reduceIte] at d2 d4 d5 ⊢
        refine ⟨_, _, rfl, ⟨⟨by simpa using hsorted, by simpa using hmapSz, by simpa using i1, ?_, ?_, ?_⟩,
          ?_, by simp, by simp, by simp⟩, by simpa using hlook⟩
        · intro x
          have hx := hc x
          simp only [statsAdd_map, statsAdd_rc]
          rw [i2 x]
          by_cases c : x = h
          · subst c
            simp only [↓reduceIte, hne] at hx ⊢
            have : countHash (kInsert lt s.map k ⟨x, size⟩).1 x = countHash s.map x + 1 := by omega
            simp [this]
          · have c' : ¬ h = x := fun e => c e.symm
            simp only [c, c', ↓reduceIte, Nat.add_zero] at hx ⊢
            rw [d2 x]
            by_cases cp : x = p.hash
            · subst cp
              simp only [↓reduceIte] at hx ⊢
              have : countHash (kInsert lt s.map k ⟨h, size⟩).1 p.hash = countHash s.map p.hash - 1 := by omega
              rw [this]
              have : ¬ countHash s.map p.hash - 1 = 0 := by omega
              simp [this]
            · have cp' : ¬ p.hash = x := fun e => cp e.symm
              simp only [cp, cp', ↓reduceIte, Nat.add_zero] at hx ⊢
              rw [hx]; exact inv.rcOK x
        · rw [statsAdd_unique, i3]
          simp only [statsAdd_rc]
          by_cases c : countHash s.map h = 0
          · simp [c] at i4 ⊢; rw [i4, inv.unique]; omega
          · simp [c] at i4 ⊢; rw [i4, inv.unique]; omega
        · rw [statsAdd_total, i3]
          simp only [statsAdd_rc]
          by_cases c : countHash s.map h = 0
          · simp [c] at i5 ⊢; rw [i5, inv.total, hsz]; omega
          · simp [c] at i5 ⊢; rw [i5, inv.total]; omega
        · intro x
          have hx := hc x
          simp only [statsAdd_map, Option.toList, List.not_mem_nil, false_iff, not_and]
          intro hpos
          by_cases cp : p.hash = x
          · subst cp; simp only [↓reduceIte, hne'] at hx; omega
          · simp only [cp, ↓reduceIte] at hx; omega

end
end CasModel

namespace CasModel
section
variable {K : Type} [DecidableEq K] {lt : K → K → Bool}

theorem applyRemoveKey_spec (so : StrictOrder lt) (sz : Bytes → Nat) (s : IndexState K)
    (inv : IdxInv lt sz s) (k : K) :
    ∃ s' un, applyRemoveKey s k = .ok (s', un) ∧ StepOK lt sz s s' un ∧
      (∀ k', kLookup s'.map k' = if k' = k then none else kLookup s.map k') ∧
      (∀ x, countHash s'.map x ≤ countHash s.map x) := by
  have hprev := kErase_prev s.map k
  have hcnt := countHash_kErase s.map k
  have hlook := kLookup_kErase so s.map inv.sorted k
  have hsorted := kErase_sorted (lt := lt) s.map inv.sorted k
  have hmapSz : ∀ e ∈ (kErase s.map k).1, e.2.size = sz e.2.hash :=
    fun e he => inv.mapSz e (kErase_mem s.map k e he)
  unfold applyRemoveKey
  simp only [hprev]
  cases hp : kLookup s.map k with
  | none =>
    refine ⟨s, [], rfl, ⟨inv, ?_, by simp, rfl, rfl⟩, ?_, fun _ => Nat.le_refl _⟩
    · intro x; simp only [List.not_mem_nil, false_iff, not_and]; intro h; omega
    · intro k'
      by_cases c : k' = k
      · subst c; simp [hp]
      · simp [c]
  | some p =>
    simp only [hp] at hcnt
    have hpm : (k, p) ∈ s.map := kLookup_mem hp
    have hpsz : p.size = sz p.hash := inv.mapSz _ hpm
    have hppos : 0 < countHash s.map p.hash := countHash_pos_of_lookup hp
    have hgetp : rcGet s.rc p.hash = some (countHash s.map p.hash) := by
      rw [inv.rcOK p.hash]; simp; omega
    obtain ⟨rc1, freed, d0, d1, d2, d3, d4, d5⟩ :=
      decRef_spec sz s.rc inv.rcNodup p.hash (countHash s.map p.hash) hppos hgetp
    simp only [d0]
    have hle : ∀ x, countHash (kErase s.map k).1 x ≤ countHash s.map x := by
      intro x; have := hcnt x; omega
    by_cases h1 : countHash s.map p.hash = 1
    · subst d3
      simp only [h1, ↓reduceIte] at d2 d4 d5 ⊢
      have hu : ¬ (s.uniqueBlobs = 0 ∨ s.totalBytes < p.size) := by
        rw [inv.unique, inv.total, hpsz]; omega
      simp only [statsDrop, hu, ↓reduceIte]
      refine ⟨_, _, rfl, ⟨⟨hsorted, hmapSz, d1, ?_, ?_, ?_⟩, ?_, by simp, rfl, rfl⟩, hlook, hle⟩
      · intro x
        have hx := hcnt x
        simp only
        rw [d2 x]
        by_cases cp : x = p.hash
        · subst cp
          simp only [↓reduceIte] at hx ⊢
          have : countHash (kErase s.map k).1 p.hash = 0 := by omega
          simp [this]
        · have cp' : ¬ p.hash = x := fun e => cp e.symm
          simp only [cp, cp', ↓reduceIte, Nat.add_zero] at hx ⊢
          rw [hx]; exact inv.rcOK x
      · simp only; rw [inv.unique]; omega
      · simp only; rw [inv.total, hpsz]; omega
      · intro x
        have hx := hcnt x
        simp only [List.mem_singleton]
        constructor
        · intro e; subst e; simp only [↓reduceIte] at hx; omega
        · intro ⟨a, b⟩
          by_cases cp : p.hash = x
          · exact cp.symm
          · simp only [cp, ↓reduceIte] at hx; omega
    · subst d3
      simp only [h1, ↓reduceIte] at d2 d4 d5 ⊢
      refine ⟨_, _, rfl, ⟨⟨hsorted, hmapSz, d1, ?_, ?_, ?_⟩, ?_, by simp, rfl, rfl⟩, hlook, hle⟩
      · intro x
        have hx := hcnt x
        simp only
        rw [d2 x]
        by_cases cp : x = p.hash
        · subst cp
          simp only [↓reduceIte] at hx ⊢
          have : countHash (kErase s.map k).1 p.hash = countHash s.map p.hash - 1 := by omega
          rw [this]
          have : ¬ countHash s.map p.hash - 1 = 0 := by omega
          simp [this]
        · have cp' : ¬ p.hash = x := fun e => cp e.symm
          simp only [cp, cp', ↓reduceIte, Nat.add_zero] at hx ⊢
          rw [hx]; exact inv.rcOK x
      · simp only; rw [inv.unique]; omega
      · simp only; rw [inv.total]; omega
      · intro x
        have hx := hcnt x
        simp only [List.not_mem_nil, false_iff, not_and]
        intro hpos
        by_cases cp : p.hash = x
        · subst cp; simp only [↓reduceIte] at hx; omega
        · simp only [cp, ↓reduceIte] at hx; omega

theorem applyRemove_spec (so : StrictOrder lt) (sz : Bytes → Nat) (s : IndexState K)
    (inv : IdxInv lt sz s) (ks : List K) :
    ∃ s' un, applyRemove s ks = .ok (s', un) ∧ StepOK lt sz s s' un ∧
      (∀ k', kLookup s'.map k' = if k' ∈ ks then none else kLookup s.map k') ∧
      (∀ x, countHash s'.map x ≤ countHash s.map x) := by
  induction ks generalizing s with
  | nil =>
    refine ⟨s, [], rfl, ⟨inv, ?_, by simp, rfl, rfl⟩, by simp, fun _ => Nat.le_refl _⟩
    intro x; simp only [List.not_mem_nil, false_iff, not_and]; intro h; omega
  | cons k ks ih =>
    obtain ⟨s1, u1, e1, ok1, l1, m1⟩ := applyRemoveKey_spec so sz s inv k
    obtain ⟨s2, u2, e2, ok2, l2, m2⟩ := ih s1 ok1.inv
    refine ⟨s2, u1 ++ u2, by simp [applyRemove, e1, e2], ⟨ok2.inv, ?_, ?_, ?_, ?_⟩, ?_, ?_⟩
    · intro x
      have a1 := ok1.unref x
      have a2 := ok2.unref x
      have b1 := m1 x
      have b2 := m2 x
      simp only [List.mem_append]
      constructor
      · rintro (h | h)
        · have := a1.mp h; omega
        · have := a2.mp h; omega
      · intro ⟨p, q⟩
        by_cases c : countHash s1.map x = 0
        · left; exact a1.mpr ⟨p, c⟩
        · right; exact a2.mpr ⟨by omega, q⟩
    · refine List.nodup_append.mpr ⟨ok1.nodup, ok2.nodup, ?_⟩
      intro a ha b hb e
      subst e
      have := (ok1.unref a).mp ha
      have := (ok2.unref a).mp hb
      omega
    · rw [ok2.persisted, ok1.persisted]
    · rw [ok2.serialized, ok1.serialized]
    · intro k'
      rw [l2 k', l1 k']
      by_cases c1 : k' = k
      · subst c1; simp
      · by_cases c2 : k' ∈ ks <;> simp [c1, c2]
    · intro x; exact Nat.le_trans (m2 x) (m1 x)

/-- an operation is consistent with the global content-size function -/
def OpOK (sz : Bytes → Nat) : Op K → Prop
  | .put _ h size => size = sz h
  | .remove _ => True

/-- the ordered-map specification of one logged operation -/
def specApply (f : K → Option Item) : Op K → (K → Option Item)
  | .put k h size => fun k' => if k' = k then some ⟨h, size⟩ else f k'
  | .remove ks => fun k' => if k' ∈ ks then none else f k'

/-- **P2**: from any state satisfying the invariant, any consistent operation is applied without
    panic, re-establishes the invariant, refines the ordered-map specification, and returns
    exactly the hashes that were referenced before and are not referenced after. -/
theorem applyOp_spec (so : StrictOrder lt) (sz : Bytes → Nat) (s : IndexState K)
    (inv : IdxInv lt sz s) (op : Op K) (hop : OpOK sz op) :
    ∃ s' un, applyOp lt s op = .ok (s', un) ∧ StepOK lt sz s s' un ∧
      (∀ k', kLookup s'.map k' = specApply (kLookup s.map) op k') := by
  cases op with
  | put k h size =>
    obtain ⟨s', un, e, ok, l⟩ := applyPut_spec so sz s inv k h size hop
    exact ⟨s', un, e, ok, l⟩
  | remove ks =>
    obtain ⟨s', un, e, ok, l, _⟩ := applyRemove_spec so sz s inv ks
    exact ⟨s', un, e, ok, l⟩

end
end CasModel
