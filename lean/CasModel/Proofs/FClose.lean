import CasModel.Proofs.FDispatch
import CasModel.Proofs.OpenSim
/-
  FClose: dropping the handle after a session that contained a failed append, and what the next
  `open` finds.  The drop flushes whatever the segment writer retained (the failed record becomes
  durable at that moment unless a snapshot already covers its version) and syncs the segment.
  The resulting disk is a `DCfg` of the fault-free theory (Proofs/Simulation) — hence `Recoverable`,
  hence everything proved about `open` applies (OpenSim: open succeeds, every prefix of its script is
  recoverable, memory and disk are `Tied` afterwards) — for a history `hist'` that replays to the
  same key map as the durable history.

  Two things need care:
  * the sealed-segment invariant of the fault-free theory is history-based (a segment carries a
    sentinel only if a later version was LOGGED).  After a consumed version that witness may be
    missing from the log, but then the snapshot version supplies it: whenever the last assigned
    version is on disk — as a record or as the snapshot version (`Fresh`; true after every
    completed operation) — a history with one no-op record at the snapshot version serves.
  * `Fresh` fails right after the failed operation itself; that case (close at once) is covered by
    Props/C14Image: the image is a prefix of the fault-free script.
-/
namespace CasModel
open Ghost

variable (H : Bytes → Bytes) (kind : KeyKind) (sz : Bytes → Nat) (N : Nat)

/-- the last assigned version is on disk, as the snapshot version or as a record -/
def Fresh (fs : FSys (KMap Bytes) Bytes) : Prop :=
  fs.sys.g.snapVer + 1 = fs.sys.next ∨
  ∃ rs p, segGet fs.sys.g.segs (Ghost.segOf N (fs.sys.next - 1)) = some rs ∧ (fs.sys.next - 1, p) ∈ rs

/-- the payload of a record that changes nothing -/
def noopRec : Bytes := serWalOp (.remove [])

theorem noop_wf : (RawOp.remove []).WF := by
  refine ⟨by simp [U32], ?_⟩
  intro k hk; cases hk

theorem noop_dec : deserWalOp noopRec = .ok (.remove []) := by
  have := C16_walop_roundtrip (.remove []) noop_wf []
  rwa [List.append_nil] at this

theorem noop_recOK : RecOK kind sz noopRec :=
  ⟨.remove [], .remove [], noop_dec, by simp [fromRaw], trivial⟩

theorem noop_step (s : KMap Bytes) : stepM kind s noopRec = .ok s := by
  simp [stepM, noop_dec, fromRaw, mapApply]

/-- the durable history with a no-op record at version `sv` (unless a record has that version) -/
def withNoop (sv : Nat) (hd : Recs Bytes) : Recs Bytes :=
  if ∃ e ∈ hd, e.1 = sv then hd else upto sv hd ++ [(sv, noopRec)] ++ above sv hd

theorem upto_lt_of_none (sv : Nat) (hd : Recs Bytes) (hn : ¬ ∃ e ∈ hd, e.1 = sv) :
    ∀ e ∈ upto sv hd, e.1 < sv := by
  intro e he
  simp only [upto, List.mem_filter, decide_eq_true_eq] at he
  have : e.1 ≠ sv := fun c => hn ⟨e, he.1, c⟩
  omega

theorem run_withNoop (sv : Nat) (hd : Recs Bytes) (hincr : Incr hd) (st : KMap Bytes)
    (hr : run (stepM kind) [] hd = .ok st) : run (stepM kind) [] (withNoop sv hd) = .ok st := by
  unfold withNoop
  split
  · exact hr
  · have hs := incr_split sv hd hincr
    rw [hs, run_append] at hr
    rw [run_append, run_append]
    cases h1 : run (stepM kind) [] (upto sv hd) with
    | error e => rw [h1] at hr; cases hr
    | ok s1 =>
      rw [h1] at hr
      simp only [run, noop_step] at hr ⊢
      exact hr

theorem mem_withNoop (sv : Nat) (hd : Recs Bytes) (e : Nat × Bytes) (he : e ∈ hd) : e ∈ withNoop sv hd := by
  unfold withNoop
  split
  · exact he
  · simp only [List.mem_append, List.mem_singleton]
    by_cases c : e.1 ≤ sv
    · left; left; simp [upto, he, c]
    · right; simp only [above, List.mem_filter, decide_eq_true_eq]; exact ⟨he, by omega⟩

theorem withNoop_has (sv : Nat) (hd : Recs Bytes) : ∃ e ∈ withNoop sv hd, e.1 = sv := by
  unfold withNoop
  split
  · rename_i h; exact h
  · exact ⟨(sv, noopRec), by simp, rfl⟩

theorem ginv_withNoop (hd : Recs Bytes) (g : GDisk (KMap Bytes) Bytes)
    (inv : GInv (stepM kind) [] N hd g) : GInv (stepM kind) [] N (withNoop g.snapVer hd) g := by
  unfold withNoop
  split
  · exact inv
  · rename_i hn
    have hlt := upto_lt_of_none g.snapVer hd hn
    have hup : upto g.snapVer (upto g.snapVer hd ++ [(g.snapVer, noopRec)] ++ above g.snapVer hd) =
        upto g.snapVer hd ++ [(g.snapVer, noopRec)] := by
      simp only [upto, List.filter_append, List.filter_filter, above]
      have h1 : List.filter (fun e : Nat × Bytes => decide (e.1 ≤ g.snapVer) && decide (e.1 ≤ g.snapVer)) hd =
          List.filter (fun e => decide (e.1 ≤ g.snapVer)) hd := by
        apply List.filter_congr; intro e _; simp
      have h2 : List.filter (fun e : Nat × Bytes => decide (e.1 ≤ g.snapVer) && decide (g.snapVer < e.1)) hd = [] := by
        simp only [List.filter_eq_nil_iff, Bool.and_eq_true, decide_eq_true_eq]
        intro e _; omega
      rw [h1, h2]; simp [List.filter_cons]
    have hab : above g.snapVer (upto g.snapVer hd ++ [(g.snapVer, noopRec)] ++ above g.snapVer hd) =
        above g.snapVer hd := by
      simp only [upto, List.filter_append, List.filter_filter, above]
      have h1 : List.filter (fun e : Nat × Bytes => decide (g.snapVer < e.1) && decide (e.1 ≤ g.snapVer)) hd = [] := by
        simp only [List.filter_eq_nil_iff, Bool.and_eq_true, decide_eq_true_eq]
        intro e _; omega
      have h2 : List.filter (fun e : Nat × Bytes => decide (g.snapVer < e.1) && decide (g.snapVer < e.1)) hd =
          List.filter (fun e => decide (g.snapVer < e.1)) hd := by
        apply List.filter_congr; intro e _; simp
      rw [h1, h2]; simp [List.filter_cons]
    refine ⟨?_, ?_, ?_⟩
    · -- strictly increasing
      have hi1 : Incr (upto g.snapVer hd) := List.Pairwise.sublist List.filter_sublist inv.incr
      have hi2 : Incr (above g.snapVer hd) := List.Pairwise.sublist List.filter_sublist inv.incr
      refine List.pairwise_append.mpr ⟨List.pairwise_append.mpr ⟨hi1, by simp, ?_⟩, hi2, ?_⟩
      · intro a ha b hb
        simp only [List.mem_singleton] at hb; subst hb
        exact hlt a ha
      · intro a ha b hb
        have hb' : g.snapVer < b.1 := by
          simp only [above, List.mem_filter, decide_eq_true_eq] at hb; exact hb.2
        rcases List.mem_append.mp ha with ha | ha
        · have := hlt a ha; omega
        · simp only [List.mem_singleton] at ha; subst ha; exact hb'
    · rw [hup, run_append, inv.snap]
      simp [run, noop_step]
    · rw [hab]; exact inv.recs

/-- **a closed handle after a faulty session leaves a disk of the fault-free theory** -/
theorem FCfg.toDCfg (fs : FSys (KMap Bytes) Bytes) (h : Hist Bytes) (d : Disk)
    (c : FCfg H kind sz N fs h d) (hpe : fs.pend = []) (hf : Fresh N fs) :
    DCfg H kind sz N { fs.sys with up := false } (withNoop fs.sys.g.snapVer h.hd) d := by
  have g := c.good
  obtain ⟨m1, m2, m3, m4, _⟩ := g.mem c.up
  obtain ⟨st, hst⟩ := g.runs
  refine ⟨⟨ginv_withNoop kind N h.hd fs.sys.g g.ginv, g.sorted, g.placed,
    ⟨st, run_withNoop kind _ _ g.ginv.incr st hst⟩, by simp⟩, c.rel, ?_, ?_⟩
  · intro e he
    unfold withNoop at he
    split at he
    · exact c.histOK e he
    · simp only [List.mem_append, List.mem_singleton] at he
      rcases he with (he | he) | he
      · exact c.histOK e ((List.mem_filter.mp he).1)
      · subst he; exact noop_recOK kind sz
      · exact c.histOK e ((List.mem_filter.mp he).1)
  · intro i recs hg
    rcases c.unsealed i recs hg with x | x
    · exact Or.inl x
    · right
      rcases hf with hf | ⟨rs, p, hrs, hp⟩
      · obtain ⟨e, he, hev⟩ := withNoop_has fs.sys.g.snapVer h.hd
        exact ⟨e, he, by rw [hev, hf]; exact x⟩
      · by_cases hc : fs.sys.g.snapVer < fs.sys.next - 1
        · -- the record is above the snapshot version, hence part of the durable history
          have hfl : (fs.sys.next - 1, p) ∈ flat fs.sys.g.segs :=
            (mem_flat _ _).mpr ⟨_, mem_of_segGet _ _ _ hrs, hp⟩
          have hab : (fs.sys.next - 1, p) ∈ above fs.sys.g.snapVer (flat fs.sys.g.segs) := by
            simp only [above, List.mem_filter, decide_eq_true_eq]; exact ⟨hfl, hc⟩
          rw [g.ginv.recs] at hab
          refine ⟨_, mem_withNoop _ _ _ ((List.mem_filter.mp hab).1), ?_⟩
          have : fs.sys.next - 1 + 1 = fs.sys.next := by omega
          simp only [this]; exact x
        · obtain ⟨e, he, hev⟩ := withNoop_has fs.sys.g.snapVer h.hd
          refine ⟨e, he, ?_⟩
          have : fs.sys.g.snapVer + 1 = fs.sys.next := by omega
          rw [hev, this]; exact x

end CasModel
